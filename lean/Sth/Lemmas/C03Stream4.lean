/-
C03 over histories with GC cycles — the algebra of `crashImage` for file families whose first files have
been unlinked.
Core Lean only.
-/
import Sth.Lemmas.C03Defs4
import Sth.Lemmas.C03Stream

namespace Sth

section Seg4
variable {fs fs' : NMap Bytes} {first P P' : Nat}

theorem SegOK4.table (h : SegOK4 fs fs' first P P') :
    fs' = (List.range' first (P' + 1 - first)).map fun m => (m, fileOf fs' m) := by
  apply NMap.ext_sorted h.sorted (sorted_range_map _ _ _)
  intro n
  rw [get?_range_map]
  have h1 := h.lo
  have h2 := h.le
  by_cases hlo : n < first
  · rw [if_neg (by omega)]
    exact h.gone' n hlo
  · by_cases hn : n ≤ P'
    · rw [if_pos (by omega)]
      cases hg : fs'.get? n with
      | none => exact absurd hg (h.all' n (by omega) hn)
      | some f => rw [fileOf_some hg]
    · rw [if_neg (by omega)]
      exact h.above' n (by omega)

theorem SegOK4.stream (h : SegOK4 fs fs' first P P') :
    famStream fs fs' = (List.range' first (P' + 1 - first)).map (famG fs fs') := by
  unfold famStream
  conv => lhs; rw [h.table]
  rw [List.map_map]
  rfl

theorem SegOK4.isNew_le (h : SegOK4 fs fs' first P P') {c : Nat} (hc1 : first ≤ c) (hc : c ≤ P) :
    (famG fs fs' c).isNew = false := by
  show (!fs.has c) = false
  rw [has_eq_true (h.all c hc1 hc)]; rfl

theorem SegOK4.isNew_gt (h : SegOK4 fs fs' first P P') {c : Nat} (hc : P < c) :
    (famG fs fs' c).isNew = true := by
  show (!fs.has c) = true
  rw [has_eq_false (h.above c hc)]; rfl

/-- every file of the new table is its old content followed by its growth -/
theorem SegOK4.grow (h : SegOK4 fs fs' first P P') {c : Nat} (hc1 : first ≤ c) (hc : c ≤ P') :
    fs'.get? c = some (fileOf fs c ++ (famG fs fs' c).bytes) := by
  show fs'.get? c = some (fileOf fs c ++ (fileOf fs' c).drop (fileOf fs c).length)
  by_cases h1 : c < P
  · rw [fileOf, fileOf, h.low c h1]
    cases hg : fs.get? c with
    | none => exact absurd hg (h.all c hc1 (by omega))
    | some f => simp
  · by_cases h2 : c = P
    · subst h2
      obtain ⟨g, hg⟩ := h.ext
      rw [fileOf_some hg, List.drop_left, hg]
    · have hn : fs.get? c = none := h.above c (by omega)
      rw [fileOf_none hn]
      cases hg : fs'.get? c with
      | none => exact absurd hg (h.all' c hc1 hc)
      | some f => rw [fileOf_some hg]; rfl

theorem SegOK4.cost_lt (h : SegOK4 fs fs' first P P') {c : Nat} (hc1 : first ≤ c) (hc : c < P) :
    (famG fs fs' c).cost = 0 := by
  have h1 := h.isNew_le hc1 (Nat.le_of_lt hc)
  unfold PG.cost
  rw [h1]
  show (if false = true then 1 else 0) + ((fileOf fs' c).drop (fileOf fs c).length).length = 0
  rw [fileOf, fileOf, h.low c hc]
  simp

theorem SegOK4.cost_gt (h : SegOK4 fs fs' first P P') {c : Nat} (hc : P < c) :
    (famG fs fs' c).cost ≠ 0 := by
  unfold PG.cost
  rw [h.isNew_gt hc, if_pos rfl]
  omega

/-- a file whose growth is empty is unchanged -/
theorem SegOK4.same (h : SegOK4 fs fs' first P P') {c : Nat} (hc1 : first ≤ c) (hc : c ≤ P')
    (h0 : (famG fs fs' c).cost = 0) : fs'.get? c = fs.get? c := by
  have hP : c ≤ P := Nat.le_of_not_lt fun hlt => h.cost_gt hlt h0
  have hb : (famG fs fs' c).bytes = [] := by
    unfold PG.cost at h0
    exact List.eq_nil_of_length_eq_zero (by omega)
  rw [h.grow hc1 hc, hb, List.append_nil]
  cases hg : fs.get? c with
  | none => exact absurd hg (h.all c hc1 hP)
  | some f => rw [fileOf_some hg]

theorem SegOK4.pNext (h : SegOK4 fs fs' first P P') {c : Nat} (hc : P ≤ c) (len : Nat) :
    pNext ((List.range' (c + 1) len).map (famG fs fs')) = if len = 0 then none else some (c + 1) := by
  cases len with
  | zero => rfl
  | succ len =>
    rw [if_neg (by omega), List.range'_succ, List.map_cons]
    unfold Sth.pNext
    rw [List.find?_cons_of_pos (by simpa using h.cost_gt (show P < c + 1 by omega))]
    show (if (famG fs fs' (c + 1)).isNew = true then some (c + 1) else none) = some (c + 1)
    rw [if_pos (h.isNew_gt (by omega))]

/-- the image with the cut at file `c`: `X` is complete below `c` and old from `c` on, `X1` is `X` with
    (possibly) a prefix of the growth of file `c`, and the next file may have been created early -/
theorem SegOK4.cut_early (h : SegOK4 fs fs' first P P') {c : Nat} {X X1 : NMap Bytes} {o : Option Nat}
    (hc : P ≤ c) (hc' : c ≤ P')
    (hge : ∀ n, c ≤ n → X.get? n = fs.get? n) (hlo : ∀ n, n < c → X.get? n = fs'.get? n)
    (hoth : ∀ n, n ≠ c → X1.get? n = X.get? n)
    (hcut : X1.get? c = X.get? c ∨
      ∃ t, X1.get? c = some (fileOf fs c ++ (famG fs fs' c).bytes.take t))
    (ho : o = none ∨ (o = some (c + 1) ∧ c + 1 ≤ P' ∧ X1.get? c ≠ none)) :
    CutImg fs fs' (match (generalizing := false) o with
      | some m => X1.set m (fileOf X1 m ++ [])
      | none => X1) := by
  have hfc : first ≤ c := Nat.le_trans h.lo hc
  have hcut' : X1.get? c = fs.get? c ∨
      ∃ g t, fs'.get? c = some (fileOf fs c ++ g) ∧ X1.get? c = some (fileOf fs c ++ g.take t) := by
    rcases hcut with h1 | ⟨t, ht⟩
    · exact Or.inl (h1.trans (hge c (Nat.le_refl _)))
    · exact Or.inr ⟨_, t, h.grow hfc hc', ht⟩
  rcases ho with rfl | ⟨rfl, h1, h2⟩
  · refine ⟨c, fun n hn => ?_, hcut', Or.inl ?_, fun n hn => ?_⟩
    · rw [hoth n (by omega)]; exact hlo n hn
    · rw [hoth _ (by omega)]; exact hge _ (by omega)
    · rw [hoth _ (by omega)]; exact hge _ (by omega)
  · have hn1 : X1.get? (c + 1) = none := by
      rw [hoth _ (by omega), hge _ (by omega)]; exact h.above _ (by omega)
    show CutImg fs fs' (X1.set (c + 1) (fileOf X1 (c + 1) ++ []))
    rw [fileOf_none hn1]
    refine ⟨c, fun n hn => ?_, ?_, Or.inr ⟨?_, h.above _ (by omega), h.all' _ (by omega) h1, ?_⟩,
      fun n hn => ?_⟩
    · rw [NMap.get?_set_ne _ _ (by omega), hoth n (by omega)]; exact hlo n hn
    · rw [NMap.get?_set_ne _ _ (by omega)]; exact hcut'
    · rw [NMap.get?_set_ne _ _ (by omega)]; exact h2
    · rw [NMap.get?_set_eq]; rfl
    · rw [NMap.get?_set_ne _ _ (by omega), hoth _ (by omega)]; exact hge _ (by omega)

/-- the images of the family along its ascending stream, from file `c` on -/
theorem SegOK4.fimg_from (h : SegOK4 fs fs' first P P') :
    ∀ (len c : Nat) (X : NMap Bytes) (k : Nat) (e : Bool),
    first ≤ c → c + len = P' + 1 →
    (∀ n, c ≤ n → X.get? n = fs.get? n) → (∀ n, n < c → X.get? n = fs'.get? n) →
    CutImg fs fs' (fimg X ((List.range' c len).map (famG fs fs')) k e) ∧
    (plen ((List.range' c len).map (famG fs fs')) ≤ k →
      ∀ n, (fimg X ((List.range' c len).map (famG fs fs')) k e).get? n = fs'.get? n) := by
  intro len
  induction len with
  | zero =>
    intro c X k e hfc hcl hge hlo
    have hP := h.le
    refine ⟨⟨c, hlo, Or.inl (hge c (Nat.le_refl _)), Or.inl (hge _ (by omega)),
      fun n hn => hge n (by omega)⟩, fun _ n => ?_⟩
    show X.get? n = fs'.get? n
    by_cases hn : n < c
    · exact hlo n hn
    · rw [hge n (by omega), h.above n (by omega), h.above' n (by omega)]
  | succ len ih =>
    intro c X k e hfc hcl hge hlo
    have hcP' : c ≤ P' := by omega
    rw [List.range'_succ, List.map_cons, plen_cons, fimg]
    have hnn : (famG fs fs' c).n = c := rfl
    rw [hnn]
    by_cases hc0 : (famG fs fs' c).cost = 0
    · rw [if_pos hc0, hc0, Nat.zero_add]
      refine ih (c + 1) X k e (by omega) (by omega) (fun n hn => hge n (by omega)) fun n hn => ?_
      by_cases hnc : n = c
      · subst hnc; rw [hge n (Nat.le_refl _), h.same hfc hcP' hc0]
      · exact hlo n (by omega)
    · rw [if_neg hc0]
      have hPc : P ≤ c := Nat.le_of_not_lt fun hlt => hc0 (h.cost_lt hfc hlt)
      have hX : fileOf X c = fileOf fs c := fileOf_congr1 (hge c (Nat.le_refl _))
      have hpn := h.pNext hPc len
      by_cases hk : k = 0
      · rw [if_pos hk]
        refine ⟨?_, fun hle => absurd hle (by omega)⟩
        by_cases hen : (e && !(famG fs fs' c).isNew) = true
        · rw [if_pos hen]
          refine h.cut_early hPc hcP' hge hlo (fun _ _ => rfl) (Or.inl rfl) ?_
          rw [hpn]
          by_cases hl : len = 0
          · rw [if_pos hl]; exact Or.inl rfl
          · rw [if_neg hl]
            refine Or.inr ⟨rfl, by omega, ?_⟩
            rw [hge c (Nat.le_refl _)]
            refine h.all c hfc (Nat.le_of_not_lt fun hlt => ?_)
            rw [h.isNew_gt hlt] at hen
            simp at hen
        · rw [if_neg hen]
          exact h.cut_early (o := none) hPc hcP' hge hlo (fun _ _ => rfl) (Or.inl rfl) (Or.inl rfl)
      · rw [if_neg hk]
        by_cases hle : (famG fs fs' c).cost ≤ k
        · rw [if_pos hle, hX]
          have hset : (X.set c (fileOf fs c ++ (famG fs fs' c).bytes)).get? c = fs'.get? c := by
            rw [NMap.get?_set_eq, h.grow hfc hcP']
          have := ih (c + 1) (X.set c (fileOf fs c ++ (famG fs fs' c).bytes)) (k - (famG fs fs' c).cost) e
            (by omega) (by omega)
            (fun n hn => by rw [NMap.get?_set_ne _ _ (by omega)]; exact hge n (by omega))
            (fun n hn => by
              by_cases hnc : n = c
              · subst hnc; exact hset
              · rw [NMap.get?_set_ne _ _ hnc]; exact hlo n (by omega))
          exact ⟨this.1, fun hle' => this.2 (by omega)⟩
        · rw [if_neg hle, hX]
          refine ⟨?_, fun hle' => absurd hle' (by omega)⟩
          have hoth : ∀ n, n ≠ c → (X.set c (fileOf fs c ++ (famG fs fs' c).bytes.take
              (k - if (famG fs fs' c).isNew = true then 1 else 0))).get? n = X.get? n :=
            fun n hn => NMap.get?_set_ne _ _ hn
          have hcut : (X.set c (fileOf fs c ++ (famG fs fs' c).bytes.take
              (k - if (famG fs fs' c).isNew = true then 1 else 0))).get? c =
              some (fileOf fs c ++ (famG fs fs' c).bytes.take
                (k - if (famG fs fs' c).isNew = true then 1 else 0)) := NMap.get?_set_eq _ _ _
          by_cases he : e = true
          · simp only [if_pos he]
            refine h.cut_early hPc hcP' hge hlo hoth (Or.inr ⟨_, hcut⟩) ?_
            rw [hpn]
            by_cases hl : len = 0
            · rw [if_pos hl]; exact Or.inl rfl
            · rw [if_neg hl]
              refine Or.inr ⟨rfl, by omega, ?_⟩
              rw [hcut]; exact fun hh => by cases hh
          · simp only [if_neg he]
            exact h.cut_early (o := none) hPc hcP' hge hlo hoth (Or.inr ⟨_, hcut⟩) (Or.inl rfl)

end Seg4

/-- the images of one family of numbered files that starts at an arbitrary first file -/
theorem fimg_family4 {fs fs' : NMap Bytes} (h : SegOK4' fs fs') (k : Nat) (e : Bool) :
    CutImg fs fs' (fimg fs (famStream fs fs') k e) ∧
    (plen (famStream fs fs') ≤ k → ∀ n, (fimg fs (famStream fs fs') k e).get? n = fs'.get? n) := by
  rcases h with h | ⟨first, P, P', h⟩
  · exact fimg_family (Or.inl h) k e
  · rw [h.stream]
    have h1 := h.lo
    have h2 := h.le
    exact h.fimg_from (P' + 1 - first) first fs k e (Nat.le_refl _) (by omega) (fun _ _ => rfl)
      (fun n hn => by rw [h.gone n hn, h.gone' n hn])

theorem crashImage_priG_family4 (d0 : Disk) {fs fs' : NMap Bytes} (h : SegOK4' fs fs')
    (hd : d0.pfiles = fs) (k : Nat) (e : Bool) :
    ∃ X, crashImage d0 ((famStream fs fs').map priG) k e = { d0 with pfiles := X } ∧ CutImg fs fs' X ∧
      (streamLength ((famStream fs fs').map priG) ≤ k → ∀ n, X.get? n = fs'.get? n) :=
  ⟨fimg fs (famStream fs fs') k e, by rw [crashImage_priG, hd], (fimg_family4 h k e).1,
    by rw [streamLength_priG]; exact (fimg_family4 h k e).2⟩

theorem crashImage_idxG_family4 (d0 : Disk) {fs fs' : NMap Bytes} (h : SegOK4' fs fs')
    (hd : d0.ifiles = fs) (k : Nat) (e : Bool) :
    ∃ X, crashImage d0 ((famStream fs fs').map idxG) k e = { d0 with ifiles := X } ∧ CutImg fs fs' X ∧
      (streamLength ((famStream fs fs').map idxG) ≤ k → ∀ n, X.get? n = fs'.get? n) :=
  ⟨fimg fs (famStream fs fs') k e, by rw [crashImage_idxG, hd], (fimg_family4 h k e).1,
    by rw [streamLength_idxG]; exact (fimg_family4 h k e).2⟩

/-- `crashImage_form` for families that start at an arbitrary first file -/
theorem crashImage_form4 (d : Disk) (pf1 : NMap Bytes) (cid1 : Option Bytes) (if2 : NMap Bytes)
    (fr : Option Bytes) (hP : SegOK4' d.pfiles pf1) (hC : OptExt d.cidfile cid1)
    (hI : SegOK4' d.ifiles if2) (hF : OptExt d.free fr) (k : Nat) (early : Bool) :
    ∃ fiP cf fiI fr',
      crashImage d (appendStream d { d with pfiles := pf1, cidfile := cid1, ifiles := if2, free := fr })
          k early = { d with pfiles := fiP, cidfile := cf, ifiles := fiI, free := fr' } ∧
      CutImg d.pfiles pf1 fiP ∧ OptCut d.cidfile cid1 cf ∧ CutImg d.ifiles if2 fiI ∧
      OptCut d.free fr fr' ∧
      (fiI = d.ifiles ∨ ((∀ n, fiP.get? n = pf1.get? n) ∧ cf = cid1)) ∧
      (streamLength (appendStream d { d with pfiles := pf1, cidfile := cid1, ifiles := if2, free := fr })
          ≤ k →
        (∀ n, fiP.get? n = pf1.get? n) ∧ cf = cid1 ∧ (∀ n, fiI.get? n = if2.get? n) ∧ fr' = fr) := by
  rw [appendStream_eq]
  simp only [streamLength_append]
  have h1 : ∀ g ∈ (famStream d.pfiles pf1).map priG,
      ∀ g' ∈ optG .cid d.cidfile cid1 ++ ((famStream d.ifiles if2).map idxG ++ optG .free d.free fr),
      g.id.sameClass g'.id = false := by
    intro g hg g' hg'
    obtain ⟨n, hn⟩ := id_of_mem_priG hg
    rw [hn]
    rcases List.mem_append.mp hg' with h' | h'
    · rw [id_of_mem_optG h']; rfl
    · rcases List.mem_append.mp h' with h' | h'
      · obtain ⟨m, hm⟩ := id_of_mem_idxG h'
        rw [hm]; rfl
      · rw [id_of_mem_optG h']; rfl
  have h2 : ∀ g ∈ optG .cid d.cidfile cid1,
      ∀ g' ∈ (famStream d.ifiles if2).map idxG ++ optG .free d.free fr,
      g.id.sameClass g'.id = false := by
    intro g hg g' _
    rw [id_of_mem_optG hg]; rfl
  have h3 : ∀ g ∈ (famStream d.ifiles if2).map idxG, ∀ g' ∈ optG .free d.free fr,
      g.id.sameClass g'.id = false := by
    intro g hg g' hg'
    obtain ⟨n, hn⟩ := id_of_mem_idxG hg
    rw [hn, id_of_mem_optG hg']; rfl
  rw [crashImage_append _ _ h1]
  by_cases hkP : k < streamLength ((famStream d.pfiles pf1).map priG)
  · -- the cut is in the primary files
    rw [if_pos hkP]
    obtain ⟨X, hX, hXc, _⟩ := crashImage_priG_family4 d hP rfl k early
    exact ⟨X, d.cidfile, d.ifiles, d.free, hX, hXc, Or.inl rfl, cutImg_unchanged _ _, Or.inl rfl, Or.inl rfl,
      fun hle => absurd hle (by omega)⟩
  · rw [if_neg hkP]
    obtain ⟨X1, hX1, hX1c, hX1f⟩ := crashImage_priG_family4 d hP rfl
      (streamLength ((famStream d.pfiles pf1).map priG)) false
    have hX1f := hX1f (Nat.le_refl _)
    rw [hX1, crashImage_append _ _ h2]
    by_cases hkC : k - streamLength ((famStream d.pfiles pf1).map priG) <
        streamLength (optG .cid d.cidfile cid1)
    · -- the cut is in the CID file
      rw [if_pos hkC]
      obtain ⟨cf, hcf, hcfc, _⟩ := crashImage_cid { d with pfiles := X1 } hC rfl
        (k - streamLength ((famStream d.pfiles pf1).map priG)) early
      exact ⟨X1, cf, d.ifiles, d.free, hcf, hX1c, hcfc, cutImg_unchanged _ _, Or.inl rfl, Or.inl rfl,
        fun hle => absurd hle (by omega)⟩
    · rw [if_neg hkC]
      obtain ⟨c1, hc1, hc1c, hc1f⟩ := crashImage_cid { d with pfiles := X1 } hC rfl
        (streamLength (optG .cid d.cidfile cid1)) false
      have hc1f := hc1f (Nat.le_refl _)
      rw [hc1, crashImage_append _ _ h3]
      by_cases hkI : k - streamLength ((famStream d.pfiles pf1).map priG) -
          streamLength (optG .cid d.cidfile cid1) < streamLength ((famStream d.ifiles if2).map idxG)
      · -- the cut is in the index files
        rw [if_pos hkI]
        obtain ⟨Y, hY, hYc, _⟩ := crashImage_idxG_family4 { d with pfiles := X1, cidfile := c1 } hI rfl
          (k - streamLength ((famStream d.pfiles pf1).map priG) -
            streamLength (optG .cid d.cidfile cid1)) early
        exact ⟨X1, c1, Y, d.free, hY, hX1c, hc1c, hYc, Or.inl rfl, Or.inr ⟨hX1f, hc1f⟩,
          fun hle => absurd hle (by omega)⟩
      · rw [if_neg hkI]
        obtain ⟨Y1, hY1, hY1c, hY1f⟩ := crashImage_idxG_family4 { d with pfiles := X1, cidfile := c1 } hI
          rfl (streamLength ((famStream d.ifiles if2).map idxG)) false
        have hY1f := hY1f (Nat.le_refl _)
        rw [hY1]
        obtain ⟨f', hf', hf'c, hf'f⟩ := crashImage_free
          { d with pfiles := X1, cidfile := c1, ifiles := Y1 } hF rfl
          (k - streamLength ((famStream d.pfiles pf1).map priG) -
            streamLength (optG .cid d.cidfile cid1) - streamLength ((famStream d.ifiles if2).map idxG))
          early
        exact ⟨X1, c1, Y1, f', hf', hX1c, hc1c, hY1c, hf'c, Or.inr ⟨hX1f, hc1f⟩,
          fun hle => ⟨hX1f, hc1f, hY1f, hf'f (by omega)⟩⟩

end Sth
