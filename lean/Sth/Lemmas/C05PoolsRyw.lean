/-
C05 (pools layer) — L2: the view of a bucket along a run is the fold of the mutators applied to it, in the order of
their sections, whatever the flushes do; a read returns the view at its info section.
-/
import Sth.Lemmas.C05PoolsLin

namespace Sth.ConcPools

variable {U V : Type} {ap : U → Option V → Option V}

/-- the mutator code the next section of `t` applies to bucket `b` (if it is a mutator section on `b`) -/
def updOf (b : Bucket) (t : Thread U V) : List U :=
  match t.pc, t.prog with
  | .idle, .upd b' u :: _ => if b' = b then [u] else []
  | _, _ => []

/-- the mutator codes applied to bucket `b` by the sections of the schedule, in order -/
def updsOn (ap : U → Option V → Option V) (b : Bucket) : State U V → List Nat → List U
  | _, [] => []
  | s, i :: r => (match s.threads[i]? with | some t => updOf b t | none => []) ++ updsOn ap b (stepD ap s i) r

theorem step_upd_isSome {s : State U V} {i : Nat} {t : Thread U V} {b : Bucket} {u : U} {rest : List (Op U)}
    (ht : s.threads[i]? = some t) (hpc : t.pc = .idle) (hp : t.prog = .upd b u :: rest) :
    ∃ s', step ap s i = some s' := by
  simp only [step, ht, hpc, hp]
  cases ap u (view s b) <;> exact ⟨_, rfl⟩

/-- `view_sec` in fold form -/
theorem view_sec_fold {s s' : State U V} {i : Nat} {t : Thread U V} (hs : Inv s) (ht : s.threads[i]? = some t)
    (h : SecC ap s i t s') (b : Bucket) :
    view s' b = (updOf b t).foldl (fun r u => applyU ap u r) (view s b) := by
  have hv := view_sec hs ht h b
  cases h with
  | updSome b' u rest v hpc hp hap =>
    simp only [hpc, hp] at hv
    rw [hv]
    by_cases hb : b = b'
    · subst hb; simp [updOf, hpc, hp, applyU]
    · have hb' : ¬ b' = b := fun e => hb e.symm
      simp [updOf, hpc, hp, hb, hb']
  | updNone b' u rest hpc hp hap =>
    simp only [hpc, hp] at hv
    rw [hv]
    by_cases hb : b = b'
    · subst hb; simp [updOf, hpc, hp, applyU]
    · have hb' : ¬ b' = b := fun e => hb e.symm
      simp [updOf, hpc, hp, hb, hb']
  | info b' rest hpc hp => simp only [hpc, hp] at hv; simp [updOf, hpc, hp, hv]
  | flushEmpty rest hpc hp hl he => simp only [hpc, hp] at hv; simp [updOf, hpc, hp, hv]
  | flushSwap rest hpc hp hl he => simp only [hpc, hp] at hv; simp [updOf, hpc, hp, hv]
  | readDone b' inf hpc => simp only [hpc] at hv; simp [updOf, hpc, hv]
  | append hpc => simp only [hpc] at hv; simp [updOf, hpc, hv]
  | publish blks hpc => simp only [hpc] at hv; simp [updOf, hpc, hv]
  | release hpc => simp only [hpc] at hv; simp [updOf, hpc, hv]

/-- one scheduling step applies to the view of `b` exactly the mutator codes `updOf` lists (none or one) -/
theorem view_stepD {s : State U V} (hs : Inv s) (i : Nat) (b : Bucket) :
    view (stepD ap s i) b =
      (match s.threads[i]? with | some t => updOf b t | none => []).foldl (fun r u => applyU ap u r) (view s b) := by
  unfold stepD
  cases h : step ap s i with
  | none =>
    simp only [Option.getD_none]
    cases ht : s.threads[i]? with
    | none => rfl
    | some t =>
      simp only []
      unfold updOf
      split
      · rename_i b' u rest hpc hp
        obtain ⟨s', hs'⟩ := step_upd_isSome (ap := ap) ht hpc hp
        rw [h] at hs'; cases hs'
      · rfl
  | some s' =>
    obtain ⟨t, ht, hsec⟩ := step_secC hs.fl1 hs.fl2 h
    simp only [Option.getD_some, ht]
    exact view_sec_fold hs ht hsec b

/-- THE ABSTRACT REGISTER.  Along every schedule of the correct protocol the view of `b` is the fold of all
    mutators of `b`, in the order of their sections, over the initial view — whatever the flushes do. -/
theorem view_run {s : State U V} (hs : Inv s) (sched : List Nat) (b : Bucket) :
    view (run ap s sched) b = (updsOn ap b s sched).foldl (fun r u => applyU ap u r) (view s b) := by
  induction sched generalizing s with
  | nil => rfl
  | cons i r ih =>
    rw [run_cons, ih (inv_stepD hs i)]
    simp only [updsOn, List.foldl_append]
    rw [view_stepD hs i b]

/-- thread `j` is past the info section of a read whose value is `r` and will return it, or has returned it:
    `o` = what it had returned before -/
def ReadSees (s : State U V) (j : Nat) (o : List (Res V)) (r : Option V) : Prop :=
  ∃ t, s.threads[j]? = some t ∧
    ((∃ b inf, t.pc = .readInfo b inf ∧ t.out = o ∧ infoVal s.file inf = r ∧
        ∀ p, inf = .pos (some p) → p < s.file.length) ∨
     (∃ more, t.out = o ++ .got r :: more))

theorem readSees_stepD {s : State U V} (hs : Inv s) {j : Nat} {o : List (Res V)} {r : Option V}
    (h : ReadSees s j o r) (i : Nat) : ReadSees (stepD ap s i) j o r := by
  unfold stepD
  cases hst : step ap s i with
  | none => exact h
  | some s' =>
    simp only [Option.getD_some]
    obtain ⟨ti, hti, hsec⟩ := step_secC hs.fl1 hs.fl2 hst
    obtain ⟨t, ht, hcase⟩ := h
    obtain ⟨⟨x, hx⟩, _⟩ := secC_globals hsec
    obtain ⟨t', hthr, hc⟩ := prog_own hsec
    by_cases hij : j = i
    · subst hij
      rw [ht] at hti; cases hti
      refine ⟨t', by rw [hthr]; simp [lt_of_get ht], ?_⟩
      rcases hcase with ⟨b, inf, hpc, hout, hr, _⟩ | ⟨more, hout⟩
      · simp only [step, ht, hpc, Option.some.injEq] at hst
        subst hst
        have : t' = ret ti (.got (infoVal s.file inf)) := by
          have h1 : (setThread s j (ret ti (.got (infoVal s.file inf)))).threads[j]? = some t' := by
            rw [hthr]; simp [lt_of_get ht]
          rw [setThread_threads_self ht] at h1; exact (Option.some.inj h1).symm
        subst this
        exact Or.inr ⟨[], by simp [ret, hout, hr]⟩
      · rcases hc with ⟨_, h2⟩ | ⟨r', _, h2⟩
        · exact Or.inr ⟨more, by rw [h2, hout]⟩
        · exact Or.inr ⟨more ++ [r'], by rw [h2, hout]; simp⟩
    · refine ⟨t, by rw [hthr, List.getElem?_set_ne (fun e => hij e.symm)]; exact ht, ?_⟩
      rcases hcase with ⟨b, inf, hpc, hout, hr, hlt⟩ | hm
      · refine Or.inl ⟨b, inf, hpc, hout, by rw [hx, infoVal_append hlt]; exact hr, ?_⟩
        intro p hp; have := hlt p hp; rw [hx, List.length_append]; omega
      · exact Or.inr hm

theorem readSees_run {s : State U V} (hs : Inv s) {j : Nat} {o : List (Res V)} {r : Option V}
    (h : ReadSees s j o r) (sched : List Nat) : ReadSees (run ap s sched) j o r := by
  induction sched generalizing s with
  | nil => exact h
  | cons i rest ih => rw [run_cons]; exact ih (inv_stepD hs i) (readSees_stepD hs h i)

/-- the info section of a read of `b` leaves the thread seeing `view s b` -/
theorem readSees_info {s : State U V} (hs : Inv s) {j : Nat} {t : Thread U V} {b : Bucket} {rest : List (Op U)}
    (ht : s.threads[j]? = some t) (hpc : t.pc = .idle) (hp : t.prog = .read b :: rest) :
    ReadSees (stepD ap s j) j t.out (view s b) := by
  have hst : step ap s j = some (setThread s j { t with pc := .readInfo b (infoOf s b) }) := by
    simp only [step, ht, hpc, hp, hs.fl2, Bool.false_and, Bool.false_eq_true, if_false]
    rfl
  simp only [stepD, hst, Option.getD_some]
  refine ⟨_, setThread_threads_self ht, Or.inl ⟨b, infoOf s b, rfl, rfl, infoVal_infoOf s b, ?_⟩⟩
  intro p hpp
  unfold infoOf at hpp
  split at hpp
  · cases hpp
  · simp only [Info.pos.injEq] at hpp; exact hs.tableOK b p hpp

end Sth.ConcPools
