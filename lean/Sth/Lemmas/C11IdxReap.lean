import Sth.Lemmas.C11Idx

/-!
C11, index side: what reapIndexRecords does to a file no bucket refers into — every record fails the
busy check, is marked deleted and merged into one span from offset 0, and the file is truncated to
length zero (result `stale`).  Core Lean only.
-/

namespace Sth.C11

/-- in a file no bucket refers into, no record is busy -/
theorem idxBusy_free {m : Mem} {f : Nat} (hfree : IdxFileFree m f) {b : Nat} (hb : b < 2 ^ m.bits)
    (pos : Nat) : idxBusy m b (pos + 4) f = some false := by
  unfold idxBusy
  rw [if_neg (by omega)]
  cases hg : m.buckets.get? b with
  | none =>
    have : localizeIdx m.imax ((none : Option Nat).getD 0) = (0, 0) := by
      unfold localizeIdx; simp
    simp only [this]
    have : ¬ (0 = f ∧ 0 = pos + 4) := by omega
    simp
  | some p =>
    have hmem := NMap.mem_of_get? hg
    have := (idxFileFree_iff m f).mp hfree (b, p) hmem
    simp only [Option.getD_some]
    rcases this with h0 | h0
    · have h0' : p = 0 := h0
      subst h0'
      have : localizeIdx m.imax 0 = (0, 0) := by unfold localizeIdx; simp
      simp only [this]
      have : ¬ (0 = f ∧ 0 = pos + 4) := by omega
      simp
    · have h0' : (localizeIdx m.imax p).2 ≠ f := h0
      have : ¬ ((localizeIdx m.imax p).2 = f ∧ (localizeIdx m.imax p).1 = pos + 4) :=
        fun hx => h0' hx.1
      simp [this]

theorem setDeleted_merge0 (b1 : Bytes) (s2 : GSpan) (rest : Bytes) :
    setDeleted ((⟨true, b1⟩ : GSpan).bytes ++ (s2.bytes ++ rest)) 0 (b1.length + 4 + s2.body.length) =
      (⟨true, b1 ++ s2.bytes⟩ : GSpan).bytes ++ rest := by
  have h := setDeleted_merge [] b1 s2 rest
  rw [List.nil_append, List.nil_append, List.length_nil] at h
  exact h

theorem setDeleted_kill0 (body rest : Bytes) :
    setDeleted ((⟨false, body⟩ : GSpan).bytes ++ rest) 0 body.length =
      (⟨true, body⟩ : GSpan).bytes ++ rest := by
  have h := setDeleted_kill [] body rest
  rw [List.nil_append, List.nil_append, List.length_nil] at h
  exact h

section
variable {m : Mem} {f : Nat}

/-- the loop once a merged deleted span from offset 0 exists -/
theorem reapIdx_free_loop (hfree : IdxFileFree m f) :
    ∀ (fuel : Nat) (rest : List GSpan) (b : Bytes) (st : ReapSt),
      st.file = gbytes ((⟨true, b⟩ : GSpan) :: rest) → st.pos = 4 + b.length → st.freeAt = 0 →
      st.freeAtSize = b.length → st.busyAt = -1 → st.budget = none →
      (∀ s ∈ rest, IdxSpanOK m.bits s) → (gbytes ((⟨true, b⟩ : GSpan) :: rest)).length < two31 →
      (reapIdxLoop m f fuel st).1 = .kept ∧ (reapIdxLoop m f fuel st).2.freeAt = 0 ∧
        (reapIdxLoop m f fuel st).2.busyAt = -1 ∧ (reapIdxLoop m f fuel st).2.budget = none := by
  intro fuel
  induction fuel with
  | zero =>
    intro rest b st _ _ h3 _ h5 h6 _ _
    exact ⟨rfl, h3, h5, h6⟩
  | succ fuel ih =>
    intro rest b st h1 h2 h3 h4 h5 h6 hok hlen
    obtain ⟨file, pos, freeAt, busyAt, freeAtSize, budget⟩ := st
    simp only at h1 h2 h3 h4 h5 h6
    subst h1 h2 h3 h4 h5 h6
    have hpre : (gbytes [(⟨true, b⟩ : GSpan)]).length = 4 + b.length := by
      rw [gbytes_cons, gbytes_nil, List.append_nil, GSpan.bytes_length]
    rw [reapIdxLoop]
    have hp : poll none = (false, none) := rfl
    simp only [hp, Bool.false_eq_true, if_false]
    cases rest with
    | nil =>
      have : readU32 (gbytes [(⟨true, b⟩ : GSpan)]) (4 + b.length) = none := by
        rw [← hpre]; exact readU32_end _
      rw [this]
      exact ⟨rfl, rfl, rfl, rfl⟩
    | cons s rest' =>
      have hs := hok s (by simp)
      have efile : gbytes ((⟨true, b⟩ : GSpan) :: s :: rest') =
          gbytes [(⟨true, b⟩ : GSpan)] ++ (s.bytes ++ gbytes rest') := by
        rw [gbytes_cons, gbytes_cons, gbytes_cons, gbytes_nil, List.append_nil]
      have hrd : readU32 (gbytes ((⟨true, b⟩ : GSpan) :: s :: rest')) (4 + b.length) = some s.raw := by
        rw [efile, ← hpre]; exact readU32_span _ s _ hs.1
      rw [hrd]
      simp only
      have hgt : ((0 : Int) > -1) := by decide
      -- the size of the merged span
      have hfs : b.length + 4 + s.body.length < two31 := by
        rw [efile, List.length_append, hpre, List.length_append, GSpan.bytes_length] at hlen
        omega
      have hmerge : setDeleted (gbytes ((⟨true, b⟩ : GSpan) :: s :: rest')) 0
          (b.length + 4 + s.body.length) = gbytes ((⟨true, b ++ s.bytes⟩ : GSpan) :: rest') := by
        rw [gbytes_cons, gbytes_cons, setDeleted_merge0, gbytes_cons]
      have hlen' : (gbytes ((⟨true, b ++ s.bytes⟩ : GSpan) :: rest')).length < two31 := by
        rw [← hmerge]
        unfold setDeleted writeAt
        have hB : (le32 (b.length + 4 + s.body.length + two31)).length = 4 := leEnc_length 4 _
        simp only [List.take_zero, List.nil_append, List.length_append, hB, List.length_drop,
          Nat.zero_add]
        have : 4 ≤ (gbytes ((⟨true, b⟩ : GSpan) :: s :: rest')).length := by
          rw [efile, List.length_append, hpre]; omega
        omega
      have hblen : (b ++ s.bytes).length = b.length + 4 + s.body.length := by
        rw [List.length_append, GSpan.bytes_length]; omega
      by_cases hdead : s.dead = true
      · -- an already deleted span: merged
        have hraw : s.raw = s.body.length + two31 := by unfold GSpan.raw; simp [hdead]
        rw [if_pos (by rw [hraw]; omega)]
        simp only [hgt, if_true]
        have : s.raw - two31 = s.body.length := by rw [hraw]; omega
        rw [this, if_neg (by omega)]
        simp only [Int.toNat_zero]
        rw [hmerge]
        exact ih rest' (b ++ s.bytes) _ rfl (by simp only; rw [hblen]; omega) rfl
          (by simp only; rw [hblen]) rfl rfl (fun x hx => hok x (by simp [hx])) hlen'
      · -- a record: not busy, marked and merged
        have hd' : s.dead = false := by cases h : s.dead <;> simp_all
        have hraw : s.raw = s.body.length := by unfold GSpan.raw; simp [hd']
        rw [if_neg (by rw [hraw]; omega), hraw]
        have hbody : readAt (gbytes ((⟨true, b⟩ : GSpan) :: s :: rest')) (4 + b.length + 4)
            s.body.length = some s.body := by
          rw [efile, ← hpre]; exact readAt_span_body _ s _
        rw [hbody]
        simp only
        rw [idxBusy_free hfree (hs.2 hd') (4 + b.length)]
        simp only [hgt, if_true]
        rw [if_neg (by omega)]
        simp only [Int.toNat_zero]
        rw [hmerge]
        exact ih rest' (b ++ s.bytes) _ rfl (by simp only; rw [hblen]; omega) rfl
          (by simp only; rw [hblen]) rfl rfl (fun x hx => hok x (by simp [hx])) hlen'

/-- reapIndexRecords on a file no bucket refers into: everything is marked, merged and cut off -/
theorem reapIndexRecords_free (hfree : IdxFileFree m f) (ss : List GSpan)
    (hok : ∀ s ∈ ss, IdxSpanOK m.bits s) (hlen : (gbytes ss).length < two31) :
    reapIndexRecords m f (gbytes ss) none = (.stale, [], none) := by
  cases ss with
  | nil => unfold reapIndexRecords; rfl
  | cons s rest =>
    have hs := hok s (by simp)
    have hne : (gbytes (s :: rest)).isEmpty = false := by
      rw [gbytes_cons]
      have : 0 < (s.bytes ++ gbytes rest).length := by
        rw [List.length_append, GSpan.bytes_length]; omega
      cases h : s.bytes ++ gbytes rest with
      | nil => rw [h] at this; cases this
      | cons _ _ => rfl
    unfold reapIndexRecords
    rw [hne]
    simp only [Bool.false_eq_true, if_false]
    -- the first iteration creates the deleted span at offset 0
    have hstep : ∃ st : ReapSt, reapIdxLoop m f ((gbytes (s :: rest)).length + 2)
          { file := gbytes (s :: rest), budget := none } =
          reapIdxLoop m f ((gbytes (s :: rest)).length + 1) st ∧
        st.file = gbytes ((⟨true, s.body⟩ : GSpan) :: rest) ∧ st.pos = 4 + s.body.length ∧
        st.freeAt = 0 ∧ st.freeAtSize = s.body.length ∧ st.busyAt = -1 ∧ st.budget = none := by
      rw [reapIdxLoop]
      have hp : poll none = (false, none) := rfl
      simp only [hp, Bool.false_eq_true, if_false]
      have hrd : readU32 (gbytes (s :: rest)) 0 = some s.raw := by
        have := readU32_span [] s (gbytes rest) hs.1
        simp only [List.nil_append, List.length_nil] at this
        rw [gbytes_cons]; exact this
      rw [hrd]
      simp only
      have hngt : ¬ ((-1 : Int) > -1) := by decide
      by_cases hdead : s.dead = true
      · have hraw : s.raw = s.body.length + two31 := by unfold GSpan.raw; simp [hdead]
        rw [if_pos (by rw [hraw]; omega)]
        simp only [hngt, if_false]
        have : s.raw - two31 = s.body.length := by rw [hraw]; omega
        rw [this]
        refine ⟨_, rfl, ?_, by simp, rfl, rfl, rfl, rfl⟩
        simp only
        have : s = ⟨true, s.body⟩ := by cases s; simp_all
        rw [← this]
      · have hd' : s.dead = false := by cases h : s.dead <;> simp_all
        have hraw : s.raw = s.body.length := by unfold GSpan.raw; simp [hd']
        have hb31 : s.body.length < two31 := hs.1
        rw [if_neg (by rw [hraw]; omega), hraw]
        have hbody : readAt (gbytes (s :: rest)) (0 + 4) s.body.length = some s.body := by
          have := readAt_span_body [] s (gbytes rest)
          simp only [List.nil_append, List.length_nil] at this
          rw [gbytes_cons]; exact this
        rw [hbody]
        simp only
        rw [idxBusy_free hfree (hs.2 hd') 0]
        simp only [hngt, if_false]
        refine ⟨_, rfl, ?_, by simp, rfl, rfl, rfl, rfl⟩
        have hs' : s = ⟨false, s.body⟩ := by cases s; simp_all
        have := setDeleted_kill0 s.body (gbytes rest)
        show setDeleted (gbytes (s :: rest)) 0 s.body.length = gbytes (⟨true, s.body⟩ :: rest)
        rw [gbytes_cons, gbytes_cons]
        rw [← this, ← hs']
    obtain ⟨st, e0, e1, e2, e3, e4, e5, e6⟩ := hstep
    rw [e0]
    have hlen1 : (gbytes ((⟨true, s.body⟩ : GSpan) :: rest)).length < two31 := by
      rw [gbytes_cons, List.length_append, GSpan.bytes_length] at hlen ⊢
      exact hlen
    obtain ⟨r1, r2, r3, r4⟩ := reapIdx_free_loop hfree ((gbytes (s :: rest)).length + 1) rest s.body st
      e1 e2 e3 e4 e5 e6 (fun x hx => hok x (by simp [hx])) hlen1
    cases hr : reapIdxLoop m f ((gbytes (s :: rest)).length + 1) st with
    | mk r st' =>
    rw [hr] at r1 r2 r3 r4
    simp only at r1 r2 r3 r4
    subst r1
    simp only
    have hgt : st'.freeAt > st'.busyAt := by rw [r2, r3]; decide
    rw [if_pos hgt, if_pos r2, r2, r4]
    simp only [Int.toNat_zero]
    unfold truncateTo
    simp

end

end Sth.C11
