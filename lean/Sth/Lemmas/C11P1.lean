import Sth.Lemmas.C11B9

/-!
C11 Q3c without `PassesOK` (1): a whole primary GC cycle keeps the size invariant `BInv`, whatever the
outcome of its hand-over passes.

On the repaired model (D33) a cycle cut short inside a hand-over pass takes the files in which the pass
newly marked records out of the visited set (`unvisit`), so the `vs` clause of `BInv` — a visited file
without a record span is empty — survives the cut: `pass_b0` (Sth/Lemmas/C11B8.lean) already says, for
ANY outcome of a pass, that the stable files the pass does not affect stay stable.  Core Lean only.
-/

namespace Sth.C11P

open Sth.C11 Sth.C13H Sth.C13X Sth.C11D Sth.C11B

/-- membership in the visited set after `unvisit` -/
theorem mem_unvisit {m : Mem} {aff : List Nat} {f : Nat} (h : f ∈ (unvisit m aff).visited) :
    f ∈ m.visited.filter (fun f => !aff.contains f) := h

theorem unvisit_pnext (m : Mem) (aff : List Nat) : (unvisit m aff).pnext = m.pnext := rfl
theorem unvisit_pmax (m : Mem) (aff : List Nat) : (unvisit m aff).pmax = m.pmax := rfl
theorem unvisit_pfileNum (m : Mem) (aff : List Nat) : (unvisit m aff).pfileNum = m.pfileNum := rfl

/-- not affected by `a ++ b`: affected by neither -/
theorem filter_append_aff {vis a b : List Nat} {f : Nat}
    (h : f ∈ vis.filter (fun f => !(a ++ b).contains f)) :
    f ∈ (vis.filter (fun f => !a.contains f)).filter (fun f => !b.contains f) := by
  rw [List.mem_filter] at h
  obtain ⟨h1, h2⟩ := h
  have hn12 : (a ++ b).contains f = false := by
    cases hq : (a ++ b).contains f
    · rfl
    · rw [hq] at h2; cases h2
  have hn1 : a.contains f = false := by
    cases hq : a.contains f
    · rfl
    · have : f ∈ a ++ b := List.mem_append_left _ (List.contains_iff_mem.mp hq)
      rw [List.contains_iff_mem.mpr this] at hn12; cases hn12
  have hn2 : b.contains f = false := by
    cases hq : b.contains f
    · rfl
    · have : f ∈ a ++ b := List.mem_append_right _ (List.contains_iff_mem.mp hq)
      rw [List.contains_iff_mem.mpr this] at hn12; cases hn12
  rw [List.mem_filter, List.mem_filter]
  exact ⟨⟨h1, by rw [hn1]; rfl⟩, by rw [hn2]; rfl⟩

/-- sizes, and the stable files that are left of the visited set: the size invariant after `unvisit` -/
theorem binv_unvisit {R : Nat} {m : Mem} {d : Disk} {aff : List Nat} (h0 : B0 R m d)
    (hV : VS (m.visited.filter (fun f => !aff.contains f)) m d) : BInv R (unvisit m aff) d :=
  ⟨h0.pz, h0.sz, h0.fl, fun f hf => hV f (mem_unvisit hf)⟩

section
variable {c : Cfg} {U : List (Bytes × Bytes)} {cfg : Cfg} {spec : Spec} {B R : Nat}

/-- a whole primary GC cycle, complete or cut short anywhere — inside a hand-over pass or in the loop -/
theorem primaryGC_b_all (hU : Univ c.kind U) {m : Mem} {d : Disk} {k pf : Nat} {psp : Nat → List GSpan}
    (hS : HState c U cfg m d spec k B pf psp) (hk : 3 * k < 1073741824) (lowUse : Nat)
    (budget : Budget) (hI : BInv R m d) (h31 : m.pmax + 4 + R ≤ two31)
    {res : PgcRes × Mem × Disk × Budget}
    (hres : primaryGC m d lowUse budget = some res) : BInv R res.2.1 res.2.2.1 := by
  unfold primaryGC at hres
  have hp1 := freelistPass_h hU hS (by omega) budget
  obtain ⟨x1, x2, x3, x4, x5, x6⟩ := pass_b0 hU hS (by omega) budget hI.b0 hI.vs'
  cases hf1 : freelistPass m d budget with
  | mk r1 rest =>
  obtain ⟨m1, d1, b1, aff1⟩ := rest
  rw [hf1] at hres hp1 x1 x2 x3 x4 x5 x6
  simp only at hres hp1 x1 x2 x3 x4 x5 x6
  rw [← x3] at x6
  cases r1 with
  | flushErr => exact absurd rfl x2
  | err => exact absurd rfl x1
  | deadline =>
    -- cut short inside the first pass: the files it marked leave the visited set
    simp only [Option.some.injEq] at hres
    subst hres
    exact binv_unvisit x5 x6
  | ok =>
  obtain ⟨psp1, hS1'⟩ : ∃ psp1, HState c U cfg m1 d1 spec k B pf psp1 := by
    rcases hp1 with h | h
    · cases h
    · exact h
  have hp2 := freelistPass_h hU hS1' (by omega) b1
  obtain ⟨z1, z2, z3, z4, z5, z6⟩ := pass_b0 hU hS1' (by omega) b1 x5 x6
  cases hf2 : freelistPass m1 d1 b1 with
  | mk r2 rest =>
  obtain ⟨m2, d2, b2, aff2⟩ := rest
  rw [hf2] at hres hp2 z1 z2 z3 z4 z5 z6
  simp only at hres hp2 z1 z2 z3 z4 z5 z6
  rw [← z3] at z6
  -- the files of the visited set that neither pass affected are stable
  have hV12 : VS (m2.visited.filter (fun f => !(aff1 ++ aff2).contains f)) m2 d2 :=
    fun f hf => z6 f (filter_append_aff hf)
  cases r2 with
  | flushErr => exact absurd rfl z2
  | err => exact absurd rfl z1
  | deadline =>
    -- cut short inside the second pass: the files marked by either pass leave the visited set
    simp only [Option.some.injEq] at hres
    subst hres
    exact binv_unvisit z5 hV12
  | ok =>
  obtain ⟨psp2, hS2'⟩ : ∃ psp2, HState c U cfg m2 d2 spec k B pf psp2 := by
    rcases hp2 with h | h
    · cases h
    · exact h
  have hS3 := hS2'.visited (m2.visited.filter (fun f => !(aff1 ++ aff2).contains f))
  have hh : d2.phdr = some ⟨m2.pmax, pf⟩ := hS2'.gs.hdr
  rw [hh] at hres
  simp only [Option.some.injEq] at hres
  subst hres
  have hle : m2.pfileNum ≤ k := by
    have h1 := GInv.pfile_le (s := ⟨cfg, m2, d2⟩) hS2'.gs.g
    have h2 : m2.precFileNum ≤ k := hS2'.gs.g.cntF
    exact Nat.le_trans h1 h2
  have hI3 : BInv R { m2 with visited := m2.visited.filter (fun f => !(aff1 ++ aff2).contains f) } d2 :=
    binv_unvisit (aff := aff1 ++ aff2) z5 hV12
  exact pgcGo_b hU lowUse (m2.pfileNum - pf + 1) pf pf
    { m2 with visited := m2.visited.filter (fun f => !(aff1 ++ aff2).contains f) } d2 b2 0 k psp2 hS3
    hI3 (by show m2.pmax + 4 + R ≤ two31; rw [z4, x4]; exact h31)
    (Nat.le_refl _) hS2'.gs.log.le (by show k + 2 * (m2.pfileNum - pf) < 1073741824; omega)

end

end Sth.C11P
