/-
C03 — the algebra of `crashImage` over the stream `appendStream` reads off a flush: the image is the old
disk with a cut through the primary files, the CID file, the index files and the freelist, in this order.
Core Lean only.
-/
import Sth.Lemmas.C03Defs

namespace Sth

/-- no event, no early creation: the old disk -/
theorem crashImage_zero (d : Disk) (st : List Growth) : crashImage d st 0 false = d := by
  induction st with
  | nil => rfl
  | cons g rest ih =>
    unfold crashImage
    split
    · exact ih
    · simp

/-! ### stream length, splitting a stream -/

theorem streamLength_nil : streamLength [] = 0 := rfl

theorem streamLength_cons (g : Growth) (s : List Growth) :
    streamLength (g :: s) = g.cost + streamLength s := by
  simp [streamLength]

theorem streamLength_append (a b : List Growth) :
    streamLength (a ++ b) = streamLength a + streamLength b := by
  simp [streamLength, List.sum_append]

theorem nextNew_append (id : FileId) (A B : List Growth)
    (h : ∀ g' ∈ B, id.sameClass g'.id = false) : nextNew id (A ++ B) = nextNew id A := by
  unfold nextNew
  rw [List.find?_append]
  cases hA : A.find? (fun g => g.cost ≠ 0) with
  | some g => simp
  | none =>
    simp only [Option.none_or]
    cases hB : B.find? (fun g => g.cost ≠ 0) with
    | none => rfl
    | some g' =>
      have := h g' (List.mem_of_find?_eq_some hB)
      simp [this]

/-- a stream whose second part never continues a file class of the first part: the image is an image of
    the first part, or the complete first part followed by an image of the second -/
theorem crashImage_append (A B : List Growth)
    (h : ∀ g ∈ A, ∀ g' ∈ B, g.id.sameClass g'.id = false) :
    ∀ (d : Disk) (k : Nat) (e : Bool), crashImage d (A ++ B) k e =
      if k < streamLength A then crashImage d A k e
      else crashImage (crashImage d A (streamLength A) false) B (k - streamLength A) e := by
  induction A with
  | nil =>
    intro d k e
    simp [streamLength_nil, crashImage]
  | cons g A ih =>
    intro d k e
    have ih' := ih (fun x hx => h x (List.mem_cons_of_mem _ hx))
    have hn : nextNew g.id (A ++ B) = nextNew g.id A :=
      nextNew_append _ _ _ (h g List.mem_cons_self)
    rw [List.cons_append, streamLength_cons]
    by_cases hc : g.cost = 0
    · rw [crashImage, if_pos hc, ih', hc, Nat.zero_add]
      rw [crashImage, if_pos hc]
      conv => rhs; rw [crashImage, if_pos hc]
    · by_cases hk : k = 0
      · subst hk
        rw [if_pos (by omega)]
        rw [crashImage, if_neg hc, if_pos rfl, hn]
        rw [crashImage, if_neg hc, if_pos rfl]
      · by_cases hle : g.cost ≤ k
        · rw [crashImage, if_neg hc, if_neg hk, if_pos hle, ih']
          by_cases hlt : k < g.cost + streamLength A
          · rw [if_pos hlt, if_pos (by omega)]
            rw [crashImage, if_neg hc, if_neg hk, if_pos hle]
          · rw [if_neg hlt, if_neg (by omega)]
            rw [crashImage.eq_2 d (g.cost + streamLength A) false g A, if_neg hc, if_neg (by omega),
              if_pos (by omega)]
            rw [show g.cost + streamLength A - g.cost = streamLength A by omega,
              show k - (g.cost + streamLength A) = k - g.cost - streamLength A by omega]
        · rw [if_pos (by omega)]
          rw [crashImage, if_neg hc, if_neg hk, if_neg hle, hn]
          rw [crashImage, if_neg hc, if_neg hk, if_neg hle]

/-! ### one family of numbered files, on the bare table -/

/-- a growth of a numbered file: number, created by the flush?, bytes appended -/
structure PG where
  n : Nat
  isNew : Bool
  bytes : Bytes

def PG.cost (g : PG) : Nat := (if g.isNew then 1 else 0) + g.bytes.length

def pNext (rest : List PG) : Option Nat :=
  match rest.find? (fun g => g.cost ≠ 0) with
  | some g => if g.isNew then some g.n else none
  | none => none

/-- `crashImage` restricted to one family of numbered files -/
def fimg (X : NMap Bytes) : List PG → Nat → Bool → NMap Bytes
  | [], _, _ => X
  | g :: rest, k, early =>
    if g.cost = 0 then fimg X rest k early
    else if k = 0 then
      if early && !g.isNew then
        match pNext rest with
        | some m => X.set m (fileOf X m ++ [])
        | none => X
      else X
    else if g.cost ≤ k then fimg (X.set g.n (fileOf X g.n ++ g.bytes)) rest (k - g.cost) early
    else
      let X1 := X.set g.n (fileOf X g.n ++ g.bytes.take (k - (if g.isNew then 1 else 0)))
      if early then
        match pNext rest with
        | some m => X1.set m (fileOf X1 m ++ [])
        | none => X1
      else X1

def plen (s : List PG) : Nat := (s.map PG.cost).sum

theorem plen_nil : plen [] = 0 := rfl

theorem plen_cons (g : PG) (s : List PG) : plen (g :: s) = g.cost + plen s := by
  simp [plen]

def priG (g : PG) : Growth := ⟨.pri g.n, g.isNew, g.bytes⟩
def idxG (g : PG) : Growth := ⟨.idx g.n, g.isNew, g.bytes⟩

theorem streamLength_priG (L : List PG) : streamLength (L.map priG) = plen L := by
  induction L with
  | nil => rfl
  | cons g L ih => rw [List.map_cons, streamLength_cons, plen_cons, ih]; rfl

theorem streamLength_idxG (L : List PG) : streamLength (L.map idxG) = plen L := by
  induction L with
  | nil => rfl
  | cons g L ih => rw [List.map_cons, streamLength_cons, plen_cons, ih]; rfl

theorem nextNew_priG (n : Nat) (L : List PG) :
    nextNew (.pri n) (L.map priG) = (pNext L).map FileId.pri := by
  unfold nextNew pNext
  rw [List.find?_map]
  have : ((fun g : Growth => decide (g.cost ≠ 0)) ∘ priG) = (fun g : PG => decide (g.cost ≠ 0)) := rfl
  rw [this]
  cases L.find? (fun g : PG => decide (g.cost ≠ 0)) with
  | none => rfl
  | some g =>
    simp only [Option.map_some, priG, FileId.sameClass, Bool.and_true]
    cases g.isNew <;> rfl

theorem nextNew_idxG (n : Nat) (L : List PG) :
    nextNew (.idx n) (L.map idxG) = (pNext L).map FileId.idx := by
  unfold nextNew pNext
  rw [List.find?_map]
  have : ((fun g : Growth => decide (g.cost ≠ 0)) ∘ idxG) = (fun g : PG => decide (g.cost ≠ 0)) := rfl
  rw [this]
  cases L.find? (fun g : PG => decide (g.cost ≠ 0)) with
  | none => rfl
  | some g =>
    simp only [Option.map_some, idxG, FileId.sameClass, Bool.and_true]
    cases g.isNew <;> rfl

theorem crashImage_priG (L : List PG) : ∀ (d0 : Disk) (k : Nat) (e : Bool),
    crashImage d0 (L.map priG) k e = { d0 with pfiles := fimg d0.pfiles L k e } := by
  induction L with
  | nil => intro d0 k e; rfl
  | cons g L ih =>
    intro d0 k e
    have hc : (priG g).cost = g.cost := rfl
    have hid : (priG g).id = .pri g.n := rfl
    have hnw : (priG g).isNew = g.isNew := rfl
    have hby : (priG g).bytes = g.bytes := rfl
    rw [List.map_cons, crashImage, fimg, hc, hid, hnw, hby, nextNew_priG]
    by_cases hc0 : g.cost = 0
    · simp only [if_pos hc0]; exact ih d0 k e
    · by_cases hk : k = 0
      · simp only [if_neg hc0, if_pos hk]
        split
        · cases pNext L <;> rfl
        · rfl
      · by_cases hle : g.cost ≤ k
        · simp only [if_neg hc0, if_neg hk, if_pos hle]
          rw [ih]; rfl
        · simp only [if_neg hc0, if_neg hk, if_neg hle]
          split
          · cases pNext L <;> rfl
          · rfl

theorem crashImage_idxG (L : List PG) : ∀ (d0 : Disk) (k : Nat) (e : Bool),
    crashImage d0 (L.map idxG) k e = { d0 with ifiles := fimg d0.ifiles L k e } := by
  induction L with
  | nil => intro d0 k e; rfl
  | cons g L ih =>
    intro d0 k e
    have hc : (idxG g).cost = g.cost := rfl
    have hid : (idxG g).id = .idx g.n := rfl
    have hnw : (idxG g).isNew = g.isNew := rfl
    have hby : (idxG g).bytes = g.bytes := rfl
    rw [List.map_cons, crashImage, fimg, hc, hid, hnw, hby, nextNew_idxG]
    by_cases hc0 : g.cost = 0
    · simp only [if_pos hc0]; exact ih d0 k e
    · by_cases hk : k = 0
      · simp only [if_neg hc0, if_pos hk]
        split
        · cases pNext L <;> rfl
        · rfl
      · by_cases hle : g.cost ≤ k
        · simp only [if_neg hc0, if_neg hk, if_pos hle]
          rw [ih]; rfl
        · simp only [if_neg hc0, if_neg hk, if_neg hle]
          split
          · cases pNext L <;> rfl
          · rfl

/-! ### the stream of one family, read off the tables before and after -/

def famG (fs fs' : NMap Bytes) (n : Nat) : PG :=
  ⟨n, !fs.has n, (fileOf fs' n).drop (fileOf fs n).length⟩

def famStream (fs l : NMap Bytes) : List PG :=
  l.map fun x => ⟨x.1, !fs.has x.1, x.2.drop (fileOf fs x.1).length⟩

theorem fimg_zero (X : NMap Bytes) (k : Nat) (e : Bool) :
    ∀ (Z : List PG), (∀ g ∈ Z, g.cost = 0) → fimg X Z k e = X := by
  intro Z
  induction Z with
  | nil => intro _; rfl
  | cons g Z ih =>
    intro h
    rw [fimg, if_pos (h g List.mem_cons_self)]
    exact ih fun x hx => h x (List.mem_cons_of_mem _ hx)

theorem plen_zero : ∀ (Z : List PG), (∀ g ∈ Z, g.cost = 0) → plen Z = 0 := by
  intro Z
  induction Z with
  | nil => intro _; rfl
  | cons g Z ih =>
    intro h
    rw [plen_cons, h g List.mem_cons_self, ih fun x hx => h x (List.mem_cons_of_mem _ hx)]

theorem cutImg_unchanged (fs fs' : NMap Bytes) : CutImg fs fs' fs :=
  ⟨0, fun n hn => absurd hn (Nat.not_lt_zero n), Or.inl rfl, Or.inl rfl, fun _ _ => rfl⟩

theorem get?_range_map {α : Type} (f : Nat → α) : ∀ (len s n : Nat),
    NMap.get? ((List.range' s len).map fun m => (m, f m)) n =
      if s ≤ n ∧ n < s + len then some (f n) else none := by
  intro len
  induction len with
  | zero =>
    intro s n
    rw [if_neg (by omega)]; rfl
  | succ len ih =>
    intro s n
    rw [List.range'_succ, List.map_cons, NMap.get?_cons, ih]
    by_cases h : s = n
    · subst h; rw [if_pos rfl, if_pos (by omega)]
    · rw [if_neg h]
      by_cases h2 : s + 1 ≤ n ∧ n < s + 1 + len
      · rw [if_pos h2, if_pos (by omega)]
      · rw [if_neg h2, if_neg (by omega)]

theorem sorted_range_map {α : Type} (f : Nat → α) (s len : Nat) :
    NMap.Sorted ((List.range' s len).map fun m => (m, f m)) := by
  unfold NMap.Sorted
  rw [List.map_map]
  have : ((fun x : Nat × α => x.1) ∘ fun m => (m, f m)) = id := rfl
  rw [this, List.map_id]
  exact List.pairwise_lt_range' 1

section Seg
variable {fs fs' : NMap Bytes} {P P' : Nat}

theorem SegOK.table (h : SegOK fs fs' P P') :
    fs' = (List.range' 0 (P' + 1)).map fun m => (m, fileOf fs' m) := by
  apply NMap.ext_sorted h.sorted (sorted_range_map _ _ _)
  intro n
  rw [get?_range_map]
  by_cases hn : n ≤ P'
  · rw [if_pos (by omega)]
    cases hg : fs'.get? n with
    | none => exact absurd hg (h.all' n hn)
    | some f => rw [fileOf_some hg]
  · rw [if_neg (by omega)]
    exact h.above' n (by omega)

theorem SegOK.stream (h : SegOK fs fs' P P') :
    famStream fs fs' = (List.range' 0 (P' + 1)).map (famG fs fs') := by
  unfold famStream
  conv => lhs; rw [h.table]
  rw [List.map_map]
  rfl

theorem SegOK.isNew_le (h : SegOK fs fs' P P') {c : Nat} (hc : c ≤ P) :
    (famG fs fs' c).isNew = false := by
  show (!fs.has c) = false
  rw [has_eq_true (h.all c hc)]; rfl

theorem SegOK.isNew_gt (h : SegOK fs fs' P P') {c : Nat} (hc : P < c) :
    (famG fs fs' c).isNew = true := by
  show (!fs.has c) = true
  rw [has_eq_false (h.above c hc)]; rfl

/-- every file of the new table is its old content followed by its growth -/
theorem SegOK.grow (h : SegOK fs fs' P P') {c : Nat} (hc : c ≤ P') :
    fs'.get? c = some (fileOf fs c ++ (famG fs fs' c).bytes) := by
  show fs'.get? c = some (fileOf fs c ++ (fileOf fs' c).drop (fileOf fs c).length)
  by_cases h1 : c < P
  · rw [fileOf, fileOf, h.low c h1]
    cases hg : fs.get? c with
    | none => exact absurd hg (h.all c (by omega))
    | some f => simp
  · by_cases h2 : c = P
    · subst h2
      obtain ⟨g, hg⟩ := h.ext
      rw [fileOf_some hg, List.drop_left, hg]
    · have hn : fs.get? c = none := h.above c (by omega)
      rw [fileOf_none hn]
      cases hg : fs'.get? c with
      | none => exact absurd hg (h.all' c hc)
      | some f => rw [fileOf_some hg]; rfl

theorem SegOK.cost_lt (h : SegOK fs fs' P P') {c : Nat} (hc : c < P) : (famG fs fs' c).cost = 0 := by
  have h1 := h.isNew_le (Nat.le_of_lt hc)
  unfold PG.cost
  rw [h1]
  show (if false = true then 1 else 0) + ((fileOf fs' c).drop (fileOf fs c).length).length = 0
  rw [fileOf, fileOf, h.low c hc]
  simp

theorem SegOK.cost_gt (h : SegOK fs fs' P P') {c : Nat} (hc : P < c) : (famG fs fs' c).cost ≠ 0 := by
  unfold PG.cost
  rw [h.isNew_gt hc, if_pos rfl]
  omega

/-- a file whose growth is empty is unchanged -/
theorem SegOK.same (h : SegOK fs fs' P P') {c : Nat} (hc : c ≤ P') (h0 : (famG fs fs' c).cost = 0) :
    fs'.get? c = fs.get? c := by
  have hP : c ≤ P := Nat.le_of_not_lt fun hlt => h.cost_gt hlt h0
  have hb : (famG fs fs' c).bytes = [] := by
    unfold PG.cost at h0
    exact List.eq_nil_of_length_eq_zero (by omega)
  rw [h.grow hc, hb, List.append_nil]
  cases hg : fs.get? c with
  | none => exact absurd hg (h.all c hP)
  | some f => rw [fileOf_some hg]

theorem SegOK.pNext (h : SegOK fs fs' P P') {c : Nat} (hc : P ≤ c) (len : Nat) :
    pNext ((List.range' (c + 1) len).map (famG fs fs')) = if len = 0 then none else some (c + 1) := by
  cases len with
  | zero => rfl
  | succ len =>
    rw [if_neg (by omega), List.range'_succ, List.map_cons]
    unfold Sth.pNext
    rw [List.find?_cons_of_pos (by simpa using h.cost_gt (show P < c + 1 by omega))]
    show (if (famG fs fs' (c + 1)).isNew = true then some (c + 1) else none) = some (c + 1)
    rw [if_pos (h.isNew_gt (by omega))]

theorem fileOf_congr1 {X Y : NMap Bytes} {n : Nat} (h : X.get? n = Y.get? n) : fileOf X n = fileOf Y n := by
  unfold fileOf; rw [h]

/-- the image with the cut at file `c`: `X` is complete below `c` and old from `c` on, `X1` is `X` with
    (possibly) a prefix of the growth of file `c`, and the next file may have been created early -/
theorem SegOK.cut_early (h : SegOK fs fs' P P') {c : Nat} {X X1 : NMap Bytes} {o : Option Nat}
    (hc : P ≤ c) (hc' : c ≤ P')
    (hge : ∀ n, c ≤ n → X.get? n = fs.get? n) (hlo : ∀ n, n < c → X.get? n = fs'.get? n)
    (hoth : ∀ n, n ≠ c → X1.get? n = X.get? n)
    (hcut : X1.get? c = X.get? c ∨
      ∃ t, X1.get? c = some (fileOf fs c ++ (famG fs fs' c).bytes.take t))
    (ho : o = none ∨ (o = some (c + 1) ∧ c + 1 ≤ P' ∧ X1.get? c ≠ none)) :
    CutImg fs fs' (match (generalizing := false) o with
      | some m => X1.set m (fileOf X1 m ++ [])
      | none => X1) := by
  have hcut' : X1.get? c = fs.get? c ∨
      ∃ g t, fs'.get? c = some (fileOf fs c ++ g) ∧ X1.get? c = some (fileOf fs c ++ g.take t) := by
    rcases hcut with h1 | ⟨t, ht⟩
    · exact Or.inl (h1.trans (hge c (Nat.le_refl _)))
    · exact Or.inr ⟨_, t, h.grow hc', ht⟩
  rcases ho with rfl | ⟨rfl, h1, h2⟩
  · refine ⟨c, fun n hn => ?_, hcut', Or.inl ?_, fun n hn => ?_⟩
    · rw [hoth n (by omega)]; exact hlo n hn
    · rw [hoth _ (by omega)]; exact hge _ (by omega)
    · rw [hoth _ (by omega)]; exact hge _ (by omega)
  · have hn1 : X1.get? (c + 1) = none := by
      rw [hoth _ (by omega), hge _ (by omega)]; exact h.above _ (by omega)
    show CutImg fs fs' (X1.set (c + 1) (fileOf X1 (c + 1) ++ []))
    rw [fileOf_none hn1]
    refine ⟨c, fun n hn => ?_, ?_, Or.inr ⟨?_, h.above _ (by omega), h.all' _ h1, ?_⟩, fun n hn => ?_⟩
    · rw [NMap.get?_set_ne _ _ (by omega), hoth n (by omega)]; exact hlo n hn
    · rw [NMap.get?_set_ne _ _ (by omega)]; exact hcut'
    · rw [NMap.get?_set_ne _ _ (by omega)]; exact h2
    · rw [NMap.get?_set_eq]; rfl
    · rw [NMap.get?_set_ne _ _ (by omega), hoth _ (by omega)]; exact hge _ (by omega)

/-- the images of the family along its ascending stream, from file `c` on -/
theorem SegOK.fimg_from (h : SegOK fs fs' P P') : ∀ (len c : Nat) (X : NMap Bytes) (k : Nat) (e : Bool),
    c + len = P' + 1 →
    (∀ n, c ≤ n → X.get? n = fs.get? n) → (∀ n, n < c → X.get? n = fs'.get? n) →
    CutImg fs fs' (fimg X ((List.range' c len).map (famG fs fs')) k e) ∧
    (plen ((List.range' c len).map (famG fs fs')) ≤ k →
      ∀ n, (fimg X ((List.range' c len).map (famG fs fs')) k e).get? n = fs'.get? n) := by
  intro len
  induction len with
  | zero =>
    intro c X k e hcl hge hlo
    have hP := h.le
    refine ⟨⟨c, hlo, Or.inl (hge c (Nat.le_refl _)), Or.inl (hge _ (by omega)),
      fun n hn => hge n (by omega)⟩, fun _ n => ?_⟩
    show X.get? n = fs'.get? n
    by_cases hn : n < c
    · exact hlo n hn
    · rw [hge n (by omega), h.above n (by omega), h.above' n (by omega)]
  | succ len ih =>
    intro c X k e hcl hge hlo
    have hcP' : c ≤ P' := by omega
    rw [List.range'_succ, List.map_cons, plen_cons, fimg]
    have hnn : (famG fs fs' c).n = c := rfl
    rw [hnn]
    by_cases hc0 : (famG fs fs' c).cost = 0
    · rw [if_pos hc0, hc0, Nat.zero_add]
      refine ih (c + 1) X k e (by omega) (fun n hn => hge n (by omega)) fun n hn => ?_
      by_cases hnc : n = c
      · subst hnc; rw [hge n (Nat.le_refl _), h.same hcP' hc0]
      · exact hlo n (by omega)
    · rw [if_neg hc0]
      have hPc : P ≤ c := Nat.le_of_not_lt fun hlt => hc0 (h.cost_lt hlt)
      have hX : fileOf X c = fileOf fs c := fileOf_congr1 (hge c (Nat.le_refl _))
      have hpn := h.pNext hPc len
      by_cases hk : k = 0
      · rw [if_pos hk]
        refine ⟨?_, fun hle => absurd hle (by omega)⟩
        by_cases hen : (e && !(famG fs fs' c).isNew) = true
        · rw [if_pos hen]
          refine h.cut_early hPc hcP' hge hlo (fun _ _ => rfl) (Or.inl rfl) ?_
          rw [hpn]
          by_cases hl : len = 0
          · rw [if_pos hl]; exact Or.inl rfl
          · rw [if_neg hl]
            refine Or.inr ⟨rfl, by omega, ?_⟩
            rw [hge c (Nat.le_refl _)]
            refine h.all c (Nat.le_of_not_lt fun hlt => ?_)
            rw [h.isNew_gt hlt] at hen
            simp at hen
        · rw [if_neg hen]
          exact h.cut_early (o := none) hPc hcP' hge hlo (fun _ _ => rfl) (Or.inl rfl) (Or.inl rfl)
      · rw [if_neg hk]
        by_cases hle : (famG fs fs' c).cost ≤ k
        · rw [if_pos hle, hX]
          have hset : (X.set c (fileOf fs c ++ (famG fs fs' c).bytes)).get? c = fs'.get? c := by
            rw [NMap.get?_set_eq, h.grow hcP']
          have := ih (c + 1) (X.set c (fileOf fs c ++ (famG fs fs' c).bytes)) (k - (famG fs fs' c).cost) e
            (by omega) (fun n hn => by rw [NMap.get?_set_ne _ _ (by omega)]; exact hge n (by omega))
            (fun n hn => by
              by_cases hnc : n = c
              · subst hnc; exact hset
              · rw [NMap.get?_set_ne _ _ hnc]; exact hlo n (by omega))
          exact ⟨this.1, fun hle' => this.2 (by omega)⟩
        · rw [if_neg hle, hX]
          refine ⟨?_, fun hle' => absurd hle' (by omega)⟩
          have hoth : ∀ n, n ≠ c → (X.set c (fileOf fs c ++ (famG fs fs' c).bytes.take
              (k - if (famG fs fs' c).isNew = true then 1 else 0))).get? n = X.get? n :=
            fun n hn => NMap.get?_set_ne _ _ hn
          have hcut : (X.set c (fileOf fs c ++ (famG fs fs' c).bytes.take
              (k - if (famG fs fs' c).isNew = true then 1 else 0))).get? c =
              some (fileOf fs c ++ (famG fs fs' c).bytes.take
                (k - if (famG fs fs' c).isNew = true then 1 else 0)) := NMap.get?_set_eq _ _ _
          by_cases he : e = true
          · simp only [if_pos he]
            refine h.cut_early hPc hcP' hge hlo hoth (Or.inr ⟨_, hcut⟩) ?_
            rw [hpn]
            by_cases hl : len = 0
            · rw [if_pos hl]; exact Or.inl rfl
            · rw [if_neg hl]
              refine Or.inr ⟨rfl, by omega, ?_⟩
              rw [hcut]; exact fun hh => by cases hh
          · simp only [if_neg he]
            exact h.cut_early (o := none) hPc hcP' hge hlo hoth (Or.inr ⟨_, hcut⟩) (Or.inl rfl)

end Seg

/-- the images of one family of numbered files -/
theorem fimg_family {fs fs' : NMap Bytes} (h : SegOK' fs fs') (k : Nat) (e : Bool) :
    CutImg fs fs' (fimg fs (famStream fs fs') k e) ∧
    (plen (famStream fs fs') ≤ k → ∀ n, (fimg fs (famStream fs fs') k e).get? n = fs'.get? n) := by
  rcases h with ⟨rfl, hs⟩ | ⟨P, P', h⟩
  · have hz : ∀ g ∈ famStream fs' fs', g.cost = 0 := by
      intro g hg
      obtain ⟨x, hx, rfl⟩ := List.mem_map.mp hg
      have hget : fs'.get? x.1 = some x.2 := NMap.get?_of_mem_sorted hs hx
      unfold PG.cost
      simp only [has_eq_true (by rw [hget]; exact fun hh => by cases hh), fileOf_some hget,
        List.drop_length, List.length_nil]
      rfl
    rw [fimg_zero _ _ _ _ hz]
    exact ⟨cutImg_unchanged _ _, fun _ _ => rfl⟩
  · rw [h.stream]
    exact h.fimg_from (P' + 1) 0 fs k e (by omega) (fun _ _ => rfl)
      (fun n hn => absurd hn (Nat.not_lt_zero _))

theorem crashImage_priG_family (d0 : Disk) {fs fs' : NMap Bytes} (h : SegOK' fs fs') (hd : d0.pfiles = fs)
    (k : Nat) (e : Bool) :
    ∃ X, crashImage d0 ((famStream fs fs').map priG) k e = { d0 with pfiles := X } ∧ CutImg fs fs' X ∧
      (streamLength ((famStream fs fs').map priG) ≤ k → ∀ n, X.get? n = fs'.get? n) :=
  ⟨fimg fs (famStream fs fs') k e, by rw [crashImage_priG, hd], (fimg_family h k e).1,
    by rw [streamLength_priG]; exact (fimg_family h k e).2⟩

theorem crashImage_idxG_family (d0 : Disk) {fs fs' : NMap Bytes} (h : SegOK' fs fs') (hd : d0.ifiles = fs)
    (k : Nat) (e : Bool) :
    ∃ X, crashImage d0 ((famStream fs fs').map idxG) k e = { d0 with ifiles := X } ∧ CutImg fs fs' X ∧
      (streamLength ((famStream fs fs').map idxG) ≤ k → ∀ n, X.get? n = fs'.get? n) :=
  ⟨fimg fs (famStream fs fs') k e, by rw [crashImage_idxG, hd], (fimg_family h k e).1,
    by rw [streamLength_idxG]; exact (fimg_family h k e).2⟩

/-! ### a single optional file -/

def optG (id : FileId) (old new : Option Bytes) : List Growth :=
  match new with
  | some f => [⟨id, old.isNone, f.drop (old.getD []).length⟩]
  | none => []

theorem optG_some (id : FileId) (old : Option Bytes) (f : Bytes) :
    optG id old (some f) = [⟨id, old.isNone, f.drop (old.getD []).length⟩] := rfl

theorem optExt_split {old : Option Bytes} {f : Bytes} (h : OptExt old (some f)) :
    f = old.getD [] ++ f.drop (old.getD []).length := by
  rcases h with h | ⟨g, hg⟩
  · rw [← h]; simp
  · cases hg; rw [List.drop_left]

theorem crashImage_cid (d0 : Disk) {old new : Option Bytes} (h : OptExt old new) (hd : d0.cidfile = old)
    (k : Nat) (e : Bool) :
    ∃ cf, crashImage d0 (optG .cid old new) k e = { d0 with cidfile := cf } ∧ OptCut old new cf ∧
      (streamLength (optG .cid old new) ≤ k → cf = new) := by
  subst hd
  cases new with
  | none =>
    refine ⟨d0.cidfile, rfl, Or.inl rfl, fun _ => ?_⟩
    rcases h with h | ⟨g, hg⟩
    · exact h.symm
    · cases hg
  | some f =>
    have hf := optExt_split h
    rw [optG_some]
    rw [streamLength_cons, streamLength_nil, Nat.add_zero, crashImage]
    by_cases hc0 : (Growth.mk .cid d0.cidfile.isNone (f.drop (d0.cidfile.getD []).length)).cost = 0
    · rw [if_pos hc0]
      refine ⟨d0.cidfile, rfl, Or.inl rfl, fun _ => ?_⟩
      unfold Growth.cost at hc0
      simp only at hc0
      have hb : f.drop (d0.cidfile.getD []).length = [] := List.eq_nil_of_length_eq_zero (by omega)
      rw [hb, List.append_nil] at hf
      cases ho : d0.cidfile with
      | none => rw [ho] at hc0; simp at hc0
      | some o => rw [ho] at hf; rw [hf]; rfl
    · rw [if_neg hc0]
      by_cases hk : k = 0
      · rw [if_pos hk]
        refine ⟨d0.cidfile, ?_, Or.inl rfl, fun hle => absurd hle (by omega)⟩
        split <;> rfl
      · rw [if_neg hk]
        by_cases hle : (Growth.mk .cid d0.cidfile.isNone (f.drop (d0.cidfile.getD []).length)).cost ≤ k
        · rw [if_pos hle]
          refine ⟨some (d0.cidfile.getD [] ++ f.drop (d0.cidfile.getD []).length), rfl,
            Or.inr ⟨f.drop (d0.cidfile.getD []).length, (f.drop (d0.cidfile.getD []).length).length, ?_, ?_⟩,
            fun _ => ?_⟩
          · rw [← hf]
          · rw [List.take_length]
          · rw [← hf]
        · rw [if_neg hle]
          refine ⟨some (d0.cidfile.getD [] ++ (f.drop (d0.cidfile.getD []).length).take
              (k - if d0.cidfile.isNone = true then 1 else 0)), ?_,
            Or.inr ⟨f.drop (d0.cidfile.getD []).length, _, by rw [← hf], rfl⟩,
            fun hle' => absurd hle' hle⟩
          cases e <;> rfl

theorem crashImage_free (d0 : Disk) {old new : Option Bytes} (h : OptExt old new) (hd : d0.free = old)
    (k : Nat) (e : Bool) :
    ∃ cf, crashImage d0 (optG .free old new) k e = { d0 with free := cf } ∧ OptCut old new cf ∧
      (streamLength (optG .free old new) ≤ k → cf = new) := by
  subst hd
  cases new with
  | none =>
    refine ⟨d0.free, rfl, Or.inl rfl, fun _ => ?_⟩
    rcases h with h | ⟨g, hg⟩
    · exact h.symm
    · cases hg
  | some f =>
    have hf := optExt_split h
    rw [optG_some]
    rw [streamLength_cons, streamLength_nil, Nat.add_zero, crashImage]
    by_cases hc0 : (Growth.mk .free d0.free.isNone (f.drop (d0.free.getD []).length)).cost = 0
    · rw [if_pos hc0]
      refine ⟨d0.free, rfl, Or.inl rfl, fun _ => ?_⟩
      unfold Growth.cost at hc0
      simp only at hc0
      have hb : f.drop (d0.free.getD []).length = [] := List.eq_nil_of_length_eq_zero (by omega)
      rw [hb, List.append_nil] at hf
      cases ho : d0.free with
      | none => rw [ho] at hc0; simp at hc0
      | some o => rw [ho] at hf; rw [hf]; rfl
    · rw [if_neg hc0]
      by_cases hk : k = 0
      · rw [if_pos hk]
        refine ⟨d0.free, ?_, Or.inl rfl, fun hle => absurd hle (by omega)⟩
        split <;> rfl
      · rw [if_neg hk]
        by_cases hle : (Growth.mk .free d0.free.isNone (f.drop (d0.free.getD []).length)).cost ≤ k
        · rw [if_pos hle]
          refine ⟨some (d0.free.getD [] ++ f.drop (d0.free.getD []).length), rfl,
            Or.inr ⟨f.drop (d0.free.getD []).length, (f.drop (d0.free.getD []).length).length, ?_, ?_⟩,
            fun _ => ?_⟩
          · rw [← hf]
          · rw [List.take_length]
          · rw [← hf]
        · rw [if_neg hle]
          refine ⟨some (d0.free.getD [] ++ (f.drop (d0.free.getD []).length).take
              (k - if d0.free.isNone = true then 1 else 0)), ?_,
            Or.inr ⟨f.drop (d0.free.getD []).length, _, by rw [← hf], rfl⟩,
            fun hle' => absurd hle' hle⟩
          cases e <;> rfl

/-! ### the four families in order -/

theorem appendStream_eq (d : Disk) (pf1 : NMap Bytes) (cid1 : Option Bytes) (if2 : NMap Bytes)
    (fr : Option Bytes) :
    appendStream d { d with pfiles := pf1, cidfile := cid1, ifiles := if2, free := fr } =
      (famStream d.pfiles pf1).map priG ++ (optG .cid d.cidfile cid1 ++
        ((famStream d.ifiles if2).map idxG ++ optG .free d.free fr)) := by
  unfold appendStream famStream
  rw [List.append_assoc, List.append_assoc, List.map_map, List.map_map]
  rfl

theorem id_of_mem_priG {L : List PG} {g : Growth} (h : g ∈ L.map priG) : ∃ n, g.id = .pri n := by
  obtain ⟨x, _, rfl⟩ := List.mem_map.mp h
  exact ⟨x.n, rfl⟩

theorem id_of_mem_idxG {L : List PG} {g : Growth} (h : g ∈ L.map idxG) : ∃ n, g.id = .idx n := by
  obtain ⟨x, _, rfl⟩ := List.mem_map.mp h
  exact ⟨x.n, rfl⟩

theorem id_of_mem_optG {id : FileId} {old new : Option Bytes} {g : Growth} (h : g ∈ optG id old new) :
    g.id = id := by
  cases new with
  | none => cases h
  | some f =>
    rw [optG_some, List.mem_singleton] at h
    rw [h]

/-- the shape of every crash image of a flush that extends the four file families in order -/
theorem crashImage_form (d : Disk) (pf1 : NMap Bytes) (cid1 : Option Bytes) (if2 : NMap Bytes)
    (fr : Option Bytes) (hP : SegOK' d.pfiles pf1) (hC : OptExt d.cidfile cid1)
    (hI : SegOK' d.ifiles if2) (hF : OptExt d.free fr) (k : Nat) (early : Bool) :
    ∃ fiP cf fiI fr',
      crashImage d (appendStream d { d with pfiles := pf1, cidfile := cid1, ifiles := if2, free := fr })
          k early = { d with pfiles := fiP, cidfile := cf, ifiles := fiI, free := fr' } ∧
      CutImg d.pfiles pf1 fiP ∧ OptCut d.cidfile cid1 cf ∧ CutImg d.ifiles if2 fiI ∧
      OptCut d.free fr fr' ∧
      (fiI = d.ifiles ∨ ((∀ n, fiP.get? n = pf1.get? n) ∧ cf = cid1)) ∧
      (streamLength (appendStream d { d with pfiles := pf1, cidfile := cid1, ifiles := if2, free := fr })
          ≤ k →
        (∀ n, fiP.get? n = pf1.get? n) ∧ cf = cid1 ∧ (∀ n, fiI.get? n = if2.get? n) ∧ fr' = fr) := by
  rw [appendStream_eq]
  simp only [streamLength_append]
  have h1 : ∀ g ∈ (famStream d.pfiles pf1).map priG,
      ∀ g' ∈ optG .cid d.cidfile cid1 ++ ((famStream d.ifiles if2).map idxG ++ optG .free d.free fr),
      g.id.sameClass g'.id = false := by
    intro g hg g' hg'
    obtain ⟨n, hn⟩ := id_of_mem_priG hg
    rw [hn]
    rcases List.mem_append.mp hg' with h' | h'
    · rw [id_of_mem_optG h']; rfl
    · rcases List.mem_append.mp h' with h' | h'
      · obtain ⟨m, hm⟩ := id_of_mem_idxG h'
        rw [hm]; rfl
      · rw [id_of_mem_optG h']; rfl
  have h2 : ∀ g ∈ optG .cid d.cidfile cid1,
      ∀ g' ∈ (famStream d.ifiles if2).map idxG ++ optG .free d.free fr,
      g.id.sameClass g'.id = false := by
    intro g hg g' _
    rw [id_of_mem_optG hg]; rfl
  have h3 : ∀ g ∈ (famStream d.ifiles if2).map idxG, ∀ g' ∈ optG .free d.free fr,
      g.id.sameClass g'.id = false := by
    intro g hg g' hg'
    obtain ⟨n, hn⟩ := id_of_mem_idxG hg
    rw [hn, id_of_mem_optG hg']; rfl
  rw [crashImage_append _ _ h1]
  by_cases hkP : k < streamLength ((famStream d.pfiles pf1).map priG)
  · -- the cut is in the primary files
    rw [if_pos hkP]
    obtain ⟨X, hX, hXc, _⟩ := crashImage_priG_family d hP rfl k early
    exact ⟨X, d.cidfile, d.ifiles, d.free, hX, hXc, Or.inl rfl, cutImg_unchanged _ _, Or.inl rfl, Or.inl rfl,
      fun hle => absurd hle (by omega)⟩
  · rw [if_neg hkP]
    obtain ⟨X1, hX1, hX1c, hX1f⟩ := crashImage_priG_family d hP rfl
      (streamLength ((famStream d.pfiles pf1).map priG)) false
    have hX1f := hX1f (Nat.le_refl _)
    rw [hX1, crashImage_append _ _ h2]
    by_cases hkC : k - streamLength ((famStream d.pfiles pf1).map priG) <
        streamLength (optG .cid d.cidfile cid1)
    · -- the cut is in the CID file
      rw [if_pos hkC]
      obtain ⟨cf, hcf, hcfc, _⟩ := crashImage_cid { d with pfiles := X1 } hC rfl
        (k - streamLength ((famStream d.pfiles pf1).map priG)) early
      exact ⟨X1, cf, d.ifiles, d.free, hcf, hX1c, hcfc, cutImg_unchanged _ _, Or.inl rfl, Or.inl rfl,
        fun hle => absurd hle (by omega)⟩
    · rw [if_neg hkC]
      obtain ⟨c1, hc1, hc1c, hc1f⟩ := crashImage_cid { d with pfiles := X1 } hC rfl
        (streamLength (optG .cid d.cidfile cid1)) false
      have hc1f := hc1f (Nat.le_refl _)
      rw [hc1, crashImage_append _ _ h3]
      by_cases hkI : k - streamLength ((famStream d.pfiles pf1).map priG) -
          streamLength (optG .cid d.cidfile cid1) < streamLength ((famStream d.ifiles if2).map idxG)
      · -- the cut is in the index files
        rw [if_pos hkI]
        obtain ⟨Y, hY, hYc, _⟩ := crashImage_idxG_family { d with pfiles := X1, cidfile := c1 } hI rfl
          (k - streamLength ((famStream d.pfiles pf1).map priG) -
            streamLength (optG .cid d.cidfile cid1)) early
        exact ⟨X1, c1, Y, d.free, hY, hX1c, hc1c, hYc, Or.inl rfl, Or.inr ⟨hX1f, hc1f⟩,
          fun hle => absurd hle (by omega)⟩
      · rw [if_neg hkI]
        obtain ⟨Y1, hY1, hY1c, hY1f⟩ := crashImage_idxG_family { d with pfiles := X1, cidfile := c1 } hI
          rfl (streamLength ((famStream d.ifiles if2).map idxG)) false
        have hY1f := hY1f (Nat.le_refl _)
        rw [hY1]
        obtain ⟨f', hf', hf'c, hf'f⟩ := crashImage_free
          { d with pfiles := X1, cidfile := c1, ifiles := Y1 } hF rfl
          (k - streamLength ((famStream d.pfiles pf1).map priG) -
            streamLength (optG .cid d.cidfile cid1) - streamLength ((famStream d.ifiles if2).map idxG))
          early
        exact ⟨X1, c1, Y1, f', hf', hX1c, hc1c, hY1c, hf'c, Or.inr ⟨hX1f, hc1f⟩,
          fun hle => ⟨hX1f, hc1f, hY1f, hf'f (by omega)⟩⟩

end Sth
