import Sth.Lemmas.C11Reloc

/-!
C11, low-use files (2): what a visit of reapRecords does to a closed file whose free share is at or
above the threshold — its last two record spans are relocated: a copy of each is pooled, the old
location is recorded on the freelist, and no index entry points at it any more.  Core Lean only.
-/

namespace Sth.C11

/-- the scan of reapRecords over a file -/
def scanOf (file : Bytes) : PReap := reapPriLoop (file.length + 2) { file := file }

/-- the low-use test of reapRecords: free share at or above the threshold, measured by the scan (bytes
    of deleted spans against bytes of record spans, size words not counted, before the trailing deleted
    span is cut) -/
def LowUse (file : Bytes) (lowUse : Nat) : Prop :=
  100 * (scanOf file).totalFree ≥ lowUse * ((scanOf file).totalFree + (scanOf file).totalBusy)

instance (file : Bytes) (lowUse : Nat) : Decidable (LowUse file lowUse) := by
  unfold LowUse; exact inferInstance

/-- relocation records the old location on the freelist pool -/
theorem relocate_records_old {m m' : Mem} {d : Disk} {fnum at_ bs : Nat} {file : Bytes}
    (h : relocate m d fnum file at_ bs = some m') :
    (⟨m.pmax * fnum + at_, bs⟩ : Block) ∈ m'.flpool ∧ ∀ b ∈ m.flpool, b ∈ m'.flpool := by
  unfold relocate at h
  cases h1 : readU32 file at_ with
  | none => simp [h1] at h
  | some size =>
    simp only [h1] at h
    cases h2 : readAt file (at_ + 4) size with
    | none => simp [h2] at h
    | some data =>
      simp only [h2] at h
      cases h3 : readNode .mh data with
      | none => simp [h3] at h
      | some kv =>
        obtain ⟨key, val⟩ := kv
        simp only [h3] at h
        cases h4 : indexKeyOf .mh key with
        | none => simp [h4] at h
        | some ik =>
          simp only [h4, priPut_eq, Option.some.injEq] at h
          rw [putMem_pmax] at h
          cases hrel : idxRelocate (putMem m key val) d ik
              ⟨m.pmax * fnum + at_, bs⟩ (nextBlk m (key.length + val.length)) with
          | ok m3 =>
            rw [hrel] at h
            simp only at h
            obtain ⟨_, _, _, _, _, _, _, _, rfl⟩ := idxRelocate_ok_inv hrel
            subst h
            refine ⟨by simp, fun b hb => ?_⟩
            show b ∈ (putMem m key val).flpool ++ _
            rw [putMem_flpool]; exact List.mem_append_left _ hb
          | error e =>
            rw [hrel] at h
            simp only at h
            subst h
            refine ⟨by simp, fun b hb => ?_⟩
            show b ∈ ((putMem m key val).flpool ++ _) ++ _
            rw [putMem_flpool]
            exact List.mem_append_left _ (List.mem_append_left _ hb)

/-- relocation only moves the allocator forward -/
theorem relocate_below {m m' : Mem} {d : Disk} {fnum at_ bs : Nat} {file : Bytes}
    (h : relocate m d fnum file at_ bs = some m') {blk : Block} (hb : Below m blk) : Below m' blk := by
  unfold relocate at h
  cases h1 : readU32 file at_ with
  | none => simp [h1] at h
  | some size =>
    simp only [h1] at h
    cases h2 : readAt file (at_ + 4) size with
    | none => simp [h2] at h
    | some data =>
      simp only [h2] at h
      cases h3 : readNode .mh data with
      | none => simp [h3] at h
      | some kv =>
        obtain ⟨key, val⟩ := kv
        simp only [h3] at h
        cases h4 : indexKeyOf .mh key with
        | none => simp [h4] at h
        | some ik =>
          simp only [h4, priPut_eq, Option.some.injEq] at h
          have hB : Below (putMem m key val) blk := below_putMem key val hb
          cases hrel : idxRelocate (putMem m key val) d ik
              ⟨(putMem m key val).pmax * fnum + at_, bs⟩ (nextBlk m (key.length + val.length)) with
          | ok m3 =>
            rw [hrel] at h
            simp only at h
            obtain ⟨_, _, _, _, _, _, _, _, rfl⟩ := idxRelocate_ok_inv hrel
            subst h
            exact hB
          | error e =>
            rw [hrel] at h
            simp only at h
            subst h
            exact hB

section
variable {c : Cfg} {U : List (Bytes × Bytes)} {cfg : Cfg} {m : Mem} {d : Disk} {spec : Spec}
  {k B pf : Nat} {psp : Nat → List GSpan}

/-- what a relocated record span looks like afterwards: recorded, and no index entry points at it -/
def Drained (m' : Mem) (d' : Disk) (pmax n : Nat) (x : Nat × Bytes) : Prop :=
  (⟨pmax * n + x.1, x.2.length⟩ : Block) ∈ m'.flpool ∧
    ∀ blk, IsEnt m' d' blk → blk.off ≠ pmax * n + x.1

/-- P3, one visit.  A closed file `n` with at least one record span, all record spans well-formed
    records, free share at or above the threshold: reapRecords keeps the file (cutting its deleted
    tail), relocates the LAST record span and, if there is one, the one BEFORE it — each becomes
    `Drained`: its location is on the freelist pool and no index entry points at it — pools one copy per
    relocated span, and creates no index entry pointing below the allocator (into a file).  The record
    spans themselves stay in the file until the next cycle applies the freelist. -/
theorem reapRecords_lowuse (hU : Univ c.kind U) (hS : GState c U cfg m d spec k B pf psp)
    (hk : k + 2 < 1073741824) {n : Nat} (h1 : pf ≤ n) (h2 : n < m.pfileNum) (lowUse : Nat)
    (hwf : ∀ x ∈ liveAt 0 (psp n), RecSpan x.2) (hne : liveAt 0 (psp n) ≠ [])
    (hlow : LowUse (gbytes (psp n)) lowUse) :
    ∃ k' psp' got pre off body,
      (reapRecords m d n lowUse).1 = .kept ∧ (reapRecords m d n lowUse).2.2.2 = got ∧
      GState c U cfg (reapRecords m d n lowUse).2.1 (reapRecords m d n lowUse).2.2.1 spec k' B pf psp' ∧
      k' ≤ k + 2 ∧ liveAt 0 (psp' n) = liveAt 0 (psp n) ∧
      liveAt 0 (psp n) = pre ++ [(off, body)] ∧
      Drained (reapRecords m d n lowUse).2.1 (reapRecords m d n lowUse).2.2.1 m.pmax n (off, body) ∧
      (pre = [] ∨ ∃ pre' off' body', pre = pre' ++ [(off', body')] ∧
        Drained (reapRecords m d n lowUse).2.1 (reapRecords m d n lowUse).2.2.1 m.pmax n (off', body')) ∧
      (∀ blk, IsEnt (reapRecords m d n lowUse).2.1 (reapRecords m d n lowUse).2.2.1 blk →
        IsEnt m d blk ∨ ¬ Below m blk) ∧
      (∃ L, (reapRecords m d n lowUse).2.1.pnext = m.pnext ++ L ∧
        L.length = (if pre = [] then 1 else 2)) := by
  have hfile : d.pfiles.get? n = some (gbytes (psp n)) := hS.log.files n h1 (by omega)
  have hlow' : 100 * (reapPriLoop ((gbytes (psp n)).length + 2) { file := gbytes (psp n) }).totalFree ≥
      lowUse * ((reapPriLoop ((gbytes (psp n)).length + 2) { file := gbytes (psp n) }).totalFree +
        (reapPriLoop ((gbytes (psp n)).length + 2) { file := gbytes (psp n) }).totalBusy) := hlow
  unfold reapRecords
  rw [hfile]
  simp only
  have hnemp : ¬ (gbytes (psp n)).isEmpty = true := by
    intro hc
    have : psp n = [] := gbytes_eq_nil (List.isEmpty_iff.mp hc)
    rw [this] at hne
    exact hne rfl
  rw [if_neg hnemp]
  obtain ⟨ss', hf', hR, hL, hdead⟩ := reapFile_ok (psp n) (hS.log.ok n h1 (by omega))
  generalize reapPriLoop ((gbytes (psp n)).length + 2) { file := gbytes (psp n) } = st
    at hf' hL hdead hlow' ⊢
  have hfw : (if st.freeAt > st.busyAt then
        (truncateTo st.file st.freeAt.toNat, st.freeAtSize, decide (st.freeAt = 0))
      else (st.file, 0, false)) =
      (gbytes ss', (if st.freeAt > st.busyAt then st.freeAtSize else 0),
        (if st.freeAt > st.busyAt then decide (st.freeAt = 0) else false)) := by
    by_cases hc : st.freeAt > st.busyAt
    · rw [if_pos hc] at hf'; simp only [if_pos hc, hf']
    · rw [if_neg hc] at hf'; simp only [if_neg hc, hf']
  rw [hfw]
  simp only
  -- the state after the file is written back
  obtain ⟨l1, l2, l3⟩ := reap_step hS.log h1 h2 hR
  have hnP : n ≠ m.pfileNum := by omega
  obtain ⟨g1, g2, g3⟩ := ginv_disk_step (d' := { d with pfiles := d.pfiles.set n (gbytes ss') })
    hS.g (by omega) hS.log hS.ent hS.fl rfl rfl rfl rfl hS.hdr l1
    (fun blk body _ ho => l2 blk body ho) (fun fb hfb => l3 fb hfb.2.2.1)
    (by
      show (fileOf (d.pfiles.set n (gbytes ss')) m.pfileNum).length = m.plength
      unfold fileOf
      rw [NMap.get?_set_ne _ _ (Ne.symm hnP)]
      exact hS.g.plen)
    (by
      intro f hf
      show (d.pfiles.set n (gbytes ss')).get? f = none
      rw [NMap.get?_set_ne _ _ (by omega)]
      exact hS.g.pno f hf)
  have hS1 : GState c U cfg m { d with pfiles := d.pfiles.set n (gbytes ss') } spec k B pf
      (fun f => if f = n then ss' else psp f) := ⟨g1, hS.hdr, l1, g2, g3⟩
  have hpn : (fun f => if f = n then ss' else psp f) n = ss' := by simp
  have hlive : liveAt 0 ss' = liveAt 0 (psp n) := hR.live
  -- the file is not dead: it has a record span
  have hss' : ss' ≠ [] := by
    intro hc
    rw [hc] at hlive
    exact hne hlive.symm
  have hdd : ¬ (if st.freeAt > st.busyAt then decide (st.freeAt = 0) else false) = true := by
    intro hc
    by_cases hgt : st.freeAt > st.busyAt
    · rw [if_pos hgt] at hc
      exact hss' (hdead hgt (of_decide_eq_true hc))
    · rw [if_neg hgt] at hc; cases hc
  rw [if_neg hdd]
  rcases hL with ⟨_, hnil⟩ | ⟨pre, off, body, hl, hba, hbs, hprev⟩
  · rw [hlive] at hnil; exact absurd hnil hne
  have hb1 : ¬ st.busyAt = -1 := by rw [hba]; omega
  rw [if_neg hb1, if_pos hlow']
  have hx : (off, body) ∈ liveAt 0 ((fun f => if f = n then ss' else psp f) n) := by
    rw [hpn, hl]; simp
  have hoff : st.busyAt.toNat = off := by rw [hba]; rfl
  rw [hoff, hbs]
  have hbl : ∀ x, x ∈ liveAt 0 ss' → RecSpan x.2 ∧ x.2.length < two31 := by
    intro x hx'
    refine ⟨hwf x (by rw [← hlive]; exact hx'), ?_⟩
    obtain ⟨a, b, e, _⟩ := liveAt_split ss' 0 x.1 x.2 hx'
    exact hR.ok ⟨false, x.2⟩ (by rw [e]; simp)
  have hx0 : (off, body) ∈ liveAt 0 ss' := by rw [hl]; simp
  obtain ⟨m1, hr1⟩ := relocate_some m { d with pfiles := d.pfiles.set n (gbytes ss') } n hx0
    (hbl _ hx0).2 (hbl _ hx0).1
  rw [hr1]
  simp only
  have hr1' : relocate m { d with pfiles := d.pfiles.set n (gbytes ss') } n
      (gbytes ((fun f => if f = n then ss' else psp f) n)) off body.length = some m1 := by
    rw [hpn]; exact hr1
  obtain ⟨a1, a2, a3, a4, a5, a6, a7, a8, a9⟩ := relocate_g2 hU hS1.g (by omega) hS1.hdr hS1.log
    hS1.ent hS1.fl h1 h2 hx hr1'
  have hS2 : GState c U cfg m1 { d with pfiles := d.pfiles.set n (gbytes ss') } spec (k + 1) B pf
      (fun f => if f = n then ss' else psp f) := ⟨a1, by rw [a6]; exact hS1.hdr, a2, a3, a4⟩
  obtain ⟨o1, o2⟩ := relocate_records_old hr1
  obtain ⟨_, r1, _, _, p1, _⟩ := relocate_pool hr1
  have hent1 : ∀ blk, IsEnt m1 { d with pfiles := d.pfiles.set n (gbytes ss') } blk →
      IsEnt m d blk ∨ ¬ Below m blk := by
    intro blk hb
    exact a8 blk hb
  have hlivepsp : liveAt 0 ((fun f => if f = n then ss' else psp f) n) = liveAt 0 (psp n) := by
    rw [hpn]; exact hlive
  rcases hprev with ⟨hp, hpre⟩ | ⟨pre', off', body', hl', hpa, hps⟩
  · have : ¬ st.prevBusyAt ≥ 0 := by rw [hp]; decide
    rw [if_neg this]
    refine ⟨k + 1, _, _, pre, off, body, rfl, rfl, hS2, by omega, hlivepsp, by rw [← hlive]; exact hl,
      ⟨o1, a9⟩, Or.inl hpre, hent1, [r1], p1, by rw [if_pos hpre]; rfl⟩
  · have : st.prevBusyAt ≥ 0 := by rw [hpa]; exact Int.natCast_nonneg _
    rw [if_pos this]
    have hoff' : st.prevBusyAt.toNat = off' := by rw [hpa]; rfl
    rw [hoff', hps]
    have hx0' : (off', body') ∈ liveAt 0 ss' := by rw [hl, hl']; simp
    have hx' : (off', body') ∈ liveAt 0 ((fun f => if f = n then ss' else psp f) n) := by
      rw [hpn]; exact hx0'
    obtain ⟨m2, hr2⟩ := relocate_some m1 { d with pfiles := d.pfiles.set n (gbytes ss') } n hx0'
      (hbl _ hx0').2 (hbl _ hx0').1
    rw [hr2]
    simp only
    have hr2' : relocate m1 { d with pfiles := d.pfiles.set n (gbytes ss') } n
        (gbytes ((fun f => if f = n then ss' else psp f) n)) off' body'.length = some m2 := by
      rw [hpn]; exact hr2
    obtain ⟨b1, b2, b3, b4, b5, b6, b7, b8, b9⟩ := relocate_g2 hU hS2.g (by omega) hS2.hdr hS2.log
      hS2.ent hS2.fl h1 (by rw [a5]; exact h2) hx' hr2'
    have hS3 : GState c U cfg m2 { d with pfiles := d.pfiles.set n (gbytes ss') } spec (k + 1 + 1) B pf
        (fun f => if f = n then ss' else psp f) := ⟨b1, by rw [b6]; exact hS2.hdr, b2, b3, b4⟩
    obtain ⟨o3, o4⟩ := relocate_records_old hr2
    obtain ⟨_, r2, _, _, p2, _⟩ := relocate_pool hr2
    rw [a6] at o3 b9
    have hpreNe : pre ≠ [] := by rw [hl']; simp
    -- the first old location is still not an entry's
    have hkeep : ∀ blk, IsEnt m2 { d with pfiles := d.pfiles.set n (gbytes ss') } blk →
        blk.off ≠ m.pmax * n + off := by
      intro blk hb hc
      rcases b8 blk hb with h | h
      · exact a9 blk h hc
      · -- the old location lies below the allocator
        apply h
        have hB : Below m1 (⟨m.pmax * n + off, body.length⟩ : Block) := by
          obtain ⟨q1, _, _, _, _⟩ := (by
            obtain ⟨L1, L2, _, _, f3⟩ := a4
            exact f3 _ (by simp only [List.mem_append]; exact Or.inl (Or.inl o1)) :
            FreeOK m1 { d with pfiles := d.pfiles.set n (gbytes ss') } pf
              (fun f => if f = n then ss' else psp f) ⟨m.pmax * n + off, body.length⟩)
          exact q1
        exact below_of_off (m := m1) hc hB
    refine ⟨k + 1 + 1, _, _, pre, off, body, trivial, rfl, hS3, by omega, hlivepsp,
      by rw [← hlive]; exact hl, ⟨o4 _ o1, hkeep⟩,
      Or.inr ⟨pre', off', body', hl', o3, b9⟩, ?_, [r1, r2], by rw [p2, p1]; simp,
      by rw [if_neg hpreNe]; rfl⟩
    intro blk hb
    rcases b8 blk hb with h | h
    · exact hent1 blk h
    · right
      intro hc
      apply h
      exact relocate_below hr1 hc

end

instance (body : Bytes) : Decidable (RecSpan body) := by
  unfold RecSpan
  cases h : readNode .mh body with
  | none => exact isFalse (fun ⟨_, _, _, hc, _⟩ => by cases hc)
  | some kv =>
    obtain ⟨key, val⟩ := kv
    cases h2 : indexKeyOf .mh key with
    | none =>
      exact isFalse (fun ⟨k', v', ik, hc, hc2⟩ => by
        cases hc
        rw [h2] at hc2
        cases hc2)
    | some ik => exact isTrue ⟨key, val, ik, rfl, h2⟩

/-- P3, one visit, on reachable states and on the bytes of the file -/
theorem lowuse_visit (c : Cfg) (hc : c.Legal) (hmh : c.kind = .mh) (ops : List SOp)
    (hk : KeysOK c.kind ops) (hs : SizesOK ops) (s0 : SState) (hi : initS c = some s0) (lowUse : Nat)
    (hb : GcCountersOK s0 (ops ++ [.pgc lowUse none])) (n : Nat) (file : Bytes)
    (hfile : (runS s0 ops).1.d.pfiles.get? n = some file) (hn : n < (runS s0 ops).1.m.pfileNum)
    (hwf : ∀ x ∈ liveAt 0 (spansOf file), RecSpan x.2) (hne : liveAt 0 (spansOf file) ≠ [])
    (hlow : LowUse file lowUse) :
    (reapRecords (runS s0 ops).1.m (runS s0 ops).1.d n lowUse).1 = .kept ∧
    (∃ file', (reapRecords (runS s0 ops).1.m (runS s0 ops).1.d n lowUse).2.2.1.pfiles.get? n = some file' ∧
      liveAt 0 (spansOf file') = liveAt 0 (spansOf file)) ∧
    ∃ pre off body, liveAt 0 (spansOf file) = pre ++ [(off, body)] ∧
      Drained (reapRecords (runS s0 ops).1.m (runS s0 ops).1.d n lowUse).2.1
        (reapRecords (runS s0 ops).1.m (runS s0 ops).1.d n lowUse).2.2.1 (runS s0 ops).1.m.pmax n
        (off, body) ∧
      (pre = [] ∨ ∃ pre' off' body', pre = pre' ++ [(off', body')] ∧
        Drained (reapRecords (runS s0 ops).1.m (runS s0 ops).1.d n lowUse).2.1
          (reapRecords (runS s0 ops).1.m (runS s0 ops).1.d n lowUse).2.2.1 (runS s0 ops).1.m.pmax n
          (off', body')) ∧
      (∀ blk, IsEnt (reapRecords (runS s0 ops).1.m (runS s0 ops).1.d n lowUse).2.1
          (reapRecords (runS s0 ops).1.m (runS s0 ops).1.d n lowUse).2.2.1 blk →
        IsEnt (runS s0 ops).1.m (runS s0 ops).1.d blk ∨ ¬ Below (runS s0 ops).1.m blk) ∧
      (∃ L, (reapRecords (runS s0 ops).1.m (runS s0 ops).1.d n lowUse).2.1.pnext =
          (runS s0 ops).1.m.pnext ++ L ∧ L.length = (if pre = [] then 1 else 2)) := by
  obtain ⟨hb1, hb2, _⟩ := GcCountersOK.append ops [.pgc lowUse none] s0 hb
  have hG := reach_ginv c hc hmh ops hk hs s0 hi hb1
  have hU := univ_of_keysOK hk (keysExact_all c.kind ops)
  generalize (runS s0 ops).1 = s at hG hfile hn hb2 ⊢
  obtain ⟨cfg, m, d⟩ := s
  have hfile : d.pfiles.get? n = some file := hfile
  have hn : n < m.pfileNum := hn
  obtain ⟨pf, psp, hS⟩ := hG.state
  have h1 : pf ≤ n := by
    cases Nat.lt_or_ge n pf with
    | inl h => have := hS.log.gone n h; rw [hfile] at this; cases this
    | inr h => exact h
  have hf2 := hS.log.files n h1 (by omega)
  have hfile' : file = gbytes (psp n) := by
    rw [hfile] at hf2; exact Option.some.inj hf2
  have hsp : spansOf file = psp n := by rw [hfile']; exact spansOf_gbytes (hS.log.ok n h1 (by omega))
  rw [hsp] at hwf hne ⊢
  obtain ⟨k', psp', got, pre, off, body, q1, _, q3, _, q5, q6, q7, q8, q9, q10⟩ :=
    reapRecords_lowuse hU hS (by
      have : gcCnt ⟨cfg, m, d⟩ < 268435456 := hb2
      omega) h1 hn lowUse hwf hne (by rw [← hfile']; exact hlow)
  refine ⟨q1, ?_, pre, off, body, q6, q7, q8, q9, q10⟩
  have e1 : (reapRecords m d n lowUse).2.1.pfileNum = m.pfileNum := (reapRecords_mem m d n lowUse).2.1
  refine ⟨gbytes (psp' n), q3.log.files n h1 (by rw [e1]; omega), ?_⟩
  rw [spansOf_gbytes (q3.log.ok n h1 (by rw [e1]; omega))]
  exact q5

end Sth.C11
