/-
C10 (byte level) — evaluating the upgrading OpenStore on the directory of abstract legacy contents:
the primary phase.
Core Lean only.
-/
import Sth.Lemmas.C10Pri

namespace Sth

namespace LegacyC

/-- the freelist file after freelist.Open -/
def flBytes (C : LegacyC) : Bytes := (C.freed.getD []).flatMap fun i => blockBytes (C.blockOf i)

theorem openFreelist_legacy (C : LegacyC) :
    openFreelist { free := C.dir.free } = { free := some C.flBytes } := by
  unfold openFreelist dir flBytes
  cases hf : C.freed with
  | none => rfl
  | some l =>
    simp only [Option.map_some, Option.getD_some]
    have hl := flatMap_block_length C.blockOf l
    have : (l.flatMap fun i => blockBytes (C.blockOf i)).length -
        (l.flatMap fun i => blockBytes (C.blockOf i)).length % 12 =
        (l.flatMap fun i => blockBytes (C.blockOf i)).length := by
      rw [hl]; omega
    rw [this, List.take_length]

theorem blockOf_off_lt (C : LegacyC) (hsz : ∀ kv ∈ C.recs, recSize kv < two31)
    (hn : C.recs.length < 1073741824) (i : Nat) : (C.blockOf i).off < two64 / 4 := by
  have h1 := C.offsetOf_le i
  have h2 := C.data_length hsz
  have h3 : C.recs.length * (two31 + 4) ≤ 1073741824 * (two31 + 4) := Nat.mul_le_mul_right _ (by omega)
  show C.offsetOf i < two64 / 4
  unfold two64 two31 at *
  omega

theorem marked_data_length (C : LegacyC) : (mdata C.marked).length = (legacyPrimary C.recs).length := by
  rw [legacyPrimary_eq, mdata_length, mdata_length]
  have e : ∀ x : List MRec, (x.map fun r => 4 + msize r) = (x.map (·.2)).map fun p => 4 + (p.1.length + p.2.length) := by
    intro x; rw [List.map_map]; rfl
  rw [e, e, marked_payload, List.map_map]
  congr 1
  rw [List.map_map]
  rfl

theorem markFreed_legacy (C : LegacyC) (hsz : ∀ kv ∈ C.recs, recSize kv < two31)
    (hfr : ∀ l, C.freed = some l → ∀ i ∈ l, i < C.recs.length) (hn : C.recs.length < 1073741824) :
    markFreed (legacyPrimary C.recs) (freeOffsets C.flBytes) = some (mdata C.marked) := by
  have hoff : ∀ i, (C.blockOf i).off < two64 := fun i => by
    have := C.blockOf_off_lt hsz hn i; unfold two64 at *; omega
  unfold flBytes
  rw [freeOffsets_flatMap C.blockOf hoff, legacyPrimary_eq]
  have e : ((C.freed.getD []).map fun i => (C.blockOf i).off) =
      (C.freed.getD []).map (offsetM (C.recs.map fun kv => ((false, kv) : MRec))) := by
    apply List.map_congr_left
    intro i _
    rw [offsetM0]; rfl
  rw [e]
  apply markFreed_all
  · intro r hr
    obtain ⟨kv, hkv, rfl⟩ := List.mem_map.mp hr
    exact hsz kv hkv
  · rw [← legacyPrimary_eq]
    have h2 := C.data_length hsz
    have h3 : C.recs.length * (two31 + 4) ≤ 1073741824 * (two31 + 4) := Nat.mul_le_mul_right _ (by omega)
    unfold two64 two31 at *
    omega
  · intro i hi
    rw [List.length_map]
    cases hf : C.freed with
    | none => rw [hf] at hi; simp at hi
    | some l => rw [hf] at hi; exact hfr l hf i (by simpa using hi)

theorem pfilesL_ne (C : LegacyC) (pmax : Nat) : C.pfilesL pmax ≠ [] := chunkFiles_ne _ _

theorem openPrimaryU_legacy (c : Cfg) (hc : c.Legal) (C : LegacyC)
    (hsz : ∀ kv ∈ C.recs, recSize kv < two31)
    (hfr : ∀ l, C.freed = some l → ∀ i ∈ l, i < C.recs.length) (hn : C.recs.length < 1073741824)
    (idx : Option Bytes) :
    openPrimaryU c { data := some (legacyPrimary C.recs), index := idx,
                     disk := openFreelist { free := C.dir.free } } =
      some ({ data := none, index := idx,
              disk := { free := some [], freeGc := none, pfiles := setFiles [] 0 (C.pfilesL c.pfs),
                        phdr := some ⟨c.pfs, 0⟩ } },
            c.pfs, (C.pfilesL c.pfs).length - 1,
            (fileOf (setFiles [] 0 (C.pfilesL c.pfs)) ((C.pfilesL c.pfs).length - 1)).length) := by
  obtain ⟨h1, h2, h3, h4, h5, h6⟩ := hc
  have hp0 : c.pfs ≠ 0 := by omega
  have hp1 : ¬ c.pfs > defaultMax := by omega
  rw [openFreelist_legacy]
  unfold openPrimaryU
  simp only [hp0, if_false, hp1]
  have hgc : toGCU ({ free := some C.flBytes } : Disk) = { free := some [], freeGc := some C.flBytes } := rfl
  simp only [hgc, Option.getD_some, C.markFreed_legacy hsz hfr hn]
  have hparse := parseOldPrimary_mdata C.marked (C.msize_marked hsz) [] ((mdata C.marked).length + 1) scratch0
    (by have := length_le_mdata C.marked; omega)
  simp only [List.nil_append, List.length_nil] at hparse
  rw [hparse]
  simp only
  by_cases he : (mdata C.marked).isEmpty = true
  · have hr : C.recs = [] := by
      have h0 : (mdata C.marked).length = 0 := by
        rw [List.isEmpty_iff] at he; rw [he]; rfl
      have := length_le_mdata C.marked
      rw [C.marked_length] at this
      exact List.length_eq_zero_iff.mp (by omega)
    have hm : C.marked = [] := by
      have := C.marked_length; rw [hr] at this; exact List.length_eq_zero_iff.mp this
    have hf : C.pfilesL c.pfs = [[]] := by
      unfold pfilesL out; rw [hm]; rfl
    simp only [he, if_true]
    rw [hf]
    rfl
  · simp only [he, Bool.false_eq_true, if_false]
    rfl

end LegacyC

end Sth
