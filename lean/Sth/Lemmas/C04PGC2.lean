import Sth.Lemmas.C04PGC

/-! C04, primary GC: reapRecords on one closed file, and the file loop. -/

namespace Sth

section
variable {c : Cfg} {U : List (Bytes × Bytes)} {cfg : Cfg} {m : Mem} {d : Disk} {spec : Spec}
  {k B pf : Nat} {psp : Nat → List GSpan}

theorem GState.mono {k' : Nat} (h : GState c U cfg m d spec k B pf psp) (hk : k ≤ k') :
    GState c U cfg m d spec k' B pf psp :=
  ⟨GInv.mono (s := ⟨cfg, m, d⟩) h.g hk (Nat.le_refl _), h.hdr, h.log, h.ent, h.fl⟩

/-- the optional relocation of one record span -/
theorem relocate_state (hU : Univ c.kind U) (hS : GState c U cfg m d spec k B pf psp)
    (hk : k + 1 < 1073741824) {fnum at_ : Nat} {body : Bytes}
    (h1 : pf ≤ fnum) (h2 : fnum < m.pfileNum) (hx : (at_, body) ∈ liveAt 0 (psp fnum)) {m' : Mem}
    (hrel : relocate m d fnum (gbytes (psp fnum)) at_ body.length = some m') :
    GState c U cfg m' d spec (k + 1) B pf psp ∧ m'.pfileNum = m.pfileNum ∧ m'.pmax = m.pmax ∧
      m'.visited = m.visited := by
  obtain ⟨g1, g2, g3, g4, g5, g6, g7⟩ := relocate_g hU hS.g hk hS.hdr hS.log hS.ent hS.fl h1 h2 hx hrel
  exact ⟨⟨g1, by rw [g6]; exact hS.hdr, g2, g3, g4⟩, g5, g6, g7⟩

/-- reapRecords on a closed file -/
theorem reapRecords_g (hU : Univ c.kind U) (hS : GState c U cfg m d spec k B pf psp)
    (hk : k + 2 < 1073741824) {nn : Nat} (h1 : pf ≤ nn) (h2 : nn < m.pfileNum) (lowUse : Nat) :
    ∃ k' psp', GState c U cfg (reapRecords m d nn lowUse).2.1 (reapRecords m d nn lowUse).2.2.1 spec k' B
        pf psp' ∧ k' ≤ k + 2 ∧
      (reapRecords m d nn lowUse).2.1.pfileNum = m.pfileNum ∧
      (reapRecords m d nn lowUse).2.1.pmax = m.pmax ∧
      (reapRecords m d nn lowUse).2.1.visited = m.visited ∧
      ((reapRecords m d nn lowUse).1 = .dead → liveAt 0 (psp' nn) = []) := by
  have hfile : d.pfiles.get? nn = some (gbytes (psp nn)) := hS.log.files nn h1 (by omega)
  unfold reapRecords
  rw [hfile]
  simp only
  by_cases hemp : (gbytes (psp nn)).isEmpty = true
  · rw [if_pos hemp]
    refine ⟨k, psp, hS, by omega, rfl, rfl, rfl, fun _ => ?_⟩
    have : psp nn = [] := gbytes_eq_nil (List.isEmpty_iff.mp hemp)
    rw [this]; rfl
  rw [if_neg hemp]
  obtain ⟨ss', hf', hR, hL, hdead⟩ := reapFile_ok (psp nn) (hS.log.ok nn h1 (by omega))
  generalize reapPriLoop ((gbytes (psp nn)).length + 2) { file := gbytes (psp nn) } = st at hf' hL hdead ⊢
  -- the file written back
  have hfw : (if st.freeAt > st.busyAt then
        (truncateTo st.file st.freeAt.toNat, st.freeAtSize, decide (st.freeAt = 0))
      else (st.file, 0, false)) =
      (gbytes ss', (if st.freeAt > st.busyAt then st.freeAtSize else 0),
        (if st.freeAt > st.busyAt then decide (st.freeAt = 0) else false)) := by
    by_cases hc : st.freeAt > st.busyAt
    · rw [if_pos hc] at hf'; simp only [if_pos hc, hf']
    · rw [if_neg hc] at hf'; simp only [if_neg hc, hf']
  rw [hfw]
  simp only
  -- the state after the file is written back
  obtain ⟨l1, l2, l3⟩ := reap_step hS.log h1 h2 hR
  have hne : nn ≠ m.pfileNum := by omega
  obtain ⟨g1, g2, g3⟩ := ginv_disk_step (d' := { d with pfiles := d.pfiles.set nn (gbytes ss') })
    hS.g (by omega) hS.log hS.ent hS.fl rfl rfl rfl rfl hS.hdr l1
    (fun blk body _ ho => l2 blk body ho) (fun fb hfb => l3 fb hfb.2.2.1)
    (by
      show (fileOf (d.pfiles.set nn (gbytes ss')) m.pfileNum).length = m.plength
      unfold fileOf
      rw [NMap.get?_set_ne _ _ (Ne.symm hne)]
      exact hS.g.plen)
    (by
      intro f hf
      show (d.pfiles.set nn (gbytes ss')).get? f = none
      rw [NMap.get?_set_ne _ _ (by omega)]
      exact hS.g.pno f hf)
  have hS1 : GState c U cfg m { d with pfiles := d.pfiles.set nn (gbytes ss') } spec k B pf
      (fun f => if f = nn then ss' else psp f) := ⟨g1, hS.hdr, l1, g2, g3⟩
  have hpn : (fun f => if f = nn then ss' else psp f) nn = ss' := by simp
  by_cases hdd : (if st.freeAt > st.busyAt then decide (st.freeAt = 0) else false) = true
  · rw [if_pos hdd]
    refine ⟨k, _, hS1, by omega, rfl, rfl, rfl, fun _ => ?_⟩
    show liveAt 0 ((fun f => if f = nn then ss' else psp f) nn) = []
    rw [hpn]
    by_cases hc : st.freeAt > st.busyAt
    · rw [if_pos hc] at hdd
      rw [hdead hc (of_decide_eq_true hdd)]; rfl
    · rw [if_neg hc] at hdd; cases hdd
  rw [if_neg hdd]
  by_cases hb1 : st.busyAt = -1
  · rw [if_pos hb1]
    exact ⟨k, _, hS1, by omega, rfl, rfl, rfl, fun h => by cases h⟩
  rw [if_neg hb1]
  by_cases hlow : ¬ 100 * st.totalFree ≥ lowUse * (st.totalFree + st.totalBusy)
  · rw [if_neg hlow]
    exact ⟨k, _, hS1, by omega, rfl, rfl, rfl, fun h => by cases h⟩
  rw [if_pos (Classical.not_not.mp hlow)]
  rcases hL with ⟨hb, _⟩ | ⟨pre, off, body, hl, hba, hbs, hprev⟩
  · exact absurd hb hb1
  have hx : (off, body) ∈ liveAt 0 ((fun f => if f = nn then ss' else psp f) nn) := by
    rw [hpn, hl]; simp
  have hoff : st.busyAt.toNat = off := by rw [hba]; rfl
  rw [hoff, hbs]
  cases hr1 : relocate m { d with pfiles := d.pfiles.set nn (gbytes ss') } nn (gbytes ss') off body.length with
  | none => exact ⟨k, _, hS1, by omega, rfl, rfl, rfl, fun h => by cases h⟩
  | some m1 =>
    simp only
    have hr1' : relocate m { d with pfiles := d.pfiles.set nn (gbytes ss') } nn
        (gbytes ((fun f => if f = nn then ss' else psp f) nn)) off body.length = some m1 := by
      rw [hpn]; exact hr1
    obtain ⟨hS2, e1, e2, e3⟩ := relocate_state hU hS1 (by omega) h1 h2 hx hr1'
    rcases hprev with ⟨hp, _⟩ | ⟨pre', off', body', hl', hpa, hps⟩
    · have : ¬ st.prevBusyAt ≥ 0 := by rw [hp]; decide
      rw [if_neg this]
      exact ⟨k + 1, _, hS2, by omega, e1, e2, e3, fun h => by cases h⟩
    · have : st.prevBusyAt ≥ 0 := by rw [hpa]; exact Int.natCast_nonneg _
      rw [if_pos this]
      have hoff' : st.prevBusyAt.toNat = off' := by rw [hpa]; rfl
      rw [hoff', hps]
      have hx' : (off', body') ∈ liveAt 0 ((fun f => if f = nn then ss' else psp f) nn) := by
        rw [hpn, hl, hl']; simp
      cases hr2 : relocate m1 { d with pfiles := d.pfiles.set nn (gbytes ss') } nn (gbytes ss') off'
          body'.length with
      | none => exact ⟨k + 1, _, hS2, by omega, e1, e2, e3, fun h => by cases h⟩
      | some m2 =>
        simp only
        have hr2' : relocate m1 { d with pfiles := d.pfiles.set nn (gbytes ss') } nn
            (gbytes ((fun f => if f = nn then ss' else psp f) nn)) off' body'.length = some m2 := by
          rw [hpn]; exact hr2
        obtain ⟨hS3, e1', e2', e3'⟩ := relocate_state hU hS2 (by omega) h1 (by omega) hx' hr2'
        exact ⟨k + 1 + 1, _, hS3, by omega, by rw [e1', e1], by rw [e2', e2], by rw [e3', e3],
          fun h => by cases h⟩

end

end Sth
