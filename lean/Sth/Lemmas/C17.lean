/-
Lemmas for C17 (Sth/Props/C17.lean): a reachability invariant of the shutdown machine of
Sth/Model/Lifecycle.lean, preserved by every enabled step and hence by `run`, and its consequences.
-/
import Sth.Model.Lifecycle

namespace Sth.Life

/-! ### one collector -/

/-- invariant of one collector (code variant `waitForCycle = true`) -/
structure GInv (g : GCSt) : Prop where
  en : g.enabled = false → g.loop = .absent
  done_term : g.done = true → g.loop = .terminated
  dead_cycle : g.loop = .absent ∨ g.loop = .terminated → g.cycle ≠ .running
  run_open : g.cycle = .running → g.cycDone = some false

theorem ginv_init (e : Bool) : GInv (initGC e) := by
  cases e <;> constructor <;> simp [initGC]

theorem gcStep_inv {g g' : GCSt} {a : GCAct} {b : Bool} (h : GInv g) (hs : gcStep true g a = some (g', b)) :
    GInv g' := by
  obtain ⟨h1, h2, h3, h4⟩ := h
  cases a <;> simp [gcStep] at hs <;> obtain ⟨hc, rfl, rfl⟩ := hs <;> constructor <;> simp_all

/-- a collector step leaves the configuration and the stop channel alone -/
theorem gcStep_frame {w : Bool} {g g' : GCSt} {a : GCAct} {b : Bool} (hs : gcStep w g a = some (g', b)) :
    g'.enabled = g.enabled ∧ g'.stop = g.stop := by
  cases a <;> simp [gcStep] at hs <;> obtain ⟨_, rfl, rfl⟩ := hs <;> simp

/-- a loop that never existed or has terminated stays so -/
theorem gcStep_dead {w : Bool} {g g' : GCSt} {a : GCAct} {b : Bool} (hs : gcStep w g a = some (g', b))
    (hd : g.loop = .absent ∨ g.loop = .terminated) : g'.loop = .absent ∨ g'.loop = .terminated := by
  cases a <;> simp [gcStep] at hs <;> obtain ⟨hc, rfl, rfl⟩ := hs <;> simp_all

/-- only a running cycle performs file-system steps -/
theorem gcStep_fs {w : Bool} {g g' : GCSt} {a : GCAct} (hs : gcStep w g a = some (g', true)) :
    g.cycle = .running := by
  cases a <;> simp [gcStep] at hs
  obtain ⟨h, rfl⟩ := hs; exact h

theorem ginv_setStop {g : GCSt} (h : GInv g) : GInv { g with stop := true } := by
  obtain ⟨h1, h2, h3, h4⟩ := h
  constructor <;> simp_all

/-! ### the whole machine -/

/-- the reachability invariant (code variant: `waitForCycle = true`, `lateStart = false`) -/
structure Inv (s : State) : Prop where
  wf : s.waitForCycle = true
  ls : s.lateStart = false
  gi : GInv s.igc
  gp : GInv s.pgc
  /-- `open` is cleared by the closer's first step and never set again -/
  open_idle : s.isOpen = true ↔ s.closer = .idle
  /-- before Close: a flusher exists only if `running` is set -/
  fl_run : s.closer = .idle → s.running = false → s.flusher = .absent
  closing_rank : s.closing = true → 2 ≤ s.closer.rank
  closed_term : s.closed = true → s.flusher = .terminated ∧ s.closing = true
  /-- the closer is past `<-s.closed` only if there is no flusher any more -/
  past_fl : 3 ≤ s.closer.rank → s.flusher = .absent ∨ s.flusher = .terminated
  /-- … past `<-gc.done` only if the primary collector's loop is gone -/
  past_pgc : 5 ≤ s.closer.rank → s.pgc.loop = .absent ∨ s.pgc.loop = .terminated
  /-- … past `<-idx.gcDone` only if the index collector's loop is gone -/
  past_igc : 8 ≤ s.closer.rank → s.igc.loop = .absent ∨ s.igc.loop = .terminated
  fs_lt : ∀ e ∈ s.fs, e.2 < s.clock
  ret_some : ∀ r, s.closeReturnedAt = some r → s.closer = .returned ∧ r < s.clock ∧ ∀ e ∈ s.fs, e.2 < r
  ret_none : s.closeReturnedAt = none → s.closer ≠ .returned

theorem inv_init (cfg : Config) : Inv (init cfg) := by
  obtain ⟨st, ig, pg⟩ := cfg
  constructor <;> first | exact ginv_init _ | (cases st <;> simp [init, CPc.rank])

theorem closerStep_inv {s s' : State} (h : Inv s) (hs : closerStep s = some s') : Inv s' := by
  obtain ⟨h1, h2, h3, h4, h5, h6, h7, h8, h9, h10, h11, h12, h13, h14⟩ := h
  have h3' := ginv_setStop h3
  have h4' := ginv_setStop h4
  have h3d := h3.done_term
  have h4d := h4.done_term
  have h3e := h3.en
  have h4e := h4.en
  cases hc : s.closer <;> simp only [closerStep, hc] at hs <;>
    simp only [hc, CPc.rank, reduceCtorEq, Nat.reduceLeDiff, false_imp_iff, true_imp_iff, iff_false, iff_true,
      not_false_eq_true, ne_eq, imp_false, Nat.le_refl] at h5 h6 h7 h9 h10 h11 h13 h14
  all_goals (try split at hs)
  all_goals (try simp only [Option.some.injEq, reduceCtorEq] at hs)
  all_goals (subst hs)
  all_goals (constructor <;> dsimp only [tick, logFs, CPc.rank] <;> first | assumption | grind)

theorem flStep_inv {s s' : State} {a : FlAct} (h : Inv s) (hs : flStep s a = some s') : Inv s' := by
  obtain ⟨h1, h2, h3, h4, h5, h6, h7, h8, h9, h10, h11, h12, h13, h14⟩ := h
  cases a <;> simp only [flStep] at hs <;> split at hs <;> simp only [Option.some.injEq, reduceCtorEq] at hs
  all_goals subst hs
  all_goals (constructor <;> dsimp only [tick, logFs] <;> first | assumption | grind [CPc.rank])

theorem gc_index_inv {s : State} {g : GCSt} {a : GCAct} {b : Bool} (h : Inv s)
    (hs : gcStep s.waitForCycle s.igc a = some (g, b)) :
    Inv (tick (if b then logFs .igcCycle { s with igc := g } else { s with igc := g })) := by
  obtain ⟨h1, h2, h3, h4, h5, h6, h7, h8, h9, h10, h11, h12, h13, h14⟩ := h
  rw [h1] at hs
  have hg := gcStep_inv h3 hs
  have hd := gcStep_dead hs
  have hf : b = true → s.igc.cycle = .running := by intro hb; subst hb; exact gcStep_fs hs
  have hdc := h3.dead_cycle
  cases b <;> constructor <;> dsimp only [tick, logFs] <;> first | assumption | grind [CPc.rank]

theorem gc_primary_inv {s : State} {g : GCSt} {a : GCAct} {b : Bool} (h : Inv s)
    (hs : gcStep s.waitForCycle s.pgc a = some (g, b)) :
    Inv (tick (if b then logFs .pgcCycle { s with pgc := g } else { s with pgc := g })) := by
  obtain ⟨h1, h2, h3, h4, h5, h6, h7, h8, h9, h10, h11, h12, h13, h14⟩ := h
  rw [h1] at hs
  have hg := gcStep_inv h4 hs
  have hd := gcStep_dead hs
  have hf : b = true → s.pgc.cycle = .running := by intro hb; subst hb; exact gcStep_fs hs
  have hdc := h4.dead_cycle
  cases b <;> constructor <;> dsimp only [tick, logFs] <;> first | assumption | grind [CPc.rank]

theorem step_inv {s s' : State} {st : Step} (h : Inv s) (hs : step s st = some s') : Inv s' := by
  cases st with
  | closer => exact closerStep_inv h hs
  | fl a => exact flStep_inv h hs
  | gc g a =>
    cases g <;> simp only [step] at hs <;> split at hs
    · cases hs
    · rename_i g b hg; cases hs; exact gc_index_inv h hg
    · cases hs
    · rename_i g b hg; cases hs; exact gc_primary_inv h hg
  | close2 =>
    obtain ⟨h1, h2, h3, h4, h5, h6, h7, h8, h9, h10, h11, h12, h13, h14⟩ := h
    simp only [step] at hs; split at hs <;> simp only [Option.some.injEq, reduceCtorEq] at hs
    subst hs
    constructor <;> dsimp only [tick] <;> first | assumption | grind [CPc.rank]
  | tick =>
    obtain ⟨h1, h2, h3, h4, h5, h6, h7, h8, h9, h10, h11, h12, h13, h14⟩ := h
    simp only [step, Option.some.injEq] at hs
    subst hs
    constructor <;> dsimp only [tick] <;> first | assumption | grind [CPc.rank]
  | start =>
    obtain ⟨h1, h2, h3, h4, h5, h6, h7, h8, h9, h10, h11, h12, h13, h14⟩ := h
    simp only [step] at hs
    split at hs
    · split at hs <;> simp only [Option.some.injEq] at hs <;> subst hs <;>
        constructor <;> dsimp only [tick] <;> first | assumption | grind [CPc.rank]
    · cases hs

theorem run_inv {s : State} (sched : List Step) (h : Inv s) : Inv (run s sched) := by
  induction sched generalizing s with
  | nil => exact h
  | cons st rest ih =>
    simp only [run, List.foldl_cons]
    cases hst : step s st with
    | none => exact ih h
    | some s' => exact ih (step_inv h hst)

/-- continuing a run = running the concatenated schedule -/
theorem run_append (s : State) (a b : List Step) : run (run s a) b = run s (a ++ b) := by
  simp [run, List.foldl_append]

theorem reach_inv (cfg : Config) (sched : List Step) : Inv (run (init cfg) sched) :=
  run_inv sched (inv_init cfg)

/-! ### consequences -/

/-- what the invariant says once the closer is past the flusher handshake, the primary collector's and the index
    collector's: the corresponding goroutines are gone -/
theorem dead_of_rank {s : State} (h : Inv s) :
    (3 ≤ s.closer.rank → s.flusher.live = false) ∧
    (5 ≤ s.closer.rank → s.pgc.loop.live = false ∧ s.pgc.cycle.live = false) ∧
    (8 ≤ s.closer.rank → s.igc.loop.live = false ∧ s.igc.cycle.live = false) := by
  obtain ⟨h1, h2, h3, h4, h5, h6, h7, h8, h9, h10, h11, h12, h13, h14⟩ := h
  have := h3.dead_cycle
  have := h4.dead_cycle
  refine ⟨?_, ?_, ?_⟩ <;> intro hr
  · rcases h9 hr with h | h <;> simp [h, FlPc.live]
  · have hl := h10 hr
    have hc := h4.dead_cycle hl
    constructor
    · rcases hl with h | h <;> simp [h, LPc.live]
    · cases hcy : s.pgc.cycle <;> simp_all [CyPc.live]
  · have hl := h11 (by omega)
    have hc := h3.dead_cycle hl
    constructor
    · rcases hl with h | h <;> simp [h, LPc.live]
    · cases hcy : s.igc.cycle <;> simp_all [CyPc.live]

theorem quiescent {s : State} (h : Inv s) (hr : s.closer = .returned) : bg s = [] := by
  obtain ⟨hf, hp, hi⟩ := dead_of_rank h
  rw [hr] at hf hp hi
  simp [bg, hf (by decide), hp (by decide), hi (by decide)]

/-- a Close call after Close has returned is enabled, and changes nothing but the step counter -/
theorem reclose {s : State} (h : Inv s) (hr : s.closer = .returned) :
    step s .closer = some (tick s) ∧ step s .close2 = some (tick s) := by
  have ho : s.isOpen = false := by
    cases ho : s.isOpen
    · rfl
    · have := h.open_idle.mp ho; rw [hr] at this; cases this
  simp [step, closerStep, hr, ho]

/-- after Close has returned no step logs a file-system step (and the closer stays returned) -/
theorem quiet_step {s s' : State} {st : Step} (h : Inv s) (hr : s.closer = .returned)
    (hs : step s st = some s') :
    s'.fs = s.fs ∧ s'.closer = .returned ∧ s'.closeReturnedAt = s.closeReturnedAt := by
  obtain ⟨hf, hp, hi⟩ := dead_of_rank h
  rw [hr] at hf hp hi
  have hf := hf (by decide)
  have hp := hp (by decide)
  have hi := hi (by decide)
  cases st with
  | closer => rw [(reclose h hr).1] at hs; cases hs; simp [tick, hr]
  | close2 => rw [(reclose h hr).2] at hs; cases hs; simp [tick, hr]
  | tick => simp only [step, Option.some.injEq] at hs; subst hs; simp [tick, hr]
  | start =>
    simp only [step] at hs
    split at hs
    · split at hs <;> simp only [Option.some.injEq] at hs <;> subst hs <;> simp [tick, hr]
    · cases hs
  | fl a =>
    cases a <;> simp only [flStep, step] at hs <;> split at hs <;> simp only [Option.some.injEq, reduceCtorEq] at hs
    all_goals simp_all [FlPc.live]
  | gc g a =>
    cases g <;> simp only [step] at hs <;> split at hs
    · cases hs
    · rename_i g b hg
      cases b
      · cases hs; simp [tick, hr]
      · have := gcStep_fs hg; simp_all [CyPc.live]
    · cases hs
    · rename_i g b hg
      cases b
      · cases hs; simp [tick, hr]
      · have := gcStep_fs hg; simp_all [CyPc.live]

theorem quiet_run {s : State} (more : List Step) (h : Inv s) (hr : s.closer = .returned) :
    (run s more).fs = s.fs ∧ (run s more).closer = .returned ∧
      (run s more).closeReturnedAt = s.closeReturnedAt := by
  induction more generalizing s with
  | nil => exact ⟨rfl, hr, rfl⟩
  | cons st rest ih =>
    simp only [run, List.foldl_cons]
    cases hst : step s st with
    | none => exact ih h hr
    | some s' =>
      obtain ⟨q1, q2, q3⟩ := quiet_step h hr hst
      obtain ⟨r1, r2, r3⟩ := ih (step_inv h hst) q2
      simp only [run] at r1 r2 r3
      simp only [Option.getD_some]
      exact ⟨r1.trans q1, r2, r3.trans q3⟩

/-- `n` further Close calls only advance the step counter -/
theorem reclose_run {s : State} (h : Inv s) (hr : s.closer = .returned) (n : Nat) :
    run s (List.replicate n .closer) = { s with clock := s.clock + n } := by
  induction n generalizing s with
  | zero => rfl
  | succ n ih =>
    have h1 := (reclose h hr).1
    have hi : Inv (tick s) := step_inv h h1
    have := ih hi (by simpa [tick] using hr)
    simp only [List.replicate_succ, run, List.foldl_cons, h1, Option.getD_some]
    simp only [run] at this
    rw [this]
    simp only [tick]
    congr 1
    omega

theorem returned_recorded {s : State} (h : Inv s) :
    s.closer = .returned ↔ ∃ r, s.closeReturnedAt = some r := by
  constructor
  · intro hr
    cases hc : s.closeReturnedAt with
    | none => exact absurd hr (h.ret_none hc)
    | some r => exact ⟨r, rfl⟩
  · rintro ⟨r, hr⟩
    exact (h.ret_some r hr).1

theorem no_fs_after_close {s : State} (h : Inv s) (r : Nat) (hr : s.closeReturnedAt = some r) :
    (∀ e ∈ s.fs, e.2 < r) ∧
    ∀ more : List Step, (run s more).fs = s.fs ∧ bg (run s more) = [] ∧ (run s more).closeReturnedAt = some r := by
  obtain ⟨hret, _, hfs⟩ := h.ret_some r hr
  refine ⟨hfs, fun more => ?_⟩
  obtain ⟨q1, q2, q3⟩ := quiet_run more h hret
  exact ⟨q1, quiescent (run_inv more h) q2, q3.trans hr⟩

theorem close_idempotent {s : State} (h : Inv s) :
    (s.closer = .returned →
      step s .closer = some { s with clock := s.clock + 1 } ∧
      step s .close2 = some { s with clock := s.clock + 1 } ∧
      ∀ n, run s (List.replicate n .closer) = { s with clock := s.clock + n }) ∧
    (∀ s', step s .close2 = some s' → s' = { s with clock := s.clock + 1 }) := by
  refine ⟨fun hr => ⟨(reclose h hr).1, (reclose h hr).2, reclose_run h hr⟩, fun s' hs => ?_⟩
  simp only [step] at hs
  split at hs
  · cases hs
  · cases hs; rfl

theorem close_waits {s : State} (h : Inv s) (hrun : s.igc.cycle = .running ∨ s.pgc.cycle = .running) :
    s.closer ≠ .returned := by
  intro hr
  obtain ⟨_, hp, hi⟩ := dead_of_rank h
  rw [hr] at hp hi
  have hp := (hp (by decide)).2
  have hi := (hi (by decide)).2
  rcases hrun with h | h
  · rw [h] at hi; cases hi
  · rw [h] at hp; cases hp

theorem handshake_before_files {s : State} (h : Inv s) :
    (CPc.primaryFlush.rank ≤ s.closer.rank →
      s.flusher.live = false ∧ s.pgc.loop.live = false ∧ s.pgc.cycle.live = false) ∧
    (CPc.indexFlush.rank ≤ s.closer.rank → s.igc.loop.live = false ∧ s.igc.cycle.live = false) := by
  obtain ⟨hf, hp, hi⟩ := dead_of_rank h
  refine ⟨fun hr => ?_, fun hr => ?_⟩
  · have hr : 5 ≤ s.closer.rank := hr
    exact ⟨hf (by omega), hp hr⟩
  · exact hi hr

end Sth.Life
