/-
C03, crashes while OpenStore runs — every step of an open on a directory of shape `OpenShape` leaves a
directory of the same shape that recovers the same: OpenStore is idempotent on its own partial results.
Core Lean only.
-/
import Sth.Lemmas.C03OpenShape
import Sth.Lemmas.C03OpenSteps

namespace Sth.C03O

theorem scanIndexSteps_go_eq (nb max fuel n : Nat) (files : NMap Bytes) (bk : NMap Nat) :
    scanIndexSteps.go nb max (fuel + 1) n files bk =
      match files.get? n with
      | none => []
      | some file =>
        if file.isEmpty then scanIndexSteps.go nb max fuel (n + 1) files bk else
        match scanFile nb max n (file.length + 1) file 0 bk with
        | none => []
        | some (file', bk') =>
          files.set n file' :: scanIndexSteps.go nb max fuel (n + 1) (files.set n file') bk' := rfl

/-- the file maps the scan of a torn span log passes through: the files up to some `j` are cut to their
    whole records, the others are as they were -/
theorem scanSteps_go_spans_torn {bits max first M : Nat} {files0 : NMap Bytes}
    {sp : Nat → List GSpan} {junk : Nat → Bytes}
    (hfiles : ∀ f, first ≤ f → f ≤ M → files0.get? f = some (gbytes (sp f) ++ junk f))
    (hno : files0.get? (M + 1) = none)
    (hok : ∀ f, first ≤ f → f ≤ M → ∀ s ∈ sp f, IdxSpanOK bits s)
    (hj : ∀ f, first ≤ f → f ≤ M → IsTorn bits (junk f)) :
    ∀ (k n fuel : Nat) (files : NMap Bytes) (bk : NMap Nat), first ≤ n → n + k = M + 1 →
      k + 1 ≤ fuel →
      (∀ f, (f < first ∨ n ≤ f) → files.get? f = files0.get? f) →
      (∀ f, first ≤ f → f < n → files.get? f = some (gbytes (sp f))) →
      ∀ fs ∈ scanIndexSteps.go (2 ^ bits) max fuel n files bk, ∃ j, n ≤ j ∧ j ≤ M ∧
        (∀ f, first ≤ f → f ≤ j → fs.get? f = some (gbytes (sp f))) ∧
        (∀ f, (f < first ∨ j < f) → fs.get? f = files0.get? f)
  | 0, n, fuel, files, bk, _, hn, hf, hge, _ => by
    obtain ⟨f, rfl⟩ : ∃ f, fuel = f + 1 := ⟨fuel - 1, by omega⟩
    have : n = M + 1 := by omega
    subst this
    rw [scanIndexSteps_go_eq, hge (M + 1) (Or.inr (Nat.le_refl _)), hno]
    intro fs hfs
    cases hfs
  | k + 1, n, fuel, files, bk, hn1, hn, hf, hge, hlt => by
    obtain ⟨f, rfl⟩ : ∃ f, fuel = f + 1 := ⟨fuel - 1, by omega⟩
    have hget : files.get? n = some (gbytes (sp n) ++ junk n) := by
      rw [hge n (Or.inr (Nat.le_refl _)), hfiles n hn1 (by omega)]
    rw [scanIndexSteps_go_eq, hget]
    simp only
    by_cases hem : (gbytes (sp n) ++ junk n).isEmpty = true
    · rw [if_pos hem]
      have hnil0 : gbytes (sp n) ++ junk n = [] := List.isEmpty_iff.mp hem
      have hnil1 : gbytes (sp n) = [] := (List.append_eq_nil_iff.mp hnil0).1
      intro fs hfs
      obtain ⟨j, j1, j2, j3, j4⟩ := scanSteps_go_spans_torn hfiles hno hok hj k (n + 1) f files bk
        (by omega) (by omega) (by omega) (fun f' hf' => hge f' (by omega)) (by
          intro f' hf1 hf2
          by_cases hfn : f' = n
          · rw [hfn, hget, hnil0, hnil1]
          · exact hlt f' hf1 (by omega)) fs hfs
      exact ⟨j, by omega, j2, j3, j4⟩
    · rw [if_neg hem]
      have hs := scanFile_spans_torn (bits := bits) (max := max) (fnum := n) (junk n)
        (hj n hn1 (by omega)) (sp n) [] bk ((gbytes (sp n) ++ junk n).length + 1)
        (hok n hn1 (by omega)) (by
          have := gbytes_length_ge (sp n)
          rw [List.length_append]; omega)
      simp only [List.nil_append, List.length_nil] at hs
      rw [hs]
      simp only
      intro fs hfs
      rcases List.mem_cons.mp hfs with rfl | hfs
      · refine ⟨n, Nat.le_refl _, by omega, ?_, ?_⟩
        · intro f' hf1 hf2
          rw [NMap.get?_set]
          split
          · rename_i hf''; rw [hf'']
          · exact hlt f' hf1 (by omega)
        · intro f' hf'
          rw [NMap.get?_set, if_neg (by omega)]
          exact hge f' (by omega)
      · obtain ⟨j, j1, j2, j3, j4⟩ := scanSteps_go_spans_torn hfiles hno hok hj k (n + 1) f
          (files.set n (gbytes (sp n))) (setAll bk (fileLive max n 0 (sp n))) (by omega) (by omega)
          (by omega) (by
            intro f' hf'
            rw [NMap.get?_set, if_neg (by omega)]
            exact hge f' (by omega)) (by
            intro f' hf1 hf2
            rw [NMap.get?_set]
            split
            · rename_i hf''; rw [hf'']
            · exact hlt f' hf1 (by omega)) fs hfs
        exact ⟨j, by omega, j2, j3, j4⟩

theorem scanSteps_spans_torn {bits max first M : Nat} {files : NMap Bytes}
    {sp : Nat → List GSpan} {junk : Nat → Bytes} (hle : first ≤ M)
    (hfiles : ∀ f, first ≤ f → f ≤ M → files.get? f = some (gbytes (sp f) ++ junk f))
    (hno : files.get? (M + 1) = none)
    (hok : ∀ f, first ≤ f → f ≤ M → ∀ s ∈ sp f, IdxSpanOK bits s)
    (hj : ∀ f, first ≤ f → f ≤ M → IsTorn bits (junk f)) :
    ∀ fs ∈ scanIndexSteps (2 ^ bits) max files first, ∃ j, first ≤ j ∧ j ≤ M ∧
      (∀ f, first ≤ f → f ≤ j → fs.get? f = some (gbytes (sp f))) ∧
      (∀ f, (f < first ∨ j < f) → fs.get? f = files.get? f) := by
  have hlen := NMap.length_ge_interval (M + 1 - first) first files
    (fun f h1 h2 => by rw [hfiles f h1 (by omega)]; simp)
  exact scanSteps_go_spans_torn (max := max) hfiles hno hok hj
    (M + 1 - first) first (files.length + 1) files [] (Nat.le_refl _) (by omega) (by omega)
    (fun _ _ => rfl) (fun f h1 h2 => absurd h2 (by omega))

/-! ### the shape under the changes an open makes -/

section
variable {c : Cfg} {d : Disk} {pf Pm first M : Nat} {sp : Nat → List GSpan} {junk : Nat → Bytes}

theorem OpenShape.set_free (h : OpenShape c d pf Pm first M sp junk) (fr : Option Bytes) :
    OpenShape c { d with free := fr } pf Pm first M sp junk :=
  ⟨h.ihdr, h.phdr, h.ple, h.pall, h.pno, h.fM, h.files, h.noI, h.ok, h.torn, h.snap⟩

theorem OpenShape.set_cid (h : OpenShape c d pf Pm first M sp junk) (cf : Option Bytes) :
    OpenShape c { d with cidfile := cf } pf Pm first M sp junk :=
  ⟨h.ihdr, h.phdr, h.ple, h.pall, h.pno, h.fM, h.files, h.noI, h.ok, h.torn, h.snap⟩

theorem OpenShape.no_snap (h : OpenShape c d pf Pm first M sp junk) :
    OpenShape c { d with snap := none } pf Pm first M sp junk :=
  ⟨h.ihdr, h.phdr, h.ple, h.pall, h.pno, h.fM, h.files, h.noI, h.ok, h.torn,
    fun sn hsn => by cases hsn⟩

/-- the files up to `j` cut to their whole records -/
theorem OpenShape.scanned (h : OpenShape c d pf Pm first M sp junk) {fs : NMap Bytes} {j : Nat}
    (hjM : j ≤ M) (h1 : ∀ f, first ≤ f → f ≤ j → fs.get? f = some (gbytes (sp f)))
    (h2 : ∀ f, (f < first ∨ j < f) → fs.get? f = d.ifiles.get? f) :
    OpenShape c { d with snap := none, ifiles := fs } pf Pm first M sp
      (fun f => if f ≤ j then [] else junk f) := by
  refine ⟨h.ihdr, h.phdr, h.ple, h.pall, h.pno, h.fM, ?_, ?_, h.ok, ?_, fun sn hsn => by cases hsn⟩
  · intro f hf1 hf2
    show fs.get? f = _
    by_cases hfj : f ≤ j
    · rw [if_pos hfj, h1 f hf1 hfj, List.append_nil]
    · rw [if_neg hfj, h2 f (Or.inr (by omega))]
      exact h.files f hf1 hf2
  · show fs.get? (M + 1) = none
    rw [h2 (M + 1) (Or.inr (by omega))]
    exact h.noI
  · intro f hf1 hf2
    show IsTorn c.bits (if f ≤ j then [] else junk f)
    split
    · exact isTorn_nil _
    · exact h.torn f hf1 hf2

end

/-- the steps of index.Open on a directory of the shape -/
theorem openIndexSteps_shape {c : Cfg} (hc : c.Legal) {d : Disk} {pf Pm first M : Nat}
    {sp : Nat → List GSpan} {junk : Nat → Bytes} (h : OpenShape c d pf Pm first M sp junk) :
    ∀ di ∈ openIndexSteps c (hdrPfs c) d, ∃ junk', OpenShape c di pf Pm first M sp junk' ∧
      OpenAgree c first M d di := by
  obtain ⟨p1, p2, p3, p4⟩ := openIndex_pre c hc
  have hhas : d.ifiles.has M = true := has_eq_true (by rw [h.files M h.fM (Nat.le_refl _)]; simp)
  have hall : ∀ f, first ≤ f → f ≤ M → d.ifiles.get? f ≠ none := by
    intro f h1 h2; rw [h.files f h1 h2]; simp
  have hfl := findLast_from h.fM hall h.noI
  obtain ⟨files', s1, s2, s3⟩ := scanIndex_spans_torn (max := c.ifs) hc.2.1 h.fM h.files h.noI h.ok
    h.torn
  have hh' : files'.has M = true := has_eq_true (by rw [s2 M h.fM (Nat.le_refl _)]; simp)
  have hsteps := scanSteps_spans_torn (max := c.ifs) h.fM h.files h.noI h.ok h.torn
  -- the three kinds of entries
  have e1 : ∃ junk', OpenShape c { d with snap := none } pf Pm first M sp junk' ∧
      OpenAgree c first M d { d with snap := none } :=
    ⟨junk, h.no_snap, ⟨rfl, rfl, rfl, fun _ => rfl, rfl, rfl, fun _ _ => rfl⟩⟩
  have e2 : ∀ fs ∈ scanIndexSteps (2 ^ c.bits) c.ifs d.ifiles first,
      ∃ junk', OpenShape c { d with snap := none, ifiles := fs } pf Pm first M sp junk' ∧
      OpenAgree c first M d { d with snap := none, ifiles := fs } := by
    intro fs hfs
    obtain ⟨j, j1, j2, j3, j4⟩ := hsteps fs hfs
    exact ⟨_, h.scanned j2 j3 j4, ⟨rfl, rfl, rfl, fun _ => rfl, rfl, rfl,
      fun f hf => j4 f (by omega)⟩⟩
  have e3 : ∃ junk', OpenShape c { d with snap := none, ifiles := files' } pf Pm first M sp junk' ∧
      OpenAgree c first M d { d with snap := none, ifiles := files' } :=
    ⟨_, h.scanned (Nat.le_refl M) s2 s3, ⟨rfl, rfl, rfl, fun _ => rfl, rfl, rfl, fun f hf => s3 f hf⟩⟩
  have scanCase : ∀ di ∈ ({ d with snap := none } : Disk) ::
      (scanIndexSteps (2 ^ c.bits) c.ifs d.ifiles first).map
        (fun fs => ({ d with snap := none, ifiles := fs } : Disk)) ++
      [({ d with snap := none, ifiles := files' } : Disk)],
      ∃ junk', OpenShape c di pf Pm first M sp junk' ∧ OpenAgree c first M d di := by
    intro di hdi
    rcases List.mem_append.mp hdi with hdi | hdi
    · rcases List.mem_cons.mp hdi with rfl | hdi
      · exact e1
      · obtain ⟨fs, hfs, rfl⟩ := List.mem_map.mp hdi
        exact e2 fs hfs
    · rw [List.mem_singleton] at hdi
      subst hdi
      exact e3
  obtain ⟨ihdr, ifiles, snap, phdr, pfiles, cidfile, free, freeGc⟩ := d
  have hih := h.ihdr
  simp only at hih
  subst hih
  simp only at hhas hfl s1 hh' scanCase e1
  intro di hdi
  unfold openIndexSteps at hdi
  simp only [p1, p2, if_false, p3, p4, ne_eq, not_true_eq_false, and_false, s1] at hdi
  cases snap with
  | none =>
    simp only [Bool.false_eq_true, if_false, hh', if_true] at hdi
    exact scanCase di hdi
  | some sn =>
    simp only at hdi
    by_cases hu : (sn.size == 8 * 2 ^ c.bits) = true
    · simp only [hu, if_true, hfl, hhas] at hdi
      rcases List.mem_cons.mp hdi with rfl | hdi
      · exact e1
      · rw [List.mem_singleton] at hdi
        subst hdi
        exact e1
    · simp only [hu, Bool.false_eq_true, if_false, hh', if_true] at hdi
      exact scanCase di hdi

/-- the steps of mhprimary.Open / cidprimary.Open on a directory of the shape -/
theorem openPrimarySteps_shape {c : Cfg} (hc : c.Legal) {d : Disk} {pf Pm first M : Nat}
    {sp : Nat → List GSpan} {junk : Nat → Bytes} (h : OpenShape c d pf Pm first M sp junk) :
    ∀ di ∈ openPrimarySteps c d, OpenShape c di pf Pm first M sp junk ∧ OpenAgree c first M d di := by
  obtain ⟨h1, h2, h3, h4, h5, h6⟩ := hc
  intro di hdi
  unfold openPrimarySteps at hdi
  rcases (by cases c.kind <;> simp : c.kind = .mh ∨ c.kind = .cid) with hk | hk
  · have hp : c.pfs ≠ 0 := by omega
    have hp' : ¬ c.pfs > defaultMax := by omega
    have hfl := findLast_from (h.ple hk) (h.pall hk) (h.pno hk)
    simp only [hk, hp, if_false, hp', h.phdr hk, ne_eq, not_true_eq_false, hfl,
      has_eq_true (h.pall hk Pm (h.ple hk) (Nat.le_refl _)), if_true, List.mem_singleton] at hdi
    subst hdi
    exact ⟨h, OpenAgree.refl _ _ _ _⟩
  · simp only [hk, List.mem_singleton] at hdi
    subst hdi
    refine ⟨h.set_cid _, ⟨rfl, rfl, by simp, ?_, rfl, rfl, fun _ _ => rfl⟩⟩
    intro hk'; rw [hk] at hk'; cases hk'

/-- every directory an open of a directory of the shape passes through has the shape, with the same record
    spans, and agrees with it in everything OpenStore looks at -/
theorem openSteps_shape {c : Cfg} (hc : c.Legal) {d : Disk} {pf Pm first M : Nat}
    {sp : Nat → List GSpan} {junk : Nat → Bytes} (h : OpenShape c d pf Pm first M sp junk) :
    ∀ di ∈ openSteps c d, ∃ junk', OpenShape c di pf Pm first M sp junk' ∧
      OpenAgree c first M d di := by
  -- the directory after freelist.Open
  have hS : OpenShape c { openFreelist d with free := some ((openFreelist d).free.getD []) }
      pf Pm first M sp junk := (h.set_free _).set_free _
  have aS : OpenAgree c first M d
      { openFreelist d with free := some ((openFreelist d).free.getD []) } :=
    ⟨rfl, rfl, rfl, fun _ => rfl, by
      rw [truncFree_set _ _ (by simp)]; exact truncFree_openFreelist d, rfl, fun _ _ => rfl⟩
  obtain ⟨cf, pfn, plen, o1, o2, o3⟩ := openPrimary_ok4 c hc
    { openFreelist d with free := some ((openFreelist d).free.getD []) } Pm pf hS.phdr hS.ple hS.pall
    hS.pno
  have hP : OpenShape c { ({ openFreelist d with free := some ((openFreelist d).free.getD []) } : Disk)
      with cidfile := cf } pf Pm first M sp junk := hS.set_cid cf
  have aP : OpenAgree c first M { openFreelist d with free := some ((openFreelist d).free.getD []) }
      { ({ openFreelist d with free := some ((openFreelist d).free.getD []) } : Disk)
        with cidfile := cf } := by
    refine ⟨rfl, rfl, ?_, ?_, rfl, rfl, fun _ _ => rfl⟩
    · rcases (by cases c.kind <;> simp : c.kind = .mh ∨ c.kind = .cid) with hk | hk
      · rw [(o2 hk).1]
      · rw [(o3 hk).1]; simp
    · intro hk; rw [(o2 hk).1]
  intro di hdi
  unfold openSteps at hdi
  simp only [o1] at hdi
  rcases List.mem_append.mp hdi with hdi | hdi
  · rcases List.mem_append.mp hdi with hdi | hdi
    · rcases List.mem_cons.mp hdi with rfl | hdi
      · exact ⟨junk, h.set_free _, ⟨rfl, rfl, rfl, fun _ => rfl, truncFree_set _ _ (by simp), rfl,
          fun _ _ => rfl⟩⟩
      · rw [List.mem_singleton] at hdi
        subst hdi
        exact ⟨junk, h.set_free _, ⟨rfl, rfl, rfl, fun _ => rfl, truncFree_openFreelist d, rfl,
          fun _ _ => rfl⟩⟩
    · obtain ⟨q1, q2⟩ := openPrimarySteps_shape hc hS di hdi
      exact ⟨junk, q1, aS.trans q2⟩
  · obtain ⟨junk', q1, q2⟩ := openIndexSteps_shape hc hP di hdi
    exact ⟨junk', q1, (aS.trans aP).trans q2⟩

/-- OpenStore is idempotent on its own partial results: from every directory `di` that an open of `d`
    passes through, OpenStore succeeds and recovers the same as from `d` -/
theorem open_steps_idem {c : Cfg} (hc : c.Legal) {d : Disk} {pf Pm first M : Nat}
    {sp : Nat → List GSpan} {junk : Nat → Bytes} (h : OpenShape c d pf Pm first M sp junk) :
    ∀ di ∈ openSteps c d, ∃ dr mr dri mri, openStoreR c d = (dr, .ok mr) ∧
      openStoreR c di = (dri, .ok mri) ∧ DiskSame dr dri ∧ MemSame mr mri ∧
      (∀ b, idxRecords mri dri b = idxRecords mr dr b) ∧
      (∀ blk, priGet mri dri blk = priGet mr dr blk) ∧
      ∀ key, (storeGet mri dri key).2 = (storeGet mr dr key).2 := by
  intro di hdi
  obtain ⟨junk', q1, q2⟩ := openSteps_shape hc h di hdi
  exact open_same hc h q1 q2

end Sth.C03O
