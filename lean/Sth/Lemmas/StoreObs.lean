/-
Observations of the physical store (C01, layer 0): the primary read split into pools and disk,
allocation freshness (`Below`), frame lemmas for `priPut` and for writes into the index pool.
Core Lean only.
-/
import Sth.Lemmas.StoreBase
import Sth.Lemmas.StoreRL
import Sth.Lemmas.StoreBucket
import Sth.Lemmas.Varint
import Sth.Lemmas.Codec

namespace Sth

/-! ### primary read = pools, then disk below the allocation threshold -/

/-- the allocation threshold `priGet` tests offsets against -/
def thr (m : Mem) : Nat :=
  match m.kind with
  | .mh => m.pmax * m.precFileNum + m.precPos
  | .cid => m.precPos

abbrev thrOK (m : Mem) (blk : Block) : Prop := blk.off < thr m

/-- the disk path of `priGet` without the threshold test -/
def diskRead (kind : PKind) (pmax : Nat) (d : Disk) (blk : Block) : PGet :=
  match kind with
  | .mh =>
    match d.pfiles.get? (localizePri pmax blk.off).2 with
    | none => .err
    | some file =>
      match readAt file (localizePri pmax blk.off).1 (blk.size + 4) with
      | none => .err
      | some read =>
        if leDec (read.take 4) ≥ two31 then .nilKey
        else match readNode .mh (read.drop 4) with
          | none => .err
          | some (k, v) => .got k v
  | .cid =>
    match d.cidfile with
    | none => .err
    | some file =>
      match readAt file blk.off (blk.size + 4) with
      | none => .err
      | some read =>
        match readNode .cid (read.drop 4) with
        | none => .err
        | some (k, v) => .got k v

def priDisk (m : Mem) (d : Disk) (blk : Block) : PGet :=
  if thrOK m blk then diskRead m.kind m.pmax d blk else .err

theorem priGet_eq (m : Mem) (d : Disk) (blk : Block) :
    priGet m d blk =
      match poolFind m.pnext blk with
      | some r => .got r.key r.val
      | none =>
        match poolFind m.pcur blk with
        | some r => .got r.key r.val
        | none => priDisk m d blk := by
  unfold priGet priDisk
  cases poolFind m.pnext blk with
  | some r => rfl
  | none =>
    cases poolFind m.pcur blk with
    | some r => rfl
    | none =>
      simp only
      split
      · rename_i hk
        have ht : thr m = m.pmax * m.precFileNum + m.precPos := by unfold thr; simp only [hk]
        unfold thrOK diskRead
        rw [ht]
        by_cases h : blk.off < m.pmax * m.precFileNum + m.precPos
        · rw [if_neg (by omega), if_pos h]; simp only [hk]; rfl
        · rw [if_pos (by omega), if_neg h]
      · rename_i hk
        have ht : thr m = m.precPos := by unfold thr; simp only [hk]
        unfold thrOK diskRead
        rw [ht]
        by_cases h : blk.off < m.precPos
        · rw [if_neg (by omega), if_pos h]; simp only [hk]; rfl
        · rw [if_pos (by omega), if_neg h]

/-! ### allocated locations -/

/-- `blk` starts at a location the primary has already handed out (strictly before the next one) -/
def Below (m : Mem) (blk : Block) : Prop :=
  match m.kind with
  | .mh => ∃ f lp, blk.off = m.pmax * f + lp ∧ lp < m.pmax ∧
      (f < m.precFileNum ∨ (f = m.precFileNum ∧ lp < m.precPos))
  | .cid => blk.off < m.precPos

theorem Below.thrOK {m : Mem} {blk : Block} (h : Below m blk) : thrOK m blk := by
  unfold Below at h
  unfold Sth.thrOK thr
  cases hk : m.kind with
  | mh =>
    simp only [hk] at h ⊢
    obtain ⟨f, lp, h1, h2, h3⟩ := h
    rcases h3 with h3 | ⟨h3, h4⟩
    · have : m.pmax * (f + 1) ≤ m.pmax * m.precFileNum := Nat.mul_le_mul_left _ h3
      rw [Nat.mul_add] at this
      omega
    · subst h3; omega
  | cid => simpa [hk] using h

theorem divmod_unique {p f lp f' lp' : Nat} (h : p * f + lp = p * f' + lp') (h1 : lp < p) (h2 : lp' < p) :
    f = f' ∧ lp = lp' := by
  have hp : p > 0 := by omega
  have e1 : (p * f + lp) / p = f := by rw [Nat.mul_add_div hp, Nat.div_eq_of_lt h1]; rfl
  have e2 : (p * f' + lp') / p = f' := by rw [Nat.mul_add_div hp, Nat.div_eq_of_lt h2]; rfl
  have : f = f' := by rw [← e1, ← e2, h]
  subst this
  exact ⟨rfl, by omega⟩

/-- the location `priPut` hands out -/
def nextFile (m : Mem) : Nat := if m.precPos ≥ m.pmax then m.precFileNum + 1 else m.precFileNum
def nextPos (m : Mem) : Nat := if m.precPos ≥ m.pmax then 0 else m.precPos

def nextBlk (m : Mem) (size : Nat) : Block :=
  match m.kind with
  | .mh => ⟨m.pmax * nextFile m + nextPos m, size⟩
  | .cid => ⟨m.precPos, size⟩

/-- the memory state after `priPut` -/
def putMem (m : Mem) (key val : Bytes) : Mem :=
  match m.kind with
  | .mh => { m with precFileNum := nextFile m, precPos := nextPos m + 4 + (key.length + val.length),
                    pnext := m.pnext ++ [⟨nextBlk m (key.length + val.length), key, val⟩] }
  | .cid => { m with precPos := m.precPos + 4 + (key.length + val.length),
                     pnext := m.pnext ++ [⟨nextBlk m (key.length + val.length), key, val⟩] }

theorem priPut_eq (m : Mem) (key val : Bytes) :
    priPut m key val = (putMem m key val, nextBlk m (key.length + val.length)) := by
  unfold priPut putMem nextBlk nextFile nextPos
  cases hk : m.kind with
  | mh =>
    simp only
    by_cases h : m.precPos ≥ m.pmax
    · simp only [if_pos h]
    · simp only [if_neg h]
  | cid => rfl

theorem nextPos_lt {m : Mem} (h : 1 ≤ m.pmax) : nextPos m < m.pmax := by
  unfold nextPos; split <;> omega

theorem not_below_next {m : Mem} (hp : m.kind = .mh → 1 ≤ m.pmax) (size : Nat) : ¬ Below m (nextBlk m size) := by
  unfold Below nextBlk
  cases hk : m.kind with
  | mh =>
    simp only
    rintro ⟨f, lp, h1, h2, h3⟩
    have hp' := hp hk
    obtain ⟨rfl, rfl⟩ := divmod_unique h1.symm h2 (nextPos_lt hp')
    unfold nextFile nextPos at h3
    split at h3 <;> omega
  | cid => simp

theorem putMem_kind (m : Mem) (key val : Bytes) : (putMem m key val).kind = m.kind := by
  unfold putMem; split <;> rfl
theorem putMem_imm (m : Mem) (key val : Bytes) : (putMem m key val).imm = m.imm := by
  unfold putMem; split <;> rfl
theorem putMem_bits (m : Mem) (key val : Bytes) : (putMem m key val).bits = m.bits := by
  unfold putMem; split <;> rfl
theorem putMem_pmax (m : Mem) (key val : Bytes) : (putMem m key val).pmax = m.pmax := by
  unfold putMem; split <;> rfl
theorem putMem_imax (m : Mem) (key val : Bytes) : (putMem m key val).imax = m.imax := by
  unfold putMem; split <;> rfl
theorem putMem_inext (m : Mem) (key val : Bytes) : (putMem m key val).inext = m.inext := by
  unfold putMem; split <;> rfl
theorem putMem_icur (m : Mem) (key val : Bytes) : (putMem m key val).icur = m.icur := by
  unfold putMem; split <;> rfl
theorem putMem_buckets (m : Mem) (key val : Bytes) : (putMem m key val).buckets = m.buckets := by
  unfold putMem; split <;> rfl
theorem putMem_ifileNum (m : Mem) (key val : Bytes) : (putMem m key val).ifileNum = m.ifileNum := by
  unfold putMem; split <;> rfl
theorem putMem_ilength (m : Mem) (key val : Bytes) : (putMem m key val).ilength = m.ilength := by
  unfold putMem; split <;> rfl
theorem putMem_pcur (m : Mem) (key val : Bytes) : (putMem m key val).pcur = m.pcur := by
  unfold putMem; split <;> rfl
theorem putMem_pfileNum (m : Mem) (key val : Bytes) : (putMem m key val).pfileNum = m.pfileNum := by
  unfold putMem; split <;> rfl
theorem putMem_plength (m : Mem) (key val : Bytes) : (putMem m key val).plength = m.plength := by
  unfold putMem; split <;> rfl
theorem putMem_pnext (m : Mem) (key val : Bytes) :
    (putMem m key val).pnext = m.pnext ++ [⟨nextBlk m (key.length + val.length), key, val⟩] := by
  unfold putMem; split <;> rfl

theorem putMem_prec_mh {m : Mem} (hk : m.kind = .mh) (key val : Bytes) :
    (putMem m key val).precFileNum = nextFile m ∧
      (putMem m key val).precPos = nextPos m + 4 + (key.length + val.length) := by
  unfold putMem; simp [hk]

theorem putMem_prec_cid {m : Mem} (hk : m.kind = .cid) (key val : Bytes) :
    (putMem m key val).precFileNum = m.precFileNum ∧
      (putMem m key val).precPos = m.precPos + 4 + (key.length + val.length) := by
  unfold putMem; simp [hk]

theorem below_putMem {m : Mem} {blk : Block} (key val : Bytes) (h : Below m blk) :
    Below (putMem m key val) blk := by
  unfold Below at h ⊢
  rw [putMem_kind]
  cases hk : m.kind with
  | mh =>
    simp only [hk] at h ⊢
    obtain ⟨f, lp, h1, h2, h3⟩ := h
    refine ⟨f, lp, ?_, ?_, ?_⟩
    · rw [putMem_pmax]; exact h1
    · rw [putMem_pmax]; exact h2
    · obtain ⟨e1, e2⟩ := putMem_prec_mh hk key val
      rw [e1, e2]
      unfold nextFile nextPos
      split <;> omega
  | cid =>
    simp only [hk] at h ⊢
    rw [(putMem_prec_cid hk key val).2]
    omega

theorem below_putMem_new {m : Mem} (hp : m.kind = .mh → 1 ≤ m.pmax) (key val : Bytes) :
    Below (putMem m key val) (nextBlk m (key.length + val.length)) := by
  unfold Below
  rw [putMem_kind]
  cases hk : m.kind with
  | mh =>
    simp only
    refine ⟨nextFile m, nextPos m, ?_, ?_, ?_⟩
    · rw [putMem_pmax]; unfold nextBlk; simp only [hk]
    · rw [putMem_pmax]; exact nextPos_lt (hp hk)
    · obtain ⟨e1, e2⟩ := putMem_prec_mh hk key val
      rw [e1, e2]
      omega
  | cid =>
    simp only
    rw [(putMem_prec_cid hk key val).2]
    unfold nextBlk
    simp only [hk]
    omega

/-! ### pool lookups -/

theorem poolFind_append_ne {p : List PRec} {r : PRec} {blk : Block} (h : r.blk ≠ blk) :
    poolFind (p ++ [r]) blk = poolFind p blk := by
  unfold poolFind
  rw [List.find?_append]
  have : List.find? (fun x => decide (x.blk = blk)) [r] = none := by simp [h]
  rw [this]
  simp

theorem poolFind_append_new {p : List PRec} {r : PRec} (h : ∀ x ∈ p, x.blk ≠ r.blk) :
    poolFind (p ++ [r]) r.blk = some r := by
  unfold poolFind
  rw [List.find?_append]
  have : List.find? (fun x => decide (x.blk = r.blk)) p = none := by
    rw [List.find?_eq_none]
    intro x hx
    simpa using h x hx
  rw [this]
  simp

theorem poolFind_some {p : List PRec} {blk : Block} {r : PRec} (h : poolFind p blk = some r) :
    r ∈ p ∧ r.blk = blk := by
  unfold poolFind at h
  exact ⟨List.mem_of_find?_eq_some h, by simpa using List.find?_some h⟩

/-- reading the freshly pooled record -/
theorem priGet_putMem_new {m : Mem} (d : Disk) (key val : Bytes)
    (hp : m.kind = .mh → 1 ≤ m.pmax) (hb : ∀ r ∈ m.pnext, Below m r.blk) :
    priGet (putMem m key val) d (nextBlk m (key.length + val.length)) = .got key val := by
  rw [priGet_eq, putMem_pnext]
  have := poolFind_append_new (p := m.pnext) (r := ⟨nextBlk m (key.length + val.length), key, val⟩)
    (by
      intro x hx heq
      have := hb x hx
      simp only at heq
      rw [heq] at this
      exact not_below_next hp _ this)
  simp only at this
  rw [this]

/-- records readable before stay readable, at allocated locations -/
theorem priGet_putMem_old {m : Mem} (d : Disk) (key val : Bytes)
    (hp : m.kind = .mh → 1 ≤ m.pmax) {blk : Block} {k v : Bytes}
    (hb : Below m blk) (h : priGet m d blk = .got k v) :
    priGet (putMem m key val) d blk = .got k v := by
  have hne : (⟨nextBlk m (key.length + val.length), key, val⟩ : PRec).blk ≠ blk := by
    intro heq
    simp only at heq
    rw [← heq] at hb
    exact not_below_next hp _ hb
  rw [priGet_eq] at h ⊢
  rw [putMem_pnext, poolFind_append_ne hne, putMem_pcur]
  cases h1 : poolFind m.pnext blk with
  | some r => rw [h1] at h; exact h
  | none =>
    rw [h1] at h
    simp only at h ⊢
    cases h2 : poolFind m.pcur blk with
    | some r => rw [h2] at h; exact h
    | none =>
      rw [h2] at h
      simp only at h ⊢
      unfold priDisk at h ⊢
      rw [if_pos (below_putMem key val hb).thrOK, putMem_kind, putMem_pmax]
      rw [if_pos hb.thrOK] at h
      exact h

/-! ### index reads and pool writes -/

theorem idxRecords_putMem (m : Mem) (d : Disk) (key val : Bytes) (b : Nat) :
    idxRecords (putMem m key val) d b = idxRecords m d b := by
  unfold idxRecords
  rw [putMem_inext, putMem_icur, putMem_buckets, putMem_imax]

theorem idxRecords_setNext (m : Mem) (d : Disk) (b : Nat) (rl : RecordList) (b' : Nat) :
    idxRecords { m with inext := m.inext.set b rl } d b' =
      if b' = b then .ok (some rl) else idxRecords m d b' := by
  unfold idxRecords
  simp only [NMap.get?_set]
  by_cases h : b' = b
  · simp only [h, if_true]
  · simp only [h, if_false]

theorem idxGet_eq {m : Mem} {d : Disk} {dig sk : Bytes} {b : Nat} {orl : Option RecordList}
    (hb : bucketOfKey m.bits dig = some b) (hs : stripKey m.bits dig = some sk)
    (hr : idxRecords m d b = .ok orl) :
    idxGet m d dig = .ok (orl.bind (rlGet · sk)) := by
  unfold idxGet
  simp only [hb, hr, hs]
  cases orl <;> rfl

/-! ### owner of a block -/

def ownOf (kind : PKind) (bits : Nat) (P : Block → PGet) (blk : Block) : Option Key :=
  match P blk with
  | .got k _ =>
    match indexKeyOf kind k with
    | some dig => stripKey bits dig
    | none => none
  | _ => none

theorem ownOf_got {kind : PKind} {bits : Nat} {P : Block → PGet} {blk : Block} {k v dig sk : Bytes}
    (h1 : P blk = .got k v) (h2 : indexKeyOf kind k = some dig) (h3 : stripKey bits dig = some sk) :
    ownOf kind bits P blk = some sk := by
  unfold ownOf; simp only [h1, h2, h3]

theorem ownOf_some {kind : PKind} {bits : Nat} {P : Block → PGet} {blk : Block} {sk : Key}
    (h : ownOf kind bits P blk = some sk) :
    ∃ k v dig, P blk = .got k v ∧ indexKeyOf kind k = some dig ∧ stripKey bits dig = some sk := by
  unfold ownOf at h
  cases hp : P blk with
  | err => simp [hp] at h
  | nilKey => simp [hp] at h
  | got k v =>
    simp only [hp] at h
    cases hi : indexKeyOf kind k with
    | none => simp [hi] at h
    | some dig =>
      simp only [hi] at h
      exact ⟨k, v, dig, rfl, hi, h⟩

theorem ownOf_mono {kind : PKind} {bits : Nat} {P P' : Block → PGet} {blk : Block} {sk : Key}
    (hP : ∀ k v, P blk = .got k v → P' blk = .got k v)
    (h : ownOf kind bits P blk = some sk) : ownOf kind bits P' blk = some sk := by
  obtain ⟨k, v, dig, h1, h2, h3⟩ := ownOf_some h
  exact ownOf_got (hP k v h1) h2 h3

theorem fullOf_of_own {m : Mem} {d : Disk} {blk : Block} {sk : Key}
    (h : ownOf m.kind m.bits (priGet m d) blk = some sk) : fullOf m d blk = .ok sk := by
  obtain ⟨k, v, dig, h1, h2, h3⟩ := ownOf_some h
  unfold fullOf priGetIndexKey
  simp only [h1, h2, h3]

theorem gpkd_hit {m : Mem} {d : Disk} {blk : Block} {k v dig : Bytes}
    (h1 : priGet m d blk = .got k v) (h2 : indexKeyOf m.kind k = some dig) :
    getPrimaryKeyData m d blk dig = .ok (m, some v) := by
  unfold getPrimaryKeyData
  simp only [h1, h2, if_true]

theorem gpkd_miss {m : Mem} {d : Disk} {blk : Block} {k v dig dig' : Bytes}
    (h1 : priGet m d blk = .got k v) (h2 : indexKeyOf m.kind k = some dig') (h3 : dig' ≠ dig) :
    getPrimaryKeyData m d blk dig = .ok (m, none) := by
  unfold getPrimaryKeyData
  simp only [h1, h2, h3, if_false]

theorem keyClass_ok {kind : PKind} {k dig : Bytes} (h : keyClass kind k = .ok dig) :
    indexKeyOf kind k = some dig ∧ 4 ≤ dig.length := by
  unfold keyClass at h
  cases hi : indexKeyOf kind k with
  | none => simp [hi] at h
  | some dg =>
    simp only [hi] at h
    split at h
    · cases h
    · cases h
      exact ⟨rfl, by omega⟩

theorem bucketOfKey_isSome {bits : Nat} {dig : Bytes} (h : 4 ≤ dig.length) :
    ∃ b, bucketOfKey bits dig = some b := by
  unfold bucketOfKey
  rw [if_neg (by omega)]
  exact ⟨_, rfl⟩

end Sth
