/-
C03 — rescanning an index log whose files may end in a torn record: `scanFile` cuts the torn tail,
`scanIndex` builds the table of the whole records, `openIndex` succeeds.
Core Lean only.
-/
import Sth.Lemmas.C03Defs

namespace Sth

theorem readAt_none_of_lt {f : Bytes} {pos n : Nat} (h : f.length - pos < n) :
    readAt f pos n = none := by
  unfold readAt
  simp only
  rw [if_neg]
  simp only [List.length_take, List.length_drop]
  omega

/-- base case of `scanFile_torn`: only the torn prefix is left -/
theorem scanFile_torn_nil {bits max fnum : Nat} (pre junk : Bytes) (bk : NMap Nat) (fuel : Nat)
    (hj : IsTorn bits junk) :
    scanFile (2 ^ bits) max fnum (fuel + 1) (pre ++ junk) pre.length bk = some (pre, bk) := by
  obtain ⟨b, rl, t, hok, ht, rfl⟩ := hj
  have hok' : b < 2 ^ bits ∧ (encodeRL rl).length + 4 < two31 := hok
  have hA : (le32 ((encodeRL rl).length + 4)).length = 4 := leEnc_length 4 _
  have hB : (le32 b).length = 4 := leEnc_length 4 _
  have hL := idxRecBytes_length b rl
  rw [hL] at ht
  by_cases h4 : t < 4
  · have hlen : ((idxRecBytes b rl).take t).length = t := by
      rw [List.length_take, hL]; omega
    have h1 : readAt (pre ++ (idxRecBytes b rl).take t) pre.length 4 = none := by
      apply readAt_none_of_lt
      rw [List.length_append, hlen]; omega
    have h2 : availAt (pre ++ (idxRecBytes b rl).take t) pre.length 4 = t := by
      unfold availAt
      rw [List.drop_left' rfl, List.length_take, hlen]; omega
    rw [scanFile]
    simp only [h1, h2]
    by_cases h0 : t = 0
    · subst h0
      simp
    · rw [if_pos (by omega)]
      unfold truncateTo
      rw [List.take_left' rfl]
  · have hs32 : (encodeRL rl).length + 4 < 256 ^ 4 := by
      have := hok'.2; unfold two31 at this; omega
    have etake : (idxRecBytes b rl).take t =
        le32 ((encodeRL rl).length + 4) ++ (le32 b ++ encodeRL rl).take (t - 4) := by
      unfold idxRecBytes
      rw [List.append_assoc, List.take_append, hA, List.take_of_length_le (by rw [hA]; omega)]
    have hrest : ((le32 b ++ encodeRL rl).take (t - 4)).length = t - 4 := by
      rw [List.length_take, List.length_append, hB]; omega
    have efile : pre ++ (idxRecBytes b rl).take t =
        pre ++ le32 ((encodeRL rl).length + 4) ++ (le32 b ++ encodeRL rl).take (t - 4) := by
      rw [etake, List.append_assoc]
    have h1 : readAt (pre ++ (idxRecBytes b rl).take t) pre.length 4 =
        some (le32 ((encodeRL rl).length + 4)) := by
      have := readAt_at_end pre (le32 ((encodeRL rl).length + 4))
        ((le32 b ++ encodeRL rl).take (t - 4))
      rw [hA] at this
      rw [efile, this]
    have h2 : readAt (pre ++ (idxRecBytes b rl).take t) (pre.length + 4)
        ((encodeRL rl).length + 4) = none := by
      apply readAt_none_of_lt
      rw [efile, List.length_append, List.length_append, hA, hrest]; omega
    have h3 : leDec (le32 ((encodeRL rl).length + 4)) = (encodeRL rl).length + 4 :=
      leDec_leEnc 4 _ hs32
    have h5 : ¬ ((encodeRL rl).length + 4 ≥ two31) := by have := hok'.2; omega
    rw [scanFile]
    simp only [h1, h3, h5, if_false, h2]
    unfold truncateTo
    rw [Nat.add_sub_cancel, List.take_left' rfl]

theorem scanFile_torn_aux {bits max fnum : Nat} (h31 : bits ≤ 31) (junk : Bytes)
    (hj : IsTorn bits junk) :
    ∀ (recs : List LRec) (pre : Bytes) (bk : NMap Nat) (fuel : Nat),
      (∀ r ∈ recs, RecLogOK bits r) → recs.length < fuel →
      scanFile (2 ^ bits) max fnum fuel (pre ++ logBytes recs ++ junk) pre.length bk =
        some (pre ++ logBytes recs, scanRecs max fnum pre.length recs bk)
  | [], pre, bk, fuel, _, hf => by
    obtain ⟨f, rfl⟩ : ∃ f, fuel = f + 1 := ⟨fuel - 1, by simp at hf; omega⟩
    have e : pre ++ logBytes [] = pre := by simp [logBytes]
    rw [e, scanFile_torn_nil pre junk bk f hj]
    simp only [scanRecs]
  | r :: rs, pre, bk, fuel, hr, hf => by
    obtain ⟨f, rfl⟩ : ∃ f, fuel = f + 1 := ⟨fuel - 1, by simp at hf; omega⟩
    obtain ⟨b, rl⟩ := r
    have hok0 := hr (b, rl) (by simp)
    have hok : b < 2 ^ bits ∧ (encodeRL rl).length + 4 < two31 := hok0
    have hA : (le32 ((encodeRL rl).length + 4)).length = 4 := leEnc_length 4 _
    have hB : (le32 b).length = 4 := leEnc_length 4 _
    have hb32 : b < 256 ^ 4 := by
      have : 2 ^ bits ≤ 2 ^ 31 := Nat.pow_le_pow_right (by omega) h31
      have := hok.1
      omega
    have hs32 : (encodeRL rl).length + 4 < 256 ^ 4 := by
      have := hok.2; unfold two31 at this; omega
    have efile : pre ++ logBytes ((b, rl) :: rs) ++ junk =
        pre ++ le32 ((encodeRL rl).length + 4) ++ (le32 b ++ encodeRL rl ++ logBytes rs ++ junk) := by
      rw [logBytes_cons]; unfold idxRecBytes; simp [List.append_assoc]
    have efile2 : pre ++ logBytes ((b, rl) :: rs) ++ junk =
        (pre ++ le32 ((encodeRL rl).length + 4)) ++ (le32 b ++ encodeRL rl) ++
          (logBytes rs ++ junk) := by
      rw [logBytes_cons]; unfold idxRecBytes; simp [List.append_assoc]
    have h1 : readAt (pre ++ logBytes ((b, rl) :: rs) ++ junk) pre.length 4 =
        some (le32 ((encodeRL rl).length + 4)) := by
      have := readAt_at_end pre (le32 ((encodeRL rl).length + 4))
        (le32 b ++ encodeRL rl ++ logBytes rs ++ junk)
      rw [hA] at this
      rw [efile, this]
    have h2 : readAt (pre ++ logBytes ((b, rl) :: rs) ++ junk) (pre.length + 4)
        ((encodeRL rl).length + 4) = some (le32 b ++ encodeRL rl) := by
      have := readAt_at_end (pre ++ le32 ((encodeRL rl).length + 4)) (le32 b ++ encodeRL rl)
        (logBytes rs ++ junk)
      rw [efile2, ← this]
      congr 1
      simp [hA]
    have h3 : leDec (le32 ((encodeRL rl).length + 4)) = (encodeRL rl).length + 4 :=
      leDec_leEnc 4 _ hs32
    have h4 : leDec ((le32 b ++ encodeRL rl).take 4) = b := by
      rw [List.take_left' hB]; exact leDec_leEnc 4 _ hb32
    have h5 : ¬ ((encodeRL rl).length + 4 ≥ two31) := by have := hok.2; omega
    have h6 : ¬ (b ≥ 2 ^ bits) := by have := hok.1; omega
    have ih := scanFile_torn_aux (bits := bits) (max := max) (fnum := fnum) h31 junk hj rs
      (pre ++ idxRecBytes b rl) (bk.set b (fnum * max + pre.length + 4)) f
      (fun x hx => hr x (by simp [hx])) (by simp at hf; omega)
    have e1 : pre ++ idxRecBytes b rl ++ logBytes rs = pre ++ logBytes ((b, rl) :: rs) := by
      rw [logBytes_cons]; simp [List.append_assoc]
    have e2 : (pre ++ idxRecBytes b rl).length = pre.length + 4 + ((encodeRL rl).length + 4) := by
      rw [List.length_append, idxRecBytes_length]; omega
    rw [e1, e2] at ih
    rw [scanFile]
    simp only [h1, h3, h5, if_false, h2, h4, h6]
    rw [Nat.add_assoc (fnum * max)] at ih
    rw [ih]
    simp only [scanRecs]
    rw [idxRecBytes_length]
    have e3 : pre.length + 4 + ((encodeRL rl).length + 4) = pre.length + (8 + (encodeRL rl).length) := by
      omega
    rw [e3, Nat.add_assoc (fnum * max)]

/-- `scanFile` on whole records followed by a torn record prefix: the whole records are scanned, the torn
    tail is cut off -/
theorem scanFile_torn {bits max fnum : Nat} (h31 : bits ≤ 31) (recs : List LRec) (pre junk : Bytes)
    (bk : NMap Nat) (fuel : Nat) (hr : ∀ r ∈ recs, RecLogOK bits r) (hj : IsTorn bits junk)
    (hf : recs.length < fuel) :
    scanFile (2 ^ bits) max fnum fuel (pre ++ logBytes recs ++ junk) pre.length bk =
      some (pre ++ logBytes recs, scanRecs max fnum pre.length recs bk) :=
  scanFile_torn_aux h31 junk hj recs pre bk fuel hr hf

/-- `scanIndex.go` over files `n..M` that may each end in a torn record -/
theorem scanIndex_go_torn {bits max M : Nat} (h31 : bits ≤ 31) {files0 : NMap Bytes}
    {lg : Nat → List LRec} {junk : Nat → Bytes}
    (hfiles : ∀ f, f ≤ M → files0.get? f = some (logBytes (lg f) ++ junk f))
    (hno : files0.get? (M + 1) = none)
    (hrec : ∀ f, f ≤ M → ∀ r ∈ lg f, RecLogOK bits r)
    (hj : ∀ f, f ≤ M → IsTorn bits (junk f)) :
    ∀ (k n fuel last : Nat) (files : NMap Bytes) (bk : NMap Nat), n + k = M + 1 → k + 1 ≤ fuel →
      (∀ f, n ≤ f → files.get? f = files0.get? f) →
      (∀ f, f < n → files.get? f = some (logBytes (lg f))) →
      ∃ files', scanIndex.go (2 ^ bits) max fuel n last files bk =
          some (files', scanRange max lg n k bk, if k = 0 then last else M) ∧
        (∀ f, f ≤ M → files'.get? f = some (logBytes (lg f))) ∧
        (∀ f, M < f → files'.get? f = files0.get? f)
  | 0, n, fuel, last, files, bk, hn, hf, hge, hlt => by
    obtain ⟨f, rfl⟩ : ∃ f, fuel = f + 1 := ⟨fuel - 1, by omega⟩
    have : n = M + 1 := by omega
    subst this
    refine ⟨files, ?_, fun f hf' => hlt f (by omega), fun f hf' => hge f (by omega)⟩
    rw [scanIndex_go_eq, hge (M + 1) (Nat.le_refl _), hno]
    simp [scanRange]
  | k + 1, n, fuel, last, files, bk, hn, hf, hge, hlt => by
    obtain ⟨f, rfl⟩ : ∃ f, fuel = f + 1 := ⟨fuel - 1, by omega⟩
    have hget : files.get? n = some (logBytes (lg n) ++ junk n) := by
      rw [hge n (Nat.le_refl _), hfiles n (by omega)]
    rw [scanIndex_go_eq, hget]
    simp only
    have hlast : (if k + 1 = 0 then last else M) = (if k = 0 then n else M) := by
      by_cases hk : k = 0
      · simp only [hk]; simp; omega
      · simp [hk]
    by_cases hem : (logBytes (lg n) ++ junk n).isEmpty = true
    · rw [if_pos hem]
      have hnil0 : logBytes (lg n) ++ junk n = [] := List.isEmpty_iff.mp hem
      have hnil1 : logBytes (lg n) = [] := (List.append_eq_nil_iff.mp hnil0).1
      have hnil : lg n = [] := logBytes_eq_nil hnil1
      obtain ⟨files', g1, g2, g3⟩ := scanIndex_go_torn h31 hfiles hno hrec hj k (n + 1) f n files bk
        (by omega) (by omega) (fun f' hf' => hge f' (by omega)) (by
          intro f' hf'
          by_cases hfn : f' = n
          · rw [hfn, hget, hnil0, hnil1]
          · exact hlt f' (by omega))
      refine ⟨files', ?_, g2, g3⟩
      rw [g1, hlast]
      simp only [scanRange, hnil, scanRecs]
    · rw [if_neg hem]
      have hs := scanFile_torn (bits := bits) (max := max) (fnum := n) h31 (lg n) [] (junk n) bk
        ((logBytes (lg n) ++ junk n).length + 1) (hrec n (by omega)) (hj n (by omega)) (by
          have := logBytes_length_ge (lg n)
          rw [List.length_append]; omega)
      simp only [List.nil_append, List.length_nil] at hs
      rw [hs]
      simp only
      obtain ⟨files', g1, g2, g3⟩ := scanIndex_go_torn h31 hfiles hno hrec hj k (n + 1) f n
        (files.set n (logBytes (lg n))) (scanRecs max n 0 (lg n) bk) (by omega) (by omega) (by
          intro f' hf'
          rw [NMap.get?_set, if_neg (by omega)]
          exact hge f' (by omega)) (by
          intro f' hf'
          rw [NMap.get?_set]
          split
          · rename_i hf''; rw [hf'']
          · exact hlt f' (by omega))
      refine ⟨files', ?_, g2, g3⟩
      rw [g1, hlast]
      simp only [scanRange]

theorem scanIndex_torn {bits max M : Nat} (h31 : bits ≤ 31) {files : NMap Bytes}
    {lg : Nat → List LRec} {junk : Nat → Bytes}
    (hfiles : ∀ f, f ≤ M → files.get? f = some (logBytes (lg f) ++ junk f))
    (hno : files.get? (M + 1) = none)
    (hrec : ∀ f, f ≤ M → ∀ r ∈ lg f, RecLogOK bits r)
    (hj : ∀ f, f ≤ M → IsTorn bits (junk f)) :
    ∃ files', scanIndex (2 ^ bits) max files 0 = some (files', scanTo max lg M, M) ∧
      (∀ f, f ≤ M → files'.get? f = some (logBytes (lg f))) ∧
      (∀ f, M < f → files'.get? f = files.get? f) := by
  have hlen := NMap.length_ge (M + 1) files (fun f hf => by rw [hfiles f (by omega)]; simp)
  obtain ⟨files', g1, g2, g3⟩ := scanIndex_go_torn (max := max) h31 hfiles hno hrec hj (M + 1) 0
    (files.length + 1) 0 files [] (by omega) (by omega) (fun _ _ => rfl)
    (fun f hf => absurd hf (Nat.not_lt_zero f))
  refine ⟨files', ?_, g2, g3⟩
  unfold scanIndex
  rw [g1, scanRange_eq_scanTo]
  simp

theorem openIndex_torn (c : Cfg) (hc : c.Legal) (d : Disk) (M : Nat) (lg : Nat → List LRec)
    (junk : Nat → Bytes)
    (hih : d.ihdr = some ⟨c.bits, c.ifs, 0, hdrPfs c⟩) (hsn : d.snap = none)
    (hfiles : ∀ f, f ≤ M → d.ifiles.get? f = some (logBytes (lg f) ++ junk f))
    (hno : d.ifiles.get? (M + 1) = none)
    (hrec : ∀ f, f ≤ M → ∀ r ∈ lg f, RecLogOK c.bits r)
    (hj : ∀ f, f ≤ M → IsTorn c.bits (junk f)) :
    ∃ files', openIndex c (hdrPfs c) d =
        .ok ({ d with snap := none, ifiles := files' }, c.bits, c.ifs, scanTo c.ifs lg M, M) ∧
      (∀ f, f ≤ M → files'.get? f = some (logBytes (lg f))) ∧
      (∀ f, M < f → files'.get? f = d.ifiles.get? f) := by
  obtain ⟨p1, p2, p3, p4⟩ := openIndex_pre c hc
  obtain ⟨files', s1, s2, s3⟩ := scanIndex_torn (max := c.ifs) hc.2.1 hfiles hno hrec hj
  refine ⟨files', ?_, s2, s3⟩
  have hh : files'.has M = true := has_eq_true (by rw [s2 M (Nat.le_refl _)]; simp)
  unfold openIndex
  simp only [p1, p2, if_false, hih, p3, p4, ne_eq, not_true_eq_false, hsn, Bool.false_eq_true, s1,
    and_false, hh, if_true, not_false_eq_true]

theorem scanIndex_go_sorted {nb max : Nat} :
    ∀ (fuel n last : Nat) (files : NMap Bytes) (bk : NMap Nat) {files' : NMap Bytes}
      {bk' : NMap Nat} {last' : Nat}, NMap.Sorted files →
      scanIndex.go nb max fuel n last files bk = some (files', bk', last') → NMap.Sorted files'
  | 0, n, last, files, bk, files', bk', last', hs, h => by
    unfold scanIndex.go at h
    cases h
    exact hs
  | fuel + 1, n, last, files, bk, files', bk', last', hs, h => by
    rw [scanIndex_go_eq] at h
    split at h
    · cases h; exact hs
    · rename_i file hg
      split at h
      · exact scanIndex_go_sorted fuel (n + 1) n files bk hs h
      · split at h
        · cases h
        · rename_i file' bk'' hsf
          exact scanIndex_go_sorted fuel (n + 1) n (files.set n file') bk''
            (NMap.sorted_set n file' hs) h

/-- the rescan only replaces files by `NMap.set`: sortedness of the file table is kept -/
theorem scanIndex_sorted {nb max first last : Nat} {files files' : NMap Bytes} {bk : NMap Nat}
    (hs : NMap.Sorted files) (h : scanIndex nb max files first = some (files', bk, last)) :
    NMap.Sorted files' := by
  unfold scanIndex at h
  exact scanIndex_go_sorted _ _ _ _ _ hs h

end Sth
