import Sth.Lemmas.C04PGC2

/-! C04, primary GC: the loop over the closed files, and the whole cycle. -/

namespace Sth

section
variable {c : Cfg} {U : List (Bytes × Bytes)} {cfg : Cfg} {spec : Spec} {B : Nat}

/-- the state description of a `GInv` state, for the first file recorded in the header -/
theorem GInv.state_of {m : Mem} {d : Disk} {k pf : Nat} (h : GInv c U ⟨cfg, m, d⟩ spec k B)
    (hh : d.phdr = some ⟨m.pmax, pf⟩) : ∃ psp, GState c U cfg m d spec k B pf psp := by
  obtain ⟨pf', psp, hS⟩ := h.state
  have := hS.hdr
  rw [hh] at this
  simp only [Option.some.injEq, PriHeader.mk.injEq, true_and] at this
  subst this
  exact ⟨psp, hS⟩

/-- the visited set is not looked at -/
theorem GInv.visited {m : Mem} {d : Disk} {k : Nat} (h : GInv c U ⟨cfg, m, d⟩ spec k B)
    (vis : List Nat) : GInv c U ⟨cfg, { m with visited := vis }, d⟩ spec k B := by
  have hz : ZInv { m with flpool := m.flpool, visited := vis } d :=
    ZInv.frame (m := m) (d := d) h.z (fun _ => rfl) (fun _ => rfl) rfl rfl rfl rfl (fun _ => Iff.rfl)
      rfl rfl rfl rfl
  exact h.frame_fl (d' := d) m.flpool vis rfl rfl rfl rfl rfl hz

/-- dropping the first file once it holds no record -/
theorem drop_state {m : Mem} {d : Disk} {k pf : Nat} {psp : Nat → List GSpan}
    (hS : GState c U cfg m d spec k B pf psp) (hk : k < 1073741824) (hlt : pf < m.pfileNum)
    (hempty : liveAt 0 (psp pf) = []) :
    GState c U cfg m { d with phdr := some ⟨m.pmax, pf + 1⟩, pfiles := d.pfiles.del pf } spec k B
      (pf + 1) psp := by
  obtain ⟨l1, l2, l3⟩ := drop_step hS.log hlt hempty (some ⟨m.pmax, pf + 1⟩)
  have hne : pf ≠ m.pfileNum := by omega
  obtain ⟨g1, g2, g3⟩ := ginv_disk_step
    (d' := { d with phdr := some ⟨m.pmax, pf + 1⟩, pfiles := d.pfiles.del pf })
    hS.g hk hS.log hS.ent hS.fl rfl rfl rfl rfl rfl l1
    (fun blk body _ ho => l2 blk body ho) (fun fb hfb => l3 fb hfb.2.2.1)
    (by
      show (fileOf (d.pfiles.del pf) m.pfileNum).length = m.plength
      unfold fileOf
      rw [NMap.get?_del_ne _ (Ne.symm hne)]
      exact hS.g.plen)
    (by
      intro f hf
      show (d.pfiles.del pf).get? f = none
      rw [NMap.get?_del_ne _ (by omega)]
      exact hS.g.pno f hf)
  exact ⟨g1, rfl, l1, g2, g3⟩

/-- the loop of primaryGC.gc over the closed files -/
theorem pgcGo_g (hU : Univ c.kind U) (lowUse : Nat) :
    ∀ (fuel nn pf : Nat) (m : Mem) (d : Disk) (budget : Budget) (recl k : Nat),
      GInv c U ⟨cfg, m, d⟩ spec k B → d.phdr = some ⟨m.pmax, pf⟩ → pf ≤ nn → nn ≤ m.pfileNum →
      k + 2 * (m.pfileNum - nn) < 1073741824 →
      ∃ k', GInv c U ⟨cfg, (primaryGC.go lowUse fuel nn ⟨m.pmax, pf⟩ m d budget recl).2.1,
          (primaryGC.go lowUse fuel nn ⟨m.pmax, pf⟩ m d budget recl).2.2.1⟩ spec k' B ∧
        k' ≤ k + 2 * (m.pfileNum - nn) := by
  intro fuel
  induction fuel with
  | zero =>
    intro nn pf m d budget recl k hG _ _ _ _
    exact ⟨k, hG, by omega⟩
  | succ fuel ih =>
    intro nn pf m d budget recl k hG hh h1 h2 hk
    unfold primaryGC.go
    by_cases he : nn = m.pfileNum
    · rw [if_pos he]; exact ⟨k, hG, by omega⟩
    rw [if_neg he]
    by_cases hv : m.visited.contains nn = true
    · rw [if_pos hv]
      obtain ⟨k', g1, g2⟩ := ih (nn + 1) pf m d budget recl k hG hh (by omega) (by omega) (by omega)
      exact ⟨k', g1, by omega⟩
    rw [if_neg hv]
    obtain ⟨psp, hS⟩ := hG.state_of hh
    obtain ⟨k1, psp1, hS1, hk1, e1, e2, e3, hdead⟩ :=
      reapRecords_g hU hS (by omega) h1 (by omega) lowUse
    cases hr : reapRecords m d nn lowUse with
    | mk r rest =>
    obtain ⟨m1, d1, got⟩ := rest
    rw [hr] at hS1 e1 e2 e3 hdead
    simp only at hS1 e1 e2 e3 hdead ⊢
    have herr : ∃ k', GInv c U ⟨cfg, m1, d1⟩ spec k' B ∧ k' ≤ k + 2 * (m.pfileNum - nn) :=
      ⟨k1, hS1.g, by omega⟩
    -- the continuation after a file that was not an error
    have hcont : r ≠ .err →
        ∃ k', GInv c U ⟨cfg,
          (if (poll budget).1 = true then
              ((⟨.deadline, 0⟩ : PgcRes), ({ m1 with visited := m1.visited ++ [nn] } : Mem),
                (if r = .dead ∧ nn = pf then
                  ((⟨m.pmax, pf + 1⟩ : PriHeader),
                    ({ d1 with phdr := some ⟨m.pmax, pf + 1⟩, pfiles := d1.pfiles.del nn } : Disk))
                 else (⟨m.pmax, pf⟩, d1)).2, (poll budget).2)
            else primaryGC.go lowUse fuel (nn + 1)
              (if r = .dead ∧ nn = pf then
                  ((⟨m.pmax, pf + 1⟩ : PriHeader),
                    ({ d1 with phdr := some ⟨m.pmax, pf + 1⟩, pfiles := d1.pfiles.del nn } : Disk))
                 else (⟨m.pmax, pf⟩, d1)).1
              { m1 with visited := m1.visited ++ [nn] }
              (if r = .dead ∧ nn = pf then
                  ((⟨m.pmax, pf + 1⟩ : PriHeader),
                    ({ d1 with phdr := some ⟨m.pmax, pf + 1⟩, pfiles := d1.pfiles.del nn } : Disk))
                 else (⟨m.pmax, pf⟩, d1)).2 (poll budget).2 (recl + got)).2.1,
          (if (poll budget).1 = true then
              ((⟨.deadline, 0⟩ : PgcRes), ({ m1 with visited := m1.visited ++ [nn] } : Mem),
                (if r = .dead ∧ nn = pf then
                  ((⟨m.pmax, pf + 1⟩ : PriHeader),
                    ({ d1 with phdr := some ⟨m.pmax, pf + 1⟩, pfiles := d1.pfiles.del nn } : Disk))
                 else (⟨m.pmax, pf⟩, d1)).2, (poll budget).2)
            else primaryGC.go lowUse fuel (nn + 1)
              (if r = .dead ∧ nn = pf then
                  ((⟨m.pmax, pf + 1⟩ : PriHeader),
                    ({ d1 with phdr := some ⟨m.pmax, pf + 1⟩, pfiles := d1.pfiles.del nn } : Disk))
                 else (⟨m.pmax, pf⟩, d1)).1
              { m1 with visited := m1.visited ++ [nn] }
              (if r = .dead ∧ nn = pf then
                  ((⟨m.pmax, pf + 1⟩ : PriHeader),
                    ({ d1 with phdr := some ⟨m.pmax, pf + 1⟩, pfiles := d1.pfiles.del nn } : Disk))
                 else (⟨m.pmax, pf⟩, d1)).2 (poll budget).2 (recl + got)).2.2.1⟩ spec k' B ∧
          k' ≤ k + 2 * (m.pfileNum - nn) := by
      intro _
      -- the state after the optional drop of the first file
      have hdrop : ∃ pf2 d2,
          (if r = .dead ∧ nn = pf then
                  ((⟨m.pmax, pf + 1⟩ : PriHeader),
                    ({ d1 with phdr := some ⟨m.pmax, pf + 1⟩, pfiles := d1.pfiles.del nn } : Disk))
                 else (⟨m.pmax, pf⟩, d1)) = (⟨m1.pmax, pf2⟩, d2) ∧
            GState c U cfg m1 d2 spec k1 B pf2 psp1 ∧ pf2 ≤ nn + 1 := by
        by_cases hd : r = .dead ∧ nn = pf
        · rw [if_pos hd]
          obtain ⟨hd1, hd2⟩ := hd
          subst hd2
          refine ⟨nn + 1, _, by rw [e2], ?_, Nat.le_refl _⟩
          have := drop_state hS1 (by omega) (by omega) (hdead hd1)
          rw [e2] at this
          exact this
        · rw [if_neg hd]
          exact ⟨pf, d1, by rw [e2], hS1, by omega⟩
      obtain ⟨pf2, d2, hd1, hS2, hpf2⟩ := hdrop
      rw [hd1]
      simp only
      have hG2 := hS2.g.visited (m1.visited ++ [nn])
      by_cases hp : (poll budget).1 = true
      · rw [if_pos hp]
        exact ⟨k1, hG2, by omega⟩
      · rw [if_neg hp]
        obtain ⟨k', g1, g2⟩ := ih (nn + 1) pf2 { m1 with visited := m1.visited ++ [nn] } d2
          (poll budget).2 (recl + got) k1 hG2 hS2.hdr hpf2
          (by show nn + 1 ≤ m1.pfileNum; omega)
          (by show k1 + 2 * (m1.pfileNum - (nn + 1)) < 1073741824; omega)
        refine ⟨k', g1, ?_⟩
        have : k' ≤ k1 + 2 * (m1.pfileNum - (nn + 1)) := g2
        omega
    cases r with
    | err => exact herr
    | dead => exact hcont (by decide)
    | kept => exact hcont (by decide)

/-- a whole primary GC cycle -/
theorem primaryGC_g (hU : Univ c.kind U) {m : Mem} {d : Disk} {k : Nat}
    (hG : GInv c U ⟨cfg, m, d⟩ spec k B) (hk : 3 * k < 1073741824) (lowUse : Nat) (budget : Budget)
    {res : PgcRes × Mem × Disk × Budget} (hres : primaryGC m d lowUse budget = some res) :
    ∃ k', GInv c U ⟨cfg, res.2.1, res.2.2.1⟩ spec k' B ∧ k' ≤ 3 * k := by
  unfold primaryGC at hres
  have hp1 := freelistPass_g hU hG (by omega) budget
  cases hf1 : freelistPass m d budget with
  | mk r1 rest =>
  obtain ⟨m1, d1, b1, aff1⟩ := rest
  rw [hf1] at hres hp1
  simp only at hres hp1
  cases r1 with
  | flushErr => cases hres
  | deadline =>
    simp only [Option.some.injEq] at hres; subst hres
    rcases hp1 with h | h
    · cases h
    · exact ⟨k, h.visited _, by omega⟩
  | err =>
    simp only [Option.some.injEq] at hres; subst hres
    rcases hp1 with h | h
    · cases h
    · exact ⟨k, h.visited _, by omega⟩
  | ok =>
  have hG1 : GInv c U ⟨cfg, m1, d1⟩ spec k B := by
    rcases hp1 with h | h
    · cases h
    · exact h
  have hp2 := freelistPass_g hU hG1 (by omega) b1
  cases hf2 : freelistPass m1 d1 b1 with
  | mk r2 rest =>
  obtain ⟨m2, d2, b2, aff2⟩ := rest
  rw [hf2] at hres hp2
  simp only at hres hp2
  cases r2 with
  | flushErr => cases hres
  | deadline =>
    simp only [Option.some.injEq] at hres; subst hres
    rcases hp2 with h | h
    · cases h
    · exact ⟨k, h.visited _, by omega⟩
  | err =>
    simp only [Option.some.injEq] at hres; subst hres
    rcases hp2 with h | h
    · cases h
    · exact ⟨k, h.visited _, by omega⟩
  | ok =>
  have hG2 : GInv c U ⟨cfg, m2, d2⟩ spec k B := by
    rcases hp2 with h | h
    · cases h
    · exact h
  have hG3 := hG2.visited (m2.visited.filter (fun f => !(aff1 ++ aff2).contains f))
  obtain ⟨pf, psp, hS⟩ := hG3.state
  have hh : d2.phdr = some ⟨m2.pmax, pf⟩ := hS.hdr
  rw [hh] at hres
  simp only [Option.some.injEq] at hres
  subst hres
  have hle : m2.pfileNum ≤ k := by
    have h1 := GInv.pfile_le (s := ⟨cfg, m2, d2⟩) hG2
    have h2 : m2.precFileNum ≤ k := hG2.cntF
    exact Nat.le_trans h1 h2
  obtain ⟨k', g1, g2⟩ := pgcGo_g hU lowUse (m2.pfileNum - pf + 1) pf pf
    { m2 with visited := m2.visited.filter (fun f => !(aff1 ++ aff2).contains f) } d2 b2 0 k hG3 hh
    (Nat.le_refl _) hS.log.le (by show k + 2 * (m2.pfileNum - pf) < 1073741824; omega)
  refine ⟨k', g1, ?_⟩
  have : k' ≤ k + 2 * (m2.pfileNum - pf) := g2
  omega

/-- the `pgc` step on a multihash store -/
theorem step_pgc_g (hU : Univ c.kind U) {s : SState} {k : Nat} (hG : GInv c U s spec k B)
    (hk : 3 * k < 1073741824) (lowUse : Nat) (budget : Budget) :
    ∃ k', GInv c U (stepS s (.pgc lowUse budget)).1 spec k' B ∧ k' ≤ 3 * k ∧
      (stepS s (.pgc lowUse budget)).2 = .gc ∧ (stepS s (.pgc lowUse budget)).1.cfg = s.cfg := by
  obtain ⟨cfg, m, d⟩ := s
  have hkind : m.kind = .mh := hG.kind
  unfold stepS
  simp only [hkind]
  cases hp : primaryGC m d lowUse budget with
  | none => exact ⟨k, hG, by omega, rfl, rfl⟩
  | some res =>
    obtain ⟨k', g1, g2⟩ := primaryGC_g hU hG hk lowUse budget hp
    exact ⟨k', g1, g2, rfl, rfl⟩

end

end Sth
