import Sth.Lemmas.C13H2

/-!
C13 along GC histories, completeness: the primary flush, with the converse direction exposed (every
record span after the flush is a record span from before or the copy of a pooled record; the proof of
`pstep_span2` is that of `pstep_span` of Sth/Lemmas/C04GFlush.lean with one more conclusion).
Core Lean only.
-/

namespace Sth.C13H

open Sth.C11

theorem pstep_span2 {pf : Nat} {psp : Nat → List GSpan} {m : Mem} {d : Disk} {r : PRec}
    (h : PFold pf psp m d) (hp : 1 ≤ m.pmax) (hsz : r.key.length + r.val.length < two31)
    (hb : r.blk = ⟨m.pmax * (if m.plength ≥ m.pmax then m.pfileNum + 1 else m.pfileNum) +
      (if m.plength ≥ m.pmax then 0 else m.plength), r.key.length + r.val.length⟩) :
    ∃ d' psp', pstepMh (m, d) r = some (stepMem m r, d') ∧
      PFold pf psp' (stepMem m r) d' ∧
      (∀ f x, pf ≤ f → f ≤ m.pfileNum → x ∈ liveAt 0 (psp f) → x ∈ liveAt 0 (psp' f)) ∧
      (∀ f lp, pf ≤ f → f ≤ m.pfileNum → DeadMark (psp f) lp → DeadMark (psp' f) lp) ∧
      (∀ f, f < m.pfileNum → psp' f = psp f) ∧
      (∃ f lp, r.blk.off = m.pmax * f + lp ∧ pf ≤ f ∧ f ≤ nextPF m ∧
        (lp, r.key ++ r.val) ∈ liveAt 0 (psp' f)) ∧
      d'.ifiles = d.ifiles ∧ d'.ihdr = d.ihdr ∧ d'.phdr = d.phdr ∧ d'.cidfile = d.cidfile ∧
      d'.free = d.free ∧ d'.freeGc = d.freeGc ∧ d'.snap = d.snap ∧
      (∀ f x, f ≤ nextPF m → x ∈ liveAt 0 (psp' f) → (f ≤ m.pfileNum ∧ x ∈ liveAt 0 (psp f)) ∨
        (f = nextPF m ∧ r.blk = (⟨m.pmax * f + x.1, x.2.length⟩ : Block))) := by
  have hdl : (le32 (r.key.length + r.val.length) ++ r.key ++ r.val).length =
      4 + (r.key.length + r.val.length) := recBytes_length r
  have hl := h.log
  have hlast := hl.files m.pfileNum hl.le (Nat.le_refl _)
  have hlen : (gbytes (psp m.pfileNum)).length = m.plength := by
    rw [← h.plen, fileOf_some hlast]
  have hspl : (prSpan r).body.length < two31 := by
    unfold prSpan; simp only [List.length_append]; exact hsz
  by_cases hroll : m.plength ≥ m.pmax
  · simp only [if_pos hroll] at hb
    simp only [stepMem, nextPF, nextPL, if_pos hroll]
    have hnone : d.pfiles.get? (m.pfileNum + 1) = none := h.pno _ (by omega)
    refine ⟨{ d with pfiles := rollFiles d.pfiles (m.pfileNum + 1) (recBytes r) },
      fun f => if f = m.pfileNum + 1 then [prSpan r] else psp f, ?_, ?_, ?_, ?_, ?_, ?_,
      rfl, rfl, rfl, rfl, rfl, rfl, rfl, ?_⟩
    · unfold pstepMh
      simp only [hroll, has_eq_false hnone, and_false, if_false, if_true, Bool.false_eq_true, hdl,
        recBytes, Nat.add_assoc]
    · refine ⟨⟨?_, ?_, ?_, ?_, ?_⟩, ?_, ?_⟩
      · show pf ≤ m.pfileNum + 1; have := hl.le; omega
      · intro f hf
        show ((d.pfiles.set (m.pfileNum + 1) []).set (m.pfileNum + 1) _).get? f = none
        have := hl.le
        rw [NMap.get?_set_ne _ _ (by omega), NMap.get?_set_ne _ _ (by omega)]
        exact hl.gone f hf
      · intro f g1 g2
        show ((d.pfiles.set (m.pfileNum + 1) []).set (m.pfileNum + 1) _).get? f = _
        by_cases hff : f = m.pfileNum + 1
        · rw [hff, NMap.get?_set_eq, fileOf_some (NMap.get?_set_eq _ _ _)]
          simp [gbytes_cons, gbytes_nil, prSpan_bytes]
        · rw [NMap.get?_set_ne _ _ hff, NMap.get?_set_ne _ _ hff, if_neg hff]
          exact hl.files f g1 (by have : f ≤ m.pfileNum + 1 := g2; omega)
      · intro f g1 g2 s hs
        by_cases hff : f = m.pfileNum + 1
        · simp only [hff, if_true, List.mem_singleton] at hs; rw [hs]; exact hspl
        · simp only [hff, if_false] at hs
          exact hl.ok f g1 (by have : f ≤ m.pfileNum + 1 := g2; omega) s hs
      · intro f g1 g2 x hx
        by_cases hff : f = m.pfileNum + 1
        · simp only [hff, if_true] at hx
          simp [liveAt, prSpan] at hx
          rw [hx]; show 0 < m.pmax; omega
        · simp only [hff, if_false] at hx
          exact hl.starts f g1 (by have : f ≤ m.pfileNum + 1 := g2; omega) x hx
      · show (fileOf ((d.pfiles.set (m.pfileNum + 1) []).set (m.pfileNum + 1) _) (m.pfileNum + 1)).length = _
        rw [fileOf_some (NMap.get?_set_eq _ _ _), fileOf_some (NMap.get?_set_eq _ _ _)]
        simp [recBytes_length]
      · intro f hf'
        show ((d.pfiles.set (m.pfileNum + 1) []).set (m.pfileNum + 1) _).get? f = none
        have hf'' : m.pfileNum + 1 < f := hf'
        rw [NMap.get?_set_ne _ _ (by omega), NMap.get?_set_ne _ _ (by omega)]
        exact h.pno f (by omega)
    · intro f x g1 g2 hx
      have hne : ¬ f = m.pfileNum + 1 := by omega
      simp only [hne, if_false]; exact hx
    · intro f lp g1 g2 hx
      have hne : ¬ f = m.pfileNum + 1 := by omega
      simp only [hne, if_false]; exact hx
    · intro f hf
      have hne : ¬ f = m.pfileNum + 1 := by omega
      simp only [hne, if_false]
    · refine ⟨m.pfileNum + 1, 0, by rw [hb], by have := hl.le; omega, Nat.le_refl _, ?_⟩
      simp [liveAt, prSpan]
    · intro f x hf hx
      by_cases hff : f = m.pfileNum + 1
      · right
        simp only [hff, if_true] at hx
        simp only [liveAt, prSpan, Bool.false_eq_true, if_false, List.mem_singleton] at hx
        subst hx
        refine ⟨hff, ?_⟩
        rw [hb, hff]; simp
      · left
        simp only [hff, if_false] at hx
        exact ⟨by omega, hx⟩
  · simp only [if_neg hroll] at hb
    simp only [stepMem, nextPF, nextPL, if_neg hroll]
    refine ⟨{ d with pfiles := d.pfiles.set m.pfileNum (fileOf d.pfiles m.pfileNum ++ recBytes r) },
      fun f => if f = m.pfileNum then psp m.pfileNum ++ [prSpan r] else psp f, ?_, ?_, ?_, ?_, ?_, ?_,
      rfl, rfl, rfl, rfl, rfl, rfl, rfl, ?_⟩
    · unfold pstepMh
      simp only [hroll, false_and, if_false, hdl, recBytes, Nat.add_assoc]
    · refine ⟨⟨hl.le, ?_, ?_, ?_, ?_⟩, ?_, ?_⟩
      · intro f hf
        show (d.pfiles.set m.pfileNum _).get? f = none
        have := hl.le
        rw [NMap.get?_set_ne _ _ (by omega)]
        exact hl.gone f hf
      · intro f g1 g2
        show (d.pfiles.set m.pfileNum _).get? f = _
        by_cases hff : f = m.pfileNum
        · rw [hff, NMap.get?_set_eq, fileOf_some hlast]
          simp [gbytes_append, gbytes_cons, gbytes_nil, prSpan_bytes]
        · rw [NMap.get?_set_ne _ _ hff, if_neg hff]
          exact hl.files f g1 g2
      · intro f g1 g2 s hs
        by_cases hff : f = m.pfileNum
        · simp only [hff, if_true, List.mem_append, List.mem_singleton] at hs
          rcases hs with hs | hs
          · exact hl.ok m.pfileNum hl.le (Nat.le_refl _) s hs
          · rw [hs]; exact hspl
        · simp only [hff, if_false] at hs
          exact hl.ok f g1 g2 s hs
      · intro f g1 g2 x hx
        by_cases hff : f = m.pfileNum
        · simp only [hff, if_true] at hx
          have := liveAt_snoc_live (psp m.pfileNum) (r.key ++ r.val) 0
          simp only [Nat.zero_add] at this
          unfold prSpan at hx
          rw [this] at hx
          simp only [List.mem_append, List.mem_singleton] at hx
          rcases hx with hx | hx
          · exact hl.starts m.pfileNum hl.le (Nat.le_refl _) x hx
          · rw [hx]; show (gbytes (psp m.pfileNum)).length < m.pmax; rw [hlen]; omega
        · simp only [hff, if_false] at hx
          exact hl.starts f g1 g2 x hx
      · show (fileOf (d.pfiles.set m.pfileNum _) m.pfileNum).length = _
        rw [fileOf_some (NMap.get?_set_eq _ _ _)]
        simp [recBytes_length, h.plen]; omega
      · intro f hf'
        show (d.pfiles.set m.pfileNum _).get? f = none
        have hf'' : m.pfileNum < f := hf'
        rw [NMap.get?_set_ne _ _ (by omega)]
        exact h.pno f hf''
    · intro f x g1 g2 hx
      by_cases hff : f = m.pfileNum
      · subst hff; simp only [if_true]; rw [liveAt_append]; exact List.mem_append_left _ hx
      · simp only [hff, if_false]; exact hx
    · intro f lp g1 g2 hx
      by_cases hff : f = m.pfileNum
      · subst hff; simp only [if_true]; exact hx.append_left _
      · simp only [hff, if_false]; exact hx
    · intro f hf
      have hne : ¬ f = m.pfileNum := by omega
      simp only [hne, if_false]
    · refine ⟨m.pfileNum, m.plength, by rw [hb], hl.le, Nat.le_refl _, ?_⟩
      simp only [if_true]
      have := liveAt_snoc_live (psp m.pfileNum) (r.key ++ r.val) 0
      simp only [Nat.zero_add] at this
      unfold prSpan
      rw [this, hlen]
      simp
    · intro f x hf hx
      by_cases hff : f = m.pfileNum
      · simp only [hff, if_true] at hx
        have := liveAt_snoc_live (psp m.pfileNum) (r.key ++ r.val) 0
        simp only [Nat.zero_add] at this
        unfold prSpan at hx
        rw [this, List.mem_append, List.mem_singleton] at hx
        rcases hx with hx | hx
        · left; exact ⟨by omega, by rw [hff]; exact hx⟩
        · right
          subst hx
          refine ⟨hff, ?_⟩
          rw [hb, hlen, hff]; simp
      · left
        simp only [hff, if_false] at hx
        exact ⟨by omega, hx⟩


theorem pfold_span2 {pf : Nat} : ∀ (recs : List PRec) (m : Mem) (d : Disk) (psp : Nat → List GSpan)
    (efn elen : Nat), PFold pf psp m d → 1 ≤ m.pmax →
    allocMh m.pmax m.pfileNum m.plength recs efn elen →
    (∀ r ∈ recs, r.key.length + r.val.length < two31) →
    ∃ d' psp', recs.foldlM pstepMh (m, d) = some (posMem m efn elen, d') ∧
      PFold pf psp' (posMem m efn elen) d' ∧
      (∀ f x, pf ≤ f → f ≤ m.pfileNum → x ∈ liveAt 0 (psp f) → x ∈ liveAt 0 (psp' f)) ∧
      m.pfileNum ≤ efn ∧
      (∀ f x, f ≤ efn → x ∈ liveAt 0 (psp' f) → (f ≤ m.pfileNum ∧ x ∈ liveAt 0 (psp f)) ∨
        ∃ r ∈ recs, r.blk = (⟨m.pmax * f + x.1, x.2.length⟩ : Block)) ∧
      (∀ f, f < m.pfileNum → psp' f = psp f)
  | [], m, d, psp, efn, elen, h, _, ha, _ => by
    obtain ⟨rfl, rfl⟩ := ha
    exact ⟨d, psp, rfl, h, fun _ _ _ _ hx => hx, Nat.le_refl _, fun f x hf hx => Or.inl ⟨hf, hx⟩,
      fun _ _ => rfl⟩
  | r :: recs, m, d, psp, efn, elen, h, hp, ha, hs => by
    obtain ⟨d1, psp1, s1, s2, s3, s4, s5, s6, t1, t2, t3, t4, t5, t6, t7, s8⟩ :=
      pstep_span2 h hp (hs r (by simp)) ha.1
    obtain ⟨d', psp', g1, g2, g3, g7, g8, g5⟩ :=
      pfold_span2 recs (stepMem m r) d1 psp1 efn elen s2 hp ha.2 (fun x hx => hs x (by simp [hx]))
    have hle1 : m.pfileNum ≤ nextPF m := by unfold nextPF; split <;> omega
    have g7' : nextPF m ≤ efn := g7
    refine ⟨d', psp', ?_, g2, ?_, by omega, ?_,
      fun f hf => by rw [g5 f (by show f < nextPF m; omega), s5 f hf]⟩
    · rw [List.foldlM_cons, s1]
      exact g1
    · intro f x h1 h2 hx
      exact g3 f x h1 (by show f ≤ nextPF m; omega) (s3 f x h1 h2 hx)
    · intro f x hf hx
      rcases g8 f x hf hx with ⟨a1, a2⟩ | ⟨r', hr', e⟩
      · have a1' : f ≤ nextPF m := a1
        rcases s8 f x a1' a2 with ⟨b1, b2⟩ | ⟨_, b2⟩
        · exact Or.inl ⟨b1, b2⟩
        · exact Or.inr ⟨r, by simp, b2⟩
      · exact Or.inr ⟨r', by simp [hr'], e⟩

section
variable {c : Cfg} {U : List (Bytes × Bytes)} {cfg : Cfg} {m : Mem} {d : Disk} {spec : Spec}
  {n B pf : Nat} {psp : Nat → List GSpan}

/-- the primary flush keeps the state description and coverage -/
theorem priFlush_h (hU : Univ c.kind U) (hS : HState c U cfg m d spec n B pf psp)
    (hn : n < 1073741824) :
    ∃ m1 d1 psp1, priFlush m d = some (m1, d1) ∧ HState c U cfg m1 d1 spec n B pf psp1 ∧
      m1.pnext = [] ∧ m1.inext = m.inext ∧ m1.flpool = m.flpool ∧ m1.visited = m.visited ∧
      m1.pmax = m.pmax ∧ d1.free = d.free ∧ d1.freeGc = d.freeGc ∧ d1.phdr = d.phdr ∧
      m.pfileNum ≤ m1.pfileNum ∧
      (∀ g, g < m.pfileNum → d1.pfiles.get? g = d.pfiles.get? g) ∧
      (∀ b, idxRecords m1 d1 b = idxRecords m d b) := by
  obtain ⟨m1, d1, p1, hG1, q1, q2, q3, q4, q5, _, q7, q8, _, q10, q11, _⟩ :=
    priFlush_g (s := ⟨cfg, m, d⟩) hU hS.gs.g hn
  have hG := hS.gs.g
  by_cases hne : m.pnext.isEmpty = true
  · have e := priFlush_empty (d := d) hne
    have p1' : priFlush m d = some (m1, d1) := p1
    rw [e] at p1'
    simp only [Option.some.injEq, Prod.mk.injEq] at p1'
    obtain ⟨rfl, rfl⟩ := p1'
    exact ⟨m, d, psp, e, hS, q1, rfl, rfl, rfl, rfl, rfl, rfl, rfl, Nat.le_refl _, fun _ _ => rfl,
      fun _ => rfl⟩
  · have hne' : m.pnext.isEmpty = false := by simpa using hne
    have hk : m.kind = .mh := hG.kind
    have hF0 : PFold pf psp { m with pcur := m.pnext, pnext := [] } d :=
      ⟨hS.gs.log.frame rfl rfl, hG.plen, hG.pno⟩
    obtain ⟨d', psp', g1, g2, g3, g7, g8, g5⟩ :=
      pfold_span2 m.pnext { m with pcur := m.pnext, pnext := [] } d psp m.precFileNum
        m.precPos hF0 hG.pmax1 hG.alloc (fun r hr => (hG.recs r hr).2)
    have g7 : m.pfileNum ≤ m.precFileNum := g7
    have p1' : priFlush m d = some (m1, d1) := p1
    rw [priFlush_mh_eq hk hne', g1] at p1'
    simp only [Option.some.injEq, Prod.mk.injEq] at p1'
    obtain ⟨rfl, rfl⟩ := p1'
    have hh1 : d'.phdr = some ⟨(flushedMem m).pmax, pf⟩ := by
      rw [q10]; exact hS.gs.hdr
    have hS1 : GState c U cfg (flushedMem m) d' spec n B pf psp' :=
      state_with hG1 hh1 (fun g g1' g2' => ⟨g2.log.files g g1' g2', g2.log.ok g g1' g2'⟩)
    have hent : ∀ blk, IsEnt (flushedMem m) d' blk ↔ IsEnt m d blk := by
      intro blk; unfold IsEnt; simp only [q11]
    have hrec : recordedG ⟨cfg, flushedMem m, d'⟩ = recordedG ⟨cfg, m, d⟩ :=
      recordedG_congr q7 q8 q3
    refine ⟨flushedMem m, d', psp', p1, ⟨hS1, ?_⟩, rfl, rfl, rfl, rfl, rfl, q7, q8, q10, g7, ?_, q11⟩
    · apply hS.cov.transfer' (cfg' := cfg) (m' := flushedMem m) (d' := d') (pf' := pf) (psp' := psp') rfl
      · intro g g1' g2' x hx
        have g2'' : g ≤ m.precFileNum := g2'
        rcases g8 g x g2'' hx with ⟨a1, a2⟩ | ⟨r, hr, e⟩
        · exact Or.inl ⟨g1', a1, a2⟩
        · exact Or.inr (Or.inl ⟨r, hr, e⟩)
      · intro r hr
        cases hr
      · intro blk hc
        rcases hc with hc | hc
        · exact Or.inl ((hent blk).mpr hc)
        · exact Or.inr (by rw [hrec]; exact hc)
    · intro g hg
      by_cases hgp : pf ≤ g
      · have a := hS.gs.log.files g hgp (by omega)
        have b := g2.log.files g hgp (by show g ≤ m.precFileNum; omega)
        have hsp : psp' g = psp g := g5 g hg
        rw [a, b, hsp]
      · rw [hS.gs.log.gone g (by omega), g2.log.gone g (by omega)]

/-- the current file number is determined by the files -/
theorem pfileNum_unique {cfg' : Cfg} {m' : Mem} {d' : Disk} {n' pf' : Nat} {psp' : Nat → List GSpan}
    (hS : GState c U cfg m d spec n B pf psp) (hS' : GState c U cfg' m' d' spec n' B pf' psp')
    (hf : d'.pfiles = d.pfiles) : m'.pfileNum = m.pfileNum := by
  have a1 := hS.log.files m.pfileNum hS.log.le (Nat.le_refl _)
  have a2 := hS'.log.files m'.pfileNum hS'.log.le (Nat.le_refl _)
  rw [hf] at a2
  cases Nat.lt_or_ge m.pfileNum m'.pfileNum with
  | inl h =>
    have := hS.g.pno m'.pfileNum h
    have this' : d.pfiles.get? m'.pfileNum = none := this
    rw [this'] at a2; cases a2
  | inr h =>
    cases Nat.lt_or_ge m'.pfileNum m.pfileNum with
    | inl h' =>
      have := hS'.g.pno m.pfileNum h'
      have this' : d'.pfiles.get? m.pfileNum = none := this
      rw [hf, a1] at this'; cases this'
    | inr h' => omega

/-- a change that touches neither the primary files, the header, the pools, the freelist nor the
    record lists keeps the state description and coverage -/
theorem HState.frame {m' : Mem} {d' : Disk} {n' : Nat} (hS : HState c U cfg m d spec n B pf psp)
    (hG' : GInv c U ⟨cfg, m', d'⟩ spec n' B) (h1 : m'.pnext = m.pnext) (h2 : m'.flpool = m.flpool)
    (h3 : m'.pmax = m.pmax) (g1 : d'.free = d.free) (g2 : d'.freeGc = d.freeGc)
    (g3 : d'.phdr = d.phdr) (g4 : d'.pfiles = d.pfiles)
    (hR : ∀ b, idxRecords m' d' b = idxRecords m d b) :
    HState c U cfg m' d' spec n' B pf psp := by
  obtain ⟨psp0, hS0⟩ := hG'.state_of (pf := pf) (by rw [g3, h3]; exact hS.gs.hdr)
  have hpn : m'.pfileNum = m.pfileNum := pfileNum_unique hS.gs hS0 g4
  have hgs : GState c U cfg m' d' spec n' B pf psp :=
    state_with hG' (by rw [g3, h3]; exact hS.gs.hdr) (fun g a b => by
      rw [g4]
      exact ⟨hS.gs.log.files g a (by rw [← hpn]; exact b), hS.gs.log.ok g a (by rw [← hpn]; exact b)⟩)
  refine ⟨hgs, ?_⟩
  have hent : ∀ blk, IsEnt m' d' blk ↔ IsEnt m d blk := by
    intro blk; unfold IsEnt; simp only [hR]
  have hrec : recordedG ⟨cfg, m', d'⟩ = recordedG ⟨cfg, m, d⟩ := recordedG_congr g1 g2 h2
  apply hS.cov.transfer' (cfg' := cfg) (m' := m') (d' := d') (pf' := pf) (psp' := psp) h3
  · intro g a b x hx
    exact Or.inl ⟨a, by rw [← hpn]; exact b, hx⟩
  · intro r hr
    rw [h1] at hr
    exact Or.inl hr
  · intro blk hc
    rcases hc with hc | hc
    · exact Or.inl ((hent blk).mpr hc)
    · exact Or.inr (by rw [hrec]; exact hc)

/-- the freelist file after the pool has been appended to it -/
theorem flEntries_append (zf : FlInv m d pf psp) :
    flEntries ({ d with free := some (d.free.getD [] ++ m.flpool.flatMap blockBytes) } : Disk) =
      flEntries d ++ m.flpool := by
  obtain ⟨L1, L2, f1, f2, e1, e2, hw⟩ := flinv_entries zf
  unfold flEntries
  simp only [Option.getD_some]
  rw [f1]
  simp only [Option.getD_some]
  have : L1.flatMap blockBytes ++ m.flpool.flatMap blockBytes = (L1 ++ m.flpool).flatMap blockBytes := by
    rw [List.flatMap_append]
  rw [this]
  have hlen : ∀ (L : List Block), L.length ≤ (L.flatMap blockBytes).length := by
    intro L
    induction L with
    | nil => simp
    | cons x xs ih =>
      rw [List.flatMap_cons, List.length_append, blockBytes_length, List.length_cons]; omega
  rw [parseFreeList_ok (L1 ++ m.flpool) _ [] (fun x hx => hw x (by
      simp only [List.mem_append] at hx ⊢
      rcases hx with hx | hx
      · exact Or.inl (Or.inr hx)
      · exact Or.inl (Or.inl hx)))
    (by have := hlen (L1 ++ m.flpool); omega),
    parseFreeList_ok L1 _ [] (fun x hx => hw x (by simp [hx])) (by have := hlen L1; omega)]
  simp

/-- the freelist flush keeps the state description and coverage -/
theorem flFlush_h (hS : HState c U cfg m d spec n B pf psp) :
    HState c U cfg (flFlush m d).1 (flFlush m d).2 spec n B pf psp := by
  obtain ⟨z1, z2, fr, z3⟩ := zinv_flFlush hS.gs.g.z
  have hshape : flFlush m d = (m, d) ∨ flFlush m d = ({ m with flpool := [] },
      { d with free := some (d.free.getD [] ++ m.flpool.flatMap blockBytes) }) := by
    unfold flFlush
    split
    · exact Or.inl rfl
    · exact Or.inr rfl
  rcases hshape with e | e
  · rw [e]; exact hS
  · rw [e] at z1 ⊢
    simp only at z1 ⊢
    have hG' := hS.gs.g.frame_ff [] (some (d.free.getD [] ++ m.flpool.flatMap blockBytes)) d.snap z1
    have hgs : GState c U cfg { m with flpool := [] }
        { d with free := some (d.free.getD [] ++ m.flpool.flatMap blockBytes) } spec n B pf psp :=
      state_with hG' hS.gs.hdr (fun g a b => ⟨hS.gs.log.files g a b, hS.gs.log.ok g a b⟩)
    refine ⟨hgs, ?_⟩
    have hfe := flEntries_append hS.gs.fl
    apply hS.cov.transfer' (cfg' := cfg) (m' := { m with flpool := [] })
      (d' := { d with free := some (d.free.getD [] ++ m.flpool.flatMap blockBytes) })
      (pf' := pf) (psp' := psp) rfl
    · intro g a b x hx
      exact Or.inl ⟨a, b, hx⟩
    · intro r hr
      exact Or.inl hr
    · intro blk hc
      rcases hc with hc | hc
      · exact Or.inl hc
      · right
        rw [mem_recordedG] at hc ⊢
        show blk ∈ flEntries _ ∨ blk ∈ flGcEntries _ ∨ blk ∈ ([] : List Block)
        rw [hfe, List.mem_append]
        rcases hc with hc | hc | hc
        · exact Or.inl (Or.inl hc)
        · exact Or.inr (Or.inl hc)
        · exact Or.inl (Or.inr hc)

/-- Store.Flush keeps the state description and coverage -/
theorem flush_h (hU : Univ c.kind U) (hS : HState c U cfg m d spec n B pf psp)
    (hn : n < 1073741824) (hB : B < two31) (order : List Nat) :
    ∃ m' d' psp', storeFlush m d (fixOrder order m.inext.keys) = some (m', d') ∧
      HState c U cfg m' d' spec n B pf psp' ∧ m'.inext = [] := by
  by_cases hout : outstanding m = true
  · obtain ⟨m1, d1, psp1, p1, hS1, hp1, hi1, _⟩ := priFlush_h hU hS hn
    obtain ⟨f1, f2⟩ := fixOrder_ok order m.inext
    obtain ⟨m2, d2, i1, hG2, hin, a1, a2, a3, _, b1, b2, _, b4, b5, b6, _⟩ :=
      idxFlush_g (s := ⟨cfg, m1, d1⟩) hU hS1.gs.g hn hB
        (order := fixOrder order m.inext.keys) (by rw [hi1]; exact f1) (by rw [hi1]; exact f2)
    have hS2 : HState c U cfg m2 d2 spec n B pf psp1 := hS1.frame hG2 a1 a2 a3 b1 b2 b4 b5 b6
    have hS3 := flFlush_h hS2
    refine ⟨(flFlush m2 d2).1, (flFlush m2 d2).2, psp1, ?_, hS3, ?_⟩
    · unfold storeFlush commit
      rw [if_pos hout]
      simp only [p1, i1]
    · have : (flFlush m2 d2).1.inext = m2.inext := by
        unfold flFlush; split <;> rfl
      rw [this]; exact hin
  · refine ⟨m, d, psp, ?_, hS, ?_⟩
    · unfold storeFlush; rw [if_neg hout]
    · unfold outstanding at hout
      simp only [Bool.or_eq_true, Bool.not_eq_true', not_or, Bool.not_eq_false] at hout
      exact List.isEmpty_iff.mp hout.1

end

end Sth.C13H
