/-
C10 (byte level) — interrupted upgrades: opening again from the phase boundaries of the upgrade (primary
phase finished, with or without the old primary file still there; index chunked, with or without the
old index file still there) ends in the same store as the uninterrupted upgrade, for every well-formed
legacy store.
Core Lean only.
-/
import Sth.Lemmas.C10Main
import Sth.Lemmas.C10Steps

namespace Sth

theorem setFiles_sorted : ∀ (files : List Bytes) (m : NMap Bytes) (n : Nat), NMap.Sorted m →
    NMap.Sorted (setFiles m n files)
  | [], _, _, h => h
  | f :: fs, m, n, h => setFiles_sorted fs (m.set n f) (n + 1) (NMap.sorted_set n f h)

theorem setFiles_idem (files : List Bytes) : setFiles (setFiles [] 0 files) 0 files = setFiles [] 0 files := by
  apply NMap.ext_sorted (setFiles_sorted _ _ _ (setFiles_sorted _ _ _ NMap.sorted_nil))
    (setFiles_sorted _ _ _ NMap.sorted_nil)
  intro k
  rw [setFiles_get?, setFiles_get?]
  split <;> rfl

namespace LegacyC

variable {c : Cfg} {U : List (Bytes × Bytes)} {C : LegacyC}

/-- the directory once the primary phase is finished; `dl`: the old primary file if it is still there
    (interrupted between writing the header and removing it) -/
def afterPrimary (c : Cfg) (C : LegacyC) (dl : Option Bytes) : UDir :=
  { data := dl, index := some C.dir.index, disk := C.diskP c }

/-- the directory once the index is chunked and its header written; `il`: the old index file if it is
    still there -/
def afterIndexChunked (c : Cfg) (C : LegacyC) (dl il : Option Bytes) : UDir :=
  { data := dl, index := il, disk := C.diskPre c (setFiles [] 0 (C.ifilesL c.ifs)) }

theorem openPrimaryU_done (hc : c.Legal) (hk : c.kind = .mh) (dl il : Option Bytes) (d : Disk)
    (hph : d.phdr = some ⟨c.pfs, 0⟩) (hpf : d.pfiles = setFiles [] 0 (C.pfilesL c.pfs))
    (hcid : d.cidfile = none) :
    openPrimaryU c { data := dl, index := il, disk := d } =
      some ({ data := dl, index := il, disk := d }, c.pfs, C.lastP c,
        (fileOf (setFiles [] 0 (C.pfilesL c.pfs)) (C.lastP c)).length) := by
  cases d with
  | mk ih ifl sn ph pf cid fr fg =>
  simp only at hph hpf hcid
  subst hph hpf hcid
  obtain ⟨cf, pfn, plen, h1, h2, _⟩ := openPrimary_ok c hc
    { ihdr := ih, ifiles := ifl, snap := sn, phdr := some ⟨c.pfs, 0⟩, pfiles := setFiles [] 0 (C.pfilesL c.pfs),
      cidfile := none, free := fr, freeGc := fg } (C.lastP c) (fun _ => rfl)
    (fun _ f hf => pfiles_get f hf) (fun _ => pfiles_none _ (by omega))
  obtain ⟨rfl, rfl, rfl⟩ := h2 hk
  have hpfs : hdrPfs c = c.pfs := by unfold hdrPfs; rw [hk]
  have hp0 : c.pfs ≠ 0 := by have := hc.2.2.2.2.1; omega
  have hp1 : ¬ c.pfs > defaultMax := by have := hc.2.2.2.2.2; omega
  unfold openPrimaryU
  simp only [hp0, if_false, hp1, cfg_mh_eta c hk, h1, hpfs]

theorem ifs_unique {ifs ifs' : NMap Bytes}
    (h1 : ∀ f, f ≤ C.lastI c → ifs.get? f = some (logBytes (C.lgU c f))) (h2 : ∀ f, C.lastI c < f → ifs.get? f = none)
    (g1 : ∀ f, f ≤ C.lastI c → ifs'.get? f = some (logBytes (C.lgU c f))) (g2 : ∀ f, C.lastI c < f → ifs'.get? f = none) :
    ∀ f, ifs'.get? f = ifs.get? f := by
  intro f
  by_cases hf : f ≤ C.lastI c
  · rw [h1 f hf, g1 f hf]
  · rw [h2 f (by omega), g2 f (by omega)]

/-- resume after the primary phase -/
theorem resume_after_primary (hc : c.Legal) (hk : c.kind = .mh) (hwf : LegacyWFU c U C)
    (hn1 : C.recs.length < 1073741824) (hn2 : C.gens.length < 1073741824) (dl : Option Bytes) :
    ∃ ifs, openU c (C.afterPrimary c dl) [] [] = some ({ data := dl, disk := C.diskU c ifs }, C.memU c ifs) ∧
      (∀ f, f ≤ C.lastI c → ifs.get? f = some (logBytes (C.lgU c f))) ∧
      (∀ f, C.lastI c < f → ifs.get? f = none) := by
  obtain ⟨ifs, hi1, hi2, hi3⟩ := openIndexU_legacy hc hwf hn1 hn2 dl
  refine ⟨ifs, ?_, hi2, hi3⟩
  unfold openU afterPrimary
  simp only [hk, ne_eq, not_true_eq_false, if_false]
  have hof : openFreelist (C.diskP c) = C.diskP c := rfl
  rw [hof, openPrimaryU_done hc hk dl (some C.dir.index) (C.diskP c) rfl rfl rfl]
  simp only
  erw [hi1]
  simp only [List.isEmpty_nil, if_true]
  rfl

/-- resume after the index has been chunked -/
theorem resume_after_index_chunked (hc : c.Legal) (hk : c.kind = .mh) (hwf : LegacyWFU c U C)
    (hn1 : C.recs.length < 1073741824) (hn2 : C.gens.length < 1073741824) (dl : Option Bytes)
    (il : Option Bytes) (hil : il = none ∨ il = some C.dir.index) :
    ∃ ifs, openU c (C.afterIndexChunked c dl il) [] [] = some ({ data := dl, disk := C.diskU c ifs }, C.memU c ifs) ∧
      (∀ f, f ≤ C.lastI c → ifs.get? f = some (logBytes (C.lgU c f))) ∧
      (∀ f, C.lastI c < f → ifs.get? f = none) := by
  obtain ⟨ifs, hi1, hi2, hi3⟩ := openIndexU_chunked hc hwf hn1 hn2 dl
  refine ⟨ifs, ?_, hi2, hi3⟩
  unfold openU afterIndexChunked
  simp only [hk, ne_eq, not_true_eq_false, if_false]
  have hof : openFreelist (C.diskPre c (setFiles [] 0 (C.ifilesL c.ifs))) =
      C.diskPre c (setFiles [] 0 (C.ifilesL c.ifs)) := rfl
  rw [hof, openPrimaryU_done hc hk dl il _ rfl rfl rfl]
  simp only
  -- with the old index still there, upgradeIndex chunks it again into the same files
  have hsame : openIndexU c c.pfs 0 (C.lastP c)
      { data := dl, index := il, disk := C.diskPre c (setFiles [] 0 (C.ifilesL c.ifs)) } [] =
      openIndexU c c.pfs 0 (C.lastP c)
      { data := dl, disk := C.diskPre c (setFiles [] 0 (C.ifilesL c.ifs)) } [] := by
    rcases hil with rfl | rfl
    · rfl
    · obtain ⟨p1, p2, p3, p4⟩ := openIndex_pre c hc
      have hup := upgradeIndexU_legacy (c := c) (C := C) (gens_enc32 hwf) dl
        (C.diskPre c (setFiles [] 0 (C.ifilesL c.ifs)))
      have hup2 : upgradeIndexU c.ifs { data := dl, disk := C.diskPre c (setFiles [] 0 (C.ifilesL c.ifs)) } =
          some { data := dl, disk := C.diskPre c (setFiles [] 0 (C.ifilesL c.ifs)) } := rfl
      have e1 : ({ data := dl, index := some C.dir.index,
                   disk := C.diskPre c (setFiles [] 0 (C.ifilesL c.ifs)) } : UDir) =
          { data := dl, index := some ([2, 0, 0, 0, 2, C.bits] ++ logBytes C.gens),
            disk := C.diskPre c (setFiles [] 0 (C.ifilesL c.ifs)) } := rfl
      have e2 : ({ C.diskPre c (setFiles [] 0 (C.ifilesL c.ifs)) with
            ifiles := setFiles (C.diskPre c (setFiles [] 0 (C.ifilesL c.ifs))).ifiles 0 (C.ifilesL c.ifs),
            ihdr := some ⟨C.bits, c.ifs, 0, 0⟩ } : Disk) = C.diskPre c (setFiles [] 0 (C.ifilesL c.ifs)) := by
        show ({ C.diskPre c (setFiles [] 0 (C.ifilesL c.ifs)) with
            ifiles := setFiles (setFiles [] 0 (C.ifilesL c.ifs)) 0 (C.ifilesL c.ifs),
            ihdr := some ⟨C.bits, c.ifs, 0, 0⟩ } : Disk) = _
        rw [setFiles_idem, hwf.bits]
        rfl
      unfold openIndexU
      simp only [p1, p2, if_false, p4]
      rw [e1, hup, e2, hup2]
  erw [hsame, hi1]
  simp only [List.isEmpty_nil, if_true]
  rfl

end LegacyC

end Sth
