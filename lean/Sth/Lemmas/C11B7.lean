import Sth.Lemmas.C11B6

/-!
C11 Q3c (7): the size invariant through the hand-over passes; the visited files that a pass does not
affect stay stable.  Core Lean only.
-/

namespace Sth.C11B

open Sth.C11 Sth.C13H Sth.C13X Sth.C11D

/-- the size invariant without the part about the visited set -/
structure B0 (R : Nat) (m : Mem) (d : Disk) : Prop where
  pz : ∀ r ∈ m.pnext, psz r ≤ R
  sz : ∀ g x, x ∈ lv d g → x.2.length ≤ R
  fl : ∀ g, (fileOf d.pfiles g).length < m.pmax + 4 + R

/-- the files of `vis` are closed and stable: no record span ⇒ empty -/
def VS (vis : List Nat) (m : Mem) (d : Disk) : Prop :=
  ∀ f ∈ vis, f < m.pfileNum ∧ (lv d f = [] → fileOf d.pfiles f = [])

theorem BInv.b0 {R : Nat} {m : Mem} {d : Disk} (h : BInv R m d) : B0 R m d := ⟨h.pz, h.sz, h.fl⟩

theorem BInv.vs' {R : Nat} {m : Mem} {d : Disk} (h : BInv R m d) : VS m.visited m d := h.vs

theorem B0.congr {R : Nat} {m m' : Mem} {d d' : Disk} (h : B0 R m d) (h1 : m'.pnext = m.pnext)
    (h3 : m'.pmax = m.pmax) (h5 : d'.pfiles = d.pfiles) : B0 R m' d' := by
  have hlv : ∀ g, lv d' g = lv d g := fun g => by unfold lv; rw [h5]
  exact ⟨by rw [h1]; exact h.pz, fun g x hx => h.sz g x (by rw [← hlv]; exact hx),
    fun g => by rw [h3, h5]; exact h.fl g⟩

theorem VS.congr {vis : List Nat} {m m' : Mem} {d d' : Disk} (h : VS vis m d)
    (h4 : m'.pfileNum = m.pfileNum) (h5 : d'.pfiles = d.pfiles) : VS vis m' d' := by
  intro f hf
  have hlv : lv d' f = lv d f := by unfold lv; rw [h5]
  rw [h4, hlv, h5]
  exact h f hf

section
variable {c : Cfg} {U : List (Bytes × Bytes)} {cfg : Cfg} {m : Mem} {d : Disk} {spec : Spec}
  {n B pf R : Nat} {psp : Nat → List GSpan}

theorem foldF_of0 (hS : GState c U cfg m d spec n B pf psp) (hI : B0 R m d) :
    FoldF R m.pmax d.pfiles := by
  refine ⟨?_, fun g x hx => hI.sz g x hx, hI.fl⟩
  intro g
  by_cases h1 : pf ≤ g
  · by_cases h2 : g ≤ m.pfileNum
    · exact ⟨psp g, hS.log.ok g h1 h2, fileOf_some (hS.log.files g h1 h2)⟩
    · exact ⟨[], (fun _ h => by cases h), fileOf_none (hS.g.pno g (by show m.pfileNum < g; omega))⟩
  · exact ⟨[], (fun _ h => by cases h), fileOf_none (hS.log.gone g (by omega))⟩

/-- the primary flush: sizes, and any set of stable closed files -/
theorem priFlush_b0 (hU : Univ c.kind U) (hS : HState c U cfg m d spec n B pf psp)
    (hn : n < 1073741824) (hI : B0 R m d) {vis : List Nat} (hV : VS vis m d) {m1 : Mem} {d1 : Disk}
    (p1 : priFlush m d = some (m1, d1)) : B0 R m1 d1 ∧ VS vis m1 d1 := by
  obtain ⟨m1', d1', psp1, p1', hS1, q1, _, _, q4, q5, _, _, _, q10, q11, _⟩ := priFlush_h hU hS hn
  rw [p1] at p1'
  simp only [Option.some.injEq, Prod.mk.injEq] at p1'
  obtain ⟨rfl, rfl⟩ := p1'
  have hG := hS.gs.g
  have hvs : VS vis m1 d1 := by
    intro f hf
    obtain ⟨a, b⟩ := hV f hf
    refine ⟨by omega, ?_⟩
    rw [lv_congr (q11 f a)]
    unfold fileOf at b ⊢
    rw [q11 f a]
    exact b
  refine ⟨?_, hvs⟩
  by_cases hne : m.pnext.isEmpty = true
  · have e := priFlush_empty (d := d) hne
    rw [e] at p1
    simp only [Option.some.injEq, Prod.mk.injEq] at p1
    obtain ⟨rfl, rfl⟩ := p1
    exact hI
  · have hne' : m.pnext.isEmpty = false := by simpa using hne
    have hk : m.kind = .mh := hG.kind
    rw [priFlush_mh_eq hk hne'] at p1
    have hF0 : FoldInv R m.pmax { m with pcur := m.pnext, pnext := [] } d :=
      ⟨foldF_of0 hS.gs hI, hG.plen⟩
    obtain ⟨b1, _, _, _, b5⟩ := pfold_fold (R := R) m.pnext { m with pcur := m.pnext, pnext := [] } d
      m1 d1 p1 hG.pmax1 hI.pz (fun r hr => (hG.recs r hr).2) hF0
    have b5' : FoldInv R m.pmax m1 d1 := b5
    refine ⟨(by rw [q1]; intro r hr; cases hr), fun g x hx => b5'.f.sz g x hx, ?_⟩
    intro g
    rw [q5]
    exact b5'.f.fl g

/-- applying freelist entries: sizes stay, and a stable file that is not affected stays stable -/
theorem kills_b {m1 : Mem} {d1 d' : Disk} {k : Nat} {psp1 psp' : Nat → List GSpan} {K : Block → Prop}
    {aff : List Nat} (hS1 : GState c U cfg m1 d1 spec k B pf psp1)
    (hS' : GState c U cfg m1 d' spec k B pf psp') (hK : Kills m1 pf K psp1 psp' aff)
    (hI : B0 R m1 d1) {vis : List Nat} (hV : VS vis m1 d1) :
    B0 R m1 d' ∧ VS (vis.filter (fun f => !aff.contains f)) m1 d' := by
  have hout : ∀ g, ¬ (pf ≤ g ∧ g ≤ m1.pfileNum) → fileOf d'.pfiles g = [] := by
    intro g hg
    by_cases h1 : pf ≤ g
    · exact fileOf_none (hS'.g.pno g (by show m1.pfileNum < g; omega))
    · exact fileOf_none (hS'.log.gone g (by omega))
  refine ⟨⟨hI.pz, ?_, ?_⟩, ?_⟩
  · intro g x hx
    by_cases hg : pf ≤ g ∧ g ≤ m1.pfileNum
    · rw [lv_eq hS' hg.1 hg.2] at hx
      apply hI.sz g x
      rw [lv_eq hS1 hg.1 hg.2]
      exact hK.sub g x hx
    · rw [lv_nil_of_file (hout g hg)] at hx; cases hx
  · intro g
    by_cases hg : pf ≤ g ∧ g ≤ m1.pfileNum
    · rw [fileOf_some (hS'.log.files g hg.1 hg.2), hK.len g,
        ← fileOf_some (hS1.log.files g hg.1 hg.2)]
      exact hI.fl g
    · rw [hout g hg]
      exact Nat.lt_of_le_of_lt (Nat.zero_le _) (hI.fl g)
  · intro f hf
    rw [List.mem_filter] at hf
    obtain ⟨hf1, hf2⟩ := hf
    have hna : f ∉ aff := by
      intro hc
      have : aff.contains f = true := List.contains_iff_mem.mpr hc
      rw [this] at hf2; cases hf2
    obtain ⟨a, b⟩ := hV f hf1
    refine ⟨a, ?_⟩
    by_cases hg : pf ≤ f
    · intro hl
      rw [lv_eq hS' hg (by omega)] at hl
      have hl1 : liveAt 0 (psp1 f) = [] := by
        cases hq : liveAt 0 (psp1 f) with
        | nil => rfl
        | cons x t =>
          exfalso
          have hx : x ∈ liveAt 0 (psp1 f) := by rw [hq]; simp
          rcases hK.kept f x hg (by omega) hx with h | ⟨_, h⟩
          · rw [hl] at h; cases h
          · exact hna h
      have hsame := hK.same f hl1
      rw [fileOf_some (hS'.log.files f hg (by omega)), hsame,
        ← fileOf_some (hS1.log.files f hg (by omega))]
      apply b
      rw [lv_eq hS1 hg (by omega)]; exact hl1
    · intro _
      exact hout f (fun h => hg h.1)

end

end Sth.C11B
