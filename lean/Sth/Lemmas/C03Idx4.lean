/-
C03 over histories with GC cycles — the index flush as a chain of single-record appends, for index files
that start at the header's first file (the files below it are unlinked) and are span logs.
Core Lean only.
-/
import Sth.Lemmas.C03Defs4
import Sth.Lemmas.C03Idx

namespace Sth

/-- `fi` is the file table `fsJ` (files `first..N`) with torn record prefixes appended, possibly in new
    files up to `M` -/
def TornExt4 (bits : Nat) (fsJ fi : NMap Bytes) (first N : Nat) : Prop :=
  ∃ (M : Nat) (junk : Nat → Bytes), N ≤ M ∧
    (∀ f, first ≤ f → f ≤ M → fi.get? f = some (fileOf fsJ f ++ junk f)) ∧
    (∀ f, M < f → fi.get? f = none) ∧ (∀ f, f < first → fi.get? f = none) ∧
    ∀ f, IsTorn bits (junk f)

theorem tornExt_mk4 {bits : Nat} {A fi : NMap Bytes} {first N : Nat} (hfN : first ≤ N)
    (hgone : ∀ f, f < first → A.get? f = none)
    (hall : ∀ f, first ≤ f → f ≤ N → A.get? f ≠ none) (hno : ∀ f, N < f → A.get? f = none)
    (fnj : Nat) (j : Bytes) (hj : IsTorn bits j) (hfnj : fnj = N ∨ fnj = N + 1)
    (hlow : ∀ f, f ≤ N → f ≠ fnj → fi.get? f = A.get? f)
    (hat : fi.get? fnj = some (fileOf A fnj ++ j))
    (hnext : fi.get? (fnj + 1) = none ∨ fi.get? (fnj + 1) = some [])
    (habove : ∀ f, fnj + 1 < f → fi.get? f = none) : TornExt4 bits A fi first N := by
  have hlow' : ∀ f, first ≤ f → f ≤ N → f ≠ fnj → fi.get? f = some (fileOf A f ++ []) := by
    intro f hf1 hf hne
    rw [hlow f hf hne, List.append_nil]
    exact get_of_ne_none (hall f hf1 hf)
  have hbelow : ∀ f, f < first → fi.get? f = none := by
    intro f hf
    rw [hlow f (by omega) (by omega)]
    exact hgone f hf
  have hjunk : ∀ f, IsTorn bits (if f = fnj then j else []) := by
    intro f
    split
    · exact hj
    · exact isTorn_nil bits
  rcases hnext with hnext | hnext
  · refine ⟨fnj, fun f => if f = fnj then j else [], by omega, ?_, ?_, hbelow, hjunk⟩
    · intro f hf1 hf
      by_cases hff : f = fnj
      · simp only [hff, if_true]; exact hat
      · simp only [hff, if_false]
        exact hlow' f hf1 (by omega) hff
    · intro f hf
      by_cases hff : f = fnj + 1
      · rw [hff]; exact hnext
      · exact habove f (by omega)
  · refine ⟨fnj + 1, fun f => if f = fnj then j else [], by omega, ?_, ?_, hbelow, hjunk⟩
    · intro f hf1 hf
      by_cases hff : f = fnj
      · simp only [hff, if_true]; exact hat
      · simp only [hff, if_false]
        by_cases hf1' : f = fnj + 1
        · rw [hf1', hnext, fileOf_none (hno _ (by omega))]; rfl
        · exact hlow' f hf1 (by omega) hff
    · intro f hf
      exact habove f hf

theorem chain_step4 {bits : Nat} {A B C fi : NMap Bytes} {first N fn : Nat} {rec_ : Bytes}
    (hfN : first ≤ N) (hgone : ∀ f, f < first → A.get? f = none)
    (htorn : ∀ t, t < rec_.length → IsTorn bits (rec_.take t))
    (hall : ∀ f, first ≤ f → f ≤ N → A.get? f ≠ none) (hno : ∀ f, N < f → A.get? f = none)
    (hfn : fn = N ∨ fn = N + 1)
    (hB : ∀ f, B.get? f = if f = fn then some (fileOf A fn ++ rec_) else A.get? f)
    (hlow : ∀ f, f < fn → C.get? f = B.get? f)
    (hext : ∃ g2, C.get? fn = some (fileOf A fn ++ rec_ ++ g2))
    (h : CutImg A C fi) : TornExt4 bits A fi first N ∨ CutImg B C fi := by
  obtain ⟨nc, h1, h2, h3, h4⟩ := h
  have hBne : ∀ f, f ≠ fn → B.get? f = A.get? f := fun f hf => by rw [hB, if_neg hf]
  have hBfile : ∀ f, f ≠ fn → fileOf B f = fileOf A f := fun f hf => by
    unfold fileOf; rw [hBne f hf]
  have hnil : IsTorn bits [] := isTorn_nil bits
  rcases Nat.lt_trichotomy nc fn with hc | hc | hc
  · -- the cut is below the file the record goes to: nothing of this step is in the image
    left
    have hle : ∀ f, f ≤ nc → fi.get? f = A.get? f := by
      intro f hf
      rcases Nat.lt_or_ge f nc with hlt | hge
      · rw [h1 f hlt, hlow f (by omega), hBne f (by omega)]
      · have : f = nc := by omega
        subst this
        rcases h2 with h2 | ⟨g, t, e1, e2⟩
        · exact h2
        · rw [hlow f hc, hBne f (by omega)] at e1
          have hg : g = [] := by
            have h' : fileOf A f ++ g = fileOf A f ++ [] := by
              rw [List.append_nil]; exact (fileOf_some e1).symm
            exact List.append_cancel_left h'
          rw [e2, e1, hg]; simp
    have hN : ∀ f, f ≤ N → fi.get? f = A.get? f := by
      intro f hf
      rcases Nat.lt_or_ge nc f with hlt | hge
      · by_cases hf1 : f = nc + 1
        · subst hf1
          rcases h3 with h3 | ⟨_, e1, e3, _⟩
          · exact h3
          · by_cases hfl : first ≤ nc + 1
            · exact absurd e1 (hall _ hfl hf)
            · exfalso
              apply e3
              rw [hlow _ (by omega), hBne _ (by omega)]
              exact hgone _ (by omega)
        · exact h4 f (by omega)
      · exact hle f hge
    apply tornExt_mk4 hfN hgone hall hno N [] hnil (Or.inl rfl) (fun f hf _ => hN f hf)
    · rw [hN N (Nat.le_refl _), List.append_nil]; exact get_of_ne_none (hall N hfN (Nat.le_refl _))
    · by_cases hn1 : N = nc
      · subst hn1
        rcases h3 with h3 | ⟨_, _, _, e4⟩
        · left; rw [h3]; exact hno _ (by omega)
        · right; exact e4
      · left; rw [h4 (N + 1) (by omega)]; exact hno _ (by omega)
    · intro f hf
      rw [h4 f (by omega)]; exact hno f (by omega)
  · -- the cut is in the file the record goes to
    subst hc
    have hbelow : ∀ f, f < nc → fi.get? f = A.get? f := by
      intro f hf
      rw [h1 f hf, hlow f hf, hBne f (by omega)]
    have hab : ∀ f, nc + 1 < f → fi.get? f = none := by
      intro f hf
      rw [h4 f hf]; exact hno f (by omega)
    have hnx : A.get? (nc + 1) = none := hno _ (by omega)
    obtain ⟨g2, hext⟩ := hext
    rcases h2 with h2 | ⟨g, t, e1, e2⟩
    · left
      rcases hfn with hfn | hfn
      · -- append to the current file, nothing arrived
        subst hfn
        apply tornExt_mk4 hfN hgone hall hno nc [] hnil (Or.inl rfl) (fun f hf hne => hbelow f (by omega))
        · rw [h2, List.append_nil]; exact get_of_ne_none (hall nc hfN (Nat.le_refl _))
        · rcases h3 with h3 | ⟨_, _, _, e4⟩
          · left; rw [h3]; exact hnx
          · right; exact e4
        · exact hab
      · -- new file, not created
        have hnone : fi.get? nc = none := by rw [h2]; exact hno _ (by omega)
        apply tornExt_mk4 hfN hgone hall hno N [] hnil (Or.inl rfl) (fun f hf _ => hbelow f (by omega))
        · rw [hbelow N (by omega), List.append_nil]; exact get_of_ne_none (hall N hfN (Nat.le_refl _))
        · left; rw [← hfn]; exact hnone
        · intro f hf
          by_cases hf1 : f = nc + 1
          · subst hf1
            rcases h3 with h3 | ⟨e0, _, _, _⟩
            · rw [h3]; exact hnx
            · exact absurd hnone e0
          · exact hab f (by omega)
    · rw [hext] at e1
      have hg : g = rec_ ++ g2 := by
        have h' : fileOf A nc ++ (rec_ ++ g2) = fileOf A nc ++ g := by
          rw [← List.append_assoc]
          exact Option.some.inj e1
        exact (List.append_cancel_left h').symm
      subst hg
      by_cases ht : t < rec_.length
      · left
        rw [List.take_append_of_le_length (by omega)] at e2
        apply tornExt_mk4 hfN hgone hall hno nc (rec_.take t) (htorn t ht) hfn
          (fun f hf hne => hbelow f (by omega)) e2
        · rcases h3 with h3 | ⟨_, _, _, e4⟩
          · left; rw [h3]; exact hnx
          · right; exact e4
        · exact hab
      · right
        have hfB : fileOf B nc = fileOf A nc ++ rec_ := by
          unfold fileOf; rw [hB, if_pos rfl]; rfl
        refine ⟨nc, h1, Or.inr ⟨g2, t - rec_.length, ?_, ?_⟩, ?_, ?_⟩
        · rw [hext, hfB]
        · rw [e2, hfB, List.take_append, List.take_of_length_le (by omega), List.append_assoc]
        · rcases h3 with h3 | ⟨e0, e1', e3, e4⟩
          · left; rw [h3, hBne _ (by omega)]
          · right; exact ⟨e0, by rw [hBne _ (by omega)]; exact e1', e3, e4⟩
        · intro f hf
          rw [h4 f hf, hBne f (by omega)]
  · -- the cut is above: the step is complete in the image
    right
    refine ⟨nc, h1, ?_, ?_, ?_⟩
    · rcases h2 with h2 | ⟨g, t, e1, e2⟩
      · left; rw [h2, hBne _ (by omega)]
      · right; exact ⟨g, t, by rw [hBfile _ (by omega)]; exact e1, by rw [hBfile _ (by omega)]; exact e2⟩
    · rcases h3 with h3 | ⟨e0, e1', e3, e4⟩
      · left; rw [h3, hBne _ (by omega)]
      · right; exact ⟨e0, by rw [hBne _ (by omega)]; exact e1', e3, e4⟩
    · intro f hf
      rw [h4 f hf, hBne f (by omega)]


/-! ### the fold of `idxFlush`, step by step -/

/-- what the chain needs of a fold state: files `0..ifileNum` exist, none above -/
structure FoldSt4 (first : Nat) (m : Mem) (d : Disk) : Prop where
  le : first ≤ m.ifileNum
  gone : ∀ f, f < first → d.ifiles.get? f = none
  all : ∀ f, first ≤ f → f ≤ m.ifileNum → d.ifiles.get? f ≠ none
  noFiles : ∀ f, m.ifileNum < f → d.ifiles.get? f = none

theorem istep_shape4 {first : Nat} {pool : NMap RecordList} {m : Mem} {d : Disk} {blks : List (Nat × Nat)} {b : Nat}
    {rl : RecordList} (hg : pool.get? b = some rl) (h : FoldSt4 first m d) :
    ∃ fn, (fn = m.ifileNum ∨ fn = m.ifileNum + 1) ∧
      (iflushStep pool (m, d, blks) b).1.ifileNum = fn ∧
      (∀ f, (iflushStep pool (m, d, blks) b).2.1.ifiles.get? f =
        if f = fn then some (fileOf d.ifiles fn ++ idxRecBytes b rl) else d.ifiles.get? f) ∧
      FoldSt4 first (iflushStep pool (m, d, blks) b).1 (iflushStep pool (m, d, blks) b).2.1 := by
  by_cases hroll : m.ilength ≥ m.imax
  · have hnone : d.ifiles.get? (m.ifileNum + 1) = none := h.noFiles _ (by omega)
    rw [istep_roll hg hroll hnone]
    have hget : ∀ f, (rollFiles d.ifiles (m.ifileNum + 1) (idxRecBytes b rl)).get? f =
        if f = m.ifileNum + 1 then some (fileOf d.ifiles (m.ifileNum + 1) ++ idxRecBytes b rl)
        else d.ifiles.get? f := by
      intro f
      by_cases hf : f = m.ifileNum + 1
      · rw [if_pos hf, hf, NMap.get?_set_eq, fileOf_some (NMap.get?_set_eq _ _ _), fileOf_none hnone]
      · rw [if_neg hf, NMap.get?_set_ne _ _ hf, NMap.get?_set_ne _ _ hf]
    have hle := h.le
    refine ⟨m.ifileNum + 1, Or.inr rfl, rfl, hget, ⟨?_, ?_, ?_, ?_⟩⟩
    · show first ≤ m.ifileNum + 1; omega
    · intro f hf
      show (rollFiles d.ifiles (m.ifileNum + 1) (idxRecBytes b rl)).get? f = none
      rw [hget, if_neg (by omega)]
      exact h.gone f hf
    · intro f hf1 hf
      simp only at hf ⊢
      rw [hget]
      split
      · simp
      · exact h.all f hf1 (by omega)
    · intro f hf
      simp only at hf ⊢
      rw [hget, if_neg (by omega)]
      exact h.noFiles f (by omega)
  · rw [istep_noroll hg hroll]
    have hget : ∀ f, (d.ifiles.set m.ifileNum (fileOf d.ifiles m.ifileNum ++ idxRecBytes b rl)).get? f =
        if f = m.ifileNum then some (fileOf d.ifiles m.ifileNum ++ idxRecBytes b rl)
        else d.ifiles.get? f := fun f => NMap.get?_set _ _ _ _
    have hle := h.le
    refine ⟨m.ifileNum, Or.inl rfl, rfl, hget, ⟨h.le, ?_, ?_, ?_⟩⟩
    · intro f hf
      show (d.ifiles.set m.ifileNum _).get? f = none
      rw [hget, if_neg (by omega)]
      exact h.gone f hf
    · intro f hf1 hf
      simp only at hf ⊢
      rw [hget]
      split
      · simp
      · exact h.all f hf1 hf
    · intro f hf
      simp only at hf ⊢
      rw [hget, if_neg (by omega)]
      exact h.noFiles f hf

/-- the rest of the fold leaves the files below the current one alone and extends the current one -/
theorem ifold_low4 {first : Nat} {pool : NMap RecordList} : ∀ (order : List Nat) (m : Mem) (d : Disk)
    (blks : List (Nat × Nat)), FoldSt4 first m d →
    m.ifileNum ≤ (order.foldl (iflushStep pool) (m, d, blks)).1.ifileNum ∧
    (∀ f, f < m.ifileNum →
      (order.foldl (iflushStep pool) (m, d, blks)).2.1.ifiles.get? f = d.ifiles.get? f) ∧
    (∃ g, (order.foldl (iflushStep pool) (m, d, blks)).2.1.ifiles.get? m.ifileNum =
      some (fileOf d.ifiles m.ifileNum ++ g)) ∧
    FoldSt4 first (order.foldl (iflushStep pool) (m, d, blks)).1
      (order.foldl (iflushStep pool) (m, d, blks)).2.1
  | [], m, d, blks, h => by
    refine ⟨Nat.le_refl _, fun _ _ => rfl, ⟨[], ?_⟩, h⟩
    simp only [List.foldl_nil, List.append_nil]
    exact get_of_ne_none (h.all _ h.le (Nat.le_refl _))
  | b :: order, m, d, blks, h => by
    rw [List.foldl_cons]
    cases hg : pool.get? b with
    | none =>
      rw [iflushStep_none hg]
      exact ifold_low4 order m d blks h
    | some rl =>
      obtain ⟨fn, hfn, e1, e2, e3⟩ := istep_shape4 (blks := blks) hg h
      generalize iflushStep pool (m, d, blks) b = st at e1 e2 e3 ⊢
      obtain ⟨m1, d1, blks1⟩ := st
      obtain ⟨i1, i2, ⟨g, i3⟩, i4⟩ := ifold_low4 (pool := pool) order m1 d1 blks1 e3
      simp only at e1 e2
      rw [e1] at i1 i2 i3
      refine ⟨by omega, ?_, ?_, i4⟩
      · intro f hf
        rw [i2 f (by omega), e2, if_neg (by omega)]
      · rcases hfn with hfn | hfn
        · subst hfn
          refine ⟨idxRecBytes b rl ++ g, ?_⟩
          rw [i3]
          have : fileOf d1.ifiles m.ifileNum =
              fileOf d.ifiles m.ifileNum ++ idxRecBytes b rl := by
            unfold fileOf; rw [e2, if_pos rfl]; rfl
          rw [this, List.append_assoc]
        · refine ⟨[], ?_⟩
          rw [i2 _ (by omega), e2, if_neg (by omega), List.append_nil]
          exact get_of_ne_none (h.all _ h.le (Nat.le_refl _))

/-- every cut through the index files of the fold is a torn extension of the table after a prefix of
    the fold -/
theorem idx_chain4 {first : Nat} {bits : Nat} {pool : NMap RecordList}
    (hpool : ∀ b rl, pool.get? b = some rl → RecLogOK bits (b, rl)) :
    ∀ (order : List Nat) (m : Mem) (d : Disk) (blks : List (Nat × Nat)), FoldSt4 first m d →
    ∀ fi, CutImg d.ifiles (order.foldl (iflushStep pool) (m, d, blks)).2.1.ifiles fi →
    ∃ j, j ≤ order.length ∧
      TornExt4 bits ((order.take j).foldl (iflushStep pool) (m, d, blks)).2.1.ifiles fi first
        ((order.take j).foldl (iflushStep pool) (m, d, blks)).1.ifileNum
  | [], m, d, blks, h, fi, hc => by
    refine ⟨0, Nat.le_refl _, ?_⟩
    have hs := cutImg_self hc
    simp only [List.take_nil, List.foldl_nil]
    apply tornExt_mk4 h.le h.gone h.all h.noFiles m.ifileNum [] (isTorn_nil bits) (Or.inl rfl)
      (fun f _ _ => hs f)
    · rw [hs, List.append_nil]; exact get_of_ne_none (h.all _ h.le (Nat.le_refl _))
    · left; rw [hs]; exact h.noFiles _ (by omega)
    · intro f hf; rw [hs]; exact h.noFiles _ (by omega)
  | b :: order, m, d, blks, h, fi, hc => by
    rw [List.foldl_cons] at hc
    cases hg : pool.get? b with
    | none =>
      rw [iflushStep_none hg] at hc
      obtain ⟨j, hj, ht⟩ := idx_chain4 hpool order m d blks h fi hc
      refine ⟨j + 1, by simp only [List.length_cons]; omega, ?_⟩
      rw [foldl_take_succ, iflushStep_none hg]
      exact ht
    | some rl =>
      obtain ⟨fn, hfn, e1, e2, e3⟩ := istep_shape4 (blks := blks) hg h
      generalize hst : iflushStep pool (m, d, blks) b = st at e1 e2 e3 hc ⊢
      obtain ⟨m1, d1, blks1⟩ := st
      obtain ⟨i1, i2, ⟨g, i3⟩, i4⟩ := ifold_low4 (pool := pool) order m1 d1 blks1 e3
      simp only at e1 e2
      rw [e1] at i1 i2 i3
      have hfB : fileOf d1.ifiles fn =
          fileOf d.ifiles fn ++ idxRecBytes b rl := by
        unfold fileOf; rw [e2, if_pos rfl]; rfl
      rcases chain_step4 (bits := bits) h.le h.gone (fun t ht => isTorn_take (hpool b rl hg) t ht) h.all h.noFiles hfn
        e2 i2 ⟨g, by rw [i3, hfB]⟩ hc with ht | hc'
      · refine ⟨0, Nat.zero_le _, ?_⟩
        simp only [List.take_zero, List.foldl_nil]
        exact ht
      · obtain ⟨j, hj, ht⟩ := idx_chain4 hpool order m1 d1 blks1 e3 fi hc'
        refine ⟨j + 1, by simp only [List.length_cons]; omega, ?_⟩
        rw [foldl_take_succ, hst]
        exact ht


/-! ### the span log of an image -/

/-- `scan_tbl` from the three facts it uses -/
theorem scan_tbl' {imax N first : Nat} {T : Nat → Nat} {sp : Nat → List GSpan} (hle : first ≤ N)
    (t1 : ∀ b, T b ≠ 0 → ∃ f off body, first ≤ f ∧ f ≤ N ∧ (off, body) ∈ liveAt 0 (sp f) ∧
      leDec (body.take 4) = b ∧ T b = f * imax + off + 4)
    (t2 : ∀ f, first ≤ f → f ≤ N → ∀ x ∈ liveAt 0 (sp f),
      x.1 < imax ∧ f * imax + x.1 + 4 ≤ T (leDec (x.2.take 4))) (b : Nat) :
    ((setAll [] (rangeLive imax sp first (N + 1 - first))).get? b).getD 0 = T b := by
  have hsorted := rangeLive_sorted (max := imax) (sp := sp) (N + 1 - first) first
    (fun f h1 h2 x hx => (t2 f h1 (by omega) x hx).1)
  rcases setAll_max _ hsorted [] b with ⟨h1, h2⟩ | ⟨p, h1, h2, h3⟩
  · rw [h2]
    simp only [NMap.get?_nil, Option.getD_none]
    by_cases h0 : T b = 0
    · exact h0.symm
    · exfalso
      obtain ⟨f, off, body, g1, g2, g3, g4, g5⟩ := t1 b h0
      exact h1 (T b) (mem_rangeLive.mpr ⟨f, off, body, g1, by omega, g3, by rw [g4, g5]⟩)
  · rw [h2]
    simp only [Option.getD_some]
    obtain ⟨f, off, body, g1, g2, g3, g4⟩ := mem_rangeLive.mp h1
    simp only [Prod.mk.injEq] at g4
    have hle2 := (t2 f g1 (by omega) _ g3).2
    simp only at hle2
    rw [← g4.1, ← g4.2] at hle2
    have h0 : T b ≠ 0 := by omega
    obtain ⟨f', off', body', k1, k2, k3, k4, k5⟩ := t1 b h0
    have := h3 (T b) (mem_rangeLive.mpr ⟨f', off', body', k1, by omega, k3, by rw [k4, k5]⟩)
    omega

/-- what recovery needs to know about the index files of an image (span-log version) -/
def IdxImage4 (bits imax first : Nat) (pool : NMap RecordList) (bk0 : NMap Nat) (old fi : NMap Bytes) :
    Prop :=
  ∃ (M : Nat) (spI : Nat → List GSpan) (junk : Nat → Bytes) (blks : List (Nat × Nat)),
    first ≤ M ∧
    (∀ f, first ≤ f → f ≤ M → fi.get? f = some (gbytes (spI f) ++ junk f)) ∧
    (∀ f, M < f → fi.get? f = none) ∧ (∀ f, f < first → fi.get? f = none) ∧
    (∀ f, first ≤ f → f ≤ M → ∀ s ∈ spI f, IdxSpanOK bits s) ∧ (∀ f, IsTorn bits (junk f)) ∧
    (∀ b, ((setAll [] (rangeLive imax spI first (M + 1 - first))).get? b).getD 0 = tblOf bk0 blks b) ∧
    (∀ b, tblOf bk0 blks b ≠ 0 → ∃ f off body, first ≤ f ∧ f ≤ M ∧ (off, body) ∈ liveAt 0 (spI f) ∧
      leDec (body.take 4) = b ∧ tblOf bk0 blks b = f * imax + off + 4) ∧
    (∀ f, first ≤ f → f ≤ M → ∀ x ∈ liveAt 0 (spI f),
      x.1 < imax ∧ f * imax + x.1 + 4 ≤ tblOf bk0 blks (leDec (x.2.take 4))) ∧
    ∀ files' : NMap Bytes, (∀ f, first ≤ f → f ≤ M → files'.get? f = some (gbytes (spI f))) →
      FilesExt old files' ∧
      ∀ x ∈ blks, ∃ rl, pool.get? x.1 = some rl ∧ readDiskBucket files' imax x.2 = .ok (some rl)

theorem ifold_image4 {bits first : Nat} {bk0 : NMap Nat} {pool : NMap RecordList} (h31 : bits ≤ 31)
    (hwf : ∀ b rl, pool.get? b = some rl → FlushOK rl)
    (hpool : ∀ b rl, pool.get? b = some rl → RecLogOK bits (b, rl))
    (order : List Nat) (m : Mem) (d : Disk) (sp : Nat → List GSpan)
    (hL : LogFold4 bits bk0 first sp m d []) (hp : 1 ≤ m.imax) (hfn : m.ifileNum + order.length < two32)
    (fi : NMap Bytes)
    (hc : CutImg d.ifiles (order.foldl (iflushStep pool) (m, d, [])).2.1.ifiles fi) :
    IdxImage4 bits m.imax first pool bk0 d.ifiles fi := by
  have hst : FoldSt4 first m d :=
    ⟨hL.log.le, hL.log.gone, fun f h1 h2 => by rw [hL.log.files f h1 h2]; simp, hL.noFiles⟩
  obtain ⟨j, hj, M, junk, hNM, hfi, hab, hbel, htorn⟩ := idx_chain4 hpool order m d [] hst fi hc
  have hlen : (order.take j).length ≤ order.length := by simp [List.length_take]; omega
  obtain ⟨fn, len, files, blks, g1, g2, g3, g4, g5, g6, _, _⟩ :=
    ifold_ok hwf (order.take j) m d [] hp hL.len hL.noFiles (by omega) (by simp)
  obtain ⟨sp', hL'⟩ := ifold_log4 (bk0 := bk0) h31 hpool (order.take j) m d [] sp hp hL
  rw [g1] at hL' hfi hNM
  have hl : IdxLogT bits m.imax fn files (tblOf bk0 blks) first sp' := hL'.log
  have hNM' : fn ≤ M := hNM
  have hfi' : ∀ f, first ≤ f → f ≤ M → fi.get? f = some (fileOf files f ++ junk f) := hfi
  have hfle := hl.le
  have ht1 : ∀ b, tblOf bk0 blks b ≠ 0 → ∃ f off body, first ≤ f ∧ f ≤ M ∧
      (off, body) ∈ liveAt 0 ((fun f => if f ≤ fn then sp' f else []) f) ∧
      leDec (body.take 4) = b ∧ tblOf bk0 blks b = f * m.imax + off + 4 := by
    intro b hb
    obtain ⟨f, off, body, q1, q2, q3, q4, q5⟩ := hl.t1 b hb
    exact ⟨f, off, body, q1, by omega, by simp only [q2, if_true]; exact q3, q4, q5⟩
  have ht2 : ∀ f, first ≤ f → f ≤ M → ∀ x ∈ liveAt 0 ((fun f => if f ≤ fn then sp' f else []) f),
      x.1 < m.imax ∧ f * m.imax + x.1 + 4 ≤ tblOf bk0 blks (leDec (x.2.take 4)) := by
    intro f hf1 hf x hx
    by_cases hff : f ≤ fn
    · simp only [hff, if_true] at hx
      exact hl.t2 f hf1 hff x hx
    · simp only [hff, if_false, liveAt] at hx
      cases hx
  refine ⟨M, fun f => if f ≤ fn then sp' f else [], junk, blks, by omega, ?_, hab, hbel, ?_, htorn,
    scan_tbl' (by omega) ht1 ht2, ht1, ht2, ?_⟩
  · intro f hf1 hf
    rw [hfi' f hf1 hf]
    by_cases hff : f ≤ fn
    · simp only [hff, if_true]
      rw [fileOf_some (hl.files f hf1 hff)]
    · simp only [hff, if_false]
      rw [fileOf_none (g4 f (by omega))]
      rfl
  · intro f hf1 hf s hs
    by_cases hff : f ≤ fn
    · simp only [hff, if_true] at hs
      exact hl.ok f hf1 hff s hs
    · simp only [hff, if_false] at hs
      cases hs
  · intro files' hf'
    have hext : FilesExt files files' := by
      intro f file hfile
      have hff : f ≤ fn := by
        rcases Nat.lt_or_ge fn f with h | h
        · rw [g4 f h] at hfile; cases hfile
        · exact h
      have hf1 : first ≤ f := by
        rcases Nat.lt_or_ge f first with h | h
        · rw [hl.gone f h] at hfile; cases hfile
        · exact h
      rw [hl.files f hf1 hff] at hfile
      cases hfile
      refine ⟨[], ?_⟩
      rw [hf' f hf1 (by omega)]
      simp only [hff, if_true, List.append_nil]
    refine ⟨g2.trans hext, ?_⟩
    intro x hx
    obtain ⟨rl, r1, r2⟩ := g6 x hx
    exact ⟨rl, r1, readDiskBucket_mono hext r2⟩

/-! ### `idxFlush` -/

theorem idxFlush_image4 {m : Mem} {d : Disk} {order : List Nat} {first : Nat} {sp : Nat → List GSpan}
    (hI : IInv m d) (hL : IdxLog m d first sp) (h31 : m.bits ≤ 31)
    (hwf : ∀ b rl, m.inext.get? b = some rl → FlushOK rl)
    (hpool : ∀ b rl, m.inext.get? b = some rl → RecLogOK m.bits (b, rl))
    (hfn : m.ifileNum + order.length < two32) (fi : NMap Bytes)
    (hc : CutImg d.ifiles (idxFlush m d order).2.ifiles fi) :
    IdxImage4 m.bits m.imax first m.inext m.buckets d.ifiles fi := by
  by_cases hne : m.inext.isEmpty = true
  · rw [idxFlush_empty hne] at hc
    have h0 : LogFold4 m.bits m.buckets first sp m d [] := ⟨hL, hI.len, hI.noFiles⟩
    exact ifold_image4 h31 hwf hpool [] m d sp h0 hI.imax (by simp; omega) fi hc
  · have hne' : m.inext.isEmpty = false := by simpa using hne
    rw [idxFlush_eq hne'] at hc
    have h0 : LogFold4 m.bits m.buckets first sp { m with icur := m.inext, inext := [] } d [] :=
      ⟨hL, hI.len, hI.noFiles⟩
    exact ifold_image4 h31 hwf hpool order { m with icur := m.inext, inext := [] } d sp h0 hI.imax hfn
      fi hc

/-- the index files before and after `idxFlush` form an ordered family from `first` -/
theorem idxFlush_seg4 {m : Mem} {d : Disk} {order : List Nat} {first : Nat}
    (hs : NMap.Sorted d.ifiles) (hst : FoldSt4 first m d) :
    ∃ P', SegOK4 d.ifiles (idxFlush m d order).2.ifiles first m.ifileNum P' := by
  have hsort := idxFlush_sorted (m := m) (order := order) hs
  by_cases hne : m.inext.isEmpty = true
  · rw [idxFlush_empty hne] at hsort ⊢
    refine ⟨m.ifileNum, hsort, hst.le, Nat.le_refl _, hst.gone, hst.gone, hst.all, hst.noFiles, hst.all,
      hst.noFiles, fun _ _ => rfl, ⟨[], ?_⟩⟩
    rw [List.append_nil]
    exact get_of_ne_none (hst.all _ hst.le (Nat.le_refl _))
  · have hne' : m.inext.isEmpty = false := by simpa using hne
    rw [idxFlush_eq hne'] at hsort ⊢
    have hst0 : FoldSt4 first { m with icur := m.inext, inext := [] } d :=
      ⟨hst.le, hst.gone, hst.all, hst.noFiles⟩
    obtain ⟨i1, i2, i3, i4⟩ := ifold_low4 (pool := m.inext) order { m with icur := m.inext, inext := [] }
      d [] hst0
    exact ⟨_, hsort, hst.le, i1, hst.gone, i4.gone, hst.all, hst.noFiles, i4.all, i4.noFiles, i2, i3⟩

end Sth
