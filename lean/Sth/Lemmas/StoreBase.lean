/-
Basic algebra for the store refinement (C01): association lists (`NMap`), byte files (`readAt`),
the specification map (`Spec`), and a weighted-sum lemma.
Core Lean only.
-/
import Sth.Model.Machine

namespace Sth

/-! ### NMap -/

namespace NMap
variable {α : Type}

@[simp] theorem get?_nil (k : Nat) : get? ([] : NMap α) k = none := rfl

theorem get?_cons (k' : Nat) (v : α) (rest : NMap α) (k : Nat) :
    get? ((k', v) :: rest) k = if k' = k then some v else get? rest k := rfl

theorem get?_set_eq : ∀ (m : NMap α) (k : Nat) (v : α), (m.set k v).get? k = some v
  | [], k, v => by simp [set, get?_cons]
  | (k', v') :: rest, k, v => by
    unfold set
    split
    · simp [get?_cons]
    · split
      · simp [get?_cons]
      · rename_i h1 h2
        have : k' ≠ k := fun h => h2 h.symm
        simp [get?_cons, this, get?_set_eq rest k v]

theorem get?_set_ne : ∀ (m : NMap α) {k j : Nat} (v : α), j ≠ k → (m.set k v).get? j = m.get? j
  | [], k, j, v, h => by simp [set, get?_cons, Ne.symm h]
  | (k', v') :: rest, k, j, v, h => by
    unfold set
    split
    · simp [get?_cons, Ne.symm h]
    · split
      · rename_i h1 h2
        subst h2
        simp [get?_cons, Ne.symm h]
      · simp only [get?_cons]
        split
        · rfl
        · exact get?_set_ne rest v h

theorem get?_set (m : NMap α) (k j : Nat) (v : α) :
    (m.set k v).get? j = if j = k then some v else m.get? j := by
  split
  · rename_i h; subst h; exact get?_set_eq m j v
  · rename_i h; exact get?_set_ne m v h

theorem mem_of_get? : ∀ {m : NMap α} {k : Nat} {v : α}, m.get? k = some v → (k, v) ∈ m
  | [], _, _ => by simp
  | (k', v') :: rest, k, v => by
    simp only [get?_cons]
    split
    · rename_i h; subst h; intro h; cases h; simp
    · intro h; exact List.mem_cons_of_mem _ (mem_of_get? h)

theorem mem_keys_of_get? {m : NMap α} {k : Nat} {v : α} (h : m.get? k = some v) : k ∈ m.keys :=
  List.mem_map.mpr ⟨(k, v), mem_of_get? h, rfl⟩

theorem get?_none_of_not_mem_keys : ∀ {m : NMap α} {k : Nat}, k ∉ m.keys → m.get? k = none
  | [], _ => by simp
  | (k', v') :: rest, k => by
    intro h
    simp only [keys, List.map_cons, List.mem_cons, not_or] at h
    simp only [get?_cons, Ne.symm h.1, if_false]
    exact get?_none_of_not_mem_keys h.2

theorem get?_isEmpty {m : NMap α} (h : m.isEmpty = true) (k : Nat) : m.get? k = none := by
  cases m with
  | nil => rfl
  | cons _ _ => simp at h

/-- strictly sorted by key -/
def Sorted (m : NMap α) : Prop := (m.map (·.1)).Pairwise (· < ·)

theorem sorted_nil : Sorted ([] : NMap α) := by simp [Sorted]

theorem keys_set_mem : ∀ (m : NMap α) (k : Nat) (v : α) (x : Nat),
    x ∈ (m.set k v).map (·.1) → x = k ∨ x ∈ m.map (·.1)
  | [], k, v, x => by simp [set]
  | (k', v') :: rest, k, v, x => by
    unfold set
    split
    · simp
    · split
      · simp; intro h; rcases h with h | h
        · exact Or.inl h
        · exact Or.inr (Or.inr h)
      · simp only [List.map_cons, List.mem_cons]
        rintro (h | h)
        · exact Or.inr (Or.inl h)
        · rcases keys_set_mem rest k v x h with h | h
          · exact Or.inl h
          · exact Or.inr (Or.inr h)

theorem sorted_set : ∀ {m : NMap α} (k : Nat) (v : α), Sorted m → Sorted (m.set k v)
  | [], k, v, _ => by simp [set, Sorted]
  | (k', v') :: rest, k, v, h => by
    unfold Sorted at h ⊢
    simp only [List.map_cons, List.pairwise_cons] at h
    unfold set
    split
    · rename_i hlt
      simp only [List.map_cons, List.pairwise_cons, List.mem_cons]
      refine ⟨?_, h⟩
      rintro x (rfl | hx)
      · exact hlt
      · exact Nat.lt_trans hlt (h.1 x hx)
    · split
      · rename_i h1 h2
        subst h2
        simp only [List.map_cons, List.pairwise_cons]
        exact h
      · rename_i h1 h2
        simp only [List.map_cons, List.pairwise_cons]
        refine ⟨?_, sorted_set k v h.2⟩
        intro x hx
        rcases keys_set_mem rest k v x hx with rfl | hx
        · omega
        · exact h.1 x hx

theorem get?_of_mem_sorted : ∀ {m : NMap α} {k : Nat} {v : α}, Sorted m → (k, v) ∈ m →
    m.get? k = some v
  | [], _, _, _ => by simp
  | (k', v') :: rest, k, v, hs => by
    unfold Sorted at hs
    simp only [List.map_cons, List.pairwise_cons] at hs
    simp only [List.mem_cons, get?_cons]
    rintro (h | h)
    · cases h; simp
    · have : k' < k := hs.1 k (List.mem_map.mpr ⟨(k, v), h, rfl⟩)
      have hne : k' ≠ k := by omega
      simp only [hne, if_false]
      exact get?_of_mem_sorted hs.2 h

theorem length_set_le : ∀ (m : NMap α) (k : Nat) (v : α), (m.set k v).length ≤ m.length + 1
  | [], k, v => by simp [set]
  | (k', v') :: rest, k, v => by
    unfold set
    split
    · simp
    · split
      · simp
      · have := length_set_le rest k v
        simp; omega

end NMap

/-! ### files -/

theorem readAt_eq_some {f : Bytes} {pos n : Nat} {s : Bytes} (h : readAt f pos n = some s) :
    n ≤ f.length - pos ∧ s = (f.drop pos).take n := by
  unfold readAt at h
  simp only at h
  split at h
  · rename_i hl
    cases h
    refine ⟨?_, rfl⟩
    simp only [List.length_take, List.length_drop] at hl
    omega
  · cases h

theorem readAt_of_le {f : Bytes} {pos n : Nat} (h : n ≤ f.length - pos) :
    readAt f pos n = some ((f.drop pos).take n) := by
  unfold readAt
  simp only
  rw [if_pos]
  simp only [List.length_take, List.length_drop]
  omega

theorem readAt_append {f : Bytes} (g : Bytes) {pos n : Nat} {s : Bytes} (h : readAt f pos n = some s) :
    readAt (f ++ g) pos n = some s := by
  obtain ⟨hle, rfl⟩ := readAt_eq_some h
  rw [readAt_of_le (by simp; omega)]
  by_cases hp : pos ≤ f.length
  · rw [List.drop_append_of_le_length hp, List.take_append_of_le_length (by simp; omega)]
  · have : n = 0 := by omega
    subst this
    simp

theorem readAt_at_end (f data g : Bytes) : readAt (f ++ data ++ g) f.length data.length = some data := by
  rw [readAt_of_le (by simp)]
  rw [List.append_assoc, List.drop_left' rfl, List.take_left' rfl]

theorem readAt_mid (f a data g : Bytes) :
    readAt (f ++ (a ++ data ++ g)) (f.length + a.length) data.length = some data := by
  have := readAt_at_end (f ++ a) data g
  simpa [List.append_assoc] using this

theorem readU32_append {f : Bytes} (g : Bytes) {pos x : Nat} (h : readU32 f pos = some x) :
    readU32 (f ++ g) pos = some x := by
  unfold readU32 at h ⊢
  cases hr : readAt f pos 4 with
  | none => simp [hr] at h
  | some s => rw [readAt_append g hr]; rw [hr] at h; exact h

/-! ### the specification map -/

theorem Spec.get_cons (x : Bytes × Bytes × Bytes) (m : Spec) (dig : Bytes) :
    Spec.get (x :: m) dig = if x.1 = dig then some x.2 else Spec.get m dig := by
  unfold Spec.get
  simp only [List.find?_cons]
  by_cases h : x.1 = dig <;> simp [h]

theorem Spec.get_filter_ne : ∀ (m : Spec) (dig dig' : Bytes), dig' ≠ dig →
    Spec.get (m.filter (·.1 ≠ dig)) dig' = Spec.get m dig'
  | [], _, _, _ => rfl
  | x :: m, dig, dig', h => by
    simp only [List.filter_cons]
    by_cases hx : x.1 = dig
    · have : x.1 ≠ dig' := by rw [hx]; exact Ne.symm h
      simp only [hx, ne_eq, not_true_eq_false, decide_false, Bool.false_eq_true, if_false]
      rw [Spec.get_cons, if_neg (by rw [hx]; exact Ne.symm h)]
      exact Spec.get_filter_ne m dig dig' h
    · simp only [ne_eq, hx, not_false_eq_true, decide_true, if_true]
      rw [Spec.get_cons, Spec.get_cons, Spec.get_filter_ne m dig dig' h]

theorem Spec.get_filter_eq : ∀ (m : Spec) (dig : Bytes), Spec.get (m.filter (·.1 ≠ dig)) dig = none
  | [], _ => rfl
  | x :: m, dig => by
    simp only [List.filter_cons]
    by_cases hx : x.1 = dig
    · simp only [hx, ne_eq, not_true_eq_false, decide_false, Bool.false_eq_true, if_false]
      exact Spec.get_filter_eq m dig
    · simp only [ne_eq, hx, not_false_eq_true, decide_true, if_true]
      rw [Spec.get_cons, if_neg hx]
      exact Spec.get_filter_eq m dig

theorem Spec.get_set_eq (m : Spec) (dig k v : Bytes) : Spec.get (Spec.set m dig k v) dig = some (k, v) := by
  unfold Spec.set
  rw [Spec.get_cons]
  simp

theorem Spec.get_set_ne (m : Spec) (dig k v : Bytes) {dig' : Bytes} (h : dig' ≠ dig) :
    Spec.get (Spec.set m dig k v) dig' = Spec.get m dig' := by
  unfold Spec.set
  rw [Spec.get_cons, if_neg (Ne.symm h)]
  exact Spec.get_filter_ne m dig dig' h

theorem Spec.get_del_eq (m : Spec) (dig : Bytes) : Spec.get (Spec.del m dig) dig = none :=
  Spec.get_filter_eq m dig

theorem Spec.get_del_ne (m : Spec) (dig : Bytes) {dig' : Bytes} (h : dig' ≠ dig) :
    Spec.get (Spec.del m dig) dig' = Spec.get m dig' :=
  Spec.get_filter_ne m dig dig' h

theorem Spec.mem_of_get {m : Spec} {dig k v : Bytes} (h : Spec.get m dig = some (k, v)) :
    (dig, k, v) ∈ m := by
  unfold Spec.get at h
  cases hf : m.find? (·.1 = dig) with
  | none => simp [hf] at h
  | some x =>
    rw [hf] at h
    simp only [Option.map_some, Option.some.injEq] at h
    have h1 := List.find?_some hf
    have h2 := List.mem_of_find?_eq_some hf
    simp only [decide_eq_true_eq] at h1
    obtain ⟨a, b, c⟩ := x
    simp only at h1 h
    cases h
    subst h1
    exact h2

theorem Spec.get_of_mem : ∀ {m : Spec} {dig k v : Bytes}, (m.map (·.1)).Nodup → (dig, k, v) ∈ m →
    Spec.get m dig = some (k, v)
  | [], _, _, _, _ => by simp
  | x :: m, dig, k, v, hn => by
    simp only [List.map_cons, List.nodup_cons] at hn
    simp only [List.mem_cons]
    rintro (h | h)
    · subst h; rw [Spec.get_cons]; simp
    · rw [Spec.get_cons]
      have : x.1 ≠ dig := by
        intro hx
        exact hn.1 (List.mem_map.mpr ⟨(dig, k, v), h, hx.symm⟩)
      rw [if_neg this]
      exact Spec.get_of_mem hn.2 h

/-! ### a weighted-sum comparison along an injection -/

theorem sum_le_of_inj {α β γ : Type} (f : α → γ) (key : β → γ) (g : α → Nat) (w : β → Nat) :
    ∀ (l : List α) (s : List β), (l.map f).Nodup →
      (∀ a ∈ l, ∃ x ∈ s, key x = f a ∧ g a ≤ w x) → (l.map g).sum ≤ (s.map w).sum
  | [], _, _, _ => by simp
  | a :: l, s, hn, hs => by
    simp only [List.map_cons, List.nodup_cons] at hn
    obtain ⟨x, hx, hk, hg⟩ := hs a (by simp)
    obtain ⟨s1, s2, rfl⟩ := List.append_of_mem hx
    have ih := sum_le_of_inj f key g w l (s1 ++ s2) hn.2 (by
      intro a' ha'
      obtain ⟨x', hx', hk', hg'⟩ := hs a' (by simp [ha'])
      refine ⟨x', ?_, hk', hg'⟩
      simp only [List.mem_append, List.mem_cons] at hx' ⊢
      rcases hx' with h | h | h
      · exact Or.inl h
      · exfalso
        subst h
        apply hn.1
        rw [← hk, hk']
        exact List.mem_map_of_mem ha'
      · exact Or.inr h)
    simp only [List.map_cons, List.sum_cons, List.map_append, List.sum_append] at ih ⊢
    omega

end Sth
