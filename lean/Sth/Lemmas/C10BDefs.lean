/-
C10 widened (U1) — legacy stores whose index holds UNMAPPABLE entries: current entries whose offset lies
at or beyond the end of the legacy primary (and below 2^63: RemapOffset converts the offset to int64
first, an offset ≥ 2^63 is "inside the first file" and is kept).  Definitions and the basic facts:
RemapOffset rejects exactly these, they contribute nothing to `LegacyC.spec`.
Core Lean only.
-/
import Sth.Lemmas.C10Whole

namespace Sth

namespace LegacyC

/-- an offset IndexRemapper.RemapOffset rejects on the upgraded primary of `C` -/
def badOff (C : LegacyC) (off : Nat) : Prop := (legacyPrimary C.recs).length ≤ off ∧ off < two64 / 2

instance (C : LegacyC) (off : Nat) : Decidable (C.badOff off) := by unfold badOff; exact inferInstance

end LegacyC

/-- `LegacyWFU` except that current entries may be unmappable -/
structure LegacyWFBadU (c : Cfg) (U : List (Bytes × Bytes)) (C : LegacyC) : Prop where
  bits : C.bits = c.bits
  recSize : ∀ kv ∈ C.recs, LegacyC.recSize kv < two31
  gensOK : ∀ r ∈ C.gens, RecLogOK c.bits r ∧ FlushOK r.2
  freedOK : ∀ l, C.freed = some l → ∀ i ∈ l, i < C.recs.length
  sorted : ∀ b rl, C.table.get? b = some rl → (rl.map (·.pfx)).Pairwise klt
  prefixFree : ∀ b rl, C.table.get? b = some rl → (rl.map (·.pfx)).Pairwise apart
  distinct : ∀ b rl, C.table.get? b = some rl → (rl.map (·.blk)).Nodup
  entries : ∀ b rl, C.table.get? b = some rl → ∀ e ∈ rl, (C.badOff e.blk.off ∧ e.pfx ≠ []) ∨ ∃ i key val dig,
    C.recs[i]? = some (key, val) ∧ e.blk = C.blockOf i ∧ C.isFreed i = false ∧ (key, dig) ∈ U ∧
    bucketOfKey c.bits dig = some b ∧ e.pfx ≠ [] ∧ pfx e.pfx (dig.drop (c.bits / 8))

/-- what the legacy writer guarantees when some index entries are corrupt: `LegacyWF`, except that an
    entry of a current record list may, instead of naming a record, carry an offset at or beyond the end
    of the legacy primary (below 2^63).  Such an entry still has its place in the sorted, prefix-free list
    and its own location (`distinct`) and a non-empty stored prefix; nothing else is required of it (its
    size and prefix are arbitrary within the field widths). -/
structure LegacyWFBad (c : Cfg) (C : LegacyC) : Prop where
  bits : C.bits = c.bits
  recSize : ∀ kv ∈ C.recs, LegacyC.recSize kv < two31
  gensOK : ∀ r ∈ C.gens, RecLogOK c.bits r ∧ FlushOK r.2
  freedOK : ∀ l, C.freed = some l → ∀ i ∈ l, i < C.recs.length
  sorted : ∀ b rl, C.table.get? b = some rl → (rl.map (·.pfx)).Pairwise klt
  prefixFree : ∀ b rl, C.table.get? b = some rl → (rl.map (·.pfx)).Pairwise apart
  distinct : ∀ b rl, C.table.get? b = some rl → (rl.map (·.blk)).Nodup
  entries : ∀ b rl, C.table.get? b = some rl → ∀ e ∈ rl, (C.badOff e.blk.off ∧ e.pfx ≠ []) ∨ ∃ i key val dig,
    C.recs[i]? = some (key, val) ∧ e.blk = C.blockOf i ∧ C.isFreed i = false ∧
    keyClass .mh key = .ok dig ∧
    bucketOfKey c.bits dig = some b ∧ e.pfx ≠ [] ∧ pfx e.pfx (dig.drop (c.bits / 8))

namespace C10B

open LegacyC

variable {c : Cfg} {U : List (Bytes × Bytes)} {C : LegacyC}

/-! ### sizes -/

theorem out_total (C : LegacyC) : (C.out.map List.length).sum = (legacyPrimary C.recs).length := by
  rw [C.out_lengths, legacyPrimary_eq, mdata_length, List.map_map]
  rfl

theorem psizes_sum (c : Cfg) (C : LegacyC) : (C.psizes c).sum = (legacyPrimary C.recs).length := by
  have e : ((chunk c.pfs C.out).map List.flatten).map List.length = chunkSizes c.pfs C.out := by
    unfold chunkSizes
    rw [List.map_map]
    apply List.map_congr_left
    intro x _
    simp [List.length_flatten]
  have hs : (chunkSizes c.pfs C.out).sum = (C.out.map List.length).sum := by
    rw [← e]
    have hf := chunk_flatten c.pfs C.out
    have : (((chunk c.pfs C.out).map List.flatten).map List.length).sum =
        ((chunk c.pfs C.out).flatten.map List.length).sum := by
      generalize chunk c.pfs C.out = cs
      induction cs with
      | nil => rfl
      | cons x xs ih =>
        simp only [List.map_cons, List.sum_cons, List.flatten_cons, List.map_append, List.sum_append, ih]
        congr 1
        simp [List.length_flatten]
    rw [this, hf]
  unfold psizes pfilesL
  rcases chunkFiles_sizes c.pfs C.out with h | h
  · rw [h, hs, out_total]
  · rw [h, List.sum_append, hs, out_total]; simp

/-- RemapOffset rejects an unmappable offset -/
theorem remapC_bad (c : Cfg) (C : LegacyC) (off : Nat) (h : C.badOff off) : C.remapC c off = none := by
  unfold remapC remapOff
  rw [if_neg (by have := h.2; omega)]
  exact remap_reject _ _ _ _ (by rw [psizes_sum]; exact h.1)

/-! ### unmappable entries are not part of the contents -/

theorem lookupRec_none : ∀ (recs : List (Bytes × Bytes)) (pos idx off : Nat),
    pos + (recs.map fun kv => 4 + recSize kv).sum ≤ off → lookupRec recs pos idx off = none
  | [], _, _, _, _ => rfl
  | kv :: rest, pos, idx, off, h => by
    simp only [List.map_cons, List.sum_cons] at h
    rw [lookupRec, if_neg (by omega)]
    exact lookupRec_none rest _ _ off (by omega)

theorem specEntry_bad (C : LegacyC) (e : Entry) (h : C.badOff e.blk.off) : C.specEntry e = none := by
  unfold specEntry
  rw [lookupRec_none C.recs 0 0 e.blk.off (by
    have := h.1
    rw [legacyPrimary_eq, mdata_length, List.map_map] at this
    rw [Nat.zero_add]
    exact this)]

end C10B

end Sth
