import Sth.Lemmas.C13X2

/-!
C13 along GC histories, exactly once: flush, index GC, reopen.  Core Lean only.
-/

namespace Sth.C13X

open Sth.C11 Sth.C13H

/-- the primary flush moves the write position only -/
theorem pfold_alloc : ∀ (recs : List PRec) (m : Mem) (d : Disk) (m' : Mem) (d' : Disk),
    recs.foldlM pstepMh (m, d) = some (m', d') →
    m'.kind = m.kind ∧ m'.pmax = m.pmax ∧ m'.precFileNum = m.precFileNum ∧ m'.precPos = m.precPos
  | [], m, d, m', d', h => by
    simp only [List.foldlM_nil] at h
    cases h
    exact ⟨rfl, rfl, rfl, rfl⟩
  | r :: recs, m, d, m', d', h => by
    rw [List.foldlM_cons] at h
    cases hs : pstepMh (m, d) r with
    | none => rw [hs] at h; cases h
    | some md =>
      obtain ⟨m1, d1⟩ := md
      rw [hs] at h
      have h' : recs.foldlM pstepMh (m1, d1) = some (m', d') := h
      obtain ⟨a1, a2, a3, a4⟩ := pfold_alloc recs m1 d1 m' d' h'
      have hm1 : m1.kind = m.kind ∧ m1.pmax = m.pmax ∧ m1.precFileNum = m.precFileNum ∧
          m1.precPos = m.precPos := by
        unfold pstepMh at hs
        simp only at hs
        split at hs
        · cases hs
        · simp only [Option.some.injEq, Prod.mk.injEq] at hs
          obtain ⟨rfl, _⟩ := hs
          exact ⟨rfl, rfl, rfl, rfl⟩
      exact ⟨a1.trans hm1.1, a2.trans hm1.2.1, a3.trans hm1.2.2.1, a4.trans hm1.2.2.2⟩

theorem priFlush_below {m m1 : Mem} {d d1 : Disk} (hk : m.kind = .mh)
    (h : priFlush m d = some (m1, d1)) (blk : Block) : Below m1 blk ↔ Below m blk := by
  by_cases hne : m.pnext.isEmpty = true
  · rw [priFlush_empty hne] at h
    simp only [Option.some.injEq, Prod.mk.injEq] at h
    rw [← h.1]
  · have hne' : m.pnext.isEmpty = false := by simpa using hne
    rw [priFlush_mh_eq hk hne'] at h
    obtain ⟨a1, a2, a3, a4⟩ := pfold_alloc _ _ _ _ _ h
    unfold Below
    rw [a1, a2, a3, a4]

/-- a change that keeps the allocator, the record lists and — up to order — what is recorded -/
theorem rel_frame {cfg : Cfg} {m m' : Mem} {d d' : Disk}
    (hnd : (recordedG ⟨cfg, m, d⟩).Nodup)
    (hb : ∀ blk, Below m blk → Below m' blk)
    (hR : ∀ b, idxRecords m' d' b = idxRecords m d b)
    (hp : (recordedG ⟨cfg, m', d'⟩).Perm (recordedG ⟨cfg, m, d⟩)) : Rel cfg m d m' d' := by
  refine ⟨hb, ?_, ?_, hp.nodup_iff.mpr hnd⟩
  · intro blk hblk
    left
    unfold IsEnt at hblk ⊢
    simp only [hR] at hblk
    exact hblk
  · intro b hbm
    exact Or.inl (hp.mem_iff.mp hbm)

section
variable {c : Cfg} {U : List (Bytes × Bytes)} {cfg : Cfg} {m : Mem} {d : Disk} {spec : Spec}
  {n B pf : Nat} {psp : Nat → List GSpan}

/-- the freelist flush permutes what is recorded -/
theorem flFlush_perm (hS : GState c U cfg m d spec n B pf psp) :
    (recordedG ⟨cfg, (flFlush m d).1, (flFlush m d).2⟩).Perm (recordedG ⟨cfg, m, d⟩) := by
  have hshape : flFlush m d = (m, d) ∨ flFlush m d = ({ m with flpool := [] },
      { d with free := some (d.free.getD [] ++ m.flpool.flatMap blockBytes) }) := by
    unfold flFlush
    split
    · exact Or.inl rfl
    · exact Or.inr rfl
  rcases hshape with e | e
  · rw [e]
  · rw [e]
    have hfe := flEntries_append hS.fl
    unfold recordedG
    simp only
    rw [hfe]
    have h2 : flGcEntries ({ d with free := some (d.free.getD [] ++ m.flpool.flatMap blockBytes) } : Disk) =
        flGcEntries d := rfl
    rw [h2, List.append_nil, List.append_assoc, List.append_assoc]
    exact List.Perm.append_left _ List.perm_append_comm

/-- Store.Flush -/
theorem flush_rel (hU : Univ c.kind U) (hS : HState c U cfg m d spec n B pf psp)
    (hnd : (recordedG ⟨cfg, m, d⟩).Nodup) (hn : n < 1073741824) (hB : B < two31)
    (order : List Nat) {m' : Mem} {d' : Disk}
    (hf : storeFlush m d (fixOrder order m.inext.keys) = some (m', d')) : Rel cfg m d m' d' := by
  have hG := hS.gs.g
  by_cases hout : outstanding m = true
  · obtain ⟨m1, d1, psp1, p1, hS1, hp1, hi1, q3, _, _, q7, q8, _, _, _, q11⟩ := priFlush_h hU hS hn
    obtain ⟨f1, f2⟩ := fixOrder_ok order m.inext
    obtain ⟨m2, d2, i1, hG2, hin, a1, a2, a3, _, b1, b2, _, b4, b5, b6, _⟩ :=
      idxFlush_g (s := ⟨cfg, m1, d1⟩) hU hS1.gs.g hn hB
        (order := fixOrder order m.inext.keys) (by rw [hi1]; exact f1) (by rw [hi1]; exact f2)
    have hS2 : HState c U cfg m2 d2 spec n B pf psp1 := hS1.frame hG2 a1 a2 a3 b1 b2 b4 b5 b6
    -- the shape of the index flush: only index fields change
    have hU' := hS1.gs.g.univ hU
    obtain ⟨ic, fn, len, bk, files, j1, _, _, _⟩ := idxFlush_ok (m := m1) (d := d1)
      (order := fixOrder order m.inext.keys) hS1.gs.g.i
      (fun b => by obtain ⟨orl, h1, _⟩ := hS1.gs.g.a.recs b; exact ⟨orl, h1⟩)
      (inext_flushOK (m := m1) (d := d1) hU' hS1.gs.g.bits31 hS1.gs.g.a hS1.gs.g.w hB)
      (by rw [hi1]; exact f1) (by
        have : m1.ifileNum + m1.inext.length ≤ n := hS1.gs.g.cntI
        have e : (fixOrder order m.inext.keys).length = m1.inext.length := by rw [hi1]; exact f2
        unfold two32; omega)
    have hm2 : m2 = ifl m1 ic fn len bk := by
      have : (m2, d2) = (ifl m1 ic fn len bk, difl d1 files) := by rw [← i1, ← j1]
      exact (Prod.mk.inj this).1
    have hbel2 : ∀ blk, Below m2 blk ↔ Below m1 blk := by
      intro blk; rw [hm2]; exact Iff.rfl
    have hres : (m', d') = flFlush m2 d2 := by
      unfold storeFlush commit at hf
      rw [if_pos hout] at hf
      simp only [p1, i1, Option.some.injEq] at hf
      exact hf.symm
    have hm' : m' = (flFlush m2 d2).1 := (Prod.mk.inj hres).1
    have hd' : d' = (flFlush m2 d2).2 := (Prod.mk.inj hres).2
    have hbel3 : ∀ blk, Below (flFlush m2 d2).1 blk ↔ Below m2 blk := by
      intro blk
      unfold flFlush
      split <;> exact Iff.rfl
    have hidx3 : ∀ b, idxRecords (flFlush m2 d2).1 (flFlush m2 d2).2 b = idxRecords m2 d2 b := by
      intro b
      unfold flFlush
      split <;> rfl
    rw [hm', hd']
    apply rel_frame hnd
    · intro blk hb
      exact (hbel3 blk).mpr ((hbel2 blk).mpr ((priFlush_below hG.kind p1 blk).mpr hb))
    · intro b
      rw [hidx3, b6]
      exact q11 b
    · refine (flFlush_perm hS2.gs).trans ?_
      have e1 : recordedG ⟨cfg, m2, d2⟩ = recordedG ⟨cfg, m1, d1⟩ := recordedG_congr b1 b2 a2
      have e2 : recordedG ⟨cfg, m1, d1⟩ = recordedG ⟨cfg, m, d⟩ := recordedG_congr q7 q8 q3
      rw [e1, e2]
  · unfold storeFlush at hf
    rw [if_neg hout] at hf
    simp only [Option.some.injEq, Prod.mk.injEq] at hf
    obtain ⟨rfl, rfl⟩ := hf
    exact Rel.refl hnd

end

end Sth.C13X
