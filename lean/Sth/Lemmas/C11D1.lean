import Sth.Props.C13H

/-!
C11 P3 by induction (1): reapRecords with what it records exposed — the old locations of the record
spans it relocates, the last two of the file when the file is low-use (`reapRecords_y` follows
`reapRecords_x` of Sth/Lemmas/C13X6.lean).  Core Lean only.
-/

namespace Sth.C11D

open Sth.C11 Sth.C13H Sth.C13X

section
variable {c : Cfg} {U : List (Bytes × Bytes)} {cfg : Cfg} {m : Mem} {d : Disk} {spec : Spec}
  {k B pf : Nat} {psp : Nat → List GSpan}

/-- reapRecords on a closed file keeps the state description and coverage -/
theorem reapRecords_y (hU : Univ c.kind U) (hS : HState c U cfg m d spec k B pf psp)
    (hk : k + 2 < 1073741824) {nn : Nat} (h1 : pf ≤ nn) (h2 : nn < m.pfileNum) (lowUse : Nat)
    (hnd : (recordedG ⟨cfg, m, d⟩).Nodup) (hLI : C13X.LInv cfg m d psp nn) :
    ∃ k' psp', HState c U cfg (reapRecords m d nn lowUse).2.1 (reapRecords m d nn lowUse).2.2.1 spec k' B
        pf psp' ∧
      Rel cfg m d (reapRecords m d nn lowUse).2.1 (reapRecords m d nn lowUse).2.2.1 ∧
      C13X.LInv cfg (reapRecords m d nn lowUse).2.1 (reapRecords m d nn lowUse).2.2.1 psp' (nn + 1) ∧
      k' ≤ k + 2 ∧
      (reapRecords m d nn lowUse).2.1.pfileNum = m.pfileNum ∧
      (reapRecords m d nn lowUse).2.1.pmax = m.pmax ∧
      (reapRecords m d nn lowUse).2.1.visited = m.visited ∧
      ((reapRecords m d nn lowUse).1 = .dead → liveAt 0 (psp' nn) = []) ∧
      ∃ Rl : List (Nat × Bytes),
        recordedG ⟨cfg, (reapRecords m d nn lowUse).2.1, (reapRecords m d nn lowUse).2.2.1⟩ =
          recordedG ⟨cfg, m, d⟩ ++ Rl.map (spanBlk m.pmax nn) ∧
        liveAt 0 (psp' nn) = liveAt 0 (psp nn) ∧
        ((∃ x ∈ liveAt 0 (psp nn), ¬ RecSpan x.2) ∨
          (Rl = [] ∧ (liveAt 0 (psp nn) = [] ∨ ¬ LowUse (gbytes (psp nn)) lowUse)) ∨
          ((reapRecords m d nn lowUse).1 = .kept ∧ ∃ pre, liveAt 0 (psp nn) = pre ++ Rl.reverse ∧
            Rl.length = min 2 (liveAt 0 (psp nn)).length)) := by
  have hfile : d.pfiles.get? nn = some (gbytes (psp nn)) := hS.gs.log.files nn h1 (by omega)
  have hLU : LowUse (gbytes (psp nn)) lowUse ↔
      100 * (reapPriLoop ((gbytes (psp nn)).length + 2) { file := gbytes (psp nn) }).totalFree ≥
        lowUse * ((reapPriLoop ((gbytes (psp nn)).length + 2) { file := gbytes (psp nn) }).totalFree +
          (reapPriLoop ((gbytes (psp nn)).length + 2) { file := gbytes (psp nn) }).totalBusy) := Iff.rfl
  unfold reapRecords
  rw [hfile]
  simp only
  by_cases hemp : (gbytes (psp nn)).isEmpty = true
  · rw [if_pos hemp]
    have hnil : psp nn = [] := gbytes_eq_nil (List.isEmpty_iff.mp hemp)
    refine ⟨k, psp, hS, Rel.refl hnd, hLI.succ, by omega, rfl, rfl, rfl, (fun _ => by rw [hnil]; rfl),
      [], (by simp), rfl, Or.inr (Or.inl ⟨rfl, Or.inl (by rw [hnil]; rfl)⟩)⟩
  rw [if_neg hemp]
  obtain ⟨ss', hf', hR, hL, hdead⟩ := reapFile_ok (psp nn) (hS.gs.log.ok nn h1 (by omega))
  generalize reapPriLoop ((gbytes (psp nn)).length + 2) { file := gbytes (psp nn) } = st at hf' hL hdead hLU ⊢
  have hfw : (if st.freeAt > st.busyAt then
        (truncateTo st.file st.freeAt.toNat, st.freeAtSize, decide (st.freeAt = 0))
      else (st.file, 0, false)) =
      (gbytes ss', (if st.freeAt > st.busyAt then st.freeAtSize else 0),
        (if st.freeAt > st.busyAt then decide (st.freeAt = 0) else false)) := by
    by_cases hc : st.freeAt > st.busyAt
    · rw [if_pos hc] at hf'; simp only [if_pos hc, hf']
    · rw [if_neg hc] at hf'; simp only [if_neg hc, hf']
  rw [hfw]
  simp only
  -- the state after the file is written back
  obtain ⟨l1, l2, l3⟩ := reap_step hS.gs.log h1 h2 hR
  have hne : nn ≠ m.pfileNum := by omega
  obtain ⟨g1, g2, g3⟩ := ginv_disk_step (d' := { d with pfiles := d.pfiles.set nn (gbytes ss') })
    hS.gs.g (by omega) hS.gs.log hS.gs.ent hS.gs.fl rfl rfl rfl rfl hS.gs.hdr l1
    (fun blk body _ ho => l2 blk body ho) (fun fb hfb => l3 fb hfb.2.2.1)
    (by
      show (fileOf (d.pfiles.set nn (gbytes ss')) m.pfileNum).length = m.plength
      unfold fileOf
      rw [NMap.get?_set_ne _ _ (Ne.symm hne)]
      exact hS.gs.g.plen)
    (by
      intro f hf
      show (d.pfiles.set nn (gbytes ss')).get? f = none
      rw [NMap.get?_set_ne _ _ (by omega)]
      exact hS.gs.g.pno f hf)
  have hpn : (fun f => if f = nn then ss' else psp f) nn = ss' := by simp
  have hS1 : HState c U cfg m { d with pfiles := d.pfiles.set nn (gbytes ss') } spec k B pf
      (fun f => if f = nn then ss' else psp f) := by
    refine ⟨⟨g1, hS.gs.hdr, l1, g2, g3⟩, ?_⟩
    apply hS.cov.transfer' (cfg' := cfg) (m' := m)
      (d' := { d with pfiles := d.pfiles.set nn (gbytes ss') }) (pf' := pf)
      (psp' := fun f => if f = nn then ss' else psp f) rfl
    · intro g a b x hx
      left
      refine ⟨a, b, ?_⟩
      by_cases hg : g = nn
      · subst hg
        simp only [if_true] at hx
        rw [← hR.live]; exact hx
      · simp only [hg, if_false] at hx; exact hx
    · intro r hr
      exact Or.inl hr
    · intro blk hc
      rcases hc with hc | hc
      · exact Or.inl hc
      · exact Or.inr hc
  have hrec1 : recordedG ⟨cfg, m, { d with pfiles := d.pfiles.set nn (gbytes ss') }⟩ =
      recordedG ⟨cfg, m, d⟩ := recordedG_congr rfl rfl rfl
  have hR1 : Rel cfg m d m { d with pfiles := d.pfiles.set nn (gbytes ss') } :=
    rel_frame hnd (fun _ h => h) (fun _ => rfl) (List.Perm.of_eq hrec1)
  have hnd1 : (recordedG ⟨cfg, m, { d with pfiles := d.pfiles.set nn (gbytes ss') }⟩).Nodup := by
    rw [hrec1]; exact hnd
  have hL1 : C13X.LInv cfg m { d with pfiles := d.pfiles.set nn (gbytes ss') }
      (fun f => if f = nn then ss' else psp f) nn := by
    intro b hb g a1 a2 x hx
    rw [hrec1] at hb
    by_cases hg : g = nn
    · subst hg
      simp only [if_true] at hx
      exact hLI b hb g a1 a2 x (by rw [← hR.live]; exact hx)
    · simp only [hg, if_false] at hx
      exact hLI b hb g a1 a2 x hx
  have hlv : liveAt 0 ((fun f => if f = nn then ss' else psp f) nn) = liveAt 0 (psp nn) := by
    simp only [if_true]; exact hR.live
  by_cases hdd : (if st.freeAt > st.busyAt then decide (st.freeAt = 0) else false) = true
  · rw [if_pos hdd]
    have hss : ss' = [] := by
      by_cases hc : st.freeAt > st.busyAt
      · rw [if_pos hc] at hdd
        exact hdead hc (of_decide_eq_true hdd)
      · rw [if_neg hc] at hdd; cases hdd
    have hl0 : liveAt 0 (psp nn) = [] := by rw [← hR.live, hss]; rfl
    refine ⟨k, _, hS1, hR1, hL1.succ, by omega, rfl, rfl, rfl, (fun _ => by rw [hlv, hl0]),
      [], (by rw [hrec1]; simp), hlv, Or.inr (Or.inl ⟨rfl, Or.inl hl0⟩)⟩
  rw [if_neg hdd]
  by_cases hb1 : st.busyAt = -1
  · rw [if_pos hb1]
    have hl0 : liveAt 0 (psp nn) = [] := by
      rcases hL with ⟨_, hnil⟩ | ⟨pre, off, body, _, hba, _⟩
      · rw [← hR.live]; exact hnil
      · rw [hba] at hb1; omega
    exact ⟨k, _, hS1, hR1, hL1.succ, by omega, rfl, rfl, rfl, (fun h => by cases h),
      [], (by rw [hrec1]; simp), hlv, Or.inr (Or.inl ⟨rfl, Or.inl hl0⟩)⟩
  rw [if_neg hb1]
  by_cases hlow : ¬ 100 * st.totalFree ≥ lowUse * (st.totalFree + st.totalBusy)
  · rw [if_neg hlow]
    exact ⟨k, _, hS1, hR1, hL1.succ, by omega, rfl, rfl, rfl, (fun h => by cases h),
      [], (by rw [hrec1]; simp), hlv, Or.inr (Or.inl ⟨rfl, Or.inr (fun hc => hlow (hLU.mp hc))⟩)⟩
  rw [if_pos (Classical.not_not.mp hlow)]
  rcases hL with ⟨hb, _⟩ | ⟨pre, off, body, hl, hba, hbs, hprev⟩
  · exact absurd hb hb1
  have hx : (off, body) ∈ liveAt 0 ((fun f => if f = nn then ss' else psp f) nn) := by
    rw [hpn, hl]; simp
  have hoff : st.busyAt.toNat = off := by rw [hba]; rfl
  rw [hoff, hbs]
  cases hr1 : relocate m { d with pfiles := d.pfiles.set nn (gbytes ss') } nn (gbytes ss') off body.length with
  | none =>
    refine ⟨k, _, hS1, hR1, hL1.succ, by omega, rfl, rfl, rfl, (fun h => by cases h),
      [], (by rw [hrec1]; simp), hlv, Or.inl ⟨(off, body), (by rw [← hR.live, hl]; simp), ?_⟩⟩
    intro hrs
    have hb31 : body.length < two31 := by
      have hx0 : (off, body) ∈ liveAt 0 ss' := by rw [hl]; simp
      obtain ⟨a, b, e, _⟩ := liveAt_split ss' 0 off body hx0
      exact hR.ok ⟨false, body⟩ (by rw [e]; simp)
    have hx9 : (off, body) ∈ liveAt 0 ss' := by rw [hl]; simp
    obtain ⟨m9, h9⟩ := relocate_some m { d with pfiles := d.pfiles.set nn (gbytes ss') } nn
      (ss := ss') hx9 hb31 hrs
    rw [hr1] at h9; cases h9
  | some m1 =>
    simp only
    have hr1' : relocate m { d with pfiles := d.pfiles.set nn (gbytes ss') } nn
        (gbytes ((fun f => if f = nn then ss' else psp f) nn)) off body.length = some m1 := by
      rw [hpn]; exact hr1
    obtain ⟨hS2, e1, e2, e3⟩ := relocate_h hU hS1 (by omega) h1 h2 hx hr1'
    -- the relocated span is an index entry's record: it is covered and not recorded
    have hcur1 : IsEnt m { d with pfiles := d.pfiles.set nn (gbytes ss') }
        ⟨m.pmax * nn + off, body.length⟩ := by
      rcases hS1.cov.span nn h1 (Nat.le_of_lt h2) (off, body) hx with h | h
      · exact h
      · exact absurd rfl (hL1 _ h nn (Nat.le_refl _) h2 (off, body) hx)
    obtain ⟨hR2, hrec2⟩ := relocate_rel hU hS1 hnd1 (by omega) h1 h2 hx hr1' hcur1
    have hL2 : ∀ g', C13X.LInv cfg m1 { d with pfiles := d.pfiles.set nn (gbytes ss') }
        (fun f => if f = nn then ss' else psp f) g' → True := fun _ _ => trivial
    have hL2' : ∀ b ∈ recordedG ⟨cfg, m1, { d with pfiles := d.pfiles.set nn (gbytes ss') }⟩,
        b ∈ recordedG ⟨cfg, m, { d with pfiles := d.pfiles.set nn (gbytes ss') }⟩ ∨
          b = ⟨m.pmax * nn + off, body.length⟩ := by
      intro b hb
      rw [hrec2, List.mem_append, List.mem_singleton] at hb
      exact hb
    have hLn1 : C13X.LInv cfg m1 { d with pfiles := d.pfiles.set nn (gbytes ss') }
        (fun f => if f = nn then ss' else psp f) (nn + 1) := by
      intro b hb g g1 g2 x hx'
      have g2' : g < m.pfileNum := by rw [← e1]; exact g2
      rw [e2]
      rcases hL2' b hb with h | h
      · exact hL1 b h g (by omega) g2' x hx'
      · rw [h]
        intro hc
        have hoff : m.pmax * g + x.1 = m.pmax * nn + off := congrArg Block.off hc
        have := divmod_unique hoff (hS1.gs.log.starts g (by omega) (Nat.le_of_lt g2') x hx')
          (hS1.gs.log.starts nn h1 (Nat.le_of_lt h2) (off, body) hx)
        omega
    rcases hprev with ⟨hp, _⟩ | ⟨pre', off', body', hl', hpa, hps⟩
    · have : ¬ st.prevBusyAt ≥ 0 := by rw [hp]; decide
      rw [if_neg this]
      have hpre0 : pre = [] := by rename_i hpq; exact hpq
      exact ⟨k + 1, _, hS2, hR1.trans hR2, hLn1, by omega, e1, e2, e3, (fun h => by cases h),
        [(off, body)], (by rw [hrec2, hrec1]; rfl), hlv,
        Or.inr (Or.inr ⟨rfl, [], (by rw [← hR.live, hl, hpre0]; rfl), (by rw [← hR.live, hl, hpre0]; rfl)⟩)⟩
    · have : st.prevBusyAt ≥ 0 := by rw [hpa]; exact Int.natCast_nonneg _
      rw [if_pos this]
      have hoff' : st.prevBusyAt.toNat = off' := by rw [hpa]; rfl
      rw [hoff', hps]
      have hx' : (off', body') ∈ liveAt 0 ((fun f => if f = nn then ss' else psp f) nn) := by
        rw [hpn, hl, hl']; simp
      cases hr2 : relocate m1 { d with pfiles := d.pfiles.set nn (gbytes ss') } nn (gbytes ss') off'
          body'.length with
      | none =>
        refine ⟨k + 1, _, hS2, hR1.trans hR2, hLn1, by omega, e1, e2, e3, (fun h => by cases h),
          [(off, body)], (by rw [hrec2, hrec1]; rfl), hlv,
          Or.inl ⟨(off', body'), (by rw [← hR.live, hl, hl']; simp), ?_⟩⟩
        intro hrs
        have hx0' : (off', body') ∈ liveAt 0 ss' := by rw [hl, hl']; simp
        have hb31 : body'.length < two31 := by
          obtain ⟨a, b, e, _⟩ := liveAt_split ss' 0 off' body' hx0'
          exact hR.ok ⟨false, body'⟩ (by rw [e]; simp)
        obtain ⟨m9, h9⟩ := relocate_some m1 { d with pfiles := d.pfiles.set nn (gbytes ss') } nn
          (ss := ss') hx0' hb31 hrs
        rw [hr2] at h9; cases h9
      | some m2 =>
        simp only
        have hr2' : relocate m1 { d with pfiles := d.pfiles.set nn (gbytes ss') } nn
            (gbytes ((fun f => if f = nn then ss' else psp f) nn)) off' body'.length = some m2 := by
          rw [hpn]; exact hr2
        obtain ⟨hS3, e1', e2', e3'⟩ := relocate_h hU hS2 (by omega) h1 (by omega) hx' hr2'
        have h2m1 : nn < m1.pfileNum := by rw [e1]; exact h2
        have hoffne : off' ≠ off := by
          -- two different positions of the strictly increasing list of record spans
          have hs := liveAt_sorted ss' 0
          rw [hl, hl'] at hs
          intro hc
          have := pairwise_last_two hs
          omega
        have hcur2 : IsEnt m1 { d with pfiles := d.pfiles.set nn (gbytes ss') }
            ⟨m1.pmax * nn + off', body'.length⟩ := by
          rcases hS2.cov.span nn h1 (Nat.le_of_lt h2m1) (off', body') hx' with h | h
          · exact h
          · exfalso
            have h' : (⟨m1.pmax * nn + off', body'.length⟩ : Block) ∈
                recordedG ⟨cfg, m1, { d with pfiles := d.pfiles.set nn (gbytes ss') }⟩ := h
            rw [e2] at h'
            rcases hL2' _ h' with h3 | h3
            · exact hL1 _ h3 nn (Nat.le_refl _) h2 (off', body') hx' rfl
            · have : m.pmax * nn + off' = m.pmax * nn + off := congrArg Block.off h3
              omega
        obtain ⟨hR3, hrec3⟩ := relocate_rel hU hS2 hR2.nodup (by omega) h1 h2m1 hx' hr2' hcur2
        have hLn2 : C13X.LInv cfg m2 { d with pfiles := d.pfiles.set nn (gbytes ss') }
            (fun f => if f = nn then ss' else psp f) (nn + 1) := by
          intro b hb g g1 g2 x hx''
          have g2' : g < m1.pfileNum := by rw [← e1']; exact g2
          rw [e2']
          rw [hrec3, List.mem_append, List.mem_singleton] at hb
          rcases hb with h | h
          · have := hLn1 b h g g1 g2' x hx''
            exact this
          · rw [h]
            intro hc
            have hoff : m1.pmax * g + x.1 = m1.pmax * nn + off' := congrArg Block.off hc
            have := divmod_unique hoff
              (hS2.gs.log.starts g (by omega) (Nat.le_of_lt g2') x hx'')
              (hS2.gs.log.starts nn h1 (Nat.le_of_lt h2m1) (off', body') hx')
            omega
        exact ⟨k + 1 + 1, _, hS3, (hR1.trans hR2).trans hR3, hLn2, by omega, by rw [e1', e1],
          by rw [e2', e2], by rw [e3', e3], (fun h => by cases h),
          [(off, body), (off', body')], (by rw [hrec3, hrec2, hrec1, e2]; simp [spanBlk]), hlv,
          Or.inr (Or.inr ⟨trivial, pre', (by rw [← hR.live, hl, hl']; simp),
            (by rw [← hR.live, hl, hl']; simp)⟩)⟩

end

end Sth.C11D
