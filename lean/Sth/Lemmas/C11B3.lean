import Sth.Lemmas.C11B2

/-!
C11 Q3c (3): the size invariant through the calls other than the primary GC cycle.  Core Lean only.
-/

namespace Sth.C11B

open Sth.C11 Sth.C13H Sth.C13X Sth.C11D

theorem stepS_put (s : SState) (k v : Bytes) :
    (stepS s (.put k v)).1 = { s with m := (storePut s.m s.d k v).1 } := by
  simp only [stepS]
  cases storePut s.m s.d k v with
  | mk m r => cases r <;> rfl

theorem stepS_rm (s : SState) (k : Bytes) :
    (stepS s (.rm k)).1 = { s with m := (storeRemove s.m s.d k).1 } := by
  simp only [stepS]
  cases storeRemove s.m s.d k with
  | mk m r => cases r <;> rfl

section
variable {c : Cfg} {U : List (Bytes × Bytes)} {cfg : Cfg} {m : Mem} {d : Disk} {spec : Spec}
  {n B pf R : Nat} {psp : Nat → List GSpan}

/-- Put: at most one record is pooled, the one put -/
theorem put_b (hI : BInv R m d) (k v : Bytes) (hkv : k.length + v.length ≤ R) :
    BInv R (storePut m d k v).1 d := by
  obtain ⟨h1, h2, h3, h4⟩ := storePut_pf m d k v
  refine ⟨?_, hI.sz, fun g => by rw [h2]; exact hI.fl g, ?_⟩
  · intro r hr
    rcases h4 with h4 | ⟨blk, h4⟩
    · rw [h4] at hr; exact hI.pz r hr
    · rw [h4, List.mem_append, List.mem_singleton] at hr
      rcases hr with hr | rfl
      · exact hI.pz r hr
      · exact hkv
  · intro f hf
    rw [h1] at hf
    rw [h3]
    exact hI.vs f hf

theorem rm_b (hI : BInv R m d) (k : Bytes) : BInv R (storeRemove m d k).1 d := by
  obtain ⟨h1, h2, h3, h4⟩ := storeRemove_pf m d k
  exact hI.congr h1 h2 h3 h4 rfl

/-- Store.Flush -/
theorem flush_b (hU : Univ c.kind U) (hS : HState c U cfg m d spec n B pf psp)
    (hn : n < 1073741824) (hB : B < two31) (order : List Nat) (hI : BInv R m d) {m' : Mem} {d' : Disk}
    (hf : storeFlush m d (fixOrder order m.inext.keys) = some (m', d')) : BInv R m' d' := by
  by_cases hout : outstanding m = true
  · obtain ⟨m1, d1, psp1, p1, hS1, hp1, hi1, _⟩ := priFlush_h hU hS hn
    have hI1 := priFlush_b hU hS hn hI p1
    obtain ⟨f1, f2⟩ := fixOrder_ok order m.inext
    obtain ⟨m2, d2, i1, hG2, hin, a1, a2, a3, a4, b1, b2, _, b4, b5, b6, _⟩ :=
      idxFlush_g (s := ⟨cfg, m1, d1⟩) hU hS1.gs.g hn hB
        (order := fixOrder order m.inext.keys) (by rw [hi1]; exact f1) (by rw [hi1]; exact f2)
    have hS2 : HState c U cfg m2 d2 spec n B pf psp1 := hS1.frame hG2 a1 a2 a3 b1 b2 b4 b5 b6
    have hpn2 : m2.pfileNum = m1.pfileNum := pfileNum_unique hS1.gs hS2.gs b5
    have hI2 : BInv R m2 d2 := hI1.congr a1 a4 a3 hpn2 b5
    have hfl : ∀ (x : Mem × Disk), x = flFlush m2 d2 →
        x.1.pnext = m2.pnext ∧ x.1.visited = m2.visited ∧ x.1.pmax = m2.pmax ∧
        x.1.pfileNum = m2.pfileNum ∧ x.2.pfiles = d2.pfiles := by
      intro x hx
      rw [hx]
      unfold flFlush
      split
      · exact ⟨rfl, rfl, rfl, rfl, rfl⟩
      · exact ⟨rfl, rfl, rfl, rfl, rfl⟩
    obtain ⟨c1, c2, c3, c4, c5⟩ := hfl _ rfl
    have e : storeFlush m d (fixOrder order m.inext.keys) = some (flFlush m2 d2) := by
      unfold storeFlush commit
      rw [if_pos hout]
      simp only [p1, i1]
    rw [e] at hf
    simp only [Option.some.injEq] at hf
    have e1 : m' = (flFlush m2 d2).1 := by rw [hf]
    have e2 : d' = (flFlush m2 d2).2 := by rw [hf]
    rw [e1, e2]
    exact hI2.congr c1 c2 c3 c4 c5
  · have e : storeFlush m d (fixOrder order m.inext.keys) = some (m, d) := by
      unfold storeFlush; rw [if_neg hout]
    rw [e] at hf
    simp only [Option.some.injEq, Prod.mk.injEq] at hf
    obtain ⟨rfl, rfl⟩ := hf
    exact hI

end

section
variable {c : Cfg} {U : List (Bytes × Bytes)} {s : SState} {spec : Spec} {n B R : Nat}

/-- an index GC cycle does not touch the primary -/
theorem igc_b {pf : Nat} {psp : Nat → List GSpan}
    (hS : HState c U s.cfg s.m s.d spec n B pf psp) (hn : n < 1073741824)
    (scanFree : Bool) (budget : Budget) (hI : BInv R s.m s.d) :
    BInv R (stepS s (.igc scanFree budget)).1.m (stepS s (.igc scanFree budget)).1.d := by
  have hG : GInv c U s spec n B := hS.gs.g
  obtain ⟨g, d', e, hG'⟩ := step_igc_g hG hn scanFree budget
  have hd : d' = (indexGC s.m s.d scanFree budget).2.2.1 := by
    have := congrArg (fun x => x.1.d) e
    simp only at this
    rw [← this]
    rfl
  obtain ⟨first, sp, hih, hl⟩ := hG.y.ilog
  have hp1 : 1 ≤ s.m.imax := hG.i.imax
  have hN : s.m.ifileNum < two32 := by
    have := hG.cntI
    unfold two32; omega
  have hG0 : GI s.m s.d s.d c.bits c.ifs (hdrPfs c) :=
    ⟨⟨first, sp, hih, hl⟩, fun _ => rfl, hG.i.noFiles, rfl, rfl, rfl, rfl, rfl, rfl, rfl⟩
  obtain ⟨hGI, _, _⟩ := indexGC_ok hp1 hN hG0 scanFree budget
  rw [← hd] at hGI
  obtain ⟨f1, _⟩ := hGI.frame
  rw [e]
  exact hI.congr rfl rfl rfl rfl f1

/-- Close + reopen: everything pooled is written, the visited set starts empty -/
theorem reopen_b {pf : Nat} {psp : Nat → List GSpan} (hc : c.Legal) (hU : Univ c.kind U)
    (hS : HState c U s.cfg s.m s.d spec n B pf psp) (hn : n < 1073741824) (hB : B < two31)
    (order : List Nat) (us : Bool) (hI : BInv R s.m s.d) :
    BInv R (stepS s (.reopen order us)).1.m (stepS s (.reopen order us)).1.d := by
  have hG : GInv c U s spec n B := hS.gs.g
  obtain ⟨m1, d1, psp1, p1, hS1, hp1, hi1, _⟩ := priFlush_h hU hS hn
  have hI1 := priFlush_b hU hS hn hI p1
  have hG1 := hS1.gs.g
  obtain ⟨f1, f2⟩ := fixOrder_ok order s.m.inext
  obtain ⟨m2, d2, i1, hG2, hin, a1, a2, a3, a4, b1, b2, _, b4, b5, b6, _⟩ :=
    idxFlush_g (s := ⟨s.cfg, m1, d1⟩) hU hG1 hn hB
      (order := fixOrder order s.m.inext.keys) (by rw [hi1]; exact f1) (by rw [hi1]; exact f2)
  have hS2 : HState c U s.cfg m2 d2 spec n B pf psp1 := hS1.frame hG2 a1 a2 a3 b1 b2 b4 b5 b6
  have hpn2 : m2.pfileNum = m1.pfileNum := pfileNum_unique hS1.gs hS2.gs b5
  have hI2 : BInv R m2 d2 := hI1.congr a1 a4 a3 hpn2 b5
  have hpn : m2.pnext = [] := by rw [a1]; exact hp1
  obtain ⟨fr, hcl, hfr⟩ := storeClose_eq4 p1 i1
  have hcfg : s.cfg = c := hG.y.cfg
  have hkind : m2.kind = c.kind := by have : m2.kind = .mh := hG2.kind; rw [this, hG.kmh]
  obtain ⟨first, sp, hih, hl⟩ := hG2.y.ilog
  have hbits : m2.bits = c.bits := hG2.y.bits
  have himax : m2.imax = c.ifs := hG2.y.imax
  have hl' : IdxLogT c.bits c.ifs m2.ifileNum d2.ifiles (tbl m2) first sp := by
    have : IdxLogT m2.bits m2.imax m2.ifileNum d2.ifiles (tbl m2) first sp := hl
    rw [hbits, himax] at this; exact this
  obtain ⟨pf0, q1, q2, q3⟩ := hG2.y.phdr hG.kmh
  have halloc : m2.pfileNum = m2.precFileNum ∧ m2.plength = m2.precPos := by
    have := hG2.alloc
    have e : m2.pnext = [] := hpn
    simp only [e] at this
    exact this
  obtain ⟨m', d', o1, hr, o2, o3, o4⟩ := open_after_close hc (m2 := m2) (d2 := d2) fr us hkind hG2.imm
    hbits himax hG2.y.pmax hih hl' (hG2.i.noFiles _ (by show m2.ifileNum < m2.ifileNum + 1; omega))
    hG2.i.sorted (fun _ => q1) (fun _ => q2) (fun _ => q3)
    (fun _ => hG2.pno _ (by show m2.pfileNum < m2.pfileNum + 1; omega)) (fun _ => halloc)
    (fun _ => hG2.plen) (fun hk => by have : m2.kind = .mh := hG2.kind; rw [this] at hk; cases hk)
  have hvis : m'.visited = [] := openStore_visited o1
  have e : stepS s (.reopen order us) = (⟨s.cfg, m', d'⟩, .gc) := by
    unfold stepS; simp only [hcl, hcfg, o1]
  rw [e]
  have hk2 : m2.kind = .mh := hG2.kind
  refine ⟨(by show ∀ r ∈ m'.pnext, psz r ≤ R; rw [hr.pnext]; intro r h; cases h), ?_, ?_, ?_⟩
  · intro g x hx
    apply hI2.sz g x
    unfold lv at hx ⊢
    rw [← hr.pfiles]; exact hx
  · intro g
    show (fileOf d'.pfiles g).length < m'.pmax + 4 + R
    rw [hr.pfiles, hr.pmax]
    exact hI2.fl g
  · intro f hf
    have hf' : f ∈ m'.visited := hf
    rw [hvis] at hf'
    cases hf'

end

end Sth.C11B
