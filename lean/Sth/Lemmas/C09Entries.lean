/-
C09 — what `translateIndex` collects when it iterates the old index: every live entry exactly once.
Core Lean only.
-/
import Sth.Lemmas.C09Pool

namespace Sth.C09

/-- the fold body of the iteration over the old bucket table -/
def entStep (ifiles : NMap Bytes) (imax : Nat) : List Entry → Nat × Nat → Option (List Entry) :=
  fun acc (_, pos) =>
    match readDiskBucket ifiles imax pos with
    | .ok (some rl) => some (acc ++ rl)
    | .ok none => some acc
    | .error _ => none

/-- the entries one table entry contributes -/
def bucketList (ifiles : NMap Bytes) (imax : Nat) (x : Nat × Nat) : List Entry :=
  match readDiskBucket ifiles imax x.2 with
  | .ok (some rl) => rl
  | _ => []

theorem entFold_eq {ifiles : NMap Bytes} {imax : Nat} :
    ∀ (L : List (Nat × Nat)) (acc : List Entry),
      (∀ x ∈ L, ∃ o, readDiskBucket ifiles imax x.2 = .ok o) →
      L.foldlM (entStep ifiles imax) acc = some (acc ++ L.flatMap (bucketList ifiles imax))
  | [], acc, _ => by simp [List.foldlM]
  | x :: L, acc, h => by
    obtain ⟨o, ho⟩ := h x (by simp)
    obtain ⟨b, pos⟩ := x
    have hstep : entStep ifiles imax acc (b, pos) = some (acc ++ bucketList ifiles imax (b, pos)) := by
      simp only at ho
      unfold entStep bucketList
      simp only [ho]
      cases o with
      | none => simp
      | some rl => rfl
    rw [List.foldlM_cons, hstep]
    have := entFold_eq L (acc ++ bucketList ifiles imax (b, pos)) (fun y hy => h y (by simp [hy]))
    simp only [Option.bind_eq_bind, Option.bind_some]
    rw [this, List.flatMap_cons, List.append_assoc]

theorem sum_map_one {α : Type} : ∀ l : List α, (l.map (fun _ => 1)).sum = l.length
  | [] => rfl
  | _ :: l => by simp only [List.map_cons, List.sum_cons, List.length_cons, sum_map_one l]; omega

section
variable {U : List (Bytes × Bytes)} {m : Mem} {d : Disk} {spec : Spec}

/-- with empty pools a bucket is read from the disk at its table position -/
theorem idxRecords_nopool (hin : m.inext = []) (hic : m.icur = []) (b : Nat) :
    idxRecords m d b = readDiskBucket d.ifiles m.imax ((m.buckets.get? b).getD 0) := by
  unfold idxRecords
  rw [hin, hic]
  simp only [NMap.get?_nil]

theorem entries_ok (hU : Univ m.kind U) (h31 : m.bits ≤ 31) (hA : SInv U m d spec)
    (hs : NMap.Sorted m.buckets) (hin : m.inext = []) (hic : m.icur = []) :
    ∃ es, (m.buckets.filter (·.2 ≠ 0)).foldlM (entStep d.ifiles m.imax) [] = some es ∧
      (∀ e ∈ es, ∃ b0, BlockOK m.kind m.bits U (priGet m d) (Below m) spec b0 e.blk) ∧
      es.Pairwise (fun a b => dgOf m.kind (priGet m d) a.blk ≠ dgOf m.kind (priGet m d) b.blk) ∧
      (∀ dig key val, Spec.get spec dig = some (key, val) →
        ∃ e ∈ es, priGet m d e.blk = .got key val ∧ (key, dig) ∈ U) ∧
      es.length ≤ spec.length := by
  -- a table entry reads what the index reads for its bucket
  have hread : ∀ x ∈ m.buckets.filter (·.2 ≠ 0),
      readDiskBucket d.ifiles m.imax x.2 = idxRecords m d x.1 ∧ x.2 ≠ 0 := by
    intro x hx
    obtain ⟨hx1, hx2⟩ := List.mem_filter.mp hx
    have hg : m.buckets.get? x.1 = some x.2 := NMap.get?_of_mem_sorted hs hx1
    rw [idxRecords_nopool hin hic, hg]
    exact ⟨rfl, by simpa using hx2⟩
  have hmem : ∀ e, e ∈ (m.buckets.filter (·.2 ≠ 0)).flatMap (bucketList d.ifiles m.imax) →
      ∃ x ∈ m.buckets.filter (·.2 ≠ 0), ∃ rl, idxRecords m d x.1 = .ok (some rl) ∧ e ∈ rl := by
    intro e he
    obtain ⟨x, hx, hex⟩ := List.mem_flatMap.mp he
    refine ⟨x, hx, ?_⟩
    unfold bucketList at hex
    rw [(hread x hx).1] at hex
    obtain ⟨orl, h1, _⟩ := hA.recs x.1
    rw [h1] at hex ⊢
    cases orl with
    | none => cases hex
    | some rl => exact ⟨rl, rfl, hex⟩
  have hblk : ∀ e, e ∈ (m.buckets.filter (·.2 ≠ 0)).flatMap (bucketList d.ifiles m.imax) →
      ∃ b0, BlockOK m.kind m.bits U (priGet m d) (Below m) spec b0 e.blk := by
    intro e he
    obtain ⟨x, _, rl, h1, h2⟩ := hmem e he
    obtain ⟨orl, g1, _, g3⟩ := hA.recs x.1
    rw [h1] at g1
    cases g1
    exact ⟨x.1, g3 e h2⟩
  have hpw : ((m.buckets.filter (·.2 ≠ 0)).flatMap (bucketList d.ifiles m.imax)).Pairwise
      (fun a b => dgOf m.kind (priGet m d) a.blk ≠ dgOf m.kind (priGet m d) b.blk) := by
    rw [List.pairwise_flatMap]
    constructor
    · intro x hx
      unfold bucketList
      rw [(hread x hx).1]
      obtain ⟨orl, h1, h2, h3⟩ := hA.recs x.1
      rw [h1]
      cases orl with
      | none => exact List.Pairwise.nil
      | some rl =>
        simp only [Option.getD_some] at h2 h3 ⊢
        have hnd' := h2.distinctBlocks
        rw [List.nodup_iff_pairwise_ne, List.pairwise_map] at hnd'
        apply List.Pairwise.imp_of_mem _ hnd'
        intro a b ha hb hne heq
        obtain ⟨k1, v1, d1, a1, a2, _, _, a5⟩ := (h3 a ha).own hU h31
        obtain ⟨k2, v2, d2, b1, b2, _, _, b5⟩ := (h3 b hb).own hU h31
        rw [dgOf_got a1 (hU.dig a2).1, dgOf_got b1 (hU.dig b2).1] at heq
        subst heq
        exact hne (by rw [h2.owner_unique ha hb a5 b5])
    · have hs' : (m.buckets.filter (·.2 ≠ 0)).Pairwise (fun a b => a.1 < b.1) := by
        have := NMap.sorted_filter (fun x : Nat × Nat => decide (x.2 ≠ 0)) hs
        unfold NMap.Sorted at this
        rw [List.pairwise_map] at this
        exact this
      apply List.Pairwise.imp_of_mem _ hs'
      intro x y hx hy hxy a ha b hb heq
      have ha' : a ∈ (m.buckets.filter (·.2 ≠ 0)).flatMap (bucketList d.ifiles m.imax) :=
        List.mem_flatMap.mpr ⟨x, hx, ha⟩
      have hb' : b ∈ (m.buckets.filter (·.2 ≠ 0)).flatMap (bucketList d.ifiles m.imax) :=
        List.mem_flatMap.mpr ⟨y, hy, hb⟩
      -- the buckets of `a` and `b`
      have hbkt : ∀ (z : Nat × Nat) (e : Entry), z ∈ m.buckets.filter (·.2 ≠ 0) →
          e ∈ bucketList d.ifiles m.imax z →
          BlockOK m.kind m.bits U (priGet m d) (Below m) spec z.1 e.blk := by
        intro z e hz hez
        unfold bucketList at hez
        rw [(hread z hz).1] at hez
        obtain ⟨orl, h1, _, h3⟩ := hA.recs z.1
        rw [h1] at hez
        cases orl with
        | none => cases hez
        | some rl => exact h3 e hez
      obtain ⟨k1, v1, d1, a1, a2, a3, _, _⟩ := (hbkt x a hx ha).ex
      obtain ⟨k2, v2, d2, b1, b2, b3, _, _⟩ := (hbkt y b hy hb).ex
      rw [dgOf_got a1 (hU.dig a2).1, dgOf_got b1 (hU.dig b2).1] at heq
      subst heq
      rw [a3] at b3
      have := Option.some.inj b3
      omega
  refine ⟨(m.buckets.filter (·.2 ≠ 0)).flatMap (bucketList d.ifiles m.imax), ?_, hblk, hpw, ?_, ?_⟩
  · rw [entFold_eq _ [] (fun x hx => by
      obtain ⟨orl, h1, _⟩ := hA.recs x.1
      exact ⟨orl, by rw [(hread x hx).1]; exact h1⟩)]
    simp
  · intro dig key val hsp
    obtain ⟨b, rl, e, c1, c2, c3, c4, c5⟩ := hA.complete dig key val hsp
    have hdisk : readDiskBucket d.ifiles m.imax ((m.buckets.get? b).getD 0) = .ok (some rl) := by
      rw [← idxRecords_nopool hin hic]; exact c2
    have hpos : ∃ pos, m.buckets.get? b = some pos ∧ pos ≠ 0 := by
      cases hg : m.buckets.get? b with
      | none =>
        rw [hg] at hdisk
        simp only [Option.getD_none, readDiskBucket_zero] at hdisk
        cases hdisk
      | some pos =>
        refine ⟨pos, rfl, ?_⟩
        rintro rfl
        rw [hg] at hdisk
        simp only [Option.getD_some, readDiskBucket_zero] at hdisk
        cases hdisk
    obtain ⟨pos, hg, hp0⟩ := hpos
    refine ⟨e, List.mem_flatMap.mpr ⟨(b, pos), ?_, ?_⟩, c4, c5⟩
    · exact List.mem_filter.mpr ⟨NMap.mem_of_get? hg, by simpa using hp0⟩
    · unfold bucketList
      rw [hg] at hdisk
      simp only [Option.getD_some] at hdisk
      simp only [hdisk]
      exact c3
  · have := sum_le_of_inj (fun e : Entry => dgOf m.kind (priGet m d) e.blk)
      (fun x : Bytes × Bytes × Bytes => x.1) (fun _ => 1) (fun _ => 1)
      ((m.buckets.filter (·.2 ≠ 0)).flatMap (bucketList d.ifiles m.imax)) spec
      (by
        rw [List.nodup_iff_pairwise_ne, List.pairwise_map]
        exact hpw)
      (by
        intro e he
        obtain ⟨b0, hb0⟩ := hblk e he
        obtain ⟨k1, v1, d1, a1, a2, _, _, a5⟩ := hb0.ex
        exact ⟨(d1, k1, v1), Spec.mem_of_get a5, (dgOf_got a1 (hU.dig a2).1).symm, Nat.le_refl _⟩)
    rw [sum_map_one, sum_map_one] at this
    exact this

end

end Sth.C09
