/-
C05 — frame (keys do not interfere), owned keys (a schedule-independent sufficient condition for `NoOverlap`),
read-your-writes and real-time order for the section-level concurrency model.
-/
import Sth.Lemmas.C05FL

namespace Sth.Conc

/-! ### frame: a section only touches the key of its call -/

/-- the key of the call thread `t` is running (or about to start) -/
def curKey (t : Thread) : Option Key :=
  match t.pc with
  | .idle => t.prog.head?.map Op.key
  | .putLooked k _ _ => some k
  | .putRead k _ _ => some k
  | .putStored k _ _ _ => some k
  | .putIndexed k _ => some k
  | .readLooked op _ => some op.key
  | .rmLooked k _ => some k
  | .rmRead k _ => some k
  | .rmIndexed k _ _ => some k

/-- in a reachable state the running call is the head of the program -/
theorem curKey_eq_head {imm : Bool} {pri : List (Key × Val)} {t : Thread} (h : TWF imm pri t) :
    curKey t = t.prog.head?.map Op.key := by
  unfold curKey
  unfold TWF at h
  split
  · rfl
  all_goals (rename_i hpc; simp only [hpc] at h)
  · obtain ⟨rest, hr⟩ := h.1; simp [hr, Op.key]
  · obtain ⟨rest, hr⟩ := h.1; simp [hr, Op.key]
  · obtain ⟨rest, hr⟩ := h.1; simp [hr, Op.key]
  · obtain ⟨v, rest, hr⟩ := h.1; simp [hr, Op.key]
  · obtain ⟨rest, hr⟩ := h.1; simp [hr]
  · obtain ⟨rest, hr⟩ := h.1; simp [hr, Op.key]
  · obtain ⟨rest, hr⟩ := h.1; simp [hr, Op.key]
  · obtain ⟨rest, hr⟩ := h.1; simp [hr, Op.key]

/-- FRAME: a section of a call on key `k` leaves every other key alone (no hypothesis on overlap) -/
theorem frame_sec {s s' : State} {i : Nat} {t : Thread} (hwf : WF s) (h : Sec s i t s') {k k' : Key}
    (hk : curKey t = some k) (hne : k' ≠ k) : contents s' k' = contents s k' := by
  cases h with
  | putStore k0 v prev hpc => rw [contents_setThread]; exact contents_appendPri hwf _ k'
  | putIndexNew k0 v loc hpc =>
    simp only [curKey, hpc, Option.some.injEq] at hk; subst hk
    rw [contents_setThread]
    split
    · rfl
    · rw [contents_setIdx, if_neg hne]
  | putIndexUpd k0 v p loc hpc hl =>
    simp only [curKey, hpc, Option.some.injEq] at hk; subst hk
    rw [contents_setThread, contents_setIdx, if_neg hne]
  | rmIndex k0 loc hpc =>
    simp only [curKey, hpc, Option.some.injEq] at hk; subst hk
    rw [contents_setThread, contents_delIdx, if_neg hne]
  | rmFree k0 loc removed hpc => cases removed <;> rfl
  | _ => rfl

/-- is the next section of `t` an index section (Index.Put / Update / Remove) on key `k`? -/
def indexSectionOn (k : Key) (t : Thread) : Bool :=
  match t.pc with
  | .putStored k' _ _ _ => k' = k
  | .rmRead k' _ => k' = k
  | _ => false

/-- only the index sections on `k` change `contents _ k` -/
theorem stable_sec {s s' : State} {i : Nat} {t : Thread} (hwf : WF s) (h : Sec s i t s') {k : Key}
    (hk : indexSectionOn k t = false) : contents s' k = contents s k := by
  cases h with
  | putStore k0 v prev hpc => rw [contents_setThread]; exact contents_appendPri hwf _ k
  | putIndexNew k0 v loc hpc =>
    simp only [indexSectionOn, hpc, decide_eq_false_iff_not] at hk
    rw [contents_setThread]
    split
    · rfl
    · rw [contents_setIdx, if_neg (fun e => hk e.symm)]
  | putIndexUpd k0 v p loc hpc hl =>
    simp only [indexSectionOn, hpc, decide_eq_false_iff_not] at hk
    rw [contents_setThread, contents_setIdx, if_neg (fun e => hk e.symm)]
  | rmIndex k0 loc hpc =>
    simp only [indexSectionOn, hpc, decide_eq_false_iff_not] at hk
    rw [contents_setThread, contents_delIdx, if_neg (fun e => hk e.symm)]
  | rmFree k0 loc removed hpc => cases removed <;> rfl
  | _ => rfl

/-! ### owned keys -/

/-- the keys a program mutates -/
def mutKeysOf (p : List Op) : List Key :=
  p.filterMap fun op => match op with
    | .put k _ => some k
    | .rm k => some k
    | _ => none

/-- no key of `a` is a key of `b` -/
def DisjointKeys (a b : List Key) : Prop := ∀ k ∈ a, k ∉ b

instance (a b : List Key) : Decidable (DisjointKeys a b) := by unfold DisjointKeys; infer_instance

/-- every key is mutated (Put / Remove) by at most one thread's program -/
def OwnedKeys (progs : List (List Op)) : Prop :=
  ∀ i, i < progs.length → ∀ j, j < progs.length → i ≠ j →
    DisjointKeys (mutKeysOf (progs[i]?.getD [])) (mutKeysOf (progs[j]?.getD []))

instance (progs : List (List Op)) : Decidable (OwnedKeys progs) := by unfold OwnedKeys; infer_instance

theorem mutating_mem {imm : Bool} {pri : List (Key × Val)} {t : Thread} (h : TWF imm pri t) {k : Key}
    (hk : t.pc.mutating = some k) : k ∈ mutKeysOf t.prog := by
  unfold TWF at h
  split at h
  all_goals (rename_i hpc; simp only [hpc, Pc.mutating, Option.some.injEq] at hk)
  all_goals try (cases hk)
  all_goals try (subst hk)
  · obtain ⟨rest, hr⟩ := h.1; simp [hr, mutKeysOf]
  · obtain ⟨rest, hr⟩ := h.1; simp [hr, mutKeysOf]
  · obtain ⟨rest, hr⟩ := h.1; simp [hr, mutKeysOf]
  · obtain ⟨v, rest, hr⟩ := h.1; simp [hr, mutKeysOf]
  · obtain ⟨rest, hr⟩ := h.1; simp [hr, mutKeysOf]
  · obtain ⟨rest, hr⟩ := h.1; simp [hr, mutKeysOf]
  · obtain ⟨rest, hr⟩ := h.1; simp [hr, mutKeysOf]

theorem mutKeysOf_drop {p : List Op} {n : Nat} {k : Key} (h : k ∈ mutKeysOf (p.drop n)) : k ∈ mutKeysOf p :=
  ((List.drop_sublist n p).filterMap _).subset h

/-- owned keys exclude overlap in every reachable state -/
theorem owned_noOverlap {progs : List (List Op)} {s : State} (ho : OwnedKeys progs) (h0 : Inv0 s)
    (hp : ProgInv progs s) : NoOverlap s := by
  apply NoOverlap.intro
  intro i j ti tj k hij hti htj hki hkj
  obtain ⟨pi, hpi, hdi⟩ := hp.2 i ti hti
  obtain ⟨pj, hpj, hdj⟩ := hp.2 j tj htj
  have hi : i < progs.length := by
    rcases Nat.lt_or_ge i progs.length with h | h
    · exact h
    · rw [List.getElem?_eq_none h] at hpi; simp at hpi
  have hj : j < progs.length := by
    rcases Nat.lt_or_ge j progs.length with h | h
    · exact h
    · rw [List.getElem?_eq_none h] at hpj; simp at hpj
  have h1 := mutating_mem (h0.thr i ti hti) hki
  have h2 := mutating_mem (h0.thr j tj htj) hkj
  rw [hdi] at h1; rw [hdj] at h2
  have := ho i hi j hj hij k (by rw [hpi]; exact mutKeysOf_drop h1)
  exact this (by rw [hpj]; exact mutKeysOf_drop h2)

/-- OWNED KEYS ⇒ no overlap along EVERY schedule -/
theorem owned_noOverlapAlong {s0 : State} (h0 : Init s0) (ho : OwnedKeys (s0.threads.map (·.prog)))
    (sched : List Nat) : NoOverlapAlong s0 sched := by
  rw [noOverlapAlong_iff]
  intro pre _
  exact owned_noOverlap ho (inv0_run h0.inv0 pre) (progInv_run h0.progInv pre)

/-! ### read your writes -/

/-- the index section of a Put(k,v) whose thread has an accurate view publishes `v` and is the linearization
    point of the call, with result `ok` -/
theorem put_index_publishes {s s' : State} {i : Nat} {t : Thread} {k : Key} {v : Val} {prev : Option Nat}
    {loc : Nat} (h0 : Inv0 s) (ha : Acc s) (ht : s.threads[i]? = some t) (hpc : t.pc = .putStored k v prev loc)
    (h : step s i = some s') : contents s' k = some v ∧ linPoint s i = some (.put k v, .ok) := by
  have hT := h0.thr i t ht
  have hA := ha i t ht
  simp only [TWF, hpc] at hT
  simp only [TAcc, hpc] at hA
  have hlp : linPoint s i = linOf s t := by simp [linPoint, ht]
  simp only [step, ht, hpc] at h
  cases prev with
  | none =>
    simp only [hA, Option.isSome_none, Bool.false_eq_true, if_false, Option.some.injEq] at h
    subst h
    refine ⟨?_, by rw [hlp]; simp [linOf, hpc]⟩
    rw [contents_setThread, contents_setIdx]; simp [hT.2.1]
  | some p =>
    simp only [hA, Option.isSome_some, if_true, Option.some.injEq] at h
    subst h
    refine ⟨?_, by rw [hlp]; simp [linOf, hpc, hA]⟩
    rw [contents_setThread, contents_setIdx]; simp [hT.2.1]

/-- no step of the schedule is an index section (Index.Put / Update / Remove) on `k` -/
def NoIndexSectionOn (k : Key) (s : State) : List Nat → Prop
  | [] => True
  | j :: r => ((s.threads[j]?).map (indexSectionOn k)).getD false = false ∧ NoIndexSectionOn k (stepD s j) r

instance decNoIndexSectionOn (k : Key) : (s : State) → (sched : List Nat) → Decidable (NoIndexSectionOn k s sched)
  | _, [] => inferInstanceAs (Decidable True)
  | s, j :: r =>
    have := decNoIndexSectionOn k (stepD s j) r
    inferInstanceAs (Decidable (_ ∧ NoIndexSectionOn k (stepD s j) r))

theorem stable_stepD {s : State} (h0 : Inv0 s) {k : Key} {j : Nat}
    (hj : ((s.threads[j]?).map (indexSectionOn k)).getD false = false) :
    contents (stepD s j) k = contents s k := by
  unfold stepD
  cases h : step s j with
  | none => rfl
  | some s' =>
    obtain ⟨t, ht, hsec⟩ := step_sec h
    simp only [ht, Option.map_some, Option.getD_some] at hj
    exact stable_sec h0.wf hsec hj

/-- `contents _ k` is stable along a schedule without index sections on `k` -/
theorem stable_run {s : State} (h0 : Inv0 s) {k : Key} (sched : List Nat) (h : NoIndexSectionOn k s sched) :
    contents (run s sched) k = contents s k := by
  induction sched generalizing s with
  | nil => rfl
  | cons j r ih =>
    rw [run_cons, ih (inv0_stepD j h0) h.2, stable_stepD h0 h.1]

/-- the lookup section of a Get(k) taken where `contents _ k = some v` is its linearization point with
    result `found v`, and leaves the thread waiting to read a location that holds `v` -/
theorem get_lookup {s : State} {j : Nat} {t : Thread} {k : Key} {v : Val} {rest : List Op} (h0 : Inv0 s)
    (ht : s.threads[j]? = some t) (hpc : t.pc = .idle) (hp : t.prog = .get k :: rest)
    (hc : contents s k = some v) :
    linPoint s j = some (.get k, .found v) ∧
      ∃ loc, step s j = some (setThread s j { t with pc := .readLooked (.get k) loc }) ∧
        loc < s.pri.length ∧ readRes s.pri (.get k) loc = .found v := by
  have hlp : linPoint s j = linOf s t := by simp [linPoint, ht]
  cases hl : lookup s.idx k with
  | none => rw [contents_eq_none hl] at hc; simp at hc
  | some loc =>
    obtain ⟨v', hv', hc'⟩ := contents_eq_some h0.wf hl
    rw [hc] at hc'; cases hc'
    have hr : readRes s.pri (.get k) loc = .found v := by simp [readRes, hv']
    refine ⟨?_, loc, ?_, (h0.wf.holds hl).lt, hr⟩
    · rw [hlp, linOf_idle_read hpc hp rfl]; simp [hl, hr]
    · simp only [step, ht, hpc, hp, hl]

/-- thread `j` has looked up a location holding `v` for its Get(k) and will return `found v`, or has returned it:
    `o` = the results it had returned before that call -/
def GetSees (s : State) (j : Nat) (o : List Res) (k : Key) (v : Val) : Prop :=
  ∃ t, s.threads[j]? = some t ∧
    ((∃ loc, t.pc = .readLooked (.get k) loc ∧ t.out = o ∧ loc < s.pri.length ∧
        readRes s.pri (.get k) loc = .found v) ∨
     (∃ more, t.out = o ++ .found v :: more))

theorem getSees_stepD {s : State} {j : Nat} {o : List Res} {k : Key} {v : Val} (h : GetSees s j o k v) (i : Nat) :
    GetSees (stepD s i) j o k v := by
  unfold stepD
  cases hst : step s i with
  | none => exact h
  | some s' =>
    simp only [Option.getD_some]
    obtain ⟨ti, hti, hsec⟩ := step_sec hst
    obtain ⟨t, ht, hcase⟩ := h
    obtain ⟨himm, ⟨x, hx⟩, _⟩ := sec_globals hsec
    by_cases hij : j = i
    · subst hij
      rw [ht] at hti; cases hti
      rcases hcase with ⟨loc, hpc, hout, hlt, hr⟩ | ⟨more, hout⟩
      · cases hpl : s.pri[loc]? with
        | none => simp [readRes, hpl] at hr
        | some kv =>
          obtain ⟨a, b⟩ := kv
          simp only [readRes, hpl, Res.found.injEq] at hr
          subst hr
          simp only [step, ht, hpc, hpl, Option.some.injEq] at hst
          subst hst
          exact ⟨_, setThread_threads_self ht, Or.inr ⟨[], by simp [ret, hout]⟩⟩
      · obtain ⟨t', hthr, hc⟩ := prog_own hsec
        refine ⟨t', by rw [hthr]; simp [(List.getElem?_eq_some_iff.1 ht).1], Or.inr ?_⟩
        rcases hc with ⟨_, h2, _⟩ | ⟨r, _, h2, _⟩
        · exact ⟨more, by rw [h2, hout]⟩
        · exact ⟨more ++ [r], by rw [h2, hout]; simp⟩
    · obtain ⟨t', hthr, _⟩ := prog_own hsec
      refine ⟨t, by rw [hthr, List.getElem?_set_ne (fun e => hij e.symm)]; exact ht, ?_⟩
      rcases hcase with ⟨loc, hpc, hout, hlt, hr⟩ | hm
      · refine Or.inl ⟨loc, hpc, hout, by rw [hx]; simp only [List.length_append]; omega, ?_⟩
        rw [hx, readRes_append hlt]; exact hr
      · exact Or.inr hm

theorem getSees_run {s : State} {j : Nat} {o : List Res} {k : Key} {v : Val} (h : GetSees s j o k v)
    (sched : List Nat) : GetSees (run s sched) j o k v := by
  induction sched generalizing s with
  | nil => exact h
  | cons i r ih => rw [run_cons]; exact ih (getSees_stepD h i)

theorem reach_inv {s0 : State} (h0 : Init s0) (sched : List Nat) (hno : NoOverlapAlong s0 sched) :
    Inv0 (run s0 sched) ∧ Acc (run s0 sched) := by
  have hg := good_runLFrom h0.good sched hno
  rw [runLFrom_fst] at hg
  exact ⟨hg.inv0, hg.acc⟩

theorem step_putStored_isSome {s : State} {i : Nat} {t : Thread} {k : Key} {v : Val} {prev : Option Nat}
    {loc : Nat} (ht : s.threads[i]? = some t) (hpc : t.pc = .putStored k v prev loc) :
    ∃ s', step s i = some s' := by
  simp only [step, ht, hpc]
  cases prev with
  | none => exact ⟨_, rfl⟩
  | some p => simp only []; split <;> exact ⟨_, rfl⟩

/-- READ YOUR WRITES, end to end.  After a schedule `a` without overlap thread `i` runs the index section of its
    Put(k,v); then any schedule `b` without index sections on `k` (no mutator of `k` takes effect); then thread `j`
    starts a Get(k); then ANY schedule `c`.  Thread `j` is still waiting to read a location holding `v`, or its
    Get(k) has returned `found v`. -/
theorem read_your_writes {s0 : State} (h0 : Init s0) (a b c : List Nat) (i j : Nat) (hno : NoOverlapAlong s0 a)
    {k : Key} {v : Val} {prev : Option Nat} {loc : Nat} {rest : List Op}
    {ti : Thread} (hti : (run s0 a).threads[i]? = some ti) (hpc : ti.pc = .putStored k v prev loc)
    (hb : NoIndexSectionOn k (stepD (run s0 a) i) b)
    {tj : Thread} (htj : (run s0 (a ++ i :: b)).threads[j]? = some tj) (hidle : tj.pc = .idle)
    (hprog : tj.prog = .get k :: rest) :
    contents (run s0 (a ++ i :: b)) k = some v ∧ GetSees (run s0 (a ++ i :: b ++ j :: c)) j tj.out k v := by
  obtain ⟨hI, hA⟩ := reach_inv h0 a hno
  obtain ⟨s', hs'⟩ := step_putStored_isSome hti hpc
  have hpub := (put_index_publishes hI hA hti hpc hs').1
  have hD : stepD (run s0 a) i = s' := by simp [stepD, hs']
  have hI' : Inv0 s' := inv0_step hI hs'
  have hrun : run s0 (a ++ i :: b) = run s' b := by rw [run_append, run_cons, hD]
  rw [hD] at hb
  have hc3 : contents (run s0 (a ++ i :: b)) k = some v := by rw [hrun, stable_run hI' b hb, hpub]
  refine ⟨hc3, ?_⟩
  have hI3 : Inv0 (run s0 (a ++ i :: b)) := inv0_run h0.inv0 _
  obtain ⟨_, loc', hst, hlt, hr⟩ := get_lookup hI3 htj hidle hprog hc3
  have : run s0 (a ++ i :: b ++ j :: c) =
      run (setThread (run s0 (a ++ i :: b)) j { tj with pc := .readLooked (.get k) loc' }) c := by
    rw [show a ++ i :: b ++ j :: c = (a ++ i :: b) ++ j :: c by simp, run_append, run_cons]
    simp [stepD, hst]
  rw [this]
  apply getSees_run
  exact ⟨_, setThread_threads_self htj, Or.inl ⟨loc', rfl, rfl, hlt, hr⟩⟩

/-! ### the ghost bookkeeping needs no hypothesis on the schedule; real-time order -/

theorem lin_runLFrom {progs : List (List Op)} {s : State} {log : Log} (h0 : Inv0 s) (hl : LinInv progs s log)
    (sched : List Nat) : LinInv progs (runLFrom (s, log) sched).1 (runLFrom (s, log) sched).2 := by
  induction sched generalizing s log with
  | nil => exact hl
  | cons i r ih =>
    show LinInv progs (runLFrom (stepL (s, log) i) r).1 (runLFrom (stepL (s, log) i) r).2
    unfold stepL
    cases h : step s i with
    | none => exact ih h0 hl
    | some s' => exact ih (inv0_step h0 h) (lin_step h0 hl h)

theorem lin_runL {s0 : State} (h0 : Init s0) (sched : List Nat) :
    LinInv (s0.threads.map (·.prog)) (run s0 sched) (runL s0 sched).2 := by
  have := lin_runLFrom h0.inv0 h0.good.lin sched
  rwa [runLFrom_fst] at this

/-- REAL-TIME ORDER.  If after the prefix `p1` of a schedule call number `n` of thread `i` has returned and call
    number `m` of thread `j` has not been invoked, the log of the whole schedule splits as `a ++ b` with the entry
    of the first call in `a` and the entry of the second call (if any) in `b`. -/
theorem real_time {s0 : State} (h0 : Init s0) (p1 p2 : List Nat) {i j n m : Nat} {ti tj : Thread}
    (hti : (run s0 p1).threads[i]? = some ti) (htj : (run s0 p1).threads[j]? = some tj)
    (hA : n < ti.out.length) (hB : tj.out.length + (if tj.pc = .idle then 0 else 1) ≤ m) :
    ∃ b, (runL s0 (p1 ++ p2)).2 = (runL s0 p1).2 ++ b ∧
      n < (logOf i (runL s0 p1).2).length ∧ (logOf j (runL s0 p1).2).length ≤ m := by
  have hpre : (runL s0 p1).2 <+: (runL s0 (p1 ++ p2)).2 := by
    unfold runL; rw [runLFrom_append]; exact runLFrom_log_prefix _ _
  obtain ⟨b, hb⟩ := hpre
  have hl := lin_runL h0 p1
  obtain ⟨_, _, _, h1, _, _, _⟩ := hl.facts hti
  obtain ⟨_, _, _, _, h2, _, _⟩ := hl.facts htj
  exact ⟨b, hb.symm, by omega, by omega⟩

/-- the call a section linearizes is the call its thread is running: the head of the thread's program -/
theorem linOf_head {s : State} {t : Thread} {op : Op} {r : Res} (hT : TWF s.imm s.pri t)
    (h : linOf s t = some (op, r)) : t.prog.head? = some op := by
  cases hpc : t.pc with
  | idle =>
    cases hp : t.prog with
    | nil => simp [linOf, hpc, hp] at h
    | cons o rest =>
      cases o with
      | put k v =>
        simp only [linOf, hpc, hp] at h
        cases hl : lookup s.idx k with
        | none => simp [hl] at h
        | some loc =>
          simp only [hl] at h
          split at h
          · simp at h; simp [h.1]
          · split at h
            · simp at h; simp [h.1]
            · simp at h
      | rm k =>
        simp only [linOf, hpc, hp] at h
        cases hl : lookup s.idx k with
        | none => simp [hl] at h; simp [h.1]
        | some loc => simp [hl] at h
      | get k =>
        rw [linOf_idle_read hpc hp rfl] at h
        cases hl : lookup s.idx k <;> simp [hl] at h <;> simp [h.1]
      | has k =>
        rw [linOf_idle_read hpc hp rfl] at h
        cases hl : lookup s.idx k <;> simp [hl] at h <;> simp [h.1]
      | size k =>
        rw [linOf_idle_read hpc hp rfl] at h
        cases hl : lookup s.idx k <;> simp [hl] at h <;> simp [h.1]
  | putStored k v prev loc =>
    simp only [TWF, hpc] at hT
    obtain ⟨rest, hr⟩ := hT.1
    simp only [linOf, hpc] at h
    cases prev <;> simp at h <;> simp [hr, h.1]
  | rmRead k loc =>
    simp only [TWF, hpc] at hT
    obtain ⟨rest, hr⟩ := hT.1
    simp only [linOf, hpc] at h
    simp at h; simp [hr, h.1]
  | _ => simp [linOf, hpc] at h

/-- an entry is appended to the log only by a section of the thread it is tagged with, while that thread is
    running (or starting) the call of the entry -/
theorem linEntry_own {s : State} (h0 : Inv0 s) {i j : Nat} {op : Op} {r : Res}
    (h : (j, op, r) ∈ linEntry s i) : j = i ∧ ∃ t, s.threads[i]? = some t ∧ t.prog.head? = some op := by
  unfold linEntry at h
  cases hl : linPoint s i with
  | none => simp [hl] at h
  | some e =>
    simp only [hl, List.mem_singleton, Prod.mk.injEq] at h
    obtain ⟨rfl, he⟩ := h
    refine ⟨rfl, ?_⟩
    unfold linPoint at hl
    cases ht : s.threads[j]? with
    | none => simp [ht] at hl
    | some t =>
      simp only [ht, Option.bind_some] at hl
      refine ⟨t, rfl, linOf_head (h0.thr j t ht) (r := r) ?_⟩
      rw [hl]; cases e; simp at he; simp [he.1, he.2]

end Sth.Conc
