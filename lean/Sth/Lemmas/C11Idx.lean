import Sth.Lemmas.C04M4

/-!
C11 (GC reclaims space), index side: one complete index GC cycle with the free-file scan empties or
unlinks every non-current index file that no bucket refers into.  Core Lean only.
-/

namespace Sth.C11

/-- file `f` holds nothing: it is unlinked or has length zero -/
def Released (files : NMap Bytes) (f : Nat) : Prop := files.get? f = none ∨ files.get? f = some []

instance (files : NMap Bytes) (f : Nat) : Decidable (Released files f) := by
  unfold Released; exact inferInstance

/-- the file numbers the bucket table points into, as truncateFreeFiles computes them -/
def idxBusySet (m : Mem) : List Nat :=
  m.buckets.filterMap fun (x : Nat × Nat) => if x.2 = 0 then none else some (localizeIdx m.imax x.2).2

/-- no bucket of the table points into index file `f` -/
def IdxFileFree (m : Mem) (f : Nat) : Prop := (idxBusySet m).contains f = false

instance (m : Mem) (f : Nat) : Decidable (IdxFileFree m f) := by
  unfold IdxFileFree; exact inferInstance

theorem idxFileFree_iff (m : Mem) (f : Nat) :
    IdxFileFree m f ↔ ∀ p ∈ m.buckets, p.2 = 0 ∨ (localizeIdx m.imax p.2).2 ≠ f := by
  unfold IdxFileFree idxBusySet
  rw [← Bool.not_eq_true, List.contains_iff_mem, List.mem_filterMap]
  constructor
  · intro h p hp
    by_cases h0 : p.2 = 0
    · exact Or.inl h0
    · right
      intro he
      exact h ⟨p, hp, by simp only [h0, if_false, he]⟩
  · rintro h ⟨p, hp, he⟩
    rcases h p hp with h0 | h0
    · simp only [h0, if_true] at he; cases he
    · by_cases h1 : p.2 = 0
      · simp only [h1, if_true] at he; cases he
      · simp only [h1, if_false, Option.some.injEq] at he
        exact h0 he

section
variable {last : Nat} {bs : List Nat} {f : Nat}

/-- the free-file scan only touches files from its position on -/
theorem tff_go_before : ∀ (fuel n : Nat) (h : IdxHeader) (d : Disk) (b : Budget), f < n →
    (truncateFreeFiles.go last bs fuel n h d b).2.1.ifiles.get? f = d.ifiles.get? f := by
  intro fuel
  induction fuel with
  | zero => intro n h d b _; rfl
  | succ fuel ih =>
    intro n h d b hn
    unfold truncateFreeFiles.go
    split
    · rfl
    split
    · exact ih (n + 1) h d b (by omega)
    cases hp : poll b with
    | mk e b' =>
    simp only
    split
    · rfl
    cases hg : d.ifiles.get? n with
    | none => exact ih (n + 1) h d b' (by omega)
    | some file =>
      simp only
      split
      · rw [ih (n + 1) _ _ b' (by omega)]
        exact NMap.get?_del_ne _ (by omega)
      split
      · exact ih (n + 1) h d b' (by omega)
      · rw [ih (n + 1) _ _ b' (by omega)]
        exact NMap.get?_set_ne _ _ (by omega)

/-- a complete free-file scan releases every file in its range that is not in the busy set -/
theorem tff_go_releases (hf : f < last) (hbs : bs.contains f = false) :
    ∀ (fuel n : Nat) (h : IdxHeader) (d : Disk), n ≤ f → f - n < fuel →
      Released (truncateFreeFiles.go last bs fuel n h d none).2.1.ifiles f := by
  intro fuel
  induction fuel with
  | zero => intro n h d _ h2; omega
  | succ fuel ih =>
    intro n h d h1 h2
    unfold truncateFreeFiles.go
    rw [if_neg (by omega)]
    by_cases hc : bs.contains n = true
    · rw [if_pos hc]
      have : n ≠ f := by rintro rfl; rw [hbs] at hc; cases hc
      exact ih (n + 1) h d (by omega) (by omega)
    rw [if_neg hc]
    have hp : poll none = (false, none) := rfl
    rw [hp]
    simp only [Bool.false_eq_true, if_false]
    by_cases hnf : n = f
    · subst hnf
      cases hg : d.ifiles.get? n with
      | none =>
        simp only
        left
        rw [tff_go_before fuel (n + 1) h d none (by omega)]
        exact hg
      | some file =>
        simp only
        split
        · left
          rw [tff_go_before fuel (n + 1) _ _ none (by omega)]
          exact NMap.get?_del_eq _ _
        split
        · rename_i he
          right
          rw [tff_go_before fuel (n + 1) _ _ none (by omega), hg, List.isEmpty_iff.mp he]
        · right
          rw [tff_go_before fuel (n + 1) _ _ none (by omega)]
          exact NMap.get?_set_eq _ _ _
    · cases hg : d.ifiles.get? n with
      | none => exact ih (n + 1) h d (by omega) (by omega)
      | some file =>
        simp only
        split
        · exact ih (n + 1) _ _ (by omega) (by omega)
        split
        · exact ih (n + 1) _ _ (by omega) (by omega)
        · exact ih (n + 1) _ _ (by omega) (by omega)

/-- … and unlinks it when it and every file before it (from the header's first file on) is free: the
    first file advances with the scan -/
theorem tff_go_unlinks (hf : f < last) :
    ∀ (fuel n : Nat) (h : IdxHeader) (d : Disk), h.first = n → n ≤ f → f - n < fuel →
      (∀ g, n ≤ g → g ≤ f → bs.contains g = false) →
      (∀ g, n ≤ g → g ≤ f → d.ifiles.get? g ≠ none) →
      (truncateFreeFiles.go last bs fuel n h d none).2.1.ifiles.get? f = none := by
  intro fuel
  induction fuel with
  | zero => intro n h d _ _ h2; omega
  | succ fuel ih =>
    intro n h d hh h1 h2 hbs hex
    unfold truncateFreeFiles.go
    rw [if_neg (by omega), hbs n (Nat.le_refl _) h1]
    have hp : poll none = (false, none) := rfl
    rw [hp]
    simp only [Bool.false_eq_true, if_false]
    cases hg : d.ifiles.get? n with
    | none => exact absurd hg (hex n (Nat.le_refl _) h1)
    | some file =>
      simp only
      rw [if_pos hh]
      by_cases hnf : n = f
      · subst hnf
        rw [tff_go_before fuel (n + 1) _ _ none (by omega)]
        exact NMap.get?_del_eq _ _
      · apply ih (n + 1) _ _ (by simp only; omega) (by omega) (by omega)
          (fun g g1 g2 => hbs g (by omega) g2)
        intro g g1 g2
        show (d.ifiles.del n).get? g ≠ none
        rw [NMap.get?_del_ne _ (by omega)]
        exact hex g (by omega) g2

end

/-- truncateFreeFiles without a deadline: outcome ok, and every free file in range released -/
theorem truncateFreeFiles_releases {m : Mem} {d : Disk} {h : IdxHeader} (hh : d.ihdr = some h)
    {f : Nat} (h1 : h.first ≤ f) (h2 : f < m.ifileNum) (hfree : IdxFileFree m f) :
    Released (truncateFreeFiles m d none).2.1.ifiles f := by
  unfold truncateFreeFiles
  rw [hh]
  simp only
  rw [if_neg (by omega)]
  exact tff_go_releases h2 hfree _ _ _ _ h1 (by omega)

theorem truncateFreeFiles_unlinks {m : Mem} {d : Disk} {h : IdxHeader} (hh : d.ihdr = some h)
    {f : Nat} (h1 : h.first ≤ f) (h2 : f < m.ifileNum)
    (hfree : ∀ g, h.first ≤ g → g ≤ f → IdxFileFree m g)
    (hex : ∀ g, h.first ≤ g → g ≤ f → d.ifiles.get? g ≠ none) :
    (truncateFreeFiles m d none).2.1.ifiles.get? f = none := by
  unfold truncateFreeFiles
  rw [hh]
  simp only
  rw [if_neg (by omega)]
  exact tff_go_unlinks h2 _ _ _ _ rfl h1 (by omega) hfree hex

/-- `f` is no less released in `fs'` than in `fs` -/
def KeepsReleased (f : Nat) (fs fs' : NMap Bytes) : Prop :=
  (Released fs f → Released fs' f) ∧ (fs.get? f = none → fs'.get? f = none)

theorem KeepsReleased.refl (f : Nat) (fs : NMap Bytes) : KeepsReleased f fs fs :=
  ⟨fun x => x, fun x => x⟩

theorem KeepsReleased.trans {f : Nat} {a b c : NMap Bytes} (h1 : KeepsReleased f a b)
    (h2 : KeepsReleased f b c) : KeepsReleased f a c :=
  ⟨fun x => h2.1 (h1.1 x), fun x => h2.2 (h1.2 x)⟩

theorem KeepsReleased.del (f n : Nat) (fs : NMap Bytes) : KeepsReleased f fs (fs.del n) := by
  by_cases hnf : n = f
  · subst hnf
    exact ⟨fun _ => Or.inl (NMap.get?_del_eq _ _), fun _ => NMap.get?_del_eq _ _⟩
  · have : (fs.del n).get? f = fs.get? f := NMap.get?_del_ne _ (Ne.symm hnf)
    unfold KeepsReleased Released
    rw [this]
    exact ⟨fun x => x, fun x => x⟩

/-- the reap loop never makes a released file hold anything, nor re-creates an unlinked file -/
theorem igc_go_keeps {last start f : Nat} : ∀ (fuel n : Nat) (sf : Bool) (h : IdxHeader) (m : Mem)
    (d : Disk) (b : Budget) (fs : NMap Bytes), fs = d.ifiles →
    KeepsReleased f fs (indexGC.go last start fuel n sf h m d b).2.2.1.ifiles := by
  intro fuel
  induction fuel with
  | zero => intro n sf h m d b fs hfs; subst hfs; exact KeepsReleased.refl _ _
  | succ fuel ih =>
    intro n sf h m d b fs hfs
    subst hfs
    unfold indexGC.go
    split
    · exact KeepsReleased.refl _ _
    cases hg : d.ifiles.get? n with
    | none => exact KeepsReleased.refl _ _
    | some file =>
    simp only
    cases hr : reapIndexRecords m n file b with
    | mk r rest =>
    obtain ⟨file', b'⟩ := rest
    simp only
    -- the file written back
    have hset : KeepsReleased f d.ifiles (d.ifiles.set n file') := by
      by_cases hnf : n = f
      · subst hnf
        refine ⟨?_, fun hn => by rw [hg] at hn; cases hn⟩
        intro hR
        have hfile : file = [] := by
          rcases hR with hR | hR
          · rw [hg] at hR; cases hR
          · rw [hg] at hR; cases hR; rfl
        subst hfile
        have : reapIndexRecords m n [] b = (.stale, [], b) := by
          unfold reapIndexRecords; rfl
        rw [this] at hr
        cases hr
        exact Or.inr (NMap.get?_set_eq _ _ _)
      · have : (d.ifiles.set n file').get? f = d.ifiles.get? f := NMap.get?_set_ne _ _ (Ne.symm hnf)
        unfold KeepsReleased Released
        rw [this]
        exact ⟨fun x => x, fun x => x⟩
    have hd := hset.trans (KeepsReleased.del f n (d.ifiles.set n file'))
    cases r with
    | deadline => exact hset
    | err => exact hset
    | stale =>
      simp only
      by_cases hfirst : h.first = n
      · simp only [hfirst, and_self, if_true]
        repeat' split
        all_goals first
          | exact hd
          | exact hd.trans (ih _ _ _ _ _ _ _ rfl)
      · simp only [hfirst, and_false, if_false]
        repeat' split
        all_goals first
          | exact hset
          | exact hset.trans (ih _ _ _ _ _ _ _ rfl)
    | kept =>
      simp only
      have hne : ¬ (Reap.kept = Reap.stale ∧ h.first = n) := by rintro ⟨h, _⟩; cases h
      simp only [hne, if_false]
      repeat' split
      all_goals first
        | exact hset
        | exact hset.trans (ih _ _ _ _ _ _ _ rfl)

/-- the free-file scan never makes a released file hold anything -/
theorem tff_go_keeps {last : Nat} {bs : List Nat} {f : Nat} : ∀ (fuel n : Nat) (h : IdxHeader) (d : Disk)
    (b : Budget) (fs : NMap Bytes), fs = d.ifiles →
    KeepsReleased f fs (truncateFreeFiles.go last bs fuel n h d b).2.1.ifiles := by
  intro fuel
  induction fuel with
  | zero => intro n h d b fs hfs; subst hfs; exact KeepsReleased.refl _ _
  | succ fuel ih =>
    intro n h d b fs hfs
    subst hfs
    unfold truncateFreeFiles.go
    split
    · exact KeepsReleased.refl _ _
    split
    · exact ih _ _ _ _ _ rfl
    cases hp : poll b with
    | mk e b' =>
    simp only
    split
    · exact KeepsReleased.refl _ _
    cases hg : d.ifiles.get? n with
    | none => exact ih _ _ _ _ _ rfl
    | some file =>
      simp only
      have hset : KeepsReleased f d.ifiles (d.ifiles.set n []) := by
        by_cases hnf : n = f
        · subst hnf
          exact ⟨fun _ => Or.inr (NMap.get?_set_eq _ _ _), fun hn => by rw [hg] at hn; cases hn⟩
        · have : (d.ifiles.set n []).get? f = d.ifiles.get? f := NMap.get?_set_ne _ _ (Ne.symm hnf)
          unfold KeepsReleased Released
          rw [this]
          exact ⟨fun x => x, fun x => x⟩
      repeat' split
      all_goals first
        | exact ih _ _ _ _ _ rfl
        | exact (KeepsReleased.del f n d.ifiles).trans (ih _ _ _ _ _ rfl)
        | exact hset.trans (ih _ _ _ _ _ rfl)

theorem truncateFreeFiles_keeps (m : Mem) (d : Disk) (b : Budget) (f : Nat) :
    KeepsReleased f d.ifiles (truncateFreeFiles m d b).2.1.ifiles := by
  unfold truncateFreeFiles
  cases hd : d.ihdr with
  | none => exact KeepsReleased.refl _ _
  | some h =>
    simp only
    split
    · exact KeepsReleased.refl _ _
    · exact tff_go_keeps _ _ _ _ _ _ rfl

/-- the reap phase of Index.gc after the (optional) free-file scan -/
theorem indexGC_keeps_scan (m : Mem) (d : Disk) (sf : Bool) (b : Budget) (f : Nat) :
    KeepsReleased f (if sf = true then truncateFreeFiles m d b else (GcOut.ok, d, b)).2.1.ifiles
      (indexGC m d sf b).2.2.1.ifiles := by
  unfold indexGC
  cases hr : (if sf = true then truncateFreeFiles m d b else (GcOut.ok, d, b)) with
  | mk r0 rest =>
  obtain ⟨d1, bud⟩ := rest
  simp only
  split
  · exact KeepsReleased.refl _ _
  · cases hd : d1.ihdr with
    | none => exact KeepsReleased.refl _ _
    | some h =>
      simp only
      split
      · exact KeepsReleased.refl _ _
      · exact igc_go_keeps _ _ _ _ _ _ _ _ rfl

/-- Index GC — any `scanFree`, any budget — never makes a released index file hold anything again, and
    never re-creates an unlinked one -/
theorem indexGC_keeps (m : Mem) (d : Disk) (sf : Bool) (b : Budget) (f : Nat) :
    KeepsReleased f d.ifiles (indexGC m d sf b).2.2.1.ifiles := by
  refine KeepsReleased.trans ?_ (indexGC_keeps_scan m d sf b f)
  cases sf with
  | false => exact KeepsReleased.refl _ _
  | true => exact truncateFreeFiles_keeps m d b f

/-- a complete index GC cycle with the free-file scan releases every free file in range -/
theorem indexGC_releases {m : Mem} {d : Disk} {h : IdxHeader} (hh : d.ihdr = some h)
    {f : Nat} (h1 : h.first ≤ f) (h2 : f < m.ifileNum) (hfree : IdxFileFree m f) :
    Released (indexGC m d true none).2.2.1.ifiles f :=
  (indexGC_keeps_scan m d true none f).1 (truncateFreeFiles_releases hh h1 h2 hfree)

/-- … and unlinks it when every file from the header's first file up to it is free -/
theorem indexGC_unlinks {m : Mem} {d : Disk} {h : IdxHeader} (hh : d.ihdr = some h)
    {f : Nat} (h1 : h.first ≤ f) (h2 : f < m.ifileNum)
    (hfree : ∀ g, h.first ≤ g → g ≤ f → IdxFileFree m g)
    (hex : ∀ g, h.first ≤ g → g ≤ f → d.ifiles.get? g ≠ none) :
    (indexGC m d true none).2.2.1.ifiles.get? f = none :=
  (indexGC_keeps_scan m d true none f).2 (truncateFreeFiles_unlinks hh h1 h2 hfree hex)

end Sth.C11
