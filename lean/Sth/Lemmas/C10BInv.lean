/-
C10 widened (U1) — multi-chunk case: the state before the removal-pool flush (pool in memory) satisfies
the invariants of C01/C02 for `C.spec`; hence so does the state index.Open returns after flushing the
pool in ANY order, and that state also satisfies C07's invariant (consistency check clean).
Core Lean only.
-/
import Sth.Lemmas.C10BEval
import Sth.Lemmas.C03Inv

namespace Sth

namespace C10B

open LegacyC

variable {c : Cfg} {U : List (Bytes × Bytes)} {C : LegacyC} {ifs : NMap Bytes}

structure CtxB (c : Cfg) (U : List (Bytes × Bytes)) (C : LegacyC) (ifs : NMap Bytes) : Prop where
  hc : c.Legal
  hk : c.kind = .mh
  hU : Univ .mh U
  hwf : LegacyWFBadU c U C
  hn1 : C.recs.length < 1073741824
  hn2 : C.gens.length < 1073741824
  hifs : ∀ f, f ≤ C.lastI c → ifs.get? f = some (logBytes (C.lgU c f))
  hno : ∀ f, C.lastI c < f → ifs.get? f = none
  hnr : needRemap c.pfs (C.psizes c) = true

/-- the memory state with the removal pool still in memory -/
def memP (c : Cfg) (C : LegacyC) (ifs : NMap Bytes) : Mem := { C.memU c ifs with inext := poolC c C }

def stateP (c : Cfg) (C : LegacyC) (ifs : NMap Bytes) : SState := ⟨c, memP c C ifs, C.diskU c ifs⟩

/-! ### entries: rejected or naming a whole record -/

theorem entry_cases (x : CtxB c U C ifs) (b : Nat) (rl : RecordList) (h : C.table.get? b = some rl)
    (e : Entry) (he : e ∈ rl) :
    (C.badOff e.blk.off ∧ C.remapC c e.blk.off = none ∧ C.specEntry e = none) ∨
    ∃ key val dig o, C.remapC c e.blk.off = some o ∧ o < two64 ∧
      RecAt .mh c.pfs 0 (C.diskU c ifs) ⟨o, e.blk.size⟩ key val ∧
      Below (C.memU c ifs) ⟨o, e.blk.size⟩ ∧
      (key, dig) ∈ U ∧ bucketOfKey c.bits dig = some b ∧ e.pfx ≠ [] ∧ pfx e.pfx (dig.drop (c.bits / 8)) ∧
      C.specEntry e = some (dig, key, val) ∧ e.blk.size < two31 ∧ e.blk.size = key.length + val.length := by
  rcases x.hwf.entries b rl h e he with ⟨hb, _⟩ | ⟨i, key, val, dig, h1, h2, h3, h4, h5, h6, h7⟩
  · exact Or.inl ⟨hb, remapC_bad c C _ hb, specEntry_bad C e hb⟩
  · right
    obtain ⟨n, F, g, g7, g8, g3'⟩ := C.record_at c.pfs x.hc.2.2.2.2.1 i (key, val) h1 h3
    have hoff := C.blockOf_off_lt x.hwf.recSize x.hn1 i
    have g9 : C.remapC c e.blk.off = some (c.pfs * n + F.length) := by
      unfold remapC remapOff psizes
      rw [h2, if_neg (by unfold two64 at *; omega)]
      exact g3'
    have q7 : C.specEntry e = some (dig, key, val) := by
      unfold specEntry
      have : e.blk.off = C.offsetOf i := by rw [h2]; rfl
      rw [this, C.lookupRec_offsetOf i key val h1]
      simp only [h3, Bool.false_eq_true, if_false, (x.hU.dig h4).1]
    have hsize : e.blk.size = key.length + val.length := by rw [h2]; unfold blockOf; rw [h1]; rfl
    have hs31 : key.length + val.length < two31 := x.hwf.recSize (key, val) (List.mem_of_getElem? h1)
    have hn : n < (C.pfilesL c.pfs).length := (List.getElem?_eq_some_iff.mp g7).1
    have hle := lastP_le (c := c) (C := C)
    have hne := C.pfilesL_ne c.pfs
    have hpos : 0 < (C.pfilesL c.pfs).length := List.length_pos_iff.mpr hne
    have hfile : (setFiles [] 0 (C.pfilesL c.pfs)).get? n =
        some (F ++ recBytes ⟨C.blockOf i, key, val⟩ ++ g) := by
      rw [setFiles_get?, if_pos (by omega), Nat.sub_zero, g7]
    have hnle : n ≤ C.recs.length := by unfold lastP at hle; omega
    have hbound : c.pfs * n + F.length < two64 := by
      have hp := x.hc.2.2.2.2.2
      unfold defaultMax at hp
      have hn1 := x.hn1
      have : c.pfs * n ≤ 1073741824 * 1073741824 := Nat.mul_le_mul hp (by omega)
      unfold two64; omega
    have hrec : RecAt .mh c.pfs 0 (C.diskU c ifs) ⟨c.pfs * n + F.length, e.blk.size⟩ key val :=
      ⟨hsize, ⟨readNode_append .mh key val (x.hU.exact _ h4), hs31⟩, n, F.length, F, g,
        x.hc.2.2.2.2.1, g8, by have := x.hn1; unfold two32; omega, Nat.zero_le _, rfl, hfile, rfl⟩
    have hbel : Below (C.memU c ifs) ⟨c.pfs * n + F.length, e.blk.size⟩ := by
      unfold Below memU
      refine ⟨n, F.length, rfl, g8, ?_⟩
      by_cases hlast : n = C.lastP c
      · right
        refine ⟨hlast, ?_⟩
        rw [← hlast, fileOf_some hfile]
        simp only [List.length_append, recBytes_length]
        omega
      · left
        show n < (C.pfilesL c.pfs).length - 1
        unfold lastP at hlast hle
        omega
    exact ⟨key, val, dig, c.pfs * n + F.length, g9, hbound, hrec, hbel, h4, h5, h6, h7, q7,
      by rw [hsize]; exact hs31, hsize⟩

/-- the list a bucket reads: the entries that remap -/
def keptC (c : Cfg) (C : LegacyC) (rl : RecordList) : RecordList := keptRL (C.remapC c) rl

theorem mem_keptC (rl : RecordList) (e' : Entry) :
    e' ∈ keptC c C rl ↔ ∃ e ∈ rl, ∃ o, C.remapC c e.blk.off = some o ∧ e' = ⟨e.pfx, ⟨o, e.blk.size⟩⟩ := by
  unfold keptC keptRL
  rw [List.mem_filterMap]
  constructor
  · rintro ⟨e, he, h⟩
    unfold remapEntry at h
    cases ho : C.remapC c e.blk.off with
    | none => rw [ho] at h; cases h
    | some o => rw [ho] at h; exact ⟨e, he, o, ho, by simpa using h.symm⟩
  · rintro ⟨e, he, o, ho, rfl⟩
    exact ⟨e, he, by unfold remapEntry; rw [ho]; rfl⟩

theorem newRL_eq_kept (rl : RecordList) (h : allGood (C.remapC c) rl = true) : C.newRL c rl = keptC c C rl := by
  unfold newRL remapRL keptC keptRL allGood at *
  rw [List.all_eq_true] at h
  induction rl with
  | nil => rfl
  | cons e rl ih =>
    have he := h e (by simp)
    cases ho : C.remapC c e.blk.off with
    | none => rw [ho] at he; cases he
    | some o =>
      simp only [List.map_cons, List.filterMap_cons, remapEntry, ho, Option.map_some, Option.getD_some]
      rw [ih (fun e' he' => h e' (List.mem_cons_of_mem _ he'))]

theorem keptC_sublist_pfx (rl : RecordList) : ((keptC c C rl).map (·.pfx)).Sublist (rl.map (·.pfx)) := by
  unfold keptC keptRL
  induction rl with
  | nil => exact List.Sublist.slnil
  | cons e rl ih =>
    simp only [List.filterMap_cons]
    cases ho : remapEntry (C.remapC c) e with
    | none => simp only [List.map_cons]; exact ih.cons _
    | some e' =>
      simp only [List.map_cons]
      have : e'.pfx = e.pfx := by
        unfold remapEntry at ho
        cases hr : C.remapC c e.blk.off with
        | none => rw [hr] at ho; cases ho
        | some o => rw [hr] at ho; simp only [Option.map_some, Option.some.injEq] at ho; rw [← ho]
      rw [this]
      exact ih.cons₂ _

/-! ### what a bucket reads with the pool in memory -/

theorem flushOK_newRL (x : CtxB c U C ifs) (b : Nat) (rl : RecordList) (h : C.table.get? b = some rl)
    (hok : FlushOK rl) : FlushOK (C.newRL c rl) := by
  refine ⟨?_, by unfold newRL; rw [encodeRL_remapRL_length]; exact hok.2⟩
  intro e' he'
  unfold newRL remapRL at he'
  obtain ⟨e, he, rfl⟩ := List.mem_map.mp he'
  have h3 := hok.1 e he
  refine ⟨h3.1, ?_, h3.2.2⟩
  rcases entry_cases x b rl h e he with ⟨_, hb, _⟩ | ⟨_, _, _, o, ho, hlt, _⟩
  · simp only [hb, Option.getD_none]; unfold two64; omega
  · simp only [ho, Option.getD_some]; exact hlt

/-- the table position of a bucket is the place of its current list, rewritten in place -/
theorem bucket_at (x : CtxB c U C ifs) (b pos : Nat) (h : (C.tableT c).get? b = some pos) :
    ∃ rl, C.table.get? b = some rl ∧ (b, rl) ∈ C.gens ∧ BucketAt ifs c.ifs 0 b pos (C.newRL c rl) := by
  obtain ⟨rl, f, pre, post, h1, h2, h3, h4, h5, h6⟩ := table_at x.hc x.hn2 b pos h
  have hmem : (b, rl) ∈ C.gens := C.lg_mem c.ifs f _ (by rw [h3]; simp)
  refine ⟨rl, h1, hmem, ?_⟩
  have hg := encodeRL_remapRL_length (C.remapC c)
  have hsel : pT (C.tableT c) b (f * c.ifs + (0 + (logBytes pre).length) + 4) = true := by
    unfold pT
    rw [Nat.zero_add, ← h4, h]
    simp
  have hlg : C.lgU c f = rmP (pT (C.tableT c)) (remapRL (C.remapC c)) c.ifs f 0 pre ++
      (b, C.newRL c rl) :: rmP (pT (C.tableT c)) (remapRL (C.remapC c)) c.ifs f
        (0 + (logBytes pre).length + (idxRecBytes b rl).length) post := by
    unfold lgU lgR
    rw [h3]
    exact rmP_split pre post b rl 0 hsel
  have hrok := x.hwf.gensOK (b, rl) hmem
  refine ⟨f, (logBytes pre).length, logBytes (rmP (pT (C.tableT c)) (remapRL (C.remapC c)) c.ifs f 0 pre),
    logBytes (rmP (pT (C.tableT c)) (remapRL (C.remapC c)) c.ifs f
        (0 + (logBytes pre).length + (idxRecBytes b rl).length) post),
    x.hc.2.2.1, h5, by have := lastI_lt (c := c) x.hn2; unfold two32; omega, Nat.zero_le _, h4, ?_,
    rmP_logLen hg _ _, flushOK_newRL x b rl h1 hrok.2, ?_, ?_⟩
  · rw [x.hifs f h2, hlg, logBytes_append, logBytes_cons, List.append_assoc]
  · unfold newRL; rw [hg]; exact hrok.1.2
  · have := hrok.1.1
    have h2' : 2 ^ c.bits ≤ 2 ^ 31 := Nat.pow_le_pow_right (by omega) x.hc.2.1
    simp only at this
    unfold two32; omega

theorem pool_sound (c : Cfg) (C : LegacyC) :
    Sound (C.remapC c) (fun b => C.table.get? b) (poolC c C) :=
  totalPool_sound _ _ _ sound_nil

theorem pool_get_some (b : Nat) (y : RecordList) (h : (poolC c C).get? b = some y) :
    ∃ rl, C.table.get? b = some rl ∧ allGood (C.remapC c) rl = false ∧ y = keptC c C rl := by
  obtain ⟨rl, h1, h2, h3⟩ := pool_sound c C (b, y) (NMap.mem_of_get? h)
  exact ⟨rl, h1, h2, h3⟩

theorem pool_get_bad (x : CtxB c U C ifs) (b : Nat) (rl : RecordList) (h : C.table.get? b = some rl)
    (hbad : allGood (C.remapC c) rl = false) : (poolC c C).get? b = some (keptC c C rl) := by
  have hT : (C.tableT c).get? b ≠ none := by
    intro h0
    have := ((tabRel (C := C) (c := c) groups_le_lastI) b).1.mp h0
    rw [h] at this; cases this
  cases hp : (C.tableT c).get? b with
  | none => exact absurd hp hT
  | some pos =>
    obtain ⟨rl', f, pre, post, h1, h2, h3, h4, h5, h6⟩ := table_at x.hc x.hn2 b pos hp
    have hmem := NMap.mem_of_get? hp
    unfold poolC
    apply totalPool_get (cur := fun b => C.table.get? b) (C.tableT c) b pos rl h (by omega) hbad hmem
    rw [mem_bucketFiles]
    exact ⟨(b, pos), hmem, by simp only; omega, rfl⟩

/-- what a bucket reads while the pool is in memory -/
theorem bucket_reads (x : CtxB c U C ifs) (b : Nat) :
    (C.table.get? b = none ∧ idxRecords (memP c C ifs) (C.diskU c ifs) b = .ok none) ∨
    ∃ rl, C.table.get? b = some rl ∧ (b, rl) ∈ C.gens ∧
      idxRecords (memP c C ifs) (C.diskU c ifs) b = .ok (some (keptC c C rl)) := by
  have hidx : idxRecords (memP c C ifs) (C.diskU c ifs) b =
      match (poolC c C).get? b with
      | some rl => .ok (some rl)
      | none => readDiskBucket ifs c.ifs (((C.tableT c).get? b).getD 0) := by
    unfold idxRecords memP memU diskU
    simp only [NMap.get?]
    rfl
  rw [hidx]
  cases hT : (C.tableT c).get? b with
  | none =>
    left
    have h0 := ((tabRel (C := C) (c := c) groups_le_lastI) b).1.mp hT
    refine ⟨h0, ?_⟩
    cases hp : (poolC c C).get? b with
    | some y =>
      obtain ⟨rl, h1, _⟩ := pool_get_some b y hp
      rw [h0] at h1; cases h1
    | none => simp only [Option.getD_none]; exact readDiskBucket_zero _ _
  | some pos =>
    right
    obtain ⟨rl, h1, hm, h2⟩ := bucket_at x b pos hT
    refine ⟨rl, h1, hm, ?_⟩
    cases hg : allGood (C.remapC c) rl with
    | false => rw [pool_get_bad x b rl h1 hg]
    | true =>
      cases hp : (poolC c C).get? b with
      | some y =>
        obtain ⟨rl', g1, g2, _⟩ := pool_get_some b y hp
        rw [h1] at g1; cases g1
        rw [hg] at g2; cases g2
      | none =>
        simp only [Option.getD_some]
        rw [readDiskBucket_of_at h2, newRL_eq_kept rl hg]

/-! ### the invariants with the pool in memory -/

theorem priGet_P (x : CtxB c U C ifs) (blk : Block) (key val : Bytes)
    (h1 : RecAt .mh c.pfs 0 (C.diskU c ifs) blk key val) (h2 : Below (C.memU c ifs) blk) :
    priGet (memP c C ifs) (C.diskU c ifs) blk = .got key val := by
  rw [priGet_eq]
  have e0 : poolFind (memP c C ifs).pnext blk = none := rfl
  have e1 : poolFind (memP c C ifs).pcur blk = none := rfl
  simp only [e0, e1]
  unfold priDisk
  have hb : Below (memP c C ifs) blk := h2
  rw [if_pos hb.thrOK]
  exact h1.diskRead

theorem oinv_kept (x : CtxB c U C ifs) (b : Nat) (rl : RecordList) (h : C.table.get? b = some rl) :
    OInv (ownOf .mh c.bits (priGet (memP c C ifs) (C.diskU c ifs))) (keptC c C rl) := by
  have hown : ∀ e ∈ rl, ∀ o, C.remapC c e.blk.off = some o → ∃ key val dig,
      priGet (memP c C ifs) (C.diskU c ifs) ⟨o, e.blk.size⟩ = .got key val ∧
      (key, dig) ∈ U ∧ pfx e.pfx (dig.drop (c.bits / 8)) ∧ e.pfx ≠ [] ∧
      ownOf .mh c.bits (priGet (memP c C ifs) (C.diskU c ifs)) ⟨o, e.blk.size⟩ = some (dig.drop (c.bits / 8)) := by
    intro e he o ho
    rcases entry_cases x b rl h e he with ⟨_, hb, _⟩ | ⟨key, val, dig, o', ho', _, g1, g2, g3, g4, g5, g6, _⟩
    · rw [hb] at ho; cases ho
    · rw [ho'] at ho
      cases ho
      have hp := priGet_P x _ key val g1 g2
      exact ⟨key, val, dig, hp, g3, g6, g5,
        ownOf_got hp (x.hU.dig g3).1 (stripKey_of_bucket c.bits x.hc.2.1 dig b g4).1⟩
  refine ⟨(x.hwf.sorted b rl h).sublist (keptC_sublist_pfx rl),
    (x.hwf.prefixFree b rl h).sublist (keptC_sublist_pfx rl), ?_, ?_⟩
  · intro e' he'
    obtain ⟨e, he, o, ho, rfl⟩ := (mem_keptC rl e').mp he'
    obtain ⟨key, val, dig, _, _, h3, h4, h5⟩ := hown e he o ho
    exact ⟨_, h5, h3, h4⟩
  · rw [List.nodup_iff_pairwise_ne]
    unfold keptC keptRL
    rw [List.pairwise_map, List.pairwise_filterMap]
    have hpf := x.hwf.prefixFree b rl h
    rw [List.pairwise_map] at hpf
    apply List.Pairwise.imp_of_mem _ hpf
    intro e1 e2 he1 he2 hap y1 hy1 y2 hy2 heq
    unfold remapEntry at hy1 hy2
    cases ho1 : C.remapC c e1.blk.off with
    | none => rw [ho1] at hy1; cases hy1
    | some o1 =>
      cases ho2 : C.remapC c e2.blk.off with
      | none => rw [ho2] at hy2; cases hy2
      | some o2 =>
        rw [ho1] at hy1
        rw [ho2] at hy2
        simp only [Option.map_some, Option.some.injEq] at hy1 hy2
        subst hy1 hy2
        simp only at heq
        obtain ⟨k1, v1, d1, a1, a2, a3, _, _⟩ := hown e1 he1 o1 ho1
        obtain ⟨k2, v2, d2, b1, b2, b3, _, _⟩ := hown e2 he2 o2 ho2
        rw [heq] at a1
        rw [a1] at b1
        cases b1
        have hd : d1 = d2 := by
          have p1 := (x.hU.dig a2).1
          have p2 := (x.hU.dig b2).1
          rw [p1] at p2
          exact Option.some.inj p2
        subst hd
        rcases pfx_comparable a3 b3 with hp | hp
        · exact hap.1 hp
        · exact hap.2 hp

theorem spec_nodup (x : CtxB c U C ifs) : (C.spec.map (·.1)).Nodup := by
  rw [List.nodup_iff_pairwise_ne, List.pairwise_map]
  unfold spec
  rw [List.pairwise_flatMap]
  have hse : ∀ b rl, C.table.get? b = some rl → ∀ e ∈ rl, ∀ y, C.specEntry e = some y →
      ∃ key val, y = (y.1, key, val) ∧ bucketOfKey c.bits y.1 = some b ∧ pfx e.pfx (y.1.drop (c.bits / 8)) := by
    intro b rl h e he y hy
    rcases entry_cases x b rl h e he with ⟨_, _, hb⟩ | ⟨key, val, dig, _, _, _, _, _, _, g4, _, g6, g7, _⟩
    · rw [hb] at hy; cases hy
    · rw [g7] at hy
      cases hy
      exact ⟨key, val, rfl, g4, g6⟩
  constructor
  · rintro ⟨b, rl⟩ hmem
    have hget := NMap.get?_of_mem_sorted C.table_sorted hmem
    simp only
    rw [List.pairwise_filterMap]
    have hpf := x.hwf.prefixFree b rl hget
    rw [List.pairwise_map] at hpf
    apply List.Pairwise.imp_of_mem _ hpf
    intro e e' he he' hap y hy y' hy' hxy
    obtain ⟨_, _, _, _, p6⟩ := hse b rl hget e he y hy
    obtain ⟨_, _, _, _, q6⟩ := hse b rl hget e' he' y' hy'
    rw [hxy] at p6
    rcases pfx_comparable p6 q6 with h | h
    · exact hap.1 h
    · exact hap.2 h
  · have hs := C.table_sorted
    unfold NMap.Sorted at hs
    rw [List.pairwise_map] at hs
    apply List.Pairwise.imp_of_mem _ hs
    rintro ⟨b, rl⟩ ⟨b', rl'⟩ hm hm' hlt y hy y' hy' hxy
    simp only at hlt hy hy'
    have hget := NMap.get?_of_mem_sorted C.table_sorted hm
    have hget' := NMap.get?_of_mem_sorted C.table_sorted hm'
    obtain ⟨e, he, hse1⟩ := List.mem_filterMap.mp hy
    obtain ⟨e', he', hse2⟩ := List.mem_filterMap.mp hy'
    obtain ⟨_, _, _, p5, _⟩ := hse b rl hget e he y hse1
    obtain ⟨_, _, _, q5, _⟩ := hse b' rl' hget' e' he' y' hse2
    rw [hxy, q5] at p5
    simp only [Option.some.injEq] at p5
    omega

theorem sinv_P (x : CtxB c U C ifs) : SInv U (memP c C ifs) (C.diskU c ifs) C.spec := by
  have hnd := spec_nodup x
  constructor
  · intro b
    rcases bucket_reads x b with ⟨_, h2⟩ | ⟨rl, h1, hm, h4⟩
    · exact ⟨none, h2, OInv.nil _, fun e he => by cases he⟩
    · refine ⟨some (keptC c C rl), h4, oinv_kept x b rl h1, ?_⟩
      intro e' he'
      simp only [Option.getD_some] at he'
      obtain ⟨e, he, o, ho, rfl⟩ := (mem_keptC rl e').mp he'
      rcases entry_cases x b rl h1 e he with ⟨_, hb, _⟩ |
        ⟨key, val, dig, o', ho', hlt, g1, g2, g3, g4, _, _, g7, g8, g9⟩
      · rw [hb] at ho; cases ho
      · rw [ho'] at ho
        cases ho
        have hmem : (dig, key, val) ∈ C.spec := (mem_spec _).mpr ⟨b, rl, e, h1, he, g7⟩
        exact ⟨⟨key, val, dig, priGet_P x _ key val g1 g2, g3, g4, g9, Spec.get_of_mem hnd hmem⟩, g2, hlt, g8⟩
  · intro dig key val hs
    obtain ⟨b, rl, e, h1, h2, h3⟩ := (mem_spec _).mp (Spec.mem_of_get hs)
    rcases entry_cases x b rl h1 e h2 with ⟨_, _, hb⟩ | ⟨key', val', dig', o, ho, _, g1, g2, g3, g4, _, _, g7, _, _⟩
    · rw [hb] at h3; cases h3
    · rw [h3] at g7
      cases g7
      rcases bucket_reads x b with ⟨h0, _⟩ | ⟨rl', t1, _, t4⟩
      · rw [h1] at h0; cases h0
      · rw [h1] at t1
        cases t1
        exact ⟨b, keptC c C rl, ⟨e.pfx, ⟨o, e.blk.size⟩⟩, g4, t4,
          (mem_keptC rl _).mpr ⟨e, h2, o, ho, rfl⟩, priGet_P x _ key val g1 g2, g3⟩

theorem table_length_le (C : LegacyC) : C.table.length ≤ C.gens.length := by
  unfold table
  have : ∀ (l : List LRec) (m : NMap RecordList),
      (l.foldl (fun m r => m.set r.1 r.2) m).length ≤ m.length + l.length := by
    intro l
    induction l with
    | nil => intro m; simp
    | cons r l ih =>
      intro m
      have h1 := ih (m.set r.1 r.2)
      have h2 := NMap.length_set_le m r.1 r.2
      simp only [List.foldl_cons, List.length_cons]
      omega
  have := this C.gens []
  simpa using this

theorem pool_length_le (c : Cfg) (C : LegacyC) : (poolC c C).length ≤ C.gens.length := by
  have hs : NMap.Sorted (poolC c C) := totalPool_sorted _ _ _ NMap.sorted_nil
  have h1 := nodup_subset_length (poolC c C).keys C.table.keys (NMap.keys_nodup hs) (by
    intro b hb
    have hne := NMap.get?_ne_none_of_mem_keys hb
    cases hp : (poolC c C).get? b with
    | none => exact absurd hp hne
    | some y =>
      obtain ⟨rl, g1, _⟩ := pool_get_some b y hp
      exact NMap.mem_keys_of_get? g1)
  have h2 := table_length_le C
  unfold NMap.keys at h1
  simp only [List.length_map] at h1
  omega

/-- C01's invariant with the pool in memory -/
theorem inv_P (x : CtxB c U C ifs) :
    Inv c U (stateP c C ifs) C.spec (C.recs.length + 2 * C.gens.length + 1) (specW C.spec) := by
  refine ⟨x.hk.symm, rfl, x.hc.1, x.hc.2.1, sinv_P x, ?_, ?_, ?_, spec_nodup x, Nat.le_refl _⟩
  · refine ⟨fun _ => x.hc.2.2.2.2.1, (fun r hr => by cases hr), (fun r hr => by cases hr),
      (fun r hr => by cases hr), ?_, (fun hk => by cases hk)⟩
    intro _
    exact ⟨⟨rfl, rfl⟩, rfl, fun f hf => pfiles_none f hf⟩
  · exact ⟨x.hc.2.2.1, (fun b rl hb => by cases hb), rfl, fun f hf => x.hno f hf, scanTo_sorted _ _ _⟩
  · refine ⟨fun _ => ⟨?_, x.hc.2.2.2.2.2⟩, (fun hk => by cases hk), ?_⟩
    · have := lastP_le (c := c) (C := C)
      show C.lastP c ≤ _
      omega
    · have h1 := C.ifilesL_length_le c.ifs
      have h2 := pool_length_le c C
      show C.lastI c + (poolC c C).length ≤ _
      unfold lastI
      omega

/-- C02's extended invariant with the pool in memory -/
theorem xinv_P (x : CtxB c U C ifs) : XInv c (stateP c C ifs) := by
  have hpfs : hdrPfs c = c.pfs := by unfold hdrPfs; rw [x.hk]
  refine ⟨rfl, rfl, rfl, hpfs.symm, (by show (C.diskU c ifs).ihdr = _; rw [hpfs]; rfl), fun _ => rfl,
    fun _ f hf => pfiles_get f hf, ?_, ?_⟩
  · intro b rl hb
    obtain ⟨rl', g1, _⟩ := pool_get_some b rl hb
    cases hT : (C.tableT c).get? b with
    | none =>
      have := ((tabRel (C := C) (c := c) groups_le_lastI) b).1.mp hT
      rw [g1] at this; cases this
    | some pos =>
      obtain ⟨rl2, _, hm, _⟩ := bucket_at x b pos hT
      exact (x.hwf.gensOK _ hm).1.1
  · refine ⟨C.lgU c, fun f hf => x.hifs f hf, ?_, ?_⟩
    · intro f hf r hr
      unfold lgU lgR at hr
      rcases rmP_mem _ _ _ hr with h | ⟨r0, h1, h2⟩
      · exact (lg_recOK x.hwf f r h).1
      · have := (lg_recOK x.hwf f r0 h1).1
        rw [h2]
        exact ⟨this.1, by simp only; rw [encodeRL_remapRL_length]; exact this.2⟩
    · intro b
      show ((C.tableT c).get? b).getD 0 = ((scanTo c.ifs (C.lgU c) (C.lastI c)).get? b).getD 0
      unfold tableT
      rw [scanTo_shape c.ifs (lg := C.lg c.ifs) (lg' := C.lgU c) (C.lastI c) (fun f _ => lgU_shape f)]

theorem tag_P (x : CtxB c U C ifs) : TagInv (memP c C ifs) (C.diskU c ifs) := by
  intro b hb
  cases hT : (C.tableT c).get? b with
  | none =>
    exfalso; apply hb
    show ((C.tableT c).get? b).getD 0 = 0
    rw [hT]; rfl
  | some pos =>
    obtain ⟨rl, _, _, h3⟩ := bucket_at x b pos hT
    refine ⟨C.newRL c rl, ?_⟩
    show BucketAt ifs c.ifs 0 b (((C.tableT c).get? b).getD 0) _
    rw [hT]; exact h3

theorem placed_P (x : CtxB c U C ifs) (bkt : Nat) (rl' : RecordList)
    (hrd : idxRecords (memP c C ifs) (C.diskU c ifs) bkt = .ok (some rl')) :
    ∀ e' ∈ rl', Placed (memP c C ifs) (C.diskU c ifs) e'.blk := by
  intro e' he'
  rcases bucket_reads x bkt with ⟨_, h2⟩ | ⟨rl, h1, _, h4⟩
  · rw [h2] at hrd; cases hrd
  · rw [h4] at hrd
    cases hrd
    obtain ⟨e, he, o, ho, rfl⟩ := (mem_keptC rl e').mp he'
    rcases entry_cases x bkt rl h1 e he with ⟨_, hb, _⟩ | ⟨key, val, dig, o', ho', _, g1, _⟩
    · rw [hb] at ho; cases ho
    · rw [ho'] at ho; cases ho
      right
      exact ⟨key, val, g1⟩

end C10B

end Sth
