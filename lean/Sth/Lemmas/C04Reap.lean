/-
C04 — reapIndexRecords on a span-structured index file: busy records are untouched, every other change
is a deleted bit, a merge of deleted spans, or a cut-off deleted tail.
Core Lean only.
-/
import Sth.Lemmas.GcSpan
import Sth.Model.GC

namespace Sth

/-- an index-file span: body below the deleted bit; a live record carries a bucket tag in range -/
def IdxSpanOK (bits : Nat) (s : GSpan) : Prop :=
  s.body.length < two31 ∧ (s.dead = false → leDec (s.body.take 4) < 2 ^ bits)

/-- the bucket table points at the live record `(offset, body)` of file `fnum` -/
def busyB (m : Mem) (fnum : Nat) (x : Nat × Bytes) : Prop :=
  idxBusy m (leDec (x.2.take 4)) (x.1 + 4) fnum = some true

theorem liveAt_snoc_dead (a : List GSpan) (b : Bytes) (base : Nat) :
    liveAt base (a ++ [(⟨true, b⟩ : GSpan)]) = liveAt base a := by
  rw [liveAt_append]; simp [liveAt]

theorem liveAt_snoc_live (a : List GSpan) (b : Bytes) (base : Nat) :
    liveAt base (a ++ [(⟨false, b⟩ : GSpan)]) = liveAt base a ++ [(base + (gbytes a).length, b)] := by
  rw [liveAt_append]; simp [liveAt]

theorem gbytes_snoc (a : List GSpan) (s : GSpan) :
    (gbytes (a ++ [s])).length = (gbytes a).length + 4 + s.body.length := by
  rw [gbytes_append, List.length_append, gbytes_cons, gbytes_nil, List.append_nil, GSpan.bytes_length]
  omega

/-- what one file looks like after (part of) a reap, against the original spans -/
structure Reaped (m : Mem) (fnum bits : Nat) (ss0 ss' : List GSpan) : Prop where
  ok : ∀ s ∈ ss', IdxSpanOK bits s
  sub : ∀ x ∈ liveAt 0 ss', x ∈ liveAt 0 ss0
  busy : ∀ x ∈ liveAt 0 ss0, busyB m fnum x → x ∈ liveAt 0 ss'

structure LoopInv (m : Mem) (fnum bits : Nat) (ss0 : List GSpan) (st : ReapSt)
    (done rest : List GSpan) : Prop where
  file : st.file = gbytes (done ++ rest)
  pos : st.pos = (gbytes done).length
  orig : ∃ done0, ss0 = done0 ++ rest ∧ (gbytes done0).length = (gbytes done).length ∧
    (∀ x ∈ liveAt 0 done, x ∈ liveAt 0 done0) ∧
    (∀ x ∈ liveAt 0 done0, busyB m fnum x → x ∈ liveAt 0 done)
  ok : ∀ s ∈ done ++ rest, IdxSpanOK bits s
  lt : st.freeAt < st.pos ∧ st.busyAt < st.pos
  free : st.freeAt > st.busyAt → ∃ init b1, done = init ++ [(⟨true, b1⟩ : GSpan)] ∧
    st.freeAt = ((gbytes init).length : Int) ∧ st.freeAtSize = b1.length

section
variable {m : Mem} {fnum bits : Nat} {ss0 : List GSpan}

theorem LoopInv.budget {st : ReapSt} {done rest : List GSpan} (h : LoopInv m fnum bits ss0 st done rest)
    (b : Budget) : LoopInv m fnum bits ss0 { st with budget := b } done rest :=
  ⟨h.file, h.pos, h.orig, h.ok, h.lt, h.free⟩

/-- the file at the current position -/
theorem LoopInv.at {st : ReapSt} {done rest : List GSpan} {s : GSpan}
    (h : LoopInv m fnum bits ss0 st done (s :: rest)) :
    st.file = gbytes done ++ (s.bytes ++ gbytes rest) ∧ s.body.length < two31 := by
  refine ⟨by rw [h.file, gbytes_append, gbytes_cons], (h.ok s (by simp)).1⟩

/-- the span is left as it is: a deleted span that is not merged, or a busy record -/
theorem LoopInv.keep {st st' : ReapSt} {done rest : List GSpan} {s : GSpan}
    (h : LoopInv m fnum bits ss0 st done (s :: rest))
    (hfile : st'.file = st.file) (hpos : st'.pos = st.pos + 4 + s.body.length)
    (hc : (s.dead = true ∧ st'.freeAt = st.pos ∧ st'.freeAtSize = s.body.length ∧
            st'.busyAt = st.busyAt) ∨
          (s.dead = false ∧ st'.busyAt = st.pos ∧ st'.freeAt = st.freeAt)) :
    LoopInv m fnum bits ss0 st' (done ++ [s]) rest := by
  obtain ⟨done0, o1, o2, o3, o4⟩ := h.orig
  have hlen := gbytes_snoc done s
  refine ⟨by rw [hfile, h.file]; simp, by rw [hpos, h.pos, hlen], ?_, by simpa using h.ok, ?_, ?_⟩
  · refine ⟨done0 ++ [s], by rw [o1]; simp, by rw [gbytes_snoc, gbytes_snoc, o2], ?_, ?_⟩
    · rcases hc with ⟨hd, _⟩ | ⟨hd, _⟩
      · have : s = ⟨true, s.body⟩ := by cases s; simp_all
        rw [this, liveAt_snoc_dead, liveAt_snoc_dead]; exact o3
      · have : s = ⟨false, s.body⟩ := by cases s; simp_all
        rw [this, liveAt_snoc_live, liveAt_snoc_live, o2]
        intro x hx
        simp only [List.mem_append, List.mem_singleton] at hx ⊢
        rcases hx with hx | hx
        · exact Or.inl (o3 x hx)
        · exact Or.inr hx
    · rcases hc with ⟨hd, _⟩ | ⟨hd, _⟩
      · have : s = ⟨true, s.body⟩ := by cases s; simp_all
        rw [this, liveAt_snoc_dead, liveAt_snoc_dead]; exact o4
      · have : s = ⟨false, s.body⟩ := by cases s; simp_all
        rw [this, liveAt_snoc_live, liveAt_snoc_live, o2]
        intro x hx hb
        simp only [List.mem_append, List.mem_singleton] at hx ⊢
        rcases hx with hx | hx
        · exact Or.inl (o4 x hx hb)
        · exact Or.inr hx
  · have := h.lt
    rcases hc with ⟨_, e1, _, e3⟩ | ⟨_, e1, e2⟩
    · rw [e1, e3, hpos]; omega
    · rw [e1, e2, hpos]; omega
  · intro hgt
    rcases hc with ⟨hd, e1, e2, e3⟩ | ⟨_, e1, e2⟩
    · refine ⟨done, s.body, ?_, by rw [e1, h.pos], e2⟩
      have : s = ⟨true, s.body⟩ := by cases s; simp_all
      rw [← this]
    · have := h.lt
      rw [e1, e2] at hgt
      omega

/-- a record the table does not point at is marked deleted -/
theorem LoopInv.kill {st st' : ReapSt} {done rest : List GSpan} {s : GSpan}
    (h : LoopInv m fnum bits ss0 st done (s :: rest)) (hd : s.dead = false)
    (hnb : ¬ busyB m fnum (st.pos, s.body))
    (hfile : st'.file = setDeleted st.file st.pos s.body.length)
    (hpos : st'.pos = st.pos + 4 + s.body.length)
    (hf : st'.freeAt = st.pos) (hfs : st'.freeAtSize = s.body.length) (hb : st'.busyAt = st.busyAt) :
    LoopInv m fnum bits ss0 st' (done ++ [(⟨true, s.body⟩ : GSpan)]) rest := by
  obtain ⟨done0, o1, o2, o3, o4⟩ := h.orig
  have hs : s = ⟨false, s.body⟩ := by cases s; simp_all
  have hlen := gbytes_snoc done (⟨true, s.body⟩ : GSpan)
  refine ⟨?_, by rw [hpos, h.pos, hlen], ?_, ?_, ?_, ?_⟩
  · rw [hfile, h.at.1, h.pos, hs, setDeleted_kill]
    simp [gbytes_append, gbytes_cons]
  · refine ⟨done0 ++ [s], by rw [o1]; simp, by rw [gbytes_snoc, gbytes_snoc, o2], ?_, ?_⟩
    · rw [liveAt_snoc_dead, hs, liveAt_snoc_live]
      intro x hx
      exact List.mem_append_left _ (o3 x hx)
    · rw [liveAt_snoc_dead, hs, liveAt_snoc_live]
      intro x hx hbz
      simp only [List.mem_append, List.mem_singleton] at hx
      rcases hx with hx | hx
      · exact o4 x hx hbz
      · exfalso
        apply hnb
        rw [hx, o2, ← h.pos] at hbz
        simpa using hbz
  · intro x hx
    simp only [List.append_assoc, List.singleton_append, List.mem_append, List.mem_cons] at hx
    rcases hx with hx | rfl | hx
    · exact h.ok x (by simp [hx])
    · exact ⟨(h.ok s (by simp)).1, by simp⟩
    · exact h.ok x (by simp [hx])
  · have := h.lt
    rw [hf, hb, hpos]; omega
  · intro _
    exact ⟨done, s.body, rfl, by rw [hf, h.pos], hfs⟩

/-- the span is swallowed by the deleted span before it -/
theorem LoopInv.merge {st st' : ReapSt} {done rest : List GSpan} {s : GSpan}
    (h : LoopInv m fnum bits ss0 st done (s :: rest)) (hgt : st.freeAt > st.busyAt)
    (hnb : s.dead = false → ¬ busyB m fnum (st.pos, s.body))
    (hfs : st.freeAtSize + 4 + s.body.length < two31)
    (hfile : st'.file = setDeleted st.file st.freeAt.toNat (st.freeAtSize + 4 + s.body.length))
    (hpos : st'.pos = st.pos + 4 + s.body.length)
    (hf : st'.freeAt = st.freeAt) (hfsz : st'.freeAtSize = st.freeAtSize + 4 + s.body.length)
    (hb : st'.busyAt = st.busyAt) :
    ∃ done', LoopInv m fnum bits ss0 st' done' rest := by
  obtain ⟨done0, o1, o2, o3, o4⟩ := h.orig
  obtain ⟨init, b1, e1, e2, e3⟩ := h.free hgt
  subst e1
  have hlen0 := gbytes_snoc init (⟨true, b1⟩ : GSpan)
  simp only at hlen0
  have hlen := gbytes_snoc init (⟨true, b1 ++ s.bytes⟩ : GSpan)
  simp only [List.length_append, GSpan.bytes_length] at hlen
  have hpos0 := h.pos
  rw [hlen0] at hpos0
  refine ⟨init ++ [(⟨true, b1 ++ s.bytes⟩ : GSpan)], ?_, by rw [hpos, hpos0, hlen]; omega, ?_, ?_, ?_, ?_⟩
  · have : st.freeAt.toNat = (gbytes init).length := by rw [e2]; simp
    rw [hfile, this, e3, h.file]
    have e : gbytes (init ++ [(⟨true, b1⟩ : GSpan)] ++ s :: rest) =
        gbytes init ++ ((⟨true, b1⟩ : GSpan).bytes ++ (s.bytes ++ gbytes rest)) := by
      simp [gbytes_append, gbytes_cons]
    rw [e, setDeleted_merge]
    simp [gbytes_append, gbytes_cons]
  · refine ⟨done0 ++ [s], by rw [o1]; simp, ?_, ?_, ?_⟩
    · rw [gbytes_snoc, o2, hlen0, hlen]; omega
    · rw [liveAt_snoc_dead]
      rw [liveAt_snoc_dead] at o3
      rw [liveAt_append]
      intro x hx
      exact List.mem_append_left _ (o3 x hx)
    · rw [liveAt_snoc_dead]
      rw [liveAt_snoc_dead] at o4
      rw [liveAt_append]
      intro x hx hbz
      simp only [List.mem_append] at hx
      rcases hx with hx | hx
      · exact o4 x hx hbz
      · exfalso
        by_cases hd : s.dead = true
        · simp [liveAt, hd] at hx
        · have hd' : s.dead = false := by simpa using hd
          simp only [liveAt, hd', Bool.false_eq_true, if_false, List.mem_cons, List.not_mem_nil,
            or_false] at hx
          apply hnb hd'
          rw [hx, o2, ← h.pos] at hbz
          simpa using hbz
  · intro x hx
    simp only [List.append_assoc, List.singleton_append, List.mem_append, List.mem_cons] at hx
    rcases hx with hx | rfl | hx
    · exact h.ok x (by simp [hx])
    · refine ⟨?_, by simp⟩
      simp only [List.length_append, GSpan.bytes_length]
      rw [e3] at hfs
      omega
    · exact h.ok x (by simp [hx])
  · have := h.lt
    rw [hf, hb, hpos]; omega
  · intro _
    refine ⟨init, b1 ++ s.bytes, rfl, by rw [hf, e2], ?_⟩
    rw [hfsz, e3]
    simp only [List.length_append, GSpan.bytes_length]
    omega

end

end Sth

namespace Sth

theorem idxBusy_some {m : Mem} {b pos fnum : Nat} (h : b < 2 ^ m.bits) :
    ∃ r, idxBusy m b pos fnum = some r := by
  unfold idxBusy
  rw [if_neg (by omega)]
  exact ⟨_, rfl⟩

theorem reapIdxLoop_inv {m : Mem} {fnum : Nat} {ss0 : List GSpan} :
    ∀ (fuel : Nat) (st : ReapSt) (done rest : List GSpan),
      LoopInv m fnum m.bits ss0 st done rest → rest.length < fuel →
      ∃ done' rest', LoopInv m fnum m.bits ss0 (reapIdxLoop m fnum fuel st).2 done' rest' ∧
        ((reapIdxLoop m fnum fuel st).1 = .kept → rest' = [])
  | 0, _, _, _, _, hf => by omega
  | fuel + 1, st, done, rest, h, hf => by
    rw [reapIdxLoop]
    cases hp : poll st.budget with
    | mk expired bud =>
    simp only
    by_cases hexp : expired = true
    · rw [if_pos hexp]
      exact ⟨done, rest, h.budget bud, fun hc => by cases hc⟩
    · rw [if_neg hexp]
      have h1 := h.budget bud
      cases rest with
      | nil =>
        have hr : readU32 st.file st.pos = none := by
          rw [h.file, h.pos]; simp only [List.append_nil]; exact readU32_end _
        simp only [hr]
        exact ⟨done, [], h1, fun _ => rfl⟩
      | cons s rest' =>
        obtain ⟨hfile, hlen⟩ := h.at
        have hr : readU32 st.file st.pos = some s.raw := by
          rw [hfile, h.pos]; exact readU32_span _ _ _ hlen
        have hfuel : rest'.length < fuel := by simp at hf; omega
        simp only [hr]
        by_cases hd : s.dead = true
        · -- a span that is already marked deleted
          have hraw : s.raw = s.body.length + two31 := by unfold GSpan.raw; simp [hd]
          have hge : s.raw ≥ two31 := by omega
          have hsz : s.raw - two31 = s.body.length := by omega
          rw [if_pos hge]
          simp only [hsz]
          by_cases hgt : st.freeAt > st.busyAt
          · simp only [hgt, if_true]
            by_cases hfs : st.freeAtSize + 4 + s.body.length ≥ two31
            · simp only [hfs, if_true]
              exact reapIdxLoop_inv fuel _ _ _
                (h1.keep (st' := ⟨st.file, st.pos + 4 + s.body.length, st.pos, st.busyAt, s.body.length, bud⟩) rfl rfl (Or.inl ⟨hd, rfl, rfl, rfl⟩)) hfuel
            · simp only [hfs, if_false]
              obtain ⟨done', hm⟩ := h1.merge (s := s)
                (st' := ⟨setDeleted st.file st.freeAt.toNat (st.freeAtSize + 4 + s.body.length),
                  st.pos + 4 + s.body.length, st.freeAt, st.busyAt,
                  st.freeAtSize + 4 + s.body.length, bud⟩)
                hgt (fun hc => by rw [hd] at hc; cases hc)
                (by show st.freeAtSize + 4 + s.body.length < two31; omega) rfl rfl rfl rfl rfl
              exact reapIdxLoop_inv fuel _ _ _ hm hfuel
          · simp only [hgt, if_false]
            exact reapIdxLoop_inv fuel _ _ _
              (h1.keep (st' := ⟨st.file, st.pos + 4 + s.body.length, st.pos, st.busyAt, s.body.length, bud⟩) rfl rfl (Or.inl ⟨hd, rfl, rfl, rfl⟩)) hfuel
        · -- a record
          have hd' : s.dead = false := by simpa using hd
          have hraw : s.raw = s.body.length := by unfold GSpan.raw; simp [hd']
          have hlt : ¬ s.raw ≥ two31 := by omega
          rw [if_neg hlt]
          simp only [hraw]
          have hb : readAt st.file (st.pos + 4) s.body.length = some s.body := by
            rw [hfile, h.pos]; exact readAt_span_body _ _ _
          simp only [hb]
          have htag := (h.ok s (by simp)).2 hd'
          obtain ⟨r, hbz⟩ := idxBusy_some (m := m) (pos := st.pos + 4) (fnum := fnum) htag
          simp only [hbz]
          cases r with
          | true =>
            simp only
            exact reapIdxLoop_inv fuel _ _ _
              (h1.keep (st' := ⟨st.file, st.pos + 4 + s.body.length, st.freeAt, st.pos, st.freeAtSize, bud⟩) rfl rfl (Or.inr ⟨hd', rfl, rfl⟩)) hfuel
          | false =>
            simp only
            have hnb : ¬ busyB m fnum (st.pos, s.body) := by
              unfold busyB; simp only; rw [hbz]; simp
            by_cases hgt : st.freeAt > st.busyAt
            · simp only [hgt, if_true]
              by_cases hfs : st.freeAtSize + 4 + s.body.length ≥ two31
              · simp only [hfs, if_true]
                have : (st.pos : Int).toNat = st.pos := by simp
                simp only [this]
                exact reapIdxLoop_inv fuel _ _ _
                  (h1.kill (st' := ⟨setDeleted st.file st.pos s.body.length, st.pos + 4 + s.body.length, st.pos,
                    st.busyAt, s.body.length, bud⟩) hd' hnb rfl rfl rfl rfl rfl) hfuel
              · simp only [hfs, if_false]
                obtain ⟨done', hm⟩ := h1.merge (s := s)
                  (st' := ⟨setDeleted st.file st.freeAt.toNat (st.freeAtSize + 4 + s.body.length),
                    st.pos + 4 + s.body.length, st.freeAt, st.busyAt,
                    st.freeAtSize + 4 + s.body.length, bud⟩)
                  hgt (fun _ => hnb)
                  (by show st.freeAtSize + 4 + s.body.length < two31; omega) rfl rfl rfl rfl rfl
                exact reapIdxLoop_inv fuel _ _ _ hm hfuel
            · simp only [hgt, if_false]
              have : (st.pos : Int).toNat = st.pos := by simp
              simp only [this]
              exact reapIdxLoop_inv fuel _ _ _
                (h1.kill (st' := ⟨setDeleted st.file st.pos s.body.length, st.pos + 4 + s.body.length, st.pos,
                  st.busyAt, s.body.length, bud⟩) hd' hnb rfl rfl rfl rfl rfl) hfuel

end Sth

namespace Sth

theorem reapIdxLoop_ne_stale (m : Mem) (fnum : Nat) : ∀ (fuel : Nat) (st : ReapSt),
    (reapIdxLoop m fnum fuel st).1 ≠ .stale
  | 0, st => by simp [reapIdxLoop]
  | fuel + 1, st => by
    rw [reapIdxLoop]
    simp only
    repeat' split
    all_goals first
      | exact reapIdxLoop_ne_stale m fnum fuel _
      | simp

theorem reapIndexRecords_ok {m : Mem} {fnum : Nat} {ss0 : List GSpan}
    (hok : ∀ s ∈ ss0, IdxSpanOK m.bits s) (budget : Budget) :
    ∃ ss', (reapIndexRecords m fnum (gbytes ss0) budget).2.1 = gbytes ss' ∧
      Reaped m fnum m.bits ss0 ss' ∧
      ((reapIndexRecords m fnum (gbytes ss0) budget).1 = .stale → ss' = []) := by
  unfold reapIndexRecords
  by_cases hem : (gbytes ss0).isEmpty = true
  · rw [if_pos hem]
    have : ss0 = [] := gbytes_eq_nil (List.isEmpty_iff.mp hem)
    subst this
    exact ⟨[], rfl, ⟨by simp, by simp, by simp [liveAt]⟩, fun _ => rfl⟩
  · rw [if_neg hem]
    have h0 : LoopInv m fnum m.bits ss0 { file := gbytes ss0, budget := budget } [] ss0 :=
      ⟨rfl, rfl, ⟨[], rfl, rfl, by simp, by simp [liveAt]⟩, hok, by simp, by simp⟩
    obtain ⟨done, rest, hinv, hk⟩ := reapIdxLoop_inv ((gbytes ss0).length + 2) _ [] ss0 h0
      (by have := gbytes_length_ge ss0; omega)
    have hns := reapIdxLoop_ne_stale m fnum ((gbytes ss0).length + 2)
      { file := gbytes ss0, budget := budget }
    cases hres : reapIdxLoop m fnum ((gbytes ss0).length + 2) { file := gbytes ss0, budget := budget } with
    | mk r st =>
    rw [hres] at hinv hk hns
    simp only at hinv hk hns ⊢
    obtain ⟨done0, o1, o2, o3, o4⟩ := hinv.orig
    -- the general case: whatever has been processed, followed by the untouched rest
    have hgen : Reaped m fnum m.bits ss0 (done ++ rest) := by
      refine ⟨hinv.ok, ?_, ?_⟩
      · rw [o1, liveAt_append, liveAt_append, o2]
        intro x hx
        simp only [List.mem_append] at hx ⊢
        rcases hx with hx | hx
        · exact Or.inl (o3 x hx)
        · exact Or.inr hx
      · rw [o1, liveAt_append, liveAt_append, o2]
        intro x hx hb
        simp only [List.mem_append] at hx ⊢
        rcases hx with hx | hx
        · exact Or.inl (o4 x hx hb)
        · exact Or.inr hx
    cases r with
    | kept =>
      have hr : rest = [] := hk rfl
      subst hr
      simp only
      by_cases hgt : st.freeAt > st.busyAt
      · rw [if_pos hgt]
        obtain ⟨init, b1, e1, e2, e3⟩ := hinv.free hgt
        subst e1
        refine ⟨init, ?_, ?_, ?_⟩
        · simp only
          have : st.freeAt.toNat = (gbytes init).length := by rw [e2]; simp
          rw [this, hinv.file]
          simp only [List.append_nil, gbytes_append]
          exact truncateTo_at _ _
        · refine ⟨fun s hs => hinv.ok s (by simp [hs]), ?_, ?_⟩
          · intro x hx
            have := hgen.sub x (by simpa [liveAt_snoc_dead] using hx)
            exact this
          · intro x hx hb
            have := hgen.busy x hx hb
            simpa [liveAt_snoc_dead] using this
        · simp only
          intro hst
          split at hst
          · rename_i h0'
            rw [e2] at h0'
            have : (gbytes init).length = 0 := by omega
            exact gbytes_eq_nil (List.length_eq_zero_iff.mp this)
          · cases hst
      · rw [if_neg hgt]
        refine ⟨done, by simp only; rw [hinv.file]; simp, ?_, fun hc => by cases hc⟩
        simpa using hgen
    | stale => exact absurd rfl hns
    | deadline => exact ⟨done ++ rest, hinv.file, hgen, fun hc => by cases hc⟩
    | err => exact ⟨done ++ rest, hinv.file, hgen, fun hc => by cases hc⟩

end Sth
