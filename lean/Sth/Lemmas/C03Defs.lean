/-
C03 — shared definitions of the crash-image development: torn record prefixes, the semantic description
of a cut through an ordered family of append-only files, and the hypotheses under which the stream of
`appendStream` is the ordered stream of a flush.
Core Lean only.
-/
import Sth.Model.CrashImage
import Sth.Model.Recover
import Sth.Lemmas.C02

namespace Sth

/-- a strict prefix (possibly empty) of the bytes of an index record the scan would accept -/
def IsTorn (bits : Nat) (j : Bytes) : Prop :=
  ∃ b rl t, RecLogOK bits (b, rl) ∧ t < (idxRecBytes b rl).length ∧ j = (idxRecBytes b rl).take t

theorem isTorn_nil (bits : Nat) : IsTorn bits [] := by
  refine ⟨0, [], 0, ⟨Nat.pow_pos (by omega), ?_⟩, ?_, rfl⟩
  · simp [encodeRL]; unfold two31; omega
  · rw [idxRecBytes_length]; omega

/-- `fi` is an image of the family of files that grows from `fs` to `fs'` in ascending file order:
    files below the cut file `nc` are complete, the cut file holds a prefix of its growth (or nothing of
    it), the file after it is untouched or — when the cut file exists — already created, empty (the
    early creation on rollover), everything above is untouched. -/
def CutImg (fs fs' fi : NMap Bytes) : Prop :=
  ∃ nc, (∀ n, n < nc → fi.get? n = fs'.get? n) ∧
    (fi.get? nc = fs.get? nc ∨
      ∃ g t, fs'.get? nc = some (fileOf fs nc ++ g) ∧ fi.get? nc = some (fileOf fs nc ++ g.take t)) ∧
    (fi.get? (nc + 1) = fs.get? (nc + 1) ∨
      (fi.get? nc ≠ none ∧ fs.get? (nc + 1) = none ∧ fs'.get? (nc + 1) ≠ none ∧
        fi.get? (nc + 1) = some [])) ∧
    (∀ n, nc + 1 < n → fi.get? n = fs.get? n)

/-- the same for a single optional file (CID primary file, freelist) -/
def OptCut (old new cf : Option Bytes) : Prop :=
  cf = old ∨ ∃ g t, new = some (old.getD [] ++ g) ∧ cf = some (old.getD [] ++ g.take t)

/-- what a flush does to a family of numbered files: files `0..P` before, `0..P'` after, nothing below
    the current file `P` changes, file `P` is extended -/
structure SegOK (fs fs' : NMap Bytes) (P P' : Nat) : Prop where
  sorted : NMap.Sorted fs'
  le : P ≤ P'
  all : ∀ n, n ≤ P → fs.get? n ≠ none
  above : ∀ n, P < n → fs.get? n = none
  all' : ∀ n, n ≤ P' → fs'.get? n ≠ none
  above' : ∀ n, P' < n → fs'.get? n = none
  low : ∀ n, n < P → fs'.get? n = fs.get? n
  ext : ∃ g, fs'.get? P = some (fileOf fs P ++ g)

/-- a family that a flush may also leave alone altogether -/
def SegOK' (fs fs' : NMap Bytes) : Prop :=
  (fs' = fs ∧ NMap.Sorted fs) ∨ ∃ P P', SegOK fs fs' P P'

/-- a single optional file is left alone or extended -/
def OptExt (old new : Option Bytes) : Prop :=
  new = old ∨ ∃ g, new = some (old.getD [] ++ g)

end Sth
