/-
C04, milestone 1 — index GC cycles stutter: the `igc` step preserves the invariant and every
observation; the run lemma for every call except primary GC.
Core Lean only.
-/
import Sth.Lemmas.C04Reopen

namespace Sth

/-- every call except primary GC -/
def SOp.isC04a : SOp → Bool
  | .pgc .. => false
  | _ => true

theorem priGet_congr_disk {m : Mem} {d d' : Disk} (h1 : d'.pfiles = d.pfiles)
    (h2 : d'.cidfile = d.cidfile) (blk : Block) : priGet m d' blk = priGet m d blk := by
  unfold priGet
  rw [h1, h2]

section
variable {c : Cfg} {U : List (Bytes × Bytes)} {s : SState} {spec : Spec} {n B : Nat}

/-- one index GC cycle, complete or cut short at any poll -/
theorem step_igc (hI : Inv c U s spec n B) (hX : YInv c s) (hn : n < 1073741824)
    (scanFree : Bool) (budget : Budget) :
    ∃ g d', stepS s (.igc scanFree budget) = (⟨s.cfg, { s.m with gcResume := g }, d'⟩, .gc) ∧
      Inv c U ⟨s.cfg, { s.m with gcResume := g }, d'⟩ spec n B ∧
      YInv c ⟨s.cfg, { s.m with gcResume := g }, d'⟩ ∧
      (∀ b, idxRecords { s.m with gcResume := g } d' b = idxRecords s.m s.d b) ∧
      d'.pfiles = s.d.pfiles ∧ d'.cidfile = s.d.cidfile ∧ d'.phdr = s.d.phdr ∧ d'.free = s.d.free ∧
      d'.freeGc = s.d.freeGc ∧ d'.snap = s.d.snap := by
  obtain ⟨first, sp, hih, hl⟩ := hX.ilog
  have hp1 : 1 ≤ s.m.imax := hI.i.imax
  have hN : s.m.ifileNum < two32 := by
    have := hI.cnt.idx
    unfold two32; omega
  have hG0 : GI s.m s.d s.d c.bits c.ifs (hdrPfs c) :=
    ⟨⟨first, sp, hih, hl⟩, fun _ => rfl, hI.i.noFiles, rfl, rfl, rfl, rfl, rfl, rfl, rfl⟩
  obtain ⟨hG, g, hm⟩ := indexGC_ok hp1 hN hG0 scanFree budget
  cases hr : indexGC s.m s.d scanFree budget with
  | mk r0 rest =>
  obtain ⟨m', d', bud⟩ := rest
  rw [hr] at hG hm
  simp only at hG hm
  subst hm
  obtain ⟨f1, f2, f3, f4, f5, f6⟩ := hG.frame
  have hrec : ∀ b, idxRecords { s.m with gcResume := g } d' b = idxRecords s.m s.d b := by
    intro b
    have := hG.reads b
    unfold tbl at this
    show (match s.m.inext.get? b with
      | some rl => Except.ok (some rl)
      | none => match s.m.icur.get? b with
        | some rl => Except.ok (some rl)
        | none => readDiskBucket d'.ifiles s.m.imax ((s.m.buckets.get? b).getD 0)) =
      (match s.m.inext.get? b with
      | some rl => Except.ok (some rl)
      | none => match s.m.icur.get? b with
        | some rl => Except.ok (some rl)
        | none => readDiskBucket s.d.ifiles s.m.imax ((s.m.buckets.get? b).getD 0))
    rw [this]
  obtain ⟨first', sp', e1, e2⟩ := hG.log
  refine ⟨g, d', ?_, ?_, ?_, hrec, f1, f2, f3, f4, f5, f6⟩
  · simp only [stepS, hr]
  · refine ⟨hI.kind, hI.imm, hI.bits8, hI.bits31, ?_, ?_, ?_, ⟨hI.cnt.mh, hI.cnt.cid, hI.cnt.idx⟩,
      hI.nodup, hI.w⟩
    · apply AInv.mono hI.a
      · intro blk k v _ hg
        show priGet { s.m with gcResume := g } d' blk = _
        have : priGet { s.m with gcResume := g } d' blk = priGet s.m d' blk := rfl
        rw [this, priGet_congr_disk f1 f2]
        exact hg
      · intro blk hb; exact hb
      · exact hrec
    · exact hI.p.frame2 f1 f2 rfl rfl rfl rfl rfl rfl rfl rfl
    · refine ⟨hI.i.imax, ?_, ?_, hG.noFiles, hI.i.sorted⟩
      · intro b rl hb
        have := hG.reads b
        unfold tbl at this
        show readDiskBucket d'.ifiles s.m.imax ((s.m.buckets.get? b).getD 0) = _
        rw [this]
        exact hI.i.curDisk b rl hb
      · show (fileOf d'.ifiles s.m.ifileNum).length = s.m.ilength
        have : fileOf d'.ifiles s.m.ifileNum = fileOf s.d.ifiles s.m.ifileNum := by
          unfold fileOf; rw [hG.last]
        rw [this]
        exact hI.i.len
  · refine ⟨hX.cfg, hX.bits, hX.imax, hX.pmax, ⟨first', sp', e1, e2.of_gcResume g⟩, ?_, hX.inextLt⟩
    intro hk
    obtain ⟨pf, q1, q2, q3⟩ := hX.phdr hk
    exact ⟨pf, by show d'.phdr = _; rw [f3]; exact q1, q2,
      fun f h1 h2 => by show d'.pfiles.get? f ≠ none; rw [f1]; exact q3 f h1 h2⟩

/-- one step, for every call except primary GC -/
theorem step_ok4a (hc : c.Legal) (hU : Univ c.kind U) (hI : Inv c U s spec n B) (hX : YInv c s)
    (op : SOp) (hop : op.isC04a = true)
    (hkey : ∀ k, op.keyOf = some k → ∀ dig, keyClass c.kind k = .ok dig → (k, dig) ∈ U)
    (hn : n + 1 < 1073741824) (hB : B + op.bytes < two31) :
    (stepS s op).2 = (specStep c.kind c.imm spec op).2 ∧
      Inv c U (stepS s op).1 (specStep c.kind c.imm spec op).1 (n + 1) (B + op.bytes) ∧
      YInv c (stepS s op).1 := by
  cases op with
  | put k v =>
    obtain ⟨h1, h2⟩ := step_ok hU hI (.put k v) rfl hkey hn hB
    refine ⟨h1, h2, hX.of_shape (putShape hU hI k v (hkey k rfl) hn hB) (putMem_bits _ _ _)
      (putMem_imax _ _ _) (putMem_pmax _ _ _) (putMem_pfileNum _ _ _) (putMem_ifileNum _ _ _)
      (putMem_buckets _ _ _)⟩
  | get k =>
    obtain ⟨h1, h2⟩ := step_ok hU hI (.get k) rfl hkey hn hB
    refine ⟨h1, h2, ?_⟩
    rw [(step_get hU hI k (hkey k rfl)).1]; exact hX
  | has k =>
    obtain ⟨h1, h2⟩ := step_ok hU hI (.has k) rfl hkey hn hB
    refine ⟨h1, h2, ?_⟩
    rw [(step_has hU hI k (hkey k rfl)).1]; exact hX
  | size k =>
    obtain ⟨h1, h2⟩ := step_ok hU hI (.size k) rfl hkey hn hB
    refine ⟨h1, h2, ?_⟩
    rw [(step_size hU hI k (hkey k rfl)).1]; exact hX
  | rm k =>
    obtain ⟨h1, h2⟩ := step_ok hU hI (.rm k) rfl hkey hn hB
    exact ⟨h1, h2, hX.of_shape (rmShape hU hI k (hkey k rfl)) rfl rfl rfl rfl rfl rfl⟩
  | flush order =>
    obtain ⟨m', d', f1, f2, f3, _⟩ := flush_of_inv4 hU hI hX (by omega) hB order
    simp only [stepS, f1, specStep, true_and]
    exact ⟨f2.mono (by omega) (Nat.le_refl _), f3⟩
  | iter order =>
    obtain ⟨m', d', f1, f2, f3, f4⟩ := flush_of_inv4 hU hI hX (by omega) hB order
    have hU' : Univ m'.kind U := by have := f2.kind; rw [this]; exact hU
    obtain ⟨L, l1, l2⟩ := storeIter_ok hU' f2.bits31 f2.a f2.i f4 f2.nodup
    simp only [stepS, f1, l1, specStep]
    refine ⟨?_, f2.mono (by omega) (Nat.le_refl _), f3⟩
    rw [l2]
  | reopen order us =>
    obtain ⟨m', d', r1, r2, r3, _⟩ := step_reopen4 hc hU hI hX (by omega) hB order us
    rw [r1]
    simp only [specStep, true_and]
    exact ⟨r2.mono (by omega) (Nat.le_refl _), r3⟩
  | igc sf bud =>
    obtain ⟨g, d', r1, r2, r3, _⟩ := step_igc hI hX (by omega) sf bud
    rw [r1]
    simp only [specStep, true_and]
    exact ⟨r2.mono (by omega) (Nat.le_refl _), r3⟩
  | pgc a b => cases hop

end

theorem run_ok4a {c : Cfg} {U : List (Bytes × Bytes)} (hc : c.Legal) (hU : Univ c.kind U) :
    ∀ (ops : List SOp) (s : SState) (spec : Spec) (n B : Nat),
    Inv c U s spec n B → YInv c s → (∀ op ∈ ops, op.isC04a = true) →
    (∀ op ∈ ops, ∀ k, op.keyOf = some k → ∀ dig, keyClass c.kind k = .ok dig → (k, dig) ∈ U) →
    n + ops.length < 1073741824 → B + (ops.map SOp.bytes).sum < two31 →
    (runS s ops).2 = (specRun c.kind c.imm spec ops).2 ∧
      Inv c U (runS s ops).1 (specRun c.kind c.imm spec ops).1 (n + ops.length)
        (B + (ops.map SOp.bytes).sum) ∧ YInv c (runS s ops).1
  | [], _, _, _, _, hI, hX, _, _, _, _ => ⟨rfl, hI, hX⟩
  | op :: ops, s, spec, n, B, hI, hX, ha, hk, hn, hB => by
    simp only [List.length_cons, List.map_cons, List.sum_cons] at hn hB ⊢
    obtain ⟨h1, h2, h3⟩ := step_ok4a hc hU hI hX op (ha op (by simp)) (hk op (by simp)) (by omega)
      (by omega)
    obtain ⟨i1, i2, i3⟩ := run_ok4a hc hU ops (stepS s op).1 (specStep c.kind c.imm spec op).1 (n + 1)
      (B + op.bytes) h2 h3 (fun o ho => ha o (by simp [ho])) (fun o ho => hk o (by simp [ho]))
      (by omega) (by omega)
    refine ⟨by rw [runS_cons, specRun_cons, h1, i1], ?_, by rw [runS_cons_fst]; exact i3⟩
    rw [runS_cons_fst, specRun_cons_fst]
    have e1 : n + (ops.length + 1) = n + 1 + ops.length := by omega
    have e2 : B + (op.bytes + (ops.map SOp.bytes).sum) = B + op.bytes + (ops.map SOp.bytes).sum := by
      omega
    rw [e1, e2]
    exact i2

theorem yinv_init (c : Cfg) (hc : c.Legal) (s : SState) (hi : initS c = some s) : YInv c s := by
  have hlog : ∀ (m : Mem) (d : Disk), m.ifileNum = 0 → m.buckets = [] → d.ifiles = [(0, [])] →
      IdxLog m d 0 (fun _ => []) := by
    intro m d e1 e2 e3
    have ht : ∀ b, tbl m b = 0 := by intro b; unfold tbl; rw [e2]; rfl
    refine ⟨Nat.zero_le _, fun f hf => by omega, ?_, ?_, ?_, ?_⟩
    · intro f _ hf
      rw [e1] at hf
      have : f = 0 := by omega
      subst this
      rw [e3]
      rfl
    · intro f _ _ s hs; cases hs
    · intro b hb; exact absurd (ht b) hb
    · intro f _ _ x hx; simp [liveAt] at hx
  rcases (by cases c.kind <;> simp : c.kind = .mh ∨ c.kind = .cid) with hk | hk
  · rw [initS_mh c hc hk] at hi
    cases hi
    have hp : hdrPfs c = c.pfs := by unfold hdrPfs; simp only [hk]
    refine ⟨rfl, rfl, rfl, hp.symm, ⟨0, _, by rw [hp], hlog _ _ rfl rfl rfl⟩, ?_,
      fun b rl hb => (by cases hb)⟩
    intro _
    refine ⟨0, rfl, Nat.le_refl _, ?_⟩
    intro f _ hf
    have hf' : f ≤ 0 := hf
    have : f = 0 := by omega
    subst this
    simp [NMap.get?]
  · rw [initS_cid c hc hk] at hi
    cases hi
    have hp : hdrPfs c = 0 := by unfold hdrPfs; simp only [hk]
    refine ⟨rfl, rfl, rfl, hp.symm, ⟨0, _, by rw [hp], hlog _ _ rfl rfl rfl⟩, ?_,
      fun b rl hb => (by cases hb)⟩
    intro hk'; rw [hk] at hk'; cases hk'

/-- the store with index GC cycles at arbitrary positions refines the map -/
theorem store_refines_map_igc (c : Cfg) (hc : c.Legal) (ops : List SOp)
    (ha : ∀ op ∈ ops, op.isC04a = true) (hk : KeysOK c.kind ops)
    (hs : SizesOK ops) (s : SState) (hi : initS c = some s) :
    (runS s ops).2 = (specRun c.kind c.imm [] ops).2 ∧
      Inv c (digestsOf c.kind ops) (runS s ops).1 (specRun c.kind c.imm [] ops).1 (0 + ops.length)
        (0 + (ops.map SOp.bytes).sum) ∧ YInv c (runS s ops).1 := by
  have hU := univ_of_keysOK hk (keysExact_all c.kind ops)
  apply run_ok4a hc hU ops s [] 0 0 (inv_init c hc _ s hi) (yinv_init c hc s hi) ha
  · intro op ho k hkey dig hcls
    exact mem_digestsOf ho hkey hcls
  · have := hs.1; omega
  · have := hs.2.1; omega

end Sth

namespace Sth

/-- in a state satisfying the invariants, an index GC cycle changes no observation and nothing outside
    the index files, the index header and the resume point -/
theorem igc_stutters {c : Cfg} {U : List (Bytes × Bytes)} {s : SState} {spec : Spec} {n B : Nat}
    (hI : Inv c U s spec n B) (hX : YInv c s) (hn : n < 1073741824)
    (scanFree : Bool) (budget : Budget) :
    (stepS s (.igc scanFree budget)).2 = .gc ∧
    (∃ g, (stepS s (.igc scanFree budget)).1.m = { s.m with gcResume := g }) ∧
    (∀ b, idxRecords (stepS s (.igc scanFree budget)).1.m (stepS s (.igc scanFree budget)).1.d b =
      idxRecords s.m s.d b) ∧
    (∀ blk, priGet (stepS s (.igc scanFree budget)).1.m (stepS s (.igc scanFree budget)).1.d blk =
      priGet s.m s.d blk) ∧
    (stepS s (.igc scanFree budget)).1.d.pfiles = s.d.pfiles ∧
    (stepS s (.igc scanFree budget)).1.d.cidfile = s.d.cidfile ∧
    (stepS s (.igc scanFree budget)).1.d.phdr = s.d.phdr ∧
    (stepS s (.igc scanFree budget)).1.d.free = s.d.free ∧
    (stepS s (.igc scanFree budget)).1.d.freeGc = s.d.freeGc := by
  obtain ⟨g, d', r1, _, _, r4, f1, f2, f3, f4, f5, _⟩ := step_igc hI hX hn scanFree budget
  rw [r1]
  refine ⟨rfl, ⟨g, rfl⟩, r4, ?_, f1, f2, f3, f4, f5⟩
  intro blk
  show priGet { s.m with gcResume := g } d' blk = _
  have : priGet { s.m with gcResume := g } d' blk = priGet s.m d' blk := rfl
  rw [this, priGet_congr_disk f1 f2]

theorem reopen_observations4 {c : Cfg} {U : List (Bytes × Bytes)} {s : SState} {spec : Spec} {n B : Nat}
    (hc : c.Legal) (hU : Univ c.kind U) (hI : Inv c U s spec n B)
    (hX : YInv c s) (hn : n < 1073741824) (hB : B < two31) (order : List Nat) (us : Bool) :
    (stepS s (.reopen order us)).2 = .gc ∧
    (∀ b, idxRecords (stepS s (.reopen order us)).1.m (stepS s (.reopen order us)).1.d b =
      idxRecords s.m s.d b) ∧
    (∀ blk k v, priGet s.m s.d blk = .got k v →
      priGet (stepS s (.reopen order us)).1.m (stepS s (.reopen order us)).1.d blk = .got k v) := by
  obtain ⟨m', d', r1, _, _, o1, o2⟩ := step_reopen4 hc hU hI hX hn hB order us
  rw [r1]
  exact ⟨rfl, o1, o2⟩

end Sth
