/-
C07 with primary GC — the state invariant `CInvG` for multihash stores along histories with BOTH
collectors, over C04's GC invariant `GInv` (which replaces C01's `Inv` once primary GC kills records that
are still in the primary's read pool).

`CInvG` = `GInv` ∧ the tags of the bucket table (`TagInv`) ∧ the consistency `DiskOK` of the disk
against the live table.  It is preserved by Put / Get / Has / GetSize / Remove (the disk and the table
do not change), re-derived after Flush / iteration / Close+reopen (the state reached is quiesced, and
there `GInv` says where every index entry's record lies and that no freelist entry names one), kept by
index GC cycles (the record lists the table points at stay in place byte for byte), and kept by a
primary GC cycle THAT STARTS WITH AN EMPTY INDEX POOL: the two hand-over passes end in a quiesced state,
and the loop over the closed files keeps every record span in place (Sth/Lemmas/C07GPri.lean) and
touches neither the index side of the disk nor the freelist files.  Without that premise the statement
is false (known finding D11 and its relocation variant, Sth/Props/C07G.lean).
Core Lean only.
-/
import Sth.Lemmas.C07GPri
import Sth.Lemmas.C07GInv
import Sth.Lemmas.C04M3

namespace Sth

/-! ### calls that leave the bucket table alone -/

/-- a call that changes the memory state without touching the bucket table -/
structure TblSame (m m' : Mem) : Prop where
  buckets : m'.buckets = m.buckets
  imax : m'.imax = m.imax

theorem TblSame.refl (m : Mem) : TblSame m m := ⟨rfl, rfl⟩
theorem TblSame.trans {a b c : Mem} (h1 : TblSame a b) (h2 : TblSame b c) : TblSame a c :=
  ⟨h2.buckets.trans h1.buckets, h2.imax.trans h1.imax⟩

theorem idxRemove_tbl {m m' : Mem} {d : Disk} {ik : Bytes} {r : Bool}
    (h : idxRemove m d ik = .ok (m', r)) : TblSame m m' := by
  unfold idxRemove at h
  repeat' split at h
  all_goals (cases h <;> exact ⟨rfl, rfl⟩)

theorem idxPut_tbl {m m' : Mem} {d : Disk} {ik : Bytes} {loc : Block}
    (h : idxPut m d ik loc = .ok m') : TblSame m m' := by
  unfold idxPut at h
  repeat' split at h
  all_goals (cases h <;> exact ⟨rfl, rfl⟩)

theorem idxUpdate_tbl {m m' : Mem} {d : Disk} {ik : Bytes} {loc : Block}
    (h : idxUpdate m d ik loc = .ok m') : TblSame m m' := by
  unfold idxUpdate at h
  repeat' split at h
  all_goals (cases h <;> exact ⟨rfl, rfl⟩)

theorem gpkd_tbl {m m' : Mem} {d : Disk} {blk : Block} {ik : Bytes} {o : Option Bytes}
    (h : getPrimaryKeyData m d blk ik = .ok (m', o)) : TblSame m m' := by
  unfold getPrimaryKeyData at h
  simp only at h
  repeat' split at h
  all_goals (cases h <;> first | exact ⟨rfl, rfl⟩ | exact idxRemove_tbl (by assumption))

theorem putMem_tbl (m : Mem) (k v : Bytes) : TblSame m (putMem m k v) :=
  ⟨putMem_buckets _ _ _, putMem_imax _ _ _⟩

theorem storePut_tbl (m : Mem) (d : Disk) (k v : Bytes) : TblSame m (storePut m d k v).1 := by
  unfold storePut
  cases hik : indexKeyOf m.kind k with
  | none => exact TblSame.refl _
  | some ik =>
    simp only
    cases hg : idxGet m d ik with
    | error e => exact TblSame.refl _
    | ok prev =>
      simp only
      have hnew : ∀ m1, TblSame m m1 →
          TblSame m (match idxPut (putMem m1 k v) d ik (nextBlk m1 (k.length + v.length)) with
            | .error e => (putMem m1 k v, PutRes3.err e)
            | .ok m3 => (m3, PutRes3.ok)).1 := by
        intro m1 t1
        cases hp : idxPut (putMem m1 k v) d ik (nextBlk m1 (k.length + v.length)) with
        | error e => exact t1.trans (putMem_tbl _ _ _)
        | ok m3 => exact (t1.trans (putMem_tbl _ _ _)).trans (idxPut_tbl hp)
      cases prev with
      | none =>
        simp only [priPut_eq]
        exact hnew m (TblSame.refl m)
      | some blk =>
        simp only
        cases hgp : getPrimaryKeyData m d blk ik with
        | error e => exact TblSame.refl _
        | ok r =>
          obtain ⟨m1, sv⟩ := r
          have t1 := gpkd_tbl hgp
          simp only [priPut_eq]
          cases sv with
          | none => exact hnew m1 t1
          | some sv0 =>
            simp only
            split
            · exact t1
            · split
              · exact t1
              · cases hu : idxUpdate (putMem m1 k v) d ik (nextBlk m1 (k.length + v.length)) with
                | error e => exact t1.trans (putMem_tbl _ _ _)
                | ok m3 =>
                  exact ⟨((t1.trans (putMem_tbl _ _ _)).trans (idxUpdate_tbl hu)).buckets,
                    ((t1.trans (putMem_tbl _ _ _)).trans (idxUpdate_tbl hu)).imax⟩

theorem storeRemove_tbl (m : Mem) (d : Disk) (k : Bytes) : TblSame m (storeRemove m d k).1 := by
  unfold storeRemove
  cases hik : indexKeyOf m.kind k with
  | none => exact TblSame.refl _
  | some ik =>
    simp only
    cases hg : idxGet m d ik with
    | error e => exact TblSame.refl _
    | ok prev =>
      cases prev with
      | none => exact TblSame.refl _
      | some blk =>
        simp only
        cases hgp : getPrimaryKeyData m d blk ik with
        | error e => exact TblSame.refl _
        | ok r =>
          obtain ⟨m1, sv⟩ := r
          have t1 := gpkd_tbl hgp
          cases sv with
          | none => exact t1
          | some sv0 =>
            simp only
            cases hr : idxRemove m1 d ik with
            | error e => exact t1
            | ok r2 =>
              obtain ⟨m2, removed⟩ := r2
              have t2 := idxRemove_tbl hr
              simp only
              split
              · exact ⟨(t1.trans t2).buckets, (t1.trans t2).imax⟩
              · exact t1.trans t2



/-! ### from the span log to the clauses of the check -/

/-- a record span of the primary log is a record at its location, for the check -/
theorem recAt_of_onDisk {m : Mem} {d : Disk} {pf : Nat} {psp : Nat → List GSpan} {blk : Block}
    {key val : Bytes} (hl : PriLog m d pf psp) (ho : OnDisk m pf psp blk (key ++ val))
    (hrn : readNode .mh (key ++ val) = some (key, val)) (hp : 1 ≤ m.pmax)
    (hf : m.pfileNum < two32) : RecAt .mh m.pmax pf d blk key val := by
  obtain ⟨f, lp, e1, e2, e3, e4, e5⟩ := ho
  obtain ⟨a, b, hs, eo⟩ := liveAt_split (psp f) 0 lp _ e4
  have hlen : (key ++ val).length < two31 := hl.ok f e2 e3 ⟨false, key ++ val⟩ (by rw [hs]; simp)
  refine ⟨by rw [e5]; simp, ⟨hrn, by simpa using hlen⟩, f, lp, gbytes a, gbytes b, hp,
    hl.starts f e2 e3 _ e4, by omega, e2, e1, ?_, by omega⟩
  rw [hl.files f e2 e3, hs, gbytes_append, gbytes_cons]
  have := prSpan_bytes ⟨blk, key, val⟩
  unfold prSpan at this
  simp only at this
  rw [this, List.append_assoc]

/-- what the check needs to know about an on-disk index entry of bucket `b`, on the span log -/
def EntSpan (m : Mem) (pf : Nat) (psp : Nat → List GSpan) (bits b : Nat) (e : Entry) : Prop :=
  ∃ key val dig, OnDisk m pf psp e.blk (key ++ val) ∧ readNode .mh (key ++ val) = some (key, val) ∧
    indexKeyOf .mh key = some dig ∧ bucketOfKey bits dig = some b ∧ e.pfx ≠ [] ∧
    pfx e.pfx (dig.drop (bits / 8))

/-- the clauses of the check for every non-empty bucket, with the entries located in the span log -/
def DiskSp (m : Mem) (d : Disk) (pf : Nat) (psp : Nat → List GSpan) (ih : IdxHeader)
    (buckets : NMap Nat) : Prop :=
  ∀ b pos, (b, pos) ∈ buckets → pos ≠ 0 →
    ∃ rl, BucketAt d.ifiles ih.max ih.first b pos rl ∧ (rl.map (·.pfx)).Pairwise klt ∧
      (rl.map (·.pfx)).Pairwise apart ∧ (rl.map (·.blk.off)).Nodup ∧
      (∀ e ∈ rl, EntSpan m pf psp ih.bits b e) ∧
      ∀ e ∈ rl, ∀ fb ∈ flEntries d ++ flGcEntries d, fb.off ≠ e.blk.off

theorem diskOK_of_sp {m : Mem} {d : Disk} {pf : Nat} {psp : Nat → List GSpan} {ih : IdxHeader}
    {buckets : NMap Nat} (h : DiskSp m d pf psp ih buckets) (hih : d.ihdr = some ih)
    (hph : d.phdr = some ⟨m.pmax, pf⟩) (hl : PriLog m d pf psp) (hp : 1 ≤ m.pmax)
    (hf : m.pfileNum < two32) : DiskOK .mh d buckets := by
  refine ⟨by rw [hih]; simp, fun _ => by rw [hph]; simp, ?_⟩
  intro ih' hih' b pos hmem hpos
  rw [hih] at hih'
  simp only [Option.some.injEq] at hih'
  subst hih'
  obtain ⟨rl, h1, h2, h3, h4, h5, h6⟩ := h b pos hmem hpos
  refine ⟨rl, h1, h2, h3, h4, ?_, h6⟩
  intro e he
  obtain ⟨key, val, dig, g1, g2, g3, g4, g5, g6⟩ := h5 e he
  have e1 : hdrPmax d = m.pmax := by unfold hdrPmax; rw [hph]
  have e2 : hdrPfirst d = pf := by unfold hdrPfirst; rw [hph]
  rw [e1, e2]
  exact ⟨key, val, dig, recAt_of_onDisk hl g1 g2 hp hf, g3, g4, g5, g6⟩

/-- the record spans move (or stay) and the index side and the freelist files stay -/
theorem DiskSp.transport {m m' : Mem} {d d' : Disk} {pf pf' : Nat} {psp psp' : Nat → List GSpan}
    {ih : IdxHeader} {buckets : NMap Nat} (h : DiskSp m d pf psp ih buckets)
    (hk : KeepAll m pf psp m' pf' psp') (hd : GoDisk d d') : DiskSp m' d' pf' psp' ih buckets := by
  intro b pos hmem hpos
  obtain ⟨rl, h1, h2, h3, h4, h5, h6⟩ := h b pos hmem hpos
  refine ⟨rl, by rw [hd.ifiles]; exact h1, h2, h3, h4, ?_, ?_⟩
  · intro e he
    obtain ⟨key, val, dig, g1, g2⟩ := h5 e he
    exact ⟨key, val, dig, hk _ _ g1, g2⟩
  · have e3 : flEntries d' = flEntries d := by unfold flEntries; rw [hd.free]
    have e4 : flGcEntries d' = flGcEntries d := by unfold flGcEntries; rw [hd.freeGc]
    rw [e3, e4]
    exact h6

theorem flGcEntries_of_flat {d : Disk} {l : List Block}
    (h : d.freeGc.getD [] = l.flatMap blockBytes)
    (hr : ∀ b ∈ l, b.off < two64 ∧ b.size < two32) : flGcEntries d = l := by
  unfold flGcEntries
  rw [h, parse_flat l _ [] hr (by rw [flat_length]; omega)]
  simp

section
variable {c : Cfg} {U : List (Bytes × Bytes)} {s : SState} {spec : Spec} {n B : Nat}

/-- a state with both write pools empty, on the GC invariant: the on-disk index is the index, every
    entry's record is a record span of the primary log, and no freelist entry names one -/
theorem diskSp_of_quiesced (hU : Univ c.kind U) (hG : GInv c U s spec n B) (hT : TagInv s.m s.d)
    {pf : Nat} {psp : Nat → List GSpan} (ze : EntOK s.m s.d pf psp) (zf : FlInv s.m s.d pf psp)
    (hin : s.m.inext = []) (hpn : s.m.pnext = []) :
    ∃ first, s.d.ihdr = some ⟨c.bits, c.ifs, first, hdrPfs c⟩ ∧
      DiskSp s.m s.d pf psp ⟨c.bits, c.ifs, first, hdrPfs c⟩ s.m.buckets := by
  have hU' : Univ s.m.kind U := hG.univ hU
  have hk : s.m.kind = .mh := hG.kind
  obtain ⟨first, sp, hih, hl⟩ := hG.y.ilog
  refine ⟨first, hih, ?_⟩
  intro b pos hmem hpos
  have hget : s.m.buckets.get? b = some pos := NMap.get?_of_mem_sorted hG.i.sorted hmem
  have htb : tbl s.m b = pos := by unfold tbl; rw [hget]; rfl
  obtain ⟨rl, hat0⟩ := hT b (by rw [hget]; exact hpos)
  have hat1 : BucketAt s.d.ifiles s.m.imax 0 b (tbl s.m b) rl := hat0
  have hat2 := hat1.raise hl
  rw [htb, hG.y.imax] at hat2
  have hrd : readDiskBucket s.d.ifiles s.m.imax ((s.m.buckets.get? b).getD 0) = .ok (some rl) := by
    rw [hget, Option.getD_some, hG.y.imax]
    exact readDiskBucket_of_at hat2
  have hrec : idxRecords s.m s.d b = .ok (some rl) := by
    unfold idxRecords
    rw [hin]
    simp only [NMap.get?_nil]
    cases hc : s.m.icur.get? b with
    | some rl' =>
      simp only
      have := hG.i.curDisk b rl' hc
      rw [hrd] at this
      cases this
      rfl
    | none => exact hrd
  obtain ⟨orl, h1, ho, hB⟩ := hG.a.recs b
  rw [hrec] at h1
  cases h1
  simp only [Option.getD_some] at ho hB
  have hent : ∀ e ∈ rl, EntSpan s.m pf psp c.bits b e := by
    intro e he
    obtain ⟨key, val, dig, g1, g2, g3, _, g5⟩ := (hB e he).own hU' hG.bits31
    obtain ⟨o1, o2⟩ := ho.own_pfx he g5
    obtain ⟨k', v', p1, p2⟩ := ze e.blk ⟨b, rl, e, hrec, he, rfl⟩
    rw [g1] at p1
    cases p1
    have hod : OnDisk s.m pf psp e.blk (key ++ val) := by
      rcases p2 with ⟨r, hr, _⟩ | h
      · rw [hpn] at hr; cases hr
      · exact h
    have hrn : readNode .mh (key ++ val) = some (key, val) := by
      have := readNode_append s.m.kind key val (hU'.exact _ g2)
      rw [hk] at this
      exact this
    refine ⟨key, val, dig, hod, hrn, ?_, ?_, o2, ?_⟩
    · have := (hU'.dig g2).1
      rw [hk] at this
      exact this
    · rw [← hG.y.bits]; exact g3
    · rw [← hG.y.bits]; exact o1
  refine ⟨rl, hat2, ho.sorted, ho.prefixFree, ?_, hent, ?_⟩
  · apply nodup_map_of_inj_on (g := fun x : Entry => x.blk.off) ho.distinctBlocks
    intro x hx y hy hoff
    obtain ⟨zpf, zpsp, _, zl, zze, _⟩ := hG.z
    have := (ent_off_unique hU' hk hG.bits31 hG.pmax1 hG.a zl zze hG.alloc hG.plen hrec hx hrec hy hoff).2
    rw [this]
  · intro e he fb hfb hoff
    obtain ⟨L1, L2, f1, f2, f3⟩ := zf
    have hr1 : ∀ x ∈ L1, x.off < two64 ∧ x.size < two32 := by
      intro x hx
      obtain ⟨_, _, _, q4, q5⟩ := f3 x (by simp [hx])
      exact ⟨q4, q5⟩
    have hr2 : ∀ x ∈ L2, x.off < two64 ∧ x.size < two32 := by
      intro x hx
      obtain ⟨_, _, _, q4, q5⟩ := f3 x (by simp [hx])
      exact ⟨q4, q5⟩
    have e1 : flEntries s.d = L1 := flEntries_of_flat (by rw [f1]; rfl) hr1
    have e2 : flGcEntries s.d = L2 := by
      rcases f2 with ⟨g1, g2⟩ | g1
      · subst g2
        exact flGcEntries_none g1
      · exact flGcEntries_of_flat (by rw [g1]; rfl) hr2
    rw [e1, e2] at hfb
    obtain ⟨_, q2, _⟩ := f3 fb (by
      simp only [List.mem_append] at hfb ⊢
      rcases hfb with h | h
      · exact Or.inl (Or.inr h)
      · exact Or.inr h)
    exact q2 e.blk ⟨b, rl, e, hrec, he, rfl⟩ hoff.symm

theorem GInv.pfile_lt (hG : GInv c U s spec n B) (hn : n < 1073741824) : s.m.pfileNum < two32 := by
  have h1 := hG.pfile_le
  have h2 : s.m.precFileNum ≤ n := hG.cntF
  unfold two32; omega

/-- a quiesced state on the GC invariant: the disk is consistent with the live table -/
theorem diskOK_of_quiesced_g (hU : Univ c.kind U) (hG : GInv c U s spec n B) (hn : n < 1073741824)
    (hT : TagInv s.m s.d) (hin : s.m.inext = []) (hpn : s.m.pnext = []) :
    DiskOK .mh s.d s.m.buckets := by
  obtain ⟨pf, psp, zh, zl, ze, zf⟩ := hG.z
  obtain ⟨first, hih, hsp⟩ := diskSp_of_quiesced hU hG hT ze zf hin hpn
  exact diskOK_of_sp hsp hih zh zl hG.pmax1 (hG.pfile_lt hn)

end


/-! ### the invariant and its preservation -/

/-- the state invariant of C07 for multihash stores along histories with both collectors -/
structure CInvG (c : Cfg) (U : List (Bytes × Bytes)) (s : SState) (spec : Spec) (n B : Nat) : Prop where
  g : GInv c U s spec n B
  tag : TagInv s.m s.d
  ok : DiskOK .mh s.d s.m.buckets

theorem stepS_put_fst (s : SState) (k v : Bytes) :
    (stepS s (.put k v)).1 = { s with m := (storePut s.m s.d k v).1 } := by
  simp only [stepS]
  cases h : storePut s.m s.d k v with
  | mk m r => cases r <;> rfl

theorem stepS_rm_fst (s : SState) (k : Bytes) :
    (stepS s (.rm k)).1 = { s with m := (storeRemove s.m s.d k).1 } := by
  simp only [stepS]
  cases h : storeRemove s.m s.d k with
  | mk m r => cases r <;> rfl

section
variable {c : Cfg} {U : List (Bytes × Bytes)} {s : SState} {spec : Spec} {n B : Nat}

/-- a call that writes nothing to the disk and leaves the table alone keeps the disk-side clauses -/
theorem CInvG.of_mem_step (h : CInvG c U s spec n B) {s' : SState} {spec' : Spec} {n' B' : Nat}
    (hG : GInv c U s' spec' n' B') (hd : s'.d = s.d) (ht : TblSame s.m s'.m) :
    CInvG c U s' spec' n' B' := by
  refine ⟨hG, ?_, by rw [hd, ht.buckets]; exact h.ok⟩
  unfold TagInv
  rw [hd, ht.buckets, ht.imax]
  exact h.tag

/-- a call that ends in a quiesced state re-establishes the consistency of the disk -/
theorem CInvG.of_quiesced (hU : Univ c.kind U) {s' : SState} {spec' : Spec} {n' B' : Nat}
    (hG : GInv c U s' spec' n' B') (hn : n' < 1073741824) (hT : TagInv s'.m s'.d)
    (hin : s'.m.inext = []) (hpn : s'.m.pnext = []) : CInvG c U s' spec' n' B' :=
  ⟨hG, hT, diskOK_of_quiesced_g hU hG hn hT hin hpn⟩

/-- every pooled record list can be written out and found again by the check -/
theorem GInv.tagOK (hU : Univ c.kind U) (hG : GInv c U s spec n B) (hB : B < two31) :
    ∀ b rl, s.m.inext.get? b = some rl → TagOK b rl := by
  have hU' := hG.univ hU
  intro b rl hb
  obtain ⟨orl, h1, h2, h3⟩ := hG.a.recs b
  have : idxRecords s.m s.d b = .ok (some rl) := by unfold idxRecords; rw [hb]
  rw [this] at h1
  cases h1
  simp only [Option.getD_some] at h2 h3
  refine ⟨inext_flushOK (m := s.m) (d := s.d) hU' hG.bits31 hG.a hG.w hB b rl hb,
    enc_lt31 hU' hG.bits8 hG.bits31 h2 h3 hG.w hB, ?_⟩
  have h4 := hG.y.inextLt b rl hb
  have h5 : 2 ^ s.m.bits ≤ 2 ^ 31 := Nat.pow_le_pow_right (by omega) hG.bits31
  unfold two32; omega

/-- primary flush, then index flush (the common part of Store.Flush and Store.Close) -/
theorem flushBoth_g (hU : Univ c.kind U) (hG : GInv c U s spec n B) (hn : n < 1073741824)
    (hB : B < two31) (order : List Nat) (hT : TagInv s.m s.d) :
    ∃ m1 d1 m2 d2, priFlush s.m s.d = some (m1, d1) ∧
      idxFlush m1 d1 (fixOrder order s.m.inext.keys) = (m2, d2) ∧
      GInv c U ⟨s.cfg, m2, d2⟩ spec n B ∧ TagInv m2 d2 ∧ m2.inext = [] ∧ m2.pnext = [] := by
  obtain ⟨m1, d1, p1, hG1, hp1, hi1, _⟩ := priFlush_g hU hG hn
  obtain ⟨f1, f2⟩ := fixOrder_ok order s.m.inext
  obtain ⟨m2, d2, i1, hG2, hin, hpn2, _⟩ := idxFlush_g (s := ⟨s.cfg, m1, d1⟩) hU hG1 hn hB
    (order := fixOrder order s.m.inext.keys) (by rw [hi1]; exact f1) (by rw [hi1]; exact f2)
  have hT1 : TagInv m1 d1 := by
    obtain ⟨pc, fn, len, files, rfl, rfl⟩ := priFlush_shape_mh hG.kind p1
    exact hT
  have hfn : m1.ifileNum + (fixOrder order s.m.inext.keys).length < two32 := by
    have h1 : m1.ifileNum + m1.inext.length ≤ n := hG1.cntI
    rw [hi1] at h1
    unfold two32; omega
  have htag := idxFlush_tag (order := fixOrder order s.m.inext.keys) hG1.i
    (GInv.tagOK (s := ⟨s.cfg, m1, d1⟩) hU hG1 hB) hfn hT1
  rw [i1] at htag
  exact ⟨m1, d1, m2, d2, p1, i1, hG2, htag, hin, by rw [hpn2]; exact hp1⟩

/-- Store.Flush -/
theorem flush_c07g (hU : Univ c.kind U) (hG : GInv c U s spec n B) (hn : n < 1073741824)
    (hB : B < two31) (order : List Nat) (hT : TagInv s.m s.d) :
    ∃ m' d', storeFlush s.m s.d (fixOrder order s.m.inext.keys) = some (m', d') ∧
      GInv c U ⟨s.cfg, m', d'⟩ spec n B ∧ TagInv m' d' ∧ m'.inext = [] ∧ m'.pnext = [] := by
  by_cases hout : outstanding s.m = true
  · obtain ⟨m1, d1, m2, d2, p1, i1, hG2, hT2, hin, hpn⟩ := flushBoth_g hU hG hn hB order hT
    obtain ⟨z1, z2, fr, z3⟩ := zinv_flFlush hG2.z
    rw [z3] at z1
    refine ⟨{ m2 with flpool := [] }, { d2 with free := fr }, ?_, hG2.frame_ff [] fr d2.snap z1, hT2,
      hin, hpn⟩
    unfold storeFlush commit
    rw [if_pos hout]
    simp only [p1, i1, z3]
  · unfold outstanding at hout
    simp only [Bool.or_eq_true, Bool.not_eq_true', not_or, Bool.not_eq_false] at hout
    refine ⟨s.m, s.d, ?_, hG, hT, List.isEmpty_iff.mp hout.1, List.isEmpty_iff.mp hout.2⟩
    unfold storeFlush outstanding
    rw [if_neg (by simp [hout.1, hout.2])]

/-- Close + reopen -/
theorem reopen_c07g (hc : c.Legal) (hU : Univ c.kind U) (hG : GInv c U s spec n B)
    (hn : n < 1073741824) (hB : B < two31) (order : List Nat) (us : Bool) (hT : TagInv s.m s.d) :
    ∃ m' d', stepS s (.reopen order us) = (⟨s.cfg, m', d'⟩, .gc) ∧
      GInv c U ⟨s.cfg, m', d'⟩ spec n B ∧ TagInv m' d' ∧ m'.inext = [] ∧ m'.pnext = [] := by
  obtain ⟨m1, d1, m2, d2, p1, i1, hG2, hT2, hin, hpn⟩ := flushBoth_g hU hG hn hB order hT
  obtain ⟨fr, hcl, hfr⟩ := storeClose_eq4 p1 i1
  have hcfg : s.cfg = c := hG.y.cfg
  have hkind : m2.kind = c.kind := by have : m2.kind = .mh := hG2.kind; rw [this, hG.kmh]
  obtain ⟨first, sp, hih, hl⟩ := hG2.y.ilog
  have hbits : m2.bits = c.bits := hG2.y.bits
  have himax : m2.imax = c.ifs := hG2.y.imax
  have hl' : IdxLogT c.bits c.ifs m2.ifileNum d2.ifiles (tbl m2) first sp := by
    have : IdxLogT m2.bits m2.imax m2.ifileNum d2.ifiles (tbl m2) first sp := hl
    rw [hbits, himax] at this; exact this
  obtain ⟨pf, q1, q2, q3⟩ := hG2.y.phdr hG.kmh
  have halloc : m2.pfileNum = m2.precFileNum ∧ m2.plength = m2.precPos := by
    have := hG2.alloc
    have e : m2.pnext = [] := hpn
    simp only [e] at this
    exact this
  obtain ⟨m', d', o1, hr, o2, o3, o4⟩ := open_after_close hc (m2 := m2) (d2 := d2) fr us hkind hG2.imm
    hbits himax hG2.y.pmax hih hl' (hG2.i.noFiles _ (by show m2.ifileNum < m2.ifileNum + 1; omega))
    hG2.i.sorted (fun _ => q1) (fun _ => q2) (fun _ => q3)
    (fun _ => hG2.pno _ (by show m2.pfileNum < m2.pfileNum + 1; omega)) (fun _ => halloc)
    (fun _ => hG2.plen) (fun hk => by have : m2.kind = .mh := hG2.kind; rw [this] at hk; cases hk)
  have hG' := reopen_g hU hG2 hn hin hpn hr o2 (by rw [o3, hfr]) o4
  refine ⟨m', d', ?_, by rw [hcfg]; exact hG', ?_, hr.inext, hr.pnext⟩
  · unfold stepS
    simp only [hcl, hcfg, o1]
  · intro b hb
    show ∃ rl, BucketAt d'.ifiles m'.imax 0 b ((m'.buckets.get? b).getD 0) rl
    have hb' : (m'.buckets.get? b).getD 0 ≠ 0 := hb
    rw [hr.table b] at hb' ⊢
    obtain ⟨rl, hh⟩ := hT2 b hb'
    rw [hr.imax]
    exact ⟨rl, hh.congr hr.ifiles⟩

/-- one index GC cycle, complete or cut short at any poll -/
theorem igc_c07g (h : CInvG c U s spec n B) (hn : n < 1073741824) (scanFree : Bool)
    (budget : Budget) : CInvG c U (stepS s (.igc scanFree budget)).1 spec n B := by
  have hG := h.g
  obtain ⟨g, d', r1, hG'⟩ := step_igc_g hG hn scanFree budget
  obtain ⟨first, sp, hih, hl⟩ := hG.y.ilog
  have hp1 : 1 ≤ s.m.imax := hG.i.imax
  have hN : s.m.ifileNum < two32 := by
    have := hG.cntI
    unfold two32; omega
  have hG0 : GI s.m s.d s.d c.bits c.ifs (hdrPfs c) :=
    ⟨⟨first, sp, hih, hl⟩, fun _ => rfl, hG.i.noFiles, rfl, rfl, rfl, rfl, rfl, rfl, rfl⟩
  have hK := indexGC_keep hp1 hN hG0 scanFree budget
  have hGI := (indexGC_ok hp1 hN hG0 scanFree budget).1
  have hd' : (indexGC s.m s.d scanFree budget).2.2.1 = d' := by
    have := congrArg (fun x => x.1.d) r1
    simp only [stepS] at this
    exact this
  rw [hd'] at hK hGI
  obtain ⟨f1, f2, f3, f4, f5, f6⟩ := hGI.frame
  rw [r1]
  have hT' : TagInv { s.m with gcResume := g } d' := tagInv_gk hK h.tag g
  refine ⟨hG', hT', ?_⟩
  obtain ⟨first', sp', hih', hl'⟩ := hG'.y.ilog
  have hih'' : d'.ihdr = some ⟨c.bits, c.ifs, first', hdrPfs c⟩ := hih'
  refine ⟨by rw [hih'']; simp, fun hk => by show d'.phdr ≠ none; rw [f3]; exact h.ok.phdr hk, ?_⟩
  intro ih hihx b pos hmem hpos
  rw [hih''] at hihx
  simp only [Option.some.injEq] at hihx
  subst hihx
  obtain ⟨rl, hok⟩ := h.ok.buckets _ hih b pos hmem hpos
  have hget : s.m.buckets.get? b = some pos := NMap.get?_of_mem_sorted hG.i.sorted hmem
  have htb : tbl { s.m with gcResume := g } b = pos := by
    show (s.m.buckets.get? b).getD 0 = pos
    rw [hget]; rfl
  obtain ⟨rl', hat0⟩ := hT' b (by show (s.m.buckets.get? b).getD 0 ≠ 0; rw [hget]; exact hpos)
  have hat1 : BucketAt d'.ifiles ({ s.m with gcResume := g } : Mem).imax 0 b
      (tbl { s.m with gcResume := g } b) rl' := hat0
  have hat2 := hat1.raise hl'
  rw [htb] at hat2
  have himax : ({ s.m with gcResume := g } : Mem).imax = c.ifs := hG.y.imax
  rw [himax] at hat2
  have e1 := readDiskBucket_of_at hat2
  have e2 := readDiskBucket_of_at hok.loc
  have hsame : rl' = rl := by
    have r0 : readDiskBucket d'.ifiles c.ifs pos = readDiskBucket s.d.ifiles c.ifs pos := by
      have := hGI.reads b
      have ht : tbl s.m b = pos := by unfold tbl; rw [hget]; rfl
      rw [ht, hG.y.imax] at this
      exact this
    rw [e1, e2] at r0
    cases r0
    rfl
  subst hsame
  refine ⟨rl', hat2, hok.sorted, hok.prefixFree, hok.distinct, ?_, ?_⟩
  · intro e he
    obtain ⟨key, val, dig, g1, g2, g3, g4, g5⟩ := hok.entries e he
    refine ⟨key, val, dig, ?_, g2, g3, g4, g5⟩
    have ep : hdrPmax d' = hdrPmax s.d := by unfold hdrPmax; rw [f3]
    have ef : hdrPfirst d' = hdrPfirst s.d := by unfold hdrPfirst; rw [f3]
    rw [ep, ef]
    exact g1.congr f1 f2
  · intro e he fb hfb
    have e3 : flEntries d' = flEntries s.d := by unfold flEntries; rw [f4]
    have e4 : flGcEntries d' = flGcEntries s.d := by unfold flGcEntries; rw [f5]
    rw [e3, e4] at hfb
    exact hok.notFree e he fb hfb

end


/-! ### a primary GC cycle that starts with an empty index pool -/

section
variable {c : Cfg} {U : List (Bytes × Bytes)} {cfg : Cfg} {spec : Spec} {B : Nat}

/-- one hand-over pass from a state whose index pool is empty: it ends in a quiesced state -/
theorem pass_c07g (hU : Univ c.kind U) {m : Mem} {d : Disk} {n : Nat}
    (hG : GInv c U ⟨cfg, m, d⟩ spec n B) (hn : n < 1073741824) (hT : TagInv m d)
    (hin : m.inext = []) (budget : Budget) (hne : (freelistPass m d budget).1 ≠ .flushErr) :
    GInv c U ⟨cfg, (freelistPass m d budget).2.1, (freelistPass m d budget).2.2.1⟩ spec n B ∧
      TagInv (freelistPass m d budget).2.1 (freelistPass m d budget).2.2.1 ∧
      (freelistPass m d budget).2.1.inext = [] ∧ (freelistPass m d budget).2.1.pnext = [] := by
  have hG1 : GInv c U ⟨cfg, (freelistPass m d budget).2.1, (freelistPass m d budget).2.2.1⟩ spec n B := by
    rcases freelistPass_g hU hG hn budget with h | h
    · exact absurd h hne
    · exact h
  obtain ⟨fl, pc, fn, len, files, fr, g, e1, e2⟩ := freelistPass_shape (m := m) (d := d) hG.kind budget hne
  refine ⟨hG1, ?_, ?_, ?_⟩
  · rw [e1, e2]; exact hT
  · rw [e1]; exact hin
  · rw [e1]

/-- a whole primary GC cycle from a state whose index pool is empty: the table still points at tagged
    record lists and the disk is consistent with it afterwards — complete, or cut short at any poll -/
theorem primaryGC_c07g (hU : Univ c.kind U) {m : Mem} {d : Disk} {k : Nat}
    (hG : GInv c U ⟨cfg, m, d⟩ spec k B) (hk : 3 * k < 1073741824) (hT : TagInv m d)
    (hin : m.inext = []) (lowUse : Nat) (budget : Budget)
    {res : PgcRes × Mem × Disk × Budget} (hres : primaryGC m d lowUse budget = some res) :
    TagInv res.2.1 res.2.2.1 ∧ DiskOK .mh res.2.2.1 res.2.1.buckets := by
  unfold primaryGC at hres
  have hq : ∀ {m' : Mem} {d' : Disk}, GInv c U ⟨cfg, m', d'⟩ spec k B → TagInv m' d' → m'.inext = [] →
      m'.pnext = [] → TagInv m' d' ∧ DiskOK .mh d' m'.buckets :=
    fun hG' hT' hi' hp' =>
      ⟨hT', diskOK_of_quiesced_g (s := ⟨cfg, _, _⟩) hU hG' (by omega) hT' hi' hp'⟩
  cases hf1 : freelistPass m d budget with
  | mk r1 rest =>
  obtain ⟨m1, d1, b1, aff1⟩ := rest
  rw [hf1] at hres
  simp only at hres
  have hp1 : r1 ≠ .flushErr → GInv c U ⟨cfg, m1, d1⟩ spec k B ∧ TagInv m1 d1 ∧ m1.inext = [] ∧
      m1.pnext = [] := by
    intro hne
    have := pass_c07g hU hG (by omega) hT hin budget (by rw [hf1]; exact hne)
    rw [hf1] at this
    exact this
  cases r1 with
  | flushErr => cases hres
  | deadline =>
    simp only [Option.some.injEq] at hres; subst hres
    obtain ⟨a1, a2, a3, a4⟩ := hp1 (by decide)
    exact hq (a1.visited _) a2 a3 a4
  | err =>
    simp only [Option.some.injEq] at hres; subst hres
    obtain ⟨a1, a2, a3, a4⟩ := hp1 (by decide)
    exact hq (a1.visited _) a2 a3 a4
  | ok =>
  obtain ⟨hG1, hT1, hin1, _⟩ := hp1 (by decide)
  cases hf2 : freelistPass m1 d1 b1 with
  | mk r2 rest =>
  obtain ⟨m2, d2, b2, aff2⟩ := rest
  rw [hf2] at hres
  simp only at hres
  have hp2 : r2 ≠ .flushErr → GInv c U ⟨cfg, m2, d2⟩ spec k B ∧ TagInv m2 d2 ∧ m2.inext = [] ∧
      m2.pnext = [] := by
    intro hne
    have := pass_c07g hU hG1 (by omega) hT1 hin1 b1 (by rw [hf2]; exact hne)
    rw [hf2] at this
    exact this
  cases r2 with
  | flushErr => cases hres
  | deadline =>
    simp only [Option.some.injEq] at hres; subst hres
    obtain ⟨a1, a2, a3, a4⟩ := hp2 (by decide)
    exact hq (a1.visited _) a2 a3 a4
  | err =>
    simp only [Option.some.injEq] at hres; subst hres
    obtain ⟨a1, a2, a3, a4⟩ := hp2 (by decide)
    exact hq (a1.visited _) a2 a3 a4
  | ok =>
  obtain ⟨hG2, hT2, hin2, hpn2⟩ := hp2 (by decide)
  have hG3 := hG2.visited (m2.visited.filter (fun f => !(aff1 ++ aff2).contains f))
  obtain ⟨pf, psp, hS⟩ := hG3.state
  have hh : d2.phdr = some ⟨m2.pmax, pf⟩ := hS.hdr
  rw [hh] at hres
  simp only [Option.some.injEq] at hres
  subst hres
  -- the clauses at the start of the loop over the files, on the span log
  obtain ⟨first, hih, hsp⟩ := diskSp_of_quiesced
    (s := ⟨cfg, { m2 with visited := m2.visited.filter (fun f => !(aff1 ++ aff2).contains f) }, d2⟩)
    hU hG3 hT2 hS.ent hS.fl hin2 hpn2
  -- the loop keeps every record span and leaves the index side and the freelist files alone
  obtain ⟨pf', psp', a1, a2, a3, a4, a5⟩ := pgcGo_log lowUse (m2.pfileNum - pf + 1) pf pf
    { m2 with visited := m2.visited.filter (fun f => !(aff1 ++ aff2).contains f) } d2 b2 0 psp hh
    hS.log (Nat.le_refl _) hS.log.le
  have hsp' := hsp.transport a3 a5
  have hlt : m2.pfileNum < two32 := GInv.pfile_lt (s := ⟨cfg, m2, d2⟩) hG2 (by omega)
  refine ⟨?_, ?_⟩
  · unfold TagInv
    rw [a4.buckets, a4.imax, a5.ifiles]
    exact hT2
  · rw [a4.buckets]
    exact diskOK_of_sp hsp' (by rw [a5.ihdr]; exact hih) a1 a2 (by rw [a4.pmax]; exact hG2.pmax1)
      (by rw [a4.pfileNum]; exact hlt)

/-- the `pgc` step from a state whose index pool is empty -/
theorem pgc_c07g (hU : Univ c.kind U) {s : SState} {k : Nat} (h : CInvG c U s spec k B)
    (hk : 3 * k < 1073741824) (hin : s.m.inext = []) (lowUse : Nat) (budget : Budget) :
    ∃ k', CInvG c U (stepS s (.pgc lowUse budget)).1 spec k' B ∧ k' ≤ 3 * k := by
  obtain ⟨k', g1, g2, _, _⟩ := step_pgc_g hU h.g hk lowUse budget
  have key : TagInv (stepS s (.pgc lowUse budget)).1.m (stepS s (.pgc lowUse budget)).1.d ∧
      DiskOK .mh (stepS s (.pgc lowUse budget)).1.d (stepS s (.pgc lowUse budget)).1.m.buckets := by
    obtain ⟨cfg, m, d⟩ := s
    have hkind : m.kind = .mh := h.g.kind
    simp only [stepS, hkind]
    cases hp : primaryGC m d lowUse budget with
    | none => exact ⟨h.tag, h.ok⟩
    | some res =>
      obtain ⟨r, m', d', b'⟩ := res
      exact primaryGC_c07g hU h.g hk h.tag hin lowUse budget hp
  exact ⟨k', ⟨g1, key.1, key.2⟩, g2⟩

end


/-! ### the run -/

/-- the premise of C07 with primary GC: the call is not a primary GC cycle, or the index pool is empty -/
def pgcClean (s : SState) : SOp → Bool
  | .pgc .. => s.m.inext.isEmpty
  | _ => true

/-- every primary GC cycle of the run starts from a state whose index pool is empty (no index update
    is waiting to be flushed) -/
def PgcFromClean : SState → List SOp → Prop
  | _, [] => True
  | s, op :: ops => pgcClean s op = true ∧ PgcFromClean (stepS s op).1 ops

instance : ∀ (s : SState) (ops : List SOp), Decidable (PgcFromClean s ops)
  | _, [] => isTrue trivial
  | s, op :: ops =>
    have := instDecidablePgcFromClean (stepS s op).1 ops
    (inferInstance : Decidable (pgcClean s op = true ∧ PgcFromClean (stepS s op).1 ops))

section
variable {c : Cfg} {U : List (Bytes × Bytes)} {s : SState} {spec : Spec} {n B : Nat}

theorem CInvG.tight (h : CInvG c U s spec n B) : CInvG c U s spec (gcCnt s) B :=
  ⟨h.g.tight, h.tag, h.ok⟩

/-- one call on a multihash store: any call, a primary GC cycle only from an empty index pool -/
theorem gstep (hc : c.Legal) (hU : Univ c.kind U) (h : CInvG c U s spec n B)
    (hn : n < 268435456) (op : SOp)
    (hkey : ∀ k, op.keyOf = some k → ∀ dig, keyClass c.kind k = .ok dig → (k, dig) ∈ U)
    (hB : B + op.bytes < two31) (hcl : pgcClean s op = true) :
    (stepS s op).2 = (specStep c.kind c.imm spec op).2 ∧
      ∃ n', CInvG c U (stepS s op).1 (specStep c.kind c.imm spec op).1 n' (B + op.bytes) ∧
        n' ≤ gcNext op n := by
  have hG := h.g
  cases op with
  | put k v =>
    obtain ⟨h1, h2⟩ := step_put_g hU hG k v (hkey k rfl) (by omega) hB
    refine ⟨h1, n + 1, h.of_mem_step h2 (by rw [stepS_put_fst]) ?_, Nat.le_refl _⟩
    rw [stepS_put_fst]
    exact storePut_tbl _ _ _ _
  | rm k =>
    obtain ⟨h1, h2⟩ := step_rm_g hU hG k (hkey k rfl)
    refine ⟨h1, n + 1, h.of_mem_step h2 (by rw [stepS_rm_fst]) ?_, Nat.le_refl _⟩
    rw [stepS_rm_fst]
    exact storeRemove_tbl _ _ _
  | get k =>
    obtain ⟨h1, h2⟩ := step_read_g hU hG (.get k) (Or.inl ⟨k, rfl⟩) hkey
    rw [h1, h2]
    exact ⟨rfl, n, h, Nat.le_succ n⟩
  | has k =>
    obtain ⟨h1, h2⟩ := step_read_g hU hG (.has k) (Or.inr (Or.inl ⟨k, rfl⟩)) hkey
    rw [h1, h2]
    exact ⟨rfl, n, h, Nat.le_succ n⟩
  | size k =>
    obtain ⟨h1, h2⟩ := step_read_g hU hG (.size k) (Or.inr (Or.inr ⟨k, rfl⟩)) hkey
    rw [h1, h2]
    exact ⟨rfl, n, h, Nat.le_succ n⟩
  | flush order =>
    obtain ⟨m', d', f1, f2, f3, f4, f5⟩ := flush_c07g hU hG (by omega) hB order h.tag
    simp only [stepS, f1, specStep, true_and]
    exact ⟨n, CInvG.of_quiesced hU f2 (by omega) f3 f4 f5, Nat.le_succ n⟩
  | iter order =>
    obtain ⟨m', d', f1, f2, f3, f4, f5⟩ := flush_c07g hU hG (by omega) hB order h.tag
    have hU' : Univ m'.kind U := GInv.univ (s := ⟨s.cfg, m', d'⟩) hU f2
    obtain ⟨L, l1, l2⟩ := storeIter_ok hU' f2.bits31 f2.a f2.i f4 f2.nodup
    simp only [stepS, f1, l1, specStep]
    exact ⟨by rw [l2], n, CInvG.of_quiesced hU f2 (by omega) f3 f4 f5, Nat.le_succ n⟩
  | reopen order us =>
    obtain ⟨m', d', r1, r2, r3, r4, r5⟩ := reopen_c07g hc hU hG (by omega) hB order us h.tag
    rw [r1]
    simp only [specStep, true_and]
    exact ⟨n, CInvG.of_quiesced hU r2 (by omega) r3 r4 r5, Nat.le_succ n⟩
  | igc sf bud =>
    have h' := igc_c07g h (by omega) sf bud
    obtain ⟨g, d', r1, _⟩ := step_igc_g hG (by omega) sf bud
    rw [r1] at h' ⊢
    simp only [specStep, true_and]
    exact ⟨n, h', Nat.le_succ n⟩
  | pgc lowUse bud =>
    have hin : s.m.inext = [] := List.isEmpty_iff.mp hcl
    obtain ⟨k', g1, g2⟩ := pgc_c07g hU h (by omega) hin lowUse bud
    obtain ⟨_, _, _, g3, _⟩ := step_pgc_g hU hG (by omega) lowUse bud
    rw [g3]
    simp only [specStep, true_and]
    exact ⟨k', g1, g2⟩

end

/-- the run lemma: every call, GC cycles of both kinds and reopens at arbitrary positions, every primary
    GC cycle starting from an empty index pool -/
theorem run_c07g {c : Cfg} {U : List (Bytes × Bytes)} (hc : c.Legal) (hU : Univ c.kind U) :
    ∀ (ops : List SOp) (s : SState) (spec : Spec) (n B : Nat),
    CInvG c U s spec n B →
    (∀ op ∈ ops, ∀ k, op.keyOf = some k → ∀ dig, keyClass c.kind k = .ok dig → (k, dig) ∈ U) →
    GcCountersOK s ops → PgcFromClean s ops → B + (ops.map SOp.bytes).sum < two31 →
    ∃ n', CInvG c U (runS s ops).1 (specRun c.kind c.imm spec ops).1 n'
      (B + (ops.map SOp.bytes).sum)
  | [], _, _, n, _, h, _, _, _, _ => ⟨n, h⟩
  | op :: ops, s, spec, n, B, h, hk, hb, hp, hB => by
    simp only [List.map_cons, List.sum_cons] at hB ⊢
    obtain ⟨hb1, hb2⟩ := hb
    obtain ⟨hp1, hp2⟩ := hp
    obtain ⟨_, n1, h2, _⟩ := gstep hc hU h.tight hb1 op (hk op (by simp)) (by omega) hp1
    obtain ⟨n2, i2⟩ := run_c07g hc hU ops (stepS s op).1 (specStep c.kind c.imm spec op).1 n1
      (B + op.bytes) h2 (fun o ho => hk o (by simp [ho])) hb2 hp2 (by omega)
    refine ⟨n2, ?_⟩
    rw [runS_cons_fst, specRun_cons_fst]
    have e2 : B + (op.bytes + (ops.map SOp.bytes).sum) = B + op.bytes + (ops.map SOp.bytes).sum := by
      omega
    rw [e2]
    exact i2

theorem cinvG_init {c : Cfg} {U : List (Bytes × Bytes)} {s : SState} (hc : c.Legal)
    (hk : c.kind = .mh) (hi : initS c = some s) : CInvG c U s [] 0 0 := by
  have h := cinv_init c hc U s hi
  refine ⟨ginv_init hc hk hi, h.tag, ?_⟩
  have := h.ok
  rw [hk] at this
  exact this

/-- every state a multihash store reaches by a history with GC cycles of both kinds, each primary GC
    cycle starting from an empty index pool, satisfies the invariant -/
theorem c07g_reach (c : Cfg) (hc : c.Legal) (hmh : c.kind = .mh) (ops : List SOp)
    (hk : KeysOK c.kind ops) (hs : SizesOK ops) (s0 : SState) (hi : initS c = some s0)
    (hb : GcCountersOK s0 ops) (hp : PgcFromClean s0 ops) :
    ∃ n', CInvG c (digestsOf c.kind ops) (runS s0 ops).1 (specRun c.kind c.imm [] ops).1 n'
      (0 + (ops.map SOp.bytes).sum) := by
  have hU := univ_of_keysOK hk (keysExact_all c.kind ops)
  refine run_c07g hc hU ops s0 [] 0 0 (cinvG_init hc hmh hi) ?_ hb hp ?_
  · intro op ho k hkey dig hcls
    exact mem_digestsOf ho hkey hcls
  · have := hs.2.1; omega

/-! ### a sufficient condition on the calls alone -/

/-- `clean` = "the index pool is known to be empty": true in a fresh store and after Flush / iteration /
    Close+reopen, kept by index GC and by reads, lost by Put / Remove and by a primary GC cycle (which
    may relocate); a primary GC cycle is allowed only when it holds -/
def pgcAfterFlush : Bool → List SOp → Bool
  | _, [] => true
  | clean, op :: ops =>
    match op with
    | .pgc .. => clean && pgcAfterFlush false ops
    | .flush _ => pgcAfterFlush true ops
    | .iter _ => pgcAfterFlush true ops
    | .reopen .. => pgcAfterFlush true ops
    | .igc .. => pgcAfterFlush clean ops
    | .get _ => pgcAfterFlush clean ops
    | .has _ => pgcAfterFlush clean ops
    | .size _ => pgcAfterFlush clean ops
    | .put .. => pgcAfterFlush false ops
    | .rm _ => pgcAfterFlush false ops

/-- the syntactic condition implies the condition on the run -/
theorem pgcFromClean_of_afterFlush {c : Cfg} {U : List (Bytes × Bytes)} (hc : c.Legal)
    (hU : Univ c.kind U) :
    ∀ (ops : List SOp) (s : SState) (spec : Spec) (n B : Nat) (clean : Bool),
    CInvG c U s spec n B → (clean = true → s.m.inext = []) →
    (∀ op ∈ ops, ∀ k, op.keyOf = some k → ∀ dig, keyClass c.kind k = .ok dig → (k, dig) ∈ U) →
    GcCountersOK s ops → pgcAfterFlush clean ops = true → B + (ops.map SOp.bytes).sum < two31 →
    PgcFromClean s ops
  | [], _, _, _, _, _, _, _, _, _, _, _ => trivial
  | op :: ops, s, spec, n, B, clean, h, hcl, hk, hb, hp, hB => by
    simp only [List.map_cons, List.sum_cons] at hB
    obtain ⟨hb1, hb2⟩ := hb
    have hG := h.g
    -- the premise of this call
    have hthis : pgcClean s op = true := by
      cases op with
      | pgc a b =>
        simp only [pgcAfterFlush, Bool.and_eq_true] at hp
        show s.m.inext.isEmpty = true
        rw [hcl hp.1]; rfl
      | _ => rfl
    obtain ⟨_, n1, h2, _⟩ := gstep hc hU h.tight hb1 op (hk op (by simp)) (by omega) hthis
    refine ⟨hthis, ?_⟩
    -- the flag after this call
    have hnext : ∃ clean', pgcAfterFlush clean' ops = true ∧
        (clean' = true → (stepS s op).1.m.inext = []) := by
      cases op with
      | pgc a b =>
        simp only [pgcAfterFlush, Bool.and_eq_true] at hp
        exact ⟨false, hp.2, fun hc => by cases hc⟩
      | put k v => exact ⟨false, hp, fun hc => by cases hc⟩
      | rm k => exact ⟨false, hp, fun hc => by cases hc⟩
      | get k =>
        have := (step_read_g hU hG (.get k) (Or.inl ⟨k, rfl⟩) (hk _ (by simp))).1
        exact ⟨clean, hp, fun hc => by rw [this]; exact hcl hc⟩
      | has k =>
        have := (step_read_g hU hG (.has k) (Or.inr (Or.inl ⟨k, rfl⟩)) (hk _ (by simp))).1
        exact ⟨clean, hp, fun hc => by rw [this]; exact hcl hc⟩
      | size k =>
        have := (step_read_g hU hG (.size k) (Or.inr (Or.inr ⟨k, rfl⟩)) (hk _ (by simp))).1
        exact ⟨clean, hp, fun hc => by rw [this]; exact hcl hc⟩
      | igc sf bud =>
        obtain ⟨g, d', r1, _⟩ := step_igc_g hG.tight (by omega) sf bud
        exact ⟨clean, hp, fun hc => by rw [r1]; exact hcl hc⟩
      | flush order =>
        obtain ⟨m', d', f1, _, _, f4, _⟩ := flush_c07g hU hG.tight (by omega) (by omega) order h.tag
        exact ⟨true, hp, fun _ => by simp only [stepS, f1]; exact f4⟩
      | iter order =>
        obtain ⟨m', d', f1, _, _, f4, _⟩ := flush_c07g hU hG.tight (by omega) (by omega) order h.tag
        refine ⟨true, hp, fun _ => ?_⟩
        simp only [stepS, f1]
        cases storeIter m' d' <;> exact f4
      | reopen order us =>
        obtain ⟨m', d', r1, _, _, r4, _⟩ :=
          reopen_c07g hc hU hG.tight (by omega) (by omega) order us h.tag
        exact ⟨true, hp, fun _ => by rw [r1]; exact r4⟩
    obtain ⟨clean', hp', hcl'⟩ := hnext
    exact pgcFromClean_of_afterFlush hc hU ops (stepS s op).1 (specStep c.kind c.imm spec op).1 n1
      (B + op.bytes) clean' h2 hcl' (fun o ho => hk o (by simp [ho])) hb2 hp' (by omega)


/-! ### CID stores: primary GC does nothing, so no premise on it is needed -/

section
variable {c : Cfg} {U : List (Bytes × Bytes)} {s : SState} {spec : Spec} {n B : Nat}

theorem ystep_cid (hc : c.Legal) (hcid : c.kind = .cid) (hU : Univ c.kind U)
    (h : CInvY c U s spec n B) (op : SOp)
    (hkey : ∀ k, op.keyOf = some k → ∀ dig, keyClass c.kind k = .ok dig → (k, dig) ∈ U)
    (hn : n + 1 < 1073741824) (hB : B + op.bytes < two31) :
    CInvY c U (stepS s op).1 (specStep c.kind c.imm spec op).1 (n + 1) (B + op.bytes) := by
  by_cases hop : op.isC04a = true
  · exact (ystep hc hU h op hop hkey hn hB).2
  · cases op with
    | pgc lowUse bud =>
      have hkind : s.m.kind = .cid := by rw [h.inv.kind, hcid]
      have : stepS s (.pgc lowUse bud) = (s, .gc) := by simp only [stepS, hkind]
      rw [this]
      simp only [specStep]
      exact h.mono (by omega) (by omega)
    | _ => exact absurd rfl hop

end

theorem run_c07y_cid {c : Cfg} {U : List (Bytes × Bytes)} (hc : c.Legal) (hcid : c.kind = .cid)
    (hU : Univ c.kind U) :
    ∀ (ops : List SOp) (s : SState) (spec : Spec) (n B : Nat),
    CInvY c U s spec n B →
    (∀ op ∈ ops, ∀ k, op.keyOf = some k → ∀ dig, keyClass c.kind k = .ok dig → (k, dig) ∈ U) →
    n + ops.length < 1073741824 → B + (ops.map SOp.bytes).sum < two31 →
    CInvY c U (runS s ops).1 (specRun c.kind c.imm spec ops).1 (n + ops.length)
      (B + (ops.map SOp.bytes).sum)
  | [], _, _, _, _, h, _, _, _ => h
  | op :: ops, s, spec, n, B, h, hk, hn, hB => by
    simp only [List.length_cons, List.map_cons, List.sum_cons] at hn hB ⊢
    have h2 := ystep_cid hc hcid hU h op (hk op (by simp)) (by omega) (by omega)
    have ih := run_c07y_cid hc hcid hU ops (stepS s op).1 (specStep c.kind c.imm spec op).1 (n + 1)
      (B + op.bytes) h2 (fun o ho => hk o (by simp [ho])) (by omega) (by omega)
    rw [runS_cons_fst, specRun_cons_fst]
    have e1 : n + (ops.length + 1) = n + 1 + ops.length := by omega
    have e2 : B + (op.bytes + (ops.map SOp.bytes).sum) = B + op.bytes + (ops.map SOp.bytes).sum := by
      omega
    rw [e1, e2]
    exact ih

/-- CID stores: every history, GC cycles of both kinds anywhere -/
theorem c07y_reach_cid (c : Cfg) (hc : c.Legal) (hcid : c.kind = .cid) (ops : List SOp)
    (hk : KeysOK c.kind ops) (hs : SizesOK ops) (s0 : SState) (hi : initS c = some s0) :
    CInvY c (digestsOf c.kind ops) (runS s0 ops).1 (specRun c.kind c.imm [] ops).1 (0 + ops.length)
      (0 + (ops.map SOp.bytes).sum) := by
  have hU := univ_of_keysOK hk (keysExact_all c.kind ops)
  apply run_c07y_cid hc hcid hU ops s0 [] 0 0 (cinvY_init c hc _ s0 hi)
  · intro op ho k hkey dig hcls
    exact mem_digestsOf ho hkey hcls
  · have := hs.1; omega
  · have := hs.2.1; omega

end Sth
