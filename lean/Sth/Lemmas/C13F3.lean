/-
C13F (3): the initial state satisfies the invariant; the ledger against the PROGRAMS (every Put of a program is
either returned or still to run; per thread the returned Puts are a prefix of the program's Puts).
-/
import Sth.Lemmas.C13F2

namespace Sth.FreeConc

/-! ### the initial state -/

theorem init_inv {c : Nat} {progs : List (List Op)} (hc : CollectorIs c progs) : Inv c (init progs) := by
  refine ⟨?_, rfl, ?_, ?_, ?_, ?_⟩
  · simp [account, gcEntries, fileEntries, inFlight, putBlocks, init, Pc.blocks]
  · intro h hh; simp [init] at hh
  · intro i t hi
    simp [init] at hi
    obtain ⟨p, _, rfl⟩ := hi
    simp [Pc.holds, init]
  · intro i t hi hic
    simp [init] at hi
    obtain ⟨p, hp, rfl⟩ := hi
    refine ⟨by simp [Pc.writer], ?_⟩
    have hlen : i < progs.length := (List.getElem?_eq_some_iff.1 hp).1
    have := hc i hlen hic
    simp [hp] at this
    simpa using this
  · have : pcOf (init progs) c = .idle := by
      simp only [pcOf, init, List.getElem?_map]
      cases progs[c]? <;> simp
    rw [this]; simp [CollOK, FileOK, init]

/-! ### what one section does to its thread and to the log of returned Puts -/

/-- a thread inside a call has a Flush or ToGC at the head of its program: returning drops no Put -/
def PcWf (t : Thread) : Prop := t.pc ≠ .idle → progPuts t.prog.tail = progPuts t.prog

theorem progPuts_tail_of_not_put {p : List Op} (h : ∀ b r, p ≠ .put b :: r) : progPuts p.tail = progPuts p := by
  cases p with
  | nil => rfl
  | cons op r => cases op <;> simp_all [progPuts]

theorem flushEnter_thread {s s' : State} {i : Nat} {t : Thread} {k : Bool} (hs : flushEnter s i t k = some s')
    (hk : k = true → t.pc ≠ .idle) (hwf : PcWf t) (hnp : k = false → progPuts t.prog.tail = progPuts t.prog) :
    ∃ t', s'.threads = s.threads.set i t' ∧ PcWf t' ∧ progPuts t'.prog = progPuts t.prog ∧ s'.puts = s.puts := by
  unfold flushEnter at hs
  split at hs
  · cases hs
  split at hs
  · cases hs
    refine ⟨t.flushed k, rfl, ?_, ?_, rfl⟩
    · cases k with
      | false => simp [Thread.flushed, Thread.ret, PcWf]
      | true => intro _; exact hwf (hk rfl)
    · cases k with
      | false => simpa [Thread.flushed, Thread.ret] using hnp rfl
      | true => simp [Thread.flushed]
  · cases hs
    refine ⟨{ t with pc := .flushing s.pool k }, rfl, ?_, rfl, rfl⟩
    intro _
    cases k with
    | false => exact hnp rfl
    | true => exact hwf (hk rfl)

@[simp] theorem flushWrite_threads (s : State) (bs : List Blk) : (flushWrite s bs).threads = s.threads := by
  unfold flushWrite; split <;> rfl
@[simp] theorem flushWrite_puts (s : State) (bs : List Blk) : (flushWrite s bs).puts = s.puts := by
  unfold flushWrite; split <;> rfl
@[simp] theorem rename_threads (s : State) : (rename s).threads = s.threads := by
  unfold rename; split <;> rfl
@[simp] theorem rename_puts (s : State) : (rename s).puts = s.puts := by
  unfold rename; split <;> rfl

theorem step_thread {s s' : State} {i : Nat} (hs : step s i = some s') :
    ∃ t t', s.threads[i]? = some t ∧ s'.threads = s.threads.set i t' ∧
      (PcWf t → PcWf t' ∧
        ((∃ b, progPuts t.prog = b :: progPuts t'.prog ∧ s'.puts = s.puts ++ [(i, b)]) ∨
         (progPuts t'.prog = progPuts t.prog ∧ s'.puts = s.puts))) := by
  unfold step at hs
  split at hs
  · cases hs
  rename_i t hi
  have hidle : PcWf t.ret := by simp [PcWf, Thread.ret]
  split at hs
  · rename_i hp
    split at hs
    · cases hs
    · rename_i b r hprog
      cases hs
      exact ⟨t, t.ret, hi, rfl, fun _ => ⟨hidle, .inl ⟨b, by simp [hprog, progPuts, Thread.ret], rfl⟩⟩⟩
    · rename_i r hprog
      refine ⟨t, ?_⟩
      by_cases hwf : PcWf t
      · obtain ⟨t', h1, h2, h3, h4⟩ := flushEnter_thread hs (by simp) hwf (fun _ => by simp [hprog, progPuts])
        exact ⟨t', hi, h1, fun _ => ⟨h2, .inr ⟨h3, h4⟩⟩⟩
      · unfold flushEnter at hs
        split at hs
        · cases hs
        split at hs <;> cases hs <;> exact ⟨_, hi, rfl, fun h => absurd h hwf⟩
    · rename_i r hprog
      split at hs <;> cases hs
      · exact ⟨t, t.ret, hi, rfl, fun _ => ⟨hidle, .inr ⟨by simp [hprog, progPuts, Thread.ret], rfl⟩⟩⟩
      · exact ⟨t, _, hi, rfl, fun _ => ⟨fun _ => by simp [hprog, progPuts], .inr ⟨rfl, rfl⟩⟩⟩
    · rename_i r hprog
      cases hs
      exact ⟨t, t.ret, hi, rfl, fun _ => ⟨hidle, .inr ⟨by simp [hprog, progPuts, Thread.ret], rfl⟩⟩⟩
    · rename_i r hprog
      cases hs
      exact ⟨t, t.ret, hi, rfl, fun _ => ⟨hidle, .inr ⟨by simp [hprog, progPuts, Thread.ret], rfl⟩⟩⟩
  · rename_i hp
    refine ⟨t, ?_⟩
    by_cases hwf : PcWf t
    · obtain ⟨t', h1, h2, h3, h4⟩ := flushEnter_thread hs (fun _ => by simp [hp]) hwf (by simp)
      exact ⟨t', hi, h1, fun _ => ⟨h2, .inr ⟨h3, h4⟩⟩⟩
    · unfold flushEnter at hs
      split at hs
      · cases hs
      split at hs <;> cases hs <;> exact ⟨_, hi, rfl, fun h => absurd h hwf⟩
  · rename_i bs k hp
    cases hs
    refine ⟨t, t.flushed k, hi, by simp, fun hwf => ?_⟩
    have hput : (flushWrite s bs).puts = s.puts := by simp
    cases k with
    | false =>
      exact ⟨hidle, .inr ⟨by simpa [Thread.flushed, Thread.ret] using hwf (by simp [hp]), hput⟩⟩
    | true =>
      exact ⟨fun _ => by simpa [Thread.flushed] using hwf (by simp [hp]), .inr ⟨by simp [Thread.flushed], hput⟩⟩
  · rename_i hp
    split at hs
    · cases hs
    cases hs
    exact ⟨t, _, hi, rfl, fun hwf => ⟨fun _ => hwf (by simp [hp]), .inr ⟨rfl, rfl⟩⟩⟩
  · rename_i hp
    cases hs
    have hput : (rename s).puts = s.puts := by simp
    exact ⟨t, { t with pc := .togcRenamed }, hi, by simp,
      fun hwf => ⟨fun _ => hwf (by simp [hp]), .inr ⟨rfl, hput⟩⟩⟩
  · rename_i hp
    cases hs
    exact ⟨t, t.ret, hi, rfl, fun hwf => ⟨hidle, .inr ⟨by simpa [Thread.ret] using hwf (by simp [hp]), rfl⟩⟩⟩

/-! ### the ledger -/

/-- the Puts still to run -/
def remaining (s : State) : List Blk := s.threads.flatMap fun t => progPuts t.prog

theorem flatMap_set_cons {α β : Type} (f : α → List β) (l : List α) (i : Nat) (t t' : α) (b : β)
    (hi : l[i]? = some t) (hf : f t = b :: f t') : (l.flatMap f).Perm (b :: (l.set i t').flatMap f) := by
  induction l generalizing i with
  | nil => simp at hi
  | cons a l ih =>
    cases i with
    | zero => simp at hi; subst hi; simp [hf]
    | succ i =>
      simp at hi
      simp only [List.flatMap_cons, List.set_cons_succ]
      exact ((ih i hi).append_left (f a)).trans List.perm_middle

/-- the ledger against the programs -/
structure Led (progs : List (List Op)) (s : State) : Prop where
  wf : ∀ (i : Nat) t, s.threads[i]? = some t → PcWf t
  len : s.threads.length = progs.length
  all : (putBlocks s ++ remaining s).Perm (progs.flatMap progPuts)
  per : ∀ (i : Nat) t, s.threads[i]? = some t → putsBy s i ++ progPuts t.prog = progPuts (progs[i]?.getD [])

theorem init_led (progs : List (List Op)) : Led progs (init progs) := by
  refine ⟨?_, by simp [init], ?_, ?_⟩
  · intro i t hi
    simp [init] at hi
    obtain ⟨p, _, rfl⟩ := hi
    simp [PcWf]
  · simp [putBlocks, remaining, init, List.flatMap_map]
  · intro i t hi
    simp [init] at hi
    obtain ⟨p, hp, rfl⟩ := hi
    simp [putsBy, init, hp]

theorem step_led {progs : List (List Op)} {s s' : State} {i : Nat} (h : Led progs s) (hs : step s i = some s') :
    Led progs s' := by
  obtain ⟨t, t', hi, hth, hst⟩ := step_thread hs
  obtain ⟨hwf', hput⟩ := hst (h.wf i t hi)
  have hlen : i < s.threads.length := Inv.mem_lt hi
  have hget : ∀ j u, s'.threads[j]? = some u → (j = i ∧ u = t') ∨ (j ≠ i ∧ s.threads[j]? = some u) := by
    intro j u hj
    rw [hth, List.getElem?_set] at hj
    by_cases hij : i = j
    · subst hij; simp [hlen] at hj; exact .inl ⟨rfl, hj.symm⟩
    · simp [hij] at hj; exact .inr ⟨fun h => hij h.symm, hj⟩
  refine ⟨?_, by rw [hth, List.length_set]; exact h.len, ?_, ?_⟩
  · intro j u hj
    rcases hget j u hj with ⟨_, rfl⟩ | ⟨_, hj'⟩
    · exact hwf'
    · exact h.wf j u hj'
  · rcases hput with ⟨b, hb, hp⟩ | ⟨hb, hp⟩
    · have hperm := flatMap_set_cons (fun t : Thread => progPuts t.prog) s.threads i t t' b hi hb
      refine List.Perm.trans ?_ h.all
      simp only [putBlocks, remaining, hth, hp, List.map_append, List.map_cons, List.map_nil, List.append_assoc,
        List.singleton_append]
      exact (hperm.symm).append_left _
    · have : remaining s' = remaining s := by
        unfold remaining; rw [hth]; exact flatMap_set_same _ _ _ t _ hi hb
      simpa [putBlocks, this, hp] using h.all
  · intro j u hj
    rcases hget j u hj with ⟨rfl, rfl⟩ | ⟨hji, hj'⟩
    · have := h.per j t hi
      rcases hput with ⟨b, hb, hp⟩ | ⟨hb, hp⟩
      · rw [← this, hb]; simp [putsBy, hp, List.filter_append]
      · rw [← this, hb]; simp [putsBy, hp]
    · have := h.per j u hj'
      rcases hput with ⟨b, hb, hp⟩ | ⟨hb, hp⟩
      · rw [← this]; simp [putsBy, hp, List.filter_append, Ne.symm hji]
      · rw [← this]; simp [putsBy, hp]

theorem run_led {progs : List (List Op)} {s : State} (h : Led progs s) (sched : List Nat) :
    Led progs (run s sched) := by
  induction sched generalizing s with
  | nil => exact h
  | cons i r ih =>
    simp only [run, List.foldl_cons]
    cases hs : step s i with
    | none => exact ih h
    | some s' => exact ih (step_led h hs)

/-! ### quiescence -/

theorem Inv.quiescent {c : Nat} {s : State} (h : Inv c s) (hq : Quiescent s) :
    inFlight s = [] ∧ s.flushLock = none := by
  constructor
  · unfold inFlight
    rw [List.flatMap_eq_nil_iff]
    intro t ht
    simp [(hq t ht).2, Pc.blocks]
  · cases hl : s.flushLock with
    | none => rfl
    | some j =>
      have hj := h.lockLt j hl
      have hget : s.threads[j]? = some s.threads[j] := List.getElem?_eq_getElem hj
      have := (h.lock j _ hget).2 hl
      have hq' := (hq _ (List.getElem_mem hj)).2
      rw [hq'] at this
      simp [Pc.holds] at this

theorem Led.quiescent {progs : List (List Op)} {s : State} (h : Led progs s) (hq : Quiescent s) :
    (putBlocks s).Perm (progs.flatMap progPuts) := by
  have : remaining s = [] := by
    unfold remaining
    rw [List.flatMap_eq_nil_iff]
    intro t ht
    simp [(hq t ht).1, progPuts]
  simpa [this] using h.all

end Sth.FreeConc
