/-
Helper definitions and lemmas for C14 (file cache handle safety).
-/
import Sth.Model.FileCache

set_option linter.unusedSimpArgs false

namespace Sth.FC

def cachedH (s : State) : List Nat := s.cache.map (·.h)
def removedH (s : State) : List Nat := s.removed.map (·.1)

/-- the invariant of the file cache together with its clients -/
structure Inv (y : Sys) : Prop where
  namesNodup : (y.fc.cache.map (·.name)).Nodup
  cachedNodup : (cachedH y.fc).Nodup
  removedNodup : (removedH y.fc).Nodup
  disjoint : ∀ h, h ∈ cachedH y.fc → h ∉ removedH y.fc
  capBound : y.fc.cache.length ≤ y.fc.cap
  fresh : ∀ h, (h ∈ cachedH y.fc ∨ h ∈ removedH y.fc ∨ h ∈ y.fc.opened ∨ h ∈ y.fc.closes ∨ y.lent h > 0) → h < y.fc.nextH
  names : ∀ e ∈ y.fc.cache, nameOf y.fc e.h = some e.name
  named : ∀ h, h < y.fc.nextH → (nameOf y.fc h).isSome
  refsCache : ∀ e ∈ y.fc.cache, e.refs = y.lent e.h
  refsRemoved : ∀ p ∈ y.fc.removed, p.2 = y.lent p.1 ∧ 0 < p.2
  openedNodup : y.fc.opened.Nodup
  openedIff : ∀ h, h ∈ y.fc.opened ↔ (h ∈ cachedH y.fc ∨ h ∈ removedH y.fc ∨ (h < y.fc.nextH ∧ y.lent h > 0))
  closesNodup : y.fc.closes.Nodup
  closesIff : ∀ h, h ∈ y.fc.closes ↔ (h < y.fc.nextH ∧ h ∉ y.fc.opened)
  /-- a handle that is neither cached nor parked in `removed` (handed out at capacity 0) is lent at
      most once -/
  lentOne : ∀ h, h ∉ cachedH y.fc → h ∉ removedH y.fc → y.lent h ≤ 1

/-! ### The capacity-independent part of the invariant -/

/-- `Inv` without `capBound`: it does not mention `cap`, and it is stated over the two components of
    a `Sys` so that the eviction helpers (which do not touch the client ghost) can be handled
    uniformly. -/
structure CInv (s : State) (lent : Nat → Nat) : Prop where
  namesNodup : (s.cache.map (·.name)).Nodup
  cachedNodup : (cachedH s).Nodup
  removedNodup : (removedH s).Nodup
  disjoint : ∀ h, h ∈ cachedH s → h ∉ removedH s
  fresh : ∀ h, (h ∈ cachedH s ∨ h ∈ removedH s ∨ h ∈ s.opened ∨ h ∈ s.closes ∨ lent h > 0) → h < s.nextH
  names : ∀ e ∈ s.cache, nameOf s e.h = some e.name
  named : ∀ h, h < s.nextH → (nameOf s h).isSome
  refsCache : ∀ e ∈ s.cache, e.refs = lent e.h
  refsRemoved : ∀ p ∈ s.removed, p.2 = lent p.1 ∧ 0 < p.2
  openedNodup : s.opened.Nodup
  openedIff : ∀ h, h ∈ s.opened ↔ (h ∈ cachedH s ∨ h ∈ removedH s ∨ (h < s.nextH ∧ lent h > 0))
  closesNodup : s.closes.Nodup
  closesIff : ∀ h, h ∈ s.closes ↔ (h < s.nextH ∧ h ∉ s.opened)
  lentOne : ∀ h, h ∉ cachedH s → h ∉ removedH s → lent h ≤ 1

theorem Inv.core {y : Sys} (hi : Inv y) : CInv y.fc y.lent :=
  ⟨hi.namesNodup, hi.cachedNodup, hi.removedNodup, hi.disjoint, hi.fresh, hi.names, hi.named,
    hi.refsCache, hi.refsRemoved, hi.openedNodup, hi.openedIff, hi.closesNodup, hi.closesIff, hi.lentOne⟩

theorem Inv.ofCore {y : Sys} (hc : CInv y.fc y.lent) (hb : y.fc.cache.length ≤ y.fc.cap) : Inv y :=
  ⟨hc.namesNodup, hc.cachedNodup, hc.removedNodup, hc.disjoint, hb, hc.fresh, hc.names, hc.named,
    hc.refsCache, hc.refsRemoved, hc.openedNodup, hc.openedIff, hc.closesNodup, hc.closesIff, hc.lentOne⟩

/-! ### Generic list facts (core Lean only) -/

theorem inj_of_nodup_map {α β} (f : α → β) : ∀ {l : List α}, (l.map f).Nodup →
    ∀ {a b}, a ∈ l → b ∈ l → f a = f b → a = b := by
  intro l
  induction l with
  | nil => intro _ a b ha; cases ha
  | cons c l ih =>
    intro hn a b ha hb hab
    simp only [List.map_cons, List.nodup_cons, List.mem_map, not_exists, not_and] at hn
    simp only [List.mem_cons] at ha hb
    rcases ha with rfl | ha <;> rcases hb with rfl | hb
    · rfl
    · exact absurd hab.symm (hn.1 b hb)
    · exact absurd hab (hn.1 a ha)
    · exact ih hn.2 ha hb hab

theorem nodup_of_map {α β} (f : α → β) {l : List α} (hn : (l.map f).Nodup) : l.Nodup :=
  List.Pairwise.of_map f (fun _ _ h hab => h (congrArg f hab)) hn

theorem mem_map_erase {α β} [DecidableEq α] (f : α → β) {l : List α} {e : α}
    (hn : (l.map f).Nodup) (he : e ∈ l) (x : β) :
    x ∈ (l.erase e).map f ↔ x ∈ l.map f ∧ x ≠ f e := by
  have hl : l.Nodup := nodup_of_map f hn
  simp only [List.mem_map]
  constructor
  · rintro ⟨a, ha, rfl⟩
    have ha' := (hl.mem_erase_iff).mp ha
    refine ⟨⟨a, ha'.2, rfl⟩, ?_⟩
    intro h
    exact ha'.1 (inj_of_nodup_map f hn ha'.2 he h)
  · rintro ⟨⟨a, ha, rfl⟩, hne⟩
    refine ⟨a, (hl.mem_erase_iff).mpr ⟨?_, ha⟩, rfl⟩
    rintro rfl; exact hne rfl

theorem nodup_map_erase {α β} [DecidableEq α] (f : α → β) {l : List α} (e : α)
    (hn : (l.map f).Nodup) : ((l.erase e).map f).Nodup :=
  List.Nodup.sublist (List.Sublist.map f List.erase_sublist) hn

/-- a duplicate-free list all of whose members lie in `L` is no longer than `L` -/
theorem nodup_length_le {α} [DecidableEq α] :
    ∀ (l L : List α), l.Nodup → (∀ x ∈ l, x ∈ L) → l.length ≤ L.length := by
  intro l
  induction l with
  | nil => intros; simp
  | cons a l ih =>
    intro L hn hsub
    have haL : a ∈ L := hsub a (by simp)
    have hn' := List.nodup_cons.mp hn
    have := ih (L.erase a) hn'.2 (by
      intro x hx
      have hxa : x ≠ a := by rintro rfl; exact hn'.1 hx
      exact (List.mem_erase_of_ne hxa).mpr (hsub x (by simp [hx])))
    have h2 := List.length_erase_of_mem haL
    have h3 : 0 < L.length := List.length_pos_of_mem haL
    simp only [List.length_cons]
    omega

/-! ### `nameOf` through the handle-name list -/

def nameOfL (l : List (Nat × Nat)) (h : Nat) : Option Nat := (l.find? (·.1 = h)).map (·.2)

theorem nameOf_eq (s : State) (h : Nat) : nameOf s h = nameOfL s.hname h := rfl

theorem nameOfL_cons (k nm : Nat) (l : List (Nat × Nat)) (h : Nat) :
    nameOfL ((k, nm) :: l) h = if k = h then some nm else nameOfL l h := by
  by_cases hk : k = h <;> simp [nameOfL, hk]

/-! ### The elementary moves preserve `CInv` -/

theorem removeEnt_zero (s : State) (e : Ent) (h0 : e.refs = 0) :
    removeEnt s e = { s with cache := s.cache.erase e, opened := s.opened.erase e.h,
                             closes := e.h :: s.closes } := by
  simp [removeEnt, osClose, h0]

theorem removeEnt_pos (s : State) (e : Ent) (h0 : e.refs ≠ 0) :
    removeEnt s e = { s with cache := s.cache.erase e, removed := (e.h, e.refs) :: s.removed } := by
  simp [removeEnt, h0]

theorem removeEnt_cache (s : State) (e : Ent) : (removeEnt s e).cache = s.cache.erase e := by
  by_cases h0 : e.refs = 0
  · rw [removeEnt_zero s e h0]
  · rw [removeEnt_pos s e h0]

theorem removeEnt_cap (s : State) (e : Ent) : (removeEnt s e).cap = s.cap := by
  by_cases h0 : e.refs = 0
  · rw [removeEnt_zero s e h0]
  · rw [removeEnt_pos s e h0]

/-- removeElement on an entry that is in the cache -/
theorem cinv_removeEnt {s : State} {lent : Nat → Nat} {e : Ent} (hc : CInv s lent)
    (he : e ∈ s.cache) : CInv (removeEnt s e) lent := by
  have hA : ∀ x, x ∈ (s.cache.erase e).map (·.h) ↔ x ∈ cachedH s ∧ x ≠ e.h :=
    mem_map_erase (fun x : Ent => x.h) (l := s.cache) hc.cachedNodup he
  have hB : ∀ x, x ∈ s.cache.erase e → x ∈ s.cache := fun x => List.mem_of_mem_erase
  have hD : e.h ∈ cachedH s := List.mem_map.mpr ⟨e, he, rfl⟩
  have hE := hc.refsCache e he
  have hC : ∀ x, x ∈ s.opened.erase e.h ↔ x ≠ e.h ∧ x ∈ s.opened :=
    fun x => hc.openedNodup.mem_erase_iff
  obtain ⟨h1, h2, h3, h4, h5, h6, h7, h8, h9, h10, h11, h12, h13, h14⟩ := hc
  by_cases h0 : e.refs = 0
  · rw [removeEnt_zero s e h0]
    constructor
    · exact nodup_map_erase _ e h1
    · exact nodup_map_erase _ e h2
    · exact h3
    · simp only [cachedH, removedH] at *; grind
    · simp only [cachedH, removedH] at *; grind
    · simp only [cachedH, removedH, nameOf] at *; grind
    · simp only [cachedH, removedH, nameOf] at *; grind
    · simp only [cachedH, removedH] at *; grind
    · simp only [cachedH, removedH] at *; grind
    · exact h10.erase _
    · simp only [cachedH, removedH] at *; grind
    · simp only [cachedH, removedH] at *; grind
    · simp only [cachedH, removedH] at *; grind
    · simp only [cachedH, removedH] at *; grind
  · rw [removeEnt_pos s e h0]
    constructor
    · exact nodup_map_erase _ e h1
    · exact nodup_map_erase _ e h2
    · simp only [cachedH, removedH, List.map_cons, List.nodup_cons] at *; grind
    · simp only [cachedH, removedH] at *; grind
    · simp only [cachedH, removedH] at *; grind
    · simp only [cachedH, removedH, nameOf] at *; grind
    · simp only [cachedH, removedH, nameOf] at *; grind
    · simp only [cachedH, removedH] at *; grind
    · simp only [cachedH, removedH] at *; grind
    · exact h10
    · simp only [cachedH, removedH] at *; grind
    · exact h12
    · exact h13
    · simp only [cachedH, removedH] at *; grind

/-- the client ghost after lending `h` once more -/
def bump (lent : Nat → Nat) (h : Nat) : Nat → Nat := fun x => if x = h then lent x + 1 else lent x
/-- the client ghost after giving `h` back once -/
def drop (lent : Nat → Nat) (h : Nat) : Nat → Nat := fun x => if x = h then lent x - 1 else lent x

/-- Open at capacity 0: a fresh handle that is not cached -/
theorem cinv_alloc_uncached {s : State} {lent : Nat → Nat} (hc : CInv s lent) (name : Nat) :
    CInv { s with nextH := s.nextH + 1, opened := s.nextH :: s.opened,
                  hname := (s.nextH, name) :: s.hname } (bump lent s.nextH) := by
  obtain ⟨h1, h2, h3, h4, h5, h6, h7, h8, h9, h10, h11, h12, h13, h14⟩ := hc
  have hL : lent s.nextH = 0 := by
    have := h5 s.nextH; omega
  constructor
  · exact h1
  · exact h2
  · exact h3
  · exact h4
  · simp only [cachedH, removedH, bump] at *; grind
  · simp only [cachedH, removedH, nameOf_eq, nameOfL_cons] at *; grind
  · simp only [cachedH, removedH, nameOf_eq, nameOfL_cons] at *; grind
  · simp only [cachedH, removedH, bump] at *; grind
  · simp only [cachedH, removedH, bump] at *; grind
  · simp only [cachedH, removedH, List.nodup_cons] at *; grind
  · simp only [cachedH, removedH, bump] at *; grind
  · exact h12
  · simp only [cachedH, removedH, bump] at *; grind
  · simp only [cachedH, removedH, bump] at *; grind

/-- Open, cache miss: a fresh handle that is pushed to the front of the cache with one reference -/
theorem cinv_alloc_cached {s : State} {lent : Nat → Nat} (hc : CInv s lent) (name : Nat)
    (hnone : ∀ x ∈ s.cache, x.name ≠ name) :
    CInv { s with nextH := s.nextH + 1, opened := s.nextH :: s.opened,
                  hname := (s.nextH, name) :: s.hname,
                  cache := ⟨name, s.nextH, 1⟩ :: s.cache } (bump lent s.nextH) := by
  obtain ⟨h1, h2, h3, h4, h5, h6, h7, h8, h9, h10, h11, h12, h13, h14⟩ := hc
  have hL : lent s.nextH = 0 := by
    have := h5 s.nextH; omega
  constructor
  · simp only [cachedH, removedH, List.map_cons, List.nodup_cons, List.mem_map] at *; grind
  · simp only [cachedH, removedH, List.map_cons, List.nodup_cons] at *; grind
  · exact h3
  · simp only [cachedH, removedH, bump] at *; grind
  · simp only [cachedH, removedH, bump] at *; grind
  · simp only [cachedH, removedH, nameOf_eq, nameOfL_cons] at *; grind
  · simp only [cachedH, removedH, nameOf_eq, nameOfL_cons] at *; grind
  · simp only [cachedH, removedH, bump] at *; grind
  · simp only [cachedH, removedH, bump] at *; grind
  · simp only [cachedH, removedH, List.nodup_cons] at *; grind
  · simp only [cachedH, removedH, bump] at *; grind
  · exact h12
  · simp only [cachedH, removedH, bump] at *; grind
  · simp only [cachedH, removedH, bump] at *; grind

/-- Open, cache hit: the entry moves to the front with one more reference -/
theorem cinv_hit {s : State} {lent : Nat → Nat} {e : Ent} (hc : CInv s lent) (he : e ∈ s.cache) :
    CInv { s with cache := { e with refs := e.refs + 1 } :: s.cache.erase e } (bump lent e.h) := by
  have hA : ∀ x, x ∈ (s.cache.erase e).map (·.h) ↔ x ∈ cachedH s ∧ x ≠ e.h :=
    mem_map_erase (fun x : Ent => x.h) (l := s.cache) hc.cachedNodup he
  have hA' : ∀ x, x ∈ (s.cache.erase e).map (·.name) ↔ x ∈ s.cache.map (·.name) ∧ x ≠ e.name :=
    mem_map_erase (fun x : Ent => x.name) (l := s.cache) hc.namesNodup he
  have hB : ∀ x, x ∈ s.cache.erase e → x ∈ s.cache ∧ x.h ≠ e.h := fun x hx =>
    ⟨List.mem_of_mem_erase hx, ((hA x.h).mp (List.mem_map.mpr ⟨x, hx, rfl⟩)).2⟩
  have hD : e.h ∈ cachedH s := List.mem_map.mpr ⟨e, he, rfl⟩
  have hE := hc.refsCache e he
  have hN := hc.names e he
  have hn1 := nodup_map_erase (fun x : Ent => x.name) e hc.namesNodup
  have hn2 := nodup_map_erase (fun x : Ent => x.h) (l := s.cache) e hc.cachedNodup
  obtain ⟨h1, h2, h3, h4, h5, h6, h7, h8, h9, h10, h11, h12, h13, h14⟩ := hc
  constructor
  · simp only [cachedH, removedH, List.map_cons, List.nodup_cons] at *; grind
  · simp only [cachedH, removedH, List.map_cons, List.nodup_cons] at *; grind
  · exact h3
  · simp only [cachedH, removedH, bump, List.map_cons, List.mem_cons] at *; grind
  · simp only [cachedH, removedH, bump, List.map_cons, List.mem_cons] at *; grind
  · simp only [cachedH, removedH, nameOf, List.mem_cons] at *; grind
  · simp only [cachedH, removedH, nameOf] at *; grind
  · simp only [cachedH, removedH, bump, List.mem_cons] at *; grind
  · simp only [cachedH, removedH, bump] at *; grind
  · exact h10
  · simp only [cachedH, removedH, bump, List.map_cons, List.mem_cons] at *; grind
  · exact h12
  · exact h13
  · simp only [cachedH, removedH, bump, List.map_cons, List.mem_cons] at *; grind

/-- Close of a handle parked in `removed` with its last reference -/
theorem cinv_close_removed_last {s : State} {lent : Nat → Nat} {h : Nat} (hc : CInv s lent)
    (hp : (h, 1) ∈ s.removed) :
    CInv { s with removed := s.removed.filter (·.1 ≠ h), opened := s.opened.erase h,
                  closes := h :: s.closes } (drop lent h) := by
  have hA : ∀ x, x ∈ (s.removed.filter (·.1 ≠ h)).map (·.1) ↔ x ∈ removedH s ∧ x ≠ h := by
    intro x
    simp only [removedH, List.mem_map, List.mem_filter, decide_eq_true_eq]
    constructor
    · rintro ⟨p, ⟨hp1, hp2⟩, rfl⟩; exact ⟨⟨p, hp1, rfl⟩, hp2⟩
    · rintro ⟨⟨p, hp1, rfl⟩, hp2⟩; exact ⟨p, ⟨hp1, hp2⟩, rfl⟩
  have hB : ∀ p, p ∈ s.removed.filter (·.1 ≠ h) → p ∈ s.removed ∧ p.1 ≠ h := by
    intro p hp; simpa using List.mem_filter.mp hp
  have hD : h ∈ removedH s := List.mem_map.mpr ⟨(h, 1), hp, rfl⟩
  have hE := hc.refsRemoved _ hp
  have hC : ∀ x, x ∈ s.opened.erase h ↔ x ≠ h ∧ x ∈ s.opened :=
    fun x => hc.openedNodup.mem_erase_iff
  have hn3 : ((s.removed.filter (·.1 ≠ h)).map (·.1)).Nodup :=
    List.Nodup.sublist (List.Sublist.map _ List.filter_sublist) hc.removedNodup
  obtain ⟨h1, h2, h3, h4, h5, h6, h7, h8, h9, h10, h11, h12, h13, h14⟩ := hc
  constructor
  · exact h1
  · exact h2
  · exact hn3
  · simp only [cachedH, removedH, drop] at *; grind
  · simp only [cachedH, removedH, drop, List.mem_cons] at *; grind
  · simp only [cachedH, removedH, nameOf] at *; grind
  · simp only [cachedH, removedH, nameOf] at *; grind
  · simp only [cachedH, removedH, drop] at *; grind
  · simp only [cachedH, removedH, drop] at *; grind
  · exact h10.erase _
  · simp only [cachedH, removedH, drop] at *; grind
  · simp only [cachedH, removedH, List.nodup_cons] at *; grind
  · simp only [cachedH, removedH, drop, List.mem_cons] at *; grind
  · simp only [cachedH, removedH, drop] at *; grind

/-- Close of a handle parked in `removed` that keeps further references -/
theorem cinv_close_removed_more {s : State} {lent : Nat → Nat} {h refs : Nat} (hc : CInv s lent)
    (hp : (h, refs) ∈ s.removed) (hr : refs ≠ 1) :
    CInv { s with removed := s.removed.map fun p => if p.1 = h then (p.1, refs - 1) else p }
      (drop lent h) := by
  have hA : (s.removed.map fun p => if p.1 = h then (p.1, refs - 1) else p).map (·.1)
      = removedH s := by
    simp only [removedH, List.map_map]
    apply List.map_congr_left
    intro p _
    simp only [Function.comp]
    split <;> rfl
  have hD : h ∈ removedH s := List.mem_map.mpr ⟨(h, refs), hp, rfl⟩
  have hE := hc.refsRemoved _ hp
  have hI : ∀ p ∈ s.removed, p.1 = h → p = (h, refs) := fun p hp' hph =>
    inj_of_nodup_map (fun p : Nat × Nat => p.1) (l := s.removed) hc.removedNodup hp' hp hph
  obtain ⟨h1, h2, h3, h4, h5, h6, h7, h8, h9, h10, h11, h12, h13, h14⟩ := hc
  constructor
  · exact h1
  · exact h2
  · simp only [removedH, hA]; exact h3
  · simp only [cachedH, removedH, drop, hA] at *; grind
  · simp only [cachedH, removedH, drop, hA] at *; grind
  · simp only [cachedH, removedH, nameOf] at *; grind
  · simp only [cachedH, removedH, nameOf] at *; grind
  · simp only [cachedH, removedH, drop] at *; grind
  · simp only [cachedH, removedH, drop, List.mem_map] at *; grind
  · exact h10
  · simp only [cachedH, removedH, drop, hA] at *; grind
  · exact h12
  · exact h13
  · simp only [cachedH, removedH, drop, hA] at *; grind

/-- Close of a handle whose entry is in the cache -/
theorem cinv_close_cached {s : State} {lent : Nat → Nat} {e : Ent} (hc : CInv s lent)
    (he : e ∈ s.cache) :
    CInv { s with cache := s.cache.map fun x => if x = e then { e with refs := e.refs - 1 } else x }
      (drop lent e.h) := by
  have hA : (s.cache.map fun x => if x = e then { e with refs := e.refs - 1 } else x).map (·.h)
      = cachedH s := by
    simp only [cachedH, List.map_map]
    apply List.map_congr_left
    intro x _
    simp only [Function.comp]
    split
    · next hx => rw [hx]
    · rfl
  have hA' : (s.cache.map fun x => if x = e then { e with refs := e.refs - 1 } else x).map (·.name)
      = s.cache.map (·.name) := by
    simp only [List.map_map]
    apply List.map_congr_left
    intro x _
    simp only [Function.comp]
    split
    · next hx => rw [hx]
    · rfl
  have hD : e.h ∈ cachedH s := List.mem_map.mpr ⟨e, he, rfl⟩
  have hE := hc.refsCache e he
  have hI : ∀ x ∈ s.cache, x.h = e.h → x = e := fun x hx hxe =>
    inj_of_nodup_map (fun x : Ent => x.h) (l := s.cache) hc.cachedNodup hx he hxe
  obtain ⟨h1, h2, h3, h4, h5, h6, h7, h8, h9, h10, h11, h12, h13, h14⟩ := hc
  constructor
  · simp only [hA']; exact h1
  · simp only [cachedH, hA]; exact h2
  · exact h3
  · simp only [cachedH, removedH, drop, hA] at *; grind
  · simp only [cachedH, removedH, drop, hA] at *; grind
  · simp only [cachedH, removedH, nameOf, List.mem_map] at *; grind
  · simp only [cachedH, removedH, nameOf] at *; grind
  · simp only [cachedH, removedH, drop, List.mem_map] at *; grind
  · simp only [cachedH, removedH, drop] at *; grind
  · exact h10
  · simp only [cachedH, removedH, drop, hA] at *; grind
  · exact h12
  · exact h13
  · simp only [cachedH, removedH, drop, hA] at *; grind

/-- Close of a handle that is neither cached nor parked: it is closed at the OS level -/
theorem cinv_close_uncached {s : State} {lent : Nat → Nat} {h : Nat} (hc : CInv s lent)
    (hnc : h ∉ cachedH s) (hnr : h ∉ removedH s) (hl : lent h > 0) :
    CInv (osClose s h) (drop lent h) := by
  have hC : ∀ x, x ∈ s.opened.erase h ↔ x ≠ h ∧ x ∈ s.opened :=
    fun x => hc.openedNodup.mem_erase_iff
  have hE := hc.lentOne h hnc hnr
  obtain ⟨h1, h2, h3, h4, h5, h6, h7, h8, h9, h10, h11, h12, h13, h14⟩ := hc
  simp only [osClose]
  constructor
  · exact h1
  · exact h2
  · exact h3
  · exact h4
  · simp only [cachedH, removedH, drop, List.mem_cons] at *; grind
  · simp only [cachedH, removedH, nameOf] at *; grind
  · simp only [cachedH, removedH, nameOf] at *; grind
  · simp only [cachedH, removedH, drop, List.mem_map] at *; grind
  · simp only [cachedH, removedH, drop, List.mem_map] at *; grind
  · exact h10.erase _
  · simp only [cachedH, removedH, drop] at *; grind
  · simp only [cachedH, removedH, List.nodup_cons] at *; grind
  · simp only [cachedH, removedH, drop, List.mem_cons] at *; grind
  · simp only [cachedH, removedH, drop] at *; grind

/-! ### Eviction helpers -/

theorem cinv_removeOldest {s : State} {lent : Nat → Nat} (hc : CInv s lent) :
    CInv (removeOldest s) lent := by
  unfold removeOldest
  split
  · next e he => exact cinv_removeEnt hc (List.mem_of_getLast? he)
  · exact hc

theorem removeOldest_length (s : State) :
    (removeOldest s).cache.length = s.cache.length - 1 := by
  unfold removeOldest
  split
  · next e he =>
    rw [removeEnt_cache, List.length_erase_of_mem (List.mem_of_getLast? he)]
  · next he =>
    rw [List.getLast?_eq_none_iff.mp he]; rfl

theorem removeOldest_cap (s : State) : (removeOldest s).cap = s.cap := by
  unfold removeOldest
  split
  · exact removeEnt_cap _ _
  · rfl

theorem cinv_iter_removeOldest {lent : Nat → Nat} :
    ∀ (k : Nat) {s : State}, CInv s lent → CInv (iter removeOldest k s) lent
  | 0, _, hc => hc
  | k + 1, _, hc => cinv_iter_removeOldest k (cinv_removeOldest hc)

theorem iter_removeOldest_length :
    ∀ (k : Nat) (s : State), (iter removeOldest k s).cache.length = s.cache.length - k
  | 0, _ => rfl
  | k + 1, s => by
    show (iter removeOldest k (removeOldest s)).cache.length = _
    rw [iter_removeOldest_length k, removeOldest_length]; omega

/-- the fold of `removeAll`, generalised: folding over exactly the current cache list -/
theorem foldl_removeEnt {lent : Nat → Nat} :
    ∀ (l : List Ent) (s : State), s.cache = l → CInv s lent →
      CInv (l.foldl removeEnt s) lent ∧ (l.foldl removeEnt s).cache = []
        ∧ (l.foldl removeEnt s).cap = s.cap
  | [], s, hl, hc => ⟨hc, hl, rfl⟩
  | e :: l, s, hl, hc => by
    have he : e ∈ s.cache := by rw [hl]; exact List.mem_cons_self
    have hl' : (removeEnt s e).cache = l := by
      rw [removeEnt_cache, hl, List.erase_cons_head]
    have := foldl_removeEnt l (removeEnt s e) hl' (cinv_removeEnt hc he)
    rw [removeEnt_cap] at this
    exact this

theorem cinv_removeAll {s : State} {lent : Nat → Nat} (hc : CInv s lent) :
    CInv (removeAll s) lent ∧ (removeAll s).cache = [] ∧ (removeAll s).cap = s.cap :=
  foldl_removeEnt s.cache s rfl hc

/-- `cap` is not mentioned in `CInv` -/
theorem cinv_setCap {s : State} {lent : Nat → Nat} (hc : CInv s lent) (n : Nat) :
    CInv { s with cap := n } lent :=
  ⟨hc.namesNodup, hc.cachedNodup, hc.removedNodup, hc.disjoint, hc.fresh, hc.names, hc.named,
    hc.refsCache, hc.refsRemoved, hc.openedNodup, hc.openedIff, hc.closesNodup, hc.closesIff, hc.lentOne⟩

/-! ### `Sys.step`, operation by operation -/

theorem Sys.step_open (y : Sys) (name : Nat) {fc' : State} {h : Nat}
    (heq : FC.step y.fc (.open name) = (fc', .handle h)) :
    y.step (.open name) = ⟨fc', bump y.lent h⟩ := by
  simp only [Sys.step, heq]; rfl

theorem Sys.step_close (y : Sys) (h : Nat) :
    y.step (.close h) = ⟨(FC.step y.fc (.close h)).1, drop y.lent h⟩ := by
  simp only [Sys.step]; rfl

theorem Sys.step_remove (y : Sys) (name : Nat) :
    y.step (.remove name) = ⟨(FC.step y.fc (.remove name)).1, y.lent⟩ := by
  simp only [Sys.step]

theorem Sys.step_clear (y : Sys) : y.step .clear = ⟨(FC.step y.fc .clear).1, y.lent⟩ := by
  simp only [Sys.step]

theorem Sys.step_setSize (y : Sys) (n : Nat) :
    y.step (.setSize n) = ⟨(FC.step y.fc (.setSize n)).1, y.lent⟩ := by
  simp only [Sys.step]

/-! ### The invariant is inductive -/

theorem inv_open (y : Sys) (name : Nat) (hi : Inv y) : Inv (y.step (.open name)) := by
  have hc := hi.core
  by_cases hcap : y.fc.cap = 0
  · have heq : FC.step y.fc (.open name) =
        ({ y.fc with nextH := y.fc.nextH + 1, opened := y.fc.nextH :: y.fc.opened,
                     hname := (y.fc.nextH, name) :: y.fc.hname }, .handle y.fc.nextH) := by
      simp only [FC.step, hcap, if_true]
    rw [Sys.step_open y name heq]
    exact Inv.ofCore (cinv_alloc_uncached hc name) hi.capBound
  · cases hf : y.fc.cache.find? (·.name = name) with
    | some e =>
      have he : e ∈ y.fc.cache := List.mem_of_find?_eq_some hf
      have heq : FC.step y.fc (.open name) =
          ({ y.fc with cache := { e with refs := e.refs + 1 } :: y.fc.cache.erase e }, .handle e.h) := by
        simp only [FC.step, hcap, if_false, hf]
      rw [Sys.step_open y name heq]
      refine Inv.ofCore (cinv_hit hc he) ?_
      have h1 := List.length_erase_of_mem he
      have h2 := List.length_pos_of_mem he
      have h3 := hi.capBound
      show (y.fc.cache.erase e).length + 1 ≤ y.fc.cap
      omega
    | none =>
      have hnone : ∀ x ∈ y.fc.cache, x.name ≠ name := by
        intro x hx
        simpa using List.find?_eq_none.mp hf x hx
      have hc1 := cinv_alloc_cached hc name hnone
      have hb := hi.capBound
      by_cases hlen : y.fc.cache.length + 1 > y.fc.cap
      · have heq : FC.step y.fc (.open name) =
            (removeOldest
              { y.fc with nextH := y.fc.nextH + 1, opened := y.fc.nextH :: y.fc.opened,
                          hname := (y.fc.nextH, name) :: y.fc.hname,
                          cache := ⟨name, y.fc.nextH, 1⟩ :: y.fc.cache }, .handle y.fc.nextH) := by
          simp only [FC.step, hcap, if_false, hf, List.length_cons, hlen, if_true]
        rw [Sys.step_open y name heq]
        refine Inv.ofCore (cinv_removeOldest hc1) ?_
        show (removeOldest _).cache.length ≤ (removeOldest _).cap
        rw [removeOldest_length, removeOldest_cap]
        show (y.fc.cache.length + 1) - 1 ≤ y.fc.cap
        omega
      · have heq : FC.step y.fc (.open name) =
            ({ y.fc with nextH := y.fc.nextH + 1, opened := y.fc.nextH :: y.fc.opened,
                         hname := (y.fc.nextH, name) :: y.fc.hname,
                         cache := ⟨name, y.fc.nextH, 1⟩ :: y.fc.cache }, .handle y.fc.nextH) := by
          simp only [FC.step, hcap, if_false, hf, List.length_cons, hlen]
        rw [Sys.step_open y name heq]
        refine Inv.ofCore hc1 ?_
        show y.fc.cache.length + 1 ≤ y.fc.cap
        omega

theorem inv_close (y : Sys) (h : Nat) (hi : Inv y) (hl : y.lent h > 0) :
    Inv (y.step (.close h)) := by
  have hc := hi.core
  rw [Sys.step_close]
  cases hr : y.fc.removed.find? (·.1 = h) with
  | some p =>
    obtain ⟨h', refs⟩ := p
    have hp := List.mem_of_find?_eq_some hr
    obtain rfl : h' = h := by simpa using List.find?_some hr
    by_cases h1 : refs = 1
    · subst h1
      have heq : (FC.step y.fc (.close h')).1 =
          { y.fc with removed := y.fc.removed.filter (·.1 ≠ h'), opened := y.fc.opened.erase h',
                      closes := h' :: y.fc.closes } := by
        simp only [FC.step, hr, osClose, if_true]
      rw [heq]
      exact Inv.ofCore (cinv_close_removed_last hc hp) hi.capBound
    · have heq : (FC.step y.fc (.close h')).1 =
          { y.fc with removed := y.fc.removed.map fun p => if p.1 = h' then (p.1, refs - 1) else p } := by
        simp only [FC.step, hr, h1, if_false]
      rw [heq]
      exact Inv.ofCore (cinv_close_removed_more hc hp h1) hi.capBound
  | none =>
    have hnr : h ∉ removedH y.fc := by
      intro hm
      obtain ⟨p, hp, hph⟩ := List.mem_map.mp hm
      exact (List.find?_eq_none.mp hr) p hp (by simpa using hph)
    have huncached : h ∉ cachedH y.fc → Inv ⟨osClose y.fc h, drop y.lent h⟩ := fun hnc =>
      Inv.ofCore (cinv_close_uncached hc hnc hnr hl) hi.capBound
    cases hcf : y.fc.cache.find? (fun e => some e.name = nameOf y.fc h) with
    | some e =>
      have he : e ∈ y.fc.cache := List.mem_of_find?_eq_some hcf
      have hen : some e.name = nameOf y.fc h := by simpa using List.find?_some hcf
      by_cases heh : e.h = h
      · subst heh
        have h0 : e.refs ≠ 0 := by
          have := hi.refsCache e he; omega
        have heq : (FC.step y.fc (.close e.h)).1 =
            { y.fc with cache := y.fc.cache.map fun x =>
                if x = e then { e with refs := e.refs - 1 } else x } := by
          simp only [FC.step, hr, hcf, h0, if_true, if_false]
        rw [heq]
        refine Inv.ofCore (cinv_close_cached hc he) ?_
        show (y.fc.cache.map _).length ≤ y.fc.cap
        rw [List.length_map]; exact hi.capBound
      · have hnc : h ∉ cachedH y.fc := by
          intro hm
          obtain ⟨e2, he2, he2h⟩ := List.mem_map.mp hm
          have hn2 := hi.names e2 he2
          rw [he2h, ← hen] at hn2
          have : e = e2 := inj_of_nodup_map (fun x : Ent => x.name) (l := y.fc.cache)
            hi.namesNodup he he2 (Option.some.inj hn2)
          exact heh (this ▸ he2h)
        have heq : (FC.step y.fc (.close h)).1 = osClose y.fc h := by
          simp only [FC.step, hr, hcf, heh, if_false]
        rw [heq]
        exact huncached hnc
    | none =>
      have hnc : h ∉ cachedH y.fc := by
        intro hm
        obtain ⟨e2, he2, he2h⟩ := List.mem_map.mp hm
        have hn2 := hi.names e2 he2
        rw [he2h] at hn2
        exact (List.find?_eq_none.mp hcf) e2 he2 (by simp [hn2])
      have heq : (FC.step y.fc (.close h)).1 = osClose y.fc h := by
        simp only [FC.step, hr, hcf]
      rw [heq]
      exact huncached hnc

theorem inv_remove (y : Sys) (name : Nat) (hi : Inv y) : Inv (y.step (.remove name)) := by
  have hc := hi.core
  rw [Sys.step_remove]
  cases hf : y.fc.cache.find? (·.name = name) with
  | some e =>
    have he : e ∈ y.fc.cache := List.mem_of_find?_eq_some hf
    have heq : (FC.step y.fc (.remove name)).1 = removeEnt y.fc e := by
      simp only [FC.step, hf]
    rw [heq]
    refine Inv.ofCore (cinv_removeEnt hc he) ?_
    show (removeEnt y.fc e).cache.length ≤ (removeEnt y.fc e).cap
    rw [removeEnt_cache, removeEnt_cap]
    have := List.length_erase_of_mem he
    have := hi.capBound
    omega
  | none =>
    have heq : (FC.step y.fc (.remove name)).1 = y.fc := by
      simp only [FC.step, hf]
    rw [heq]
    exact Inv.ofCore hc hi.capBound

theorem inv_clear (y : Sys) (hi : Inv y) : Inv (y.step .clear) := by
  rw [Sys.step_clear]
  have heq : (FC.step y.fc .clear).1 = removeAll y.fc := rfl
  rw [heq]
  obtain ⟨h1, h2, _⟩ := cinv_removeAll hi.core
  refine Inv.ofCore h1 ?_
  show (removeAll y.fc).cache.length ≤ _
  rw [h2]; exact Nat.zero_le _

theorem inv_setSize (y : Sys) (n : Nat) (hi : Inv y) : Inv (y.step (.setSize n)) := by
  have hc := hi.core
  have hb := hi.capBound
  rw [Sys.step_setSize]
  by_cases hn : n < y.fc.cap
  · by_cases h0 : n = 0
    · subst h0
      have heq : (FC.step y.fc (.setSize 0)).1 = { removeAll y.fc with cap := 0 } := by
        simp only [FC.step, hn, if_true]
      rw [heq]
      obtain ⟨h1, h2, _⟩ := cinv_removeAll hc
      refine Inv.ofCore (cinv_setCap h1 0) ?_
      show (removeAll y.fc).cache.length ≤ 0
      rw [h2]; exact Nat.zero_le _
    · have heq : (FC.step y.fc (.setSize n)).1 =
          { iter removeOldest (y.fc.cap - n) y.fc with cap := n } := by
        simp only [FC.step, hn, h0, if_true, if_false]
      rw [heq]
      refine Inv.ofCore (cinv_setCap (cinv_iter_removeOldest _ hc) n) ?_
      show (iter removeOldest (y.fc.cap - n) y.fc).cache.length ≤ n
      rw [iter_removeOldest_length]
      omega
  · have heq : (FC.step y.fc (.setSize n)).1 = { y.fc with cap := n } := by
      simp only [FC.step, hn, if_false]
    rw [heq]
    refine Inv.ofCore (cinv_setCap hc n) ?_
    show y.fc.cache.length ≤ n
    omega

theorem inv_init (cap : Nat) : Inv (Sys.init cap) := by
  constructor <;> simp [Sys.init, cachedH, removedH]

theorem inv_step (y : Sys) (op : Op) (hi : Inv y) (hc : ClientOK y op) : Inv (y.step op) := by
  cases op with
  | «open» name => exact inv_open y name hi
  | close h => exact inv_close y h hi hc
  | remove name => exact inv_remove y name hi
  | clear => exact inv_clear y hi
  | setSize n => exact inv_setSize y n hi

theorem inv_run (y : Sys) (ops : List Op) (hi : Inv y) (hr : y.RunOK ops) : Inv (y.run ops) := by
  induction ops generalizing y with
  | nil => exact hi
  | cons op ops ih =>
    exact ih (y.step op) (inv_step y op hi hr.1) hr.2

/-- |opened| ≤ cap + number of lent handles, from the invariant -/
theorem fd_bound_of_inv (y : Sys) (hi : Inv y) : y.fc.opened.length ≤ y.fc.cap + y.lentCount := by
  let p : Nat → Bool := fun h => decide (h ∈ cachedH y.fc)
  have hsplit := List.length_eq_countP_add_countP p (l := y.fc.opened)
  rw [List.countP_eq_length_filter, List.countP_eq_length_filter] at hsplit
  -- open handles that are cached: at most |cache| ≤ cap
  have h1 : (y.fc.opened.filter p).length ≤ (cachedH y.fc).length := by
    apply nodup_length_le
    · exact List.Nodup.sublist List.filter_sublist hi.openedNodup
    · intro x hx
      simpa [p] using (List.mem_filter.mp hx).2
  have h1' : (cachedH y.fc).length = y.fc.cache.length := by
    simp only [cachedH, List.length_map]
  -- open handles that are not cached: all of them are lent
  have h2 : (y.fc.opened.filter fun a => decide ¬p a = true).length ≤ y.lentCount := by
    unfold Sys.lentCount
    rw [List.countP_eq_length_filter]
    apply nodup_length_le
    · exact List.Nodup.sublist List.filter_sublist hi.openedNodup
    · intro x hx
      obtain ⟨hxo, hxp⟩ := List.mem_filter.mp hx
      have hnc : x ∉ cachedH y.fc := by simpa [p] using hxp
      have hpos : y.lent x > 0 := by
        rcases (hi.openedIff x).mp hxo with hc | hrm | ⟨_, hpos⟩
        · exact absurd hc hnc
        · obtain ⟨q, hq, rfl⟩ := List.mem_map.mp hrm
          have := hi.refsRemoved q hq
          omega
        · exact hpos
      have hlt : x < y.fc.nextH := hi.fresh x (Or.inr (Or.inr (Or.inl hxo)))
      exact List.mem_filter.mpr ⟨List.mem_range.mpr hlt, by simpa using hpos⟩
  have h3 := hi.capBound
  omega

end Sth.FC
