/-
Helper definitions and lemmas for C08 (record-list invariant, lookup, frame, codec).
-/
import Sth.Model.IndexLevel
import Sth.Lemmas.Lex
import Sth.Lemmas.IndexOps
import Sth.Lemmas.Codec

namespace Sth

/-- key universe: non-empty keys, no key a proper prefix of another -/
structure Universe (U : List Key) : Prop where
  nonempty : ∀ k ∈ U, k ≠ []
  prefixFree : ∀ k ∈ U, ∀ k' ∈ U, k ≠ k' → ¬ pfx k k'

/-- the full key of an entry, read back through the primary (what `GetIndexKey` returns) -/
def owner (s : IxState) (e : Entry) : Option Key := s.prim[e.blk.off]?

/-- the record-list invariant of C08 -/
structure RLInv (s : IxState) : Prop where
  sorted : (s.entries.map (·.pfx)).Pairwise klt
  prefixFree : (s.entries.map (·.pfx)).Pairwise apart
  ownPrefix : ∀ e ∈ s.entries, ∃ k, owner s e = some k ∧ pfx e.pfx k ∧ e.pfx ≠ []
  distinctBlocks : (s.entries.map (·.blk)).Nodup

/-- agreement between the record list and the specification map -/
structure Agree (U : List Key) (s : IxState) (m : IxSpec) : Prop where
  sound : ∀ e ∈ s.entries, ∃ k, owner s e = some k ∧ m k = some e.blk
  complete : ∀ k b, m k = some b → ∃ e ∈ s.entries, e.blk = b ∧ owner s e = some k
  inU : ∀ k b, m k = some b → k ∈ U
  primU : ∀ k ∈ s.prim, k ∈ U

/-- well-formedness for the byte codec -/
def EntryWF (e : Entry) : Prop :=
  e.pfx.length < 256 ∧ bytesOK e.pfx ∧ e.blk.off < two64 ∧ e.blk.size < two32

def RLWF (rl : RecordList) : Prop := ∀ e ∈ rl, EntryWF e

/-! ### bridging the state-level predicates to the list-level ones -/

theorem rlinv_iff (s : IxState) : RLInv s ↔ LInv s.prim s.entries :=
  ⟨fun h => ⟨h.sorted, h.prefixFree, h.ownPrefix, h.distinctBlocks⟩,
   fun h => ⟨h.sorted, h.prefixFree, h.ownPrefix, h.distinctBlocks⟩⟩

/-- `Agree` only depends on the set of blocks named by the entries -/
structure BAgree (U : List Key) (prim : List Key) (bs : List Block) (m : IxSpec) : Prop where
  sound : ∀ b ∈ bs, ∃ k, prim[b.off]? = some k ∧ m k = some b
  complete : ∀ k b, m k = some b → b ∈ bs ∧ prim[b.off]? = some k
  inU : ∀ k b, m k = some b → k ∈ U
  primU : ∀ k ∈ prim, k ∈ U

theorem agree_iff (U : List Key) (s : IxState) (m : IxSpec) :
    Agree U s m ↔ BAgree U s.prim (s.entries.map (·.blk)) m := by
  constructor
  · intro h
    refine ⟨?_, ?_, h.inU, h.primU⟩
    · intro b hb
      obtain ⟨e, he, rfl⟩ := List.mem_map.mp hb
      exact h.sound e he
    · intro k b hm
      obtain ⟨e, he, rfl, ho⟩ := h.complete k b hm
      exact ⟨List.mem_map_of_mem he, ho⟩
  · intro h
    refine ⟨?_, ?_, h.inU, h.primU⟩
    · intro e he
      exact h.sound e.blk (List.mem_map_of_mem he)
    · intro k b hm
      obtain ⟨hb, ho⟩ := h.complete k b hm
      obtain ⟨e, he, rfl⟩ := List.mem_map.mp hb
      exact ⟨e, he, rfl, ho⟩

theorem BAgree.ext {U prim bs m} {k : Key} (h : BAgree U prim bs m) (hk : k ∈ U) :
    BAgree U (prim ++ [k]) bs m := by
  have hext := ext_append prim k
  refine ⟨?_, ?_, h.inU, ?_⟩
  · intro b hb
    obtain ⟨k1, h1, h2⟩ := h.sound b hb
    exact ⟨k1, hext _ _ h1, h2⟩
  · intro x b hx
    obtain ⟨h1, h2⟩ := h.complete x b hx
    exact ⟨h1, hext _ _ h2⟩
  · intro x hx
    simp only [List.mem_append, List.mem_singleton] at hx
    rcases hx with hx | rfl
    · exact h.primU x hx
    · exact hk

theorem BAgree.put_absent {U prim bs bs' m} {k : Key} (h : BAgree U prim bs m) (hk : k ∈ U)
    (hm : m k = none) (hbs : ∀ b, b ∈ bs' ↔ b = ⟨prim.length, 1⟩ ∨ b ∈ bs) :
    BAgree U (prim ++ [k]) bs' (m.step prim.length (.put k)) := by
  have h' := h.ext hk
  refine ⟨?_, ?_, ?_, h'.primU⟩
  · intro b hb
    rcases (hbs b).mp hb with rfl | hb
    · refine ⟨k, by simp, ?_⟩
      simp [IxSpec.step, hm]
    · obtain ⟨k1, h1, h2⟩ := h'.sound b hb
      refine ⟨k1, h1, ?_⟩
      have hne : k1 ≠ k := by
        rintro rfl
        rw [hm] at h2
        cases h2
      simp [IxSpec.step, hne, h2]
  · intro x b hx
    simp only [IxSpec.step] at hx
    by_cases hxk : x = k
    · subst hxk
      simp [hm] at hx
      subst hx
      exact ⟨(hbs _).mpr (Or.inl rfl), by simp⟩
    · simp only [hxk, if_false] at hx
      obtain ⟨h1, h2⟩ := h'.complete x b hx
      exact ⟨(hbs b).mpr (Or.inr h1), h2⟩
  · intro x b hx
    simp only [IxSpec.step] at hx
    by_cases hxk : x = k
    · subst hxk
      exact hk
    · simp only [hxk, if_false] at hx
      exact h.inU x b hx

theorem step_put_present (m : IxSpec) (n : Nat) {k : Key} {b0 : Block} (hm : m k = some b0) :
    m.step n (.put k) = m := by
  funext x
  simp only [IxSpec.step]
  by_cases hxk : x = k
  · subst hxk
    simp [hm]
  · simp [hxk]

theorem BAgree.upd {U prim bs bs' m} {k : Key} {b0 : Block} (h : BAgree U prim bs m) (hk : k ∈ U)
    (hm : m k = some b0)
    (hbs : ∀ b, b ∈ bs' ↔ b = ⟨prim.length, 1⟩ ∨ (b ∈ bs ∧ b ≠ b0)) :
    BAgree U (prim ++ [k]) bs' (m.step prim.length (.upd k)) := by
  have h' := h.ext hk
  refine ⟨?_, ?_, ?_, h'.primU⟩
  · intro b hb
    rcases (hbs b).mp hb with rfl | ⟨hb, hne⟩
    · refine ⟨k, by simp, ?_⟩
      simp [IxSpec.step]
    · obtain ⟨k1, h1, h2⟩ := h'.sound b hb
      refine ⟨k1, h1, ?_⟩
      have hne' : k1 ≠ k := by
        rintro rfl
        rw [hm] at h2
        cases h2
        exact hne rfl
      simp [IxSpec.step, hne', h2]
  · intro x b hx
    simp only [IxSpec.step] at hx
    by_cases hxk : x = k
    · subst hxk
      simp at hx
      subst hx
      exact ⟨(hbs _).mpr (Or.inl rfl), by simp⟩
    · simp only [hxk, if_false] at hx
      obtain ⟨h1, h2⟩ := h.complete x b hx
      have hne : b ≠ b0 := by
        rintro rfl
        have := (h.complete k b hm).2
        rw [h2] at this
        cases this
        exact hxk rfl
      exact ⟨(hbs b).mpr (Or.inr ⟨h1, hne⟩), ext_append prim k _ _ h2⟩
  · intro x b hx
    simp only [IxSpec.step] at hx
    by_cases hxk : x = k
    · subst hxk
      exact hk
    · simp only [hxk, if_false] at hx
      exact h.inU x b hx

theorem BAgree.rm {U prim bs bs' m} {k : Key} {b0 : Block} (n : Nat) (h : BAgree U prim bs m)
    (hm : m k = some b0) (hbs : ∀ b, b ∈ bs' ↔ (b ∈ bs ∧ b ≠ b0)) :
    BAgree U prim bs' (m.step n (.rm k)) := by
  refine ⟨?_, ?_, ?_, h.primU⟩
  · intro b hb
    obtain ⟨hb, hne⟩ := (hbs b).mp hb
    obtain ⟨k1, h1, h2⟩ := h.sound b hb
    refine ⟨k1, h1, ?_⟩
    have hne' : k1 ≠ k := by
      rintro rfl
      rw [hm] at h2
      cases h2
      exact hne rfl
    simp [IxSpec.step, hne', h2]
  · intro x b hx
    simp only [IxSpec.step] at hx
    by_cases hxk : x = k
    · subst hxk
      simp at hx
    · simp only [hxk, if_false] at hx
      obtain ⟨h1, h2⟩ := h.complete x b hx
      have hne : b ≠ b0 := by
        rintro rfl
        have := (h.complete k b hm).2
        rw [h2] at this
        cases this
        exact hxk rfl
      exact ⟨(hbs b).mpr ⟨h1, hne⟩, h2⟩
  · intro x b hx
    simp only [IxSpec.step] at hx
    by_cases hxk : x = k
    · subst hxk
      simp at hx
    · simp only [hxk, if_false] at hx
      exact h.inU x b hx

/-! ### membership after replacing / erasing one element of a duplicate-free list -/

theorem nodup_middle_notin {α : Type _} {A B : List α} {a : α} (hnd : (A ++ a :: B).Nodup) :
    a ∉ A ∧ a ∉ B := by
  have := (List.perm_middle (a := a) (l₁ := A) (l₂ := B)).nodup_iff.mp hnd
  rw [List.nodup_cons, List.mem_append] at this
  exact ⟨fun h => this.1 (Or.inl h), fun h => this.1 (Or.inr h)⟩

theorem mem_replace_iff {α : Type _} {A B : List α} {a c b : α} (hnd : (A ++ a :: B).Nodup) :
    b ∈ A ++ c :: B ↔ b = c ∨ (b ∈ A ++ a :: B ∧ b ≠ a) := by
  have ha := nodup_middle_notin hnd
  simp only [List.mem_append, List.mem_cons]
  constructor
  · rintro (h | rfl | h)
    · right; exact ⟨Or.inl h, fun hc => ha.1 (hc ▸ h)⟩
    · left; rfl
    · right; exact ⟨Or.inr (Or.inr h), fun hc => ha.2 (hc ▸ h)⟩
  · rintro (rfl | ⟨h | rfl | h, hne⟩)
    · right; left; rfl
    · left; exact h
    · exact absurd rfl hne
    · right; right; exact h

theorem mem_erase_iff {α : Type _} {A B : List α} {a b : α} (hnd : (A ++ a :: B).Nodup) :
    b ∈ A ++ B ↔ (b ∈ A ++ a :: B ∧ b ≠ a) := by
  have ha := nodup_middle_notin hnd
  simp only [List.mem_append, List.mem_cons]
  constructor
  · rintro (h | h)
    · exact ⟨Or.inl h, fun hc => ha.1 (hc ▸ h)⟩
    · exact ⟨Or.inr (Or.inr h), fun hc => ha.2 (hc ▸ h)⟩
  · rintro ⟨h | rfl | h, hne⟩
    · left; exact h
    · exact absurd rfl hne
    · right; exact h

theorem eraseIdx_split {α : Type _} (pre post : List α) (e : α) :
    (pre ++ e :: post).eraseIdx pre.length = pre ++ post := by
  rw [List.eraseIdx_eq_take_drop_succ, List.take_left' rfl]
  have : pre ++ e :: post = (pre ++ [e]) ++ post := by simp
  rw [this, List.drop_left' (by simp)]

/-! ### shape of one step -/

theorem step_put_eq (s : IxState) (k : Key) :
    s.step (.put k) =
      match indexPut (IxState.full ⟨s.rl, s.prim ++ [k]⟩) s.rl k ⟨s.prim.length, 1⟩ with
      | .set rl => ⟨some rl, s.prim ++ [k]⟩
      | _ => ⟨s.rl, s.prim ++ [k]⟩ := rfl

theorem step_upd_eq (s : IxState) (k : Key) :
    s.step (.upd k) =
      match indexUpdate s.rl k ⟨s.prim.length, 1⟩ with
      | some rl => ⟨some rl, s.prim ++ [k]⟩
      | none => ⟨s.rl, s.prim ++ [k]⟩ := rfl

theorem step_rm_eq (s : IxState) (k : Key) :
    s.step (.rm k) =
      match indexRemove s.rl k with
      | some rl => ⟨some rl, s.prim⟩
      | none => s := rfl

/-- a present key owns an entry; the record list splits around it -/
theorem present_split {U : List Key} {s : IxState} {m : IxSpec} {k : Key} {b0 : Block}
    (hA : Agree U s m) (hm : m k = some b0) :
    ∃ pre e post, s.rl = some (pre ++ e :: post) ∧ e.blk = b0 ∧ s.prim[e.blk.off]? = some k := by
  obtain ⟨e, he, hb, ho⟩ := hA.complete k b0 hm
  cases hrl : s.rl with
  | none => simp [IxState.entries, hrl] at he
  | some rl =>
    simp only [IxState.entries, hrl, Option.getD_some] at he
    obtain ⟨pre, post, rfl⟩ := List.append_of_mem he
    exact ⟨pre, e, post, rfl, hb, ho⟩

theorem upd_shape {U : List Key} {s : IxState} {m : IxSpec} {k : Key} {b0 : Block}
    (hI : RLInv s) (hA : Agree U s m) (hm : m k = some b0) :
    ∃ pre e post, s.rl = some (pre ++ e :: post) ∧ e.blk = b0 ∧ s.prim[e.blk.off]? = some k ∧
      s.step (.upd k) = ⟨some (pre ++ ⟨e.pfx, s.nextLoc⟩ :: post), s.prim ++ [k]⟩ ∧
      LInv (s.prim ++ [k]) (pre ++ ⟨e.pfx, s.nextLoc⟩ :: post) := by
  obtain ⟨pre, e, post, hrl, hb, ho⟩ := present_split hA hm
  have hL : LInv s.prim (pre ++ e :: post) := by
    have := (rlinv_iff s).mp hI
    simpa [IxState.entries, hrl] using this
  have := indexUpdate_ok (prim' := s.prim ++ [k]) (loc := s.nextLoc) hL ho (ext_append _ _)
    (by simp [IxState.nextLoc]) (hL.fresh 1)
  refine ⟨pre, e, post, hrl, hb, ho, ?_, this.2⟩
  rw [step_upd_eq, hrl]
  have h1 := this.1
  simp only [IxState.nextLoc] at h1 ⊢
  rw [h1]

theorem rm_shape {U : List Key} {s : IxState} {m : IxSpec} {k : Key} {b0 : Block}
    (hI : RLInv s) (hA : Agree U s m) (hm : m k = some b0) :
    ∃ pre e post, s.rl = some (pre ++ e :: post) ∧ e.blk = b0 ∧ s.prim[e.blk.off]? = some k ∧
      s.step (.rm k) = ⟨some (pre ++ post), s.prim⟩ ∧ LInv s.prim (pre ++ post) := by
  obtain ⟨pre, e, post, hrl, hb, ho⟩ := present_split hA hm
  have hL : LInv s.prim (pre ++ e :: post) := by
    have := (rlinv_iff s).mp hI
    simpa [IxState.entries, hrl] using this
  have := indexRemove_ok hL ho
  refine ⟨pre, e, post, hrl, hb, ho, ?_, this.2⟩
  rw [step_rm_eq, hrl, this.1]

/-! ### one step preserves the invariant -/

theorem step_put_inv {U : List Key} (hU : Universe U) {s : IxState} {m : IxSpec} {k : Key}
    (hI : RLInv s) (hA : Agree U s m) (hk : k ∈ U) :
    RLInv (s.step (.put k)) ∧ Agree U (s.step (.put k)) (m.step s.prim.length (.put k)) ∧
      (s.step (.put k)).prim.length = s.prim.length + 1 := by
  have hkne : k ≠ [] := hU.nonempty k hk
  have hown : (s.prim ++ [k])[(⟨s.prim.length, 1⟩ : Block).off]? = some k := by simp
  cases hm : m k with
  | some b0 =>
    obtain ⟨pre, e, post, hrl, hb, ho⟩ := present_split hA hm
    have hL : LInv s.prim (pre ++ e :: post) := by
      have := (rlinv_iff s).mp hI
      simpa [IxState.entries, hrl] using this
    have hfull : IxState.full ⟨s.rl, s.prim ++ [k]⟩ e.blk = .ok k := by
      simp [IxState.full, ext_append s.prim k _ _ ho]
    have hnoop := indexPut_present (IxState.full ⟨s.rl, s.prim ++ [k]⟩) ⟨s.prim.length, 1⟩
      hL ho hfull
    have hstep : s.step (.put k) = ⟨s.rl, s.prim ++ [k]⟩ := by
      rw [step_put_eq]
      rw [hrl] at hnoop ⊢
      rw [hnoop]
    rw [hstep, step_put_present m _ hm]
    refine ⟨?_, ?_, by simp⟩
    · rw [rlinv_iff]
      exact ((rlinv_iff s).mp hI).ext (ext_append _ _)
    · rw [agree_iff]
      exact ((agree_iff U s m).mp hA).ext hk
  | none =>
    cases hrl : s.rl with
    | none =>
      have hB := (agree_iff U s m).mp hA
      have hstep : s.step (.put k) = ⟨some [⟨k.take 1, ⟨s.prim.length, 1⟩⟩], s.prim ++ [k]⟩ := by
        rw [step_put_eq, hrl]
        rfl
      rw [hstep]
      refine ⟨?_, ?_, by simp⟩
      · rw [rlinv_iff]
        exact (indexPut_none_ok (fun _ => FullKey.err) hkne hown).2
      · rw [agree_iff]
        apply hB.put_absent hk hm
        intro b
        simp [IxState.entries, hrl]
    | some rl =>
      have hL : LInv s.prim rl := by
        have := (rlinv_iff s).mp hI
        simpa [IxState.entries, hrl] using this
      have hB : BAgree U s.prim (rl.map (·.blk)) m := by
        have := (agree_iff U s m).mp hA
        simpa [IxState.entries, hrl] using this
      have howner : ∀ e ∈ rl, ∀ ko, s.prim[e.blk.off]? = some ko → ko ∈ U ∧ ko ≠ k := by
        intro e he ko hko
        obtain ⟨k1, h1, h2⟩ := hB.sound e.blk (List.mem_map_of_mem he)
        rw [hko] at h1
        cases h1
        refine ⟨hB.inU _ _ h2, ?_⟩
        rintro rfl
        rw [hm] at h2
        cases h2
      obtain ⟨rl', heq, hL', hperm⟩ := indexPut_absent (prim' := s.prim ++ [k])
        (loc := ⟨s.prim.length, 1⟩) (IxState.full ⟨s.rl, s.prim ++ [k]⟩) hL hkne
        (by
          intro e he ko hko
          obtain ⟨h1, h2⟩ := howner e he ko hko
          exact ⟨hU.prefixFree k hk ko h1 (Ne.symm h2), hU.prefixFree ko h1 k hk h2⟩)
        (ext_append _ _) hown (hL.fresh 1)
        (by
          intro e _ ko hko
          simp [IxState.full, ext_append s.prim k _ _ hko])
      have hstep : s.step (.put k) = ⟨some rl', s.prim ++ [k]⟩ := by
        rw [step_put_eq]
        rw [hrl] at heq ⊢
        rw [heq]
      rw [hstep]
      refine ⟨?_, ?_, by simp⟩
      · rw [rlinv_iff]
        exact hL'
      · rw [agree_iff]
        apply hB.put_absent hk hm
        intro b
        simp only [IxState.entries, Option.getD_some]
        rw [hperm.mem_iff, List.mem_cons]

theorem step_upd_inv {U : List Key} {s : IxState} {m : IxSpec} {k : Key}
    (hI : RLInv s) (hA : Agree U s m) (hk : k ∈ U) (hp : (m k).isSome) :
    RLInv (s.step (.upd k)) ∧ Agree U (s.step (.upd k)) (m.step s.prim.length (.upd k)) ∧
      (s.step (.upd k)).prim.length = s.prim.length + 1 := by
  obtain ⟨b0, hm⟩ := Option.isSome_iff_exists.mp hp
  obtain ⟨pre, e, post, hrl, hb, ho, hstep, hL'⟩ := upd_shape hI hA hm
  have hL : LInv s.prim (pre ++ e :: post) := by
    have := (rlinv_iff s).mp hI
    simpa [IxState.entries, hrl] using this
  have hB : BAgree U s.prim ((pre ++ e :: post).map (·.blk)) m := by
    have := (agree_iff U s m).mp hA
    simpa [IxState.entries, hrl] using this
  rw [hstep]
  refine ⟨?_, ?_, by simp⟩
  · rw [rlinv_iff]
    exact hL'
  · rw [agree_iff]
    apply hB.upd hk hm
    intro b
    have hnd := hL.distinctBlocks
    simp only [List.map_append, List.map_cons] at hnd
    simp only [IxState.entries, Option.getD_some, IxState.nextLoc, List.map_append, List.map_cons]
    rw [mem_replace_iff hnd, hb]

theorem step_rm_inv {U : List Key} {s : IxState} {m : IxSpec} {k : Key} (n : Nat)
    (hI : RLInv s) (hA : Agree U s m) (hp : (m k).isSome) :
    RLInv (s.step (.rm k)) ∧ Agree U (s.step (.rm k)) (m.step n (.rm k)) ∧
      (s.step (.rm k)).prim.length = s.prim.length := by
  obtain ⟨b0, hm⟩ := Option.isSome_iff_exists.mp hp
  obtain ⟨pre, e, post, hrl, hb, ho, hstep, hL'⟩ := rm_shape hI hA hm
  have hL : LInv s.prim (pre ++ e :: post) := by
    have := (rlinv_iff s).mp hI
    simpa [IxState.entries, hrl] using this
  have hB : BAgree U s.prim ((pre ++ e :: post).map (·.blk)) m := by
    have := (agree_iff U s m).mp hA
    simpa [IxState.entries, hrl] using this
  rw [hstep]
  refine ⟨?_, ?_, rfl⟩
  · rw [rlinv_iff]
    exact hL'
  · rw [agree_iff]
    apply hB.rm n hm
    intro b
    have hnd := hL.distinctBlocks
    simp only [List.map_append, List.map_cons] at hnd
    simp only [IxState.entries, Option.getD_some, List.map_append, List.map_cons]
    rw [mem_erase_iff hnd, hb]

theorem step_inv {U : List Key} (hU : Universe U) {s : IxState} {m : IxSpec} {n : Nat}
    (op : IxOp) (hI : RLInv s) (hA : Agree U s m) (hn : s.prim.length = n) (hk : op.key ∈ U)
    (hd : match (generalizing := false) op with
      | .put _ => True
      | .upd k => (m k).isSome
      | .rm k => (m k).isSome) :
    RLInv (s.step op) ∧ Agree U (s.step op) (m.step n op) ∧
      (s.step op).prim.length = n + op.grows := by
  subst hn
  cases op with
  | put k => exact step_put_inv hU hI hA hk
  | upd k => exact step_upd_inv hI hA hk hd
  | rm k => exact step_rm_inv _ hI hA hd

theorem run_inv {U : List Key} (hU : Universe U) : ∀ (ops : List IxOp) (s : IxState) (m : IxSpec)
    (n : Nat), RLInv s → Agree U s m → s.prim.length = n → (∀ op ∈ ops, op.key ∈ U) →
    Disciplined m n ops →
    RLInv (s.run ops) ∧ Agree U (s.run ops) (m.run n ops) ∧
      (s.run ops).prim.length = n + (ops.map IxOp.grows).sum
  | [], s, m, n, hI, hA, hn, _, _ => ⟨hI, hA, by simpa [IxState.run] using hn⟩
  | op :: ops, s, m, n, hI, hA, hn, hk, hd => by
    obtain ⟨h1, h2, h3⟩ := step_inv hU op hI hA hn (hk op (by simp)) hd.1
    have ih := run_inv hU ops (s.step op) (m.step n op) (n + op.grows) h1 h2 h3
      (fun o ho => hk o (by simp [ho])) hd.2
    refine ⟨ih.1, ih.2.1, ?_⟩
    have := ih.2.2
    simp only [IxState.run, List.foldl_cons, List.map_cons, List.sum_cons] at this ⊢
    omega

theorem rlinv_empty : RLInv {} :=
  ⟨by simp [IxState.entries], by simp [IxState.entries], by simp [IxState.entries],
    by simp [IxState.entries]⟩

theorem agree_empty (U : List Key) : Agree U {} IxSpec.empty :=
  ⟨by simp [IxState.entries], by simp [IxSpec.empty], by simp [IxSpec.empty], by simp⟩


theorem reach_inv (U : List Key) (hU : Universe U) (ops : List IxOp)
    (hk : ∀ op ∈ ops, op.key ∈ U) (hd : Disciplined IxSpec.empty 0 ops) :
    RLInv (IxState.run {} ops) ∧
      Agree U (IxState.run {} ops) (IxSpec.run IxSpec.empty 0 ops) ∧
      (IxState.run {} ops).prim.length = (ops.map IxOp.grows).sum := by
  have := run_inv hU ops {} IxSpec.empty 0 rlinv_empty (agree_empty U) rfl hk hd
  simpa using this

theorem lookup_present (U : List Key) (hU : Universe U) (ops : List IxOp)
    (hk : ∀ op ∈ ops, op.key ∈ U) (hd : Disciplined IxSpec.empty 0 ops)
    (k : Key) (b : Block) (hp : IxSpec.run IxSpec.empty 0 ops k = some b) :
    (IxState.run {} ops).get k = some b := by
  obtain ⟨hI, hA, _⟩ := reach_inv U hU ops hk hd
  obtain ⟨pre, e, post, hrl, hb, ho⟩ := present_split hA hp
  have hL : LInv (IxState.run {} ops).prim (pre ++ e :: post) := by
    have := (rlinv_iff _).mp hI
    simpa [IxState.entries, hrl] using this
  simp [IxState.get, hrl, rlGet, hL.getRec_owner ho, hb]

theorem lookup_absent (U : List Key) (hU : Universe U) (ops : List IxOp)
    (hk : ∀ op ∈ ops, op.key ∈ U) (hd : Disciplined IxSpec.empty 0 ops)
    (k : Key) (hkU : k ∈ U) (ha : IxSpec.run IxSpec.empty 0 ops k = none) :
    (IxState.run {} ops).get k = none ∨
      ∃ k', k' ≠ k ∧ IxSpec.run IxSpec.empty 0 ops k' = (IxState.run {} ops).get k ∧
        ((IxState.run {} ops).get k).isSome := by
  obtain ⟨hI, hA, _⟩ := reach_inv U hU ops hk hd
  cases hrl : (IxState.run {} ops).rl with
  | none =>
    left
    simp [IxState.get, hrl]
  | some rl =>
    cases hg : getRec rl k with
    | none =>
      left
      simp [IxState.get, hrl, rlGet, hg]
    | some r =>
      obtain ⟨j, e⟩ := r
      right
      have he : e ∈ rl := getRec_mem hg
      obtain ⟨k', _, h2⟩ := hA.sound e (by simp [IxState.entries, hrl, he])
      refine ⟨k', ?_, ?_, ?_⟩
      · rintro rfl
        rw [ha] at h2
        cases h2
      · simp [IxState.get, hrl, rlGet, hg, h2]
      · simp [IxState.get, hrl, rlGet, hg]

theorem frame_update (U : List Key) (hU : Universe U) (ops : List IxOp)
    (hk : ∀ op ∈ ops, op.key ∈ U) (hd : Disciplined IxSpec.empty 0 ops)
    (k : Key) (hkU : k ∈ U) (hp : (IxSpec.run IxSpec.empty 0 ops k).isSome) :
    let s := IxState.run {} ops
    ∃ i e, s.entries[i]? = some e ∧ owner s e = some k ∧
      (s.step (.upd k)).entries = s.entries.set i ⟨e.pfx, s.nextLoc⟩ := by
  dsimp only
  have _ := hkU  -- implied by presence; kept in the statement for symmetry
  obtain ⟨hI, hA, _⟩ := reach_inv U hU ops hk hd
  obtain ⟨b0, hm⟩ := Option.isSome_iff_exists.mp hp
  obtain ⟨pre, e, post, hrl, _, ho, hstep, _⟩ := upd_shape hI hA hm
  refine ⟨pre.length, e, ?_, ho, ?_⟩
  · simp [IxState.entries, hrl]
  · rw [hstep]
    simp [IxState.entries, hrl]

theorem frame_remove (U : List Key) (hU : Universe U) (ops : List IxOp)
    (hk : ∀ op ∈ ops, op.key ∈ U) (hd : Disciplined IxSpec.empty 0 ops)
    (k : Key) (hkU : k ∈ U) (hp : (IxSpec.run IxSpec.empty 0 ops k).isSome) :
    let s := IxState.run {} ops
    ∃ i e, s.entries[i]? = some e ∧ owner s e = some k ∧
      (s.step (.rm k)).entries = s.entries.eraseIdx i := by
  dsimp only
  have _ := hkU  -- implied by presence; kept in the statement for symmetry
  obtain ⟨hI, hA, _⟩ := reach_inv U hU ops hk hd
  obtain ⟨b0, hm⟩ := Option.isSome_iff_exists.mp hp
  obtain ⟨pre, e, post, hrl, _, ho, hstep, _⟩ := rm_shape hI hA hm
  refine ⟨pre.length, e, ?_, ho, ?_⟩
  · simp [IxState.entries, hrl]
  · rw [hstep]
    simp [IxState.entries, hrl, eraseIdx_split]

theorem decode_encode (rl : RecordList) (h : RLWF rl) : decodeRL (encodeRL rl) = (rl, true) := by
  unfold decodeRL
  have := decodeAux_encode rl ((encodeRL rl).length + 1) []
    (fun e he => ⟨(h e he).1, (h e he).2.2.1, (h e he).2.2.2⟩)
    (by have := encodeRL_length_ge rl; omega)
  simpa using this

end Sth
