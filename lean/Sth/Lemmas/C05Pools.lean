/-
C05 (pools layer) — lemma base for PART 1 of Sth/Model/ConcPools.lean, the two-pool protocol of the index.

  * `getP`/`setP`/`publish`/`positions` algebra.
  * `SecC` : the sections of the CORRECT protocol (`lockAfterSwap = false`, `skipPools = false`) as a relation,
    with inversion `step_secC`.
  * `Inv`  : the invariant of the correct protocol — the bucket table names positions of the file; pools have one
    entry per bucket; a flushing thread holds flushLock; curPool is CLEAN (every entry is in the file and named by
    the table) whenever flushLock is free or its holder has published — and its preservation `inv_sec`.
  * `view_sec` : a mutator section is one atomic read-modify-write of `view _ b`; every other section (all four
    flusher sections included) leaves every view unchanged.
-/
import Sth.Model.ConcPools

namespace Sth.ConcPools

variable {U V : Type} {ap : U → Option V → Option V}

/-! ### association lists -/

theorem find?_filter_ne' {α : Type} (p : List (Bucket × α)) {b b' : Bucket} (h : b' ≠ b) :
    (p.filter (·.1 ≠ b)).find? (·.1 = b') = p.find? (·.1 = b') := by
  rw [List.find?_filter]
  congr 1
  funext a
  by_cases ha : a.1 = b'
  · have : a.1 ≠ b := fun e => h (ha.symm.trans e)
    simp [ha, h]
  · simp [ha]

theorem getP_setP {α : Type} (p : List (Bucket × α)) (b b' : Bucket) (x : α) :
    getP (setP p b x) b' = if b' = b then some x else getP p b' := by
  unfold getP setP
  by_cases h : b' = b
  · subst h; simp
  · have h' : ¬ b = b' := fun e => h e.symm
    simp only [List.find?_cons, h', decide_false, h, if_false]
    rw [find?_filter_ne' p h]

theorem getP_nil {α : Type} (b : Bucket) : getP ([] : List (Bucket × α)) b = none := rfl

theorem getP_cons {α : Type} (e : Bucket × α) (p : List (Bucket × α)) (b : Bucket) :
    getP (e :: p) b = if e.1 = b then some e.2 else getP p b := by
  unfold getP
  by_cases h : e.1 = b <;> simp [h]

theorem getP_none_of_not_mem {α : Type} {p : List (Bucket × α)} {b : Bucket} (h : b ∉ p.map (·.1)) :
    getP p b = none := by
  unfold getP
  simp only [Option.map_eq_none_iff, List.find?_eq_none]
  intro x hx hb
  simp only [decide_eq_true_eq] at hb
  exact h (List.mem_map.2 ⟨x, hx, hb⟩)

theorem setP_nodup {α : Type} {p : List (Bucket × α)} (h : (p.map (·.1)).Nodup) (b : Bucket) (x : α) :
    ((setP p b x).map (·.1)).Nodup := by
  simp only [setP, List.map_cons, List.nodup_cons]
  constructor
  · intro hm
    obtain ⟨e, he, hek⟩ := List.mem_map.1 hm
    simp only [List.mem_filter] at he
    simp [hek] at he
  · exact h.sublist ((List.filter_sublist).map _)

/-- `publish` with one pair per bucket: the new pairs shadow the table -/
theorem getP_publish (table blks : List (Bucket × Nat)) (h : (blks.map (·.1)).Nodup) (b : Bucket) :
    getP (publish table blks) b = (getP blks b).or (getP table b) := by
  induction blks generalizing table with
  | nil => simp [publish, getP_nil]
  | cons e r ih =>
    simp only [List.map_cons, List.nodup_cons] at h
    have : publish table (e :: r) = publish (setP table e.1 e.2) r := rfl
    rw [this, ih _ h.2, getP_cons, getP_setP]
    by_cases hb : e.1 = b
    · subst hb
      rw [getP_none_of_not_mem h.1]; simp
    · have hb' : ¬ b = e.1 := fun e' => hb e'.symm
      simp [hb, hb']

theorem positions_keys (base : Nat) (cur : List (Bucket × V)) :
    (positions base cur).map (·.1) = cur.map (·.1) := by
  induction cur generalizing base with
  | nil => rfl
  | cons e r ih => obtain ⟨b, v⟩ := e; simp [positions, ih]

/-- the position remembered for bucket `b` is where its pool entry was appended -/
theorem getP_positions (base : Nat) (cur : List (Bucket × V)) (b : Bucket) :
    match getP cur b with
    | none => getP (positions base cur) b = none
    | some v => ∃ j, getP (positions base cur) b = some (base + j) ∧ cur[j]? = some (b, v) := by
  induction cur generalizing base with
  | nil => simp [getP_nil, positions]
  | cons e r ih =>
    obtain ⟨b0, v0⟩ := e
    simp only [positions, getP_cons]
    by_cases hb : b0 = b
    · subst hb; simp only [if_true]; exact ⟨0, rfl, rfl⟩
    · simp only [hb, if_false]
      have := ih (base + 1)
      cases hg : getP r b with
      | none => rw [hg] at this; exact this
      | some v =>
        rw [hg] at this
        obtain ⟨j, h1, h2⟩ := this
        exact ⟨j + 1, by rw [h1]; congr 1; omega, by simpa using h2⟩

/-! ### threads of `setThread` -/

theorem setThread_threads_get {g : State U V} {i j : Nat} {t' u : Thread U V}
    (h : (setThread g i t').threads[j]? = some u) :
    (j = i ∧ u = t') ∨ (j ≠ i ∧ g.threads[j]? = some u) := by
  simp only [setThread, List.getElem?_set] at h
  by_cases hij : i = j
  · subst hij
    simp only [if_true] at h
    split at h
    · left; exact ⟨rfl, by simpa using h.symm⟩
    · simp at h
  · simp only [hij, if_false] at h
    right; exact ⟨fun e => hij e.symm, h⟩

theorem lt_of_get {α} {l : List α} {i : Nat} {a : α} (h : l[i]? = some a) : i < l.length := by
  rcases Nat.lt_or_ge i l.length with h' | h'
  · exact h'
  · rw [List.getElem?_eq_none h'] at h; simp at h

theorem setThread_threads_self {g : State U V} {i : Nat} {t t' : Thread U V} (h : g.threads[i]? = some t) :
    (setThread g i t').threads[i]? = some t' := by
  simp [setThread, lt_of_get h]

theorem setThread_threads_ne {g : State U V} {i j : Nat} {t' : Thread U V} (h : j ≠ i) :
    (setThread g i t').threads[j]? = g.threads[j]? := by
  simp only [setThread, List.getElem?_set]
  rw [if_neg (fun e => h e.symm)]

@[simp] theorem setThread_next (g : State U V) (i : Nat) (t' : Thread U V) : (setThread g i t').next = g.next := rfl
@[simp] theorem setThread_cur (g : State U V) (i : Nat) (t' : Thread U V) : (setThread g i t').cur = g.cur := rfl
@[simp] theorem setThread_table (g : State U V) (i : Nat) (t' : Thread U V) : (setThread g i t').table = g.table := rfl
@[simp] theorem setThread_file (g : State U V) (i : Nat) (t' : Thread U V) : (setThread g i t').file = g.file := rfl
@[simp] theorem setThread_flushLock (g : State U V) (i : Nat) (t' : Thread U V) :
    (setThread g i t').flushLock = g.flushLock := rfl
@[simp] theorem setThread_las (g : State U V) (i : Nat) (t' : Thread U V) :
    (setThread g i t').lockAfterSwap = g.lockAfterSwap := rfl
@[simp] theorem setThread_skip (g : State U V) (i : Nat) (t' : Thread U V) :
    (setThread g i t').skipPools = g.skipPools := rfl

theorem view_setThread (g : State U V) (i : Nat) (t' : Thread U V) : view (setThread g i t') = view g := rfl

/-! ### the sections of the correct protocol -/

/-- the info a reader's first section computes (correct protocol) -/
def infoOf (s : State U V) (b : Bucket) : Info V :=
  match (getP s.next b).or (getP s.cur b) with
  | some v => .cached v
  | none => .pos (getP s.table b)

inductive SecC (ap : U → Option V → Option V) (s : State U V) (i : Nat) (t : Thread U V) : State U V → Prop
  | updSome (b : Bucket) (u : U) (rest : List (Op U)) (v : V) (hpc : t.pc = .idle) (hp : t.prog = .upd b u :: rest)
      (hap : ap u (view s b) = some v) :
      SecC ap s i t (setThread { s with next := setP s.next b v } i (ret t (.updated (view s b))))
  | updNone (b : Bucket) (u : U) (rest : List (Op U)) (hpc : t.pc = .idle) (hp : t.prog = .upd b u :: rest)
      (hap : ap u (view s b) = none) :
      SecC ap s i t (setThread s i (ret t (.updated (view s b))))
  | info (b : Bucket) (rest : List (Op U)) (hpc : t.pc = .idle) (hp : t.prog = .read b :: rest) :
      SecC ap s i t (setThread s i { t with pc := .readInfo b (infoOf s b) })
  | flushEmpty (rest : List (Op U)) (hpc : t.pc = .idle) (hp : t.prog = .flush :: rest)
      (hl : s.flushLock = none) (he : s.next.isEmpty = true) :
      SecC ap s i t (setThread s i (ret t .flushed))
  | flushSwap (rest : List (Op U)) (hpc : t.pc = .idle) (hp : t.prog = .flush :: rest)
      (hl : s.flushLock = none) (he : s.next.isEmpty = false) :
      SecC ap s i t (setThread { s with cur := s.next, next := [], flushLock := some i } i { t with pc := .flSwapped })
  | readDone (b : Bucket) (inf : Info V) (hpc : t.pc = .readInfo b inf) :
      SecC ap s i t (setThread s i (ret t (.got (infoVal s.file inf))))
  | append (hpc : t.pc = .flSwapped) :
      SecC ap s i t (setThread { s with file := s.file ++ s.cur } i
        { t with pc := .flWritten (positions s.file.length s.cur) })
  | publish (blks : List (Bucket × Nat)) (hpc : t.pc = .flWritten blks) :
      SecC ap s i t (setThread { s with table := publish s.table blks } i { t with pc := .flPublished })
  | release (hpc : t.pc = .flPublished) :
      SecC ap s i t (setThread { s with flushLock := none } i (ret t .flushed))

theorem step_secC {s s' : State U V} {i : Nat} (h1 : s.lockAfterSwap = false) (h2 : s.skipPools = false)
    (h : step ap s i = some s') : ∃ t, s.threads[i]? = some t ∧ SecC ap s i t s' := by
  unfold step at h
  cases ht : s.threads[i]? with
  | none => simp [ht] at h
  | some t =>
    refine ⟨t, rfl, ?_⟩
    simp only [ht] at h
    cases hpc : t.pc with
    | idle =>
      simp only [hpc] at h
      cases hp : t.prog with
      | nil => simp [hp] at h
      | cons op rest =>
        cases op with
        | upd b u =>
          simp only [hp] at h
          cases hap : ap u (view s b) with
          | none => simp only [hap, Option.some.injEq] at h; subst h; exact .updNone b u rest hpc hp hap
          | some v => simp only [hap, Option.some.injEq] at h; subst h; exact .updSome b u rest v hpc hp hap
        | read b =>
          simp only [hp, h2, Bool.false_and, Bool.false_eq_true, if_false, Option.some.injEq] at h
          subst h; rw [← hp]; exact .info b rest hpc hp
        | flush =>
          simp only [hp] at h
          rw [if_neg (by simp [h1])] at h
          cases hl : s.flushLock with
          | some j => simp [hl] at h
          | none =>
            simp only [hl] at h
            by_cases he : s.next.isEmpty = true
            · simp only [he, if_true, Option.some.injEq] at h; subst h; exact .flushEmpty rest hpc hp hl he
            · have he' : s.next.isEmpty = false := by simpa using he
              simp only [he', Bool.false_eq_true, if_false, Option.some.injEq] at h
              subst h; rw [← hp]; exact .flushSwap rest hpc hp hl he'
    | readInfo b inf =>
      simp only [hpc, Option.some.injEq] at h; subst h; exact .readDone b inf hpc
    | flSwapped =>
      simp only [hpc] at h
      rw [if_neg (by simp [h1])] at h
      simp only [Option.some.injEq] at h; subst h; exact .append hpc
    | flWritten blks =>
      simp only [hpc, Option.some.injEq] at h; subst h; exact .publish blks hpc
    | flPublished =>
      simp only [hpc, Option.some.injEq] at h; subst h; exact .release hpc

/-! ### the invariant of the correct protocol -/

def Pc.flushing : Pc V → Bool
  | .flSwapped => true
  | .flWritten _ => true
  | .flPublished => true
  | _ => false

/-- every entry of curPool is in the file and named by the bucket table -/
def CurClean (s : State U V) : Prop := ∀ b v, getP s.cur b = some v → fileVal s b = some v

/-- the pairs a flusher remembers are the positions at which the entries of curPool were appended -/
def WrittenOK (s : State U V) (blks : List (Bucket × Nat)) : Prop :=
  ∃ base, blks = positions base s.cur ∧ ∀ j, j < s.cur.length → s.file[base + j]? = s.cur[j]?

def TInv (s : State U V) (i : Nat) (t : Thread U V) : Prop :=
  match t.pc with
  | .idle => True
  | .readInfo b inf => (∃ rest, t.prog = .read b :: rest) ∧ ∀ p, inf = .pos (some p) → p < s.file.length
  | .flSwapped => (∃ rest, t.prog = .flush :: rest) ∧ s.flushLock = some i
  | .flWritten blks => (∃ rest, t.prog = .flush :: rest) ∧ s.flushLock = some i ∧ WrittenOK s blks
  | .flPublished => (∃ rest, t.prog = .flush :: rest) ∧ s.flushLock = some i ∧ CurClean s

structure Inv (s : State U V) : Prop where
  fl1 : s.lockAfterSwap = false
  fl2 : s.skipPools = false
  tableOK : ∀ b p, getP s.table b = some p → p < s.file.length
  curNodup : (s.cur.map (·.1)).Nodup
  nextNodup : (s.next.map (·.1)).Nodup
  free : s.flushLock = none → CurClean s
  lockHolder : ∀ i, s.flushLock = some i → ∃ t, s.threads[i]? = some t ∧ t.pc.flushing = true
  thr : ∀ (i : Nat) (t : Thread U V), s.threads[i]? = some t → TInv s i t

theorem TInv.lock_of_flushing {s : State U V} {i : Nat} {t : Thread U V} (h : TInv s i t)
    (hf : t.pc.flushing = true) : s.flushLock = some i := by
  unfold TInv at h
  split at h
  · rename_i hpc; simp [hpc, Pc.flushing] at hf
  · rename_i hpc; simp [hpc, Pc.flushing] at hf
  · exact h.2
  · exact h.2.1
  · exact h.2.1

/-- a thread that is not flushing only needs the file to grow -/
theorem TInv.of_not_flushing {s g : State U V} {j : Nat} {u : Thread U V} (h : TInv s j u)
    (hf : u.pc.flushing = false) (x : List (Bucket × V)) (hfile : g.file = s.file ++ x) : TInv g j u := by
  unfold TInv at h ⊢
  split
  · trivial
  · rename_i hpc
    simp only [hpc] at h
    exact ⟨h.1, fun p hp => by have := h.2 p hp; rw [hfile, List.length_append]; omega⟩
  · rename_i hpc; simp [hpc, Pc.flushing] at hf
  · rename_i hpc; simp [hpc, Pc.flushing] at hf
  · rename_i hpc; simp [hpc, Pc.flushing] at hf

/-- nothing a thread's invariant mentions changed -/
theorem TInv.same {s g : State U V} {j : Nat} {u : Thread U V} (h : TInv s j u)
    (h1 : g.file = s.file) (h2 : g.cur = s.cur) (h3 : g.table = s.table) (h4 : g.flushLock = s.flushLock) :
    TInv g j u := by
  unfold TInv at h ⊢
  unfold WrittenOK CurClean fileVal at *
  rw [h1, h2, h3, h4]; exact h

theorem Inv.build {s g : State U V} {i : Nat} {t t' : Thread U V} (ht : s.threads[i]? = some t)
    (hthr : g.threads = s.threads) (h1 : g.lockAfterSwap = false) (h2 : g.skipPools = false)
    (htab : ∀ b p, getP g.table b = some p → p < g.file.length)
    (hcn : (g.cur.map (·.1)).Nodup) (hnn : (g.next.map (·.1)).Nodup)
    (hfree : g.flushLock = none → CurClean g)
    (hlock : ∀ k, g.flushLock = some k → (k = i ∧ t'.pc.flushing = true) ∨
      (k ≠ i ∧ ∃ u, s.threads[k]? = some u ∧ u.pc.flushing = true))
    (hown : TInv g i t')
    (hothers : ∀ (j : Nat) (u : Thread U V), j ≠ i → s.threads[j]? = some u → TInv g j u) :
    Inv (setThread g i t') := by
  refine ⟨h1, h2, htab, hcn, hnn, hfree, ?_, ?_⟩
  · intro k hk
    rcases hlock k hk with ⟨rfl, hf⟩ | ⟨hki, u, hu, hf⟩
    · exact ⟨t', setThread_threads_self (t := t) (by rw [hthr]; exact ht), hf⟩
    · exact ⟨u, by rw [setThread_threads_ne hki, hthr]; exact hu, hf⟩
  · intro j u hu
    rcases setThread_threads_get hu with ⟨rfl, rfl⟩ | ⟨hji, hu⟩
    · exact hown
    · rw [hthr] at hu; exact hothers j u hji hu

theorem fileVal_append {s : State U V} (htab : ∀ b p, getP s.table b = some p → p < s.file.length)
    (x : List (Bucket × V)) (b : Bucket) :
    fileVal { s with file := s.file ++ x } b = fileVal s b := by
  unfold fileVal
  cases hg : getP s.table b with
  | none => rfl
  | some p => simp only [Option.bind_some]; rw [List.getElem?_append_left (htab b p hg)]

/-- `Inv` is preserved by every section of the correct protocol -/
theorem inv_sec {s s' : State U V} {i : Nat} {t : Thread U V} (hs : Inv s) (ht : s.threads[i]? = some t)
    (h : SecC ap s i t s') : Inv s' := by
  have hT := hs.thr i t ht
  -- other threads when thread `i` runs a section that touches none of file / cur / table / flushLock
  have hsame : ∀ (j : Nat) (u : Thread U V), j ≠ i → s.threads[j]? = some u → TInv s j u :=
    fun j u _ hu => hs.thr j u hu
  -- the lock holder among the other threads
  have hlk : ∀ k, s.flushLock = some k → k ≠ i → ∃ u, s.threads[k]? = some u ∧ u.pc.flushing = true :=
    fun k hk _ => hs.lockHolder k hk
  -- no other thread is flushing when the lock is free or held by `i`
  have hnof : (s.flushLock = none ∨ s.flushLock = some i) → ∀ (j : Nat) (u : Thread U V), j ≠ i →
      s.threads[j]? = some u → u.pc.flushing = false := by
    intro hl j u hji hu
    cases hf : u.pc.flushing with
    | false => rfl
    | true =>
      have := (hs.thr j u hu).lock_of_flushing hf
      rcases hl with hl | hl <;> rw [hl] at this <;> simp at this
      exact absurd this.symm hji
  cases h with
  | updSome b u rest v hpc hp hap =>
    refine Inv.build ht rfl hs.fl1 hs.fl2 hs.tableOK hs.curNodup (setP_nodup hs.nextNodup b v) hs.free ?_
      (by simp [TInv, ret]) (fun j u hji hu => (hsame j u hji hu).same rfl rfl rfl rfl)
    intro k hk
    by_cases hki : k = i
    · subst hki
      obtain ⟨t1, ht1, hf⟩ := hs.lockHolder k hk
      rw [ht] at ht1; cases ht1; simp [hpc, Pc.flushing] at hf
    · exact Or.inr ⟨hki, hlk k hk hki⟩
  | updNone b u rest hpc hp hap =>
    refine Inv.build ht rfl hs.fl1 hs.fl2 hs.tableOK hs.curNodup hs.nextNodup hs.free ?_
      (by simp [TInv, ret]) (fun j u hji hu => (hsame j u hji hu).same rfl rfl rfl rfl)
    intro k hk
    by_cases hki : k = i
    · subst hki
      obtain ⟨t1, ht1, hf⟩ := hs.lockHolder k hk
      rw [ht] at ht1; cases ht1; simp [hpc, Pc.flushing] at hf
    · exact Or.inr ⟨hki, hlk k hk hki⟩
  | info b rest hpc hp =>
    refine Inv.build ht rfl hs.fl1 hs.fl2 hs.tableOK hs.curNodup hs.nextNodup hs.free ?_
      ?_ (fun j u hji hu => (hsame j u hji hu).same rfl rfl rfl rfl)
    · intro k hk
      by_cases hki : k = i
      · subst hki
        obtain ⟨t1, ht1, hf⟩ := hs.lockHolder k hk
        rw [ht] at ht1; cases ht1; simp [hpc, Pc.flushing] at hf
      · exact Or.inr ⟨hki, hlk k hk hki⟩
    · simp only [TInv]
      refine ⟨⟨rest, hp⟩, ?_⟩
      intro p hpp
      unfold infoOf at hpp
      split at hpp
      · cases hpp
      · simp only [Info.pos.injEq] at hpp; exact hs.tableOK b p hpp
  | flushEmpty rest hpc hp hl he =>
    refine Inv.build ht rfl hs.fl1 hs.fl2 hs.tableOK hs.curNodup hs.nextNodup hs.free ?_
      (by simp [TInv, ret]) (fun j u hji hu => (hsame j u hji hu).same rfl rfl rfl rfl)
    intro k hk; rw [hl] at hk; cases hk
  | flushSwap rest hpc hp hl he =>
    refine Inv.build ht rfl hs.fl1 hs.fl2 hs.tableOK hs.nextNodup (by simp) (by intro h; cases h) ?_ ?_ ?_
    · intro k hk; simp only [Option.some.injEq] at hk; exact Or.inl ⟨hk.symm, rfl⟩
    · simp only [TInv]; exact ⟨⟨rest, hp⟩, trivial⟩
    · intro j u hji hu
      exact (hs.thr j u hu).of_not_flushing (hnof (Or.inl hl) j u hji hu) [] (by simp)
  | readDone b inf hpc =>
    refine Inv.build ht rfl hs.fl1 hs.fl2 hs.tableOK hs.curNodup hs.nextNodup hs.free ?_
      (by simp [TInv, ret]) (fun j u hji hu => (hsame j u hji hu).same rfl rfl rfl rfl)
    intro k hk
    by_cases hki : k = i
    · subst hki
      obtain ⟨t1, ht1, hf⟩ := hs.lockHolder k hk
      rw [ht] at ht1; cases ht1; simp [hpc, Pc.flushing] at hf
    · exact Or.inr ⟨hki, hlk k hk hki⟩
  | append hpc =>
    simp only [TInv, hpc] at hT
    refine Inv.build ht rfl hs.fl1 hs.fl2 ?_ hs.curNodup hs.nextNodup ?_ ?_ ?_ ?_
    · intro b p hg; have := hs.tableOK b p hg; simp only [List.length_append]; omega
    · intro h; rw [hT.2] at h; cases h
    · intro k hk
      have : k = i := by rw [hT.2] at hk; simpa using hk.symm
      exact Or.inl ⟨this, rfl⟩
    · simp only [TInv]
      refine ⟨hT.1, hT.2, s.file.length, rfl, ?_⟩
      intro j _
      rw [List.getElem?_append_right (by omega)]
      congr 1; omega
    · intro j u hji hu
      exact (hs.thr j u hu).of_not_flushing (hnof (Or.inr hT.2) j u hji hu) s.cur rfl
  | publish blks hpc =>
    simp only [TInv, hpc] at hT
    obtain ⟨hprog, hlock, base, hblks, hfile⟩ := hT
    have hnd : (blks.map (·.1)).Nodup := by rw [hblks, positions_keys]; exact hs.curNodup
    have hclean : CurClean ({ s with table := publish s.table blks } : State U V) := by
      intro b v hg
      have hp := getP_positions base s.cur b
      rw [hg] at hp
      obtain ⟨j, hj1, hj2⟩ := hp
      have hjl : j < s.cur.length := lt_of_get hj2
      unfold fileVal
      simp only []
      rw [getP_publish _ _ hnd, hblks, hj1]
      simp only [Option.some_or, Option.bind_some]
      rw [hfile j hjl, hj2]; rfl
    refine Inv.build ht rfl hs.fl1 hs.fl2 ?_ hs.curNodup hs.nextNodup (fun _ => hclean) ?_ ?_ ?_
    · intro b p hg
      simp only [] at hg
      rw [getP_publish _ _ hnd, hblks] at hg
      have hp := getP_positions base s.cur b
      cases hc : getP s.cur b with
      | none =>
        rw [hc] at hp; rw [hp] at hg
        simp only [Option.none_or] at hg; exact hs.tableOK b p hg
      | some v =>
        rw [hc] at hp
        obtain ⟨j, hj1, hj2⟩ := hp
        rw [hj1] at hg
        simp only [Option.some_or, Option.some.injEq] at hg
        subst hg
        have hjl : j < s.cur.length := lt_of_get hj2
        have := hfile j hjl
        rw [hj2] at this
        exact lt_of_get this
    · intro k hk
      have : k = i := by simp only [] at hk; rw [hlock] at hk; simpa using hk.symm
      exact Or.inl ⟨this, rfl⟩
    · simp only [TInv]; exact ⟨hprog, hlock, hclean⟩
    · intro j u hji hu
      exact (hs.thr j u hu).of_not_flushing (hnof (Or.inr hlock) j u hji hu) [] (by simp)
  | release hpc =>
    simp only [TInv, hpc] at hT
    refine Inv.build ht rfl hs.fl1 hs.fl2 hs.tableOK hs.curNodup hs.nextNodup (fun _ => hT.2.2) ?_
      (by simp [TInv, ret]) ?_
    · intro k hk; cases hk
    · intro j u hji hu
      exact (hs.thr j u hu).of_not_flushing (hnof (Or.inr hT.2.1) j u hji hu) [] (by simp)

/-! ### what a section does to the views -/

theorem view_eq_of {s g : State U V} (h1 : g.next = s.next) (h2 : g.cur = s.cur)
    (h3 : ∀ b, getP s.next b = none → getP s.cur b = none → fileVal g b = fileVal s b) (b : Bucket) :
    view g b = view s b := by
  unfold view
  rw [h1, h2]
  cases hn : getP s.next b with
  | some v => simp
  | none =>
    cases hc : getP s.cur b with
    | some v => simp
    | none => simp [h3 b hn hc]

/-- ATOMICITY.  In the correct protocol a mutator section is ONE read-modify-write of its bucket's view and
    every other section — the four sections of a flush included — changes no view at all. -/
theorem view_sec {s s' : State U V} {i : Nat} {t : Thread U V} (hs : Inv s) (ht : s.threads[i]? = some t)
    (h : SecC ap s i t s') (b' : Bucket) :
    view s' b' =
      match t.pc, t.prog with
      | .idle, .upd b u :: _ => if b' = b then (ap u (view s b)).or (view s b) else view s b'
      | _, _ => view s b' := by
  have hT := hs.thr i t ht
  cases h with
  | updSome b u rest v hpc hp hap =>
    simp only [hpc, hp, hap, Option.some_or]
    rw [view_setThread]
    unfold view
    simp only [getP_setP]
    by_cases hb : b' = b
    · simp [hb]
    · simp only [hb, if_false]; rfl
  | updNone b u rest hpc hp hap =>
    simp only [hpc, hp, hap, Option.none_or]
    rw [view_setThread]
    by_cases hb : b' = b <;> simp [hb]
  | info b rest hpc hp => simp only [hpc, hp]; rfl
  | flushEmpty rest hpc hp hl he => simp only [hpc, hp]; rfl
  | flushSwap rest hpc hp hl he =>
    simp only [hpc, hp]
    rw [view_setThread]
    have hclean := hs.free hl
    unfold view
    simp only [getP_nil, Option.none_or]
    show (getP s.next b').or (fileVal { s with cur := s.next, next := [], flushLock := some i } b') = _
    have : fileVal ({ s with cur := s.next, next := [], flushLock := some i } : State U V) b' = fileVal s b' := rfl
    rw [this]
    cases hn : getP s.next b' with
    | some v => simp
    | none =>
      cases hc : getP s.cur b' with
      | some v => simp [hclean b' v hc]
      | none => simp
  | readDone b inf hpc => simp only [hpc]; rfl
  | append hpc =>
    simp only [hpc]
    rw [view_setThread]
    exact view_eq_of (s := s) (g := { s with file := s.file ++ s.cur }) rfl rfl
      (fun b _ _ => fileVal_append hs.tableOK _ b) b'
  | publish blks hpc =>
    simp only [hpc]
    simp only [TInv, hpc] at hT
    obtain ⟨_, _, base, hblks, _⟩ := hT
    have hnd : (blks.map (·.1)).Nodup := by rw [hblks, positions_keys]; exact hs.curNodup
    rw [view_setThread]
    refine view_eq_of (s := s) (g := { s with table := publish s.table blks }) rfl rfl (fun b _ hc => ?_) b'
    unfold fileVal
    simp only []
    rw [getP_publish _ _ hnd, hblks]
    have hp := getP_positions base s.cur b
    rw [hc] at hp
    rw [hp]; simp
  | release hpc => simp only [hpc]; rfl

end Sth.ConcPools
