/-
C10 (byte level) — the index half of the upgrade, reading side: the old header, `parseOldIndex` on a
well-framed legacy index, the numbered files as logs (`logBytes`) of whole records, and what the scan of
those files knows about every bucket: the table position of a bucket is the position of the record
holding its CURRENT list (`LegacyC.table`).
Core Lean only.
-/
import Sth.Lemmas.C10Open
import Sth.Lemmas.C02Reopen

namespace Sth

/-! ### old header and records -/

theorem readOldHeader_legacy (bits : Nat) (body : Bytes) :
    readOldHeader ([2, 0, 0, 0, 2, bits] ++ body) = some (2, bits, 6) := by
  unfold readOldHeader
  have h1 : readAt ([2, 0, 0, 0, 2, bits] ++ body) 0 4 = some [2, 0, 0, 0] := by
    unfold readAt; simp
  rw [h1]
  have h2 : leDec [2, 0, 0, 0] = 2 := by decide
  simp only [h2]
  have h3 : readAt ([2, 0, 0, 0, 2, bits] ++ body) 4 2 = some [2, bits] := by
    unfold readAt; simp
  rw [h3]

def encL (r : LRec) : Bytes := idxRecBytes r.1 r.2

theorem logBytes_eq (recs : List LRec) : logBytes recs = (recs.map encL).flatten := by
  unfold logBytes encL
  rw [List.flatMap_def]

theorem encL_length (r : LRec) : (encL r).length = 8 + (encodeRL r.2).length := idxRecBytes_length _ _

theorem parseOldIndex_log (recs : List LRec) (hok : ∀ r ∈ recs, (encodeRL r.2).length + 4 < two32) :
    ∀ (pre : Bytes) (fuel : Nat), recs.length < fuel →
      parseOldIndex (pre ++ logBytes recs) fuel pre.length = some (recs.map encL) := by
  induction recs with
  | nil =>
    intro pre fuel hf
    obtain ⟨f, rfl⟩ : ∃ f, fuel = f + 1 := ⟨fuel - 1, by simp at hf; omega⟩
    have h1 : readAt (pre ++ logBytes []) pre.length 4 = none := by
      unfold readAt; simp [logBytes]
    have h2 : availAt (pre ++ logBytes []) pre.length 4 = 0 := by
      unfold availAt; simp [logBytes]
    simp only [parseOldIndex, h1, h2, if_true, List.map_nil]
  | cons r rs ih =>
    intro pre fuel hf
    obtain ⟨f, rfl⟩ : ∃ f, fuel = f + 1 := ⟨fuel - 1, by simp at hf; omega⟩
    obtain ⟨b, rl⟩ := r
    have hs : (encodeRL rl).length + 4 < two32 := hok (b, rl) (by simp)
    have hA : (le32 ((encodeRL rl).length + 4)).length = 4 := le32_length _
    have hB : (le32 b).length = 4 := le32_length _
    have efile : pre ++ logBytes ((b, rl) :: rs) =
        pre ++ (le32 ((encodeRL rl).length + 4) ++ (le32 b ++ encodeRL rl ++ logBytes rs)) := by
      rw [logBytes_cons]; unfold idxRecBytes; simp [List.append_assoc]
    have efile2 : pre ++ logBytes ((b, rl) :: rs) =
        (pre ++ le32 ((encodeRL rl).length + 4)) ++ (le32 b ++ encodeRL rl) ++ logBytes rs := by
      rw [logBytes_cons]; unfold idxRecBytes; simp [List.append_assoc]
    have h1 : readAt (pre ++ logBytes ((b, rl) :: rs)) pre.length 4 =
        some (le32 ((encodeRL rl).length + 4)) := by
      rw [efile]; exact readAt_mid4 _ _ _ hA
    have h2 : readAt (pre ++ logBytes ((b, rl) :: rs)) (pre.length + 4 + 0) ((encodeRL rl).length + 4) =
        some (le32 b ++ encodeRL rl) := by
      have := readAt_at_end (pre ++ le32 ((encodeRL rl).length + 4)) (le32 b ++ encodeRL rl)
        (logBytes rs)
      rw [efile2, ← this]
      congr 1
      · simp [hA]
    have h3 : leDec (le32 ((encodeRL rl).length + 4)) = (encodeRL rl).length + 4 := leDec_le32 _ hs
    have e1 : pre ++ logBytes ((b, rl) :: rs) = (pre ++ idxRecBytes b rl) ++ logBytes rs := by
      rw [logBytes_cons, List.append_assoc]
    have e2 : (pre ++ idxRecBytes b rl).length = pre.length + 4 + ((encodeRL rl).length + 4) := by
      rw [List.length_append, idxRecBytes_length]; omega
    have ih' := ih (fun x hx => hok x (List.mem_cons_of_mem _ hx)) (pre ++ idxRecBytes b rl) f
      (by simp at hf; omega)
    rw [← e1, e2] at ih'
    simp only [parseOldIndex, h1, h3, h2, ih', Option.map_some, List.map_cons]
    unfold encL idxRecBytes
    simp [List.append_assoc]

/-! ### the numbered index files as logs -/

namespace LegacyC

/-- the groups of index records, one per numbered file -/
def groups (C : LegacyC) (imax : Nat) : List (List LRec) := chunkG (fun r => (encL r).length) imax C.gens

/-- the log of numbered index file `f` -/
def lg (C : LegacyC) (imax : Nat) (f : Nat) : List LRec := (C.groups imax)[f]?.getD []

/-- the numbered index files -/
def ifilesL (C : LegacyC) (imax : Nat) : List Bytes := chunkFiles imax (C.gens.map encL) []

theorem groups_flatten (C : LegacyC) (imax : Nat) : (C.groups imax).flatten = C.gens := chunkG_flatten _ _ _

theorem chunk_gens (C : LegacyC) (imax : Nat) :
    chunk imax (C.gens.map encL) = (C.groups imax).map (List.map encL) := chunk_map encL imax C.gens

theorem ifilesL_get (C : LegacyC) (imax f : Nat) (hf : f < (C.ifilesL imax).length) :
    (C.ifilesL imax)[f]? = some (logBytes (C.lg imax f)) := by
  have hsome : ∃ x, (C.ifilesL imax)[f]? = some x := ⟨_, List.getElem?_eq_getElem hf⟩
  obtain ⟨x, hx⟩ := hsome
  rw [hx]
  unfold ifilesL at hx
  rcases chunkFiles_get_inv imax _ f x hx with ⟨c, hc, rfl⟩ | ⟨rfl, hn⟩
  · rw [chunk_gens, List.getElem?_map] at hc
    unfold lg
    cases hg : (C.groups imax)[f]? with
    | none => rw [hg] at hc; cases hc
    | some g =>
      rw [hg] at hc
      simp only [Option.map_some, Option.some.injEq] at hc
      rw [Option.getD_some, logBytes_eq, hc]
  · rw [chunk_gens, List.length_map] at hn
    unfold lg
    rw [List.getElem?_eq_none (by omega)]
    rfl

theorem ifilesL_ne (C : LegacyC) (imax : Nat) : C.ifilesL imax ≠ [] := chunkFiles_ne _ _

theorem ifilesL_length_le (C : LegacyC) (imax : Nat) : (C.ifilesL imax).length ≤ C.gens.length + 1 := by
  have := chunkFiles_length_le imax (C.gens.map encL)
  simpa [ifilesL] using this

theorem groups_length_le (C : LegacyC) (imax : Nat) : (C.groups imax).length ≤ (C.ifilesL imax).length := by
  unfold ifilesL
  rcases chunkFiles_cases imax (C.gens.map encL) with ⟨h, _⟩ | h <;> rw [h, chunk_gens] <;> simp

theorem lg_mem (C : LegacyC) (imax f : Nat) : ∀ r ∈ C.lg imax f, r ∈ C.gens := by
  intro r hr
  unfold lg at hr
  cases hg : (C.groups imax)[f]? with
  | none => rw [hg] at hr; simp at hr
  | some g =>
    rw [hg] at hr
    rw [← C.groups_flatten imax]
    exact List.mem_flatten.mpr ⟨g, List.mem_of_getElem? hg, hr⟩

/-- every record of a numbered index file starts below the limit -/
theorem lg_start_lt (C : LegacyC) (imax : Nat) (hp : 1 ≤ imax) (f : Nat) (pre post : List LRec) (r : LRec)
    (h : C.lg imax f = pre ++ r :: post) : (logBytes pre).length < imax := by
  unfold lg at h
  cases hg : (C.groups imax)[f]? with
  | none => rw [hg] at h; simp at h
  | some g =>
    rw [hg, Option.getD_some] at h
    have hne : ∀ r ∈ C.gens.map encL, r ≠ [] := by
      intro x hx h0
      obtain ⟨r, _, rfl⟩ := List.mem_map.mp hx
      have := encL_length r
      rw [h0] at this; simp at this; omega
    have hshape := (chunk_shape imax hp (C.gens.map encL) hne).2.2
    have hc : g.map encL ∈ chunk imax (C.gens.map encL) := by
      rw [chunk_gens]
      exact List.mem_map_of_mem (List.mem_of_getElem? hg)
    have := hshape _ hc (bsize (pre.map encL)) (by
      rw [h, List.map_append, recordStarts_append, List.map_cons]
      simp [recordStarts])
    rw [logBytes_eq, List.length_flatten]
    exact this

/-! ### the table of the scan against the table of current lists -/

def tabRecs (recs : List LRec) (tab : NMap RecordList) : NMap RecordList :=
  recs.foldl (fun m r => m.set r.1 r.2) tab

def tabTo (lg : Nat → List LRec) : Nat → NMap RecordList
  | 0 => tabRecs (lg 0) []
  | N + 1 => tabRecs (lg (N + 1)) (tabTo lg N)

theorem tabRecs_append (a b : List LRec) (tab : NMap RecordList) :
    tabRecs (a ++ b) tab = tabRecs b (tabRecs a tab) := by
  unfold tabRecs; rw [List.foldl_append]

theorem tabTo_eq (lg : Nat → List LRec) : ∀ N, tabTo lg N = tabRecs ((List.range (N + 1)).flatMap lg) []
  | 0 => by simp [tabTo]
  | N + 1 => by
    rw [tabTo, tabTo_eq lg N, List.range_succ (n := N + 1), List.flatMap_append, tabRecs_append]
    simp

theorem flatMap_range_getD {α : Type} (G : List (List α)) : ∀ n,
    (List.range n).flatMap (fun f => G[f]?.getD []) = (G.take n).flatten
  | 0 => by simp
  | n + 1 => by
    rw [List.range_succ, List.flatMap_append, flatMap_range_getD G n, List.take_succ, List.flatten_append]
    congr 1
    cases hg : G[n]? <;> simp [hg]

theorem table_eq_tabTo (C : LegacyC) (imax N : Nat) (hN : (C.groups imax).length ≤ N + 1) :
    C.table = tabTo (C.lg imax) N := by
  rw [tabTo_eq]
  have : (List.range (N + 1)).flatMap (C.lg imax) = C.gens := by
    have := flatMap_range_getD (C.groups imax) (N + 1)
    unfold lg
    rw [this, List.take_of_length_le hN, groups_flatten]
  rw [this]
  rfl

/-- the record holding list `rl` of bucket `b` sits in file `f ≤ N` and its payload starts at `pos` -/
def At (lg : Nat → List LRec) (max N b pos : Nat) (rl : RecordList) : Prop :=
  ∃ f pre post, f ≤ N ∧ lg f = pre ++ (b, rl) :: post ∧ pos = f * max + (logBytes pre).length + 4

theorem At.mono {lg : Nat → List LRec} {max N N' b pos : Nat} {rl : RecordList} (h : At lg max N b pos rl)
    (hN : N ≤ N') : At lg max N' b pos rl := by
  obtain ⟨f, pre, post, h1, h2, h3⟩ := h
  exact ⟨f, pre, post, by omega, h2, h3⟩

/-- the two tables agree: same buckets, and a position is the position of the current list -/
def TabRel (lg : Nat → List LRec) (max N : Nat) (T : NMap Nat) (tab : NMap RecordList) : Prop :=
  ∀ b, (T.get? b = none ↔ tab.get? b = none) ∧
    ∀ pos, T.get? b = some pos → ∃ rl, tab.get? b = some rl ∧ At lg max N b pos rl

theorem tabRel_recs (lg : Nat → List LRec) (max f : Nat) :
    ∀ (recs done : List LRec) (T : NMap Nat) (tab : NMap RecordList), lg f = done ++ recs →
      TabRel lg max f T tab →
      TabRel lg max f (scanRecs max f (logBytes done).length recs T) (tabRecs recs tab)
  | [], _, _, _, _, h => h
  | r :: rs, done, T, tab, hlg, h => by
    simp only [scanRecs]
    have hstep : TabRel lg max f (T.set r.1 (f * max + (logBytes done).length + 4)) (tab.set r.1 r.2) := by
      intro b
      rw [NMap.get?_set, NMap.get?_set]
      by_cases hb : b = r.1
      · simp only [hb, if_true]
        refine ⟨by simp, ?_⟩
        intro pos hpos
        simp only [Option.some.injEq] at hpos
        exact ⟨r.2, rfl, f, done, rs, Nat.le_refl _, hlg, hpos.symm⟩
      · simp only [hb, if_false]
        exact h b
    have := tabRel_recs lg max f rs (done ++ [r]) _ _ (by rw [hlg]; simp) hstep
    rw [logBytes_append, List.length_append] at this
    have e : logBytes [r] = idxRecBytes r.1 r.2 := by simp [logBytes]
    rw [e] at this
    show TabRel lg max f _ (tabRecs rs (tab.set r.1 r.2))
    exact this

theorem TabRel.mono {lg : Nat → List LRec} {max N N' : Nat} {T : NMap Nat} {tab : NMap RecordList}
    (h : TabRel lg max N T tab) (hN : N ≤ N') : TabRel lg max N' T tab := by
  intro b
  refine ⟨(h b).1, ?_⟩
  intro pos hp
  obtain ⟨rl, h1, h2⟩ := (h b).2 pos hp
  exact ⟨rl, h1, h2.mono hN⟩

theorem tabRel_to (lg : Nat → List LRec) (max : Nat) : ∀ N, TabRel lg max N (scanTo max lg N) (tabTo lg N)
  | 0 => by
    have h0 : TabRel lg max 0 [] [] := by
      intro b
      exact ⟨by simp [NMap.get?], fun pos hp => by simp [NMap.get?] at hp⟩
    have := tabRel_recs lg max 0 (lg 0) [] [] [] (by simp) h0
    simpa [scanTo, tabTo, logBytes] using this
  | N + 1 => by
    have ih := (tabRel_to lg max N).mono (Nat.le_succ N)
    have := tabRel_recs lg max (N + 1) (lg (N + 1)) [] _ _ (by simp) ih
    simpa [scanTo, tabTo, logBytes] using this

end LegacyC

end Sth
