/-
Store.Flush is invisible (C01, layer 2): `storeFlush` succeeds and leaves every observation — and
hence the invariant — unchanged, for every order that covers the index pool.
Core Lean only.
-/
import Sth.Lemmas.StoreMut
import Sth.Lemmas.StorePFlush
import Sth.Lemmas.StoreIFlush

namespace Sth

/-! ### size of an encoded record list against the weight of the specification map -/

def specW (spec : Spec) : Nat := (spec.map (fun x => x.2.1.length + 17)).sum

theorem encodeRL_length : ∀ rl : RecordList,
    (encodeRL rl).length = (rl.map (fun e => 13 + e.pfx.length)).sum
  | [] => by simp [encodeRL]
  | e :: rl => by
    rw [encodeRL_cons, List.length_append, encodeEntry_length, encodeRL_length rl]
    simp

/-- the digest of the record a block resolves to -/
def dgOf (kind : PKind) (P : Block → PGet) (blk : Block) : Bytes :=
  match P blk with
  | .got k _ => (indexKeyOf kind k).getD []
  | _ => []

section
variable {kind : PKind} {bits : Nat} {U : List (Bytes × Bytes)} {P : Block → PGet}
  {below : Block → Prop} {spec : Spec}

theorem enc_bound (hU : Univ kind U) (h31 : bits ≤ 31) {b : Nat} {rl : RecordList}
    (ho : OInv (ownOf kind bits P) rl)
    (hB : ∀ e ∈ rl, BlockOK kind bits U P below spec b e.blk) :
    (encodeRL rl).length ≤ specW spec := by
  rw [encodeRL_length]
  unfold specW
  apply sum_le_of_inj (fun e : Entry => dgOf kind P e.blk) (fun x : Bytes × Bytes × Bytes => x.1)
  · rw [List.nodup_iff_pairwise_ne, List.pairwise_map]
    have hnd := ho.distinctBlocks
    rw [List.nodup_iff_pairwise_ne, List.pairwise_map] at hnd
    apply List.Pairwise.imp_of_mem _ hnd
    intro x y hx hy hne heq
    obtain ⟨k1, v1, d1, a1, a2, _, _, a5⟩ := (hB x hx).own hU h31
    obtain ⟨k2, v2, d2, b1, b2, _, _, b5⟩ := (hB y hy).own hU h31
    have e1 : dgOf kind P x.blk = d1 := by unfold dgOf; rw [a1]; simp [(hU.dig a2).1]
    have e2 : dgOf kind P y.blk = d2 := by unfold dgOf; rw [b1]; simp [(hU.dig b2).1]
    rw [e1, e2] at heq
    subst heq
    have := ho.owner_unique hx hy a5 b5
    exact hne (by rw [this])
  · intro e he
    obtain ⟨k1, v1, d1, a1, a2, _, a4, a5⟩ := (hB e he).own hU h31
    refine ⟨(d1, k1, v1), Spec.mem_of_get a4, ?_, ?_⟩
    · unfold dgOf; rw [a1]; simp [(hU.dig a2).1]
    · have hp := pfx_length_le (ho.own_pfx he a5).1
      have hl := indexKeyOf_length_le kind k1 d1 (hU.dig a2).1
      simp only [List.length_drop] at hp
      simp only
      omega

end

/-! ### frame lemmas with a changed disk -/

theorem PInv.frame2 {m m' : Mem} {d d' : Disk} (h : PInv m d)
    (hd1 : d'.pfiles = d.pfiles) (hd2 : d'.cidfile = d.cidfile)
    (h1 : m'.kind = m.kind) (h2 : m'.pmax = m.pmax) (h3 : m'.pnext = m.pnext) (h4 : m'.pcur = m.pcur)
    (h5 : m'.pfileNum = m.pfileNum) (h6 : m'.plength = m.plength)
    (h7 : m'.precFileNum = m.precFileNum) (h8 : m'.precPos = m.precPos) : PInv m' d' := by
  have h' := h.frame h1 h2 h3 h4 h5 h6 h7 h8
  have hdr : ∀ blk, diskRead m'.kind m'.pmax d' blk = diskRead m'.kind m'.pmax d blk := by
    intro blk; unfold diskRead; rw [hd1, hd2]
  exact ⟨h'.pmax, h'.recs, h'.nextBelow, fun r hr => by rw [hdr]; exact h'.curDisk r hr,
    by rw [hd1]; exact h'.mh, by rw [hd2]; exact h'.cid⟩

theorem IInv.frame2 {m m' : Mem} {d d' : Disk} (h : IInv m d) (hd : d'.ifiles = d.ifiles)
    (h1 : m'.imax = m.imax) (h2 : m'.icur = m.icur) (h3 : m'.buckets = m.buckets)
    (h4 : m'.ifileNum = m.ifileNum) (h5 : m'.ilength = m.ilength) : IInv m' d' := by
  have h' := h.frame (m' := m') h1 h2 h3 h4 h5
  exact ⟨h'.imax, by rw [hd]; exact h'.curDisk, by rw [hd]; exact h'.len, by rw [hd]; exact h'.noFiles,
    h'.sorted⟩

/-! ### counters -/

/-- allocation counters against the number of calls `n` and the bytes put so far `B` -/
structure Cnt (m : Mem) (n B : Nat) : Prop where
  mh : m.kind = .mh → m.precFileNum ≤ n ∧ m.pmax ≤ 1073741824
  cid : m.kind = .cid → m.precPos ≤ B
  idx : m.ifileNum + m.inext.length ≤ n

/-! ### freelist flush -/

theorem flFlush_shape (m : Mem) (d : Disk) :
    ∃ fl fr, flFlush m d = ({ m with flpool := fl }, { d with free := fr }) := by
  unfold flFlush
  split
  · exact ⟨m.flpool, d.free, rfl⟩
  · exact ⟨[], _, rfl⟩

/-! ### Store.Flush -/

section
variable {U : List (Bytes × Bytes)} {m : Mem} {d : Disk} {spec : Spec} {n B : Nat}

/-- every pooled record list can be written out -/
theorem inext_flushOK (hU : Univ m.kind U) (h31 : m.bits ≤ 31) (hA : SInv U m d spec)
    (hw : specW spec ≤ B) (hB : B < two31) :
    ∀ b rl, m.inext.get? b = some rl → FlushOK rl := by
  intro b rl hb
  obtain ⟨orl, h1, h2, h3⟩ := hA.recs b
  have : idxRecords m d b = .ok (some rl) := by unfold idxRecords; rw [hb]
  rw [this] at h1
  cases h1
  simp only [Option.getD_some] at h2 h3
  refine ⟨wf_of_inv hU h31 h2 h3, ?_⟩
  have := enc_bound hU h31 h2 h3
  unfold two31 at hB
  unfold two32
  omega

theorem storeFlush_ok (hU : Univ m.kind U) (h31 : m.bits ≤ 31) (hA : SInv U m d spec)
    (hP : PInv m d) (hI : IInv m d) (hC : Cnt m n B) (hn : n < 1073741824) (hB : B < two31)
    (hw : specW spec ≤ B) {order : List Nat}
    (hcov : ∀ b rl, m.inext.get? b = some rl → b ∈ order) (hlen : order.length = m.inext.length) :
    ∃ m' d', storeFlush m d order = some (m', d') ∧ m'.kind = m.kind ∧ m'.imm = m.imm ∧
      m'.bits = m.bits ∧ SInv U m' d' spec ∧ PInv m' d' ∧ IInv m' d' ∧ Cnt m' n B ∧ m'.inext = [] := by
  unfold storeFlush
  by_cases hout : outstanding m = true
  · rw [if_pos hout]
    unfold commit
    obtain ⟨pc, pfn, plen, pfiles, cidf, p1, p2, p3⟩ := priFlush_ok hP (fun hk => by
      have := (hC.mh hk).1
      unfold two32; omega)
    rw [p1]
    simp only
    have hI1 : IInv (pfl m pc pfn plen) (dfl d pfiles cidf) :=
      hI.frame2 rfl rfl rfl rfl rfl rfl
    have hidx1 : ∀ b, idxRecords (pfl m pc pfn plen) (dfl d pfiles cidf) b = idxRecords m d b :=
      fun _ => rfl
    obtain ⟨ic, fn, len, bk, files, i1, i2, i3, i4⟩ := idxFlush_ok (order := order) hI1
      (fun b => by
        obtain ⟨orl, h1, _⟩ := hA.recs b
        exact ⟨orl, by rw [hidx1]; exact h1⟩)
      (inext_flushOK (m := m) (d := d) hU h31 hA hw hB) hcov (by
        have := hC.idx
        show m.ifileNum + order.length < two32
        unfold two32; omega)
    rw [i1]
    simp only
    obtain ⟨fl, fr, f1⟩ := flFlush_shape (ifl (pfl m pc pfn plen) ic fn len bk)
      (difl (dfl d pfiles cidf) files)
    rw [f1]
    refine ⟨_, _, rfl, rfl, rfl, rfl, ?_, ?_, ?_, ?_, rfl⟩
    · apply AInv.mono hA
      · intro blk k v _ hg
        exact p3 blk k v hg
      · intro blk hb; exact hb
      · intro b
        exact (i3 b).trans (hidx1 b)
    · exact p2.frame2 rfl rfl rfl rfl rfl rfl rfl rfl rfl rfl
    · exact i2.frame2 rfl rfl rfl rfl rfl rfl
    · refine ⟨hC.mh, hC.cid, ?_⟩
      have := hC.idx
      show fn + 0 ≤ n
      have i4' : fn ≤ m.ifileNum + order.length := i4
      omega
  · rw [if_neg hout]
    refine ⟨m, d, rfl, rfl, rfl, rfl, hA, hP, hI, hC, ?_⟩
    unfold outstanding at hout
    simp only [Bool.or_eq_true, Bool.not_eq_true', not_or, Bool.not_eq_false] at hout
    exact List.isEmpty_iff.mp hout.1

end

end Sth
