/-
C09 — `translateIndex` and `openStoreT` on the closed directory of a reachable state, for a configuration
that differs in the bit size only: the translation succeeds and the reopened state satisfies the C01/C02
invariants for the new configuration with the SAME specification map.
Core Lean only.
-/
import Sth.Lemmas.C09Flush

namespace Sth.C09

/-! ### `translateIndex` with its stages named -/

/-- loading the old bucket table: saved snapshot if usable, else a rescan of the index log -/
def loadOld (d : Disk) (bits imax first : Nat) : Option (NMap Bytes × NMap Nat) :=
  let usable : Bool := match d.snap with
    | some s => s.size == 8 * 2 ^ bits
    | none => false
  if usable then some (d.ifiles, (d.snap.map (·.nz)).getD [])
  else (scanIndex (2 ^ bits) imax d.ifiles first).map fun (files, bk, _) => (files, bk)

/-- the flush order `translateIndex` uses for the new index's pool -/
def trOrder (order : List Nat) (pool : NMap RecordList) : List Nat :=
  if order.length = pool.length ∧ pool.keys.all (order.contains ·) then order else pool.keys

/-- `translateIndex` after the header has been read -/
def translateBody (kind : PKind) (pmax pfn plen : Nat) (newBits ifsArg : Nat) (d : Disk) (order : List Nat)
    (h : IdxHeader) : Except OpenErr (Disk × List Nat) :=
  let imax := if ifsArg = 0 then h.max else ifsArg
  if h.max ≠ imax then .error .wrongIndexFileSize else
  match loadOld d h.bits imax h.first with
  | none => .error .other
  | some (ifiles, bk) =>
    if kind = .mh ∧ h.pfs ≠ pmax then .error .wrongPrimaryFileSize else
    match (bk.filter (·.2 ≠ 0)).foldlM (entStep ifiles imax) [] with
    | none => .error .other
    | some es =>
      match es.foldlM (trStep (primaryOnlyMem kind h.bits pmax pfn plen) { d with ifiles := ifiles } newBits) [] with
      | none => .error .other
      | some pool =>
        let newMax := if ifsArg = 0 then defaultMax else ifsArg
        .ok ({ d with ifiles := (flushFresh newMax pool (trOrder order pool)).1,
                      ihdr := some ⟨newBits, newMax, 0, if kind = .mh then pmax else 0⟩,
                      snap := some ⟨8 * 2 ^ newBits, (flushFresh newMax pool (trOrder order pool)).2.filter (·.2 ≠ 0)⟩ },
             pool.keys)

/-- `translateIndex`, restated with its stages named -/
theorem translateIndex_eq_body (kind : PKind) (pmax pfn plen newBits ifsArg : Nat) (d : Disk)
    (order : List Nat) {h : IdxHeader} (hh : d.ihdr = some h) :
    translateIndex kind pmax pfn plen newBits ifsArg d order =
      translateBody kind pmax pfn plen newBits ifsArg d order h := by
  have : translateIndex kind pmax pfn plen newBits ifsArg d order =
      match d.ihdr with
      | none => .error .other
      | some h => translateBody kind pmax pfn plen newBits ifsArg d order h := rfl
  rw [this, hh]

theorem trOrder_ok (order : List Nat) (pool : NMap RecordList) :
    (∀ b rl, pool.get? b = some rl → b ∈ trOrder order pool) ∧
      (trOrder order pool).length = pool.length := by
  have hk : pool.keys.length = pool.length := by unfold NMap.keys; simp
  unfold trOrder
  split
  · rename_i hc
    refine ⟨?_, hc.1⟩
    intro b rl hb
    have h1 := NMap.mem_keys_of_get? hb
    have h2 := hc.2
    rw [List.all_eq_true] at h2
    have := h2 b h1
    simpa using this
  · exact ⟨fun b rl hb => NMap.mem_keys_of_get? hb, hk⟩

/-! ### loading the old table from the closed directory -/

section
variable {c : Cfg} {U : List (Bytes × Bytes)} {spec : Spec} {n B : Nat} {m2 : Mem} {d2 d : Disk}

theorem load_ok (hc : c.Legal) (hC : Closed c U spec n B m2 d2 d) :
    ∃ ifiles bk, loadOld d c.bits c.ifs 0 = some (ifiles, bk) ∧
      (∀ f, ifiles.get? f = d2.ifiles.get? f) ∧ NMap.Sorted bk ∧
      ∀ b, (bk.get? b).getD 0 = (m2.buckets.get? b).getD 0 := by
  have hIi : IInv m2 d2 := hC.inv.i
  have hbits : m2.bits = c.bits := hC.xinv.bits
  rcases hC.snap with hs | hs
  · refine ⟨d.ifiles, m2.buckets.filter (·.2 ≠ 0), ?_, ?_, NMap.sorted_filter _ hIi.sorted,
      NMap.get?_filter_nz hIi.sorted⟩
    · unfold loadOld
      simp only [hs, hbits, beq_self_eq_true, if_true, Option.map_some, Option.getD_some]
    · intro f; rw [hC.ifiles]
  · obtain ⟨lg, hl⟩ := hC.xinv.log
    have hlf : ∀ f, f ≤ m2.ifileNum → d.ifiles.get? f = some (logBytes (lg f)) := by
      intro f hf; rw [hC.ifiles]; exact hl.files f hf
    have hlr : ∀ f, f ≤ m2.ifileNum → ∀ r ∈ lg f, RecLogOK c.bits r := by
      intro f hf r hr
      have := hl.recs f hf r hr
      rw [← hbits]; exact this
    have hino : d.ifiles.get? (m2.ifileNum + 1) = none := by
      rw [hC.ifiles]; exact hIi.noFiles _ (by omega)
    obtain ⟨files', s1, s2⟩ := scanIndex_log (max := c.ifs) hc.2.1 hlf hino hlr
    refine ⟨files', scanTo c.ifs lg m2.ifileNum, ?_, ?_, scanTo_sorted _ _ _, ?_⟩
    · unfold loadOld
      simp only [hs, Bool.false_eq_true, if_false, s1, Option.map_some]
    · intro f; rw [s2, hC.ifiles]
    · intro b
      have := hl.table b
      have e : m2.imax = c.ifs := hC.xinv.imax
      rw [e] at this
      exact this.symm

end

/-! ### the reference state and the pending state -/

/-- the memory state of the primary during translation (as `translateIndex` builds it) -/
abbrev pmOf (c c' : Cfg) (pfn plen : Nat) : Mem := primaryOnlyMem c'.kind c.bits (hdrPfs c') pfn plen

/-- reference: the state a reopen with the OLD configuration builds on the loaded bucket table -/
abbrev refMem (c c' : Cfg) (bk : NMap Nat) (N ilen pfn plen : Nat) : Mem :=
  { pmOf c c' pfn plen with imm := c.imm, imax := c.ifs, buckets := bk, ifileNum := N, ilength := ilen }

/-- pending: a fresh index for the NEW configuration whose pool holds the translated buckets -/
abbrev pendMem (c c' : Cfg) (pool : NMap RecordList) (pfn plen : Nat) : Mem :=
  { pmOf c c' pfn plen with imm := c'.imm, bits := c'.bits, imax := c'.ifs, inext := pool }

abbrev pendDisk (c' : Cfg) (d : Disk) : Disk :=
  { d with ifiles := [(0, [])], ihdr := some ⟨c'.bits, c'.ifs, 0, hdrPfs c'⟩, snap := none }

section
variable {c c' : Cfg} {U : List (Bytes × Bytes)} {spec : Spec} {n B : Nat} {m2 : Mem} {d2 d : Disk}

theorem hdrPfs_eq (hkind : c'.kind = c.kind) (hpfs : c.kind = .mh → c'.pfs = c.pfs) :
    hdrPfs c' = hdrPfs c := by
  unfold hdrPfs
  rw [hkind]
  cases hkk : c.kind with
  | mh => exact hpfs hkk
  | cid => rfl

/-- the reference state satisfies the invariants of the OLD configuration -/
theorem ref_inv (hkind : c'.kind = c.kind) (hpfs : c.kind = .mh → c'.pfs = c.pfs)
    (hC : Closed c U spec n B m2 d2 d) {pfn plen : Nat}
    (o2 : c.kind = .mh → pfn = m2.pfileNum ∧ plen = (fileOf d2.pfiles m2.pfileNum).length)
    (o3 : c.kind = .cid → pfn = 0 ∧ plen = (d2.cidfile.getD []).length)
    {ifiles : NMap Bytes} {bk : NMap Nat} (l2 : ∀ f, ifiles.get? f = d2.ifiles.get? f)
    (l3 : NMap.Sorted bk) (l4 : ∀ b, (bk.get? b).getD 0 = (m2.buckets.get? b).getD 0) :
    Inv c U ⟨c, refMem c c' bk m2.ifileNum (fileOf ifiles m2.ifileNum).length pfn plen,
        { d with ifiles := ifiles }⟩ spec n B ∧
      XInv c ⟨c, refMem c c' bk m2.ifileNum (fileOf ifiles m2.ifileNum).length pfn plen,
        { d with ifiles := ifiles }⟩ := by
  have hIp : PInv m2 d2 := hC.inv.p
  have hkind2 : m2.kind = c.kind := hC.inv.kind
  have hpn := hC.pnext
  have halloc : m2.kind = .mh → m2.pfileNum = m2.precFileNum ∧ m2.plength = m2.precPos := by
    intro hk
    have := (hIp.mh hk).1
    rw [hpn] at this
    exact this
  have hr : Reopened m2 d2 (refMem c c' bk m2.ifileNum (fileOf ifiles m2.ifileNum).length pfn plen)
      { d with ifiles := ifiles } := by
    refine ⟨hkind.trans hkind2.symm, hC.inv.imm.symm, hC.xinv.bits.symm, hC.xinv.imax.symm,
      (hdrPfs_eq hkind hpfs).trans hC.xinv.pmax.symm, rfl, rfl, rfl, rfl, rfl, rfl, l3, l4, l2,
      hC.pfiles, ?_, ?_, ?_, ?_, ?_, hC.ihdr, hC.phdr⟩
    · intro file hf
      show d.cidfile = some file
      rw [hC.cidfile]; exact hf
    · show d.cidfile.getD [] = d2.cidfile.getD []
      rw [hC.cidfile]
    · intro hk
      show pfn = m2.precFileNum
      rw [(o2 (by rw [← hkind2]; exact hk)).1]
      exact (halloc hk).1
    · show plen = m2.precPos
      rcases kind_cases m2 with hk | hk
      · rw [(o2 (by rw [← hkind2]; exact hk)).2, (hIp.mh hk).2.1]
        exact (halloc hk).2
      · rw [(o3 (by rw [← hkind2]; exact hk)).2]
        have := hIp.cid hk
        rw [hpn] at this
        exact this
    · intro hk
      show pfn = m2.pfileNum ∧ plen = m2.plength
      obtain ⟨a2, a3⟩ := o2 (by rw [← hkind2]; exact hk)
      rw [a2, a3]
      exact ⟨rfl, (hIp.mh hk).2.1⟩
  exact reopen_inv hC.inv hC.xinv hC.inext hC.pnext hr

theorem idxRecords_pend (pool : NMap RecordList) (pfn plen b : Nat) :
    idxRecords (pendMem c c' pool pfn plen) (pendDisk c' d) b = .ok (pool.get? b) := by
  unfold idxRecords
  cases hg : pool.get? b with
  | some rl => rfl
  | none =>
    have e2 : (pendMem c c' pool pfn plen).icur.get? b = none := rfl
    have e3 : ((pendMem c c' pool pfn plen).buckets.get? b).getD 0 = 0 := rfl
    simp only [e2, e3, readDiskBucket_zero]

/-- the pending state satisfies the invariants of the NEW configuration, with the same map -/
theorem pend_inv (hc' : c'.Legal) (hU' : Univ c'.kind U) {pfn plen : Nat} {ifiles : NMap Bytes}
    {bk : NMap Nat} {N ilen : Nat}
    (hIR : Inv c U ⟨c, refMem c c' bk N ilen pfn plen, { d with ifiles := ifiles }⟩ spec n B)
    {pool : NMap RecordList} {S : List Block}
    (hP : PoolInv U (pmOf c c' pfn plen) { d with ifiles := ifiles } c'.bits
      (Below (pmOf c c' pfn plen)) spec pool S)
    (hcompl : ∀ dig key val, Spec.get spec dig = some (key, val) →
      ∃ x ∈ S, priGet (pmOf c c' pfn plen) { d with ifiles := ifiles } x = .got key val ∧ (key, dig) ∈ U)
    (hlen : S.length ≤ n)
    (hphdr : c'.kind = .mh → d.phdr = some ⟨c'.pfs, 0⟩)
    (hpall : c'.kind = .mh → ∀ f, f ≤ pfn → d.pfiles.get? f ≠ none) :
    Inv c' U ⟨c', pendMem c c' pool pfn plen, pendDisk c' d⟩ spec n B ∧
      XInv c' ⟨c', pendMem c c' pool pfn plen, pendDisk c' d⟩ := by
  obtain ⟨b8, b31, i1, i2, _, _⟩ := hc'
  constructor
  · refine ⟨rfl, rfl, b8, b31, ?_, ?_, ?_, ?_, hIR.nodup, hIR.w⟩
    · -- observations
      show AInv c'.kind c'.bits U (priGet (pmOf c c' pfn plen) { d with ifiles := ifiles })
        (idxRecords (pendMem c c' pool pfn plen) (pendDisk c' d)) (Below (pmOf c c' pfn plen)) spec
      constructor
      · intro b
        refine ⟨pool.get? b, idxRecords_pend pool pfn plen b, ?_, ?_⟩
        · cases hg : pool.get? b with
          | none => exact OInv.nil _
          | some rl => exact hP.oinv b rl hg
        · cases hg : pool.get? b with
          | none => intro e he; cases he
          | some rl => exact fun e he => (hP.blk b rl hg e he).2
      · intro dig key val hs
        obtain ⟨x, hxS, hx1, hx2⟩ := hcompl dig key val hs
        obtain ⟨b, rl, g1, g2⟩ := hP.cover x hxS
        obtain ⟨e, he, heq⟩ := List.mem_map.mp g2
        obtain ⟨key', val', dig', a1, a2, a3, _, _⟩ := (hP.blk b rl g1 e he).2.ex
        rw [heq, hx1] at a1
        cases a1
        have e1 := (hU'.dig a2).1
        have e2 := (hU'.dig hx2).1
        rw [e1] at e2
        cases e2
        exact ⟨b, rl, e, a3, by rw [idxRecords_pend, g1], he, by rw [heq]; exact hx1, hx2⟩
    · exact hIR.p.frame2 rfl rfl rfl rfl rfl rfl rfl rfl rfl rfl
    · exact ⟨i1, fun b rl hb => (by cases hb), rfl, fun f hf => get?_single_none _ f hf,
        NMap.sorted_nil⟩
    · refine ⟨hIR.cnt.mh, hIR.cnt.cid, ?_⟩
      show 0 + pool.length ≤ n
      have := hP.len
      omega
  · refine ⟨rfl, rfl, rfl, rfl, rfl, hphdr, hpall, ?_, ?_⟩
    · intro b rl hb
      exact hP.lt b rl hb
    · refine ⟨fun _ => [], ?_, ?_, ?_⟩
      · intro f hf
        have hf' : f ≤ 0 := hf
        have : f = 0 := by omega
        subst this
        rfl
      · intro f _ r hr; cases hr
      · intro b
        rfl

end

/-! ### `translateIndex` and `openStoreT` on the closed directory -/

/-- `openIndex_snap` when the index file-size limit is given as 0 ("not specified") or as in the header -/
theorem openIndex_snap_arg (c : Cfg) (hc : c.Legal) {ia : Nat} (hia : ia = 0 ∨ ia = c.ifs) (d : Disk)
    (N : Nat) (nz : NMap Nat)
    (hih : d.ihdr = some ⟨c.bits, c.ifs, 0, hdrPfs c⟩)
    (hsn : d.snap = some ⟨8 * 2 ^ c.bits, nz⟩)
    (hall : ∀ f, f ≤ N → d.ifiles.get? f ≠ none) (hno : d.ifiles.get? (N + 1) = none) :
    openIndex { c with ifs := ia } (hdrPfs c) d =
      .ok ({ d with snap := none, ifiles := d.ifiles }, c.bits, c.ifs, nz, N) := by
  rcases hia with h0 | h1
  · obtain ⟨p1, p2, p3, p4⟩ := openIndex_pre c hc
    have hfl := findLast_eq hall hno
    subst h0
    have q2 : ¬ (0 : Nat) > defaultMax := by omega
    unfold openIndex
    simp only [p1, q2, if_false, hih, p3, ne_eq, not_true_eq_false, hsn, beq_self_eq_true, if_true,
      Option.map_some, Option.getD_some, hfl, and_false, has_eq_true (hall N (Nat.le_refl _)),
      not_false_eq_true]
  · subst h1
    exact openIndex_snap c hc d N nz hih hsn hall hno

section
variable {c c' : Cfg} {U : List (Bytes × Bytes)} {spec : Spec} {n B : Nat} {m2 : Mem} {d2 d : Disk}

/-- `translateIndex` succeeds on the closed directory; what it leaves is the directory of the fully
    flushed pending state plus its bucket snapshot -/
theorem translate_ok (hc : c.Legal) (hc' : c'.Legal) (hkind : c'.kind = c.kind) {ia : Nat}
    (hia : (ia = 0 ∧ c'.ifs = defaultMax) ∨ (ia = c'.ifs ∧ c'.ifs = c.ifs))
    (hpfs : c.kind = .mh → c'.pfs = c.pfs) (hU : Univ c.kind U)
    (hC : Closed c U spec n B m2 d2 d) (hsn : spec.length ≤ n) (hn : n < 1073741824) (hB : B < two31)
    {pfn plen : Nat}
    (o2 : c.kind = .mh → pfn = m2.pfileNum ∧ plen = (fileOf d2.pfiles m2.pfileNum).length)
    (o3 : c.kind = .cid → pfn = 0 ∧ plen = (d2.cidfile.getD []).length) (order : List Nat) :
    ∃ pool ic fn len bk files,
      translateIndex c'.kind (hdrPfs c') pfn plen c'.bits ia d order =
        .ok ({ d with ifiles := files, ihdr := some ⟨c'.bits, c'.ifs, 0, hdrPfs c'⟩,
                      snap := some ⟨8 * 2 ^ c'.bits, bk.filter (·.2 ≠ 0)⟩ }, pool.keys) ∧
      Inv c' U ⟨c', ifl (pendMem c c' pool pfn plen) ic fn len bk, difl (pendDisk c' d) files⟩ spec n B ∧
      XInv c' ⟨c', ifl (pendMem c c' pool pfn plen) ic fn len bk, difl (pendDisk c' d) files⟩ := by
  have hU' : Univ c'.kind U := by rw [hkind]; exact hU
  have hpm := hdrPfs_eq hkind hpfs
  obtain ⟨ifiles, bk0, l1, l2, l3, l4⟩ := load_ok hc hC
  obtain ⟨hIR, hXR⟩ := ref_inv hkind hpfs hC o2 o3 l2 l3 l4
  -- the entries of the old index
  obtain ⟨es, e1, e2, e3, e4, e5⟩ := entries_ok
    (m := refMem c c' bk0 m2.ifileNum (fileOf ifiles m2.ifileNum).length pfn plen)
    (d := { d with ifiles := ifiles }) (U := U) (spec := spec) hU' hIR.bits31 hIR.a l3 rfl rfl
  -- re-insertion into the pool
  obtain ⟨pool, f1, f2⟩ := poolFold_ok (pm := pmOf c c' pfn plen) (d := { d with ifiles := ifiles })
    (nb := c'.bits) (below := Below (pmOf c c' pfn plen)) (spec := spec) (ob := c.bits) hU' hc'.1
    hc'.2.1 es [] [] PoolInv.nil e2 e3 (by simp)
  -- the pending state
  obtain ⟨hIT, hXT⟩ := pend_inv hc' hU' hIR f2
    (by
      intro dig key val hs
      obtain ⟨e, he, h1, h2⟩ := e4 dig key val hs
      exact ⟨e.blk, by simp; exact ⟨e, he, rfl⟩, h1, h2⟩)
    (by simp; omega)
    (by
      intro hk
      rw [hC.phdr, hpfs (by rw [← hkind]; exact hk)]
      exact hC.xinv.phdr (by rw [← hkind]; exact hk))
    (by
      intro hk f hf
      rw [hC.pfiles]
      rw [(o2 (by rw [← hkind]; exact hk)).1] at hf
      exact hC.xinv.pall (by rw [← hkind]; exact hk) f hf)
  -- its index flush
  obtain ⟨g1, g2⟩ := trOrder_ok order pool
  obtain ⟨ic, fn, len, bk, files, i1, hI3, hX3⟩ :=
    idxFlush_inv hU' hIT hXT hn hB (order := trOrder order pool) g1 g2
  have hff := flushFresh_eq_idxFlush (pendMem c c' pool pfn plen) (pendDisk c' d) rfl rfl rfl rfl
    (trOrder order pool)
  rw [i1] at hff
  have hff' : flushFresh c'.ifs pool (trOrder order pool) = (files, bk) := hff
  refine ⟨pool, ic, fn, len, bk, files, ?_, hI3, hX3⟩
  have hi0 : c'.ifs ≠ 0 := by have := hc'.2.2.1; omega
  have himax : (if ia = 0 then c.ifs else ia) = c.ifs := by
    rcases hia with ⟨h0, _⟩ | ⟨h1, h2⟩
    · rw [if_pos h0]
    · rw [if_neg (by omega), h1, h2]
  have hnewmax : (if ia = 0 then defaultMax else ia) = c'.ifs := by
    rcases hia with ⟨h0, h1⟩ | ⟨h1, _⟩
    · rw [if_pos h0, h1]
    · rw [if_neg (by omega), h1]
  have hpf : ¬ (c'.kind = .mh ∧ hdrPfs c ≠ hdrPfs c') := by rw [hpm]; simp
  have hpf2 : (if c'.kind = .mh then hdrPfs c' else 0) = hdrPfs c' := by
    unfold hdrPfs
    cases c'.kind <;> rfl
  have e1' : (bk0.filter (·.2 ≠ 0)).foldlM (entStep ifiles c.ifs) [] = some es := e1
  rw [translateIndex_eq_body _ _ _ _ _ _ _ _ hC.hdr]
  unfold translateBody
  simp only [himax, hnewmax, ne_eq, not_true_eq_false, if_false, l1, hpf, e1', f1, hff', hpf2]

/-- OpenStore with a configuration that differs in the bit size only: the index is translated and the
    reopened state satisfies the invariants of the new configuration with the same specification map;
    the primary, the freelist and the primary header are untouched -/
theorem translate_open (hc : c.Legal) (hc' : c'.Legal) (hkind : c'.kind = c.kind) {ia : Nat}
    (hia : (ia = 0 ∧ c'.ifs = defaultMax) ∨ (ia = c'.ifs ∧ c'.ifs = c.ifs))
    (hpfs : c.kind = .mh → c'.pfs = c.pfs) (hbits : c'.bits ≠ c.bits)
    (hU : Univ c.kind U) (hC : Closed c U spec n B m2 d2 d) (hsn : spec.length ≤ n)
    (hn : n < 1073741824) (hB : B < two31) (order : List Nat) :
    ∃ m' d' keys, openStoreT { c' with ifs := ia } d order = (d', .ok m', keys) ∧
      Inv c' U ⟨c', m', d'⟩ spec n B ∧ XInv c' ⟨c', m', d'⟩ ∧
      d'.pfiles = d.pfiles ∧ d'.cidfile = d.cidfile ∧ d'.free = d.free ∧ d'.phdr = d.phdr ∧
      d'.ihdr = some ⟨c'.bits, c'.ifs, 0, hdrPfs c'⟩ := by
  have hpm := hdrPfs_eq hkind hpfs
  obtain ⟨pfn, plen, o1, o2, o3⟩ := hC.openPrimary hc' hkind hpfs
  rw [← hpm] at o1
  obtain ⟨pool, ic, fn, len, bk, files, t1, hI3, hX3⟩ :=
    translate_ok hc hc' hkind hia hpfs hU hC hsn hn hB o2 o3 order
  have hc'' := hc'
  obtain ⟨b8, b31, i1, i2, _, _⟩ := hc''
  have hia2 : ia = 0 ∨ ia = c'.ifs := by
    rcases hia with ⟨h0, _⟩ | ⟨h1, _⟩
    · exact Or.inl h0
    · exact Or.inr h1
  have o1' : Sth.openPrimary { c' with ifs := ia } d = .ok (d, hdrPfs c', pfn, plen) := o1
  have w := openIndex_wrongBits (c := { c' with ifs := ia }) (d := d) (hdrPfs c') b8 b31
    (by rcases hia2 with h | h <;> simp only [h] <;> omega) hC.hdr (Ne.symm hbits)
  have hIi3 : IInv (ifl (pendMem c c' pool pfn plen) ic fn len bk) (difl (pendDisk c' d) files) := hI3.i
  obtain ⟨lg, hl⟩ := hX3.log
  have o4 := openIndex_snap_arg c' hc' hia2
    ({ d with ifiles := files, ihdr := some ⟨c'.bits, c'.ifs, 0, hdrPfs c'⟩,
              snap := some ⟨8 * 2 ^ c'.bits, bk.filter (·.2 ≠ 0)⟩ } : Disk) fn (bk.filter (·.2 ≠ 0)) rfl rfl
    (by
      intro f hf
      show files.get? f ≠ none
      have := hl.files f hf
      have e : (difl (pendDisk c' d) files).ifiles.get? f = files.get? f := rfl
      rw [e] at this
      rw [this]; simp)
    (hIi3.noFiles _ (by show fn < fn + 1; omega))
  have hr : Reopened (ifl (pendMem c c' pool pfn plen) ic fn len bk) (difl (pendDisk c' d) files)
      (openMem c' (bk.filter (·.2 ≠ 0)) fn (fileOf files fn).length pfn plen)
      ({ d with ifiles := files, ihdr := some ⟨c'.bits, c'.ifs, 0, hdrPfs c'⟩, snap := none } : Disk) :=
    ⟨rfl, rfl, rfl, rfl, rfl, rfl, rfl, rfl, rfl, rfl, rfl, NMap.sorted_filter _ hIi3.sorted,
      NMap.get?_filter_nz hIi3.sorted, fun _ => rfl, rfl, fun _ h => h, rfl, fun _ => rfl, rfl,
      fun _ => ⟨rfl, rfl⟩, rfl, rfl⟩
  obtain ⟨hI', hX'⟩ := reopen_inv hI3 hX3 rfl rfl hr
  refine ⟨openMem c' (bk.filter (·.2 ≠ 0)) fn (fileOf files fn).length pfn plen,
    ({ d with ifiles := files, ihdr := some ⟨c'.bits, c'.ifs, 0, hdrPfs c'⟩, snap := none } : Disk),
    pool.keys, ?_, hI', hX', rfl, rfl, rfl, rfl, rfl⟩
  unfold openStoreT
  simp only [openFreelist_id hC.shape, o1', w, t1, o4]
  rfl

end

/-! ### the run before and the run after -/

theorem specStep_length (kind : PKind) (imm : Bool) (m : Spec) (op : SOp) :
    (specStep kind imm m op).1.length ≤ m.length + 1 := by
  cases op <;> simp only [specStep] <;> (repeat' split) <;>
    first
      | exact Nat.le_succ _
      | exact Nat.succ_le_succ (List.length_filter_le _ _)
      | exact Nat.le_succ_of_le (List.length_filter_le _ _)

theorem specRun_length (kind : PKind) (imm : Bool) : ∀ (ops : List SOp) (m : Spec),
    (specRun kind imm m ops).1.length ≤ m.length + ops.length
  | [], m => by simp [specRun]
  | op :: ops, m => by
    rw [specRun_cons_fst]
    have h1 := specStep_length kind imm m op
    have h2 := specRun_length kind imm ops (specStep kind imm m op).1
    simp only [List.length_cons]
    omega

/-- C09, lemma level: after any run `ops` from a fresh store with configuration `c`, Close and
    OpenStore with `c'` (same primary, same file-size limits, another bit size) succeeds, and every
    later run `ops2` answers what the in-memory map left by `ops` answers -/
theorem translate_refines_arg (c : Cfg) (hc : c.Legal) (c' : Cfg) (hc' : c'.Legal)
    (hkind : c'.kind = c.kind) {ia : Nat}
    (hia : (ia = 0 ∧ c'.ifs = defaultMax) ∨ (ia = c'.ifs ∧ c'.ifs = c.ifs))
    (hpfs : c.kind = .mh → c'.pfs = c.pfs) (hbits : c'.bits ≠ c.bits)
    (ops ops2 : List SOp) (ha : ∀ op ∈ ops, op.isC02 = true) (ha2 : ∀ op ∈ ops2, op.isC02 = true)
    (hk : KeysOK c.kind (ops ++ ops2)) (hs : SizesOK (ops ++ ops2)) (s0 : SState)
    (hi : initS c = some s0) (ord order : List Nat) (us : Bool) :
    ∃ d m' d' keys, closedDisk (runS s0 ops).1 ord us = some d ∧
      openStoreT { c' with ifs := ia } d order = (d', .ok m', keys) ∧
      (runS ⟨c', m', d'⟩ ops2).2 =
        (specRun c.kind c'.imm (specRun c.kind c.imm [] ops).1 ops2).2 ∧
      d'.pfiles = d.pfiles ∧ d'.cidfile = d.cidfile ∧ d'.free = d.free ∧ d'.phdr = d.phdr ∧
      d'.ihdr = some ⟨c'.bits, c'.ifs, 0, hdrPfs c'⟩ := by
  have hU := univ_of_keysOK hk (keysExact_all c.kind (ops ++ ops2))
  have hlen : ops.length + ops2.length < 1073741824 := by
    have := hs.1; rw [List.length_append] at this; exact this
  have hsum : (ops.map SOp.bytes).sum + (ops2.map SOp.bytes).sum < two31 := by
    have := hs.2.1; rw [List.map_append, List.sum_append] at this; exact this
  have hkeys : ∀ op ∈ ops, ∀ k, op.keyOf = some k → ∀ dig, keyClass c.kind k = .ok dig →
      (k, dig) ∈ digestsOf c.kind (ops ++ ops2) :=
    fun op ho k hkey dig hcls => mem_digestsOf (List.mem_append_left _ ho) hkey hcls
  obtain ⟨_, hI, hX⟩ := run_ok2 hc hU ops s0 [] 0 0 (inv_init c hc _ s0 hi) (xinv_init c hc s0 hi) ha
    hkeys (by omega) (by omega)
  have hD := run_shape hc hU ops s0 [] 0 0 (inv_init c hc _ s0 hi) (xinv_init c hc s0 hi)
    (shape_init c hc s0 hi) ha hkeys (by omega) (by omega)
  have hsl : (specRun c.kind c.imm [] ops).1.length ≤ 0 + ops.length := by
    have := specRun_length c.kind c.imm ops []
    simpa using this
  obtain ⟨m2, d2, d, h1, hC, _⟩ := closed_of_reach hU hI hX hD (by omega) (by omega) ord us
  obtain ⟨m', d', keys, t1, hI', hX', q1, q2, q3, q4, q5⟩ :=
    translate_open hc hc' hkind hia hpfs hbits hU hC hsl (by omega) (by omega) order
  have hU' : Univ c'.kind (digestsOf c.kind (ops ++ ops2)) := by rw [hkind]; exact hU
  obtain ⟨r1, _, _⟩ := run_ok2 hc' hU' ops2 ⟨c', m', d'⟩ _ _ _ hI' hX' ha2
    (fun op ho k hkey dig hcls =>
      mem_digestsOf (List.mem_append_right _ ho) hkey (by rw [← hkind]; exact hcls))
    (by omega) (by omega)
  rw [hkind] at r1
  exact ⟨d, m', d', keys, h1, t1, r1, q1, q2, q3, q4, q5⟩

theorem translate_refines (c : Cfg) (hc : c.Legal) (c' : Cfg) (hc' : c'.Legal) (hkind : c'.kind = c.kind)
    (hifs : c'.ifs = c.ifs) (hpfs : c.kind = .mh → c'.pfs = c.pfs) (hbits : c'.bits ≠ c.bits)
    (ops ops2 : List SOp) (ha : ∀ op ∈ ops, op.isC02 = true) (ha2 : ∀ op ∈ ops2, op.isC02 = true)
    (hk : KeysOK c.kind (ops ++ ops2)) (hs : SizesOK (ops ++ ops2)) (s0 : SState)
    (hi : initS c = some s0) (ord order : List Nat) (us : Bool) :
    ∃ d m' d' keys, closedDisk (runS s0 ops).1 ord us = some d ∧
      openStoreT c' d order = (d', .ok m', keys) ∧
      (runS ⟨c', m', d'⟩ ops2).2 =
        (specRun c.kind c'.imm (specRun c.kind c.imm [] ops).1 ops2).2 ∧
      d'.pfiles = d.pfiles ∧ d'.cidfile = d.cidfile ∧ d'.free = d.free ∧ d'.phdr = d.phdr ∧
      d'.ihdr = some ⟨c'.bits, c'.ifs, 0, hdrPfs c'⟩ :=
  translate_refines_arg c hc c' hc' hkind (Or.inr ⟨rfl, hifs⟩) hpfs hbits ops ops2 ha ha2 hk hs s0 hi
    ord order us

/-- C09, lemma level, per key: Get / Has / GetSize of any key answer after the translation exactly what
    they answered before the Close -/
theorem translate_reads (c : Cfg) (hc : c.Legal) (c' : Cfg) (hc' : c'.Legal) (hkind : c'.kind = c.kind)
    (hifs : c'.ifs = c.ifs) (hpfs : c.kind = .mh → c'.pfs = c.pfs) (hbits : c'.bits ≠ c.bits)
    (ops : List SOp) (ha : ∀ op ∈ ops, op.isC02 = true) (k : Bytes)
    (hk : KeysOK c.kind (ops ++ [.get k, .has k, .size k]))
    (hs : SizesOK (ops ++ [.get k, .has k, .size k])) (s0 : SState)
    (hi : initS c = some s0) (ord order : List Nat) (us : Bool) :
    ∃ d m' d' keys, closedDisk (runS s0 ops).1 ord us = some d ∧
      openStoreT c' d order = (d', .ok m', keys) ∧
      (runS ⟨c', m', d'⟩ [.get k, .has k, .size k]).2 =
        (runS (runS s0 ops).1 [.get k, .has k, .size k]).2 := by
  have ha2 : ∀ op ∈ [SOp.get k, .has k, .size k], op.isC02 = true := by
    intro op ho
    simp only [List.mem_cons, List.not_mem_nil, or_false] at ho
    rcases ho with rfl | rfl | rfl <;> rfl
  obtain ⟨d, m', d', keys, h1, h2, h3, _⟩ :=
    translate_refines c hc c' hc' hkind hifs hpfs hbits ops _ ha ha2 hk hs s0 hi ord order us
  refine ⟨d, m', d', keys, h1, h2, ?_⟩
  rw [h3]
  -- the old state answers from the same map
  have hU := univ_of_keysOK hk (keysExact_all c.kind (ops ++ [.get k, .has k, .size k]))
  have hlen : ops.length + 3 < 1073741824 := by
    have := hs.1; rw [List.length_append] at this; exact this
  have hsum : (ops.map SOp.bytes).sum + 0 < two31 := by
    have := hs.2.1; rw [List.map_append, List.sum_append] at this; exact this
  obtain ⟨_, hI, hX⟩ := run_ok2 hc hU ops s0 [] 0 0 (inv_init c hc _ s0 hi) (xinv_init c hc s0 hi) ha
    (fun op ho k hkey dig hcls => mem_digestsOf (List.mem_append_left _ ho) hkey hcls)
    (by omega) (by omega)
  obtain ⟨r1, _, _⟩ := run_ok2 hc hU [.get k, .has k, .size k] (runS s0 ops).1 _ _ _ hI hX ha2
    (fun op ho k hkey dig hcls => mem_digestsOf (List.mem_append_right _ ho) hkey hcls)
    (by simp only [List.length_cons, List.length_nil]; omega)
    (by simp only [List.map_cons, List.map_nil, List.sum_cons, List.sum_nil, SOp.bytes]; omega)
  rw [r1]
  rfl

end Sth.C09
