import Sth.Lemmas.C11D4

/-!
C11 P3 by induction over the rounds `[pgc l none, flush ord]` of the collector's loop.
Core Lean only.
-/

namespace Sth.C11D

open Sth.C11 Sth.C13H Sth.C13X

/-- the calls the collector's loop performs in `ords.length` rounds: a complete primary cycle with
    threshold `l`, then the flush that follows it (the order in which that flush writes the index
    buckets is the list given for the round) -/
def drainSched (l : Nat) : List (List Nat) → List SOp
  | [] => []
  | o :: os => .pgc l none :: .flush o :: drainSched l os

/-- `f` is low-use by the collector's own measure at the visit of every round of the schedule -/
def LowAlong (l f : Nat) : SState → List (List Nat) → Prop
  | _, [] => True
  | s, o :: os => LowAt s f l ∧ LowAlong l f (stepS (stepS s (.pgc l none)).1 (.flush o)).1 os

instance (l f : Nat) : ∀ (s : SState) (os : List (List Nat)), Decidable (LowAlong l f s os)
  | _, [] => isTrue trivial
  | s, o :: os =>
    have := instDecidableLowAlong l f (stepS (stepS s (.pgc l none)).1 (.flush o)).1 os
    (inferInstance : Decidable (LowAt s f l ∧
      LowAlong l f (stepS (stepS s (.pgc l none)).1 (.flush o)).1 os))

theorem runS_cons1 (s : SState) (op : SOp) (ops : List SOp) :
    (runS s (op :: ops)).1 = (runS (stepS s op).1 ops).1 := rfl

theorem lv_file {d : Disk} {f : Nat} (h : lv d f ≠ []) : ∃ file, d.pfiles.get? f = some file := by
  cases hf : d.pfiles.get? f with
  | some file => exact ⟨file, rfl⟩
  | none =>
    exfalso; apply h
    unfold lv
    rw [fileOf_none hf]
    exact congrArg (liveAt 0) spansOf_nil

section
variable {c : Cfg} {U : List (Bytes × Bytes)}

/-- the last cycle: no record span of the file is in use any more -/
theorem release_step {s : SState} (hU : Univ c.kind U) (hI : RInv c U s)
    (hc1 : gcCnt s < 268435456) (hpn : s.m.pnext = []) {f : Nat} {file : Bytes}
    (hfile : s.d.pfiles.get? f = some file) (hf : f < s.m.pfileNum) (hlen : file.length < two31)
    (hv : WillVisitD s f) (hu : inUse s f = []) (l : Nat) :
    Released (stepS s (.pgc l none)).1.d.pfiles f := by
  obtain ⟨spec, B, hG, hB⟩ := hI.ex
  obtain ⟨pf, psp, hS⟩ := hstate_of hG hI.cov
  obtain ⟨cfg, m, d⟩ := s
  have hpn : m.pnext = [] := hpn
  have hfile : d.pfiles.get? f = some file := hfile
  have hf : f < m.pfileNum := hf
  have hkind : m.kind = .mh := hG.kind
  have h1 : pf ≤ f := by
    cases Nat.lt_or_ge f pf with
    | inl h => have := hS.gs.log.gone f h; rw [hfile] at this; cases this
    | inr h => exact h
  have hlvs : lv d f = liveAt 0 (psp f) := lv_eq hS.gs h1 (by omega)
  have hfile' : file = gbytes (psp f) := by
    have := hS.gs.log.files f h1 (by omega)
    rw [hfile] at this
    exact Option.some.inj this
  have hne : ∀ x ∈ liveAt 0 (psp f), ¬IsEnt m d (spanBlk m.pmax f x) := by
    intro x hx he
    have : x ∈ inUse ⟨cfg, m, d⟩ f := by
      unfold inUse
      rw [List.mem_filter]
      exact ⟨by show x ∈ lv d f; rw [hlvs]; exact hx, decide_eq_true (mem_entryBlocks.mpr he)⟩
    rw [hu] at this
    cases this
  obtain ⟨res, hres, r1, _⟩ := pgc_releases_core hU hS.gs
    (by have : gcCnt ⟨cfg, m, d⟩ < 268435456 := hc1; omega) hpn h1 hf
    (by
      intro g g1 g2 x hx
      exact hS.cov.span g g1 (Nat.le_of_lt g2) x hx)
    hne
    (by
      intro hvis hl
      exfalso
      rcases hv with h | ⟨x, hx, _⟩
      · exact h hvis
      · have hx' : x ∈ lv d f := hx
        rw [hlvs, hl] at hx'
        cases hx')
    (by rw [← hfile']; exact hlen) l
  have hstep : (stepS ⟨cfg, m, d⟩ (.pgc l none)).1.d = res.2.2.1 := by
    simp only [stepS, hkind, hres]
  rw [hstep]
  exact r1

/-- Q3a, on a state satisfying the invariants -/
theorem drain_rounds (hc : c.Legal) (hU : Univ c.kind U) (l f : Nat) :
    ∀ (ords : List (List Nat)) (s : SState), RInv c U s →
      GcCountersOK s (drainSched l ords ++ [.pgc l none]) → s.m.pnext = [] → f < s.m.pfileNum →
      (∃ file, s.d.pfiles.get? f = some file ∧ file.length < two31) → WillVisitD s f →
      ords.length = ((inUse s f).length + 1) / 2 → LowAlong l f s ords →
      Released (runS s (drainSched l ords ++ [.pgc l none])).1.d.pfiles f := by
  intro ords
  induction ords with
  | nil =>
    intro s hI hb hpn hf ⟨file, hfile, hlen⟩ hv hn _
    have hu : inUse s f = [] := by
      apply List.length_eq_zero_iff.mp
      simp only [List.length_nil] at hn
      omega
    exact release_step hU hI hb.1 hpn hfile hf hlen hv hu l
  | cons o os ih =>
    intro s hI hb hpn hf ⟨file, hfile, hlen⟩ hv hn hlow
    have hu : inUse s f ≠ [] := by
      intro hc'
      rw [hc'] at hn
      simp only [List.length_cons, List.length_nil] at hn
      omega
    obtain ⟨hb1, hb2, hb3⟩ := hb
    obtain ⟨q1, q2, q3, q4, q5, q6, q7⟩ := round_step hc hU hI hb1 l hb2 hpn hf hv hu o hlow.1
    show Released (runS s (.pgc l none :: .flush o :: (drainSched l os ++ [.pgc l none]))).1.d.pfiles f
    rw [runS_cons1, runS_cons1]
    obtain ⟨file2, hfile2⟩ := lv_file q6
    apply ih _ q1 hb3 q2 q3 ⟨file2, hfile2, ?_⟩ q4 ?_ hlow.2
    · rw [fileOf_some hfile2, fileOf_some hfile] at q7
      omega
    · rw [q5]
      simp only [List.length_cons] at hn
      omega

end

end Sth.C11D
