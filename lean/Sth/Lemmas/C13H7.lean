import Sth.Lemmas.C13H6

/-!
C13 along GC histories, completeness: coverage through a whole primary GC cycle, complete or cut short
at any poll.  Core Lean only.
-/

namespace Sth.C13H

open Sth.C11

section
variable {c : Cfg} {U : List (Bytes × Bytes)} {cfg : Cfg} {m : Mem} {d : Disk} {spec : Spec}
  {n B pf : Nat} {psp : Nat → List GSpan}

/-- FreeList.ToGC: what is recorded stays recorded (it moves into the hand-over file) -/
theorem toGC_h (hS : HState c U cfg m d spec n B pf psp) :
    HState c U cfg (toGC m d).1 (toGC m d).2 spec n B pf psp := by
  have hG0 := toGC_g hS.gs.g
  obtain ⟨fl, fr, g, e0⟩ := toGC_shape m d
  have hrec : ∀ blk, blk ∈ recordedG ⟨cfg, m, d⟩ → blk ∈ recordedG ⟨cfg, (toGC m d).1, (toGC m d).2⟩ := by
    intro blk hb
    cases hgc : d.freeGc with
    | some x => rw [toGC_some hgc]; exact hb
    | none =>
      rw [mem_recordedG] at hb ⊢
      right; left
      show blk ∈ flGcEntries (toGC m d).2
      rw [handover_entries hS.gs.fl hgc, List.mem_append]
      rcases hb with hb | hb | hb
      · exact Or.inl hb
      · have : flGcEntries d = [] := by unfold flGcEntries; rw [hgc]; simp [parseFreeList]
        rw [this] at hb; cases hb
      · exact Or.inr hb
  rw [e0] at hG0 hrec ⊢
  simp only at hG0 hrec ⊢
  have hgs : GState c U cfg { m with flpool := fl } { d with free := fr, freeGc := g } spec n B pf psp :=
    state_with hG0 hS.gs.hdr (fun g' a b => ⟨hS.gs.log.files g' a b, hS.gs.log.ok g' a b⟩)
  refine ⟨hgs, ?_⟩
  apply hS.cov.transfer' (cfg' := cfg) (m' := { m with flpool := fl })
    (d' := { d with free := fr, freeGc := g }) (pf' := pf) (psp' := psp) rfl
  · intro g' a b x hx
    exact Or.inl ⟨a, b, hx⟩
  · intro r hr
    exact Or.inl hr
  · intro blk hc
    rcases hc with hc | hc
    · exact Or.inl hc
    · exact Or.inr (hrec blk hc)

/-- applying a batch of entries of the hand-over file keeps coverage; with the exact effect -/
theorem delFold_h (hS : HState c U cfg m d spec n B pf psp) (hn : n < 1073741824)
    (hpn : m.pnext = []) (batch : List Block)
    (hb : ∀ d' psp', GState c U cfg m d' spec n B pf psp' → d'.freeGc = d.freeGc →
      ∀ fb ∈ batch, FreeOK m d' pf psp' fb) :
    ∃ psp', HState c U cfg m { d with pfiles := (batch.foldl (delStep m.pmax) (d.pfiles, [])).1 }
        spec n B pf psp' ∧
      Kills m pf (fun b => b ∈ batch) psp psp' (batch.foldl (delStep m.pmax) (d.pfiles, [])).2 := by
  obtain ⟨psp', h1, h2, _⟩ := delFold_f hn hpn batch d psp [] hS.gs hb
  refine ⟨psp', ⟨h1, ?_⟩, h2⟩
  apply hS.cov.transfer' (cfg' := cfg) (m' := m)
    (d' := { d with pfiles := (batch.foldl (delStep m.pmax) (d.pfiles, [])).1 }) (pf' := pf)
    (psp' := psp') rfl
  · intro g a b x hx
    exact Or.inl ⟨a, b, h2.sub g x hx⟩
  · intro r hr
    exact Or.inl hr
  · intro blk hc
    rcases hc with hc | hc
    · exact Or.inl hc
    · exact Or.inr hc

/-- one hand-over pass of the primary GC, any outcome -/
theorem freelistPass_h (hU : Univ c.kind U) (hS : HState c U cfg m d spec n B pf psp)
    (hn : n < 1073741824) (budget : Budget) :
    (freelistPass m d budget).1 = .flushErr ∨
      ∃ psp', HState c U cfg (freelistPass m d budget).2.1 (freelistPass m d budget).2.2.1 spec n B
        pf psp' := by
  have hS0 := toGC_h hS
  unfold freelistPass
  cases htg : toGC m d with
  | mk m0 d0 =>
  rw [htg] at hS0
  simp only at hS0 ⊢
  obtain ⟨m1, d1, psp1, p1, hS1, hpn, _⟩ := priFlush_h hU hS0 hn
  rw [p1]
  simp only
  obtain ⟨batch, hparse, hbatch⟩ := flinv_batch hS1.gs.fl
  rw [hparse]
  simp only
  have hbe : flGcEntries d1 = batch := by unfold flGcEntries; rw [hparse]
  have hdel : ∃ psp', HState c U cfg m1
      { d1 with pfiles := (if batch.isEmpty = true then (d1.pfiles, ([] : List Nat))
        else deleteRecords m1.pmax d1.pfiles batch).1 } spec n B pf psp' ∧
      Kills m1 pf (fun b => b ∈ batch) psp1 psp'
        (if batch.isEmpty = true then (d1.pfiles, ([] : List Nat))
          else deleteRecords m1.pmax d1.pfiles batch).2 := by
    split
    · rename_i he
      have : batch = [] := List.isEmpty_iff.mp he
      subst this
      exact ⟨psp1, hS1, Kills.refl (fun _ _ _ _ _ h => by cases h)⟩
    · rw [deleteRecords_eq]
      obtain ⟨psp', h1, h2⟩ := delFold_h hS1 hn hpn (sortByOff batch) (by
        intro d' psp' hS' hgc fb hfb
        obtain ⟨batch', hp', hb'⟩ := flinv_batch hS'.fl
        rw [hgc, hparse] at hp'
        simp only [Prod.mk.injEq, and_true] at hp'
        subst hp'
        exact hb' fb (mem_sortByOff hfb))
      exact ⟨psp', h1, h2.mono (fun b => mem_sortByOff_iff)⟩
  obtain ⟨psp', hS', hK⟩ := hdel
  generalize (if List.isEmpty (d1.freeGc.getD []) = true then (false, budget)
    else freelistPass.pollN batch.length budget) = pr1
  obtain ⟨e1, b1⟩ := pr1
  generalize (if List.isEmpty (d1.freeGc.getD []) = true then (false, (e1, b1).snd)
    else poll (e1, b1).snd) = pr2
  obtain ⟨e2, b2⟩ := pr2
  generalize (if batch.isEmpty = true then (d1.pfiles, ([] : List Nat))
        else deleteRecords m1.pmax d1.pfiles batch) = dr at hS' hK ⊢
  obtain ⟨files, affected⟩ := dr
  cases e1
  · cases e2
    · simp only [Bool.not_true, Bool.false_eq_true, if_false]
      right
      -- the hand-over file is removed: its entries name no record span any more
      obtain ⟨L1, L2, f1, f2, f3⟩ := hS'.gs.fl
      have hz : ZInv { m1 with flpool := m1.flpool, visited := m1.visited }
          { ({ d1 with pfiles := files } : Disk) with freeGc := none } := by
        refine ⟨pf, psp', hS'.gs.hdr, ⟨hS'.gs.log.le, hS'.gs.log.gone, hS'.gs.log.files, hS'.gs.log.ok,
          hS'.gs.log.starts⟩, fun blk hb => hS'.gs.ent blk hb, L1, [], f1, Or.inl ⟨rfl, rfl⟩, ?_⟩
        intro fb hfb
        obtain ⟨q1, q2, q3, q4, q5⟩ := f3 fb (by
          simp only [List.mem_append, List.append_nil] at hfb ⊢
          exact Or.inl hfb)
        exact ⟨q1, q2, q3, q4, q5⟩
      have hG' := hS'.gs.g.frame_fl
        (d' := { ({ d1 with pfiles := files } : Disk) with freeGc := none })
        m1.flpool m1.visited rfl rfl rfl rfl rfl hz
      have hgs : GState c U cfg m1 { ({ d1 with pfiles := files } : Disk) with freeGc := none }
          spec n B pf psp' :=
        state_with hG' hS'.gs.hdr (fun g a b => ⟨hS'.gs.log.files g a b, hS'.gs.log.ok g a b⟩)
      refine ⟨psp', hgs, ?_⟩
      apply hS'.cov.transfer (cfg' := cfg) (m' := m1)
        (d' := { ({ d1 with pfiles := files } : Disk) with freeGc := none }) (pf' := pf)
        (psp' := psp') rfl
      · intro g a b x hx
        exact Or.inl ⟨a, b, hx⟩
      · intro r hr
        exact Or.inl hr
      · intro blk hc
        rcases hc with hc | hc
        · exact Or.inl (Or.inl hc)
        · rw [mem_recordedG] at hc
          rcases hc with hc | hc | hc
          · exact Or.inl (Or.inr (by rw [mem_recordedG]; exact Or.inl hc))
          · -- an entry of the hand-over file: applied
            right
            have hc' : blk ∈ batch := by
              have : flGcEntries ({ d1 with pfiles := files } : Disk) = flGcEntries d1 := rfl
              rw [this, hbe] at hc
              exact hc
            refine ⟨?_, fun r hr => by rw [hpn] at hr; cases hr⟩
            intro g a b x hx he
            exact hK.dead g x a b hx (by
              have he' : (⟨m1.pmax * g + x.1, x.2.length⟩ : Block) = blk := he
              rw [he']; exact hc')
          · exact Or.inl (Or.inr (by rw [mem_recordedG]; exact Or.inr (Or.inr hc)))
    · simp only [Bool.false_eq_true, if_false, if_true]
      exact Or.inr ⟨psp', hS'⟩
  · simp only [if_true]
    exact Or.inr ⟨psp1, hS1⟩

end

end Sth.C13H
