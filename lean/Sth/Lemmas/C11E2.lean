import Sth.Lemmas.C11E1

/-!
C11 P2 at loop level (Q3b): the loop of Index.gc, from a live start point, visits every file from the
header's first file up to the current one exactly once.  Core Lean only.
-/

namespace Sth.C11E

open Sth.C11

/-- what the loop does after the visit of file `n` -/
def cont (last start fuel n : Nat) (m : Mem) (h2 : IdxHeader) (d2 : Disk) (sf2 : Bool) :
    GcOut × Mem × Disk × Budget :=
  if n + 1 = last then
    if sf2 = true then (.ok, m, d2, none)
    else if h2.first = start then (.ok, m, d2, none)
    else indexGC.go last start fuel h2.first sf2 h2 m d2 none
  else if n + 1 = start then (.ok, m, d2, none)
  else indexGC.go last start fuel (n + 1) sf2 h2 m d2 none

section
variable {m : Mem} {d0 : Disk} {hb hm hp : Nat}

/-- one visit -/
theorem visit (hp1 : 1 ≤ m.imax) (hN : m.ifileNum < two32) (start fuel : Nat) (sf : Bool)
    {n : Nat} {h : IdxHeader} {d : Disk} (hG : GI m d0 d hb hm hp) (hd : d.ihdr = some h)
    (h1 : h.first ≤ n) (h2 : n < m.ifileNum) :
    ∃ h2 d2 sf2,
      indexGC.go m.ifileNum start (fuel + 1) n sf h m d none =
        cont m.ifileNum start fuel n m h2 d2 sf2 ∧
      GI m d0 d2 hb hm hp ∧ d2.ihdr = some h2 ∧
      ((h2.first = h.first ∧ sf2 = sf) ∨ (h.first = n ∧ h2.first = n + 1 ∧ sf2 = true)) ∧
      (∀ f, f ≠ n → d2.ifiles.get? f = d.ifiles.get? f) ∧
      (IdxFileFree m n → (fileOf d.ifiles n).length < two31 → Released d2.ifiles n) := by
  obtain ⟨first, sp, e1, hl⟩ := hG.log
  have hf : h.first = first := by rw [hd] at e1; cases e1; rfl
  have e1' : h = ⟨hb, hm, first, hp⟩ := by rw [hd] at e1; cases e1; rfl
  have hg : d.ifiles.get? n = some (gbytes (sp n)) := hl.files n (by omega) (by omega)
  have hok := hl.ok n (by omega) (by omega)
  obtain ⟨ss', q1, q2, q3⟩ := reapIndexRecords_ok (fnum := n) hok none
  obtain ⟨q4, q5⟩ := reapIndexRecords_none (fnum := n) hok
  have hd' : d.ihdr = some ⟨hb, hm, h.first, hp⟩ := by rw [hf]; exact e1
  obtain ⟨hG1, hl1⟩ := hG.setFile hp1 hN hd' (hf ▸ hl) (by omega) h2 q2
  rw [← q1] at hG1 hl1
  cases hres : reapIndexRecords m n (gbytes (sp n)) none with
  | mk r rest =>
  obtain ⟨file', bud⟩ := rest
  rw [hres] at hG1 hl1 q3 q4 q5 q1
  simp only at hG1 hl1 q3 q4 q5 q1
  subst q5
  have hnl : n ≠ m.ifileNum := by omega
  have hfree : IdxFileFree m n → (fileOf d.ifiles n).length < two31 → r = .stale ∧ file' = [] := by
    intro hfr hlen
    rw [fileOf_some hg] at hlen
    have := reapIndexRecords_free hfr (sp n) hok hlen
    rw [hres] at this
    cases this
    exact ⟨rfl, rfl⟩
  by_cases hcase : r = .stale ∧ h.first = n
  · obtain ⟨hr, hfn⟩ := hcase
    have hss : ss' = [] := q3 hr
    have hlt : h.first < m.ifileNum := by omega
    have hG2 := hG1.dropFile hp1 hN hl1 hlt (by
      intro f off body g1 g2 g3 g4 hc
      rw [hc, hfn] at g3
      simp only [if_true, hss, liveAt] at g3
      cases g3)
    have e2 : ({ h with first := h.first + 1 } : IdxHeader) = ⟨hb, hm, h.first + 1, hp⟩ := by
      rw [e1']
    refine ⟨⟨hb, hm, h.first + 1, hp⟩, _, true, ?_, hG2, rfl, Or.inr ⟨hfn, by simp only; omega, rfl⟩,
      ?_, ?_⟩
    · rw [indexGC.go, if_neg hnl]
      simp only [hg, hres, hr, hfn, and_self, if_true]
      rw [← hfn, ← e2]
      rfl
    · intro f hne
      show ((d.ifiles.set n file').del h.first).get? f = _
      rw [hfn, NMap.get?_del_ne _ hne, NMap.get?_set_ne _ _ hne]
    · intro _ _
      left
      show ((d.ifiles.set n file').del h.first).get? n = none
      rw [hfn]; exact NMap.get?_del_eq _ _
  · refine ⟨h, { d with ifiles := d.ifiles.set n file' }, sf, ?_, hG1, hd, Or.inl ⟨rfl, rfl⟩, ?_, ?_⟩
    · rw [indexGC.go, if_neg hnl]
      simp only [hg, hres]
      rcases q4 with hr | hr
      · subst hr
        have : ¬ h.first = n := fun hc => hcase ⟨rfl, hc⟩
        simp only [this, and_false, if_false]
        rfl
      · subst hr
        simp only [reduceCtorEq, false_and, if_false]
        rfl
    · intro f hne
      show (d.ifiles.set n file').get? f = _
      rw [NMap.get?_set_ne _ _ hne]
    · intro hfr hlen
      right
      show (d.ifiles.set n file').get? n = some []
      rw [(hfree hfr hlen).2]; exact NMap.get?_set_eq _ _ _

end

end Sth.C11E
