import Sth.Lemmas.C11B8

/-!
C11 Q3c (9): the size invariant along every history whose primary GC cycles are not cut short inside
their hand-over passes.  Core Lean only.
-/

namespace Sth.C11B

open Sth.C11 Sth.C13H Sth.C13X Sth.C11D

/-- the largest record body (key and value) put by the calls -/
def maxRec : List SOp → Nat
  | [] => 0
  | .put k v :: ops => max (k.length + v.length) (maxRec ops)
  | _ :: ops => maxRec ops

theorem maxRec_put : ∀ {ops : List SOp} {k v : Bytes}, SOp.put k v ∈ ops → k.length + v.length ≤ maxRec ops
  | [], _, _, h => by cases h
  | op :: ops, k, v, h => by
    rw [List.mem_cons] at h
    rcases h with h | h
    · subst h
      show k.length + v.length ≤ max (k.length + v.length) (maxRec ops)
      exact Nat.le_max_left _ _
    · have ih := maxRec_put h
      cases op with
      | put k' v' =>
        show k.length + v.length ≤ max (k'.length + v'.length) (maxRec ops)
        exact Nat.le_trans ih (Nat.le_max_right _ _)
      | get _ => exact ih
      | has _ => exact ih
      | size _ => exact ih
      | rm _ => exact ih
      | flush _ => exact ih
      | iter _ => exact ih
      | igc _ _ => exact ih
      | pgc _ _ => exact ih
      | reopen _ _ => exact ih

/-- the premise on the configuration and the calls: primary file limit + largest record (with its
    4-byte size word) stay within 2^31 -/
def RecBoundOK (c : Cfg) (ops : List SOp) : Prop := c.pfs + 4 + maxRec ops ≤ two31

instance (c : Cfg) (ops : List SOp) : Decidable (RecBoundOK c ops) := by
  unfold RecBoundOK; exact inferInstance

/-- what is asked of one call: a primary GC cycle is not cut short inside its hand-over passes -/
def StepFine (s : SState) : SOp → Prop
  | .pgc _ b => PassesFine s.m s.d b
  | _ => True

instance (s : SState) (op : SOp) : Decidable (StepFine s op) := by
  cases op <;> unfold StepFine <;> exact inferInstance

/-- no primary GC cycle of the history is cut short inside its hand-over passes (it may be cut short in
    the loop over the files, where the real code starts its time limit) -/
def PassesOK : SState → List SOp → Prop
  | _, [] => True
  | s, op :: ops => StepFine s op ∧ PassesOK (stepS s op).1 ops

instance : ∀ (s : SState) (ops : List SOp), Decidable (PassesOK s ops)
  | _, [] => isTrue trivial
  | s, op :: ops =>
    have := instDecidablePassesOK (stepS s op).1 ops
    (inferInstance : Decidable (StepFine s op ∧ PassesOK (stepS s op).1 ops))

section
variable {c : Cfg} {U : List (Bytes × Bytes)} {s : SState} {spec : Spec} {n B R : Nat}

/-- every step keeps the size invariant -/
theorem step_b (hc : c.Legal) (hU : Univ c.kind U) (hG : GInv c U s spec n B) (hC : CovS s)
    (hn : n < 268435456) (op : SOp)
    (hkey : ∀ k, op.keyOf = some k → ∀ dig, keyClass c.kind k = .ok dig → (k, dig) ∈ U)
    (hB : B + op.bytes < two31) (hI : BInv R s.m s.d)
    (hop : ∀ k v, op = .put k v → k.length + v.length ≤ R) (h31 : s.m.pmax + 4 + R ≤ two31)
    (hfine : StepFine s op) : BInv R (stepS s op).1.m (stepS s op).1.d := by
  obtain ⟨pf, psp, hS⟩ := hstate_of hG hC
  cases op with
  | put k v => rw [stepS_put]; exact put_b hI k v (hop k v rfl)
  | rm k => rw [stepS_rm]; exact rm_b hI k
  | get k =>
    obtain ⟨h1, _⟩ := step_read_g hU hG (.get k) (Or.inl ⟨k, rfl⟩) hkey
    rw [h1]; exact hI
  | has k =>
    obtain ⟨h1, _⟩ := step_read_g hU hG (.has k) (Or.inr (Or.inl ⟨k, rfl⟩)) hkey
    rw [h1]; exact hI
  | size k =>
    obtain ⟨h1, _⟩ := step_read_g hU hG (.size k) (Or.inr (Or.inr ⟨k, rfl⟩)) hkey
    rw [h1]; exact hI
  | flush order =>
    obtain ⟨m', d', psp', f1, _, _⟩ := flush_h hU hS (by omega) hB order
    have hR := flush_b hU hS (by omega) hB order hI f1
    have e : (stepS s (.flush order)).1 = { s with m := m', d := d' } := by simp only [stepS, f1]
    rw [e]
    exact hR
  | iter order =>
    obtain ⟨m', d', psp', f1, _, _⟩ := flush_h hU hS (by omega) hB order
    have hR := flush_b hU hS (by omega) hB order hI f1
    have e : (stepS s (.iter order)).1 = { s with m := m', d := d' } := by
      simp only [stepS, f1]
      cases storeIter m' d' <;> rfl
    rw [e]
    exact hR
  | reopen order us => exact reopen_b hc hU hS (by omega) hB order us hI
  | igc sf bud => exact igc_b hS (by omega) sf bud hI
  | pgc lowUse bud =>
    obtain ⟨cfg', m, d⟩ := s
    have hkind : m.kind = .mh := hG.kind
    have hfine' : PassesFine m d bud := hfine
    unfold stepS
    simp only [hkind]
    cases hp : primaryGC m d lowUse bud with
    | none => exact hI
    | some res => exact primaryGC_b hU hS (by omega) lowUse bud hI h31 hfine' hp

end

theorem run_b {c : Cfg} {U : List (Bytes × Bytes)} {R : Nat} (hc : c.Legal) (hU : Univ c.kind U)
    (h31 : c.pfs + 4 + R ≤ two31) :
    ∀ (ops : List SOp) (s : SState) (spec : Spec) (n B : Nat),
    GInv c U s spec n B → CovS s → BInv R s.m s.d →
    (∀ op ∈ ops, ∀ k, op.keyOf = some k → ∀ dig, keyClass c.kind k = .ok dig → (k, dig) ∈ U) →
    GcCountersOK s ops → B + (ops.map SOp.bytes).sum < two31 →
    (∀ k v, SOp.put k v ∈ ops → k.length + v.length ≤ R) → PassesOK s ops →
    BInv R (runS s ops).1.m (runS s ops).1.d
  | [], _, _, _, _, _, _, hI, _, _, _, _, _ => hI
  | op :: ops, s, spec, n, B, hG, hC, hI, hk, hb, hB, hop, hp => by
    simp only [List.map_cons, List.sum_cons] at hB
    obtain ⟨hb1, hb2⟩ := hb
    obtain ⟨hp1, hp2⟩ := hp
    have hpm : s.m.pmax = c.pfs := by
      have := hG.y.pmax
      unfold hdrPfs at this
      rw [hG.kmh] at this
      exact this
    have hC' : CovS (stepS s op).1 :=
      step_cov hc hU hG.tight hC hb1 op (hk op (by simp)) (by omega)
    have hI' := step_b hc hU hG.tight hC hb1 op (hk op (by simp)) (by omega) hI
      (fun k v e => hop k v (by rw [e]; simp)) (by rw [hpm]; exact h31) hp1
    obtain ⟨_, n1, h2, _⟩ := step_g hc hU hG.tight hb1 op (hk op (by simp)) (by omega)
    rw [runS_cons1]
    exact run_b hc hU h31 ops (stepS s op).1 (specStep c.kind c.imm spec op).1 n1 (B + op.bytes) h2 hC'
      hI' (fun o ho => hk o (by simp [ho])) hb2 (by omega)
      (fun k v h => hop k v (by simp [h])) hp2

theorem binv_empty {R : Nat} {m : Mem} {d : Disk} (hp : m.pnext = []) (hv : m.visited = [])
    (hf : ∀ g, fileOf d.pfiles g = []) : BInv R m d := by
  refine ⟨(by rw [hp]; intro r hr; cases hr), ?_, ?_, (by rw [hv]; intro f h; cases h)⟩
  · intro g x hx
    rw [lv_nil_of_file (hf g)] at hx; cases hx
  · intro g
    rw [hf g]
    show 0 < m.pmax + 4 + R
    omega

/-- the fresh store -/
theorem binv_init (c : Cfg) (hc : c.Legal) (hk : c.kind = .mh) {s : SState} (hi : initS c = some s)
    (R : Nat) : BInv R s.m s.d := by
  rw [initS_mh c hc hk] at hi
  cases hi
  apply binv_empty rfl rfl
  intro g
  show fileOf ([(0, ([] : Bytes))] : NMap Bytes) g = []
  unfold fileOf
  by_cases hg : g = 0
  · subst hg; rfl
  · have : NMap.get? ([(0, ([] : Bytes))] : NMap Bytes) g = none := by
      simp [NMap.get?, Ne.symm hg]
    rw [this]; rfl

/-- the size invariant in every reachable state -/
theorem binv_reachable (c : Cfg) (hc : c.Legal) (hmh : c.kind = .mh) (ops : List SOp)
    (hk : KeysOK c.kind ops) (hs : SizesOK ops) (s0 : SState) (hi : initS c = some s0)
    (hb : GcCountersOK s0 ops) (hrec : RecBoundOK c ops) (hp : PassesOK s0 ops) :
    BInv (maxRec ops) (runS s0 ops).1.m (runS s0 ops).1.d := by
  have hU := univ_of_keysOK hk (keysExact_all c.kind ops)
  exact run_b hc hU hrec ops s0 [] 0 0 (ginv_init hc hmh hi) (covS_init c hc hmh hi)
    (binv_init c hc hmh hi _) (fun op ho k hkey dig hcls => mem_digestsOf ho hkey hcls) hb
    (by have := hs.2.1; omega) (fun k v h => maxRec_put h) hp

end Sth.C11B
