/-
C04 — the primary GC on the GC invariant: changes of the primary files, applying the freelist
(deleteRecords), reaping files with relocation, the two hand-over passes and the file loop.
Core Lean only.
-/
import Sth.Lemmas.C04Reloc

namespace Sth

section
variable {c : Cfg} {U : List (Bytes × Bytes)} {cfg : Cfg} {m : Mem} {d d' : Disk} {spec : Spec}
  {n B : Nat} {pf pf' : Nat} {psp psp' : Nat → List GSpan}

/-- a change of the primary files (and the primary header) on the GC invariant -/
theorem ginv_disk_step (hG : GInv c U ⟨cfg, m, d⟩ spec n B) (hn : n < 1073741824)
    (zl : PriLog m d pf psp) (ze : EntOK m d pf psp) (zf : FlInv m d pf psp)
    (h1 : d'.ifiles = d.ifiles) (h2 : d'.ihdr = d.ihdr) (h3 : d'.free = d.free)
    (h4 : d'.freeGc = d.freeGc)
    (zh' : d'.phdr = some ⟨m.pmax, pf'⟩) (hl' : PriLog m d' pf' psp')
    (hkeep : ∀ blk body, IsEnt m d blk → OnDisk m pf psp blk body → OnDisk m pf' psp' blk body)
    (hloc : ∀ fb, FreeOK m d pf psp fb → FreeLoc m pf' psp' fb)
    (hplen : (fileOf d'.pfiles m.pfileNum).length = m.plength)
    (hpno : ∀ f, m.pfileNum < f → d'.pfiles.get? f = none) :
    GInv c U ⟨cfg, m, d'⟩ spec n B ∧ EntOK m d' pf' psp' ∧ FlInv m d' pf' psp' := by
  have hk : m.kind = .mh := hG.kind
  have h32 : m.precFileNum < two32 := by
    have : m.precFileNum ≤ n := hG.cntF
    unfold two32; omega
  have hle : m.pfileNum ≤ m.precFileNum := GInv.pfile_le (s := ⟨cfg, m, d⟩) hG
  obtain ⟨z1, z2, z3⟩ := zinv_disk_step hk hG.pmax1 h32 hle zl ze zf
    (fun blk hb => ent_below (m := m) (d := d) hG.a hb) hl' h1 h3 h4 hkeep hloc
  have hidx : ∀ b, idxRecords m d' b = idxRecords m d b := by
    intro b; unfold idxRecords; rw [h1]
  refine ⟨?_, z1, z2⟩
  have hpfs : m.pmax = c.pfs := by
    have h5 : m.pmax = hdrPfs c := hG.y.pmax
    rw [h5]; unfold hdrPfs; simp only [hG.kmh]
  refine { kmh := hG.kmh, kind := hk, imm := hG.imm, bits8 := hG.bits8, bits31 := hG.bits31,
           a := SInv.of_ent (m := m) (d := d) hG.a rfl rfl hidx z3 (fun _ h => h),
           pmax1 := hG.pmax1, pmaxle := hG.pmaxle, recs := hG.recs, nextBelow := hG.nextBelow,
           alloc := hG.alloc, plen := hplen, pno := hpno,
           i := IInv.frame2 (m := m) (d := d) hG.i h1 rfl rfl rfl rfl rfl,
           cntF := hG.cntF, cntI := hG.cntI, nodup := hG.nodup, w := hG.w, y := ?_,
           z := ⟨pf', psp', zh', hl', z1, z2⟩ }
  obtain ⟨first, sp, e1, e2⟩ := hG.y.ilog
  refine ⟨hG.y.cfg, hG.y.bits, hG.y.imax, hG.y.pmax,
    ⟨first, sp, by show d'.ihdr = _; rw [h2]; exact e1, IdxLog.frame (m := m) (d := d) e2 h1 rfl rfl rfl rfl⟩,
    ?_, hG.y.inextLt⟩
  intro _
  refine ⟨pf', by show d'.phdr = _; rw [zh', hpfs], hl'.le, ?_⟩
  intro f g1 g2
  show d'.pfiles.get? f ≠ none
  rw [hl'.files f g1 g2]; simp

end

end Sth

namespace Sth

/-! ### the freelist files -/

theorem blockBytes_length (b : Block) : (blockBytes b).length = 12 := by
  unfold blockBytes le64 le32; simp [leEnc_length]

theorem parseFreeList_ok : ∀ (L : List Block) (fuel : Nat) (acc : List Block),
    (∀ fb ∈ L, fb.off < two64 ∧ fb.size < two32) → L.length < fuel →
    parseFreeList fuel (L.flatMap blockBytes) acc = (acc.reverse ++ L, true)
  | [], fuel, acc, _, hf => by
    obtain ⟨f, rfl⟩ : ∃ f, fuel = f + 1 := ⟨fuel - 1, by simp at hf; omega⟩
    simp [parseFreeList]
  | fb :: L, fuel, acc, hw, hf => by
    obtain ⟨f, rfl⟩ : ∃ f, fuel = f + 1 := ⟨fuel - 1, by simp at hf; omega⟩
    have h8 : (le64 fb.off).length = 8 := leEnc_length 8 _
    have h4 : (le32 fb.size).length = 4 := leEnc_length 4 _
    have hdata : (fb :: L).flatMap blockBytes = le64 fb.off ++ (le32 fb.size ++ L.flatMap blockBytes) := by
      simp [blockBytes, List.append_assoc]
    have hne : ((fb :: L).flatMap blockBytes).isEmpty = false := by
      rw [hdata]
      cases h : le64 fb.off with
      | nil => rw [h] at h8; simp at h8
      | cons _ _ => rfl
    have hlen : ¬ ((fb :: L).flatMap blockBytes).length < 12 := by
      rw [hdata, List.length_append, List.length_append, h8, h4]; omega
    have hw0 := hw fb (by simp)
    have e1 : leDec (((fb :: L).flatMap blockBytes).take 8) = fb.off := by
      rw [hdata, List.take_left' h8]
      exact leDec_leEnc 8 _ (by have := hw0.1; unfold two64 at this; omega)
    have e2 : leDec ((((fb :: L).flatMap blockBytes).drop 8).take 4) = fb.size := by
      rw [hdata, List.drop_left' h8, List.take_left' h4]
      exact leDec_leEnc 4 _ (by have := hw0.2; unfold two32 at this; omega)
    have e3 : ((fb :: L).flatMap blockBytes).drop 12 = L.flatMap blockBytes := by
      rw [hdata]
      have : le64 fb.off ++ (le32 fb.size ++ L.flatMap blockBytes) =
          (le64 fb.off ++ le32 fb.size) ++ L.flatMap blockBytes := by simp
      rw [this, List.drop_left' (by simp [h8, h4])]
    rw [parseFreeList]
    simp only [hne, Bool.false_eq_true, if_false, hlen, e1, e2, e3]
    rw [parseFreeList_ok L f _ (fun x hx => hw x (by simp [hx])) (by simp at hf; omega)]
    simp

theorem mem_insertByOff {b x : Block} : ∀ {l : List Block}, x ∈ insertByOff b l → x = b ∨ x ∈ l
  | [], h => by simp [insertByOff] at h; exact Or.inl h
  | y :: ys, h => by
    unfold insertByOff at h
    split at h
    · simp only [List.mem_cons] at h ⊢
      exact h
    · simp only [List.mem_cons] at h ⊢
      rcases h with h | h
      · exact Or.inr (Or.inl h)
      · rcases mem_insertByOff h with h' | h'
        · exact Or.inl h'
        · exact Or.inr (Or.inr h')

theorem mem_sortByOff {x : Block} {l : List Block} (h : x ∈ sortByOff l) : x ∈ l := by
  unfold sortByOff at h
  have : ∀ (l acc : List Block), x ∈ l.foldl (fun acc b => insertByOff b acc) acc → x ∈ l ∨ x ∈ acc := by
    intro l
    induction l with
    | nil => intro acc h; exact Or.inr h
    | cons y ys ih =>
      intro acc h
      rw [List.foldl_cons] at h
      rcases ih _ h with h' | h'
      · exact Or.inl (by simp [h'])
      · rcases mem_insertByOff h' with h'' | h''
        · exact Or.inl (by simp [h''])
        · exact Or.inr h''
  rcases this l [] h with h' | h'
  · exact h'
  · cases h'

/-- the entries of the hand-over file are all safe to apply, and the file parses completely -/
theorem flinv_batch {m : Mem} {d : Disk} {pf : Nat} {psp : Nat → List GSpan}
    (zf : FlInv m d pf psp) :
    ∃ batch, parseFreeList ((d.freeGc.getD []).length + 1) (d.freeGc.getD []) [] = (batch, true) ∧
      ∀ fb ∈ batch, FreeOK m d pf psp fb := by
  obtain ⟨L1, L2, f1, f2, f3⟩ := zf
  have hw : ∀ fb ∈ L2, fb.off < two64 ∧ fb.size < two32 := by
    intro fb hfb
    obtain ⟨_, _, _, q4, q5⟩ := f3 fb (by simp [hfb])
    exact ⟨q4, q5⟩
  refine ⟨L2, ?_, fun fb hfb => f3 fb (by simp [hfb])⟩
  rcases f2 with ⟨g1, g2⟩ | g1
  · subst g2
    rw [g1]
    simp [parseFreeList]
  · rw [g1]
    simp only [Option.getD_some]
    have := parseFreeList_ok L2 ((L2.flatMap blockBytes).length + 1) [] hw (by
      have : ∀ (L : List Block), L.length ≤ (L.flatMap blockBytes).length := by
        intro L
        induction L with
        | nil => simp
        | cons x xs ih =>
          rw [List.flatMap_cons, List.length_append, blockBytes_length, List.length_cons]; omega
      have := this L2
      omega)
    simpa using this

end Sth

namespace Sth

/-- the state inside a primary GC cycle -/
structure GState (c : Cfg) (U : List (Bytes × Bytes)) (cfg : Cfg) (m : Mem) (d : Disk) (spec : Spec)
    (n B : Nat) (pf : Nat) (psp : Nat → List GSpan) : Prop where
  g : GInv c U ⟨cfg, m, d⟩ spec n B
  hdr : d.phdr = some ⟨m.pmax, pf⟩
  log : PriLog m d pf psp
  ent : EntOK m d pf psp
  fl : FlInv m d pf psp

theorem GInv.state {c : Cfg} {U : List (Bytes × Bytes)} {cfg : Cfg} {m : Mem} {d : Disk} {spec : Spec}
    {n B : Nat} (h : GInv c U ⟨cfg, m, d⟩ spec n B) : ∃ pf psp, GState c U cfg m d spec n B pf psp := by
  obtain ⟨pf, psp, z1, z2, z3, z4⟩ := h.z
  exact ⟨pf, psp, h, z1, z2, z3, z4⟩

theorem setDeleted_length (file : Bytes) (lp n : Nat) (h : lp + 4 ≤ file.length) :
    (setDeleted file lp n).length = file.length := by
  unfold setDeleted writeAt le32
  simp [leEnc_length]
  omega

/-- the body of the fold in `deleteRecords` -/
def delStep (pmax : Nat) (acc : NMap Bytes × List Nat) (fr : Block) : NMap Bytes × List Nat :=
  let (files, aff) := acc
  let (lp, f) := localizePri pmax fr.off
  match files.get? f with
  | none => acc
  | some file =>
    if lp > file.length then acc else
    match readU32 file lp with
    | none => acc
    | some raw =>
      if raw ≥ two31 then acc
      else if raw ≠ fr.size then acc
      else (files.set f (setDeleted file lp raw), if aff.contains f then aff else aff ++ [f])

theorem deleteRecords_eq (pmax : Nat) (files : NMap Bytes) (batch : List Block) :
    deleteRecords pmax files batch = (sortByOff batch).foldl (delStep pmax) (files, []) := rfl

section
variable {c : Cfg} {U : List (Bytes × Bytes)} {cfg : Cfg} {m : Mem} {d : Disk} {spec : Spec}
  {n B : Nat} {pf : Nat} {psp : Nat → List GSpan}

/-- applying one freelist entry -/
theorem delStep_g (hS : GState c U cfg m d spec n B pf psp) (hn : n < 1073741824)
    (hpn : m.pnext = []) {fb : Block} (hfb : FreeOK m d pf psp fb) (aff : List Nat) :
    ∃ psp', GState c U cfg m { d with pfiles := (delStep m.pmax (d.pfiles, aff) fb).1 } spec n B pf psp' := by
  have hG := hS.g
  have hk : m.kind = .mh := hG.kind
  have hp : 1 ≤ m.pmax := hG.pmax1
  obtain ⟨q1, q2, q3, q4, q5⟩ := hfb
  have hsame : ∃ psp', GState c U cfg m { d with pfiles := d.pfiles } spec n B pf psp' :=
    ⟨psp, hS⟩
  rcases q3 with ⟨r, hr, _⟩ | ⟨f, lp, e1, e2, q⟩
  · rw [hpn] at hr; cases hr
  · have hf32 : f < two32 := by
      unfold Below at q1
      simp only [hk] at q1
      obtain ⟨f', lp', x1, x2, x3⟩ := q1
      obtain ⟨rfl, rfl⟩ := divmod_unique (by rw [← e1, ← x1]) e2 x2
      have : m.precFileNum ≤ n := hG.cntF
      unfold two32
      rcases x3 with x3 | ⟨x3, _⟩ <;> omega
    have hloc : localizePri m.pmax fb.off = (lp, f) := by rw [e1]; exact localizePri_eq hp e2 hf32
    unfold delStep
    simp only [hloc]
    rcases q with q | ⟨g1, g2, q⟩
    · -- the file has been unlinked
      rw [hS.log.gone f q]
      exact hsame
    · have hfile := hS.log.files f g1 g2
      rw [hfile]
      simp only
      by_cases hgt : lp > (gbytes (psp f)).length
      · rw [if_pos hgt]; exact hsame
      · rw [if_neg hgt]
        rcases q with ⟨k1, k2⟩ | ⟨body, k⟩ | k
        · -- beyond the end of a closed file
          have : lp = (gbytes (psp f)).length := by omega
          rw [this, readU32_end]
          exact hsame
        · -- a record span: marked deleted if the size matches
          have hblen : body.length < two31 := hS.log.ok f g1 g2 ⟨false, body⟩ (by
            obtain ⟨a, b, e, _⟩ := liveAt_split (psp f) 0 lp body k
            rw [e]; simp)
          rw [(span_reads k hblen).1]
          simp only
          rw [if_neg (by omega)]
          by_cases hsz : body.length ≠ fb.size
          · rw [if_pos hsz]; exact hsame
          · rw [if_neg hsz]
            simp only
            obtain ⟨psp', s1, s2, s3, s4⟩ := kill_step hS.log g1 g2 k
              (fun blk hb => by rw [← e1]; exact q2 blk hb)
            rw [s1]
            refine ⟨psp', ?_⟩
            have hb4 := (liveAt_bound k).2
            obtain ⟨x1, x2, x3⟩ := ginv_disk_step (d' := { d with pfiles := d.pfiles.set f (gbytes (psp' f)) })
              hG hn hS.log hS.ent hS.fl rfl rfl rfl rfl hS.hdr s2 s3
              (fun fb' hfb' => s4 fb' hfb'.2.2.1)
              (by
                show (fileOf (d.pfiles.set f (gbytes (psp' f))) m.pfileNum).length = m.plength
                by_cases hff : m.pfileNum = f
                · subst hff
                  rw [fileOf_some (NMap.get?_set_eq _ _ _), ← s1, setDeleted_length _ _ _ (by omega)]
                  have hpl : (fileOf d.pfiles m.pfileNum).length = m.plength := hG.plen
                  rw [fileOf_some hfile] at hpl
                  exact hpl
                · have : fileOf (d.pfiles.set f (gbytes (psp' f))) m.pfileNum = fileOf d.pfiles m.pfileNum := by
                    unfold fileOf; rw [NMap.get?_set_ne _ _ hff]
                  rw [this]; exact hG.plen)
              (by
                intro f' hf'
                show (d.pfiles.set f (gbytes (psp' f))).get? f' = none
                rw [NMap.get?_set_ne _ _ (by omega)]
                exact hG.pno f' hf')
            exact ⟨x1, hS.hdr, s2, x2, x3⟩
        · -- a word with the deleted bit
          obtain ⟨raw, r1, r2⟩ := k.read
          rw [r1]
          simp only
          rw [if_pos r2]
          exact hsame

/-- applying a batch of freelist entries -/
theorem delFold_g (hn : n < 1073741824) (hpn : m.pnext = []) :
    ∀ (batch : List Block) (d : Disk) (psp : Nat → List GSpan) (aff : List Nat),
      GState c U cfg m d spec n B pf psp →
      (∀ d' psp', GState c U cfg m d' spec n B pf psp' → d'.freeGc = d.freeGc →
        ∀ fb ∈ batch, FreeOK m d' pf psp' fb) →
      ∃ psp', GState c U cfg m { d with pfiles := (batch.foldl (delStep m.pmax) (d.pfiles, aff)).1 }
        spec n B pf psp'
  | [], d, psp, aff, hS, _ => ⟨psp, hS⟩
  | fb :: batch, d, psp, aff, hS, hb => by
    obtain ⟨psp1, h1⟩ := delStep_g hS hn hpn (hb d psp hS rfl fb (by simp)) aff
    rw [List.foldl_cons]
    have := delFold_g hn hpn batch { d with pfiles := (delStep m.pmax (d.pfiles, aff) fb).1 } psp1
      (delStep m.pmax (d.pfiles, aff) fb).2 h1
      (fun d' psp' hS' hgc fb' hfb' => hb d' psp' hS' hgc fb' (by simp [hfb']))
    exact this

end

end Sth

namespace Sth

section
variable {c : Cfg} {U : List (Bytes × Bytes)} {cfg : Cfg} {m : Mem} {d : Disk} {spec : Spec}
  {n B : Nat}

/-- changes of the freelist pool, the freelist files, the snapshot and the visited set -/
theorem GInv.frame_fl (h : GInv c U ⟨cfg, m, d⟩ spec n B) (fl : List Block) (vis : List Nat)
    {d' : Disk}
    (h1 : d'.ihdr = d.ihdr) (h2 : d'.ifiles = d.ifiles) (h3 : d'.phdr = d.phdr)
    (h4 : d'.pfiles = d.pfiles) (h5 : d'.cidfile = d.cidfile)
    (hz : ZInv { m with flpool := fl, visited := vis } d') :
    GInv c U ⟨cfg, { m with flpool := fl, visited := vis }, d'⟩ spec n B := by
  have hidx : ∀ b, idxRecords { m with flpool := fl, visited := vis } d' b = idxRecords m d b := by
    intro b; unfold idxRecords; rw [h2]
  have hpg : ∀ blk, priGet { m with flpool := fl, visited := vis } d' blk = priGet m d blk := by
    intro blk
    have : priGet { m with flpool := fl, visited := vis } d' blk = priGet m d' blk := rfl
    rw [this, priGet_congr_disk h4 h5]
  refine { kmh := h.kmh, kind := h.kind, imm := h.imm, bits8 := h.bits8, bits31 := h.bits31,
           a := SInv.of_ent (m := m) (d := d) h.a rfl rfl hidx
             (fun blk _ k v hg => by rw [hpg]; exact hg) (fun _ hb => hb),
           pmax1 := h.pmax1, pmaxle := h.pmaxle, recs := h.recs, nextBelow := h.nextBelow,
           alloc := h.alloc, plen := by show (fileOf d'.pfiles m.pfileNum).length = _; rw [h4]; exact h.plen,
           pno := fun f hf => by show d'.pfiles.get? f = none; rw [h4]; exact h.pno f hf,
           i := IInv.frame2 (m := m) (d := d) h.i h2 rfl rfl rfl rfl rfl,
           cntF := h.cntF, cntI := h.cntI, nodup := h.nodup, w := h.w, y := ?_, z := hz }
  obtain ⟨first, sp, e1, e2⟩ := h.y.ilog
  refine ⟨h.y.cfg, h.y.bits, h.y.imax, h.y.pmax,
    ⟨first, sp, by show d'.ihdr = _; rw [h1]; exact e1, IdxLog.frame (m := m) (d := d) e2 h2 rfl rfl rfl rfl⟩,
    ?_, h.y.inextLt⟩
  intro hk
  obtain ⟨pf, q1, q2, q3⟩ := h.y.phdr hk
  exact ⟨pf, by show d'.phdr = _; rw [h3]; exact q1, q2,
    fun f g1 g2 => by show d'.pfiles.get? f ≠ none; rw [h4]; exact q3 f g1 g2⟩

/-- FreeList.ToGC -/
theorem toGC_g (hG : GInv c U ⟨cfg, m, d⟩ spec n B) :
    GInv c U ⟨cfg, (toGC m d).1, (toGC m d).2⟩ spec n B := by
  unfold toGC
  cases hgc : d.freeGc with
  | some x => exact hG
  | none =>
    simp only
    obtain ⟨pf, psp, zh, zl, ze, zf⟩ := hG.z
    obtain ⟨L1, L2, f1, f2, f3⟩ := zf
    have hL2 : L2 = [] := by
      rcases f2 with ⟨_, g⟩ | g
      · exact g
      · have g' : d.freeGc = some (L2.flatMap blockBytes) := g
        rw [hgc] at g'; cases g'
    subst hL2
    -- what flFlush leaves
    have hfl : ∃ fr, flFlush m d = ({ m with flpool := [] }, { d with free := some fr }) ∧
        fr = (L1 ++ m.flpool).flatMap blockBytes := by
      unfold flFlush
      split
      · rename_i he
        have hnil : m.flpool = [] := List.isEmpty_iff.mp he
        refine ⟨L1.flatMap blockBytes, ?_, by rw [hnil]; simp⟩
        have f1' : d.free = some (L1.flatMap blockBytes) := f1
        cases m; cases d; simp_all
      · refine ⟨_, rfl, ?_⟩
        have f1' : d.free = some (L1.flatMap blockBytes) := f1
        rw [f1']
        simp [List.flatMap_append]
    obtain ⟨fr, e1, e2⟩ := hfl
    rw [e1]
    simp only
    have hz : ZInv { m with flpool := [], visited := m.visited }
        { d with free := some [], freeGc := some fr } := by
      refine ⟨pf, psp, zh, ⟨zl.le, zl.gone, zl.files, zl.ok, zl.starts⟩, fun blk hb => ze blk hb,
        [], L1 ++ m.flpool, rfl, Or.inr (by rw [e2]), ?_⟩
      intro fb hfb
      have : fb ∈ m.flpool ++ L1 ++ [] := by
        simp only [List.mem_append, List.nil_append, List.append_nil] at hfb ⊢
        rcases hfb with h | h
        · exact Or.inr h
        · exact Or.inl h
      obtain ⟨q1, q2, q3, q4, q5⟩ := f3 fb this
      exact ⟨q1, q2, q3, q4, q5⟩
    have := hG.frame_fl (d' := { d with free := some [], freeGc := some fr }) [] m.visited rfl rfl rfl
      rfl rfl hz
    exact this

/-- one hand-over pass of the primary GC -/
theorem freelistPass_g (hU : Univ c.kind U) (hG : GInv c U ⟨cfg, m, d⟩ spec n B)
    (hn : n < 1073741824) (budget : Budget) :
    (freelistPass m d budget).1 = .flushErr ∨
      GInv c U ⟨cfg, (freelistPass m d budget).2.1, (freelistPass m d budget).2.2.1⟩ spec n B := by
  have hG0 := toGC_g hG
  unfold freelistPass
  cases htg : toGC m d with
  | mk m0 d0 =>
  rw [htg] at hG0
  simp only at hG0 ⊢
  obtain ⟨m1, d1, p1, hG1, hpn, _⟩ := priFlush_g (s := ⟨cfg, m0, d0⟩) hU hG0 hn
  rw [p1]
  simp only
  obtain ⟨pf, psp, hS⟩ := hG1.state
  obtain ⟨batch, hparse, hbatch⟩ := flinv_batch hS.fl
  rw [hparse]
  simp only
  have hdel : ∃ psp', GState c U cfg m1
      { d1 with pfiles := (if batch.isEmpty = true then (d1.pfiles, ([] : List Nat))
        else deleteRecords m1.pmax d1.pfiles batch).1 } spec n B pf psp' := by
    split
    · exact ⟨psp, hS⟩
    · rw [deleteRecords_eq]
      apply delFold_g hn hpn (sortByOff batch) d1 psp [] hS
      intro d' psp' hS' hgc fb hfb
      obtain ⟨batch', hp', hb'⟩ := flinv_batch hS'.fl
      rw [hgc, hparse] at hp'
      simp only [Prod.mk.injEq, and_true] at hp'
      subst hp'
      exact hb' fb (mem_sortByOff hfb)
  obtain ⟨psp', hS'⟩ := hdel
  generalize (if List.isEmpty (d1.freeGc.getD []) = true then (false, budget)
    else freelistPass.pollN batch.length budget) = pr1
  obtain ⟨e1, b1⟩ := pr1
  generalize (if List.isEmpty (d1.freeGc.getD []) = true then (false, (e1, b1).snd)
    else poll (e1, b1).snd) = pr2
  obtain ⟨e2, b2⟩ := pr2
  generalize (if batch.isEmpty = true then (d1.pfiles, ([] : List Nat))
        else deleteRecords m1.pmax d1.pfiles batch) = dr at hS' ⊢
  obtain ⟨files, affected⟩ := dr
  cases e1
  · cases e2
    · simp only [Bool.not_true, Bool.false_eq_true, if_false]
      right
      obtain ⟨L1, L2, f1, f2, f3⟩ := hS'.fl
      have hz : ZInv { m1 with flpool := m1.flpool, visited := m1.visited }
          { ({ d1 with pfiles := files } : Disk) with freeGc := none } := by
        refine ⟨pf, psp', hS'.hdr, ⟨hS'.log.le, hS'.log.gone, hS'.log.files, hS'.log.ok,
          hS'.log.starts⟩, fun blk hb => hS'.ent blk hb, L1, [], f1, Or.inl ⟨rfl, rfl⟩, ?_⟩
        intro fb hfb
        obtain ⟨q1, q2, q3, q4, q5⟩ := f3 fb (by
          simp only [List.mem_append, List.append_nil] at hfb ⊢
          exact Or.inl hfb)
        exact ⟨q1, q2, q3, q4, q5⟩
      exact hS'.g.frame_fl (d' := { ({ d1 with pfiles := files } : Disk) with freeGc := none })
        m1.flpool m1.visited rfl rfl rfl rfl rfl hz
    · simp only [Bool.false_eq_true, if_false, if_true]
      exact Or.inr hS'.g
  · simp only [if_true]
    exact Or.inr hG1

end

end Sth
