/-
Byte codec round trip for record lists (helper lemmas for C08).
Core Lean only.
-/
import Sth.Model.RecordList

namespace Sth

theorem leEnc_length : ∀ w n, (leEnc w n).length = w
  | 0, _ => rfl
  | w + 1, n => by simp [leEnc, leEnc_length w]

theorem leDec_leEnc : ∀ w n, n < 256 ^ w → leDec (leEnc w n) = n
  | 0, n => by simp [leEnc, leDec]; omega
  | w + 1, n => by
    intro h
    have h' : n / 256 < 256 ^ w := by
      apply Nat.div_lt_of_lt_mul
      rw [Nat.pow_succ] at h; omega
    simp only [leEnc, leDec, leDec_leEnc w _ h']
    omega

/-- positions of the fields of one encoded record followed by arbitrary bytes -/
theorem layout (A B : Bytes) (c : Nat) (P rest : Bytes) (hA : A.length = 8) (hB : B.length = 4) :
    ((A ++ (B ++ (c :: (P ++ rest)))).drop 0).take 8 = A ∧
    ((A ++ (B ++ (c :: (P ++ rest)))).drop 8).take 4 = B ∧
    (A ++ (B ++ (c :: (P ++ rest))))[12]? = some c ∧
    ((A ++ (B ++ (c :: (P ++ rest)))).drop 13).take P.length = P ∧
    (A ++ (B ++ (c :: (P ++ rest)))).drop (13 + P.length) = rest := by
  have e : A ++ (B ++ (c :: (P ++ rest))) = (A ++ B ++ [c]) ++ (P ++ rest) := by simp
  have hl : (A ++ B ++ [c]).length = 13 := by simp [hA, hB]
  refine ⟨?_, ?_, ?_, ?_, ?_⟩
  · simp [hA]
  · simp [hA, hB]
  · simp [List.getElem?_append, hA, hB]
  · rw [e, List.drop_left' hl, List.take_left' rfl]
  · rw [e, ← List.drop_drop, List.drop_left' hl, List.drop_left' rfl]

theorem encodeEntry_eq (e : Entry) (rest : Bytes) :
    encodeEntry e ++ rest =
      le64 e.blk.off ++ (le32 e.blk.size ++ ((e.pfx.length % 256) :: (e.pfx ++ rest))) := by
  simp [encodeEntry]

theorem encodeEntry_length (e : Entry) : (encodeEntry e).length = 13 + e.pfx.length := by
  simp [encodeEntry, le64, le32, leEnc_length]; omega

theorem decode_step (fuel : Nat) (e : Entry) (rest : Bytes) (acc : RecordList)
    (h1 : e.pfx.length < 256) (h2 : e.blk.off < two64) (h3 : e.blk.size < two32) :
    decodeRLAux (fuel + 1) (encodeEntry e ++ rest) acc = decodeRLAux fuel rest (e :: acc) := by
  have hA : (le64 e.blk.off).length = 8 := leEnc_length 8 _
  have hB : (le32 e.blk.size).length = 4 := leEnc_length 4 _
  obtain ⟨l1, l2, l3, l4, l5⟩ :=
    layout (le64 e.blk.off) (le32 e.blk.size) (e.pfx.length % 256) e.pfx rest hA hB
  rw [← encodeEntry_eq] at l1 l2 l3 l4 l5
  have hne : (encodeEntry e ++ rest).isEmpty = false := by
    have := encodeEntry_length e
    cases h : encodeEntry e ++ rest with
    | nil => simp at h; rw [h.1] at this; simp at this; omega
    | cons _ _ => rfl
  have r1 : readLE 8 (encodeEntry e ++ rest) 0 = some e.blk.off := by
    unfold readLE
    simp only [l1, hA, if_true]
    rw [le64, leDec_leEnc 8 _ h2]
  have r2 : readLE 4 (encodeEntry e ++ rest) 8 = some e.blk.size := by
    unfold readLE
    simp only [l2, hB, if_true]
    rw [le32, leDec_leEnc 4 _ h3]
  have hm : e.pfx.length % 256 = e.pfx.length := Nat.mod_eq_of_lt h1
  rw [hm] at l3
  rw [decodeRLAux]
  simp only [hne, r1, r2, l3, l4, l5, if_true, Bool.false_eq_true, if_false]

theorem encodeRL_cons (e : Entry) (rl : RecordList) :
    encodeRL (e :: rl) = encodeEntry e ++ encodeRL rl := by
  simp [encodeRL]

theorem encodeRL_length_ge : ∀ rl : RecordList, rl.length ≤ (encodeRL rl).length
  | [] => by simp [encodeRL]
  | e :: rl => by
    have := encodeRL_length_ge rl
    have := encodeEntry_length e
    rw [encodeRL_cons]; simp; omega

theorem decodeAux_encode : ∀ (rl : RecordList) (fuel : Nat) (acc : RecordList),
    (∀ e ∈ rl, e.pfx.length < 256 ∧ e.blk.off < two64 ∧ e.blk.size < two32) →
    rl.length < fuel → decodeRLAux fuel (encodeRL rl) acc = (acc.reverse ++ rl, true)
  | [], fuel, acc => by
    intro _ hf
    obtain ⟨f, rfl⟩ : ∃ f, fuel = f + 1 := ⟨fuel - 1, by simp at hf; omega⟩
    simp [decodeRLAux, encodeRL]
  | e :: rl, fuel, acc => by
    intro h hf
    obtain ⟨f, rfl⟩ : ∃ f, fuel = f + 1 := ⟨fuel - 1, by simp at hf; omega⟩
    have he := h e (by simp)
    rw [encodeRL_cons, decode_step f e _ acc he.1 he.2.1 he.2.2,
      decodeAux_encode rl f (e :: acc) (fun x hx => h x (by simp [hx])) (by simp at hf; omega)]
    simp

end Sth
