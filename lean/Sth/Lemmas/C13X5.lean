import Sth.Lemmas.C13X4

/-!
C13 along GC histories, exactly once: relocation, with the two ways it can end exposed — the index
moved (the old location, an index entry's until then, is recorded once) or the index refused (then no
index entry pointed at the old location).  The proof is that of `relocate_g` of
Sth/Lemmas/C04Reloc.lean with one more conclusion.  Core Lean only.
-/

namespace Sth.C13X

open Sth.C11 Sth.C13H

section
variable {c : Cfg} {U : List (Bytes × Bytes)} {cfg : Cfg} {m : Mem} {d : Disk} {spec : Spec}
  {n B : Nat} {pf : Nat} {psp : Nat → List GSpan}

/-- relocating the record at a record span of a closed file -/
theorem relocate_g4 (hU : Univ c.kind U) (hG : GInv c U ⟨cfg, m, d⟩ spec n B)
    (hn : n + 1 < 1073741824) (zh : d.phdr = some ⟨m.pmax, pf⟩) (zl : PriLog m d pf psp)
    (ze : EntOK m d pf psp) (zf : FlInv m d pf psp) {fnum at_ : Nat} {body : Bytes}
    (h1 : pf ≤ fnum) (h2 : fnum < m.pfileNum) (hx : (at_, body) ∈ liveAt 0 (psp fnum)) {m' : Mem}
    (hrel : relocate m d fnum (gbytes (psp fnum)) at_ body.length = some m') :
    GInv c U ⟨cfg, m', d⟩ spec (n + 1) B ∧ PriLog m' d pf psp ∧ EntOK m' d pf psp ∧
      FlInv m' d pf psp ∧ m'.pfileNum = m.pfileNum ∧ m'.pmax = m.pmax ∧ m'.visited = m.visited ∧
      (m'.flpool = m.flpool ++ [(⟨m.pmax * fnum + at_, body.length⟩ : Block)] ∨
        ∀ blk, IsEnt m d blk → blk.off ≠ m.pmax * fnum + at_) := by
  have hU' := hG.univ hU
  have hk : m.kind = .mh := hG.kind
  have hp : 1 ≤ m.pmax := hG.pmax1
  have h31 : m.bits ≤ 31 := hG.bits31
  have hA : SInv U m d spec := hG.a
  have hblen : body.length < two31 := zl.ok fnum h1 (by omega) ⟨false, body⟩ (by
    obtain ⟨a, b, e, _⟩ := liveAt_split (psp fnum) 0 at_ body hx
    rw [e]; simp)
  obtain ⟨r1, r2⟩ := span_reads hx hblen
  unfold relocate at hrel
  simp only [r1, r2] at hrel
  cases hrn : readNode .mh body with
  | none => simp [hrn] at hrel
  | some kv =>
  obtain ⟨key, val⟩ := kv
  simp only [hrn] at hrel
  cases hik : indexKeyOf .mh key with
  | none => simp [hik] at hrel
  | some ik =>
  simp only [hik, priPut_eq] at hrel
  have hsplit : body = key ++ val := readNode_mh_split hrn
  have hsz : key.length + val.length = body.length := by rw [hsplit]; simp
  have hrn' : readNode .mh (key ++ val) = some (key, val) := by rw [← hsplit]; exact hrn
  have hpre : PutPre m key val := GInv.putPre (s := ⟨cfg, m, d⟩) hG hn (by omega)
  have hat : at_ < m.pmax := zl.starts fnum h1 (by omega) _ hx
  have hloc : ¬ Below m (nextBlk m (key.length + val.length)) := not_below_next hpre.pmax _
  have hPold : ∀ blk k v, Below m blk → priGet m d blk = .got k v →
      priGet (putMem m key val) d blk = .got k v :=
    fun blk k v hbl hgt => priGet_putMem_old d key val hpre.pmax hbl hgt
  have hnew := priGet_putMem_new d key val hpre.pmax hpre.pool
  have hpm : (putMem m key val).pmax = m.pmax := putMem_pmax _ _ _
  have hold_eq : (⟨(putMem m key val).pmax * fnum + at_, body.length⟩ : Block) =
      ⟨m.pmax * fnum + at_, body.length⟩ := by rw [hpm]
  rw [hold_eq] at hrel
  -- the old location lies below the allocator
  have hle : m.pfileNum ≤ m.precFileNum := GInv.pfile_le (s := ⟨cfg, m, d⟩) hG
  have holdB : Below m ⟨m.pmax * fnum + at_, body.length⟩ := by
    unfold Below
    simp only [hk]
    exact ⟨fnum, at_, rfl, hat, Or.inl (by show fnum < m.precFileNum; omega)⟩
  cases hre : idxRelocate (putMem m key val) d ik ⟨m.pmax * fnum + at_, body.length⟩
      (nextBlk m (key.length + val.length)) with
  | ok m3 =>
    rw [hre] at hrel
    simp only [Option.some.injEq] at hrel
    obtain ⟨b, rl, i, e, q1, q2, q3, q4, q5⟩ := idxRelocate_ok_inv hre
    subst q5
    rw [putMem_bits] at q1 q3
    rw [idxRecords_putMem] at q2
    have hem : e ∈ rl := getRec_mem q3
    obtain ⟨t1, t2, dig, t3, t4, t5, t6⟩ := ent_at_span (m := m) (d := d) hU' hk h31 hp hA zl ze hG.alloc
      hG.plen h1 (by omega) hx hrn q2 hem (by rw [q4])
    have hdig : dig = ik := by
      have := (hU'.dig t3).1
      rw [hk, hik] at this
      exact (Option.some.inj this).symm
    subst hdig
    have hstrip := stripKey_of_bucket m.bits h31 dig b t4
    rw [hstrip.1] at q3
    simp only [Option.getD_some] at q3
    obtain ⟨hBe, ho⟩ := ent_blockOK hA q2 hem
    obtain ⟨pre, post, rfl⟩ := List.append_of_mem hem
    have hB : ∀ x ∈ pre ++ e :: post, BlockOK m.kind m.bits U (priGet m d) (Below m) spec b x.blk :=
      fun x hx' => (ent_blockOK hA q2 hx').1
    have hi : i = pre.length := by
      have := ho.getRec_owner t5
      rw [q3] at this
      simp only [Option.some.injEq, Prod.mk.injEq] at this
      exact this.1
    subst hi
    rw [putKeys_split] at hrel
    -- the new list
    have hown' : ownOf m.kind m.bits (priGet (putMem m key val) d)
        (nextBlk m (key.length + val.length)) = some (dig.drop (m.bits / 8)) :=
      ownOf_got hnew (hU'.dig t3).1 hstrip.1
    have ho' : OInv (ownOf m.kind m.bits (priGet (putMem m key val) d)) (pre ++ e :: post) := by
      apply OInv.congr _ ho
      intro x hx' k hk'
      exact ownOf_mono (fun k v hgt => hPold _ k v (hB x hx').below hgt) hk'
    have howne' : ownOf m.kind m.bits (priGet (putMem m key val) d) e.blk =
        some (dig.drop (m.bits / 8)) :=
      ownOf_mono (fun k v hgt => hPold _ k v (hB e (by simp)).below hgt) t5
    have hfresh : nextBlk m (key.length + val.length) ∉ (pre ++ e :: post).map (·.blk) := by
      intro hm
      obtain ⟨x, hx', heq⟩ := List.mem_map.mp hm
      have := (hB x hx').below
      rw [heq] at this
      exact hloc this
    obtain ⟨_, horl'⟩ := indexUpdate_ok' ho' howne' hown' hfresh
    have hblk : ∀ x ∈ pre ++ (⟨e.pfx, nextBlk m (key.length + val.length)⟩ : Entry) :: post,
        BlockOK m.kind m.bits U (priGet (putMem m key val) d) (Below (putMem m key val)) spec b
          x.blk := by
      intro x hx'
      have hold : x ∈ pre ++ post → BlockOK m.kind m.bits U (priGet (putMem m key val) d)
          (Below (putMem m key val)) spec b x.blk := by
        intro hx''
        have hx3 : x ∈ pre ++ e :: post := by
          simp only [List.mem_append, List.mem_cons] at hx'' ⊢
          rcases hx'' with h | h
          · exact Or.inl h
          · exact Or.inr (Or.inr h)
        exact (hB x hx3).mono hPold (fun blk hb => below_putMem key val hb) (fun _ _ _ _ _ => rfl)
      simp only [List.mem_append, List.mem_cons] at hx'
      rcases hx' with h | rfl | h
      · exact hold (by simp [h])
      · refine ⟨⟨key, val, dig, hnew, t3, t4, nextBlk_size _ _, t6⟩,
          below_putMem_new hpre.pmax key val, hpre.off, ?_⟩
        simp only [nextBlk_size]; exact hpre.size
      · exact hold (by simp [h])
    have hnorm := normRL_of_wf (wf_of_inv hU' h31 horl' hblk)
    have e1 : pre ++ [(⟨e.pfx, nextBlk m (key.length + val.length)⟩ : Entry)] ++ post =
        pre ++ (⟨e.pfx, nextBlk m (key.length + val.length)⟩ : Entry) :: post := by simp
    rw [e1, hnorm] at hrel
    have hm'eq : m' = addFree (setNext (putMem m key val) b
        (pre ++ (⟨e.pfx, nextBlk m (key.length + val.length)⟩ : Entry) :: post))
        ⟨m.pmax * fnum + at_, body.length⟩ := by rw [← hrel]; rfl
    subst hm'eq
    clear hrel
    have hAnew : AInv m.kind m.bits U
        (priGet (addFree (setNext (putMem m key val) b
          (pre ++ (⟨e.pfx, nextBlk m (key.length + val.length)⟩ : Entry) :: post))
          ⟨m.pmax * fnum + at_, body.length⟩) d)
        (idxRecords (addFree (setNext (putMem m key val) b
          (pre ++ (⟨e.pfx, nextBlk m (key.length + val.length)⟩ : Entry) :: post))
          ⟨m.pmax * fnum + at_, body.length⟩) d)
        (Below (addFree (setNext (putMem m key val) b
          (pre ++ (⟨e.pfx, nextBlk m (key.length + val.length)⟩ : Entry) :: post))
          ⟨m.pmax * fnum + at_, body.length⟩)) spec := by
      apply AInv.change hU' hA t4 (dig := dig)
        (rl' := pre ++ (⟨e.pfx, nextBlk m (key.length + val.length)⟩ : Entry) :: post)
      · intro blk k v hbl hgt
        rw [priGet_addFree, priGet_setNext]
        exact hPold blk k v hbl hgt
      · intro blk hbl
        rw [below_addFree, below_setNext]
        exact below_putMem key val hbl
      · intro _ _; rfl
      · intro b' hne
        rw [idxRecords_addFree, idxRecords_setNext', if_neg hne, idxRecords_putMem]
      · rw [idxRecords_addFree, idxRecords_setNext', if_pos rfl]
      · rw [priGet_addFree, priGet_setNext]; exact horl'
      · rw [priGet_addFree, priGet_setNext, below_addFree, below_setNext]; exact hblk
      · intro key1 val1 hg1
        rw [t6] at hg1
        cases hg1
        exact ⟨⟨e.pfx, nextBlk m (key.length + val.length)⟩, by simp,
          by rw [priGet_addFree, priGet_setNext]; exact hnew, t3⟩
      · intro rl' hrl x hx' hnot
        rw [q2] at hrl
        cases hrl
        simp only [List.mem_append, List.mem_cons] at hx'
        rcases hx' with h | rfl | h
        · exact ⟨x, by simp [h], rfl⟩
        · exact absurd t3 (hnot _ _ t2)
        · exact ⟨x, by simp [h], rfl⟩
    have hidx : ∀ b', idxRecords (addFree (setNext (putMem m key val) b
          (pre ++ (⟨e.pfx, nextBlk m (key.length + val.length)⟩ : Entry) :: post))
          ⟨m.pmax * fnum + at_, body.length⟩) d b' =
        if b' = b then .ok (some (pre ++ [(⟨e.pfx, nextBlk m (key.length + val.length)⟩ : Entry)]
          ++ post)) else idxRecords m d b' := by
      intro b'
      rw [idxRecords_addFree, idxRecords_frame_put]
      simp
    obtain ⟨hents, hnoent⟩ := ents_after_replace hU' hk h31 hp hA zl ze hG.alloc hG.plen q2 hidx
      (by simp) hloc
    have hfreed := freeOK_old_entry (m' := addFree (setNext (putMem m key val) b
        (pre ++ (⟨e.pfx, nextBlk m (key.length + val.length)⟩ : Entry) :: post))
        ⟨m.pmax * fnum + at_, body.length⟩)
      hA zl ze ⟨b, _, e, q2, by simp, rfl⟩
      (fun blk hb => below_putMem key val hb) (putMem_pfileNum _ _ _) (putMem_pmax _ _ _)
      (fun r hr => by show r ∈ (putMem m key val).pnext; rw [putMem_pnext]; exact
        List.mem_append_left _ hr) hnoent
    rw [q4] at hfreed
    obtain ⟨z1, z2, z3⟩ := zinv_put hA zl ze zf hpre.pmax
      (frame_addFree_setNext _ _ _ _) hnew hents (freed := [⟨m.pmax * fnum + at_, body.length⟩])
      (by show (putMem m key val).flpool ++ [_] = _; rw [putMem_flpool])
      (by intro fb hfb; simp only [List.mem_singleton] at hfb; rw [hfb]; exact hfreed)
    have zh' : d.phdr = some ⟨(addFree (setNext (putMem m key val) b
        (pre ++ (⟨e.pfx, nextBlk m (key.length + val.length)⟩ : Entry) :: post))
        ⟨m.pmax * fnum + at_, body.length⟩).pmax, pf⟩ := by
      show d.phdr = some ⟨(putMem m key val).pmax, pf⟩
      rw [putMem_pmax]; exact zh
    refine ⟨?_, z1, z2, z3, putMem_pfileNum _ _ _, putMem_pmax _ _ _, ?_,
      Or.inl (by show (putMem m key val).flpool ++ [_] = _; rw [putMem_flpool])⟩
    · exact ginv_put (s := ⟨cfg, m, d⟩) hU hG hrn' (by omega) (frame_addFree_setNext _ _ _ _)
        (by show (putMem m key val).inext.set b _ = _; rw [putMem_inext]) (bucket_lt _ _ _ t4) hAnew
        hG.nodup hG.w ⟨pf, psp, zh', z1, z2, z3⟩
    · show (putMem m key val).visited = m.visited
      unfold putMem; split <;> rfl
  | error err =>
    rw [hre] at hrel
    simp only [Option.some.injEq] at hrel
    have hm' := hrel
    have hf : Frame (putMem m key val) m' := by
      rw [← hm']
      exact ⟨rfl, rfl, rfl, rfl, rfl, rfl, rfl, rfl, rfl, rfl, rfl, rfl, rfl, rfl, rfl⟩
    have hinext : m'.inext = m.inext := by rw [← hm']; exact putMem_inext _ _ _
    have hflp : m'.flpool = m.flpool ++ [nextBlk m (key.length + val.length),
        (⟨m.pmax * fnum + at_, body.length⟩ : Block)] := by
      rw [← hm']
      show (putMem m key val).flpool ++ [_] ++ [_] = _
      rw [putMem_flpool]; simp
    have hvis : m'.visited = m.visited := by
      rw [← hm']
      show (putMem m key val).visited = m.visited
      unfold putMem; split <;> rfl
    clear hm'
    have hidx : ∀ b, idxRecords m' d b = idxRecords m d b := by
      intro b
      unfold idxRecords
      rw [hinext, hf.icur, hf.buckets, hf.imax, putMem_icur, putMem_buckets, putMem_imax]
    have hentE : ∀ blk, IsEnt m' d blk ↔ IsEnt m d blk := by
      intro blk; unfold IsEnt; simp only [hidx]
    have hpg : priGet m' d = priGet (putMem m key val) d := priGet_frame hf d
    have hnew' : priGet m' d (nextBlk m (key.length + val.length)) = .got key val := by
      rw [hpg]; exact hnew
    have hAnew : AInv m.kind m.bits U (priGet m' d) (idxRecords m' d) (Below m') spec := by
      apply hA.mono
      · intro blk k v hbl hgt; rw [hpg]; exact hPold blk k v hbl hgt
      · intro blk hbl; rw [below_frame hf]; exact below_putMem key val hbl
      · exact hidx
    have e1 : m'.pfileNum = m.pfileNum := by rw [hf.pfileNum, putMem_pfileNum]
    have e2 : m'.pmax = m.pmax := by rw [hf.pmax, putMem_pmax]
    have e3 : ∀ r ∈ m.pnext, r ∈ m'.pnext := by
      intro r hr; rw [hf.pnext, putMem_pnext]; exact List.mem_append_left _ hr
    have hbl' : ∀ blk, Below m blk → Below m' blk := fun blk hb =>
      (below_frame hf blk).mpr (below_putMem key val hb)
    -- the freed blocks
    have hfreeLoc : FreeOK m' d pf psp (nextBlk m (key.length + val.length)) := by
      refine ⟨(below_frame hf _).mpr (below_putMem_new hpre.pmax key val), ?_, ?_, hpre.off, ?_⟩
      · intro blk hb hc
        exact hloc (below_of_off hc.symm (ent_below hA ((hentE blk).mp hb)))
      · left
        refine ⟨⟨nextBlk m (key.length + val.length), key, val⟩, ?_, rfl⟩
        rw [hf.pnext, putMem_pnext]; simp
      · rw [nextBlk_size]; have := hpre.size; unfold two31 at this; unfold two32; omega
    have hfreeOld : FreeOK m' d pf psp ⟨m.pmax * fnum + at_, body.length⟩ := by
      refine ⟨hbl' _ holdB, ?_, ?_, ?_, by show body.length < two32; unfold two31 at hblen; unfold two32; omega⟩
      · -- no entry has this offset, otherwise the index would have been moved
        intro blk hb hc
        obtain ⟨b, rl, e, q2, hem, rfl⟩ := (hentE blk).mp hb
        obtain ⟨t1, t2, dig, t3, t4, t5, t6⟩ := ent_at_span (m := m) (d := d) hU' hk h31 hp hA zl ze
          hG.alloc hG.plen h1 (by omega) hx hrn q2 hem hc
        have hdig : dig = ik := by
          have := (hU'.dig t3).1
          rw [hk, hik] at this
          exact (Option.some.inj this).symm
        subst hdig
        have hstrip := stripKey_of_bucket m.bits h31 dig b t4
        obtain ⟨_, ho⟩ := ent_blockOK hA q2 hem
        obtain ⟨pre, post, rfl⟩ := List.append_of_mem hem
        have := ho.getRec_owner t5
        have hsucc := idxRelocate_eq (m := putMem m key val) (d := d) (ik := dig)
          (old := ⟨m.pmax * fnum + at_, body.length⟩) (loc := nextBlk m (key.length + val.length))
          (b := b) (rl := pre ++ e :: post) (i := pre.length) (e := e)
          (by rw [putMem_bits]; exact t4) (by rw [idxRecords_putMem]; exact q2)
          (by rw [putMem_bits, hstrip.1]; exact this) t1
        rw [hsucc] at hre
        cases hre
      · right
        refine ⟨fnum, at_, by rw [e2], by rw [e2]; exact hat,
          Or.inr ⟨h1, by rw [e1]; exact Nat.le_of_lt h2, ?_⟩⟩
        exact Or.inr (Or.inl ⟨body, hx⟩)
      · have : m.pmax * fnum + at_ < m.pmax * (fnum + 1) := by rw [Nat.mul_add]; omega
        have h3 : fnum + 1 ≤ 1073741824 := by
          have : m.precFileNum ≤ n := hG.cntF
          omega
        have hmb : m.pmax * (fnum + 1) < two64 := mul_bound hG.pmaxle h3
        show m.pmax * fnum + at_ < two64
        omega
    obtain ⟨z1, z2, z3⟩ := zinv_put hA zl ze zf hpre.pmax hf hnew'
      (fun blk hb => Or.inr ((hentE blk).mp hb)) hflp
      (by
        intro fb hfb
        simp only [List.mem_cons, List.not_mem_nil, or_false] at hfb
        rcases hfb with rfl | rfl
        · exact hfreeLoc
        · exact hfreeOld)
    have hy : YInv c ⟨cfg, m', d⟩ := by
      obtain ⟨first, sp, e1', e2'⟩ := hG.y.ilog
      refine ⟨hG.y.cfg, by show m'.bits = _; rw [hf.bits, putMem_bits]; exact hG.y.bits,
        by show m'.imax = _; rw [hf.imax, putMem_imax]; exact hG.y.imax,
        by show m'.pmax = _; rw [e2]; exact hG.y.pmax,
        ⟨first, sp, e1', e2'.frame rfl (by rw [hf.ifileNum, putMem_ifileNum])
          (by rw [hf.bits, putMem_bits]) (by rw [hf.imax, putMem_imax])
          (by rw [hf.buckets, putMem_buckets])⟩, ?_, ?_⟩
      · intro hkc
        obtain ⟨pf', p1, p2, p3⟩ := hG.y.phdr hkc
        refine ⟨pf', p1, by show pf' ≤ m'.pfileNum; rw [e1]; exact p2, ?_⟩
        intro f g1 g2
        have g2' : f ≤ m'.pfileNum := g2
        rw [e1] at g2'
        exact p3 f g1 g2'
      · intro b rl hb
        have hb' : m'.inext.get? b = some rl := hb
        rw [hinext] at hb'
        show b < 2 ^ m'.bits
        rw [hf.bits, putMem_bits]
        exact hG.y.inextLt b rl hb'
    refine ⟨?_, z1, z2, z3, e1, e2, hvis,
      Or.inr (fun blk hb => hfreeOld.2.1 blk ((hentE blk).mpr hb))⟩
    exact ginv_put_core (s := ⟨cfg, m, d⟩) hU hG hrn' (by omega) hf (by rw [hinext]; exact Nat.le_succ _) hy hAnew
      hG.nodup hG.w ⟨pf, psp, by rw [e2]; exact zh, z1, z2, z3⟩

end

end Sth.C13X
