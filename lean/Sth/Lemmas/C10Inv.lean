/-
C10 (byte level) — the state an upgrading OpenStore returns satisfies the invariants of C01 (`Inv`),
C02 (`XInv`) and C07 (`CInv`, in particular the consistency check passes) for the map `LegacyC.spec`.
Core Lean only.
-/
import Sth.Lemmas.C10Sem

namespace Sth

namespace LegacyC

variable {c : Cfg} {U : List (Bytes × Bytes)} {C : LegacyC}

/-- the state after the upgrading open -/
def stateU (c : Cfg) (C : LegacyC) (ifs : NMap Bytes) : SState := ⟨c, C.memU c ifs, C.diskU c ifs⟩

/-- hypotheses shared by the lemmas below -/
structure Ctx (c : Cfg) (U : List (Bytes × Bytes)) (C : LegacyC) (ifs : NMap Bytes) : Prop where
  hc : c.Legal
  hk : c.kind = .mh
  hU : Univ .mh U
  hwf : LegacyWFU c U C
  hn1 : C.recs.length < 1073741824
  hn2 : C.gens.length < 1073741824
  hifs : ∀ f, f ≤ C.lastI c → ifs.get? f = some (logBytes (C.lgU c f))
  hno : ∀ f, C.lastI c < f → ifs.get? f = none

variable {ifs : NMap Bytes}

theorem idxRecords_U (b : Nat) :
    idxRecords (C.memU c ifs) (C.diskU c ifs) b =
      readDiskBucket ifs c.ifs (((C.tableT c).get? b).getD 0) := by
  unfold idxRecords memU diskU
  simp only [NMap.get?]

theorem priGet_U (x : Ctx c U C ifs) (b : Nat) (rl : RecordList) (h : C.table.get? b = some rl) (e : Entry)
    (he : e ∈ rl) :
    ∃ key val dig, priGet (C.memU c ifs) (C.diskU c ifs) ⟨(C.remapC c e.blk.off).getD 0, e.blk.size⟩ = .got key val ∧
      RecAt .mh c.pfs 0 (C.diskU c ifs) ⟨(C.remapC c e.blk.off).getD 0, e.blk.size⟩ key val ∧
      Below (C.memU c ifs) ⟨(C.remapC c e.blk.off).getD 0, e.blk.size⟩ ∧
      (key, dig) ∈ U ∧ bucketOfKey c.bits dig = some b ∧ e.pfx ≠ [] ∧ pfx e.pfx (dig.drop (c.bits / 8)) ∧
      C.specEntry e = some (dig, key, val) ∧ e.blk.size < two31 ∧ e.blk.size = key.length + val.length := by
  obtain ⟨key, val, dig, h1, h2, h3, h4, h5, h6, h7, h8⟩ := rec_at x.hc x.hU x.hwf x.hn1 ifs b rl h e he
  refine ⟨key, val, dig, ?_, h1, h2, h3, h4, h5, h6, h7, h8, h1.1⟩
  rw [priGet_eq]
  have e0 : poolFind (C.memU c ifs).pnext ⟨(C.remapC c e.blk.off).getD 0, e.blk.size⟩ = none := rfl
  have e1 : poolFind (C.memU c ifs).pcur ⟨(C.remapC c e.blk.off).getD 0, e.blk.size⟩ = none := rfl
  simp only [e0, e1]
  unfold priDisk
  rw [if_pos h2.thrOK]
  exact h1.diskRead

/-- what a bucket reads after the upgrade -/
theorem bucket_reads (x : Ctx c U C ifs) (b : Nat) :
    (C.table.get? b = none ∧ idxRecords (C.memU c ifs) (C.diskU c ifs) b = .ok none) ∨
    ∃ rl pos, C.table.get? b = some rl ∧ (C.tableT c).get? b = some pos ∧
      BucketAt ifs c.ifs 0 b pos (C.newRL c rl) ∧
      idxRecords (C.memU c ifs) (C.diskU c ifs) b = .ok (some (C.newRL c rl)) := by
  rw [idxRecords_U]
  cases hT : (C.tableT c).get? b with
  | none =>
    left
    refine ⟨((tabRel (C := C) (c := c) groups_le_lastI) b).1.mp hT, ?_⟩
    simp only [Option.getD_none]
    exact readDiskBucket_zero _ _
  | some pos =>
    right
    obtain ⟨rl, h1, h2⟩ := bucket_at x.hc x.hwf x.hn1 x.hn2 x.hifs b pos hT
    exact ⟨rl, pos, h1, rfl, h2, by simp only [Option.getD_some]; exact readDiskBucket_of_at h2⟩

theorem mem_newRL (rl : RecordList) (e' : Entry) (h : e' ∈ C.newRL c rl) :
    ∃ e ∈ rl, e' = ⟨e.pfx, ⟨(C.remapC c e.blk.off).getD 0, e.blk.size⟩⟩ := by
  unfold newRL remapRL at h
  obtain ⟨e, he, rfl⟩ := List.mem_map.mp h
  exact ⟨e, he, rfl⟩

theorem oinv_newRL (x : Ctx c U C ifs) (b : Nat) (rl : RecordList) (h : C.table.get? b = some rl) :
    OInv (ownOf .mh c.bits (priGet (C.memU c ifs) (C.diskU c ifs))) (C.newRL c rl) := by
  have hown : ∀ e ∈ rl, ∃ key val dig,
      priGet (C.memU c ifs) (C.diskU c ifs) ⟨(C.remapC c e.blk.off).getD 0, e.blk.size⟩ = .got key val ∧
      (key, dig) ∈ U ∧ pfx e.pfx (dig.drop (c.bits / 8)) ∧ e.pfx ≠ [] ∧
      ownOf .mh c.bits (priGet (C.memU c ifs) (C.diskU c ifs))
        ⟨(C.remapC c e.blk.off).getD 0, e.blk.size⟩ = some (dig.drop (c.bits / 8)) := by
    intro e he
    obtain ⟨key, val, dig, h1, _, _, h4, h5, h6, h7, _⟩ := priGet_U x b rl h e he
    exact ⟨key, val, dig, h1, h4, h7, h6,
      ownOf_got h1 (x.hU.dig h4).1 (stripKey_of_bucket c.bits x.hc.2.1 dig b h5).1⟩
  refine ⟨by rw [newRL_pfx]; exact x.hwf.sorted b rl h, by rw [newRL_pfx]; exact x.hwf.prefixFree b rl h, ?_, ?_⟩
  · intro e' he'
    obtain ⟨e, he, rfl⟩ := mem_newRL rl e' he'
    obtain ⟨key, val, dig, _, _, h3, h4, h5⟩ := hown e he
    exact ⟨_, h5, h3, h4⟩
  · rw [List.nodup_iff_pairwise_ne]
    unfold newRL remapRL
    rw [List.map_map, List.pairwise_map]
    have hpf := x.hwf.prefixFree b rl h
    rw [List.pairwise_map] at hpf
    apply List.Pairwise.imp_of_mem _ hpf
    intro e1 e2 he1 he2 hap heq
    simp only [Function.comp] at heq
    obtain ⟨k1, v1, d1, a1, a2, a3, _, _⟩ := hown e1 he1
    obtain ⟨k2, v2, d2, b1, b2, b3, _, _⟩ := hown e2 he2
    rw [heq] at a1
    rw [a1] at b1
    cases b1
    have hd : d1 = d2 := by
      have p1 := (x.hU.dig a2).1
      have p2 := (x.hU.dig b2).1
      rw [p1] at p2
      exact Option.some.inj p2
    subst hd
    rcases pfx_comparable a3 b3 with hp | hp
    · exact hap.1 hp
    · exact hap.2 hp

theorem sinv_U (x : Ctx c U C ifs) : SInv U (C.memU c ifs) (C.diskU c ifs) C.spec := by
  have hnd := spec_nodup x.hc x.hU x.hwf
  constructor
  · intro b
    rcases bucket_reads x b with ⟨_, h2⟩ | ⟨rl, pos, h1, _, _, h4⟩
    · exact ⟨none, h2, OInv.nil _, fun e he => by cases he⟩
    · refine ⟨some (C.newRL c rl), h4, oinv_newRL x b rl h1, ?_⟩
      intro e' he'
      simp only [Option.getD_some] at he'
      obtain ⟨e, he, rfl⟩ := mem_newRL rl e' he'
      obtain ⟨key, val, dig, g1, g2, g3, g4, g5, _, _, g8, g9, g10⟩ := priGet_U x b rl h1 e he
      have hmem : (dig, key, val) ∈ C.spec := (mem_spec _).mpr ⟨b, rl, e, h1, he, g8⟩
      refine ⟨⟨key, val, dig, g1, g4, g5, g10, Spec.get_of_mem hnd hmem⟩, g3, ?_, g9⟩
      obtain ⟨f, lp, F, g, _, _, _, _, hoff, _⟩ := g2.2.2
      simp only at hoff ⊢
      have hfl := flushOK_newRL x.hc x.hwf x.hn1 b rl h1
        (x.hwf.gensOK (b, rl) (by
          obtain ⟨pos', hp⟩ : ∃ p, (C.tableT c).get? b = some p := ⟨pos, by assumption⟩
          obtain ⟨rl', f0, pre, post, t1, _, t3, _⟩ := table_at x.hc x.hn2 b pos' hp
          rw [h1] at t1
          cases t1
          exact C.lg_mem c.ifs f0 _ (by rw [t3]; simp))).2
      exact (hfl.1 _ he').2.1
  · intro dig key val hs
    obtain ⟨b, rl, e, h1, h2, h3⟩ := (mem_spec _).mp (Spec.mem_of_get hs)
    obtain ⟨key', val', dig', g1, _, _, g4, g5, _, _, g8, _, _⟩ := priGet_U x b rl h1 e h2
    rw [h3] at g8
    cases g8
    rcases bucket_reads x b with ⟨h0, _⟩ | ⟨rl', pos, t1, _, _, t4⟩
    · rw [h1] at h0; cases h0
    · rw [h1] at t1
      cases t1
      refine ⟨b, C.newRL c rl, ⟨e.pfx, ⟨(C.remapC c e.blk.off).getD 0, e.blk.size⟩⟩, g5, t4, ?_, g1, g4⟩
      unfold newRL remapRL
      exact List.mem_map.mpr ⟨e, h2, rfl⟩

theorem pinv_U (x : Ctx c U C ifs) : PInv (C.memU c ifs) (C.diskU c ifs) := by
  refine ⟨fun _ => x.hc.2.2.2.2.1, (fun r hr => by cases hr), (fun r hr => by cases hr),
    (fun r hr => by cases hr), ?_, (fun hk => by cases hk)⟩
  intro _
  exact ⟨⟨rfl, rfl⟩, rfl, fun f hf => pfiles_none f hf⟩

theorem iinv_U (x : Ctx c U C ifs) : IInv (C.memU c ifs) (C.diskU c ifs) :=
  ⟨x.hc.2.2.1, (fun b rl hb => by cases hb), rfl, fun f hf => x.hno f hf, scanTo_sorted _ _ _⟩

/-- C01's invariant for the upgraded state -/
theorem inv_U (x : Ctx c U C ifs) :
    Inv c U (C.stateU c ifs) C.spec (C.recs.length + C.gens.length + 1) (specW C.spec) := by
  refine ⟨x.hk.symm, rfl, x.hc.1, x.hc.2.1, sinv_U x, pinv_U x, iinv_U x, ?_, spec_nodup x.hc x.hU x.hwf,
    Nat.le_refl _⟩
  refine ⟨fun _ => ⟨?_, x.hc.2.2.2.2.2⟩, (fun hk => by cases hk), ?_⟩
  · have := lastP_le (c := c) (C := C)
    show C.lastP c ≤ _
    omega
  · have := C.ifilesL_length_le c.ifs
    show C.lastI c + 0 ≤ _
    unfold lastI
    omega

theorem lgU_shape (f : Nat) : (C.lgU c f).map shape = (C.lg c.ifs f).map shape :=
  rmP_shape (encodeRL_remapRL_length _) _ _

/-- C02's extended invariant for the upgraded state -/
theorem xinv_U (x : Ctx c U C ifs) : XInv c (C.stateU c ifs) := by
  have hpfs : hdrPfs c = c.pfs := by unfold hdrPfs; rw [x.hk]
  refine ⟨rfl, rfl, rfl, hpfs.symm, (by show (C.diskU c ifs).ihdr = _; rw [hpfs]; rfl), fun _ => rfl,
    fun _ f hf => pfiles_get f hf, (fun b rl hb => by cases hb), ?_⟩
  refine ⟨C.lgU c, fun f hf => x.hifs f hf, ?_, ?_⟩
  · intro f hf r hr
    unfold lgU lgR at hr
    rcases rmP_mem _ _ _ hr with h | ⟨r0, h1, h2⟩
    · exact (lg_recOK x.hwf f r h).1
    · have := (lg_recOK x.hwf f r0 h1).1
      rw [h2]
      exact ⟨this.1, by simp only; rw [encodeRL_remapRL_length]; exact this.2⟩
  · intro b
    show ((C.tableT c).get? b).getD 0 = ((scanTo c.ifs (C.lgU c) (C.lastI c)).get? b).getD 0
    unfold tableT
    rw [scanTo_shape c.ifs (lg := C.lg c.ifs) (lg' := C.lgU c) (C.lastI c) (fun f _ => lgU_shape f)]

/-- C07's invariant for the upgraded state -/
theorem cinv_U (x : Ctx c U C ifs) :
    CInv c U (C.stateU c ifs) C.spec (C.recs.length + C.gens.length + 1) (specW C.spec) := by
  have hfe : flEntries (C.stateU c ifs).d = [] := rfl
  have hrec : recorded (C.stateU c ifs) = [] := by
    unfold recorded; rw [hfe]; rfl
  have hF : FInv (C.stateU c ifs) := by
    refine ⟨?_, ?_, ?_, ?_, ?_⟩
    · rw [hfe]; rfl
    · rw [hrec]; intro b hb; cases hb
    · rw [hrec]; intro b hb; cases hb
    · rw [hrec]; intro _ _ _ _ _ h; cases h
    · rw [hrec]; exact List.nodup_nil
  have hP : PlInv (C.stateU c ifs) := by
    refine ⟨?_, (by rw [hrec]; intro b hb; cases hb)⟩
    intro bkt rl' hrd e' he'
    rcases bucket_reads x bkt with ⟨_, h2⟩ | ⟨rl, pos, h1, _, _, h4⟩
    · have h2' : idxRecords (C.stateU c ifs).m (C.stateU c ifs).d bkt = .ok none := h2
      rw [h2'] at hrd; cases hrd
    · have h4' : idxRecords (C.stateU c ifs).m (C.stateU c ifs).d bkt = .ok (some (C.newRL c rl)) := h4
      rw [h4'] at hrd
      cases hrd
      obtain ⟨e, he, rfl⟩ := mem_newRL rl e' he'
      obtain ⟨key, val, dig, _, g2, _⟩ := priGet_U x bkt rl h1 e he
      right
      exact ⟨key, val, g2⟩
  have hT : TagInv (C.stateU c ifs).m (C.stateU c ifs).d := by
    intro b hb
    rcases bucket_reads x b with ⟨h0, _⟩ | ⟨rl, pos, _, h2, h3, _⟩
    · exfalso
      apply hb
      have : (C.tableT c).get? b = none := ((tabRel (C := C) (c := c) groups_le_lastI) b).1.mpr h0
      show ((C.tableT c).get? b).getD 0 = 0
      rw [this]; rfl
    · refine ⟨C.newRL c rl, ?_⟩
      show BucketAt ifs c.ifs 0 b (((C.tableT c).get? b).getD 0) _
      rw [h2]
      exact h3
  exact ⟨inv_U x, xinv_U x, hF, hP, hT, rfl, rfl,
    diskOK_of_quiesced (by rw [x.hk]; exact x.hU) (inv_U x) (xinv_U x) hF hP hT rfl rfl rfl⟩

end LegacyC

end Sth
