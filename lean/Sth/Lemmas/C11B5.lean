import Sth.Lemmas.C11B4

/-!
C11 Q3c (5): the size invariant through the loop of the primary GC cycle over the closed files.
Core Lean only.
-/

namespace Sth.C11B

open Sth.C11 Sth.C13H Sth.C13X Sth.C11D

theorem lv_nil_of_file {d : Disk} {g : Nat} (h : fileOf d.pfiles g = []) : lv d g = [] := by
  unfold lv; rw [h]; exact congrArg (liveAt 0) spansOf_nil

section
variable {R : Nat} {m : Mem} {d : Disk}

/-- a stable file joins the visited set -/
theorem BInv.visit (h : BInv R m d) {nn : Nat} (h1 : nn < m.pfileNum)
    (h2 : lv d nn = [] → fileOf d.pfiles nn = []) :
    BInv R { m with visited := m.visited ++ [nn] } d := by
  refine ⟨h.pz, h.sz, h.fl, ?_⟩
  intro f hf
  have hf' : f ∈ m.visited ++ [nn] := hf
  rw [List.mem_append, List.mem_singleton] at hf'
  rcases hf' with hf' | rfl
  · exact h.vs f hf'
  · exact ⟨h1, h2⟩

/-- unlinking a file -/
theorem BInv.del (h : BInv R m d) (nn : Nat) (ph : Option PriHeader) :
    BInv R m { d with phdr := ph, pfiles := d.pfiles.del nn } := by
  have hfile : ∀ g, g ≠ nn → fileOf (d.pfiles.del nn) g = fileOf d.pfiles g := by
    intro g hg; unfold fileOf; rw [NMap.get?_del_ne _ hg]
  have hnn : fileOf (d.pfiles.del nn) nn = [] := by
    unfold fileOf; rw [NMap.get?_del_eq]; rfl
  have hlv : ∀ g, g ≠ nn → lv { d with phdr := ph, pfiles := d.pfiles.del nn } g = lv d g := by
    intro g hg
    unfold lv
    show liveAt 0 (spansOf (fileOf (d.pfiles.del nn) g)) = _
    rw [hfile g hg]
  refine ⟨h.pz, ?_, ?_, ?_⟩
  · intro g x hx
    by_cases hg : g = nn
    · subst hg
      have : lv { d with phdr := ph, pfiles := d.pfiles.del g } g = [] := lv_nil_of_file hnn
      rw [this] at hx; cases hx
    · rw [hlv g hg] at hx; exact h.sz g x hx
  · intro g
    show (fileOf (d.pfiles.del nn) g).length < _
    by_cases hg : g = nn
    · subst hg; rw [hnn]; exact Nat.lt_of_le_of_lt (Nat.zero_le _) (h.fl g)
    · rw [hfile g hg]; exact h.fl g
  · intro f hf
    obtain ⟨a, b⟩ := h.vs f hf
    refine ⟨a, ?_⟩
    by_cases hg : f = nn
    · subst hg; intro _; exact hnn
    · rw [hlv f hg]
      show lv d f = [] → fileOf (d.pfiles.del nn) f = []
      rw [hfile f hg]; exact b

end

section
variable {c : Cfg} {U : List (Bytes × Bytes)} {cfg : Cfg} {m : Mem} {d : Disk} {spec : Spec}
  {k B pf R : Nat} {psp : Nat → List GSpan}

/-- the visit of one closed, unvisited file -/
theorem reap_visit (hS : HState c U cfg m d spec k B pf psp) {nn : Nat} (h1 : pf ≤ nn)
    (h2 : nn < m.pfileNum) (lowUse : Nat) (hI : BInv R m d) (h31 : m.pmax + 4 + R ≤ two31)
    (hv : nn ∉ m.visited) :
    BInv R (reapRecords m d nn lowUse).2.1 (reapRecords m d nn lowUse).2.2.1 ∧
      (lv (reapRecords m d nn lowUse).2.2.1 nn = [] →
        fileOf (reapRecords m d nn lowUse).2.2.1.pfiles nn = []) := by
  obtain ⟨hpz, hlvn⟩ := reapRecords_b hS h1 h2 lowUse hI
  obtain ⟨e1, e2, e3⟩ := reapRecords_mem m d nn lowUse
  have hoth : ∀ g, g ≠ nn → (reapRecords m d nn lowUse).2.2.1.pfiles.get? g = d.pfiles.get? g :=
    fun g hg => reapRecords_other m d nn lowUse hg
  refine ⟨⟨hpz, ?_, ?_, ?_⟩, ?_⟩
  · intro g x hx
    by_cases hg : g = nn
    · subst hg; rw [hlvn] at hx; exact hI.sz g x hx
    · rw [lv_congr (hoth g hg)] at hx; exact hI.sz g x hx
  · intro g
    rw [e3]
    exact Nat.lt_of_le_of_lt (reapRecords_shrinks m d nn lowUse g) (hI.fl g)
  · intro f hf
    rw [e1] at hf
    obtain ⟨a, b⟩ := hI.vs f hf
    have hne : f ≠ nn := fun hc => hv (hc ▸ hf)
    rw [e2, lv_congr (hoth f hne)]
    refine ⟨a, ?_⟩
    unfold fileOf at b ⊢
    rw [hoth f hne]; exact b
  · intro hl
    rw [hlvn, lv_eq hS.gs h1 (by omega)] at hl
    have hfile : d.pfiles.get? nn = some (gbytes (psp nn)) := hS.gs.log.files nn h1 (by omega)
    have hok := hS.gs.log.ok nn h1 (by omega)
    have hlen : (gbytes (psp nn)).length < two31 := by
      have := hI.fl nn
      rw [fileOf_some hfile] at this
      omega
    obtain ⟨got, hres | ⟨hnil, hres⟩⟩ := reapRecords_dead m d nn lowUse hfile
      (fun s hs => ⟨liveAt_nil_dead (psp nn) 0 hl s hs, hok s hs⟩) hlen
    · rw [hres]
      show fileOf (d.pfiles.set nn []) nn = []
      exact fileOf_set_eq _ _ _
    · rw [hres]
      show fileOf d.pfiles nn = []
      rw [fileOf_some hfile, hnil]; rfl

end

end Sth.C11B
