/-
C06 — index GC between the busy check and the mark (hook point `index.gc.busy_checked`), part 1: the
bucket table only moves forward.

`Index.Flush` points a bucket at the record it has just appended — at or beyond the write position, hence
beyond every record the index files held before.  So the table position of a bucket never decreases, and
closed index files (below the current file number) are not written.  Core Lean only.
-/
import Sth.Lemmas.C06H3

namespace Sth.C06W

open Sth.C11 Sth.C13H Sth.C13X

/-! ### the primary flush leaves the index side alone -/

theorem pfold_idx : ∀ (recs : List PRec) (m : Mem) (d : Disk) (m' : Mem) (d' : Disk),
    recs.foldlM pstepMh (m, d) = some (m', d') →
    m'.buckets = m.buckets ∧ m'.ifileNum = m.ifileNum ∧ d'.ifiles = d.ifiles
  | [], m, d, m', d', h => by
    simp only [List.foldlM_nil] at h
    cases h
    exact ⟨rfl, rfl, rfl⟩
  | r :: recs, m, d, m', d', h => by
    rw [List.foldlM_cons] at h
    cases hs : pstepMh (m, d) r with
    | none => rw [hs] at h; cases h
    | some md =>
      obtain ⟨m1, d1⟩ := md
      rw [hs] at h
      have h' : recs.foldlM pstepMh (m1, d1) = some (m', d') := h
      obtain ⟨a1, a2, a3⟩ := pfold_idx recs m1 d1 m' d' h'
      have hm1 : m1.buckets = m.buckets ∧ m1.ifileNum = m.ifileNum ∧ d1.ifiles = d.ifiles := by
        unfold pstepMh at hs
        simp only at hs
        split at hs
        · cases hs
        · simp only [Option.some.injEq, Prod.mk.injEq] at hs
          obtain ⟨rfl, rfl⟩ := hs
          exact ⟨rfl, rfl, rfl⟩
      exact ⟨a1.trans hm1.1, a2.trans hm1.2.1, a3.trans hm1.2.2⟩

theorem priFlush_idx {m m1 : Mem} {d d1 : Disk} (hk : m.kind = .mh)
    (h : priFlush m d = some (m1, d1)) :
    m1.buckets = m.buckets ∧ m1.ifileNum = m.ifileNum ∧ d1.ifiles = d.ifiles := by
  by_cases hne : m.pnext.isEmpty = true
  · rw [priFlush_empty hne] at h
    simp only [Option.some.injEq, Prod.mk.injEq] at h
    obtain ⟨rfl, rfl⟩ := h
    exact ⟨rfl, rfl, rfl⟩
  · have hne' : m.pnext.isEmpty = false := by simpa using hne
    rw [priFlush_mh_eq hk hne'] at h
    exact pfold_idx m.pnext { m with pcur := m.pnext, pnext := [] } d m1 d1 h

/-! ### the index flush moves the table forward -/

/-- every table position lies before the write position -/
theorem tbl_lt_front {bits : Nat} {bk0 : NMap Nat} {first : Nat} {sp : Nat → List GSpan} {m : Mem}
    {d : Disk} {blks : List (Nat × Nat)} (h : LogFold4 bits bk0 first sp m d blks) (b : Nat) :
    tblOf bk0 blks b ≤ m.ifileNum * m.imax + m.ilength + 3 := by
  by_cases h0 : tblOf bk0 blks b = 0
  · omega
  · obtain ⟨f, off, body, g1, g2, g3, _, g5⟩ := h.log.t1 b h0
    have hoff := (h.log.t2 f g1 g2 _ g3).1
    have hb := (liveAt_bound g3).2
    rw [g5]
    by_cases hf : f = m.ifileNum
    · subst hf
      have hlast := h.log.files m.ifileNum h.log.le (Nat.le_refl _)
      have hlen : (gbytes (sp m.ifileNum)).length = m.ilength := by rw [← h.len, fileOf_some hlast]
      omega
    · have : (f + 1) * m.imax ≤ m.ifileNum * m.imax := Nat.mul_le_mul_right _ (by omega)
      rw [Nat.add_mul] at this
      simp only at hoff
      omega

/-- one step of the flush fold: the table moves forward, the file number does not decrease, files
    below the current one are not written -/
theorem istep_up {bits : Nat} {bk0 : NMap Nat} {first : Nat} {pool : NMap RecordList} {m : Mem}
    {d : Disk} {blks : List (Nat × Nat)} {sp : Nat → List GSpan} {b : Nat} {rl : RecordList}
    (hg : pool.get? b = some rl) (h : LogFold4 bits bk0 first sp m d blks) :
    (∀ b', tblOf bk0 blks b' ≤ tblOf bk0 (iflushStep pool (m, d, blks) b).2.2 b') ∧
      m.ifileNum ≤ (iflushStep pool (m, d, blks) b).1.ifileNum ∧
      ∀ f, f < m.ifileNum → (iflushStep pool (m, d, blks) b).2.1.ifiles.get? f = d.ifiles.get? f := by
  have hfront := tbl_lt_front h b
  by_cases hroll : m.ilength ≥ m.imax
  · have hnone : d.ifiles.get? (m.ifileNum + 1) = none := h.noFiles _ (by omega)
    rw [istep_roll hg hroll hnone]
    refine ⟨?_, Nat.le_succ _, ?_⟩
    · intro b'
      show _ ≤ tblOf bk0 (blks ++ [(b, (m.ifileNum + 1) * m.imax + 0 + 4)]) b'
      rw [tblOf_snoc]
      split
      · rename_i hb
        rw [hb]
        have hlast := h.log.files m.ifileNum h.log.le (Nat.le_refl _)
        -- a position in the current file lies before the start of the next one
        by_cases h0 : tblOf bk0 blks b = 0
        · omega
        · obtain ⟨f, off, body, g1, g2, g3, _, g5⟩ := h.log.t1 b h0
          have hoff := (h.log.t2 f g1 g2 _ g3).1
          simp only at hoff
          have : (f + 1) * m.imax ≤ (m.ifileNum + 1) * m.imax := Nat.mul_le_mul_right _ (by omega)
          rw [Nat.add_mul] at this
          rw [g5]
          omega
      · exact Nat.le_refl _
    · intro f hf
      show (rollFiles d.ifiles (m.ifileNum + 1) (idxRecBytes b rl)).get? f = _
      rw [NMap.get?_set_ne _ _ (by omega), NMap.get?_set_ne _ _ (by omega)]
  · rw [istep_noroll hg hroll]
    refine ⟨?_, Nat.le_refl _, ?_⟩
    · intro b'
      show _ ≤ tblOf bk0 (blks ++ [(b, m.ifileNum * m.imax + m.ilength + 4)]) b'
      rw [tblOf_snoc]
      split
      · rename_i hb
        rw [hb]; omega
      · exact Nat.le_refl _
    · intro f hf
      show (d.ifiles.set m.ifileNum _).get? f = _
      rw [NMap.get?_set_ne _ _ (by omega)]

theorem ifold_up {bits : Nat} {bk0 : NMap Nat} {first : Nat} {pool : NMap RecordList}
    (h31 : bits ≤ 31) (hpool : ∀ b rl, pool.get? b = some rl → RecLogOK bits (b, rl)) :
    ∀ (order : List Nat) (m : Mem) (d : Disk) (blks : List (Nat × Nat)) (sp : Nat → List GSpan),
      1 ≤ m.imax → LogFold4 bits bk0 first sp m d blks →
      (∀ b', tblOf bk0 blks b' ≤ tblOf bk0 (order.foldl (iflushStep pool) (m, d, blks)).2.2 b') ∧
        m.ifileNum ≤ (order.foldl (iflushStep pool) (m, d, blks)).1.ifileNum ∧
        ∀ f, f < m.ifileNum →
          (order.foldl (iflushStep pool) (m, d, blks)).2.1.ifiles.get? f = d.ifiles.get? f
  | [], m, d, blks, sp, _, _ => ⟨fun _ => Nat.le_refl _, Nat.le_refl _, fun _ _ => rfl⟩
  | b :: order, m, d, blks, sp, hp, h => by
    rw [List.foldl_cons]
    cases hg : pool.get? b with
    | none =>
      rw [iflushStep_none hg]
      exact ifold_up h31 hpool order m d blks sp hp h
    | some rl =>
      obtain ⟨sp1, h1, e1⟩ := istep_log4 h31 hp hg (hpool b rl hg) h
      obtain ⟨u1, u2, u3⟩ := istep_up hg h
      obtain ⟨v1, v2, v3⟩ := ifold_up h31 hpool order _ _ _ sp1
        (by show 1 ≤ (iflushStep pool (m, d, blks) b).1.imax; rw [e1]; exact hp) h1
      refine ⟨fun b' => Nat.le_trans (u1 b') (v1 b'), Nat.le_trans u2 v2, ?_⟩
      intro f hf
      rw [v3 f (by omega), u3 f hf]

/-- `idxFlush`: the table moves forward, the file number does not decrease, closed files are not
    written -/
theorem idxFlush_up {m : Mem} {d : Disk} {order : List Nat} {first : Nat} {sp : Nat → List GSpan}
    (hI : IInv m d) (hL : IdxLog m d first sp) (h31 : m.bits ≤ 31)
    (hpool : ∀ b rl, m.inext.get? b = some rl → RecLogOK m.bits (b, rl)) :
    (∀ b, tbl m b ≤ tbl (idxFlush m d order).1 b) ∧ m.ifileNum ≤ (idxFlush m d order).1.ifileNum ∧
      ∀ f, f < m.ifileNum → (idxFlush m d order).2.ifiles.get? f = d.ifiles.get? f := by
  by_cases hne : m.inext.isEmpty = true
  · rw [idxFlush_empty hne]
    exact ⟨fun _ => Nat.le_refl _, Nat.le_refl _, fun _ _ => rfl⟩
  · have hne' : m.inext.isEmpty = false := by simpa using hne
    have h0 : LogFold4 m.bits m.buckets first sp { m with icur := m.inext, inext := [] } d [] :=
      ⟨hL, hI.len, hI.noFiles⟩
    obtain ⟨u1, u2, u3⟩ := ifold_up h31 hpool order { m with icur := m.inext, inext := [] } d [] sp
      hI.imax h0
    obtain ⟨k1, k2, k3⟩ := ifold_keep m.inext order ({ m with icur := m.inext, inext := [] }, d, [])
    rw [idxFlush_eq hne']
    refine ⟨?_, u2, u3⟩
    intro b
    have := u1 b
    show tbl m b ≤ ((setAll (order.foldl (iflushStep m.inext) _).1.buckets _).get? b).getD 0
    rw [k2]
    exact this

end Sth.C06W
