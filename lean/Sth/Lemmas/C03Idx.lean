/-
C03 — the index flush as a chain of single-record appends: every cut through the index files of a flush is
the file table after some prefix of the appended records, followed by torn record prefixes and possibly
empty new files.
Core Lean only.
-/
import Sth.Lemmas.C03Defs

namespace Sth

/-- `fi` is the file table `fsJ` (files `0..N`) with torn record prefixes appended, possibly in new files
    up to `M` -/
def TornExt (bits : Nat) (fsJ fi : NMap Bytes) (N : Nat) : Prop :=
  ∃ (M : Nat) (junk : Nat → Bytes), N ≤ M ∧ (∀ f, f ≤ M → fi.get? f = some (fileOf fsJ f ++ junk f)) ∧
    (∀ f, M < f → fi.get? f = none) ∧ ∀ f, IsTorn bits (junk f)

theorem fileOf_of_get {fs : NMap Bytes} {n : Nat} {x : Bytes} (h : fs.get? n = some x) :
    fs.get? n = some (fileOf fs n) := by rw [fileOf_some h]; exact h

theorem get_of_ne_none {fs : NMap Bytes} {n : Nat} (h : fs.get? n ≠ none) :
    fs.get? n = some (fileOf fs n) := by
  cases hg : fs.get? n with
  | none => exact absurd hg h
  | some x => rw [fileOf_some hg]

/-- a cut through a family that does not change is the family -/
theorem cutImg_self {A fi : NMap Bytes} (h : CutImg A A fi) : ∀ n, fi.get? n = A.get? n := by
  obtain ⟨nc, h1, h2, h3, h4⟩ := h
  intro n
  rcases Nat.lt_trichotomy n nc with hn | hn | hn
  · exact h1 n hn
  · subst hn
    rcases h2 with h2 | ⟨g, t, e1, e2⟩
    · exact h2
    · have := fileOf_some e1
      have hg : g = [] := by
        have h' : fileOf A n ++ g = fileOf A n ++ [] := by rw [List.append_nil]; exact this.symm
        exact List.append_cancel_left h'
      rw [e2, e1, hg]; simp
  · by_cases hn' : n = nc + 1
    · subst hn'
      rcases h3 with h3 | ⟨_, e1, e2, _⟩
      · exact h3
      · exact absurd e1 e2
    · exact h4 n (by omega)

theorem tornExt_mk {bits : Nat} {A fi : NMap Bytes} {N : Nat}
    (hall : ∀ f, f ≤ N → A.get? f ≠ none) (hno : ∀ f, N < f → A.get? f = none)
    (fnj : Nat) (j : Bytes) (hj : IsTorn bits j) (hfnj : fnj = N ∨ fnj = N + 1)
    (hlow : ∀ f, f ≤ N → f ≠ fnj → fi.get? f = A.get? f)
    (hat : fi.get? fnj = some (fileOf A fnj ++ j))
    (hnext : fi.get? (fnj + 1) = none ∨ fi.get? (fnj + 1) = some [])
    (habove : ∀ f, fnj + 1 < f → fi.get? f = none) : TornExt bits A fi N := by
  have hlow' : ∀ f, f ≤ N → f ≠ fnj → fi.get? f = some (fileOf A f ++ []) := by
    intro f hf hne
    rw [hlow f hf hne, List.append_nil]
    exact get_of_ne_none (hall f hf)
  have hjunk : ∀ f, IsTorn bits (if f = fnj then j else []) := by
    intro f
    split
    · exact hj
    · exact isTorn_nil bits
  rcases hnext with hnext | hnext
  · refine ⟨fnj, fun f => if f = fnj then j else [], by omega, ?_, ?_, hjunk⟩
    · intro f hf
      by_cases hff : f = fnj
      · simp only [hff, if_true]; exact hat
      · simp only [hff, if_false]
        exact hlow' f (by omega) hff
    · intro f hf
      by_cases hff : f = fnj + 1
      · rw [hff]; exact hnext
      · exact habove f (by omega)
  · refine ⟨fnj + 1, fun f => if f = fnj then j else [], by omega, ?_, ?_, hjunk⟩
    · intro f hf
      by_cases hff : f = fnj
      · simp only [hff, if_true]; exact hat
      · simp only [hff, if_false]
        by_cases hf1 : f = fnj + 1
        · rw [hf1, hnext, fileOf_none (hno _ (by omega))]; rfl
        · exact hlow' f (by omega) hff
    · intro f hf
      exact habove f hf

/-- one appended record splits the cuts: a cut through `A → C` is a torn extension of `A`, or a cut
    through `B → C`, where `B` is `A` with the record appended to file `fn` -/
theorem chain_step {bits : Nat} {A B C fi : NMap Bytes} {N fn : Nat} {rec_ : Bytes}
    (htorn : ∀ t, t < rec_.length → IsTorn bits (rec_.take t))
    (hall : ∀ f, f ≤ N → A.get? f ≠ none) (hno : ∀ f, N < f → A.get? f = none)
    (hfn : fn = N ∨ fn = N + 1)
    (hB : ∀ f, B.get? f = if f = fn then some (fileOf A fn ++ rec_) else A.get? f)
    (hlow : ∀ f, f < fn → C.get? f = B.get? f)
    (hext : ∃ g2, C.get? fn = some (fileOf A fn ++ rec_ ++ g2))
    (h : CutImg A C fi) : TornExt bits A fi N ∨ CutImg B C fi := by
  obtain ⟨nc, h1, h2, h3, h4⟩ := h
  have hBne : ∀ f, f ≠ fn → B.get? f = A.get? f := fun f hf => by rw [hB, if_neg hf]
  have hBfile : ∀ f, f ≠ fn → fileOf B f = fileOf A f := fun f hf => by
    unfold fileOf; rw [hBne f hf]
  have hnil : IsTorn bits [] := isTorn_nil bits
  rcases Nat.lt_trichotomy nc fn with hc | hc | hc
  · -- the cut is below the file the record goes to: nothing of this step is in the image
    left
    have hle : ∀ f, f ≤ nc → fi.get? f = A.get? f := by
      intro f hf
      rcases Nat.lt_or_ge f nc with hlt | hge
      · rw [h1 f hlt, hlow f (by omega), hBne f (by omega)]
      · have : f = nc := by omega
        subst this
        rcases h2 with h2 | ⟨g, t, e1, e2⟩
        · exact h2
        · rw [hlow f hc, hBne f (by omega)] at e1
          have hg : g = [] := by
            have h' : fileOf A f ++ g = fileOf A f ++ [] := by
              rw [List.append_nil]; exact (fileOf_some e1).symm
            exact List.append_cancel_left h'
          rw [e2, e1, hg]; simp
    have hN : ∀ f, f ≤ N → fi.get? f = A.get? f := by
      intro f hf
      rcases Nat.lt_or_ge nc f with hlt | hge
      · by_cases hf1 : f = nc + 1
        · subst hf1
          rcases h3 with h3 | ⟨_, e1, _, _⟩
          · exact h3
          · exact absurd e1 (hall _ hf)
        · exact h4 f (by omega)
      · exact hle f hge
    apply tornExt_mk hall hno N [] hnil (Or.inl rfl) (fun f hf _ => hN f hf)
    · rw [hN N (Nat.le_refl _), List.append_nil]; exact get_of_ne_none (hall N (Nat.le_refl _))
    · by_cases hn1 : N = nc
      · subst hn1
        rcases h3 with h3 | ⟨_, _, _, e4⟩
        · left; rw [h3]; exact hno _ (by omega)
        · right; exact e4
      · left; rw [h4 (N + 1) (by omega)]; exact hno _ (by omega)
    · intro f hf
      rw [h4 f (by omega)]; exact hno f (by omega)
  · -- the cut is in the file the record goes to
    subst hc
    have hbelow : ∀ f, f < nc → fi.get? f = A.get? f := by
      intro f hf
      rw [h1 f hf, hlow f hf, hBne f (by omega)]
    have hab : ∀ f, nc + 1 < f → fi.get? f = none := by
      intro f hf
      rw [h4 f hf]; exact hno f (by omega)
    have hnx : A.get? (nc + 1) = none := hno _ (by omega)
    obtain ⟨g2, hext⟩ := hext
    rcases h2 with h2 | ⟨g, t, e1, e2⟩
    · left
      rcases hfn with hfn | hfn
      · -- append to the current file, nothing arrived
        subst hfn
        apply tornExt_mk hall hno nc [] hnil (Or.inl rfl) (fun f hf hne => hbelow f (by omega))
        · rw [h2, List.append_nil]; exact get_of_ne_none (hall nc (Nat.le_refl _))
        · rcases h3 with h3 | ⟨_, _, _, e4⟩
          · left; rw [h3]; exact hnx
          · right; exact e4
        · exact hab
      · -- new file, not created
        have hnone : fi.get? nc = none := by rw [h2]; exact hno _ (by omega)
        apply tornExt_mk hall hno N [] hnil (Or.inl rfl) (fun f hf _ => hbelow f (by omega))
        · rw [hbelow N (by omega), List.append_nil]; exact get_of_ne_none (hall N (Nat.le_refl _))
        · left; rw [← hfn]; exact hnone
        · intro f hf
          by_cases hf1 : f = nc + 1
          · subst hf1
            rcases h3 with h3 | ⟨e0, _, _, _⟩
            · rw [h3]; exact hnx
            · exact absurd hnone e0
          · exact hab f (by omega)
    · rw [hext] at e1
      have hg : g = rec_ ++ g2 := by
        have h' : fileOf A nc ++ (rec_ ++ g2) = fileOf A nc ++ g := by
          rw [← List.append_assoc]
          exact Option.some.inj e1
        exact (List.append_cancel_left h').symm
      subst hg
      by_cases ht : t < rec_.length
      · left
        rw [List.take_append_of_le_length (by omega)] at e2
        apply tornExt_mk hall hno nc (rec_.take t) (htorn t ht) hfn
          (fun f hf hne => hbelow f (by omega)) e2
        · rcases h3 with h3 | ⟨_, _, _, e4⟩
          · left; rw [h3]; exact hnx
          · right; exact e4
        · exact hab
      · right
        have hfB : fileOf B nc = fileOf A nc ++ rec_ := by
          unfold fileOf; rw [hB, if_pos rfl]; rfl
        refine ⟨nc, h1, Or.inr ⟨g2, t - rec_.length, ?_, ?_⟩, ?_, ?_⟩
        · rw [hext, hfB]
        · rw [e2, hfB, List.take_append, List.take_of_length_le (by omega), List.append_assoc]
        · rcases h3 with h3 | ⟨e0, e1', e3, e4⟩
          · left; rw [h3, hBne _ (by omega)]
          · right; exact ⟨e0, by rw [hBne _ (by omega)]; exact e1', e3, e4⟩
        · intro f hf
          rw [h4 f hf, hBne f (by omega)]
  · -- the cut is above: the step is complete in the image
    right
    refine ⟨nc, h1, ?_, ?_, ?_⟩
    · rcases h2 with h2 | ⟨g, t, e1, e2⟩
      · left; rw [h2, hBne _ (by omega)]
      · right; exact ⟨g, t, by rw [hBfile _ (by omega)]; exact e1, by rw [hBfile _ (by omega)]; exact e2⟩
    · rcases h3 with h3 | ⟨e0, e1', e3, e4⟩
      · left; rw [h3, hBne _ (by omega)]
      · right; exact ⟨e0, by rw [hBne _ (by omega)]; exact e1', e3, e4⟩
    · intro f hf
      rw [h4 f hf, hBne f (by omega)]

/-! ### the fold of `idxFlush`, step by step -/

/-- what the chain needs of a fold state: files `0..ifileNum` exist, none above -/
structure FoldSt (m : Mem) (d : Disk) : Prop where
  all : ∀ f, f ≤ m.ifileNum → d.ifiles.get? f ≠ none
  noFiles : ∀ f, m.ifileNum < f → d.ifiles.get? f = none

theorem istep_shape {pool : NMap RecordList} {m : Mem} {d : Disk} {blks : List (Nat × Nat)} {b : Nat}
    {rl : RecordList} (hg : pool.get? b = some rl) (h : FoldSt m d) :
    ∃ fn, (fn = m.ifileNum ∨ fn = m.ifileNum + 1) ∧
      (iflushStep pool (m, d, blks) b).1.ifileNum = fn ∧
      (∀ f, (iflushStep pool (m, d, blks) b).2.1.ifiles.get? f =
        if f = fn then some (fileOf d.ifiles fn ++ idxRecBytes b rl) else d.ifiles.get? f) ∧
      FoldSt (iflushStep pool (m, d, blks) b).1 (iflushStep pool (m, d, blks) b).2.1 := by
  by_cases hroll : m.ilength ≥ m.imax
  · have hnone : d.ifiles.get? (m.ifileNum + 1) = none := h.noFiles _ (by omega)
    rw [istep_roll hg hroll hnone]
    have hget : ∀ f, (rollFiles d.ifiles (m.ifileNum + 1) (idxRecBytes b rl)).get? f =
        if f = m.ifileNum + 1 then some (fileOf d.ifiles (m.ifileNum + 1) ++ idxRecBytes b rl)
        else d.ifiles.get? f := by
      intro f
      by_cases hf : f = m.ifileNum + 1
      · rw [if_pos hf, hf, NMap.get?_set_eq, fileOf_some (NMap.get?_set_eq _ _ _), fileOf_none hnone]
      · rw [if_neg hf, NMap.get?_set_ne _ _ hf, NMap.get?_set_ne _ _ hf]
    refine ⟨m.ifileNum + 1, Or.inr rfl, rfl, hget, ?_, ?_⟩
    · intro f hf
      simp only at hf ⊢
      rw [hget]
      split
      · simp
      · exact h.all f (by omega)
    · intro f hf
      simp only at hf ⊢
      rw [hget, if_neg (by omega)]
      exact h.noFiles f (by omega)
  · rw [istep_noroll hg hroll]
    have hget : ∀ f, (d.ifiles.set m.ifileNum (fileOf d.ifiles m.ifileNum ++ idxRecBytes b rl)).get? f =
        if f = m.ifileNum then some (fileOf d.ifiles m.ifileNum ++ idxRecBytes b rl)
        else d.ifiles.get? f := fun f => NMap.get?_set _ _ _ _
    refine ⟨m.ifileNum, Or.inl rfl, rfl, hget, ?_, ?_⟩
    · intro f hf
      simp only at hf ⊢
      rw [hget]
      split
      · simp
      · exact h.all f hf
    · intro f hf
      simp only at hf ⊢
      rw [hget, if_neg (by omega)]
      exact h.noFiles f hf

/-- the rest of the fold leaves the files below the current one alone and extends the current one -/
theorem ifold_low {pool : NMap RecordList} : ∀ (order : List Nat) (m : Mem) (d : Disk)
    (blks : List (Nat × Nat)), FoldSt m d →
    m.ifileNum ≤ (order.foldl (iflushStep pool) (m, d, blks)).1.ifileNum ∧
    (∀ f, f < m.ifileNum →
      (order.foldl (iflushStep pool) (m, d, blks)).2.1.ifiles.get? f = d.ifiles.get? f) ∧
    (∃ g, (order.foldl (iflushStep pool) (m, d, blks)).2.1.ifiles.get? m.ifileNum =
      some (fileOf d.ifiles m.ifileNum ++ g)) ∧
    FoldSt (order.foldl (iflushStep pool) (m, d, blks)).1
      (order.foldl (iflushStep pool) (m, d, blks)).2.1
  | [], m, d, blks, h => by
    refine ⟨Nat.le_refl _, fun _ _ => rfl, ⟨[], ?_⟩, h⟩
    simp only [List.foldl_nil, List.append_nil]
    exact get_of_ne_none (h.all _ (Nat.le_refl _))
  | b :: order, m, d, blks, h => by
    rw [List.foldl_cons]
    cases hg : pool.get? b with
    | none =>
      rw [iflushStep_none hg]
      exact ifold_low order m d blks h
    | some rl =>
      obtain ⟨fn, hfn, e1, e2, e3⟩ := istep_shape (blks := blks) hg h
      generalize iflushStep pool (m, d, blks) b = st at e1 e2 e3 ⊢
      obtain ⟨m1, d1, blks1⟩ := st
      obtain ⟨i1, i2, ⟨g, i3⟩, i4⟩ := ifold_low (pool := pool) order m1 d1 blks1 e3
      simp only at e1 e2
      rw [e1] at i1 i2 i3
      refine ⟨by omega, ?_, ?_, i4⟩
      · intro f hf
        rw [i2 f (by omega), e2, if_neg (by omega)]
      · rcases hfn with hfn | hfn
        · subst hfn
          refine ⟨idxRecBytes b rl ++ g, ?_⟩
          rw [i3]
          have : fileOf d1.ifiles m.ifileNum =
              fileOf d.ifiles m.ifileNum ++ idxRecBytes b rl := by
            unfold fileOf; rw [e2, if_pos rfl]; rfl
          rw [this, List.append_assoc]
        · refine ⟨[], ?_⟩
          rw [i2 _ (by omega), e2, if_neg (by omega), List.append_nil]
          exact get_of_ne_none (h.all _ (Nat.le_refl _))

theorem isTorn_take {bits b : Nat} {rl : RecordList} (hok : RecLogOK bits (b, rl)) (t : Nat)
    (ht : t < (idxRecBytes b rl).length) : IsTorn bits ((idxRecBytes b rl).take t) :=
  ⟨b, rl, t, hok, ht, rfl⟩

theorem foldl_take_succ {α β : Type} (f : β → α → β) (x : α) (xs : List α) (j : Nat) (init : β) :
    ((x :: xs).take (j + 1)).foldl f init = (xs.take j).foldl f (f init x) := by
  simp [List.take_succ_cons]

/-- every cut through the index files of the fold is a torn extension of the table after a prefix of
    the fold -/
theorem idx_chain {bits : Nat} {pool : NMap RecordList}
    (hpool : ∀ b rl, pool.get? b = some rl → RecLogOK bits (b, rl)) :
    ∀ (order : List Nat) (m : Mem) (d : Disk) (blks : List (Nat × Nat)), FoldSt m d →
    ∀ fi, CutImg d.ifiles (order.foldl (iflushStep pool) (m, d, blks)).2.1.ifiles fi →
    ∃ j, j ≤ order.length ∧
      TornExt bits ((order.take j).foldl (iflushStep pool) (m, d, blks)).2.1.ifiles fi
        ((order.take j).foldl (iflushStep pool) (m, d, blks)).1.ifileNum
  | [], m, d, blks, h, fi, hc => by
    refine ⟨0, Nat.le_refl _, ?_⟩
    have hs := cutImg_self hc
    simp only [List.take_nil, List.foldl_nil]
    apply tornExt_mk h.all h.noFiles m.ifileNum [] (isTorn_nil bits) (Or.inl rfl)
      (fun f _ _ => hs f)
    · rw [hs, List.append_nil]; exact get_of_ne_none (h.all _ (Nat.le_refl _))
    · left; rw [hs]; exact h.noFiles _ (by omega)
    · intro f hf; rw [hs]; exact h.noFiles _ (by omega)
  | b :: order, m, d, blks, h, fi, hc => by
    rw [List.foldl_cons] at hc
    cases hg : pool.get? b with
    | none =>
      rw [iflushStep_none hg] at hc
      obtain ⟨j, hj, ht⟩ := idx_chain hpool order m d blks h fi hc
      refine ⟨j + 1, by simp only [List.length_cons]; omega, ?_⟩
      rw [foldl_take_succ, iflushStep_none hg]
      exact ht
    | some rl =>
      obtain ⟨fn, hfn, e1, e2, e3⟩ := istep_shape (blks := blks) hg h
      generalize hst : iflushStep pool (m, d, blks) b = st at e1 e2 e3 hc ⊢
      obtain ⟨m1, d1, blks1⟩ := st
      obtain ⟨i1, i2, ⟨g, i3⟩, i4⟩ := ifold_low (pool := pool) order m1 d1 blks1 e3
      simp only at e1 e2
      rw [e1] at i1 i2 i3
      have hfB : fileOf d1.ifiles fn =
          fileOf d.ifiles fn ++ idxRecBytes b rl := by
        unfold fileOf; rw [e2, if_pos rfl]; rfl
      rcases chain_step (bits := bits) (fun t ht => isTorn_take (hpool b rl hg) t ht) h.all h.noFiles hfn
        e2 i2 ⟨g, by rw [i3, hfB]⟩ hc with ht | hc'
      · refine ⟨0, Nat.zero_le _, ?_⟩
        simp only [List.take_zero, List.foldl_nil]
        exact ht
      · obtain ⟨j, hj, ht⟩ := idx_chain hpool order m1 d1 blks1 e3 fi hc'
        refine ⟨j + 1, by simp only [List.length_cons]; omega, ?_⟩
        rw [foldl_take_succ, hst]
        exact ht

/-! ### the log of an image -/

theorem scanTo_extend (max : Nat) {lgI lg' : Nat → List LRec} {fn : Nat}
    (hlow : ∀ f, f ≤ fn → lgI f = lg' f) : ∀ (k : Nat), (∀ f, fn < f → f ≤ fn + k → lgI f = []) →
    scanTo max lgI (fn + k) = scanTo max lg' fn
  | 0, _ => scanTo_congr max fn hlow
  | k + 1, h => by
    have e : fn + (k + 1) = (fn + k) + 1 := by omega
    rw [e]
    simp only [scanTo]
    rw [h (fn + k + 1) (by omega) (by omega)]
    simp only [scanRecs]
    exact scanTo_extend max hlow k (fun f h1 h2 => h f h1 (by omega))

/-- what recovery needs to know about the index files of an image: they are a log `lgI` with torn
    tails, the table a scan builds from it is the old table overwritten at the buckets `blks` of a prefix
    of the flush, and in the scanned (cleaned) files the old records and the records of `blks` can be
    read -/
def IdxImage (bits imax : Nat) (pool : NMap RecordList) (T0 : NMap Nat) (old fi : NMap Bytes) : Prop :=
  ∃ (M : Nat) (lgI : Nat → List LRec) (junk : Nat → Bytes) (blks : List (Nat × Nat)),
    (∀ f, f ≤ M → fi.get? f = some (logBytes (lgI f) ++ junk f)) ∧ (∀ f, M < f → fi.get? f = none) ∧
    (∀ f, f ≤ M → ∀ r ∈ lgI f, RecLogOK bits r) ∧ (∀ f, IsTorn bits (junk f)) ∧
    scanTo imax lgI M = setAll T0 blks ∧
    ∀ files' : NMap Bytes, (∀ f, f ≤ M → files'.get? f = some (logBytes (lgI f))) →
      FilesExt old files' ∧
      ∀ x ∈ blks, ∃ rl, pool.get? x.1 = some rl ∧ readDiskBucket files' imax x.2 = .ok (some rl)

theorem ifold_image {bits : Nat} {T0 : NMap Nat} {pool : NMap RecordList}
    (hwf : ∀ b rl, pool.get? b = some rl → FlushOK rl)
    (hpool : ∀ b rl, pool.get? b = some rl → RecLogOK bits (b, rl))
    (order : List Nat) (m : Mem) (d : Disk) (lg : Nat → List LRec)
    (hL : LogFold bits T0 lg m d []) (hp : 1 ≤ m.imax) (hfn : m.ifileNum + order.length < two32)
    (fi : NMap Bytes)
    (hc : CutImg d.ifiles (order.foldl (iflushStep pool) (m, d, [])).2.1.ifiles fi) :
    IdxImage bits m.imax pool T0 d.ifiles fi := by
  have hst : FoldSt m d := ⟨fun f hf => by rw [hL.files f hf]; simp, hL.noFiles⟩
  obtain ⟨j, hj, M, junk, hNM, hfi, hab, htorn⟩ := idx_chain hpool order m d [] hst fi hc
  have hlen : (order.take j).length ≤ order.length := by simp [List.length_take]; omega
  obtain ⟨fn, len, files, blks, g1, g2, g3, g4, g5, g6, _, _⟩ :=
    ifold_ok hwf (order.take j) m d [] hp hL.len hL.noFiles (by omega) (by simp)
  obtain ⟨lg', hL', _⟩ := ifold_log (T0 := T0) hpool (order.take j) m d [] lg hL
  rw [g1] at hL' hfi hNM
  have lfiles : ∀ f, f ≤ fn → files.get? f = some (logBytes (lg' f)) := hL'.files
  have lrecs : ∀ f, f ≤ fn → ∀ r ∈ lg' f, RecLogOK bits r := hL'.recs
  have ltable : scanTo m.imax lg' fn = setAll T0 blks := hL'.table
  have hNM' : fn ≤ M := hNM
  have hfi' : ∀ f, f ≤ M → fi.get? f = some (fileOf files f ++ junk f) := hfi
  refine ⟨M, fun f => if f ≤ fn then lg' f else [], junk, blks, ?_, hab, ?_, htorn, ?_, ?_⟩
  · intro f hf
    rw [hfi' f hf]
    by_cases hff : f ≤ fn
    · simp only [hff, if_true]
      rw [fileOf_some (lfiles f hff)]
    · simp only [hff, if_false]
      rw [fileOf_none (g4 f (by omega))]
      rfl
  · intro f hf r hr
    by_cases hff : f ≤ fn
    · simp only [hff, if_true] at hr
      exact lrecs f hff r hr
    · simp only [hff, if_false] at hr
      cases hr
  · obtain ⟨k, rfl⟩ : ∃ k, M = fn + k := ⟨M - fn, by omega⟩
    rw [← ltable]
    apply scanTo_extend
    · intro f hf; simp only [hf, if_true]
    · intro f h1 _
      rw [if_neg (by omega)]
  · intro files' hf'
    have hext : FilesExt files files' := by
      intro f file hfile
      have hff : f ≤ fn := by
        rcases Nat.lt_or_ge fn f with h | h
        · rw [g4 f h] at hfile; cases hfile
        · exact h
      rw [lfiles f hff] at hfile
      cases hfile
      refine ⟨[], ?_⟩
      rw [hf' f (by omega)]
      simp only [hff, if_true, List.append_nil]
    refine ⟨g2.trans hext, ?_⟩
    intro x hx
    obtain ⟨rl, r1, r2⟩ := g6 x hx
    exact ⟨rl, r1, readDiskBucket_mono hext r2⟩

/-! ### `idxFlush` -/

theorem idxFlush_image {m : Mem} {d : Disk} {order : List Nat} {lg : Nat → List LRec}
    (hI : IInv m d) (hL : LogAt lg m d)
    (hwf : ∀ b rl, m.inext.get? b = some rl → FlushOK rl)
    (hpool : ∀ b rl, m.inext.get? b = some rl → RecLogOK m.bits (b, rl))
    (hfn : m.ifileNum + order.length < two32) (fi : NMap Bytes)
    (hc : CutImg d.ifiles (idxFlush m d order).2.ifiles fi) :
    IdxImage m.bits m.imax m.inext (scanTo m.imax lg m.ifileNum) d.ifiles fi := by
  by_cases hne : m.inext.isEmpty = true
  · rw [idxFlush_empty hne] at hc
    have h0 : LogFold m.bits (scanTo m.imax lg m.ifileNum) lg m d [] :=
      ⟨hL.files, hL.recs, hI.len, hI.noFiles, rfl⟩
    exact ifold_image hwf hpool [] m d lg h0 hI.imax (by simp; omega) fi hc
  · have hne' : m.inext.isEmpty = false := by simpa using hne
    rw [idxFlush_eq hne'] at hc
    have h0 : LogFold m.bits (scanTo m.imax lg m.ifileNum) lg { m with icur := m.inext, inext := [] }
        d [] := ⟨hL.files, hL.recs, hI.len, hI.noFiles, rfl⟩
    exact ifold_image hwf hpool order { m with icur := m.inext, inext := [] } d lg h0 hI.imax hfn fi hc

theorem iflushStep_sorted {pool : NMap RecordList} (acc : Mem × Disk × List (Nat × Nat)) (b : Nat)
    (h : NMap.Sorted acc.2.1.ifiles) : NMap.Sorted (iflushStep pool acc b).2.1.ifiles := by
  obtain ⟨m, d, blks⟩ := acc
  unfold iflushStep
  simp only
  split
  · exact h
  · split
    · split
      · exact NMap.sorted_set _ _ h
      · exact NMap.sorted_set _ _ (NMap.sorted_set _ _ h)
    · exact NMap.sorted_set _ _ h

theorem ifold_sorted {pool : NMap RecordList} : ∀ (order : List Nat) (acc : Mem × Disk × List (Nat × Nat)),
    NMap.Sorted acc.2.1.ifiles → NMap.Sorted (order.foldl (iflushStep pool) acc).2.1.ifiles
  | [], _, h => h
  | b :: order, acc, h => by
    rw [List.foldl_cons]
    exact ifold_sorted order _ (iflushStep_sorted acc b h)

theorem idxFlush_sorted {m : Mem} {d : Disk} {order : List Nat} (h : NMap.Sorted d.ifiles) :
    NMap.Sorted (idxFlush m d order).2.ifiles := by
  by_cases hne : m.inext.isEmpty = true
  · rw [idxFlush_empty hne]; exact h
  · have hne' : m.inext.isEmpty = false := by simpa using hne
    rw [idxFlush_eq hne']
    exact ifold_sorted order _ h

/-- the index files before and after `idxFlush` form an ordered family -/
theorem idxFlush_seg {m : Mem} {d : Disk} {order : List Nat} (hs : NMap.Sorted d.ifiles)
    (hst : FoldSt m d) : ∃ P', SegOK d.ifiles (idxFlush m d order).2.ifiles m.ifileNum P' := by
  have hsort := idxFlush_sorted (m := m) (order := order) hs
  by_cases hne : m.inext.isEmpty = true
  · rw [idxFlush_empty hne] at hsort ⊢
    refine ⟨m.ifileNum, hsort, Nat.le_refl _, hst.all, hst.noFiles, hst.all, hst.noFiles, fun _ _ => rfl,
      ⟨[], ?_⟩⟩
    rw [List.append_nil]
    exact get_of_ne_none (hst.all _ (Nat.le_refl _))
  · have hne' : m.inext.isEmpty = false := by simpa using hne
    rw [idxFlush_eq hne'] at hsort ⊢
    have hst0 : FoldSt { m with icur := m.inext, inext := [] } d := ⟨hst.all, hst.noFiles⟩
    obtain ⟨i1, i2, i3, i4⟩ := ifold_low (pool := m.inext) order { m with icur := m.inext, inext := [] }
      d [] hst0
    exact ⟨_, hsort, i1, hst.all, hst.noFiles, i4.all, i4.noFiles, i2, i3⟩

end Sth
