/-
Iteration (C01, layer 2): after a flush, draining the iterator yields exactly the records of the
specification map (up to order, which `sortPairs` removes).
Core Lean only.
-/
import Sth.Lemmas.StoreFlush
import Sth.Lemmas.SortPairs

namespace Sth

def kvOf (m : Mem) (d : Disk) (e : Entry) : Option (Bytes × Bytes) :=
  match priGet m d e.blk with
  | .got k v => some (k, v)
  | _ => none

/-- what one bucket-table entry contributes to the iteration -/
def contrib (m : Mem) (d : Disk) (x : Nat × Nat) : List (Bytes × Bytes) :=
  if x.2 = 0 then [] else
  match idxRecords m d x.1 with
  | .ok (some rl) => rl.filterMap (kvOf m d)
  | _ => []

/-- the body of the fold in `storeIter` -/
def iterStep (m : Mem) (d : Disk) (acc : List (Bytes × Bytes)) (x : Nat × Nat) :
    Except Err (List (Bytes × Bytes)) :=
  if x.2 = 0 then pure acc else
  let recs : Except Err (Option RecordList) :=
    match m.inext.get? x.1 with
    | some rl => .ok (some rl)
    | none => match m.icur.get? x.1 with
      | some rl => .ok (some rl)
      | none => readDiskBucket d.ifiles m.imax x.2
  match recs with
  | .error e => .error e
  | .ok none => pure acc
  | .ok (some rl) =>
    pure (acc ++ rl.filterMap fun e =>
      match priGet m d e.blk with
      | .got k v => some (k, v)
      | _ => none)

theorem storeIter_eq (m : Mem) (d : Disk) : storeIter m d = m.buckets.foldlM (iterStep m d) [] := rfl

theorem iterStep_eq {m : Mem} {d : Disk} {acc : List (Bytes × Bytes)} {x : Nat × Nat}
    (hget : m.buckets.get? x.1 = some x.2) (hok : ∃ o, idxRecords m d x.1 = .ok o) :
    iterStep m d acc x = .ok (acc ++ contrib m d x) := by
  unfold iterStep contrib
  by_cases h0 : x.2 = 0
  · simp only [h0, if_true, List.append_nil]; rfl
  · simp only [h0, if_false]
    obtain ⟨o, ho⟩ := hok
    have : (match m.inext.get? x.1 with
      | some rl => Except.ok (some rl)
      | none => match m.icur.get? x.1 with
        | some rl => Except.ok (some rl)
        | none => readDiskBucket d.ifiles m.imax x.2) = idxRecords m d x.1 := by
      unfold idxRecords; rw [hget]; rfl
    rw [this, ho]
    cases o with
    | none => simp only [List.append_nil]; rfl
    | some rl => rfl

theorem iterFold_eq {m : Mem} {d : Disk} (hok : ∀ b, ∃ o, idxRecords m d b = .ok o) :
    ∀ (bks : List (Nat × Nat)) (acc : List (Bytes × Bytes)),
      (∀ x ∈ bks, m.buckets.get? x.1 = some x.2) →
      bks.foldlM (iterStep m d) acc = .ok (acc ++ bks.flatMap (contrib m d))
  | [], acc, _ => by simp [List.foldlM]; rfl
  | x :: bks, acc, h => by
    rw [List.foldlM_cons, iterStep_eq (h x (by simp)) (hok x.1)]
    have := iterFold_eq hok bks (acc ++ contrib m d x) (fun y hy => h y (by simp [hy]))
    simp only [List.flatMap_cons, ← List.append_assoc]
    exact this

section
variable {U : List (Bytes × Bytes)} {m : Mem} {d : Disk} {spec : Spec}

/-- where an iterated pair comes from -/
theorem contrib_mem (hU : Univ m.kind U) (h31 : m.bits ≤ 31) (hA : SInv U m d spec)
    {x : Nat × Nat} {p : Bytes × Bytes} (hp : p ∈ contrib m d x) :
    ∃ dig, (p.1, dig) ∈ U ∧ bucketOfKey m.bits dig = some x.1 ∧ Spec.get spec dig = some (p.1, p.2) := by
  unfold contrib at hp
  split at hp
  · cases hp
  · obtain ⟨orl, h1, h2, h3⟩ := hA.recs x.1
    rw [h1] at hp
    cases orl with
    | none => cases hp
    | some rl =>
      simp only [List.mem_filterMap] at hp
      obtain ⟨e, he, hkv⟩ := hp
      obtain ⟨key, val, dig, a1, a2, a3, a4, _⟩ := (h3 e he).own hU h31
      unfold kvOf at hkv
      rw [a1] at hkv
      cases hkv
      exact ⟨dig, a2, a3, a4⟩

theorem contrib_pairwise (hU : Univ m.kind U) (h31 : m.bits ≤ 31) (hA : SInv U m d spec)
    (x : Nat × Nat) : (contrib m d x).Pairwise (fun p q => p.1 ≠ q.1) := by
  unfold contrib
  split
  · exact List.Pairwise.nil
  · obtain ⟨orl, h1, h2, h3⟩ := hA.recs x.1
    rw [h1]
    cases orl with
    | none => exact List.Pairwise.nil
    | some rl =>
      simp only [Option.getD_some] at h2 h3
      simp only
      rw [List.pairwise_filterMap]
      have hnd := h2.distinctBlocks
      rw [List.nodup_iff_pairwise_ne, List.pairwise_map] at hnd
      apply List.Pairwise.imp_of_mem _ hnd
      intro a b ha hb hne p hp q hq heq
      obtain ⟨k1, v1, d1, a1, a2, _, _, a5⟩ := (h3 a ha).own hU h31
      obtain ⟨k2, v2, d2, b1, b2, _, _, b5⟩ := (h3 b hb).own hU h31
      unfold kvOf at hp hq
      rw [a1] at hp
      rw [b1] at hq
      cases hp
      cases hq
      simp only at heq
      subst heq
      have e1 := (hU.dig a2).1
      have e2 := (hU.dig b2).1
      rw [e1] at e2
      cases e2
      exact hne (by rw [h2.owner_unique ha hb a5 b5])

theorem storeIter_ok (hU : Univ m.kind U) (h31 : m.bits ≤ 31) (hA : SInv U m d spec) (hI : IInv m d)
    (hne : m.inext = []) (hnd : (spec.map (·.1)).Nodup) :
    ∃ L, storeIter m d = .ok L ∧
      sortPairs L = sortPairs (spec.map fun x => (x.2.1, x.2.2)) := by
  have hok : ∀ b, ∃ o, idxRecords m d b = .ok o := fun b => by
    obtain ⟨orl, h1, _⟩ := hA.recs b
    exact ⟨orl, h1⟩
  refine ⟨m.buckets.flatMap (contrib m d), ?_, ?_⟩
  · rw [storeIter_eq, iterFold_eq hok m.buckets [] (fun x hx => NMap.get?_of_mem_sorted hI.sorted hx)]
    simp
  · -- distinct keys
    have hpw : (m.buckets.flatMap (contrib m d)).Pairwise (fun p q => p.1 ≠ q.1) := by
      rw [List.pairwise_flatMap]
      refine ⟨fun x _ => contrib_pairwise hU h31 hA x, ?_⟩
      have hs := hI.sorted
      unfold NMap.Sorted at hs
      rw [List.pairwise_map] at hs
      apply List.Pairwise.imp _ hs
      intro a b hab p hp q hq heq
      obtain ⟨d1, a1, a2, _⟩ := contrib_mem hU h31 hA hp
      obtain ⟨d2, b1, b2, _⟩ := contrib_mem hU h31 hA hq
      rw [heq] at a1
      have e1 := (hU.dig a1).1
      have e2 := (hU.dig b1).1
      rw [e1] at e2
      cases e2
      rw [a2] at b2
      have := Option.some.inj b2
      omega
    have hspecU : ∀ x ∈ spec, (x.2.1, x.1) ∈ U := by
      intro x hx
      obtain ⟨dig, key, val⟩ := x
      obtain ⟨_, _, _, _, _, _, _, h5⟩ := hA.complete dig key val (Spec.get_of_mem hnd hx)
      exact h5
    apply sortPairs_perm_eq
    · rw [List.perm_ext_iff_of_nodup]
      · intro p
        constructor
        · intro hp
          obtain ⟨x, _, hx⟩ := List.mem_flatMap.mp hp
          obtain ⟨dig, _, _, a3⟩ := contrib_mem hU h31 hA hx
          exact List.mem_map.mpr ⟨(dig, p.1, p.2), Spec.mem_of_get a3, rfl⟩
        · intro hp
          obtain ⟨x, hx, rfl⟩ := List.mem_map.mp hp
          obtain ⟨dig, key, val⟩ := x
          obtain ⟨b, rl, e, c1, c2, c3, c4, c5⟩ := hA.complete dig key val (Spec.get_of_mem hnd hx)
          -- the bucket is in the table
          have hdisk : readDiskBucket d.ifiles m.imax ((m.buckets.get? b).getD 0) = .ok (some rl) := by
            have c2' := c2
            unfold idxRecords at c2'
            rw [hne] at c2'
            simp only [NMap.get?_nil] at c2'
            cases hc : m.icur.get? b with
            | some rl' =>
              rw [hc] at c2'
              simp only [Except.ok.injEq, Option.some.injEq] at c2'
              subst c2'
              exact hI.curDisk b rl' hc
            | none =>
              rw [hc] at c2'
              exact c2'
          have hpos : ∃ pos, m.buckets.get? b = some pos ∧ pos ≠ 0 := by
            cases hg : m.buckets.get? b with
            | none =>
              rw [hg] at hdisk
              simp only [Option.getD_none, readDiskBucket_zero] at hdisk
              cases hdisk
            | some pos =>
              refine ⟨pos, rfl, ?_⟩
              rintro rfl
              rw [hg] at hdisk
              simp only [Option.getD_some, readDiskBucket_zero] at hdisk
              cases hdisk
          obtain ⟨pos, hg, hp0⟩ := hpos
          refine List.mem_flatMap.mpr ⟨(b, pos), NMap.mem_of_get? hg, ?_⟩
          unfold contrib
          simp only [hp0, if_false, c2]
          refine List.mem_filterMap.mpr ⟨e, c3, ?_⟩
          unfold kvOf
          rw [c4]
      · rw [List.nodup_iff_pairwise_ne]
        exact hpw.imp (fun h heq => h (by rw [heq]))
      · rw [List.nodup_iff_pairwise_ne, List.pairwise_map]
        rw [List.nodup_iff_pairwise_ne, List.pairwise_map] at hnd
        apply List.Pairwise.imp_of_mem _ hnd
        intro x y hx hy hne heq
        have a1 := hspecU x hx
        have b1 := hspecU y hy
        simp only [Prod.mk.injEq] at heq
        rw [heq.1] at a1
        have e1 := (hU.dig a1).1
        have e2 := (hU.dig b1).1
        rw [e1] at e2
        exact hne (Option.some.inj e2)
    · rw [List.nodup_iff_pairwise_ne, List.pairwise_map]
      exact hpw

end

end Sth
