/-
C06 — the relocation window of primary GC, part 2: the finish step, from whatever state the window
left.  `FinPre` collects what is known there (the GC invariant for the map after the window calls, and
the tracked facts about the copy and the old record); `finish_g` shows that `relocFinish` re-establishes
the GC invariant for the SAME map on both paths — the index is re-pointed exactly when it still names
the old block, and then the entry's record is still the copied one; otherwise copy and old location go
to the freelist — and accounts for what is recorded.
Core Lean only.
-/
import Sth.Lemmas.C06W1

namespace Sth.C06W

open Sth.C11 Sth.C13H Sth.C13X

/-- what is known when the collector comes back from the window -/
structure FinPre (c : Cfg) (U : List (Bytes × Bytes)) (s : SState) (spec : Spec) (n B : Nat)
    (l : RelocLocal) (key val : Bytes) (fnum at_ : Nat) (ss0 : List GSpan) : Prop where
  g : GInv c U s spec n B
  copy : CopyAt s.m s.d l.loc key val
  old : OldAt s.m s.d fnum ss0
  span : (at_, key ++ val) ∈ liveAt 0 ss0
  rn : readNode .mh (key ++ val) = some (key, val)
  ik : indexKeyOf .mh key = some l.ik
  oldb : l.old = ⟨s.m.pmax * fnum + at_, (key ++ val).length⟩
  below : Below s.m l.loc
  noent : ∀ blk, IsEnt s.m s.d blk → blk.off ≠ l.loc.off
  norec : ∀ fb ∈ recordedG s, fb.off ≠ l.loc.off
  size : l.loc.size = key.length + val.length
  off : l.loc.off < two64
  nodup : (recordedG s).Nodup

section
variable {c : Cfg} {U : List (Bytes × Bytes)} {cfg : Cfg} {m : Mem} {d : Disk} {spec : Spec}
  {n B : Nat}

/-- the copy reads as the copied record -/
theorem copy_read (hG : GInv c U ⟨cfg, m, d⟩ spec n B) (hn : n < 1073741824) {loc : Block}
    {key val : Bytes} (hC : CopyAt m d loc key val) (hb : Below m loc)
    (hrn : readNode .mh (key ++ val) = some (key, val)) : priGet m d loc = .got key val := by
  have hk : m.kind = .mh := hG.kind
  have hp : 1 ≤ m.pmax := hG.pmax1
  obtain ⟨pf, psp, zh, zl, hpl⟩ := hC.place
  rcases hpl with ⟨r, hr, x1, x2, x3⟩ | ⟨ho, hcur⟩
  · have hne := poolFind_of_mem hr
    rw [x1] at hne
    cases h1 : poolFind m.pnext loc with
    | none => exact absurd h1 hne
    | some r' =>
      obtain ⟨hr', hb'⟩ := poolFind_some h1
      have hoff := (allocMh_offsets hp hG.alloc).2
      have : r' = r := by
        have hoff' : r'.blk.off = r.blk.off := by rw [hb', x1]
        clear x2 x3 hb' x1 h1 hne
        generalize m.pnext = l at hr' hr hoff
        induction l with
        | nil => cases hr'
        | cons x l ih =>
          simp only [List.map_cons, List.pairwise_cons] at hoff
          simp only [List.mem_cons] at hr' hr
          rcases hr' with rfl | h1 <;> rcases hr with rfl | h2
          · rfl
          · have := hoff.1 _ (List.mem_map_of_mem h2); omega
          · have := hoff.1 _ (List.mem_map_of_mem h1); omega
          · exact ih h1 h2 hoff.2
      rw [priGet_eq, h1, this]
      simp only [x2, x3]
  · have h1 : poolFind m.pnext loc = none := by
      cases h1 : poolFind m.pnext loc with
      | none => rfl
      | some r =>
        exfalso
        obtain ⟨hr, hbr⟩ := poolFind_some h1
        obtain ⟨f, lp, y1, y2, y3, y4, _⟩ := ho
        have := pnext_off_gt hk hp zl hG.alloc hG.plen hr y2 y3 y4
        rw [hbr, y1] at this
        omega
    have h32 : m.precFileNum < two32 := by
      have : m.precFileNum ≤ n := hG.cntF
      unfold two32; omega
    rw [priGet_onDisk hk hp h32 zl (GInv.pfile_le (s := ⟨cfg, m, d⟩) hG) hb ho h1]
    cases h2 : poolFind m.pcur loc with
    | some r =>
      obtain ⟨hr, hbr⟩ := poolFind_some h2
      obtain ⟨e1, e2⟩ := hcur r hr hbr
      simp only [e1, e2]
    | none => simp only [hrn]

end

section
variable {U : List (Bytes × Bytes)} {m m' : Mem} {d : Disk} {spec : Spec} {pf : Nat}
  {psp : Nat → List GSpan}

/-- the entries after one entry of a bucket has been re-pointed at a block that no entry names -/
theorem ents_after_repoint (hU : Univ m.kind U) (hk : m.kind = .mh) (h31 : m.bits ≤ 31)
    (hp : 1 ≤ m.pmax) (hA : SInv U m d spec) (hl : PriLog m d pf psp) (he : EntOK m d pf psp)
    (halloc : allocMh m.pmax m.pfileNum m.plength m.pnext m.precFileNum m.precPos)
    (hplen : (fileOf d.pfiles m.pfileNum).length = m.plength)
    {b : Nat} {pre post X : RecordList} {e : Entry} {loc : Block}
    (hold : idxRecords m d b = .ok (some (pre ++ e :: post)))
    (hnew : ∀ b', idxRecords m' d b' =
      if b' = b then .ok (some (pre ++ X ++ post)) else idxRecords m d b')
    (hX : ∀ x ∈ X, x.blk = loc) (hloc : loc.off ≠ e.blk.off) :
    (∀ blk, IsEnt m' d blk → blk = loc ∨ IsEnt m d blk) ∧
      (∀ blk, IsEnt m' d blk → blk.off ≠ e.blk.off) := by
  have hnd := (ent_blockOK hA hold (e := e) (by simp)).2.distinctBlocks
  simp only [List.map_append, List.map_cons] at hnd
  have hnn := nodup_middle_notin hnd
  have hcase : ∀ b' rl' e', idxRecords m' d b' = .ok (some rl') → e' ∈ rl' →
      e'.blk = loc ∨ (∃ rl, idxRecords m d b' = .ok (some rl) ∧ e' ∈ rl ∧ (b' = b → e' ≠ e)) := by
    intro b' rl' e' hr he'
    rw [hnew b'] at hr
    by_cases hbb : b' = b
    · rw [if_pos hbb] at hr
      simp only [Except.ok.injEq, Option.some.injEq] at hr
      subst hr
      simp only [List.mem_append] at he'
      rcases he' with (h | h) | h
      · right
        refine ⟨_, by rw [hbb]; exact hold, by simp [h], fun _ hc => ?_⟩
        exact hnn.1 (by rw [← hc]; exact List.mem_map_of_mem h)
      · exact Or.inl (hX e' h)
      · right
        refine ⟨_, by rw [hbb]; exact hold, by simp [h], fun _ hc => ?_⟩
        exact hnn.2 (by rw [← hc]; exact List.mem_map_of_mem h)
    · rw [if_neg hbb] at hr
      exact Or.inr ⟨rl', hr, he', fun h => absurd h hbb⟩
  constructor
  · rintro blk ⟨b', rl', e', hr, he', rfl⟩
    rcases hcase b' rl' e' hr he' with h | ⟨rl, h1, h2, _⟩
    · exact Or.inl h
    · exact Or.inr ⟨b', rl, e', h1, h2, rfl⟩
  · rintro blk ⟨b', rl', e', hr, he', rfl⟩ hoff
    rcases hcase b' rl' e' hr he' with h | ⟨rl, h1, h2, h3⟩
    · rw [h] at hoff; exact hloc hoff
    · obtain ⟨q1, q2⟩ := ent_off_unique hU hk h31 hp hA hl he halloc hplen h1 h2 hold (e2 := e)
        (by simp) hoff
      exact h3 q1 q2

end

section
variable {c : Cfg} {U : List (Bytes × Bytes)} {s : SState} {spec : Spec} {n B : Nat}
  {l : RelocLocal} {key val : Bytes} {fnum at_ : Nat} {ss0 : List GSpan}

/-- what the finish step did -/
inductive FinOut (s : SState) (l : RelocLocal) : Prop
  /-- the index still named the old block: it now names the copy, the old location is recorded (it was
      an index entry's block until now, hence recorded nowhere: exactly once) -/
  | moved (hent : IsEnt s.m s.d l.old)
      (hrec : recordedG { s with m := relocFinish s.m s.d l } = recordedG s ++ [l.old])
      (hnd : (recordedG { s with m := relocFinish s.m s.d l }).Nodup)
      (hget : idxGet (relocFinish s.m s.d l) s.d l.ik = .ok (some l.loc))
      (hents : ∀ blk, IsEnt (relocFinish s.m s.d l) s.d blk → blk = l.loc ∨ IsEnt s.m s.d blk)
      (hbelow : ∀ blk, Below s.m blk → Below (relocFinish s.m s.d l) blk) : FinOut s l
  /-- the index no longer names the old block (no entry has even its offset): nothing is re-pointed,
      the copy — recorded nowhere until now — and the old location are recorded -/
  | refused (hno : ∀ blk, IsEnt s.m s.d blk → blk.off ≠ l.old.off)
      (hidx : ∀ b, idxRecords (relocFinish s.m s.d l) s.d b = idxRecords s.m s.d b)
      (hrec : recordedG { s with m := relocFinish s.m s.d l } = recordedG s ++ [l.loc, l.old])
      (hnd : (recordedG s ++ [l.loc]).Nodup) : FinOut s l

/-- the finish step, from whatever state the window left: the GC invariant holds again, for the SAME
    map — nothing the window calls did is undone, nothing is resurrected — and the freelist accounts for
    the old location and, on the refused path, the copy -/
theorem finish_g (hU : Univ c.kind U) (h : FinPre c U s spec n B l key val fnum at_ ss0)
    (hn : n + 1 < 1073741824) :
    GInv c U { s with m := relocFinish s.m s.d l } spec (n + 1) B ∧ FinOut s l := by
  obtain ⟨cfg, m, d⟩ := s
  have hG : GInv c U ⟨cfg, m, d⟩ spec n B := h.g
  have hU' := hG.univ hU
  have hk : m.kind = .mh := hG.kind
  have hp : 1 ≤ m.pmax := hG.pmax1
  have h31 : m.bits ≤ 31 := hG.bits31
  have hA : SInv U m d spec := hG.a
  obtain ⟨pf, psp, zh, zl, ze, zf⟩ := hG.z
  have zh : d.phdr = some ⟨m.pmax, pf⟩ := zh
  have zl : PriLog m d pf psp := zl
  have ze : EntOK m d pf psp := ze
  have zf : FlInv m d pf psp := zf
  have hS : GState c U cfg m d spec n B pf psp := ⟨hG, zh, zl, ze, zf⟩
  obtain ⟨hpf, hps⟩ := h.old.live (m := m) (d := d) zh zl
  have hx : (at_, key ++ val) ∈ liveAt 0 (psp fnum) := by rw [hps]; exact h.span
  have h2 : fnum < m.pfileNum := h.old.closed
  have hat : at_ < m.pmax := zl.starts fnum hpf (by omega) _ hx
  have hblen : (key ++ val).length < two31 := zl.ok fnum hpf (by omega) ⟨false, key ++ val⟩ (by
    obtain ⟨a, b, e, _⟩ := liveAt_split (psp fnum) 0 at_ (key ++ val) hx
    rw [e]; simp)
  have holdE : l.old = ⟨m.pmax * fnum + at_, (key ++ val).length⟩ := h.oldb
  have hle : m.pfileNum ≤ m.precFileNum := GInv.pfile_le (s := ⟨cfg, m, d⟩) hG
  have holdB : Below m l.old := by
    rw [holdE]
    unfold Below
    simp only [hk]
    exact ⟨fnum, at_, rfl, hat, Or.inl (by show fnum < m.precFileNum; omega)⟩
  have hcr : priGet m d l.loc = .got key val :=
    copy_read hG (by omega) h.copy h.below h.rn
  have hrecL := rec_lists hS
  cases hre : idxRelocate m d l.ik l.old l.loc with
  | ok m3 =>
    obtain ⟨b, rl, i, e, q1, q2, q3, q4, q5⟩ := idxRelocate_ok_inv hre
    subst q5
    have hem : e ∈ rl := getRec_mem q3
    obtain ⟨t1, t2, dig, t3, t4, t5, t6⟩ := ent_at_span (m := m) (d := d) hU' hk h31 hp hA zl ze
      hG.alloc hG.plen hpf (by omega) hx h.rn q2 hem (by rw [q4, holdE])
    have hdig : dig = l.ik := by
      have := (hU'.dig t3).1
      rw [hk, h.ik] at this
      exact (Option.some.inj this).symm
    have hstrip := stripKey_of_bucket m.bits h31 dig b t4
    rw [← hdig, hstrip.1] at q3
    simp only [Option.getD_some] at q3
    obtain ⟨hBe, ho⟩ := ent_blockOK hA q2 hem
    obtain ⟨pre, post, rfl⟩ := List.append_of_mem hem
    have hB : ∀ x ∈ pre ++ e :: post, BlockOK m.kind m.bits U (priGet m d) (Below m) spec b x.blk :=
      fun x hx' => (ent_blockOK hA q2 hx').1
    have hi : i = pre.length := by
      have := ho.getRec_owner t5
      rw [q3] at this
      simp only [Option.some.injEq, Prod.mk.injEq] at this
      exact this.1
    subst hi
    have hent : IsEnt m d l.old := ⟨b, _, e, q2, by simp, q4⟩
    have hown' : ownOf m.kind m.bits (priGet m d) l.loc = some (dig.drop (m.bits / 8)) :=
      ownOf_got hcr (hU'.dig t3).1 hstrip.1
    have hfresh : l.loc ∉ (pre ++ e :: post).map (·.blk) := by
      intro hm
      obtain ⟨x, hx', heq⟩ := List.mem_map.mp hm
      exact h.noent x.blk ⟨b, _, x, q2, hx', rfl⟩ (by rw [heq])
    obtain ⟨_, horl'⟩ := indexUpdate_ok' ho t5 hown' hfresh
    have hblk : ∀ x ∈ pre ++ (⟨e.pfx, l.loc⟩ : Entry) :: post,
        BlockOK m.kind m.bits U (priGet m d) (Below m) spec b x.blk := by
      intro x hx'
      simp only [List.mem_append, List.mem_cons] at hx'
      rcases hx' with h' | rfl | h'
      · exact hB x (by simp [h'])
      · refine ⟨⟨key, val, dig, hcr, t3, t4, h.size, t6⟩, h.below, h.off, ?_⟩
        show l.loc.size < two31
        rw [h.size]
        simpa using hblen
      · exact hB x (by simp [h'])
    have hnorm := normRL_of_wf (wf_of_inv hU' h31 horl' hblk)
    have hfin : relocFinish m d l = addFree (setNext m b
        (pre ++ (⟨e.pfx, l.loc⟩ : Entry) :: post)) l.old := by
      unfold relocFinish
      simp only [hre]
      rw [putKeys_split]
      have e1 : pre ++ [(⟨e.pfx, l.loc⟩ : Entry)] ++ post = pre ++ (⟨e.pfx, l.loc⟩ : Entry) :: post := by
        simp
      rw [e1, hnorm]
      rfl
    rw [hfin]
    have hAnew : AInv m.kind m.bits U
        (priGet (addFree (setNext m b (pre ++ (⟨e.pfx, l.loc⟩ : Entry) :: post)) l.old) d)
        (idxRecords (addFree (setNext m b (pre ++ (⟨e.pfx, l.loc⟩ : Entry) :: post)) l.old) d)
        (Below (addFree (setNext m b (pre ++ (⟨e.pfx, l.loc⟩ : Entry) :: post)) l.old)) spec := by
      apply AInv.change hU' hA t4 (dig := dig)
        (rl' := pre ++ (⟨e.pfx, l.loc⟩ : Entry) :: post)
      · intro blk k v _ hgt
        rw [priGet_addFree, priGet_setNext]; exact hgt
      · intro blk hbl
        rw [below_addFree, below_setNext]; exact hbl
      · intro _ _; rfl
      · intro b' hne
        rw [idxRecords_addFree, idxRecords_setNext', if_neg hne]
      · rw [idxRecords_addFree, idxRecords_setNext', if_pos rfl]
      · rw [priGet_addFree, priGet_setNext]; exact horl'
      · rw [priGet_addFree, priGet_setNext, below_addFree, below_setNext]; exact hblk
      · intro key1 val1 hg1
        rw [t6] at hg1
        cases hg1
        exact ⟨⟨e.pfx, l.loc⟩, by simp, by rw [priGet_addFree, priGet_setNext]; exact hcr, t3⟩
      · intro rl' hrl x hx' hnot
        rw [q2] at hrl
        cases hrl
        simp only [List.mem_append, List.mem_cons] at hx'
        rcases hx' with h' | rfl | h'
        · exact ⟨x, by simp [h'], rfl⟩
        · exact absurd t3 (hnot _ _ t2)
        · exact ⟨x, by simp [h'], rfl⟩
    have hidx : ∀ b', idxRecords (addFree (setNext m b
          (pre ++ (⟨e.pfx, l.loc⟩ : Entry) :: post)) l.old) d b' =
        if b' = b then .ok (some (pre ++ [(⟨e.pfx, l.loc⟩ : Entry)] ++ post))
        else idxRecords m d b' := by
      intro b'
      rw [idxRecords_addFree, idxRecords_setNext']
      simp
    have hlocoff : l.loc.off ≠ e.blk.off := fun hc => h.noent e.blk ⟨b, _, e, q2, by simp, rfl⟩ hc.symm
    obtain ⟨hents, hnoent⟩ := ents_after_repoint hU' hk h31 hp hA zl ze hG.alloc hG.plen q2 hidx
      (by simp) hlocoff
    have hfreed := freeOK_old_entry (m' := addFree (setNext m b
        (pre ++ (⟨e.pfx, l.loc⟩ : Entry) :: post)) l.old)
      hA zl ze ⟨b, _, e, q2, by simp, rfl⟩ (fun blk hb => hb) rfl rfl (fun r hr => hr) hnoent
    rw [q4] at hfreed
    -- the copy in the log of the invariant
    obtain ⟨pf', psp', zh', zl', hpl⟩ := h.copy.place
    obtain ⟨e1, e2⟩ := prilog_unique (m := m) (d := d) zh zh' zl zl'
    rw [e1] at zh' zl' hpl
    have hplace : (∃ r ∈ m.pnext, r.blk = l.loc ∧ r.key = key ∧ r.val = val) ∨
        OnDisk m pf psp l.loc (key ++ val) := by
      rcases hpl with hq | ⟨⟨f, lp, y1, y2, y3, y4, y5⟩, _⟩
      · exact Or.inl hq
      · exact Or.inr ⟨f, lp, y1, y2, y3, by rw [← e2 f y2 y3]; exact y4, y5⟩
    obtain ⟨L1, L2, r1, r2, f1, f2, f3⟩ := hrecL
    have hz : ZInv (addFree (setNext m b (pre ++ (⟨e.pfx, l.loc⟩ : Entry) :: post)) l.old) d := by
      refine ⟨pf, psp, zh, zl.frame rfl rfl, ?_, L1, L2, f1, f2, ?_⟩
      · intro blk hb
        rcases hents blk hb with rfl | hold
        · refine ⟨key, val, by rw [priGet_addFree, priGet_setNext]; exact hcr, ?_⟩
          rcases hplace with hq | hq
          · exact Or.inl hq
          · exact Or.inr (hq.frame rfl rfl)
        · obtain ⟨k, v, g1, g2⟩ := ze blk hold
          refine ⟨k, v, by rw [priGet_addFree, priGet_setNext]; exact g1, ?_⟩
          rcases g2 with g2 | g2
          · exact Or.inl g2
          · exact Or.inr (g2.frame rfl rfl)
      · intro fb hfb
        have hfb' : fb ∈ (m.flpool ++ [l.old]) ++ L1 ++ L2 := hfb
        simp only [List.mem_append, List.mem_singleton] at hfb'
        have hold : fb ∈ m.flpool ++ L1 ++ L2 → FreeOK (addFree (setNext m b
            (pre ++ (⟨e.pfx, l.loc⟩ : Entry) :: post)) l.old) d pf psp fb := by
          intro hh
          obtain ⟨p1, p2, p3, p4, p5⟩ := f3 fb hh
          refine ⟨p1, ?_, p3.frame rfl rfl (fun r hr => hr), p4, p5⟩
          intro blk hent'
          rcases hents blk hent' with rfl | hold
          · intro hc
            apply h.norec fb _ hc.symm
            rw [mem_recordedG]
            show fb ∈ flEntries d ∨ fb ∈ flGcEntries d ∨ fb ∈ m.flpool
            rw [r1, r2]
            simp only [List.mem_append] at hh
            rcases hh with (h' | h') | h'
            · exact Or.inr (Or.inr h')
            · exact Or.inl h'
            · exact Or.inr (Or.inl h')
          · exact p2 blk hold
        rcases hfb' with ((h' | h') | h') | h'
        · exact hold (by simp [h'])
        · rw [h']; exact hfreed
        · exact hold (by simp [h'])
        · exact hold (by simp [h'])
    have hGnew := ginv_rm (s := ⟨cfg, m, d⟩) hG (frame_addFree_setNext m b _ l.old) rfl
      (bucket_lt _ _ _ t4) hAnew hG.nodup hG.w hz
    refine ⟨hGnew, FinOut.moved hent ?_ ?_ ?_ (by rw [hfin]; exact hents)
      (by rw [hfin]; exact fun _ hb => hb)⟩
    · rw [hfin]
      unfold recordedG
      show flEntries d ++ flGcEntries d ++ (m.flpool ++ [l.old]) = _
      simp [List.append_assoc]
    · rw [hfin]
      have e3 : recordedG ⟨cfg, addFree (setNext m b (pre ++ (⟨e.pfx, l.loc⟩ : Entry) :: post)) l.old, d⟩
          = recordedG ⟨cfg, m, d⟩ ++ [l.old] := by
        unfold recordedG
        show flEntries d ++ flGcEntries d ++ (m.flpool ++ [l.old]) = _
        simp [List.append_assoc]
      rw [e3, List.nodup_append]
      refine ⟨h.nodup, by simp, ?_⟩
      intro a ha b' hb' hab
      simp only [List.mem_singleton] at hb'
      subst hb' hab
      exact notcur_block hG hent ha
    · rw [hfin, ← hdig]
      rw [idxGet_eq (m := addFree (setNext m b (pre ++ (⟨e.pfx, l.loc⟩ : Entry) :: post)) l.old)
        (d := d) t4 hstrip.1 (by rw [idxRecords_addFree, idxRecords_setNext', if_pos rfl])]
      simp only [Option.bind_some]
      unfold rlGet
      rw [horl'.getRec_owner hown']
      rfl
  | error err =>
    have hfin : relocFinish m d l = { m with flpool := m.flpool ++ [l.loc] ++ [l.old] } := by
      unfold relocFinish
      simp only [hre]
    rw [hfin]
    obtain ⟨pf', psp', zh', zl', hpl⟩ := h.copy.place
    obtain ⟨e1, e2⟩ := prilog_unique (m := m) (d := d) zh zh' zl zl'
    rw [e1] at zh' zl' hpl
    have hnoOld : ∀ blk, IsEnt m d blk → blk.off ≠ l.old.off := by
      intro blk hb hc
      obtain ⟨b, rl, e, q2, hem, rfl⟩ := hb
      obtain ⟨t1, t2, dig, t3, t4, t5, t6⟩ := ent_at_span (m := m) (d := d) hU' hk h31 hp hA zl ze
        hG.alloc hG.plen hpf (by omega) hx h.rn q2 hem (by rw [hc, holdE])
      have hdig : dig = l.ik := by
        have := (hU'.dig t3).1
        rw [hk, h.ik] at this
        exact (Option.some.inj this).symm
      have hstrip := stripKey_of_bucket m.bits h31 dig b t4
      obtain ⟨_, ho⟩ := ent_blockOK hA q2 hem
      obtain ⟨pre, post, rfl⟩ := List.append_of_mem hem
      have := ho.getRec_owner t5
      have hsucc := idxRelocate_eq (m := m) (d := d) (ik := dig) (old := l.old) (loc := l.loc)
        (b := b) (rl := pre ++ e :: post) (i := pre.length) (e := e) t4 q2
        (by rw [hstrip.1]; exact this) (by rw [t1, holdE])
      rw [hdig, hre] at hsucc
      cases hsucc
    have hfreeLoc : FreeOK m d pf psp l.loc := by
      refine ⟨h.below, h.noent, ?_, h.off, ?_⟩
      · rcases hpl with ⟨r, hr, x1, _, _⟩ | ⟨⟨f, lp, y1, y2, y3, y4, y5⟩, _⟩
        · exact Or.inl ⟨r, hr, by rw [x1]⟩
        · right
          have y4' : (lp, key ++ val) ∈ liveAt 0 (psp f) := by rw [← e2 f y2 y3]; exact y4
          exact ⟨f, lp, y1, zl.starts f y2 y3 _ y4', Or.inr ⟨y2, y3, Or.inr (Or.inl ⟨_, y4'⟩)⟩⟩
      · show l.loc.size < two32
        rw [h.size]
        have : key.length + val.length < two31 := by simpa using hblen
        unfold two31 at this; unfold two32; omega
    have hfreeOld : FreeOK m d pf psp l.old := by
      refine ⟨holdB, hnoOld, ?_, ?_, ?_⟩
      · right
        refine ⟨fnum, at_, by rw [holdE], hat, Or.inr ⟨hpf, Nat.le_of_lt h2, ?_⟩⟩
        exact Or.inr (Or.inl ⟨_, hx⟩)
      · rw [holdE]
        have : m.pmax * fnum + at_ < m.pmax * (fnum + 1) := by rw [Nat.mul_add]; omega
        have h3 : fnum + 1 ≤ 1073741824 := by
          have : m.precFileNum ≤ n := hG.cntF
          omega
        have hmb : m.pmax * (fnum + 1) < two64 := mul_bound hG.pmaxle h3
        show m.pmax * fnum + at_ < two64
        omega
      · rw [holdE]
        show (key ++ val).length < two32
        unfold two31 at hblen; unfold two32; omega
    obtain ⟨L1, L2, r1, r2, f1, f2, f3⟩ := hrecL
    have hz : ZInv { m with flpool := m.flpool ++ [l.loc] ++ [l.old], visited := m.visited } d := by
      refine ⟨pf, psp, zh, ⟨zl.le, zl.gone, zl.files, zl.ok, zl.starts⟩, fun blk hb => ze blk hb,
        L1, L2, f1, f2, ?_⟩
      intro fb hfb
      have hfb' : fb ∈ (m.flpool ++ [l.loc] ++ [l.old]) ++ L1 ++ L2 := hfb
      simp only [List.mem_append, List.mem_singleton] at hfb'
      have hold : fb ∈ m.flpool ++ L1 ++ L2 → FreeOK m d pf psp fb := f3 fb
      have hcast : ∀ fb, FreeOK m d pf psp fb →
          FreeOK { m with flpool := m.flpool ++ [l.loc] ++ [l.old], visited := m.visited } d pf psp fb :=
        fun fb ⟨p1, p2, p3, p4, p5⟩ => ⟨p1, p2, p3, p4, p5⟩
      rcases hfb' with (((h' | h') | h') | h') | h'
      · exact hcast _ (hold (by simp [h']))
      · rw [h']; exact hcast _ hfreeLoc
      · rw [h']; exact hcast _ hfreeOld
      · exact hcast _ (hold (by simp [h']))
      · exact hcast _ (hold (by simp [h']))
    have hGnew := (hG.frame_fl (d' := d) (m.flpool ++ [l.loc] ++ [l.old]) m.visited rfl rfl rfl rfl
      rfl hz).mono (Nat.le_succ n) (Nat.le_refl B)
    refine ⟨hGnew, FinOut.refused hnoOld ?_ ?_ ?_⟩
    · intro b; rw [hfin]; rfl
    · rw [hfin]
      unfold recordedG
      show flEntries d ++ flGcEntries d ++ (m.flpool ++ [l.loc] ++ [l.old]) = _
      simp [List.append_assoc]
    · rw [List.nodup_append]
      refine ⟨h.nodup, by simp, ?_⟩
      intro a ha b' hb' hab
      simp only [List.mem_singleton] at hb'
      subst hb' hab
      exact h.norec _ ha rfl

end

end Sth.C06W
