/-
C03 — everything the crash analysis needs to know about one Store.Flush of a reachable state: the
invariants after it, and the four file families it extends in order.
Core Lean only.
-/
import Sth.Lemmas.C03Idx
import Sth.Lemmas.C03Pri

namespace Sth

/-- the extra facts about reachable disks the crash analysis uses: no snapshot is lying around (it is
    consumed by OpenStore and only written by Close), the file tables are sorted (so that the stream of
    `appendStream` is in ascending file order) -/
structure DiskWF (d : Disk) : Prop where
  snap : d.snap = none
  sp : NMap.Sorted d.pfiles
  si : NMap.Sorted d.ifiles

section
variable {c : Cfg} {U : List (Bytes × Bytes)} {s : SState} {spec : Spec} {n B : Nat}

theorem flush_parts (hU : Univ c.kind U) (hI : Inv c U s spec n B) (hX : XInv c s) (hD : DiskWF s.d)
    (hn : n < 1073741824) (hB : B < two31) (order : List Nat) :
    ∃ m1 d1 m2 d2 lg, priFlush s.m s.d = some (m1, d1) ∧
      idxFlush m1 d1 (fixOrder order s.m.inext.keys) = (m2, d2) ∧
      Inv c U ⟨s.cfg, m2, d2⟩ spec n B ∧ XInv c ⟨s.cfg, m2, d2⟩ ∧ m2.inext = [] ∧ m2.pnext = [] ∧
      m2.flpool = s.m.flpool ∧
      (∀ b, idxRecords m2 d2 b = idxRecords s.m s.d b) ∧
      (∀ blk k v, priGet s.m s.d blk = .got k v → priGet m2 d2 blk = .got k v) ∧
      d2 = { s.d with pfiles := d1.pfiles, cidfile := d1.cidfile, ifiles := d2.ifiles } ∧
      SegOK' s.d.pfiles d1.pfiles ∧ OptExt s.d.cidfile d1.cidfile ∧
      (∃ P', SegOK s.d.ifiles d2.ifiles s.m.ifileNum P') ∧
      (c.kind = .mh → ∃ P', SegOK s.d.pfiles d1.pfiles s.m.pfileNum P' ∧ d1.cidfile = s.d.cidfile) ∧
      (c.kind = .cid → d1.pfiles = s.d.pfiles) ∧
      LogAt lg s.m s.d ∧
      (∀ fi, CutImg s.d.ifiles d2.ifiles fi →
        IdxImage c.bits c.ifs s.m.inext (scanTo c.ifs lg s.m.ifileNum) s.d.ifiles fi) ∧
      DiskWF d2 := by
  have hU' : Univ s.m.kind U := by rw [hI.kind]; exact hU
  obtain ⟨m1, d1, m2, d2, p1, i1, hI2, hX2, hin, hpn, hfl, hR, hP⟩ := flushBoth_inv hU hI hX hn hB order
  obtain ⟨f1, f2⟩ := fixOrder_ok order s.m.inext
  obtain ⟨pc, pfn, plen, pfiles, cidf, q1, _, _⟩ := priFlush_ok hI.p (fun hk => by
    have := (hI.cnt.mh hk).1
    unfold two32; omega)
  rw [p1] at q1
  simp only [Option.some.injEq, Prod.mk.injEq] at q1
  obtain ⟨rfl, rfl⟩ := q1
  have hkind : s.m.kind = c.kind := hI.kind
  -- the primary files
  have hpst : s.m.kind = .mh → PFoldSt s.m s.d := by
    intro hk
    exact ⟨hX.pall (by rw [← hkind]; exact hk), (hI.p.mh hk).2.2, hD.sp⟩
  obtain ⟨s1, s2, s3, s4, s5, s6⟩ := priFlush_seg p1 hD.sp hpst
  -- the index files
  have hI1 : IInv (pfl s.m pc pfn plen) (dfl s.d pfiles cidf) := hI.i.frame2 rfl rfl rfl rfl rfl rfl
  obtain ⟨lg, hl⟩ := hX.log
  have hL1 : LogAt lg (pfl s.m pc pfn plen) (dfl s.d pfiles cidf) := ⟨hl.files, hl.recs, hl.table⟩
  have hfst : FoldSt (pfl s.m pc pfn plen) (dfl s.d pfiles cidf) :=
    ⟨fun f hf => by
      have : (dfl s.d pfiles cidf).ifiles.get? f = some (logBytes (lg f)) := hl.files f hf
      rw [this]; simp, hI.i.noFiles⟩
  have hwf : ∀ b rl, (pfl s.m pc pfn plen).inext.get? b = some rl → FlushOK rl :=
    inext_flushOK (m := s.m) (d := s.d) hU' hI.bits31 hI.a hI.w hB
  have hpool : ∀ b rl, (pfl s.m pc pfn plen).inext.get? b = some rl →
      RecLogOK (pfl s.m pc pfn plen).bits (b, rl) := by
    intro b rl hb
    have hb' : s.m.inext.get? b = some rl := hb
    refine ⟨hX.inextLt b rl hb', ?_⟩
    obtain ⟨orl, h1, h2, h3⟩ := hI.a.recs b
    have : idxRecords s.m s.d b = .ok (some rl) := by unfold idxRecords; rw [hb']
    rw [this] at h1
    cases h1
    simp only [Option.getD_some] at h2 h3
    exact enc_lt31 hU' hI.bits8 hI.bits31 h2 h3 hI.w hB
  have hfn : (pfl s.m pc pfn plen).ifileNum + (fixOrder order s.m.inext.keys).length < two32 := by
    have := hI.cnt.idx
    show s.m.ifileNum + (fixOrder order s.m.inext.keys).length < two32
    unfold two32; omega
  have hd2 : (idxFlush (pfl s.m pc pfn plen) (dfl s.d pfiles cidf) (fixOrder order s.m.inext.keys)).2 =
      d2 := by rw [i1]
  obtain ⟨ic, fn, len, bk, files, j1, _, _, _⟩ := idxFlush_ok
    (order := fixOrder order s.m.inext.keys) hI1
    (fun b => by
      obtain ⟨orl, h1, _⟩ := hI.a.recs b
      exact ⟨orl, h1⟩) hwf f1 hfn
  rw [i1] at j1
  simp only [Prod.mk.injEq] at j1
  obtain ⟨_, rfl⟩ := j1
  have himg := fun fi => idxFlush_image (order := fixOrder order s.m.inext.keys) hI1 hL1 hwf hpool hfn fi
  rw [hd2] at himg
  obtain ⟨P', hseg⟩ := idxFlush_seg (m := pfl s.m pc pfn plen) (d := dfl s.d pfiles cidf)
    (order := fixOrder order s.m.inext.keys) hD.si hfst
  rw [hd2] at hseg
  have hsi2 := idxFlush_sorted (m := pfl s.m pc pfn plen) (d := dfl s.d pfiles cidf)
    (order := fixOrder order s.m.inext.keys) hD.si
  rw [hd2] at hsi2
  have hbits : s.m.bits = c.bits := hX.bits
  have himax : s.m.imax = c.ifs := hX.imax
  refine ⟨_, _, m2, _, lg, p1, i1, hI2, hX2, hin, hpn, hfl, hR, hP, rfl, s3, s4, ⟨P', hseg⟩, ?_, ?_, hl,
    ?_, ⟨hD.snap, s2, hsi2⟩⟩
  · intro hk
    obtain ⟨P1, a1, a2, _⟩ := s5 (by rw [hkind]; exact hk)
    exact ⟨P1, a1, a2⟩
  · intro hk
    exact s6 (by rw [hkind]; exact hk)
  · intro fi hc
    have := himg fi hc
    rw [← hbits, ← himax]
    exact this

end

end Sth
