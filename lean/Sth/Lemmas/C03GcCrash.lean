/-
C03 — recovering the disk a primary GC cycle leaves when it is cut at any poll: if the cycle reached a
state with empty pools (any state after the primary flush of its first hand-over pass, when the index
pool was empty to begin with), every record the on-disk index names is still a record span, so the
recovered state observes exactly the specification map.
Core Lean only.
-/
import Sth.Lemmas.C03Gc
import Sth.Lemmas.C03GcPri

namespace Sth

section
variable {c : Cfg} {U : List (Bytes × Bytes)} {cfg : Cfg} {m2 : Mem} {d2 : Disk} {spec : Spec}
  {n B : Nat}

/-- `d'` keeps the index files of the clean state `(m2, d2)` and every record span its index entries
    are backed by: recovery of `d'` observes the map -/
theorem crash_recover_g (hc : c.Legal) (hU : Univ c.kind U) (hG : GInv c U ⟨cfg, m2, d2⟩ spec n B)
    (hn : n < 1073741824) (hin : m2.inext = []) (hpn : m2.pnext = []) (hsnap : d2.snap = none)
    {pf : Nat} {psp : Nat → List GSpan} (he2 : EntOK m2 d2 pf psp) {d' : Disk} {pf' : Nat}
    {psp' : Nat → List GSpan}
    (hK : PKeepSt m2 (fun blk body => IsEnt m2 d2 blk ∧ OnDisk m2 pf psp blk body) d2 d' pf' psp') :
    ∃ dr mr, openStoreR c d' = (dr, .ok mr) ∧ SInv U mr dr spec ∧ mr.kind = c.kind ∧
      mr.bits = c.bits := by
  have hkmh : c.kind = .mh := hG.kmh
  have hk2 : m2.kind = .mh := hG.kind
  have hbits : m2.bits = c.bits := hG.y.bits
  have himax : m2.imax = c.ifs := hG.y.imax
  have hpmax : m2.pmax = hdrPfs c := hG.y.pmax
  have hpfs : hdrPfs c = c.pfs := by unfold hdrPfs; simp only [hkmh]
  have hIi : IInv m2 d2 := hG.i
  obtain ⟨f1, f2, f3, f4, _, _⟩ := hK.frame
  have halloc : m2.pfileNum = m2.precFileNum ∧ m2.plength = m2.precPos := by
    have := hG.alloc
    have e : m2.pnext = [] := hpn
    simp only [e] at this
    exact this
  have hplen : (fileOf d2.pfiles m2.pfileNum).length = m2.plength := hG.plen
  have hpno : ∀ f, m2.pfileNum < f → d2.pfiles.get? f = none := hG.pno
  have hcntF : m2.precFileNum ≤ n := hG.cntF
  -- the shape of the disk
  have hS : DiskShape c m2 d' := by
    refine ⟨hbits, himax, by rw [f3]; exact hsnap, ?_, ?_, ?_, ?_⟩
    · obtain ⟨first, sp, e1, e2⟩ := hG.y.ilog
      have e2' : IdxLogT m2.bits m2.imax m2.ifileNum d2.ifiles (tbl m2) first sp := e2
      refine ⟨first, sp, by rw [f2]; exact e1, ?_⟩
      show IdxLogT m2.bits m2.imax m2.ifileNum d'.ifiles (tbl m2) first sp
      rw [f1]; exact e2'
    · intro f hf; rw [f1]; exact hIi.noFiles f hf
    · intro _
      refine ⟨pf', by rw [hK.hdr, hpmax, hpfs], hK.log.le, ?_⟩
      intro f a b
      rw [hK.log.files f a b]; simp
    · intro _
      rw [hK.last _ (Nat.le_succ _)]
      exact hpno _ (Nat.lt_succ_self _)
  obtain ⟨cf, pfn, plen, files', bk, fr, o1, o2, _, o4, o5⟩ := recover_form4 hc hS
  obtain ⟨_, q2, q3⟩ := o2 hkmh
  have hplen' : plen = m2.plength := by
    rw [q3]
    have : fileOf d'.pfiles m2.pfileNum = fileOf d2.pfiles m2.pfileNum := by
      unfold fileOf; rw [hK.last _ (Nat.le_refl _)]
    rw [this]; exact hplen
  subst q2
  subst hplen'
  refine ⟨_, _, o1, ?_, rfl, rfl⟩
  have hA : SInv U m2 d2 spec := hG.a
  have hU' : Univ m2.kind U := by rw [hk2, ← hkmh]; exact hU
  -- allocation points agree
  have hbelow : ∀ blk, Below m2 blk →
      Below (openMem c bk m2.ifileNum (fileOf files' m2.ifileNum).length m2.pfileNum m2.plength) blk := by
    intro blk hb
    apply below_mono hb (by show c.kind = m2.kind; rw [hk2, hkmh]) hpmax.symm
    · intro _
      right
      exact ⟨halloc.1.symm, by show m2.precPos ≤ m2.plength; rw [halloc.2]; exact Nat.le_refl _⟩
    · intro hk; rw [hk2] at hk; cases hk
  apply hA.of_ent (by show c.kind = m2.kind; rw [hk2, hkmh]) hbits.symm
  · -- the buckets
    intro b
    rw [openMem_idxRecords]
    show readDiskBucket files' c.ifs ((bk.get? b).getD 0) = _
    rw [o5 b, readDiskBucket_congr o4, f1]
    unfold idxRecords
    rw [hin]
    simp only [NMap.get?_nil]
    unfold tbl
    cases hcur : m2.icur.get? b with
    | some rl =>
      simp only
      have := hIi.curDisk b rl hcur
      rw [himax] at this
      exact this
    | none => simp only; rw [himax]
  · -- the entries
    intro blk hent k v hg
    obtain ⟨key, val, g1, g2⟩ := he2 blk hent
    rw [hg] at g1
    cases g1
    have hon2 : OnDisk m2 pf psp blk (k ++ v) := by
      rcases g2 with ⟨x, hx, _⟩ | g2
      · rw [hpn] at hx; cases hx
      · exact g2
    obtain ⟨f, lp, e1, e2, e3, e4, e5⟩ := hK.keep blk (k ++ v) ⟨hent, hon2⟩
    obtain ⟨b, rl, e, hr, he, hblk⟩ := hent
    have hB := (ent_blockOK hA hr he).1
    rw [hblk] at hB
    obtain ⟨key', val', dig, a1, a2, _, _, _⟩ := hB.ex
    rw [hg] at a1
    cases a1
    apply openMem_priGet
    · exact (hbelow blk hB.below).thrOK
    · have hbe : blk = ⟨m2.pmax * f + lp, (k ++ v).length⟩ := block_eq e1 e5
      have hspan := diskRead_span (d := d') hG.pmax1 (hK.log.starts f e2 e3 _ e4)
        (by unfold two32; omega : f < two32) (hK.log.files f e2 e3) e4
        (hK.log.ok f e2 e3 ⟨false, k ++ v⟩ (by
          obtain ⟨a, b', ee, _⟩ := liveAt_split (psp' f) 0 lp (k ++ v) e4
          rw [ee]; simp))
      have hrn := readNode_append m2.kind k v (hU'.exact _ a2)
      rw [hk2] at hrn
      rw [hrn] at hspan
      rw [hkmh, ← hpmax, hbe]
      unfold diskRead at hspan ⊢
      exact hspan
  · exact hbelow

end

section
variable {c : Cfg} {U : List (Bytes × Bytes)} {cfg : Cfg} {spec : Spec} {B : Nat}

/-- recovery of the disk of a clean state itself -/
theorem clean_recover_g (hc : c.Legal) (hU : Univ c.kind U) {m : Mem} {d : Disk} {n : Nat}
    (hG : GInv c U ⟨cfg, m, d⟩ spec n B) (hn : n < 1073741824) (hin : m.inext = [])
    (hpn : m.pnext = []) (hsnap : d.snap = none) :
    ∃ dr mr, openStoreR c d = (dr, .ok mr) ∧ SInv U mr dr spec ∧ mr.kind = c.kind ∧
      mr.bits = c.bits := by
  obtain ⟨pf, psp, hS⟩ := hG.state
  exact crash_recover_g hc hU hG hn hin hpn hsnap hS.ent
    (d' := d) (pf' := pf) (psp' := psp)
    ⟨⟨rfl, rfl, rfl, rfl, rfl, rfl⟩, fun h => h, fun _ _ => rfl, hS.hdr, hS.log, fun _ _ h => h.2⟩

/-- a primary GC cycle that starts with an empty index pool, cut at any poll, then a crash: the disk
    recovers and the recovered state observes the map -/
theorem pgc_crash (hc : c.Legal) (hU : Univ c.kind U) {m : Mem} {d : Disk} {k : Nat}
    (hG : GInv c U ⟨cfg, m, d⟩ spec k B) (hk : 3 * k < 1073741824) (hin : m.inext = [])
    (hD : DiskG d) (lowUse : Nat) (budget : Budget) {res : PgcRes × Mem × Disk × Budget}
    (hres : primaryGC m d lowUse budget = some res) :
    ∃ dr mr, openStoreR c res.2.2.1 = (dr, .ok mr) ∧ SInv U mr dr spec ∧ mr.kind = c.kind ∧
      mr.bits = c.bits := by
  unfold primaryGC at hres
  have hp1 := freelistPass_g hU hG (by omega) budget
  obtain ⟨hk1, hm1⟩ := freelistPass_keeps m d budget
  cases hf1 : freelistPass m d budget with
  | mk r1 rest =>
  obtain ⟨m1, d1, b1, aff1⟩ := rest
  rw [hf1] at hres hp1 hk1 hm1
  simp only at hres hp1 hk1 hm1
  have hD1 : DiskG d1 := hk1 hD
  -- the state after the first pass, when it did not fail in the flush
  have hstate1 : r1 ≠ .flushErr → GInv c U ⟨cfg, m1, d1⟩ spec k B ∧ m1.inext = [] ∧ m1.pnext = [] := by
    intro hne
    rcases hp1 with h | h
    · exact absurd h hne
    · exact ⟨h, (hm1 hne).1.trans hin, (hm1 hne).2⟩
  cases r1 with
  | flushErr => cases hres
  | deadline =>
    simp only [Option.some.injEq] at hres; subst hres
    obtain ⟨g, i, p⟩ := hstate1 (by decide)
    exact clean_recover_g hc hU g (by omega) i p hD1.snap
  | err =>
    simp only [Option.some.injEq] at hres; subst hres
    obtain ⟨g, i, p⟩ := hstate1 (by decide)
    exact clean_recover_g hc hU g (by omega) i p hD1.snap
  | ok =>
  obtain ⟨hG1, hin1, _⟩ := hstate1 (by decide)
  have hp2 := freelistPass_g hU hG1 (by omega) b1
  obtain ⟨hk2, hm2⟩ := freelistPass_keeps m1 d1 b1
  cases hf2 : freelistPass m1 d1 b1 with
  | mk r2 rest =>
  obtain ⟨m2, d2, b2, aff2⟩ := rest
  rw [hf2] at hres hp2 hk2 hm2
  simp only at hres hp2 hk2 hm2
  have hD2 : DiskG d2 := hk2 hD1
  have hstate2 : r2 ≠ .flushErr → GInv c U ⟨cfg, m2, d2⟩ spec k B ∧ m2.inext = [] ∧ m2.pnext = [] := by
    intro hne
    rcases hp2 with h | h
    · exact absurd h hne
    · exact ⟨h, (hm2 hne).1.trans hin1, (hm2 hne).2⟩
  cases r2 with
  | flushErr => cases hres
  | deadline =>
    simp only [Option.some.injEq] at hres; subst hres
    obtain ⟨g, i, p⟩ := hstate2 (by decide)
    exact clean_recover_g hc hU g (by omega) i p hD2.snap
  | err =>
    simp only [Option.some.injEq] at hres; subst hres
    obtain ⟨g, i, p⟩ := hstate2 (by decide)
    exact clean_recover_g hc hU g (by omega) i p hD2.snap
  | ok =>
  obtain ⟨hG2, hin2, hpn2⟩ := hstate2 (by decide)
  obtain ⟨pf, psp, hS⟩ := hG2.state
  have hh : d2.phdr = some ⟨m2.pmax, pf⟩ := hS.hdr
  rw [hh] at hres
  simp only [Option.some.injEq] at hres
  subst hres
  obtain ⟨pf', psp', hK⟩ := pgc_go_disk (m0 := m2)
    (E := fun blk body => IsEnt m2 d2 blk ∧ OnDisk m2 pf psp blk body) (d0 := d2) lowUse
    (m2.pfileNum - pf + 1) pf pf psp
    { m2 with visited := m2.visited.filter (fun f => !(aff1 ++ aff2).contains f) } d2 b2 0
    ⟨rfl, rfl, rfl⟩
    ⟨⟨rfl, rfl, rfl, rfl, rfl, rfl⟩, fun h => h, fun _ _ => rfl, hS.hdr, hS.log, fun _ _ h => h.2⟩
    (Nat.le_refl _) hS.log.le
  exact crash_recover_g hc hU hG2 (by omega) hin2 hpn2 hD2.snap hS.ent hK

end

end Sth
