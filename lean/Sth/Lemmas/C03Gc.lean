/-
C03 — a crash after a GC cycle that was cut at a poll: OpenStore on a disk whose index files are a span
log (deleted records, first file advanced) and whose primary files start at the header's first file;
index GC leaves every disk-level read alone.
Core Lean only.
-/
import Sth.Lemmas.C03Close
import Sth.Lemmas.C04M3

namespace Sth

/-! ### Get only looks at the bucket reads and the primary reads -/

theorem getPrimaryKeyData_congr {m1 m2 : Mem} {d1 d2 : Disk} (hk : m1.kind = m2.kind)
    (hb : m1.bits = m2.bits) (hR : ∀ b, idxRecords m1 d1 b = idxRecords m2 d2 b)
    (hP : ∀ blk, priGet m1 d1 blk = priGet m2 d2 blk) (blk : Block) (ik : Bytes) :
    (match getPrimaryKeyData m1 d1 blk ik with
      | .error e => GetRes.err e
      | .ok (_, none) => GetRes.absent
      | .ok (_, some v) => GetRes.found v) =
    (match getPrimaryKeyData m2 d2 blk ik with
      | .error e => GetRes.err e
      | .ok (_, none) => GetRes.absent
      | .ok (_, some v) => GetRes.found v) := by
  have hdrop : (match (match idxRemove m1 d1 ik with
        | .error _ => (Except.error Err.other : Except Err (Mem × Option Bytes))
        | .ok (m', _) => .ok (m', none)) with
      | .error e => GetRes.err e
      | .ok (_, none) => GetRes.absent
      | .ok (_, some v) => GetRes.found v) =
      (match (match idxRemove m2 d2 ik with
        | .error _ => (Except.error Err.other : Except Err (Mem × Option Bytes))
        | .ok (m', _) => .ok (m', none)) with
      | .error e => GetRes.err e
      | .ok (_, none) => GetRes.absent
      | .ok (_, some v) => GetRes.found v) := by
    unfold idxRemove
    rw [hb]
    cases bucketOfKey m2.bits ik with
    | none => rfl
    | some b =>
      simp only
      rw [hR b]
      cases idxRecords m2 d2 b with
      | error e => rfl
      | ok recs =>
        simp only
        cases indexRemove recs ((stripKey m2.bits ik).getD []) <;> rfl
  unfold getPrimaryKeyData
  rw [hP blk, hk]
  cases priGet m2 d2 blk with
  | err => exact hdrop
  | nilKey => exact hdrop
  | got k v =>
    simp only
    cases indexKeyOf m2.kind k with
    | none => exact hdrop
    | some sk =>
      simp only
      by_cases hs : sk = ik
      · simp only [hs, if_true]
      · simp only [hs, if_false]

theorem storeGet_congr_full {m1 m2 : Mem} {d1 d2 : Disk} (hk : m1.kind = m2.kind)
    (hb : m1.bits = m2.bits) (hR : ∀ b, idxRecords m1 d1 b = idxRecords m2 d2 b)
    (hP : ∀ blk, priGet m1 d1 blk = priGet m2 d2 blk) (key : Bytes) :
    (storeGet m1 d1 key).2 = (storeGet m2 d2 key).2 := by
  have hg := getPrimaryKeyData_congr hk hb hR hP
  unfold storeGet
  rw [hk]
  cases indexKeyOf m2.kind key with
  | none => rfl
  | some ik =>
    simp only
    unfold idxGet
    rw [hb]
    cases bucketOfKey m2.bits ik with
    | none => rfl
    | some b =>
      simp only
      rw [hR b]
      cases idxRecords m2 d2 b with
      | error e => rfl
      | ok orl =>
        cases orl with
        | none => rfl
        | some rl =>
          simp only
          cases rlGet rl ((stripKey m2.bits ik).getD []) with
          | none => rfl
          | some blk =>
            simp only
            have := hg blk ik
            revert this
            cases getPrimaryKeyData m1 d1 blk ik with
            | error e1 =>
              cases getPrimaryKeyData m2 d2 blk ik with
              | error e2 => intro h; simp only at h ⊢; cases h; rfl
              | ok p2 =>
                obtain ⟨ma, oa⟩ := p2
                cases oa <;> intro h <;> simp only at h <;> cases h
            | ok p1 =>
              obtain ⟨mb, ob⟩ := p1
              cases getPrimaryKeyData m2 d2 blk ik with
              | error e2 => cases ob <;> intro h <;> simp only at h <;> cases h
              | ok p2 =>
                obtain ⟨ma, oa⟩ := p2
                cases ob <;> cases oa <;> intro h <;> simp only at h ⊢ <;> first | rfl | (cases h; rfl) | cases h

/-! ### OpenStore on a span log -/

/-- what recovery needs to know about a disk; the memory state only supplies the file numbers and the
    bucket table the index log is described against -/
structure DiskShape (c : Cfg) (m : Mem) (d : Disk) : Prop where
  bits : m.bits = c.bits
  imax : m.imax = c.ifs
  snap : d.snap = none
  ilog : ∃ first sp, d.ihdr = some ⟨c.bits, c.ifs, first, hdrPfs c⟩ ∧ IdxLog m d first sp
  ino : ∀ f, m.ifileNum < f → d.ifiles.get? f = none
  phdr : c.kind = .mh → ∃ pf, d.phdr = some ⟨c.pfs, pf⟩ ∧ pf ≤ m.pfileNum ∧
    ∀ f, pf ≤ f → f ≤ m.pfileNum → d.pfiles.get? f ≠ none
  pno : c.kind = .mh → d.pfiles.get? (m.pfileNum + 1) = none

theorem recover_form4 {c : Cfg} (hc : c.Legal) {m : Mem} {d : Disk} (h : DiskShape c m d) :
    ∃ cf pfn plen files' bk fr,
      openStoreR c d = ({ d with free := fr, cidfile := cf, snap := none, ifiles := files' },
        .ok (openMem c bk m.ifileNum (fileOf files' m.ifileNum).length pfn plen)) ∧
      (c.kind = .mh → cf = d.cidfile ∧ pfn = m.pfileNum ∧
        plen = (fileOf d.pfiles m.pfileNum).length) ∧
      (c.kind = .cid → cf = some (d.cidfile.getD []) ∧ pfn = 0 ∧
        plen = (d.cidfile.getD []).length) ∧
      (∀ f, files'.get? f = d.ifiles.get? f) ∧ (∀ b, (bk.get? b).getD 0 = tbl m b) := by
  obtain ⟨first, sp, hih, hl⟩ := h.ilog
  have hl' : IdxLogT c.bits c.ifs m.ifileNum d.ifiles (tbl m) first sp := by
    have h0 : IdxLogT m.bits m.imax m.ifileNum d.ifiles (tbl m) first sp := hl
    rw [h.bits, h.imax] at h0; exact h0
  -- the primary header's first file (irrelevant for the CID primary)
  have hpf : ∃ pf, (c.kind = .mh → d.phdr = some ⟨c.pfs, pf⟩) ∧ (c.kind = .mh → pf ≤ m.pfileNum) ∧
      (c.kind = .mh → ∀ f, pf ≤ f → f ≤ m.pfileNum → d.pfiles.get? f ≠ none) := by
    rcases (by cases c.kind <;> simp : c.kind = .mh ∨ c.kind = .cid) with hk | hk
    · obtain ⟨pf, q1, q2, q3⟩ := h.phdr hk
      exact ⟨pf, fun _ => q1, fun _ => q2, fun _ => q3⟩
    · have hno : ¬ c.kind = .mh := by rw [hk]; intro h'; cases h'
      exact ⟨0, fun hk' => absurd hk' hno, fun hk' => absurd hk' hno, fun hk' => absurd hk' hno⟩
  obtain ⟨pf, q1, q2, q3⟩ := hpf
  obtain ⟨cf, pfn, plen, files', bk, o1, o2, o3, o4, o5⟩ := openStore_ok4 c hc (openFreelist d)
    m.pfileNum pf m.ifileNum q1 q2 q3 h.pno
    (Q := fun files' bk => (∀ f, files'.get? f = d.ifiles.get? f) ∧
      bk = setAll [] (rangeLive c.ifs sp first (m.ifileNum + 1 - first)))
    (by
      intro dP e1 e2 e3
      obtain ⟨files', r1, r2⟩ := openIndex_scan4 c hc dP first m.ifileNum sp (by rw [e1]; exact hih)
        (by rw [e2]; exact h.snap) hl'.le (by rw [e3]; exact hl'.files)
        (by rw [e3]; exact h.ino _ (Nat.lt_succ_self _)) hl'.ok
      exact ⟨files', _, r1, fun f => by rw [r2 f, e3]; rfl, rfl⟩)
  refine ⟨cf, pfn, plen, files', bk, _, o1, o2, o3, o4, ?_⟩
  intro b
  rw [o5]
  exact scan_tbl hl' b

theorem priGet_openMem_congr (c : Cfg) (bk bk' : NMap Nat) (N N' il il' pfn plen : Nat) {d d' : Disk}
    (h1 : d'.pfiles = d.pfiles) (h2 : d'.cidfile = d.cidfile) (blk : Block) :
    priGet (openMem c bk' N' il' pfn plen) d' blk = priGet (openMem c bk N il pfn plen) d blk := by
  unfold priGet
  rw [h1, h2]
  rfl

/-! ### index GC cut at any poll, then a crash -/

/-- two disks that recovery cannot tell apart: same primary side, same reads through the table -/
theorem recover_same {c : Cfg} (hc : c.Legal) {m : Mem} {d d' : Disk} (h : DiskShape c m d)
    (h' : DiskShape c m d') (hp : d'.pfiles = d.pfiles) (hcid : d'.cidfile = d.cidfile)
    (hreads : ∀ b, readDiskBucket d'.ifiles c.ifs (tbl m b) = readDiskBucket d.ifiles c.ifs (tbl m b)) :
    ∃ dOld mOld dr mr, openStoreR c d = (dOld, .ok mOld) ∧ openStoreR c d' = (dr, .ok mr) ∧
      mr.kind = c.kind ∧ mr.bits = c.bits ∧ mOld.kind = c.kind ∧ mOld.bits = c.bits ∧
      (∀ b, idxRecords mr dr b = idxRecords mOld dOld b) ∧
      (∀ blk, priGet mr dr blk = priGet mOld dOld blk) ∧
      ∀ key, (storeGet mr dr key).2 = (storeGet mOld dOld key).2 := by
  obtain ⟨cf, pfn, plen, files, bk, fr, o1, o2, o3, o4, o5⟩ := recover_form4 hc h
  obtain ⟨cf', pfn', plen', files', bk', fr', r1, r2, r3, r4, r5⟩ := recover_form4 hc h'
  have hsame : cf' = cf ∧ pfn' = pfn ∧ plen' = plen := by
    rcases (by cases c.kind <;> simp : c.kind = .mh ∨ c.kind = .cid) with hk | hk
    · obtain ⟨a1, a2, a3⟩ := o2 hk
      obtain ⟨b1, b2, b3⟩ := r2 hk
      exact ⟨by rw [a1, b1, hcid], by rw [a2, b2], by rw [a3, b3, hp]⟩
    · obtain ⟨a1, a2, a3⟩ := o3 hk
      obtain ⟨b1, b2, b3⟩ := r3 hk
      exact ⟨by rw [a1, b1, hcid], by rw [a2, b2], by rw [a3, b3, hcid]⟩
  obtain ⟨rfl, rfl, rfl⟩ := hsame
  have hR : ∀ b, idxRecords (openMem c bk' m.ifileNum (fileOf files' m.ifileNum).length pfn' plen')
      ({ d' with free := fr', cidfile := cf', snap := none, ifiles := files' } : Disk) b =
      idxRecords (openMem c bk m.ifileNum (fileOf files m.ifileNum).length pfn' plen')
      ({ d with free := fr, cidfile := cf', snap := none, ifiles := files } : Disk) b := by
    intro b
    rw [openMem_idxRecords, openMem_idxRecords]
    show readDiskBucket files' c.ifs _ = readDiskBucket files c.ifs _
    rw [r5 b, o5 b, readDiskBucket_congr r4, readDiskBucket_congr o4]
    exact hreads b
  have hP : ∀ blk, priGet (openMem c bk' m.ifileNum (fileOf files' m.ifileNum).length pfn' plen')
      ({ d' with free := fr', cidfile := cf', snap := none, ifiles := files' } : Disk) blk =
      priGet (openMem c bk m.ifileNum (fileOf files m.ifileNum).length pfn' plen')
      ({ d with free := fr, cidfile := cf', snap := none, ifiles := files } : Disk) blk :=
    fun blk => priGet_openMem_congr c _ _ _ _ _ _ _ _
      (d := ({ d with free := fr, cidfile := cf', snap := none, ifiles := files } : Disk))
      (d' := ({ d' with free := fr', cidfile := cf', snap := none, ifiles := files' } : Disk)) hp rfl blk
  exact ⟨_, _, _, _, o1, r1, rfl, rfl, rfl, rfl, hR, hP,
    fun key => storeGet_congr_full
      (m1 := openMem c bk' m.ifileNum (fileOf files' m.ifileNum).length pfn' plen')
      (m2 := openMem c bk m.ifileNum (fileOf files m.ifileNum).length pfn' plen') rfl rfl hR hP key⟩

theorem igc_crash {c : Cfg} (hc : c.Legal) {m : Mem} {d : Disk} (h : DiskShape c m d)
    (hN : m.ifileNum < two32) (scanFree : Bool) (budget : Budget) :
    DiskShape c m (indexGC m d scanFree budget).2.2.1 ∧
    ∃ dOld mOld dr mr, openStoreR c d = (dOld, .ok mOld) ∧
      openStoreR c (indexGC m d scanFree budget).2.2.1 = (dr, .ok mr) ∧
      ∀ key, (storeGet mr dr key).2 = (storeGet mOld dOld key).2 := by
  obtain ⟨first, sp, hih, hl⟩ := h.ilog
  have hp1 : 1 ≤ m.imax := by rw [h.imax]; exact hc.2.2.1
  have hG0 : GI m d d c.bits c.ifs (hdrPfs c) :=
    ⟨⟨first, sp, hih, hl⟩, fun _ => rfl, h.ino, rfl, rfl, rfl, rfl, rfl, rfl, rfl⟩
  obtain ⟨hG, _⟩ := indexGC_ok hp1 hN hG0 scanFree budget
  generalize (indexGC m d scanFree budget).2.2.1 = d' at hG ⊢
  obtain ⟨f1, f2, f3, f4, f5, f6⟩ := hG.frame
  have h' : DiskShape c m d' := by
    refine ⟨h.bits, h.imax, by rw [f6]; exact h.snap, hG.log, hG.noFiles, ?_, ?_⟩
    · intro hk
      obtain ⟨pf, q1, q2, q3⟩ := h.phdr hk
      exact ⟨pf, by rw [f3]; exact q1, q2, fun f a b => by rw [f1]; exact q3 f a b⟩
    · intro hk; rw [f1]; exact h.pno hk
  refine ⟨h', ?_⟩
  obtain ⟨dOld, mOld, dr, mr, o1, o2, _, _, _, _, _, _, o3⟩ := recover_same hc h h' f1 f2 (by
    intro b
    have := hG.reads b
    rw [h.imax] at this
    exact this)
  exact ⟨dOld, mOld, dr, mr, o1, o2, o3⟩

end Sth
