/-
C13B (3): the ledger against the PROGRAMS (every `free` of a program has either returned — it is in the log `freed` —
or is still to run), and quiescence.
-/
import Sth.Lemmas.C13B2
import Sth.Lemmas.C13F3

namespace Sth.BarrierConc

@[simp] theorem toGc_threads (s : State) (i : Nat) : (toGc s i).threads = s.threads := by
  unfold toGc; split <;> rfl
@[simp] theorem toGc_freed (s : State) (i : Nat) : (toGc s i).freed = s.freed := by
  unfold toGc; split <;> rfl
@[simp] theorem applyGc_threads (s : State) : (applyGc s).threads = s.threads := by
  unfold applyGc; split <;> rfl
@[simp] theorem applyGc_freed (s : State) : (applyGc s).freed = s.freed := by
  unfold applyGc; split <;> rfl

/-- what one section does to its thread's program and to the log of returned FreeList.Put calls -/
theorem step_thread {c : Nat} {s s' : State} {i : Nat} (ht : TInv c s) (hs : step s i = some s') :
    ∃ t t', s.threads[i]? = some t ∧ s'.threads = s.threads.set i t' ∧
      ((∃ o, progFrees t.prog = o :: progFrees t'.prog ∧ s'.freed = s.freed ++ [o]) ∨
       (progFrees t'.prog = progFrees t.prog ∧ s'.freed = s.freed)) := by
  unfold step at hs
  split at hs
  · cases hs
  rename_i t hi
  refine ⟨t, ?_⟩
  split at hs
  · split at hs
    · cases hs
    · rename_i hp; cases hs
      exact ⟨t.ret, hi, rfl, .inr ⟨by simp [Thread.ret, hp, progFrees], rfl⟩⟩
    · rename_i o rest hp
      split at hs
      · cases hs
        exact ⟨t.ret, hi, rfl, .inl ⟨o, by simp [Thread.ret, hp, progFrees], rfl⟩⟩
      · cases hs
    · rename_i hp
      unfold flushEnter at hs
      split at hs
      · cases hs
      split at hs
      · cases hs
        exact ⟨t.ret, hi, rfl, .inr ⟨by simp [Thread.ret, hp, progFrees], rfl⟩⟩
      · cases hs
        exact ⟨_, hi, rfl, .inr ⟨rfl, rfl⟩⟩
    · rename_i hp; cases hs
      exact ⟨t.ret, hi, rfl, .inr ⟨by simp [Thread.ret, hp, progFrees], rfl⟩⟩
    · rename_i hp; cases hs
      exact ⟨t.ret, hi, by simp, .inr ⟨by simp [Thread.ret, hp, progFrees], by simp⟩⟩
    · rename_i hp; cases hs
      exact ⟨t.ret, hi, by simp, .inr ⟨by simp [Thread.ret, hp, progFrees], by simp⟩⟩
    · rename_i hp; cases hs
      exact ⟨t.ret, hi, rfl, .inr ⟨by simp [Thread.ret, hp, progFrees], rfl⟩⟩
  · rename_i cur hpc
    cases hs
    obtain ⟨r, hp⟩ := ht.mid i t hi (by simp [hpc])
    exact ⟨t.ret, hi, rfl, .inr ⟨by simp [Thread.ret, hp, progFrees], rfl⟩⟩

/-- the frees still to run -/
def remainingFrees (s : State) : List Rec := s.threads.flatMap fun t => progFrees t.prog

/-- the ledger: returned frees plus frees still to run are the frees of the programs -/
def Led (progs : List (List Op)) (s : State) : Prop :=
  (s.freed ++ remainingFrees s).Perm (progs.flatMap progFrees)

theorem init_led (progs : List (List Op)) (disk : List Rec) : Led progs (init progs disk) := by
  simp [Led, remainingFrees, init, List.flatMap_map]

theorem step_led {c : Nat} {progs : List (List Op)} {s s' : State} {i : Nat} (ht : TInv c s) (h : Led progs s)
    (hs : step s i = some s') : Led progs s' := by
  obtain ⟨t, t', hi, hth, hput⟩ := step_thread ht hs
  unfold Led at h ⊢
  rcases hput with ⟨o, hb, hp⟩ | ⟨hb, hp⟩
  · have hperm := FreeConc.flatMap_set_cons (fun t : Thread => progFrees t.prog) s.threads i t t' o hi hb
    refine List.Perm.trans ?_ h
    simp only [remainingFrees, hth, hp, List.append_assoc, List.singleton_append]
    exact (hperm.symm).append_left _
  · have : remainingFrees s' = remainingFrees s := by
      unfold remainingFrees; rw [hth]; exact FreeConc.flatMap_set_same _ _ _ t _ hi hb
    rw [this, hp]; exact h

theorem run_inv_led {strict : Bool} {c : Nat} {progs : List (List Op)} {s : State} (h : Inv strict c s)
    (hl : Led progs s) (sched : List Nat) : Led progs (run s sched) := by
  induction sched generalizing s with
  | nil => exact hl
  | cons i r ih =>
    simp only [run, List.foldl_cons]
    cases hs : step s i with
    | none => exact ih h hl
    | some s' => exact ih (step_inv h hs) (step_led h.t hl hs)

theorem Led.quiescent {progs : List (List Op)} {s : State} (h : Led progs s) (hq : Quiescent s) :
    s.freed.Perm (progs.flatMap progFrees) := by
  have : remainingFrees s = [] := by
    unfold remainingFrees
    rw [List.flatMap_eq_nil_iff]
    intro t ht
    simp [(hq t ht).1, progFrees]
  unfold Led at h
  simpa [this] using h

/-- under the strict discipline: applied, then the unapplied `.gc` entries, then the file, then the pool are the log of
    returned frees -/
theorem Inv.applied_exactly {c : Nat} {s : State} (h : Inv true c s) :
    s.applied ++ pendingGc s ++ s.flFile ++ s.flPool = s.freed := by
  rw [← h.d.acct, h.d.appl rfl]
  unfold pendingGc
  split <;> simp

/-- at quiescence nobody holds the lock and nothing is in flight -/
theorem TInv.quiescent {c : Nat} {s : State} (h : TInv c s) (hq : Quiescent s) :
    s.flushLock = none ∧ ∀ r, ¬ InFlight s r := by
  have hl : s.flushLock = none := by
    cases hl : s.flushLock with
    | none => rfl
    | some j =>
      have hj := h.lockLt j hl
      have hget : s.threads[j]? = some s.threads[j] := List.getElem?_eq_getElem hj
      have := (h.lock j _ hget).2 hl
      have hq' := (hq _ (List.getElem_mem hj)).2
      rw [hq'] at this
      simp [Pc.holds] at this
  exact ⟨hl, h.unlocked_not_inFlight hl⟩

end Sth.BarrierConc
