/-
C06 — the hand-over windows of primary GC, part 2: what the calls of other threads do between the
hand-over and the flush, and between the flush and the apply.

Two facts make the windows safe:
  * no call of another thread writes the hand-over file (`.gc`): what such a call frees goes to the pool
    and, at its own Flush, to the NEW freelist file;
  * records pooled by such a call are allocated at the frontier, beyond every location a freelist entry
    names — so an entry that names no pooled record (true for every entry after the collector's flush)
    never names one later (`NotPooled` is kept).
Core Lean only.
-/
import Sth.Lemmas.C06H1

namespace Sth.C06W

open Sth.C11 Sth.C13H Sth.C13X

/-- what a Put or Remove does to the pool of records: records are only added, and only at blocks that
    were not below the allocation frontier -/
def PoolGrow (m m' : Mem) : Prop :=
  (m.kind = .mh → 1 ≤ m.pmax) →
    (m'.kind = .mh → 1 ≤ m'.pmax) ∧ (∀ blk, Below m blk → Below m' blk) ∧
      ∀ r ∈ m'.pnext, r ∈ m.pnext ∨ ¬ Below m r.blk

theorem poolGrow_memStep : MemStep PoolGrow where
  refl := fun _ hp => ⟨hp, fun _ h => h, fun _ h => Or.inl h⟩
  trans := fun {a b c} h1 h2 hp => by
    obtain ⟨p1, b1, r1⟩ := h1 hp
    obtain ⟨p2, b2, r2⟩ := h2 p1
    refine ⟨p2, fun blk h => b2 blk (b1 blk h), ?_⟩
    intro r hr
    rcases r2 r hr with h | h
    · exact r1 r h
    · exact Or.inr (fun hc => h (b1 _ hc))
  put := fun m k v hp => by
    refine ⟨by rw [putMem_kind, putMem_pmax]; exact hp, fun blk h => below_putMem k v h, ?_⟩
    intro r hr
    rw [putMem_pnext, List.mem_append, List.mem_singleton] at hr
    rcases hr with h | rfl
    · exact Or.inl h
    · exact Or.inr (not_below_next hp _)
  inext := fun _ _ hp => ⟨hp, fun _ h => h, fun _ h => Or.inl h⟩
  flpool := fun _ _ hp => ⟨hp, fun _ h => h, fun _ h => Or.inl h⟩

theorem NotPooled.grow {m m' : Mem} {fb : Block} (h : NotPooled m fb) (hb : Below m fb)
    (hp : m.kind = .mh → 1 ≤ m.pmax) (hg : PoolGrow m m') : NotPooled m' fb := by
  obtain ⟨_, _, hr⟩ := hg hp
  intro r hr' hc
  rcases hr r hr' with h' | h'
  · exact h r h' hc
  · exact h' (below_of_off hc hb)

section
variable {c : Cfg} {U : List (Bytes × Bytes)} {s : SState} {spec : Spec} {n B : Nat}

/-- every entry of the hand-over file lies below the allocation frontier -/
theorem gc_below (hG : GInv c U s spec n B) : ∀ fb ∈ flGcEntries s.d, Below s.m fb := by
  obtain ⟨pf, psp, _, _, _, zf⟩ := hG.z
  obtain ⟨batch, hparse, hbatch⟩ := flinv_batch zf
  intro fb hfb
  have hbe : flGcEntries s.d = batch := by unfold flGcEntries; rw [hparse]
  rw [hbe] at hfb
  exact (hbatch fb hfb).1

/-- Flush in a hand-over window: the hand-over file is not written; the record pool is emptied or
    left as it is -/
theorem flush_hand (hU : Univ c.kind U) (hG : GInv c U s spec n B) (hn : n < 1073741824)
    (hB : B < two31) (order : List Nat) :
    ∃ m' d', storeFlush s.m s.d (fixOrder order s.m.inext.keys) = some (m', d') ∧
      d'.freeGc = s.d.freeGc ∧ (m'.pnext = [] ∨ m'.pnext = s.m.pnext) := by
  by_cases hout : outstanding s.m = true
  · obtain ⟨m1, d1, p1, hG1, hp1, hi1, _, _, _, _, _, q8, _⟩ := priFlush_g hU hG hn
    obtain ⟨f1, f2⟩ := fixOrder_ok order s.m.inext
    obtain ⟨m2, d2, i1, _, _, a1, _, _, _, _, b2, _⟩ :=
      idxFlush_g (s := ⟨s.cfg, m1, d1⟩) hU hG1 hn hB
        (order := fixOrder order s.m.inext.keys) (by rw [hi1]; exact f1) (by rw [hi1]; exact f2)
    have a1' : m2.pnext = m1.pnext := a1
    have b2' : d2.freeGc = d1.freeGc := b2
    have hshape : flFlush m2 d2 = (m2, d2) ∨ flFlush m2 d2 = ({ m2 with flpool := [] },
        { d2 with free := some (d2.free.getD [] ++ m2.flpool.flatMap blockBytes) }) := by
      unfold flFlush
      split
      · exact Or.inl rfl
      · exact Or.inr rfl
    refine ⟨(flFlush m2 d2).1, (flFlush m2 d2).2, ?_, ?_, Or.inl ?_⟩
    · unfold storeFlush commit
      rw [if_pos hout]
      simp only [p1, i1]
    · rcases hshape with e | e
      · rw [e]; show d2.freeGc = _; rw [b2', q8]
      · rw [e]; show d2.freeGc = _; rw [b2', q8]
    · rcases hshape with e | e
      · rw [e]; show m2.pnext = []; rw [a1', hp1]
      · rw [e]; show m2.pnext = []; rw [a1', hp1]
  · refine ⟨s.m, s.d, ?_, rfl, Or.inr rfl⟩
    unfold storeFlush; rw [if_neg hout]

/-- one call in a hand-over window -/
theorem hand_step (hU : Univ c.kind U) (hG : GInv c U s spec n B) (hn : n < 268435456) (op : SOp)
    (hop : isWin op = true)
    (hkey : ∀ k, op.keyOf = some k → ∀ dig, keyClass c.kind k = .ok dig → (k, dig) ∈ U)
    (hB : B + op.bytes < two31) :
    (stepS s op).1.cfg = s.cfg ∧ (stepS s op).1.d.freeGc = s.d.freeGc ∧
      ∀ fb ∈ flGcEntries s.d, NotPooled s.m fb → NotPooled (stepS s op).1.m fb := by
  have hp : s.m.kind = .mh → 1 ≤ s.m.pmax := fun _ => hG.pmax1
  cases op with
  | put k v =>
    have hps : PoolGrow s.m (stepS s (.put k v)).1.m := by
      rw [stepS_put_fst]; exact storePut_memStep poolGrow_memStep _ _ _ _
    refine ⟨by rw [stepS_put_fst], by rw [stepS_put_fst], ?_⟩
    intro fb hfb h
    exact h.grow (gc_below hG fb hfb) hp hps
  | rm k =>
    have hps : PoolGrow s.m (stepS s (.rm k)).1.m := by
      rw [stepS_rm_fst]; exact storeRemove_memStep poolGrow_memStep _ _ _
    refine ⟨by rw [stepS_rm_fst], by rw [stepS_rm_fst], ?_⟩
    intro fb hfb h
    exact h.grow (gc_below hG fb hfb) hp hps
  | get k =>
    obtain ⟨h1, _⟩ := step_read_g hU hG (.get k) (Or.inl ⟨k, rfl⟩) hkey
    rw [h1]; exact ⟨rfl, rfl, fun _ _ h => h⟩
  | has k =>
    obtain ⟨h1, _⟩ := step_read_g hU hG (.has k) (Or.inr (Or.inl ⟨k, rfl⟩)) hkey
    rw [h1]; exact ⟨rfl, rfl, fun _ _ h => h⟩
  | size k =>
    obtain ⟨h1, _⟩ := step_read_g hU hG (.size k) (Or.inr (Or.inr ⟨k, rfl⟩)) hkey
    rw [h1]; exact ⟨rfl, rfl, fun _ _ h => h⟩
  | flush order =>
    obtain ⟨m', d', f1, f2, f3⟩ := flush_hand hU hG (by omega) (by omega) order
    have e : (stepS s (.flush order)).1 = { s with m := m', d := d' } := by simp only [stepS, f1]
    rw [e]
    refine ⟨rfl, f2, ?_⟩
    intro fb _ h r hr
    rcases f3 with f3 | f3
    · rw [show ({ s with m := m', d := d' } : SState).m.pnext = m'.pnext from rfl, f3] at hr; cases hr
    · rw [show ({ s with m := m', d := d' } : SState).m.pnext = m'.pnext from rfl, f3] at hr
      exact h r hr
  | iter order =>
    obtain ⟨m', d', f1, f2, f3⟩ := flush_hand hU hG (by omega) (by omega) order
    have e : (stepS s (.iter order)).1 = { s with m := m', d := d' } := by
      simp only [stepS, f1]
      cases storeIter m' d' <;> rfl
    rw [e]
    refine ⟨rfl, f2, ?_⟩
    intro fb _ h r hr
    rcases f3 with f3 | f3
    · rw [show ({ s with m := m', d := d' } : SState).m.pnext = m'.pnext from rfl, f3] at hr; cases hr
    · rw [show ({ s with m := m', d := d' } : SState).m.pnext = m'.pnext from rfl, f3] at hr
      exact h r hr
  | igc a b => cases hop
  | pgc a b => cases hop
  | reopen a b => cases hop

end

/-- a whole hand-over window: the calls return what the map returns, the GC invariant holds for the map
    after them, the hand-over file is what it was, and its entries still name no pooled record -/
theorem hand_run {c : Cfg} {U : List (Bytes × Bytes)} (hc : c.Legal) (hU : Univ c.kind U) :
    ∀ (win : List SOp) (s : SState) (spec : Spec) (n B : Nat),
    GInv c U s spec n B → (∀ op ∈ win, isWin op = true) →
    (∀ op ∈ win, ∀ k, op.keyOf = some k → ∀ dig, keyClass c.kind k = .ok dig → (k, dig) ∈ U) →
    GcCountersOK s win → B + (win.map SOp.bytes).sum < two31 →
    (runS s win).2 = (specRun c.kind c.imm spec win).2 ∧
      (∃ n', GInv c U (runS s win).1 (specRun c.kind c.imm spec win).1 n'
        (B + (win.map SOp.bytes).sum)) ∧
      (runS s win).1.cfg = s.cfg ∧ (runS s win).1.d.freeGc = s.d.freeGc ∧
      ∀ fb ∈ flGcEntries s.d, NotPooled s.m fb → NotPooled (runS s win).1.m fb
  | [], s, _, n, _, hG, _, _, _, _ => ⟨rfl, ⟨n, hG⟩, rfl, rfl, fun _ _ h => h⟩
  | op :: win, s, spec, n, B, hG, hw, hk, hb, hB => by
    simp only [List.map_cons, List.sum_cons] at hB ⊢
    obtain ⟨hb1, hb2⟩ := hb
    obtain ⟨h1, n1, h2, _⟩ := step_g hc hU hG.tight hb1 op (hk op (by simp)) (by omega)
    obtain ⟨r1, r2, r3⟩ := hand_step hU hG.tight hb1 op (hw op (by simp)) (hk op (by simp)) (by omega)
    obtain ⟨i1, ⟨n2, i2⟩, i3, i4, i5⟩ := hand_run hc hU win (stepS s op).1
      (specStep c.kind c.imm spec op).1 n1 (B + op.bytes) h2 (fun o ho => hw o (by simp [ho]))
      (fun o ho => hk o (by simp [ho])) hb2 (by omega)
    have e2 : B + (op.bytes + (win.map SOp.bytes).sum) = B + op.bytes + (win.map SOp.bytes).sum := by
      omega
    have hge : flGcEntries (stepS s op).1.d = flGcEntries s.d := by unfold flGcEntries; rw [r2]
    refine ⟨by rw [runS_cons, specRun_cons, h1, i1], ⟨n2, ?_⟩, ?_, ?_, ?_⟩
    · rw [runS_cons_fst, specRun_cons_fst, e2]; exact i2
    · rw [runS_cons_fst, i3, r1]
    · rw [runS_cons_fst, i4, r2]
    · intro fb hfb h
      rw [runS_cons_fst]
      exact i5 fb (by rw [hge]; exact hfb) (r3 fb hfb h)

end Sth.C06W
