/-
C02 — a clean Close followed by reopen preserves the exact contents, with the saved snapshot or by
rescanning the index log: the reopen step, the other steps on the extended invariant, the run.
Core Lean only.
-/
import Sth.Lemmas.C02Reopen

namespace Sth

/-- the calls C02 is about: everything except the two GCs -/
def SOp.isC02 : SOp → Bool
  | .igc .. => false
  | .pgc .. => false
  | _ => true

/-! ### Close -/

theorem storeClose_eq {m m1 m2 : Mem} {d d1 d2 : Disk} {order : List Nat}
    (h1 : priFlush m d = some (m1, d1)) (h2 : idxFlush m1 d1 order = (m2, d2)) :
    ∃ fr, storeClose { disk := d, mem := some m } order =
      some { disk := { d2 with snap := some ⟨8 * 2 ^ m2.bits, m2.buckets.filter (·.2 ≠ 0)⟩, free := fr },
             mem := none } ∧
      fr.getD [] = d2.free.getD [] ++ m2.flpool.flatMap blockBytes := by
  unfold storeClose
  simp only [h1, h2]
  unfold flFlush
  split
  · rename_i he
    refine ⟨d2.free, rfl, ?_⟩
    rw [List.isEmpty_iff.mp he]
    simp
  · exact ⟨_, rfl, rfl⟩

/-! ### the reopen step -/

section
variable {c : Cfg} {U : List (Bytes × Bytes)} {s : SState} {spec : Spec} {n B : Nat}

/-- the reopen step with everything exposed: the fully flushed state `(m2, d2)` Close reaches, how the
    reopened state relates to it (`Reopened`), and what became of the freelist -/
theorem step_reopen_full (hc : c.Legal) (hU : Univ c.kind U) (hI : Inv c U s spec n B) (hX : XInv c s)
    (hn : n < 1073741824) (hB : B < two31) (order : List Nat) (us : Bool) :
    ∃ m1 d1 m2 d2 m' d', priFlush s.m s.d = some (m1, d1) ∧
      idxFlush m1 d1 (fixOrder order s.m.inext.keys) = (m2, d2) ∧
      stepS s (.reopen order us) = (⟨s.cfg, m', d'⟩, .gc) ∧
      Inv c U ⟨s.cfg, m', d'⟩ spec n B ∧ XInv c ⟨s.cfg, m', d'⟩ ∧
      (∀ b, idxRecords m' d' b = idxRecords s.m s.d b) ∧
      (∀ blk k v, priGet s.m s.d blk = .got k v → priGet m' d' blk = .got k v) ∧
      (∀ b, (m'.buckets.get? b).getD 0 = (m2.buckets.get? b).getD 0) ∧
      Reopened m2 d2 m' d' ∧ m'.flpool = [] ∧
      d'.free = some (d2.free.getD [] ++ m2.flpool.flatMap blockBytes) ∧ d'.freeGc = d2.freeGc ∧
      d'.snap = none := by
  obtain ⟨m1, d1, m2, d2, p1, i1, hI2, hX2, hin, hpn, _, hR, hP⟩ := flushBoth_inv hU hI hX hn hB order
  obtain ⟨fr, hcl, hfr⟩ := storeClose_eq p1 i1
  have hcfg : s.cfg = c := hX.cfg
  have hIp : PInv m2 d2 := hI2.p
  have hIi : IInv m2 d2 := hI2.i
  have hkind : m2.kind = c.kind := hI2.kind
  have hbits : m2.bits = c.bits := hX2.bits
  obtain ⟨lg, hl⟩ := hX2.log
  have hlf : ∀ f, f ≤ m2.ifileNum → d2.ifiles.get? f = some (logBytes (lg f)) := hl.files
  have hlr : ∀ f, f ≤ m2.ifileNum → ∀ r ∈ lg f, RecLogOK c.bits r := by
    intro f hf r hr
    have := hl.recs f hf r hr
    rw [← hbits]; exact this
  have hlt : ∀ b, (m2.buckets.get? b).getD 0 = ((scanTo c.ifs lg m2.ifileNum).get? b).getD 0 := by
    intro b
    have := hl.table b
    have e : m2.imax = c.ifs := hX2.imax
    rw [← e]; exact this
  have hino : d2.ifiles.get? (m2.ifileNum + 1) = none := hIi.noFiles _ (by omega)
  have hph : c.kind = .mh → d2.phdr = some ⟨c.pfs, 0⟩ := hX2.phdr
  have hpall : c.kind = .mh → ∀ f, f ≤ m2.pfileNum → d2.pfiles.get? f ≠ none := hX2.pall
  have hpno : c.kind = .mh → d2.pfiles.get? (m2.pfileNum + 1) = none := by
    intro hk
    exact (hIp.mh (by rw [hkind]; exact hk)).2.2 _ (by omega)
  have hih : d2.ihdr = some ⟨c.bits, c.ifs, 0, hdrPfs c⟩ := hX2.ihdr
  -- the disk handed to OpenStore and what OpenStore returns
  have hopen : ∃ d5 cf pfn plen files' bk,
      (if us = true then ({ d2 with snap := some ⟨8 * 2 ^ m2.bits, m2.buckets.filter (·.2 ≠ 0)⟩,
                                    free := fr } : Disk)
        else { ({ d2 with snap := some ⟨8 * 2 ^ m2.bits, m2.buckets.filter (·.2 ≠ 0)⟩,
                          free := fr } : Disk) with snap := none }) = d5 ∧
      d5.pfiles = d2.pfiles ∧ d5.cidfile = d2.cidfile ∧ d5.ihdr = d2.ihdr ∧ d5.phdr = d2.phdr ∧
      openStore c d5 = ({ d5 with free := some (d5.free.getD []), cidfile := cf, snap := none,
                                  ifiles := files' },
        .ok (openMem c bk m2.ifileNum (fileOf files' m2.ifileNum).length pfn plen)) ∧
      (c.kind = .mh → cf = d5.cidfile ∧ pfn = m2.pfileNum ∧
        plen = (fileOf d5.pfiles m2.pfileNum).length) ∧
      (c.kind = .cid → cf = some (d5.cidfile.getD []) ∧ pfn = 0 ∧
        plen = (d5.cidfile.getD []).length) ∧
      (∀ f, files'.get? f = d2.ifiles.get? f) ∧ NMap.Sorted bk ∧
      ∀ b, (bk.get? b).getD 0 = (m2.buckets.get? b).getD 0 := by
    cases us with
    | true =>
      refine ⟨({ d2 with snap := some ⟨8 * 2 ^ m2.bits, m2.buckets.filter (·.2 ≠ 0)⟩, free := fr } : Disk),
        ?_⟩
      obtain ⟨cf, pfn, plen, files', bk, o1, o2, o3, o4⟩ := openStore_ok c hc
        ({ d2 with snap := some ⟨8 * 2 ^ m2.bits, m2.buckets.filter (·.2 ≠ 0)⟩, free := fr } : Disk)
        m2.pfileNum m2.ifileNum hph hpall hpno
        (Q := fun files' bk => (∀ f, files'.get? f = d2.ifiles.get? f) ∧ NMap.Sorted bk ∧
          ∀ b, (bk.get? b).getD 0 = (m2.buckets.get? b).getD 0)
        (by
          intro dP e1 e2 e3
          refine ⟨dP.ifiles, m2.buckets.filter (·.2 ≠ 0), ?_, ?_, ?_, ?_⟩
          · apply openIndex_snap c hc dP m2.ifileNum _ (by rw [e1]; exact hih)
              (by rw [e2, hbits])
            · intro f hf; rw [e3]; show d2.ifiles.get? f ≠ none; rw [hlf f hf]; simp
            · rw [e3]; exact hino
          · intro f; rw [e3]
          · exact NMap.sorted_filter _ hIi.sorted
          · exact NMap.get?_filter_nz hIi.sorted)
      exact ⟨cf, pfn, plen, files', bk, by simp, rfl, rfl, rfl, rfl, o1, o2, o3, o4⟩
    | false =>
      refine ⟨({ d2 with snap := none, free := fr } : Disk), ?_⟩
      obtain ⟨cf, pfn, plen, files', bk, o1, o2, o3, o4⟩ := openStore_ok c hc
        ({ d2 with snap := none, free := fr } : Disk)
        m2.pfileNum m2.ifileNum hph hpall hpno
        (Q := fun files' bk => (∀ f, files'.get? f = d2.ifiles.get? f) ∧ NMap.Sorted bk ∧
          ∀ b, (bk.get? b).getD 0 = (m2.buckets.get? b).getD 0)
        (by
          intro dP e1 e2 e3
          obtain ⟨files', q1, q2⟩ := openIndex_scan c hc dP m2.ifileNum lg (by rw [e1]; exact hih)
            (by rw [e2]) (by intro f hf; rw [e3]; exact hlf f hf) (by rw [e3]; exact hino) hlr
          refine ⟨files', scanTo c.ifs lg m2.ifileNum, q1, ?_, scanTo_sorted _ _ _, ?_⟩
          · intro f; rw [q2, e3]
          · intro b; exact (hlt b).symm)
      exact ⟨cf, pfn, plen, files', bk, by simp, rfl, rfl, rfl, rfl, o1, o2, o3, o4⟩
  obtain ⟨d5, cf, pfn, plen, files', bk, e5, g1, g2, g3, g4, o1, o2, o3, q1, q2, q3⟩ := hopen
  have halloc : m2.kind = .mh → m2.pfileNum = m2.precFileNum ∧ m2.plength = m2.precPos := by
    intro hk
    have := (hIp.mh hk).1
    rw [hpn] at this
    exact this
  have hr : Reopened m2 d2 (openMem c bk m2.ifileNum (fileOf files' m2.ifileNum).length pfn plen)
      { d5 with free := some (d5.free.getD []), cidfile := cf, snap := none, ifiles := files' } := by
    refine ⟨hkind.symm, hI2.imm.symm, hbits.symm, hX2.imax.symm, hX2.pmax.symm, rfl, rfl, rfl, rfl, rfl,
      rfl, q2, q3, q1, g1, ?_, ?_, ?_, ?_, ?_, g3, g4⟩
    · intro file hf
      show cf = some file
      rcases kind_cases m2 with hk | hk
      · rw [(o2 (by rw [← hkind]; exact hk)).1, g2]; exact hf
      · rw [(o3 (by rw [← hkind]; exact hk)).1, g2, hf]; rfl
    · show cf.getD [] = d2.cidfile.getD []
      rcases kind_cases m2 with hk | hk
      · rw [(o2 (by rw [← hkind]; exact hk)).1, g2]
      · rw [(o3 (by rw [← hkind]; exact hk)).1, g2]; rfl
    · intro hk
      show pfn = m2.precFileNum
      rw [(o2 (by rw [← hkind]; exact hk)).2.1]
      exact (halloc hk).1
    · show plen = m2.precPos
      rcases kind_cases m2 with hk | hk
      · rw [(o2 (by rw [← hkind]; exact hk)).2.2, g1, (hIp.mh hk).2.1]
        exact (halloc hk).2
      · rw [(o3 (by rw [← hkind]; exact hk)).2.2, g2]
        have := hIp.cid hk
        rw [hpn] at this
        exact this
    · intro hk
      show pfn = m2.pfileNum ∧ plen = m2.plength
      obtain ⟨_, a2, a3⟩ := o2 (by rw [← hkind]; exact hk)
      rw [a2, a3, g1]
      exact ⟨rfl, (hIp.mh hk).2.1⟩
  obtain ⟨hI', hX'⟩ := reopen_inv hI2 hX2 hin hpn hr
  refine ⟨m1, d1, m2, d2, _, _, p1, i1, ?_, by rw [hcfg]; exact hI', by rw [hcfg]; exact hX', ?_, ?_, q3,
    hr, rfl, ?_, ?_, rfl⟩
  · unfold stepS
    simp only [hcl, e5, hcfg, o1]
  · intro b
    rw [hr.idxRecords hIi hin b]
    exact hR b
  · intro blk k v hg
    exact hr.priGet hIp hpn (hP blk k v hg)
  · show some (d5.free.getD []) = _
    rw [← hfr, ← e5]
    cases us <;> rfl
  · show d5.freeGc = d2.freeGc
    rw [← e5]
    cases us <;> rfl

theorem step_reopen (hc : c.Legal) (hU : Univ c.kind U) (hI : Inv c U s spec n B) (hX : XInv c s)
    (hn : n < 1073741824) (hB : B < two31) (order : List Nat) (us : Bool) :
    ∃ m1 d1 m2 d2 m' d', priFlush s.m s.d = some (m1, d1) ∧
      idxFlush m1 d1 (fixOrder order s.m.inext.keys) = (m2, d2) ∧
      stepS s (.reopen order us) = (⟨s.cfg, m', d'⟩, .gc) ∧
      Inv c U ⟨s.cfg, m', d'⟩ spec n B ∧ XInv c ⟨s.cfg, m', d'⟩ ∧
      (∀ b, idxRecords m' d' b = idxRecords s.m s.d b) ∧
      (∀ blk k v, priGet s.m s.d blk = .got k v → priGet m' d' blk = .got k v) ∧
      (∀ b, (m'.buckets.get? b).getD 0 = (m2.buckets.get? b).getD 0) := by
  obtain ⟨m1, d1, m2, d2, m', d', h1, h2, h3, h4, h5, h6, h7, h8, _⟩ :=
    step_reopen_full hc hU hI hX hn hB order us
  exact ⟨m1, d1, m2, d2, m', d', h1, h2, h3, h4, h5, h6, h7, h8⟩

end

end Sth

namespace Sth

section
variable {c : Cfg} {U : List (Bytes × Bytes)} {s : SState} {spec : Spec} {n B : Nat}

/-! ### the extended invariant under Put and Remove -/

/-- the in-memory change of a Put or Remove: nothing, or one bucket of the index pool (and pools the
    extended invariant does not look at) -/
def MutShape (base : Mem) (s s' : SState) : Prop :=
  s' = s ∨ ∃ m' b rl, s' = { s with m := m' } ∧ Frame base m' ∧ m'.inext = s.m.inext.set b rl ∧
    b < 2 ^ s.m.bits

theorem putShape (hU : Univ c.kind U) (hI : Inv c U s spec n B) (k v : Bytes)
    (hkey : ∀ dig, keyClass c.kind k = .ok dig → (k, dig) ∈ U)
    (hn : n + 1 < 1073741824) (hB : B + (k.length + v.length + 17) < two31) :
    MutShape (putMem s.m k v) s (stepS s (.put k v)).1 := by
  have hU' : Univ s.m.kind U := by rw [hI.kind]; exact hU
  cases hcls : keyClass c.kind k with
  | error e =>
    have := storePut_bad (m := s.m) (d := s.d) (k := k) (v := v) (e := e) (by rw [hI.kind]; exact hcls)
    left
    simp only [stepS, this]
  | ok dig =>
    have hk := hkey dig hcls
    have hpre := putPre_of_inv hI (key := k) (val := v) hn hB
    cases hs : Spec.get spec dig with
    | none =>
      obtain ⟨b, rl, h1, _, h3⟩ := storePut_absent hU' hI.bits8 hI.bits31 hI.a hpre hk hs
      right
      refine ⟨setNext (putMem s.m k v) b rl, b, rl, by simp only [stepS, h1], frame_setNext _ _ _, ?_, h3⟩
      show (putMem s.m k v).inext.set b rl = _
      rw [putMem_inext]
    | some kv =>
      obtain ⟨key0, old⟩ := kv
      obtain ⟨p1, p2, p3⟩ := storePut_present (val := v) hU' hI.bits31 hI.a hk hs
      by_cases himm : s.m.imm = true
      · left
        simp only [stepS, p1 himm]
      · have himm0 : s.m.imm = false := by simpa using himm
        by_cases hv : v = old
        · left
          simp only [stepS, p2 himm0 hv]
        · obtain ⟨b, rl, blk, h1, _, h3⟩ := p3 himm0 hv hpre
          right
          refine ⟨addFree (setNext (putMem s.m k v) b rl) blk, b, rl, by simp only [stepS, h1],
            frame_addFree_setNext _ _ _ _, ?_, h3⟩
          show (putMem s.m k v).inext.set b rl = _
          rw [putMem_inext]

theorem rmShape (hU : Univ c.kind U) (hI : Inv c U s spec n B) (k : Bytes)
    (hkey : ∀ dig, keyClass c.kind k = .ok dig → (k, dig) ∈ U) :
    MutShape s.m s (stepS s (.rm k)).1 := by
  have hU' : Univ s.m.kind U := by rw [hI.kind]; exact hU
  cases hcls : keyClass c.kind k with
  | error e =>
    have := storeRemove_bad (m := s.m) (d := s.d) (k := k) (e := e) (by rw [hI.kind]; exact hcls)
    left
    simp only [stepS, this]
  | ok dig =>
    have hk := hkey dig hcls
    obtain ⟨r1, r2⟩ := storeRemove_ok hU' hI.bits31 hI.a hk
    cases hs : Spec.get spec dig with
    | none =>
      left
      simp only [stepS, r1 hs]
    | some kv =>
      obtain ⟨b, rl, blk, h1, _, h3⟩ := r2 kv hs
      right
      exact ⟨addFree (setNext s.m b rl) blk, b, rl, by simp only [stepS, h1],
        frame_addFree_setNext _ _ _ _, rfl, h3⟩

theorem XInv.of_shape {base : Mem} {s' : SState} (hX : XInv c s) (h : MutShape base s s')
    (hb1 : base.bits = s.m.bits) (hb2 : base.imax = s.m.imax) (hb3 : base.pmax = s.m.pmax)
    (hb4 : base.pfileNum = s.m.pfileNum) (hb5 : base.ifileNum = s.m.ifileNum)
    (hb6 : base.buckets = s.m.buckets) : XInv c s' := by
  rcases h with rfl | ⟨m', b, rl, rfl, hf, hin, hlt⟩
  · exact hX
  · have ebits : m'.bits = s.m.bits := by rw [hf.bits, hb1]
    refine ⟨hX.cfg, by show m'.bits = _; rw [ebits]; exact hX.bits,
      by show m'.imax = _; rw [hf.imax, hb2]; exact hX.imax,
      by show m'.pmax = _; rw [hf.pmax, hb3]; exact hX.pmax, hX.ihdr, hX.phdr, ?_, ?_, ?_⟩
    · intro hk f hf'
      have hf'' : f ≤ m'.pfileNum := hf'
      rw [hf.pfileNum, hb4] at hf''
      exact hX.pall hk f hf''
    · intro b' rl' hb'
      have hb'' : m'.inext.get? b' = some rl' := hb'
      show b' < 2 ^ m'.bits
      rw [ebits]
      rw [hin, NMap.get?_set] at hb''
      split at hb''
      · rename_i hbb; rw [hbb]; exact hlt
      · exact hX.inextLt b' rl' hb''
    · exact hX.log.frame rfl (by rw [hf.ifileNum, hb5]) ebits (by rw [hf.imax, hb2])
        (by rw [hf.buckets, hb6])

/-! ### Flush and iteration on the extended invariant -/

theorem flush_of_inv2 (hU : Univ c.kind U) (hI : Inv c U s spec n B) (hX : XInv c s)
    (hn : n < 1073741824) (hB : B < two31) (order : List Nat) :
    ∃ m' d', storeFlush s.m s.d (fixOrder order s.m.inext.keys) = some (m', d') ∧
      Inv c U ⟨s.cfg, m', d'⟩ spec n B ∧ XInv c ⟨s.cfg, m', d'⟩ ∧ m'.inext = [] := by
  by_cases hout : outstanding s.m = true
  · obtain ⟨m1, d1, m2, d2, p1, i1, hI2, hX2, hin, _, _, _, _⟩ := flushBoth_inv hU hI hX hn hB order
    obtain ⟨fl, fr, f1⟩ := flFlush_shape m2 d2
    refine ⟨{ m2 with flpool := fl }, { d2 with free := fr }, ?_, hI2.frame_ff fl fr d2.snap,
      hX2.frame_ff fl fr d2.snap, hin⟩
    unfold storeFlush commit
    rw [if_pos hout]
    simp only [p1, i1, f1]
  · refine ⟨s.m, s.d, ?_, hI, hX, ?_⟩
    · unfold storeFlush; rw [if_neg hout]
    · unfold outstanding at hout
      simp only [Bool.or_eq_true, Bool.not_eq_true', not_or, Bool.not_eq_false] at hout
      exact List.isEmpty_iff.mp hout.1

/-! ### one step -/

theorem step_ok2 (hc : c.Legal) (hU : Univ c.kind U) (hI : Inv c U s spec n B) (hX : XInv c s)
    (op : SOp) (hop : op.isC02 = true)
    (hkey : ∀ k, op.keyOf = some k → ∀ dig, keyClass c.kind k = .ok dig → (k, dig) ∈ U)
    (hn : n + 1 < 1073741824) (hB : B + op.bytes < two31) :
    (stepS s op).2 = (specStep c.kind c.imm spec op).2 ∧
      Inv c U (stepS s op).1 (specStep c.kind c.imm spec op).1 (n + 1) (B + op.bytes) ∧
      XInv c (stepS s op).1 := by
  cases op with
  | put k v =>
    obtain ⟨h1, h2⟩ := step_ok hU hI (.put k v) rfl hkey hn hB
    refine ⟨h1, h2, hX.of_shape (putShape hU hI k v (hkey k rfl) hn hB) (putMem_bits _ _ _)
      (putMem_imax _ _ _) (putMem_pmax _ _ _) (putMem_pfileNum _ _ _) (putMem_ifileNum _ _ _)
      (putMem_buckets _ _ _)⟩
  | get k =>
    obtain ⟨h1, h2⟩ := step_ok hU hI (.get k) rfl hkey hn hB
    refine ⟨h1, h2, ?_⟩
    rw [(step_get hU hI k (hkey k rfl)).1]; exact hX
  | has k =>
    obtain ⟨h1, h2⟩ := step_ok hU hI (.has k) rfl hkey hn hB
    refine ⟨h1, h2, ?_⟩
    rw [(step_has hU hI k (hkey k rfl)).1]; exact hX
  | size k =>
    obtain ⟨h1, h2⟩ := step_ok hU hI (.size k) rfl hkey hn hB
    refine ⟨h1, h2, ?_⟩
    rw [(step_size hU hI k (hkey k rfl)).1]; exact hX
  | rm k =>
    obtain ⟨h1, h2⟩ := step_ok hU hI (.rm k) rfl hkey hn hB
    exact ⟨h1, h2, hX.of_shape (rmShape hU hI k (hkey k rfl)) rfl rfl rfl rfl rfl rfl⟩
  | flush order =>
    obtain ⟨m', d', f1, f2, f3, _⟩ := flush_of_inv2 hU hI hX (by omega) hB order
    simp only [stepS, f1, specStep, true_and]
    exact ⟨f2.mono (by omega) (Nat.le_refl _), f3⟩
  | iter order =>
    obtain ⟨m', d', f1, f2, f3, f4⟩ := flush_of_inv2 hU hI hX (by omega) hB order
    have hU' : Univ m'.kind U := by have := f2.kind; rw [this]; exact hU
    obtain ⟨L, l1, l2⟩ := storeIter_ok hU' f2.bits31 f2.a f2.i f4 f2.nodup
    simp only [stepS, f1, l1, specStep]
    refine ⟨?_, f2.mono (by omega) (Nat.le_refl _), f3⟩
    rw [l2]
  | reopen order us =>
    obtain ⟨m1, d1, m2, d2, m', d', _, _, r1, r2, r3, _⟩ :=
      step_reopen hc hU hI hX (by omega) hB order us
    rw [r1]
    simp only [specStep, true_and]
    exact ⟨r2.mono (by omega) (Nat.le_refl _), r3⟩
  | igc a b => cases hop
  | pgc a b => cases hop

end

/-! ### the run -/

theorem runS_cons_fst (s : SState) (op : SOp) (ops : List SOp) :
    (runS s (op :: ops)).1 = (runS (stepS s op).1 ops).1 := rfl

theorem specRun_cons_fst (kind : PKind) (imm : Bool) (m : Spec) (op : SOp) (ops : List SOp) :
    (specRun kind imm m (op :: ops)).1 = (specRun kind imm (specStep kind imm m op).1 ops).1 := rfl

theorem run_ok2 {c : Cfg} {U : List (Bytes × Bytes)} (hc : c.Legal) (hU : Univ c.kind U) :
    ∀ (ops : List SOp) (s : SState) (spec : Spec) (n B : Nat),
    Inv c U s spec n B → XInv c s → (∀ op ∈ ops, op.isC02 = true) →
    (∀ op ∈ ops, ∀ k, op.keyOf = some k → ∀ dig, keyClass c.kind k = .ok dig → (k, dig) ∈ U) →
    n + ops.length < 1073741824 → B + (ops.map SOp.bytes).sum < two31 →
    (runS s ops).2 = (specRun c.kind c.imm spec ops).2 ∧
      Inv c U (runS s ops).1 (specRun c.kind c.imm spec ops).1 (n + ops.length)
        (B + (ops.map SOp.bytes).sum) ∧ XInv c (runS s ops).1
  | [], _, _, _, _, hI, hX, _, _, _, _ => ⟨rfl, hI, hX⟩
  | op :: ops, s, spec, n, B, hI, hX, ha, hk, hn, hB => by
    simp only [List.length_cons, List.map_cons, List.sum_cons] at hn hB ⊢
    obtain ⟨h1, h2, h3⟩ := step_ok2 hc hU hI hX op (ha op (by simp)) (hk op (by simp)) (by omega)
      (by omega)
    obtain ⟨i1, i2, i3⟩ := run_ok2 hc hU ops (stepS s op).1 (specStep c.kind c.imm spec op).1 (n + 1)
      (B + op.bytes) h2 h3 (fun o ho => ha o (by simp [ho])) (fun o ho => hk o (by simp [ho]))
      (by omega) (by omega)
    refine ⟨by rw [runS_cons, specRun_cons, h1, i1], ?_, by rw [runS_cons_fst]; exact i3⟩
    rw [runS_cons_fst, specRun_cons_fst]
    have e1 : n + (ops.length + 1) = n + 1 + ops.length := by omega
    have e2 : B + (op.bytes + (ops.map SOp.bytes).sum) = B + op.bytes + (ops.map SOp.bytes).sum := by
      omega
    rw [e1, e2]
    exact i2

/-! ### the freshly opened store -/

theorem xinv_init (c : Cfg) (hc : c.Legal) (s : SState) (hi : initS c = some s) : XInv c s := by
  have hlog : ∀ (m : Mem) (d : Disk), m.ifileNum = 0 → m.buckets = [] → d.ifiles = [(0, [])] →
      LogInv m d := by
    intro m d e1 e2 e3
    refine ⟨fun _ => [], ?_, ?_, ?_⟩
    · intro f hf
      rw [e1] at hf
      have : f = 0 := by omega
      subst this
      rw [e3]
      rfl
    · intro f _ r hr; cases hr
    · intro b
      rw [e1, e2]
      rfl
  rcases (by cases c.kind <;> simp : c.kind = .mh ∨ c.kind = .cid) with hk | hk
  · rw [initS_mh c hc hk] at hi
    cases hi
    have hp : hdrPfs c = c.pfs := by unfold hdrPfs; simp only [hk]
    refine ⟨rfl, rfl, rfl, hp.symm, by rw [hp], fun _ => rfl, ?_, fun b rl hb => (by cases hb),
      hlog _ _ rfl rfl rfl⟩
    intro _ f hf
    have hf' : f ≤ 0 := hf
    have : f = 0 := by omega
    subst this
    simp [NMap.get?]
  · rw [initS_cid c hc hk] at hi
    cases hi
    have hp : hdrPfs c = 0 := by unfold hdrPfs; simp only [hk]
    refine ⟨rfl, rfl, rfl, hp.symm, by rw [hp], ?_, ?_, fun b rl hb => (by cases hb),
      hlog _ _ rfl rfl rfl⟩
    · intro hk'; rw [hk] at hk'; cases hk'
    · intro hk'; rw [hk] at hk'; cases hk'

/-- the store refines the map, with clean Close + reopen (snapshot or rescan) among the calls -/
theorem store_refines_map_c02 (c : Cfg) (hc : c.Legal) (ops : List SOp)
    (ha : ∀ op ∈ ops, op.isC02 = true) (hk : KeysOK c.kind ops)
    (hs : SizesOK ops) (s : SState) (hi : initS c = some s) :
    (runS s ops).2 = (specRun c.kind c.imm [] ops).2 ∧
      Inv c (digestsOf c.kind ops) (runS s ops).1 (specRun c.kind c.imm [] ops).1 (0 + ops.length)
        (0 + (ops.map SOp.bytes).sum) ∧ XInv c (runS s ops).1 := by
  have hU := univ_of_keysOK hk (keysExact_all c.kind ops)
  apply run_ok2 hc hU ops s [] 0 0 (inv_init c hc _ s hi) (xinv_init c hc s hi) ha
  · intro op ho k hkey dig hcls
    exact mem_digestsOf ho hkey hcls
  · have := hs.1; omega
  · have := hs.2.1; omega

end Sth

namespace Sth

/-! ### snapshot and rescan load the same table -/

theorem NMap.sorted_tail_none {α : Type} {k : Nat} {v : α} {xs : NMap α}
    (h : NMap.Sorted ((k, v) :: xs)) (j : Nat) (hj : j ≤ k) : NMap.get? xs j = none := by
  apply NMap.get?_none_of_not_mem_keys
  intro hm
  unfold NMap.Sorted at h
  simp only [List.map_cons, List.pairwise_cons] at h
  have := h.1 j hm
  omega

theorem NMap.sorted_tail {α : Type} {x : Nat × α} {xs : NMap α} (h : NMap.Sorted (x :: xs)) :
    NMap.Sorted xs := by
  unfold NMap.Sorted at h ⊢
  simp only [List.map_cons, List.pairwise_cons] at h
  exact h.2

/-- sorted association lists are determined by their lookups -/
theorem NMap.ext_sorted {α : Type} : ∀ {x y : NMap α}, NMap.Sorted x → NMap.Sorted y →
    (∀ k, NMap.get? x k = NMap.get? y k) → x = y
  | [], [], _, _, _ => rfl
  | [], (k, v) :: ys, _, _, h => by
    have := h k
    simp [NMap.get?_cons] at this
  | (k, v) :: xs, [], _, _, h => by
    have := h k
    simp [NMap.get?_cons] at this
  | (k, v) :: xs, (k', v') :: ys, hx, hy, h => by
    rcases Nat.lt_trichotomy k k' with hlt | heq | hgt
    · have := h k
      rw [NMap.get?_cons, if_pos rfl, NMap.get?_cons, if_neg (by omega),
        NMap.sorted_tail_none hy k (by omega)] at this
      cases this
    · subst heq
      have hv := h k
      rw [NMap.get?_cons, if_pos rfl, NMap.get?_cons, if_pos rfl] at hv
      cases hv
      have : xs = ys := by
        apply NMap.ext_sorted (NMap.sorted_tail hx) (NMap.sorted_tail hy)
        intro j
        by_cases hj : j = k
        · rw [hj, NMap.sorted_tail_none hx k (Nat.le_refl _), NMap.sorted_tail_none hy k (Nat.le_refl _)]
        · have := h j
          rw [NMap.get?_cons, if_neg (Ne.symm hj), NMap.get?_cons, if_neg (Ne.symm hj)] at this
          exact this
      rw [this]
    · have := h k'
      rw [NMap.get?_cons, if_neg (by omega), NMap.get?_cons, if_pos rfl,
        NMap.sorted_tail_none hx k' (by omega)] at this
      cases this

theorem NMap.filter_nz_val {m : NMap Nat} {k v : Nat}
    (h : NMap.get? (m.filter (·.2 ≠ 0)) k = some v) : v ≠ 0 := by
  have := (List.mem_filter.mp (NMap.mem_of_get? h)).2
  simpa using this

/-- tables that agree up to absent / zero entries have the same non-zero part -/
theorem NMap.filter_nz_eq {a b : NMap Nat} (ha : NMap.Sorted a) (hb : NMap.Sorted b)
    (h : ∀ k, (NMap.get? a k).getD 0 = (NMap.get? b k).getD 0) :
    a.filter (·.2 ≠ 0) = b.filter (·.2 ≠ 0) := by
  apply NMap.ext_sorted (NMap.sorted_filter _ ha) (NMap.sorted_filter _ hb)
  intro k
  have e : (NMap.get? (a.filter (·.2 ≠ 0)) k).getD 0 = (NMap.get? (b.filter (·.2 ≠ 0)) k).getD 0 := by
    rw [NMap.get?_filter_nz ha, NMap.get?_filter_nz hb]; exact h k
  cases h1 : NMap.get? (a.filter (·.2 ≠ 0)) k with
  | none =>
    cases h2 : NMap.get? (b.filter (·.2 ≠ 0)) k with
    | none => rfl
    | some w =>
      rw [h1, h2] at e
      simp only [Option.getD_none, Option.getD_some] at e
      exact absurd e.symm (NMap.filter_nz_val h2)
  | some v =>
    cases h2 : NMap.get? (b.filter (·.2 ≠ 0)) k with
    | none =>
      rw [h1, h2] at e
      simp only [Option.getD_none, Option.getD_some] at e
      exact absurd e (NMap.filter_nz_val h1)
    | some w =>
      rw [h1, h2] at e
      simp only [Option.getD_some] at e
      rw [e]

section
variable {c : Cfg} {U : List (Bytes × Bytes)} {s : SState} {spec : Spec} {n B : Nat}

theorem reopen_snapshot_eq_rescan (hc : c.Legal) (hU : Univ c.kind U) (hI : Inv c U s spec n B)
    (hX : XInv c s) (hn : n < 1073741824) (hB : B < two31) (order : List Nat) :
    (stepS s (.reopen order true)).1.m.buckets.filter (·.2 ≠ 0) =
        (stepS s (.reopen order false)).1.m.buckets.filter (·.2 ≠ 0) ∧
      ∀ b, idxRecords (stepS s (.reopen order true)).1.m (stepS s (.reopen order true)).1.d b =
        idxRecords (stepS s (.reopen order false)).1.m (stepS s (.reopen order false)).1.d b := by
  obtain ⟨m1, d1, m2, d2, ma, da, p1, i1, r1, hIa, _, oa, _, ta⟩ :=
    step_reopen hc hU hI hX hn hB order true
  obtain ⟨m1', d1', m2', d2', mb, db, p1', i1', r1', hIb, _, ob, _, tb⟩ :=
    step_reopen hc hU hI hX hn hB order false
  rw [p1] at p1'
  simp only [Option.some.injEq, Prod.mk.injEq] at p1'
  obtain ⟨rfl, rfl⟩ := p1'
  rw [i1] at i1'
  simp only [Prod.mk.injEq] at i1'
  obtain ⟨rfl, rfl⟩ := i1'
  rw [r1, r1']
  refine ⟨NMap.filter_nz_eq hIa.i.sorted hIb.i.sorted (fun k => (ta k).trans (tb k).symm), ?_⟩
  intro b
  exact (oa b).trans (ob b).symm

theorem reopen_observations (hc : c.Legal) (hU : Univ c.kind U) (hI : Inv c U s spec n B)
    (hX : XInv c s) (hn : n < 1073741824) (hB : B < two31) (order : List Nat) (us : Bool) :
    (stepS s (.reopen order us)).2 = .gc ∧
    (∀ b, idxRecords (stepS s (.reopen order us)).1.m (stepS s (.reopen order us)).1.d b =
      idxRecords s.m s.d b) ∧
    (∀ blk k v, priGet s.m s.d blk = .got k v →
      priGet (stepS s (.reopen order us)).1.m (stepS s (.reopen order us)).1.d blk = .got k v) := by
  obtain ⟨_, _, _, _, m', d', _, _, r1, _, _, o1, o2, _⟩ := step_reopen hc hU hI hX hn hB order us
  rw [r1]
  exact ⟨rfl, o1, o2⟩

end

end Sth

namespace Sth

theorem reopen_twice {c : Cfg} {U : List (Bytes × Bytes)} {s : SState} {spec : Spec} {n B : Nat}
    (hc : c.Legal) (hU : Univ c.kind U) (hI : Inv c U s spec n B)
    (hX : XInv c s) (hn : n < 1073741824) (hB : B < two31) (order order' : List Nat) (us us' : Bool) :
    (stepS (stepS s (.reopen order us)).1 (.reopen order' us')).2 = .gc ∧
    (∀ b, idxRecords (stepS (stepS s (.reopen order us)).1 (.reopen order' us')).1.m
        (stepS (stepS s (.reopen order us)).1 (.reopen order' us')).1.d b =
      idxRecords (stepS s (.reopen order us)).1.m (stepS s (.reopen order us)).1.d b) ∧
    (∀ blk k v, priGet (stepS s (.reopen order us)).1.m (stepS s (.reopen order us)).1.d blk = .got k v →
      priGet (stepS (stepS s (.reopen order us)).1 (.reopen order' us')).1.m
        (stepS (stepS s (.reopen order us)).1 (.reopen order' us')).1.d blk = .got k v) := by
  obtain ⟨_, _, _, _, m', d', _, _, r1, hI', hX', _, _, _⟩ := step_reopen hc hU hI hX hn hB order us
  rw [r1]
  exact reopen_observations hc hU hI' hX' hn hB order' us'

end Sth
