/-
C04 — index flush, freelist flush and Store.Flush on the GC invariant.
Core Lean only.
-/
import Sth.Lemmas.C04GFlush

namespace Sth

/-- changes that the primary's part of the invariant does not look at -/
theorem ZInv.frame {m m' : Mem} {d d' : Disk} (hz : ZInv m d)
    (hR : ∀ b, idxRecords m' d' b = idxRecords m d b)
    (hP : ∀ blk, priGet m' d' blk = priGet m d blk)
    (h1 : m'.pnext = m.pnext) (h2 : m'.pmax = m.pmax) (h3 : m'.pfileNum = m.pfileNum)
    (h4 : m'.flpool = m.flpool) (h5 : ∀ blk, Below m' blk ↔ Below m blk)
    (g1 : d'.phdr = d.phdr) (g2 : d'.pfiles = d.pfiles) (g3 : d'.free = d.free)
    (g4 : d'.freeGc = d.freeGc) : ZInv m' d' := by
  obtain ⟨pf, psp, zh, zl, ze, zf⟩ := hz
  have hent : ∀ blk, IsEnt m' d' blk ↔ IsEnt m d blk := by
    intro blk; unfold IsEnt; simp only [hR]
  refine ⟨pf, psp, by rw [g1, h2]; exact zh, ?_, ?_, ?_⟩
  · exact ⟨by rw [h3]; exact zl.le, by rw [g2]; exact zl.gone, by rw [g2, h3]; exact zl.files,
      by rw [h3]; exact zl.ok, by rw [h3, h2]; exact zl.starts⟩
  · intro blk hb
    obtain ⟨k, v, q1, q2⟩ := ze blk ((hent blk).mp hb)
    refine ⟨k, v, by rw [hP]; exact q1, ?_⟩
    rcases q2 with q2 | q2
    · exact Or.inl (by rw [h1]; exact q2)
    · exact Or.inr (q2.frame h3 h2)
  · obtain ⟨L1, L2, f1, f2, f3⟩ := zf
    refine ⟨L1, L2, by rw [g3]; exact f1, by rw [g4]; exact f2, ?_⟩
    intro fb hfb
    rw [h4] at hfb
    obtain ⟨q1, q2, q3, q4, q5⟩ := f3 fb hfb
    exact ⟨(h5 fb).mpr q1, fun blk hb => q2 blk ((hent blk).mp hb),
      q3.frame h3 h2 (fun r hr => by rw [h1]; exact hr), q4, q5⟩

/-- the freelist flush: the pool is appended to the freelist file -/
theorem zinv_flFlush {m : Mem} {d : Disk} (hz : ZInv m d) :
    ZInv (flFlush m d).1 (flFlush m d).2 ∧ (flFlush m d).1.flpool = [] ∧
      ∃ fr, flFlush m d = ({ m with flpool := [] }, { d with free := fr }) := by
  unfold flFlush
  obtain ⟨pf, psp, zh, zl, ze, zf⟩ := hz
  obtain ⟨L1, L2, f1, f2, f3⟩ := zf
  split
  · rename_i he
    have hnil : m.flpool = [] := List.isEmpty_iff.mp he
    refine ⟨⟨pf, psp, zh, zl, ze, L1, L2, f1, f2, f3⟩, hnil, d.free, ?_⟩
    cases m; cases d; simp_all
  · refine ⟨⟨pf, psp, zh, ⟨zl.le, zl.gone, zl.files, zl.ok, zl.starts⟩, ?_, L1 ++ m.flpool, L2, ?_, f2, ?_⟩,
      rfl, _, rfl⟩
    · intro blk hb
      exact ze blk hb
    · show some (d.free.getD [] ++ m.flpool.flatMap blockBytes) = _
      rw [f1]
      simp [List.flatMap_append]
    · intro fb hfb
      have : fb ∈ m.flpool ++ L1 ++ L2 := by
        simp only [List.mem_append, List.nil_append] at hfb ⊢
        rcases hfb with (h | h) | h
        · exact Or.inl (Or.inr h)
        · exact Or.inl (Or.inl h)
        · exact Or.inr h
      obtain ⟨q1, q2, q3, q4, q5⟩ := f3 fb this
      exact ⟨q1, q2, q3, q4, q5⟩

section
variable {c : Cfg} {U : List (Bytes × Bytes)} {s : SState} {spec : Spec} {n B : Nat}

/-- changing only the freelist pool, the freelist file and the snapshot -/
theorem GInv.frame_ff {cfg : Cfg} {m : Mem} {d : Disk}
    (h : GInv c U ⟨cfg, m, d⟩ spec n B) (fl : List Block) (fr : Option Bytes) (sn : Option Snap)
    (hz : ZInv { m with flpool := fl } { d with free := fr, snap := sn }) :
    GInv c U ⟨cfg, { m with flpool := fl }, { d with free := fr, snap := sn }⟩ spec n B :=
  { kmh := h.kmh, kind := h.kind, imm := h.imm, bits8 := h.bits8, bits31 := h.bits31,
    a := h.a.mono (fun _ _ _ _ hg => hg) (fun _ hb => hb) (fun _ => rfl),
    pmax1 := h.pmax1, pmaxle := h.pmaxle, recs := h.recs, nextBelow := h.nextBelow, alloc := h.alloc,
    plen := h.plen, pno := h.pno, i := h.i.frame2 rfl rfl rfl rfl rfl rfl, cntF := h.cntF,
    cntI := h.cntI, nodup := h.nodup, w := h.w, y := h.y.frame_ff fl fr sn, z := hz }

/-- the index flush on the GC invariant -/
theorem idxFlush_g (hU : Univ c.kind U) (hG : GInv c U s spec n B) (hn : n < 1073741824)
    (hB : B < two31) {order : List Nat}
    (hcov : ∀ b rl, s.m.inext.get? b = some rl → b ∈ order) (hlen : order.length = s.m.inext.length) :
    ∃ m2 d2, idxFlush s.m s.d order = (m2, d2) ∧ GInv c U ⟨s.cfg, m2, d2⟩ spec n B ∧ m2.inext = [] ∧
      m2.pnext = s.m.pnext ∧ m2.flpool = s.m.flpool ∧ m2.pmax = s.m.pmax ∧
      m2.visited = s.m.visited ∧
      d2.free = s.d.free ∧ d2.freeGc = s.d.freeGc ∧ d2.snap = s.d.snap ∧ d2.phdr = s.d.phdr ∧
      d2.pfiles = s.d.pfiles ∧
      (∀ b, idxRecords m2 d2 b = idxRecords s.m s.d b) ∧
      (∀ blk, priGet m2 d2 blk = priGet s.m s.d blk) := by
  have hU' := hG.univ hU
  obtain ⟨ic, fn, len, bk, files, i1, i2, i3, i4⟩ := idxFlush_ok (order := order) hG.i
    (fun b => by obtain ⟨orl, h1, _⟩ := hG.a.recs b; exact ⟨orl, h1⟩)
    (inext_flushOK (m := s.m) (d := s.d) hU' hG.bits31 hG.a hG.w hB) hcov (by
      have := hG.cntI
      unfold two32; omega)
  have hpool : ∀ b rl, s.m.inext.get? b = some rl → RecLogOK s.m.bits (b, rl) := by
    intro b rl hb
    refine ⟨hG.y.inextLt b rl hb, ?_⟩
    obtain ⟨orl, h1, h2, h3⟩ := hG.a.recs b
    have : idxRecords s.m s.d b = .ok (some rl) := by unfold idxRecords; rw [hb]
    rw [this] at h1
    cases h1
    simp only [Option.getD_some] at h2 h3
    exact enc_lt31 hU' hG.bits8 hG.bits31 h2 h3 hG.w hB
  obtain ⟨first, sp, e1, e2⟩ := hG.y.ilog
  obtain ⟨sp', l1⟩ := idxFlush_log4 (order := order) hG.i e2 hG.bits31 hpool
  rw [i1] at l1
  have hpg : ∀ blk, priGet (ifl s.m ic fn len bk) (difl s.d files) blk = priGet s.m s.d blk :=
    fun _ => rfl
  refine ⟨_, _, i1, ?_, rfl, rfl, rfl, rfl, rfl, rfl, rfl, rfl, rfl, rfl, i3, hpg⟩
  refine { kmh := hG.kmh, kind := hG.kind, imm := hG.imm, bits8 := hG.bits8, bits31 := hG.bits31,
           a := hG.a.of_ent rfl rfl i3 (fun blk _ k v hg => by rw [hpg]; exact hg) (fun _ h => h),
           pmax1 := hG.pmax1, pmaxle := hG.pmaxle, recs := hG.recs, nextBelow := hG.nextBelow,
           alloc := hG.alloc, plen := hG.plen, pno := hG.pno, i := i2, cntF := hG.cntF, cntI := ?_,
           nodup := hG.nodup, w := hG.w, y := ?_, z := ?_ }
  · show fn + 0 ≤ n
    have := hG.cntI
    have i4' : fn ≤ s.m.ifileNum + order.length := i4
    omega
  · exact ⟨hG.y.cfg, hG.y.bits, hG.y.imax, hG.y.pmax, ⟨first, sp', e1, l1⟩, hG.y.phdr,
      fun b rl hb => by cases hb⟩
  · exact hG.z.frame i3 hpg rfl rfl rfl rfl (fun _ => Iff.rfl) rfl rfl rfl rfl

/-- Store.Flush on the GC invariant -/
theorem flush_g (hU : Univ c.kind U) (hG : GInv c U s spec n B) (hn : n < 1073741824)
    (hB : B < two31) (order : List Nat) :
    ∃ m' d', storeFlush s.m s.d (fixOrder order s.m.inext.keys) = some (m', d') ∧
      GInv c U ⟨s.cfg, m', d'⟩ spec n B ∧ m'.inext = [] := by
  by_cases hout : outstanding s.m = true
  · obtain ⟨m1, d1, p1, hG1, hp1, hi1, _⟩ := priFlush_g hU hG hn
    obtain ⟨f1, f2⟩ := fixOrder_ok order s.m.inext
    obtain ⟨m2, d2, i1, hG2, hin, _⟩ := idxFlush_g (s := ⟨s.cfg, m1, d1⟩) hU hG1 hn hB
      (order := fixOrder order s.m.inext.keys) (by rw [hi1]; exact f1) (by rw [hi1]; exact f2)
    obtain ⟨z1, z2, fr, z3⟩ := zinv_flFlush hG2.z
    rw [z3] at z1
    refine ⟨{ m2 with flpool := [] }, { d2 with free := fr }, ?_, ?_, hin⟩
    · unfold storeFlush commit
      rw [if_pos hout]
      simp only [p1, i1, z3]
    · exact hG2.frame_ff [] fr d2.snap z1
  · refine ⟨s.m, s.d, ?_, hG, ?_⟩
    · unfold storeFlush; rw [if_neg hout]
    · unfold outstanding at hout
      simp only [Bool.or_eq_true, Bool.not_eq_true', not_or, Bool.not_eq_false] at hout
      exact List.isEmpty_iff.mp hout.1

end

end Sth
