/-
Index flush (C01, layer 2): every bucket reads the same record list before and after `idxFlush`,
whatever the order in which the pool is written out.
Core Lean only.
-/
import Sth.Lemmas.StoreDisk

namespace Sth

/-- the index's part of the disk invariant -/
structure IInv (m : Mem) (d : Disk) : Prop where
  imax : 1 ≤ m.imax
  curDisk : ∀ b rl, m.icur.get? b = some rl →
    readDiskBucket d.ifiles m.imax ((m.buckets.get? b).getD 0) = .ok (some rl)
  len : (fileOf d.ifiles m.ifileNum).length = m.ilength
  noFiles : ∀ f, m.ifileNum < f → d.ifiles.get? f = none
  sorted : NMap.Sorted m.buckets

/-- the body of the fold in `idxFlush` -/
def iflushStep (pool : NMap RecordList) (acc : Mem × Disk × List (Nat × Nat)) (b : Nat) :
    Mem × Disk × List (Nat × Nat) :=
  let (m, d, blks) := acc
  match pool.get? b with
  | none => acc
  | some rl =>
    let data := encodeRL rl
    let roll := m.ilength ≥ m.imax
    let (fn, len, files) :=
      if roll then (m.ifileNum + 1, 0, if d.ifiles.has (m.ifileNum + 1) then d.ifiles else d.ifiles.set (m.ifileNum + 1) [])
      else (m.ifileNum, m.ilength, d.ifiles)
    let rec_ := le32 (data.length + 4) ++ le32 b ++ data
    ({ m with ifileNum := fn, ilength := len + rec_.length },
     { d with ifiles := files.set fn (fileOf files fn ++ rec_) },
     blks ++ [(b, fn * m.imax + len + 4)])

def setAll (bk : NMap Nat) (blks : List (Nat × Nat)) : NMap Nat :=
  blks.foldl (fun bk x => bk.set x.1 x.2) bk

theorem idxFlush_empty {m : Mem} {d : Disk} {order : List Nat} (h : m.inext.isEmpty = true) :
    idxFlush m d order = (m, d) := by
  unfold idxFlush; simp only [h, if_true]

theorem idxFlush_eq {m : Mem} {d : Disk} {order : List Nat} (h : m.inext.isEmpty = false) :
    idxFlush m d order =
      ({ (order.foldl (iflushStep m.inext) ({ m with icur := m.inext, inext := [] }, d, [])).1 with
          buckets := setAll
            (order.foldl (iflushStep m.inext) ({ m with icur := m.inext, inext := [] }, d, [])).1.buckets
            (order.foldl (iflushStep m.inext) ({ m with icur := m.inext, inext := [] }, d, [])).2.2 },
       (order.foldl (iflushStep m.inext) ({ m with icur := m.inext, inext := [] }, d, [])).2.1) := by
  unfold idxFlush
  simp only [h, Bool.false_eq_true, if_false]
  rfl

theorem iflushStep_none {pool : NMap RecordList} {acc : Mem × Disk × List (Nat × Nat)} {b : Nat}
    (h : pool.get? b = none) : iflushStep pool acc b = acc := by
  unfold iflushStep; simp only [h]

theorem istep_ok {pool : NMap RecordList} {m : Mem} {d : Disk} {blks : List (Nat × Nat)} {b : Nat}
    {rl : RecordList} (hg : pool.get? b = some rl) (hok : FlushOK rl) (hp : 1 ≤ m.imax)
    (hlen : (fileOf d.ifiles m.ifileNum).length = m.ilength)
    (hno : ∀ f, m.ifileNum < f → d.ifiles.get? f = none) (hf : m.ifileNum + 1 < two32) :
    ∃ fn len files pos, iflushStep pool (m, d, blks) b =
        ({ m with ifileNum := fn, ilength := len }, { d with ifiles := files }, blks ++ [(b, pos)]) ∧
      FilesExt d.ifiles files ∧ (fileOf files fn).length = len ∧
      (∀ f, fn < f → files.get? f = none) ∧ fn ≤ m.ifileNum + 1 ∧
      readDiskBucket files m.imax pos = .ok (some rl) := by
  by_cases hroll : m.ilength ≥ m.imax
  · have hnone : d.ifiles.get? (m.ifileNum + 1) = none := hno _ (by omega)
    refine ⟨m.ifileNum + 1, 0 + (idxRecBytes b rl).length,
      (d.ifiles.set (m.ifileNum + 1) []).set (m.ifileNum + 1)
        (fileOf (d.ifiles.set (m.ifileNum + 1) []) (m.ifileNum + 1) ++ idxRecBytes b rl),
      (m.ifileNum + 1) * m.imax + 0 + 4, ?_, ?_, ?_, ?_, ?_, ?_⟩
    · unfold iflushStep
      simp only [hg, hroll, has_eq_false hnone, if_true, Bool.false_eq_true, if_false]
      rfl
    · exact (FilesExt.create _ _ hnone).trans (FilesExt.append _ _ _)
    · rw [fileOf_some (NMap.get?_set_eq _ _ _), fileOf_some (NMap.get?_set_eq _ _ _)]
      simp
    · intro f hf'
      rw [NMap.get?_set_ne _ _ (by omega), NMap.get?_set_ne _ _ (by omega)]
      exact hno f (by omega)
    · omega
    · apply readDiskBucket_new (b := b) (len := 0) (F := []) (g := []) hp (by omega) hf _ rfl hok
      simp only [NMap.get?_set_eq, fileOf_some (NMap.get?_set_eq _ _ _), List.nil_append,
        List.append_nil]
  · refine ⟨m.ifileNum, m.ilength + (idxRecBytes b rl).length,
      d.ifiles.set m.ifileNum (fileOf d.ifiles m.ifileNum ++ idxRecBytes b rl),
      m.ifileNum * m.imax + m.ilength + 4, ?_, ?_, ?_, ?_, ?_, ?_⟩
    · unfold iflushStep
      simp only [hg, hroll, if_false]
      rfl
    · exact FilesExt.append _ _ _
    · rw [fileOf_some (NMap.get?_set_eq _ _ _)]
      simp [hlen]
    · intro f hf'
      rw [NMap.get?_set_ne _ _ (by omega)]
      exact hno f hf'
    · omega
    · apply readDiskBucket_new (b := b) (len := m.ilength) (F := fileOf d.ifiles m.ifileNum) (g := []) hp (by omega) (by omega)
        _ hlen hok
      simp only [NMap.get?_set_eq, List.append_nil]

theorem ifold_ok {pool : NMap RecordList} (hwf : ∀ b rl, pool.get? b = some rl → FlushOK rl) :
    ∀ (order : List Nat) (m : Mem) (d : Disk) (blks : List (Nat × Nat)),
    1 ≤ m.imax → (fileOf d.ifiles m.ifileNum).length = m.ilength →
    (∀ f, m.ifileNum < f → d.ifiles.get? f = none) → m.ifileNum + order.length < two32 →
    (∀ x ∈ blks, ∃ rl, pool.get? x.1 = some rl ∧
      readDiskBucket d.ifiles m.imax x.2 = .ok (some rl)) →
    ∃ fn len files blks', order.foldl (iflushStep pool) (m, d, blks) =
        ({ m with ifileNum := fn, ilength := len }, { d with ifiles := files }, blks') ∧
      FilesExt d.ifiles files ∧ (fileOf files fn).length = len ∧
      (∀ f, fn < f → files.get? f = none) ∧ fn ≤ m.ifileNum + order.length ∧
      (∀ x ∈ blks', ∃ rl, pool.get? x.1 = some rl ∧
        readDiskBucket files m.imax x.2 = .ok (some rl)) ∧
      (∀ b ∈ order, ∀ rl, pool.get? b = some rl → ∃ pos, (b, pos) ∈ blks') ∧
      (∀ x ∈ blks, x ∈ blks')
  | [], m, d, blks, _, hlen, hno, _, hb =>
    ⟨m.ifileNum, m.ilength, d.ifiles, blks, rfl, FilesExt.refl _, hlen, hno, by simp, hb, by simp,
      fun _ h => h⟩
  | b :: order, m, d, blks, hp, hlen, hno, hf, hb => by
    simp only [List.length_cons] at hf
    cases hg : pool.get? b with
    | none =>
      obtain ⟨fn, len, files, blks', g1, g2, g3, g4, g5, g6, g7, g8⟩ :=
        ifold_ok hwf order m d blks hp hlen hno (by omega) hb
      refine ⟨fn, len, files, blks', ?_, g2, g3, g4, by simp only [List.length_cons]; omega, g6, ?_, g8⟩
      · rw [List.foldl_cons, iflushStep_none hg]; exact g1
      · intro b' hb' rl' hrl'
        simp only [List.mem_cons] at hb'
        rcases hb' with rfl | hb'
        · rw [hg] at hrl'; cases hrl'
        · exact g7 b' hb' rl' hrl'
    | some rl =>
      obtain ⟨fn1, len1, files1, pos, s1, s2, s3, s4, s5, s6⟩ :=
        istep_ok (blks := blks) hg (hwf b rl hg) hp hlen hno (by omega)
      obtain ⟨fn, len, files, blks', g1, g2, g3, g4, g5, g6, g7, g8⟩ :=
        ifold_ok hwf order { m with ifileNum := fn1, ilength := len1 } { d with ifiles := files1 }
          (blks ++ [(b, pos)]) hp s3 s4 (by simp only; omega) (by
            intro x hx
            simp only [List.mem_append, List.mem_singleton] at hx
            rcases hx with hx | rfl
            · obtain ⟨rl0, h1, h2⟩ := hb x hx
              exact ⟨rl0, h1, readDiskBucket_mono s2 h2⟩
            · exact ⟨rl, hg, s6⟩)
      refine ⟨fn, len, files, blks', ?_, s2.trans g2, g3, g4, ?_, g6, ?_, ?_⟩
      · rw [List.foldl_cons, s1]; exact g1
      · simp only [List.length_cons] at g5 ⊢; omega
      · intro b' hb' rl' hrl'
        simp only [List.mem_cons] at hb'
        rcases hb' with rfl | hb'
        · exact ⟨pos, g8 _ (by simp)⟩
        · exact g7 b' hb' rl' hrl'
      · intro x hx
        exact g8 x (by simp [hx])

theorem setAll_get? : ∀ (blks : List (Nat × Nat)) (bk : NMap Nat) (b : Nat),
    ((∀ pos, (b, pos) ∉ blks) ∧ (setAll bk blks).get? b = bk.get? b) ∨
      (∃ pos, (b, pos) ∈ blks ∧ (setAll bk blks).get? b = some pos)
  | [], bk, b => Or.inl ⟨by simp, rfl⟩
  | x :: blks, bk, b => by
    have e : setAll bk (x :: blks) = setAll (bk.set x.1 x.2) blks := rfl
    rw [e]
    rcases setAll_get? blks (bk.set x.1 x.2) b with ⟨h1, h2⟩ | ⟨pos, h1, h2⟩
    · by_cases hb : b = x.1
      · right
        refine ⟨x.2, by subst hb; simp, ?_⟩
        rw [h2, hb, NMap.get?_set_eq]
      · left
        refine ⟨?_, by rw [h2, NMap.get?_set_ne _ _ hb]⟩
        intro pos hm
        simp only [List.mem_cons] at hm
        rcases hm with rfl | hm
        · exact hb rfl
        · exact h1 pos hm
    · right
      exact ⟨pos, by simp [h1], h2⟩

theorem setAll_sorted : ∀ (blks : List (Nat × Nat)) (bk : NMap Nat), NMap.Sorted bk →
    NMap.Sorted (setAll bk blks)
  | [], _, h => h
  | x :: blks, bk, h => setAll_sorted blks (bk.set x.1 x.2) (NMap.sorted_set _ _ h)

/-- shape of the memory / disk after an index flush -/
abbrev ifl (m : Mem) (ic : NMap RecordList) (fn len : Nat) (bk : NMap Nat) : Mem :=
  { m with icur := ic, inext := [], ifileNum := fn, ilength := len, buckets := bk }
abbrev difl (d : Disk) (files : NMap Bytes) : Disk := { d with ifiles := files }

theorem idxFlush_ok {m : Mem} {d : Disk} {order : List Nat} (h : IInv m d)
    (hok : ∀ b, ∃ o, idxRecords m d b = .ok o)
    (hwf : ∀ b rl, m.inext.get? b = some rl → FlushOK rl)
    (hcov : ∀ b rl, m.inext.get? b = some rl → b ∈ order)
    (hfn : m.ifileNum + order.length < two32) :
    ∃ ic fn len bk files, idxFlush m d order = (ifl m ic fn len bk, difl d files) ∧
      IInv (ifl m ic fn len bk) (difl d files) ∧
      (∀ b, idxRecords (ifl m ic fn len bk) (difl d files) b = idxRecords m d b) ∧
      fn ≤ m.ifileNum + order.length := by
  by_cases hne : m.inext.isEmpty = true
  · have hnil : m.inext = [] := List.isEmpty_iff.mp hne
    have hm : ifl m m.icur m.ifileNum m.ilength m.buckets = m := by
      cases m; simp_all [ifl]
    refine ⟨m.icur, m.ifileNum, m.ilength, m.buckets, d.ifiles, ?_, ?_, ?_, by omega⟩
    · rw [idxFlush_empty hne, hm]
    · rw [hm]; exact h
    · rw [hm]; intro b; rfl
  · have hne' : m.inext.isEmpty = false := by simpa using hne
    obtain ⟨fn, len, files, blks, g1, g2, g3, g4, g5, g6, g7, _⟩ :=
      ifold_ok hwf order { m with icur := m.inext, inext := [] } d [] h.imax h.len h.noFiles hfn
        (by simp)
    refine ⟨m.inext, fn, len, setAll m.buckets blks, files, ?_, ?_, ?_, g5⟩
    · rw [idxFlush_eq hne', g1]
    · constructor
      · exact h.imax
      · intro b rl hb
        have hb' : m.inext.get? b = some rl := hb
        obtain ⟨pos, hpos⟩ := g7 b (hcov b rl hb') rl hb'
        rcases setAll_get? blks m.buckets b with ⟨h1, _⟩ | ⟨pos', h1, h2⟩
        · exact absurd hpos (h1 pos)
        · obtain ⟨rl', e1, e2⟩ := g6 _ h1
          simp only at e1 e2
          rw [hb'] at e1
          cases e1
          show readDiskBucket files m.imax (((setAll m.buckets blks).get? b).getD 0) = _
          rw [h2]
          exact e2
      · exact g3
      · exact g4
      · exact setAll_sorted _ _ h.sorted
    · intro b
      show (match NMap.get? ([] : NMap RecordList) b with
        | some rl => Except.ok (some rl)
        | none => match m.inext.get? b with
          | some rl => Except.ok (some rl)
          | none => readDiskBucket files m.imax (((setAll m.buckets blks).get? b).getD 0)) = _
      simp only [NMap.get?_nil]
      unfold idxRecords
      cases hb : m.inext.get? b with
      | some rl => rfl
      | none =>
        simp only
        have hbk : (setAll m.buckets blks).get? b = m.buckets.get? b := by
          rcases setAll_get? blks m.buckets b with ⟨_, h2⟩ | ⟨pos', h1, _⟩
          · exact h2
          · obtain ⟨rl', e1, _⟩ := g6 _ h1
            simp only at e1
            rw [hb] at e1
            cases e1
        rw [hbk]
        cases hc : m.icur.get? b with
        | some rl =>
          simp only
          exact readDiskBucket_mono g2 (h.curDisk b rl hc)
        | none =>
          simp only
          obtain ⟨o, ho⟩ := hok b
          unfold idxRecords at ho
          simp only [hb, hc] at ho
          rw [ho]
          exact readDiskBucket_mono g2 ho

theorem IInv.frame {m m' : Mem} {d : Disk} (h : IInv m d)
    (h1 : m'.imax = m.imax) (h2 : m'.icur = m.icur) (h3 : m'.buckets = m.buckets)
    (h4 : m'.ifileNum = m.ifileNum) (h5 : m'.ilength = m.ilength) : IInv m' d := by
  constructor
  · rw [h1]; exact h.imax
  · rw [h1, h2, h3]; exact h.curDisk
  · rw [h4, h5]; exact h.len
  · rw [h4]; exact h.noFiles
  · rw [h3]; exact h.sorted

end Sth
