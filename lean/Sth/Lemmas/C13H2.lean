import Sth.Lemmas.C13H1

/-!
C13 along GC histories, completeness: coverage is kept by Put, Remove and the reads.  Core Lean only.
-/

namespace Sth.C13H

open Sth.C11

/-- coverage of a state from one spelling of its files -/
theorem covS_intro {cfg : Cfg} {m : Mem} {d : Disk} {pf : Nat} {psp : Nat → List GSpan}
    (hh : d.phdr = some ⟨m.pmax, pf⟩) (hl : PriLog m d pf psp) (hc : Cov cfg m d pf psp) :
    CovS ⟨cfg, m, d⟩ := by
  intro pf' psp' hh' hl'
  obtain ⟨e1, e2⟩ := prilog_unique hh hh' hl hl'
  subst e1
  refine ⟨?_, hc.pool⟩
  intro g g1 g2 x hx
  rw [e2 g g1 g2] at hx
  exact hc.span g g1 g2 x hx

/-- what a mutation of the memory state (Put, Remove) does to the entries, the pools -/
structure MutFacts (m : Mem) (d : Disk) (m' : Mem) : Prop where
  pmax : m'.pmax = m.pmax
  pfileNum : m'.pfileNum = m.pfileNum
  freed : ∃ freed, m'.flpool = m.flpool ++ freed ∧ (∀ fb ∈ freed, IsEnt m d fb) ∧
    ∀ blk, IsEnt m d blk → IsEnt m' d blk ∨ blk ∈ freed
  added : ∃ added, m'.pnext = m.pnext ++ added ∧ ∀ r ∈ added, IsEnt m' d r.blk

theorem MutFacts.refl (m : Mem) (d : Disk) : MutFacts m d m :=
  ⟨rfl, rfl, ⟨[], (by simp), (fun _ h => by cases h), (fun _ h => Or.inl h)⟩,
    ⟨[], (by simp), (fun _ h => by cases h)⟩⟩

/-- a mutation keeps coverage -/
theorem MutFacts.cov {cfg : Cfg} {m m' : Mem} {d : Disk} {pf : Nat} {psp : Nat → List GSpan}
    (f : MutFacts m d m') (h : Cov cfg m d pf psp) : Cov cfg m' d pf psp := by
  obtain ⟨freed, f1, _, f3⟩ := f.freed
  obtain ⟨added, a1, a2⟩ := f.added
  have hrec : ∀ blk, blk ∈ recordedG ⟨cfg, m, d⟩ → blk ∈ recordedG ⟨cfg, m', d⟩ := by
    intro blk hb
    rw [mem_recordedG] at hb ⊢
    rcases hb with hb | hb | hb
    · exact Or.inl hb
    · exact Or.inr (Or.inl hb)
    · right; right
      show blk ∈ m'.flpool
      rw [f1]; exact List.mem_append_left _ hb
  have hfreed : ∀ blk ∈ freed, blk ∈ recordedG ⟨cfg, m', d⟩ := by
    intro blk hb
    rw [mem_recordedG]
    right; right
    show blk ∈ m'.flpool
    rw [f1]; exact List.mem_append_right _ hb
  apply h.transfer' f.pmax
  · intro g g1 g2 x hx
    exact Or.inl ⟨g1, by rw [← f.pfileNum]; exact g2, hx⟩
  · intro r hr
    rw [a1, List.mem_append] at hr
    rcases hr with hr | hr
    · exact Or.inl hr
    · exact Or.inr (Or.inl (a2 r hr))
  · exact cvd_mono (fun blk hb => (f3 blk hb).imp id (hfreed blk)) hrec

section
variable {c : Cfg} {U : List (Bytes × Bytes)} {s : SState} {spec : Spec} {n B : Nat}

/-- Put -/
theorem put_facts (hU : Univ c.kind U) (hG : GInv c U s spec n B) (k v : Bytes)
    (hkey : ∀ dig, keyClass c.kind k = .ok dig → (k, dig) ∈ U)
    (hn : n + 1 < 1073741824) (hB : B + (k.length + v.length + 17) < two31) :
    MutFacts s.m s.d (stepS s (.put k v)).1.m ∧ (stepS s (.put k v)).1.d = s.d ∧
      (stepS s (.put k v)).1.cfg = s.cfg := by
  have hU' := hG.univ hU
  have hkk : s.m.kind = c.kind := by rw [hG.kind, hG.kmh]
  cases hcls : keyClass c.kind k with
  | error e =>
    have := storePut_bad (m := s.m) (d := s.d) (k := k) (v := v) (e := e) (by rw [hkk]; exact hcls)
    have e : (stepS s (.put k v)).1 = s := by simp only [stepS, this]
    rw [e]
    exact ⟨MutFacts.refl _ _, rfl, rfl⟩
  | ok dig =>
    have hk := hkey dig hcls
    have hpre := hG.putPre (key := k) (val := v) hn (by omega)
    cases hs : Spec.get spec dig with
    | none =>
      obtain ⟨b, rl, h1, h2, h3, h4, orl, h5, hperm⟩ :=
        storePut_absent_x hU' hG.bits8 hG.bits31 hG.a hpre hk hs
      have e : (stepS s (.put k v)).1 = { s with m := setNext (putMem s.m k v) b rl } := by
        simp only [stepS, h1]
      rw [e]
      refine ⟨⟨putMem_pmax _ _ _, putMem_pfileNum _ _ _, ⟨[], ?_, (fun _ h => by cases h), ?_⟩,
        ⟨[⟨nextBlk s.m (k.length + v.length), k, v⟩], ?_, ?_⟩⟩, rfl, rfl⟩
      · show (putMem s.m k v).flpool = _
        rw [putMem_flpool]; simp
      · rintro blk ⟨b', rl', e', hr, he', rfl⟩
        left
        by_cases hbb : b' = b
        · subst hbb
          rw [hr] at h5
          cases h5
          have hm : e'.blk ∈ nextBlk s.m (k.length + v.length) :: (rl'.map (·.blk)) :=
            List.mem_cons_of_mem _ (List.mem_map_of_mem he')
          simp only [Option.getD_some] at hperm
          rw [← hperm.mem_iff] at hm
          obtain ⟨e0, he0, heq⟩ := List.mem_map.mp hm
          exact ⟨b', rl, e0, by rw [idxRecords_frame_put, if_pos rfl], he0, heq⟩
        · exact ⟨b', rl', e', by rw [idxRecords_frame_put, if_neg hbb]; exact hr, he', rfl⟩
      · show (putMem s.m k v).pnext = _
        rw [putMem_pnext]
      · intro r hr
        simp only [List.mem_singleton] at hr
        subst hr
        have hm : nextBlk s.m (k.length + v.length) ∈ rl.map (·.blk) := by
          rw [hperm.mem_iff]; simp
        obtain ⟨e0, he0, heq⟩ := List.mem_map.mp hm
        exact ⟨b, rl, e0, by rw [idxRecords_frame_put, if_pos rfl], he0, heq⟩
    | some kv =>
      obtain ⟨key0, old⟩ := kv
      obtain ⟨p1, p2, p3⟩ := storePut_present_x (val := v) hU' hG.bits31 hG.a hk hs
      by_cases himm : s.m.imm = true
      · have e : (stepS s (.put k v)).1 = s := by simp only [stepS, p1 himm]
        rw [e]
        exact ⟨MutFacts.refl _ _, rfl, rfl⟩
      · have himm0 : s.m.imm = false := by simpa using himm
        by_cases hv : v = old
        · have e : (stepS s (.put k v)).1 = s := by simp only [stepS, p2 himm0 hv]
          rw [e]
          exact ⟨MutFacts.refl _ _, rfl, rfl⟩
        · obtain ⟨b, rl, blk, h1, h2, h3, h4, pre, e, post, h5, h6, h7, h8⟩ := p3 himm0 hv hpre
          subst h6 h7
          have e0 : (stepS s (.put k v)).1 = { s with m := addFree (setNext (putMem s.m k v) b
              (pre ++ (⟨e.pfx, nextBlk s.m (k.length + v.length)⟩ : Entry) :: post)) e.blk } := by
            simp only [stepS, h1]
          rw [e0]
          have hidx : ∀ b', idxRecords (addFree (setNext (putMem s.m k v) b
                (pre ++ (⟨e.pfx, nextBlk s.m (k.length + v.length)⟩ : Entry) :: post)) e.blk) s.d b' =
              if b' = b then .ok (some (pre ++ (⟨e.pfx, nextBlk s.m (k.length + v.length)⟩ : Entry)
                :: post)) else idxRecords s.m s.d b' := by
            intro b'
            rw [idxRecords_addFree, idxRecords_frame_put]
          refine ⟨⟨putMem_pmax _ _ _, putMem_pfileNum _ _ _, ⟨[e.blk], ?_, ?_, ?_⟩,
            ⟨[⟨nextBlk s.m (k.length + v.length), k, v⟩], ?_, ?_⟩⟩, rfl, rfl⟩
          · show (putMem s.m k v).flpool ++ [e.blk] = _
            rw [putMem_flpool]
          · intro fb hfb
            simp only [List.mem_singleton] at hfb
            subst hfb
            exact ⟨b, _, e, h5, by simp, rfl⟩
          · rintro blk ⟨b', rl', e', hr, he', rfl⟩
            by_cases hbb : b' = b
            · subst hbb
              rw [hr] at h5
              cases h5
              simp only [List.mem_append, List.mem_cons] at he'
              rcases he' with h | rfl | h
              · exact Or.inl ⟨b', _, e', by rw [hidx, if_pos rfl], by simp [h], rfl⟩
              · exact Or.inr (by simp)
              · exact Or.inl ⟨b', _, e', by rw [hidx, if_pos rfl], by simp [h], rfl⟩
            · exact Or.inl ⟨b', rl', e', by rw [hidx, if_neg hbb]; exact hr, he', rfl⟩
          · show (putMem s.m k v).pnext = _
            rw [putMem_pnext]
          · intro r hr
            simp only [List.mem_singleton] at hr
            subst hr
            exact ⟨b, _, ⟨e.pfx, nextBlk s.m (k.length + v.length)⟩, by rw [hidx, if_pos rfl],
              by simp, rfl⟩

/-- Remove -/
theorem rm_facts (hU : Univ c.kind U) (hG : GInv c U s spec n B) (k : Bytes)
    (hkey : ∀ dig, keyClass c.kind k = .ok dig → (k, dig) ∈ U) :
    MutFacts s.m s.d (stepS s (.rm k)).1.m ∧ (stepS s (.rm k)).1.d = s.d ∧
      (stepS s (.rm k)).1.cfg = s.cfg := by
  have hU' := hG.univ hU
  have hkk : s.m.kind = c.kind := by rw [hG.kind, hG.kmh]
  cases hcls : keyClass c.kind k with
  | error e =>
    have := storeRemove_bad (m := s.m) (d := s.d) (k := k) (e := e) (by rw [hkk]; exact hcls)
    have e : (stepS s (.rm k)).1 = s := by simp only [stepS, this]
    rw [e]
    exact ⟨MutFacts.refl _ _, rfl, rfl⟩
  | ok dig =>
    have hk := hkey dig hcls
    obtain ⟨r1, r2⟩ := storeRemove_x hU' hG.bits31 hG.a hk
    cases hs : Spec.get spec dig with
    | none =>
      have e : (stepS s (.rm k)).1 = s := by simp only [stepS, r1 hs]
      rw [e]
      exact ⟨MutFacts.refl _ _, rfl, rfl⟩
    | some kv =>
      obtain ⟨b, rl, blk, h1, h2, h3, h4, pre, e, post, h5, h6, h7⟩ := r2 kv hs
      subst h6 h7
      have e0 : (stepS s (.rm k)).1 = { s with m := addFree (setNext s.m b (pre ++ post)) e.blk } := by
        simp only [stepS, h1]
      rw [e0]
      have hidx : ∀ b', idxRecords (addFree (setNext s.m b (pre ++ post)) e.blk) s.d b' =
          if b' = b then .ok (some (pre ++ post)) else idxRecords s.m s.d b' := by
        intro b'
        rw [idxRecords_addFree, idxRecords_setNext']
      refine ⟨⟨rfl, rfl, ⟨[e.blk], rfl, ?_, ?_⟩, ⟨[], (by show s.m.pnext = _; simp),
        (fun _ h => by cases h)⟩⟩, rfl, rfl⟩
      · intro fb hfb
        simp only [List.mem_singleton] at hfb
        subst hfb
        exact ⟨b, _, e, h5, by simp, rfl⟩
      · rintro blk ⟨b', rl', e', hr, he', rfl⟩
        by_cases hbb : b' = b
        · subst hbb
          rw [hr] at h5
          cases h5
          simp only [List.mem_append, List.mem_cons] at he'
          rcases he' with h | rfl | h
          · exact Or.inl ⟨b', _, e', by rw [hidx, if_pos rfl], by simp [h], rfl⟩
          · exact Or.inr (by simp)
          · exact Or.inl ⟨b', _, e', by rw [hidx, if_pos rfl], by simp [h], rfl⟩
        · exact Or.inl ⟨b', rl', e', by rw [hidx, if_neg hbb]; exact hr, he', rfl⟩

/-- a step that only changes the memory state as a mutation does keeps coverage -/
theorem covS_mut {s' : SState} (hG : GInv c U s spec n B) (hC : CovS s)
    (f : MutFacts s.m s.d s'.m) (hd : s'.d = s.d) (hcfg : s'.cfg = s.cfg) : CovS s' := by
  obtain ⟨pf, psp, hS⟩ := hstate_of hG hC
  obtain ⟨cfg', m', d'⟩ := s'
  simp only at f hd hcfg
  subst hd hcfg
  refine covS_intro (pf := pf) (psp := psp) (by rw [f.pmax]; exact hS.gs.hdr)
    (hS.gs.log.frame f.pfileNum f.pmax) (f.cov hS.cov)

end

end Sth.C13H
