import Sth.Lemmas.C11Idx

/-!
C11: the invariants of C04 at the states reachable by arbitrary histories, and the index-side
release theorems on reachable states.  Core Lean only.
-/

namespace Sth.C11

/-- every reachable state satisfies the index/primary log invariant of C04 -/
theorem reach_yinv (c : Cfg) (hc : c.Legal) (ops : List SOp) (hk : KeysOK c.kind ops)
    (hs : SizesOK ops) (s0 : SState) (hi : initS c = some s0) (hb : GcCountersOK s0 ops) :
    YInv c (runS s0 ops).1 := by
  rcases (by cases c.kind <;> simp : c.kind = .mh ∨ c.kind = .cid) with hkind | hkind
  · obtain ⟨_, n', hG⟩ := store_refines_map_gc_mh c hc hkind ops hk hs s0 hi hb
    exact hG.y
  · have hU := univ_of_keysOK hk (keysExact_all c.kind ops)
    refine (run_cid hc hkind hU ops s0 [] 0 0 (inv_init c hc _ s0 hi) (yinv_init c hc s0 hi) ?_ ?_
      ?_).2.2
    · intro op ho k hkey dig hcls
      exact mem_digestsOf ho hkey hcls
    · have := hs.1; omega
    · have := hs.2.1; omega

/-- every reachable multihash state satisfies the GC invariant, with tight counters -/
theorem reach_ginv (c : Cfg) (hc : c.Legal) (hmh : c.kind = .mh) (ops : List SOp)
    (hk : KeysOK c.kind ops) (hs : SizesOK ops) (s0 : SState) (hi : initS c = some s0)
    (hb : GcCountersOK s0 ops) :
    GInv c (digestsOf c.kind ops) (runS s0 ops).1 (specRun c.kind c.imm [] ops).1
      (gcCnt (runS s0 ops).1) (0 + (ops.map SOp.bytes).sum) := by
  obtain ⟨_, n', hG⟩ := store_refines_map_gc_mh c hc hmh ops hk hs s0 hi hb
  exact hG.tight

theorem stepS_igc_disk (s : SState) (sf : Bool) (b : Budget) :
    (stepS s (.igc sf b)).1.d = (indexGC s.m s.d sf b).2.2.1 := rfl

theorem stepS_igc_mem (s : SState) (sf : Bool) (b : Budget) :
    (stepS s (.igc sf b)).1.m = (indexGC s.m s.d sf b).2.1 := rfl

/-- index GC of any kind never makes a released index file hold anything again -/
theorem igc_keeps_released (s : SState) (sf : Bool) (b : Budget) (f : Nat) :
    KeepsReleased f s.d.ifiles (stepS s (.igc sf b)).1.d.ifiles := by
  rw [stepS_igc_disk]
  exact indexGC_keeps s.m s.d sf b f

/-- P2 on a state satisfying the log invariant -/
theorem index_file_released_inv {c : Cfg} {s : SState} (hY : YInv c s) {f : Nat}
    (hf : f < s.m.ifileNum) (hfree : IdxFileFree s.m f) :
    Released (stepS s (.igc true none)).1.d.ifiles f ∧
    (∀ first, s.d.ihdr.map IdxHeader.first = some first →
      (∀ g, first ≤ g → g ≤ f → IdxFileFree s.m g) →
      (stepS s (.igc true none)).1.d.ifiles.get? f = none) := by
  obtain ⟨first, sp, hh, hl⟩ := hY.ilog
  rw [stepS_igc_disk]
  by_cases h1 : first ≤ f
  · refine ⟨indexGC_releases hh h1 hf hfree, ?_⟩
    intro first' hfirst hall
    rw [hh] at hfirst
    simp only [Option.map_some, Option.some.injEq] at hfirst
    subst hfirst
    refine indexGC_unlinks hh h1 hf hall ?_
    intro g g1 g2
    rw [hl.files g g1 (by omega)]
    exact fun hx => by cases hx
  · have hnone : s.d.ifiles.get? f = none := hl.gone f (by omega)
    have := (indexGC_keeps s.m s.d true none f).2 hnone
    exact ⟨Or.inl this, fun _ _ _ => this⟩

end Sth.C11
