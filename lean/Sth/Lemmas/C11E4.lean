import Sth.Lemmas.C11E3

/-!
C11 P2 at loop level (Q3b): a complete cycle without the free-file scan, from a state whose resume point
is live, releases every free file; from a stale resume point it fails and clears the resume point.
Core Lean only.
-/

namespace Sth.C11E

open Sth.C11

/-- the resume point of an interrupted cycle, if there is one, names a file the next cycle can start
    at: not below the header's first file (it has not been unlinked since) and below the current file -/
def LiveResume (s : SState) : Prop :=
  match s.m.gcResume, s.d.ihdr with
  | none, _ => True
  | some _, none => False
  | some r, some h => h.first ≤ r ∧ r < s.m.ifileNum

instance (s : SState) : Decidable (LiveResume s) := by
  unfold LiveResume; split <;> exact inferInstance

/-- the resume point names a file that has been unlinked since (by a free-file scan that was itself
    cut short, so that the resume point survived it), and there are files to visit -/
def StaleResume (s : SState) : Prop :=
  match s.m.gcResume, s.d.ihdr with
  | some r, some h => r < h.first ∧ h.first < s.m.ifileNum
  | _, _ => False

instance (s : SState) : Decidable (StaleResume s) := by
  unfold StaleResume; split <;> exact inferInstance

section
variable {c : Cfg} {s : SState}

theorem yinv_gcResume (hY : YInv c s) (g : Option Nat) :
    YInv c ⟨s.cfg, { s.m with gcResume := g }, s.d⟩ := by
  obtain ⟨first, sp, e1, e2⟩ := hY.ilog
  exact ⟨hY.cfg, hY.bits, hY.imax, hY.pmax, ⟨first, sp, e1, e2.of_gcResume g⟩, hY.phdr, hY.inextLt⟩

/-- a complete cycle without the scan, live resume point: it completes and has visited every file -/
theorem igc_visits_inv (hY : YInv c s) (hp1 : 1 ≤ s.m.imax) (hN : s.m.ifileNum < two32)
    (hno : ∀ f, s.m.ifileNum < f → s.d.ifiles.get? f = none) (hlive : LiveResume s) :
    (indexGC s.m s.d false none).1 = .ok ∧
    ∀ f, f < s.m.ifileNum → IdxFileFree s.m f → (fileOf s.d.ifiles f).length < two31 →
      Released (indexGC s.m s.d false none).2.2.1.ifiles f := by
  obtain ⟨cfg, m, d⟩ := s
  obtain ⟨first, sp, hih, hl⟩ := hY.ilog
  have hih : d.ihdr = some ⟨c.bits, c.ifs, first, hdrPfs c⟩ := hih
  have hl : IdxLog m d first sp := hl
  have hno : ∀ f, m.ifileNum < f → d.ifiles.get? f = none := hno
  have hp1 : 1 ≤ m.imax := hp1
  have hN : m.ifileNum < two32 := hN
  have hG0 : GI { m with gcResume := none } d d c.bits c.ifs (hdrPfs c) :=
    ⟨⟨first, sp, hih, hl.of_gcResume none⟩, fun _ => rfl, hno, rfl, rfl, rfl, rfl, rfl, rfl, rfl⟩
  unfold indexGC
  simp only [Bool.false_eq_true, if_false, ne_eq, not_true_eq_false, hih]
  by_cases hfl : first = m.ifileNum
  · rw [if_pos hfl]
    refine ⟨rfl, ?_⟩
    intro f hf _ _
    exact Or.inl (hl.gone f (by omega))
  · rw [if_neg hfl]
    have hle : first ≤ m.ifileNum := hl.le
    -- the start point
    have hstart : first ≤ m.gcResume.getD first ∧ m.gcResume.getD first < m.ifileNum := by
      unfold LiveResume at hlive
      simp only at hlive
      cases hg : m.gcResume with
      | none => simp only [Option.getD_none]; omega
      | some r =>
        rw [hg] at hlive
        have : d.ihdr = some ⟨c.bits, c.ifs, first, hdrPfs c⟩ := hih
        rw [this] at hlive
        simp only at hlive
        simp only [Option.getD_some]
        exact hlive
    have key : ∀ f (P : Prop), (P → IdxFileFree m f) → (P → (fileOf d.ifiles f).length < two31) → _ :=
      fun f P hfree hlen => go_leg1 (m := { m with gcResume := none }) (d0 := d) hp1 hN
        (start := m.gcResume.getD first) (f := f) P hfree (2 * (m.ifileNum - first) + 4)
        (m.gcResume.getD first) false ⟨c.bits, c.ifs, first, hdrPfs c⟩ d hG0 hih hstart.1
        (Nat.le_refl _) hstart.2 (fun _ => hstart.1) (fun hc => by cases hc)
        (by
          show (m.ifileNum - m.gcResume.getD first) + (m.gcResume.getD first - first) + 1 ≤ _
          omega) hlen
    refine ⟨?_, ?_⟩
    · exact (key 0 False (fun h => h.elim) (fun h => h.elim)).1
    · intro f hf hfree hlen
      by_cases h1 : first ≤ f
      · refine (key f True (fun _ => hfree) (fun _ => hlen)).2.2 ?_ trivial
        by_cases h2 : m.gcResume.getD first ≤ f
        · exact Or.inl ⟨h2, hf⟩
        · exact Or.inr ⟨h1, by omega⟩
      · have hnone : d.ifiles.get? f = none := hl.gone f (by omega)
        exact (igc_go_keeps _ _ _ _ _ _ _ d.ifiles rfl).1 (Or.inl hnone)

/-- a complete cycle without the scan, stale resume point: the cycle fails at once (the file it is to
    start at does not exist), the disk is untouched, the resume point is cleared -/
theorem igc_stale_inv (hY : YInv c s) (hst : StaleResume s) :
    indexGC s.m s.d false none = (.err, { s.m with gcResume := none }, s.d, none) := by
  obtain ⟨cfg, m, d⟩ := s
  obtain ⟨first, sp, hih, hl⟩ := hY.ilog
  have hih : d.ihdr = some ⟨c.bits, c.ifs, first, hdrPfs c⟩ := hih
  have hl : IdxLog m d first sp := hl
  unfold StaleResume at hst
  simp only at hst
  cases hg : m.gcResume with
  | none => rw [hg] at hst; exact hst.elim
  | some r =>
    rw [hg, hih] at hst
    simp only at hst
    obtain ⟨h1, h2⟩ := hst
    unfold indexGC
    simp only [Bool.false_eq_true, if_false, ne_eq, not_true_eq_false, hih]
    rw [if_neg (by omega)]
    simp only [hg, Option.getD_some]
    have : 2 * (m.ifileNum - first) + 4 = (2 * (m.ifileNum - first) + 3) + 1 := rfl
    rw [this, indexGC.go, if_neg (by omega)]
    have hnone : d.ifiles.get? r = none := hl.gone r h1
    simp only [hnone]

end

end Sth.C11E
