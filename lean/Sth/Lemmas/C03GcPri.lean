/-
C03 — the disk side of a primary GC cycle, without reference to the memory state's pools: reaping a
closed file keeps every record span, unlinking happens only to files without record spans; the loop over
the closed files therefore keeps every record span of the log it started from, whatever it relocates in
memory and wherever the deadline cuts it.
Core Lean only.
-/
import Sth.Lemmas.C03GcFrame

namespace Sth

theorem PriLog.sameP {m m' : Mem} {d : Disk} {pf : Nat} {psp : Nat → List GSpan}
    (h : PriLog m d pf psp) (hs : SameP m m') : PriLog m' d pf psp :=
  ⟨by rw [hs.1]; exact h.le, h.gone, by rw [hs.1]; exact h.files, by rw [hs.1]; exact h.ok,
    by rw [hs.1, hs.2.1]; exact h.starts⟩

/-- reapRecords on a closed file, disk side -/
theorem reapRecords_disk {m : Mem} {d : Disk} {pf : Nat} {psp : Nat → List GSpan}
    (hl : PriLog m d pf psp) {nn : Nat} (h1 : pf ≤ nn) (h2 : nn < m.pfileNum) (lowUse : Nat) :
    ∃ psp1 pfs, PriLog m (reapRecords m d nn lowUse).2.2.1 pf psp1 ∧
      (∀ blk body, OnDisk m pf psp blk body → OnDisk m pf psp1 blk body) ∧
      (reapRecords m d nn lowUse).2.2.1 = { d with pfiles := pfs } ∧
      (NMap.Sorted d.pfiles → NMap.Sorted pfs) ∧ (∀ f, f ≠ nn → pfs.get? f = d.pfiles.get? f) ∧
      ((reapRecords m d nn lowUse).1 = .dead → liveAt 0 (psp1 nn) = []) ∧
      SameP m (reapRecords m d nn lowUse).2.1 := by
  have hfile : d.pfiles.get? nn = some (gbytes (psp nn)) := hl.files nn h1 (by omega)
  unfold reapRecords
  rw [hfile]
  simp only
  by_cases hemp : (gbytes (psp nn)).isEmpty = true
  · rw [if_pos hemp]
    refine ⟨psp, d.pfiles, hl, fun _ _ h => h, rfl, fun h => h, fun _ _ => rfl, fun _ => ?_, SameP.refl m⟩
    have : psp nn = [] := gbytes_eq_nil (List.isEmpty_iff.mp hemp)
    rw [this]; rfl
  rw [if_neg hemp]
  obtain ⟨ss', hf', hR, _, hdead⟩ := reapFile_ok (psp nn) (hl.ok nn h1 (by omega))
  generalize reapPriLoop ((gbytes (psp nn)).length + 2) { file := gbytes (psp nn) } = st at hf' hdead ⊢
  have hfw : (if st.freeAt > st.busyAt then
        (truncateTo st.file st.freeAt.toNat, st.freeAtSize, decide (st.freeAt = 0))
      else (st.file, 0, false)) =
      (gbytes ss', (if st.freeAt > st.busyAt then st.freeAtSize else 0),
        (if st.freeAt > st.busyAt then decide (st.freeAt = 0) else false)) := by
    by_cases hc : st.freeAt > st.busyAt
    · rw [if_pos hc] at hf'; simp only [if_pos hc, hf']
    · rw [if_neg hc] at hf'; simp only [if_neg hc, hf']
  rw [hfw]
  simp only
  obtain ⟨l1, l2, _⟩ := reap_step hl h1 h2 hR
  have hpn : (fun f => if f = nn then ss' else psp f) nn = ss' := by simp
  -- every remaining branch returns the disk with the reaped file written back
  have key : ∀ (r : PReapOut) (m' : Mem), SameP m m' → (r = .dead → liveAt 0 ss' = []) →
      ∃ psp1 pfs, PriLog m ({ d with pfiles := d.pfiles.set nn (gbytes ss') } : Disk) pf psp1 ∧
        (∀ blk body, OnDisk m pf psp blk body → OnDisk m pf psp1 blk body) ∧
        ({ d with pfiles := d.pfiles.set nn (gbytes ss') } : Disk) = { d with pfiles := pfs } ∧
        (NMap.Sorted d.pfiles → NMap.Sorted pfs) ∧ (∀ f, f ≠ nn → pfs.get? f = d.pfiles.get? f) ∧
        (r = .dead → liveAt 0 (psp1 nn) = []) ∧ SameP m m' := by
    intro r m' hs hd
    refine ⟨_, _, l1, l2, rfl, fun h => NMap.sorted_set _ _ h,
      fun f hf => NMap.get?_set_ne _ _ hf, ?_, hs⟩
    intro hr
    show liveAt 0 ((fun f => if f = nn then ss' else psp f) nn) = []
    rw [hpn]
    exact hd hr
  by_cases hdd : (if st.freeAt > st.busyAt then decide (st.freeAt = 0) else false) = true
  · rw [if_pos hdd]
    refine key _ _ (SameP.refl m) ?_
    intro _
    by_cases hc : st.freeAt > st.busyAt
    · rw [if_pos hc] at hdd
      rw [hdead hc (of_decide_eq_true hdd)]; rfl
    · rw [if_neg hc] at hdd; cases hdd
  rw [if_neg hdd]
  by_cases hb1 : st.busyAt = -1
  · rw [if_pos hb1]
    exact key _ _ (SameP.refl m) (fun h => by cases h)
  rw [if_neg hb1]
  by_cases hlow : 100 * st.totalFree ≥ lowUse * (st.totalFree + st.totalBusy)
  · rw [if_pos hlow]
    cases hr1 : relocate m { d with pfiles := d.pfiles.set nn (gbytes ss') } nn (gbytes ss')
        st.busyAt.toNat st.busySize with
    | none => exact key _ _ (SameP.refl m) (fun h => by cases h)
    | some m1 =>
      simp only
      have s1 := relocate_sameP hr1
      by_cases hpv : st.prevBusyAt ≥ 0
      · rw [if_pos hpv]
        cases hr2 : relocate m1 { d with pfiles := d.pfiles.set nn (gbytes ss') } nn (gbytes ss')
            st.prevBusyAt.toNat st.prevBusySize with
        | none => exact key _ _ s1 (fun h => by cases h)
        | some m2 =>
          simp only
          exact key _ _ (s1.trans (relocate_sameP hr2)) (fun h => by cases h)
      · rw [if_neg hpv]
        exact key _ _ s1 (fun h => by cases h)
  · rw [if_neg hlow]
    exact key _ _ (SameP.refl m) (fun h => by cases h)

/-- the disk during the file loop of a primary GC cycle, against the disk `d0` and the record spans `E`
    it started with -/
structure PKeepSt (m0 : Mem) (E : Block → Bytes → Prop) (d0 d : Disk) (pf : Nat)
    (psp : Nat → List GSpan) : Prop where
  frame : d.ifiles = d0.ifiles ∧ d.ihdr = d0.ihdr ∧ d.snap = d0.snap ∧ d.cidfile = d0.cidfile ∧
    d.free = d0.free ∧ d.freeGc = d0.freeGc
  sorted : NMap.Sorted d0.pfiles → NMap.Sorted d.pfiles
  last : ∀ f, m0.pfileNum ≤ f → d.pfiles.get? f = d0.pfiles.get? f
  hdr : d.phdr = some ⟨m0.pmax, pf⟩
  log : PriLog m0 d pf psp
  keep : ∀ blk body, E blk body → OnDisk m0 pf psp blk body

theorem OnDisk.sameP {m m' : Mem} {pf : Nat} {psp : Nat → List GSpan} {blk : Block} {body : Bytes}
    (h : OnDisk m pf psp blk body) (hs : SameP m m') : OnDisk m' pf psp blk body :=
  h.frame hs.1 hs.2.1

theorem SameP.symm {m m' : Mem} (h : SameP m m') : SameP m' m := ⟨h.1.symm, h.2.1.symm, h.2.2.symm⟩

theorem pgc_go_disk {m0 : Mem} {E : Block → Bytes → Prop} {d0 : Disk} (lowUse : Nat) :
    ∀ (fuel nn pf : Nat) (psp : Nat → List GSpan) (m : Mem) (d : Disk) (budget : Budget) (recl : Nat),
      SameP m0 m → PKeepSt m0 E d0 d pf psp → pf ≤ nn → nn ≤ m0.pfileNum →
      ∃ pf' psp', PKeepSt m0 E d0
        (primaryGC.go lowUse fuel nn ⟨m0.pmax, pf⟩ m d budget recl).2.2.1 pf' psp' := by
  intro fuel
  induction fuel with
  | zero =>
    intro nn pf psp m d budget recl _ hK _ _
    exact ⟨pf, psp, hK⟩
  | succ fuel ih =>
    intro nn pf psp m d budget recl hs hK h1 h2
    unfold primaryGC.go
    by_cases he : nn = m.pfileNum
    · rw [if_pos he]; exact ⟨pf, psp, hK⟩
    rw [if_neg he]
    by_cases hv : m.visited.contains nn = true
    · rw [if_pos hv]
      exact ih (nn + 1) pf psp m d budget recl hs hK (by omega) (by rw [← hs.1]; rw [hs.1] at he ⊢; omega)
    rw [if_neg hv]
    have hlt : nn < m.pfileNum := by rw [hs.1]; rw [hs.1] at he; omega
    obtain ⟨psp1, pfs, r1, r2, r3, r4, r5, r6, r7⟩ :=
      reapRecords_disk (hK.log.sameP hs) h1 hlt lowUse
    cases hr : reapRecords m d nn lowUse with
    | mk r rest =>
    obtain ⟨m1, d1, got⟩ := rest
    rw [hr] at r1 r3 r6 r7
    simp only at r1 r3 r6 r7 ⊢
    subst r3
    have hs1 : SameP m0 m1 := hs.trans r7
    obtain ⟨f1, f2, f3, f4, f5, f6⟩ := hK.frame
    have hK1 : PKeepSt m0 E d0 ({ d with pfiles := pfs } : Disk) pf psp1 := by
      refine ⟨⟨f1, f2, f3, f4, f5, f6⟩, fun h => r4 (hK.sorted h), ?_, hK.hdr, r1.sameP hs.symm, ?_⟩
      · intro f hf
        show pfs.get? f = _
        rw [r5 f (by rw [hs.1] at hlt; omega)]
        exact hK.last f hf
      · intro blk body hE
        exact (r2 blk body ((hK.keep blk body hE).sameP hs)).sameP hs.symm
    -- after the optional unlink of the first file, and the poll
    have hcont : ∀ (pf2 : Nat) (psp2 : Nat → List GSpan) (d2 : Disk), pf2 ≤ nn + 1 →
        PKeepSt m0 E d0 d2 pf2 psp2 →
        ∃ pf' psp', PKeepSt m0 E d0
          (if (poll budget).1 = true then
              ((⟨.deadline, 0⟩ : PgcRes), ({ m1 with visited := m1.visited ++ [nn] } : Mem), d2,
                (poll budget).2)
            else primaryGC.go lowUse fuel (nn + 1) ⟨m0.pmax, pf2⟩
              { m1 with visited := m1.visited ++ [nn] } d2 (poll budget).2 (recl + got)).2.2.1
          pf' psp' := by
      intro pf2 psp2 d2 hpf2 hK2
      by_cases hp : (poll budget).1 = true
      · rw [if_pos hp]; exact ⟨pf2, psp2, hK2⟩
      · rw [if_neg hp]
        exact ih (nn + 1) pf2 psp2 _ d2 _ _ ⟨hs1.1, hs1.2.1, hs1.2.2⟩ hK2 hpf2
          (by rw [hs.1] at hlt; omega)
    cases r with
    | err => exact ⟨pf, psp1, hK1⟩
    | kept =>
      simp only [reduceCtorEq, false_and, if_false]
      exact hcont pf psp1 _ (by omega) hK1
    | dead =>
      simp only [true_and]
      by_cases hd : nn = pf
      · subst hd
        simp only [if_true]
        have hlt0 : nn < m0.pfileNum := by rw [hs.1] at hlt; exact hlt
        obtain ⟨l1, l2, _⟩ := drop_step hK1.log hlt0 (r6 rfl) (some ⟨m0.pmax, nn + 1⟩)
        apply hcont (nn + 1) psp1 _ (Nat.le_refl _)
        refine ⟨⟨f1, f2, f3, f4, f5, f6⟩, fun h => NMap.sorted_del nn (hK1.sorted h), ?_, rfl, l1, ?_⟩
        · intro f hf
          show (pfs.del nn).get? f = _
          rw [NMap.get?_del_ne _ (by omega)]
          exact hK1.last f hf
        · intro blk body hE
          exact l2 blk body (hK1.keep blk body hE)
      · simp only [hd, if_false]
        exact hcont pf psp1 _ (by omega) hK1

end Sth
