/-
C03 — the facts about reachable disks the crash analysis needs, as run invariants: the disk is
well-formed (`DiskWF`) and recovering it gives a state that satisfies the observational invariant for the
specification map of the last durable point (`Durable`).
Core Lean only.
-/
import Sth.Lemmas.C03Recover

namespace Sth

/-- recovering the disk (freelist repair + OpenStore) succeeds and gives a state that observes exactly
    the map `specD` -/
def Durable (c : Cfg) (U : List (Bytes × Bytes)) (d : Disk) (specD : Spec) : Prop :=
  ∃ dOld mOld, openStoreR c d = (dOld, .ok mOld) ∧ SInv U mOld dOld specD

/-! ### recovering a fully flushed state -/

theorem clean_durable {c : Cfg} {U : List (Bytes × Bytes)} {cfg : Cfg} {m : Mem} {d : Disk}
    {spec : Spec} {n B : Nat} (hc : c.Legal) (hI : Inv c U ⟨cfg, m, d⟩ spec n B)
    (hX : XInv c ⟨cfg, m, d⟩) (hD : DiskWF d) (hin : m.inext = []) (hpn : m.pnext = []) :
    Durable c U d spec := by
  have hIp : PInv m d := hI.p
  have hIi : IInv m d := hI.i
  have hkind : m.kind = c.kind := hI.kind
  have hbits : m.bits = c.bits := hX.bits
  have himax : m.imax = c.ifs := hX.imax
  obtain ⟨lg, hl⟩ := hX.log
  have hlf : ∀ f, f ≤ m.ifileNum → d.ifiles.get? f = some (logBytes (lg f)) := hl.files
  obtain ⟨cf, pfn, plen, files', fr, eqO, o2, o3, o5, o6⟩ :=
    recover_form c hc d m.pfileNum m.ifileNum lg (fun _ => []) hX.ihdr hD.snap hX.phdr hX.pall
      (fun hk => (hIp.mh (by rw [hkind]; exact hk)).2.2 _ (Nat.lt_succ_self _))
      (fun f hf => by rw [hlf f hf, List.append_nil]) (hIi.noFiles _ (Nat.lt_succ_self _))
      (fun f hf r hr => by rw [← hbits]; exact hl.recs f hf r hr) (fun _ _ => isTorn_nil _)
  have hcongr : ∀ f, files'.get? f = d.ifiles.get? f := by
    intro f
    rcases Nat.lt_or_ge m.ifileNum f with h | h
    · exact o6 f h
    · rw [o5 f h, hlf f h]
  have halloc : m.kind = .mh → m.pfileNum = m.precFileNum ∧ m.plength = m.precPos := by
    intro hk
    have := (hIp.mh hk).1
    rw [hpn] at this
    exact this
  have hr : Reopened m d
      (openMem c (scanTo c.ifs lg m.ifileNum) m.ifileNum (fileOf files' m.ifileNum).length pfn plen)
      { d with free := fr, cidfile := cf, snap := none, ifiles := files' } := by
    refine ⟨hkind.symm, hI.imm.symm, hbits.symm, himax.symm, hX.pmax.symm, rfl, rfl, rfl, rfl, rfl,
      rfl, scanTo_sorted _ _ _, ?_, hcongr, rfl, ?_, ?_, ?_, ?_, ?_, rfl, rfl⟩
    · intro b
      have := hl.table b
      rw [himax] at this
      exact this.symm
    · intro file hf
      show cf = some file
      rcases kind_cases m with hk | hk
      · rw [(o2 (by rw [← hkind]; exact hk)).1]; exact hf
      · rw [(o3 (by rw [← hkind]; exact hk)).1, hf]; rfl
    · show cf.getD [] = d.cidfile.getD []
      rcases kind_cases m with hk | hk
      · rw [(o2 (by rw [← hkind]; exact hk)).1]
      · rw [(o3 (by rw [← hkind]; exact hk)).1]; rfl
    · intro hk
      show pfn = m.precFileNum
      rw [(o2 (by rw [← hkind]; exact hk)).2.1]
      exact (halloc hk).1
    · show plen = m.precPos
      rcases kind_cases m with hk | hk
      · rw [(o2 (by rw [← hkind]; exact hk)).2.2, (hIp.mh hk).2.1]
        exact (halloc hk).2
      · rw [(o3 (by rw [← hkind]; exact hk)).2.2]
        have := hIp.cid hk
        rw [hpn] at this
        exact this
    · intro hk
      show pfn = m.pfileNum ∧ plen = m.plength
      obtain ⟨_, a2, a3⟩ := o2 (by rw [← hkind]; exact hk)
      rw [a2, a3]
      exact ⟨rfl, (hIp.mh hk).2.1⟩
  obtain ⟨hI', _⟩ := reopen_inv hI hX hin hpn hr
  exact ⟨_, _, eqO, hI'.a⟩

/-! ### OpenStore keeps the disk well-formed and starts with empty pools -/

theorem openPrimary_keeps {c : Cfg} {d d1 : Disk} {a b e : Nat} (h : openPrimary c d = .ok (d1, a, b, e)) :
    d1.ifiles = d.ifiles ∧ d1.ihdr = d.ihdr ∧ d1.snap = d.snap ∧
      (NMap.Sorted d.pfiles → NMap.Sorted d1.pfiles) := by
  unfold openPrimary at h
  cases hk : c.kind with
  | cid =>
    simp only [hk, Except.ok.injEq, Prod.mk.injEq] at h
    obtain ⟨rfl, _⟩ := h
    exact ⟨rfl, rfl, rfl, fun hs => hs⟩
  | mh =>
    simp only [hk] at h
    by_cases hp : (if c.pfs = 0 then defaultMax else c.pfs) > defaultMax
    · rw [if_pos hp] at h; cases h
    · rw [if_neg hp] at h
      cases hph : d.phdr with
      | none =>
        simp only [hph, Except.ok.injEq, Prod.mk.injEq] at h
        obtain ⟨rfl, _⟩ := h
        split
        · exact ⟨rfl, rfl, rfl, fun hs => hs⟩
        · exact ⟨rfl, rfl, rfl, fun hs => NMap.sorted_set _ _ hs⟩
      | some hdr =>
        simp only [hph] at h
        by_cases hm : hdr.max ≠ (if c.pfs = 0 then defaultMax else c.pfs)
        · rw [if_pos hm] at h; cases h
        · rw [if_neg hm] at h
          simp only [Except.ok.injEq, Prod.mk.injEq] at h
          obtain ⟨rfl, _⟩ := h
          split
          · exact ⟨rfl, rfl, rfl, fun hs => hs⟩
          · exact ⟨rfl, rfl, rfl, fun hs => NMap.sorted_set _ _ hs⟩

theorem ite_some_frame {α : Type} {P : α → Prop} (cond : Prop) [Decidable cond] (x y : Option α)
    {a : α} (h : (if cond then x else y) = some a) (hx : ∀ a, x = some a → P a)
    (hy : ∀ a, y = some a → P a) : P a := by
  by_cases hc : cond
  · rw [if_pos hc] at h; exact hx a h
  · rw [if_neg hc] at h; exact hy a h

theorem openIndex_keeps {c : Cfg} {p : Nat} {d d2 : Disk} {a b e : Nat} {bk : NMap Nat}
    (h : openIndex c p d = .ok (d2, a, b, bk, e)) (hih : d.ihdr ≠ none) :
    d2.snap = none ∧ d2.pfiles = d.pfiles ∧ (NMap.Sorted d.ifiles → NMap.Sorted d2.ifiles) := by
  obtain ⟨ihdr, ifiles, snap, phdr, pfiles, cidfile, free, freeGc⟩ := d
  cases ihdr with
  | none => exact absurd rfl hih
  | some hdr =>
  unfold openIndex at h
  by_cases h1 : c.bits ≠ 0 ∧ (c.bits > 31 ∨ c.bits < 8)
  · rw [if_pos h1] at h; cases h
  rw [if_neg h1] at h
  by_cases h2 : c.ifs > defaultMax
  · rw [if_pos h2] at h; cases h
  rw [if_neg h2] at h
  simp only at h
  by_cases h3 : hdr.bits ≠ (if c.bits = 0 then hdr.bits else c.bits)
  · rw [if_pos h3] at h; cases h
  rw [if_neg h3] at h
  by_cases h4 : hdr.max ≠ (if c.ifs = 0 then hdr.max else c.ifs)
  · rw [if_pos h4] at h; cases h
  rw [if_neg h4] at h
  split at h
  · cases h
  · rename_i dl bkl lastl hload
    by_cases h5 : c.kind = .mh ∧ hdr.pfs ≠ p
    · rw [if_pos h5] at h; cases h
    rw [if_neg h5] at h
    simp only [Except.ok.injEq, Prod.mk.injEq] at h
    obtain ⟨rfl, _⟩ := h
    have hdl : dl.snap = none ∧ dl.pfiles = pfiles ∧ (NMap.Sorted ifiles → NMap.Sorted dl.ifiles) := by
      apply ite_some_frame (P := fun (t : Disk × NMap Nat × Nat) => t.1.snap = none ∧
        t.1.pfiles = pfiles ∧ (NMap.Sorted ifiles → NMap.Sorted t.1.ifiles)) _ _ _ hload
      · intro t ht
        cases ht
        exact ⟨rfl, rfl, fun hs => hs⟩
      · intro t ht
        split at ht
        · cases ht
        · rename_i files bk' last' hscan
          cases ht
          exact ⟨rfl, rfl, fun hs => scanIndex_sorted hs hscan⟩
    split
    · exact hdl
    · exact ⟨hdl.1, hdl.2.1, fun hs => NMap.sorted_set _ _ (hdl.2.2 hs)⟩

theorem openStore_keeps {c : Cfg} {d d' : Disk} {m' : Mem} (h : openStore c d = (d', .ok m'))
    (hih : d.ihdr ≠ none) (hsp : NMap.Sorted d.pfiles) (hsi : NMap.Sorted d.ifiles) :
    DiskWF d' ∧ m'.inext = [] ∧ m'.pnext = [] := by
  unfold openStore at h
  simp only at h
  split at h
  · simp only [Prod.mk.injEq] at h
    obtain ⟨_, h⟩ := h
    cases h
  · rename_i d1 pmax pfn plen hp
    split at h
    · simp only [Prod.mk.injEq] at h
      obtain ⟨_, h⟩ := h
      cases h
    · rename_i d2 bits imax bk last hi
      simp only [Prod.mk.injEq, Except.ok.injEq] at h
      obtain ⟨rfl, rfl⟩ := h
      obtain ⟨p1, p2, p3, p4⟩ := openPrimary_keeps hp
      obtain ⟨i1, i2, i3⟩ := openIndex_keeps hi (by rw [p2]; exact hih)
      exact ⟨⟨i1, by rw [i2]; exact p4 hsp, i3 (by rw [p1]; exact hsi)⟩, rfl, rfl⟩

/-! ### Store.Flush in parts -/

theorem flFlush_ext (m : Mem) (d : Disk) :
    ∃ fl fr, OptExt d.free fr ∧ flFlush m d = ({ m with flpool := fl }, { d with free := fr }) := by
  unfold flFlush
  split
  · exact ⟨m.flpool, d.free, Or.inl rfl, rfl⟩
  · exact ⟨[], _, Or.inr ⟨_, rfl⟩, rfl⟩

theorem storeFlush_out {m m1 m2 : Mem} {d d1 d2 : Disk} {order : List Nat}
    (p1 : priFlush m d = some (m1, d1)) (i1 : idxFlush m1 d1 order = (m2, d2))
    (ho : outstanding m = true) :
    ∃ fl fr, OptExt d2.free fr ∧
      storeFlush m d order = some ({ m2 with flpool := fl }, { d2 with free := fr }) := by
  obtain ⟨fl, fr, f1, f2⟩ := flFlush_ext m2 d2
  refine ⟨fl, fr, f1, ?_⟩
  unfold storeFlush commit
  rw [if_pos ho]
  simp only [p1, i1, f2]

theorem storeFlush_idle {m : Mem} {d : Disk} {order : List Nat} (ho : ¬ outstanding m = true) :
    storeFlush m d order = some (m, d) ∧ m.inext = [] ∧ m.pnext = [] ∧
      priFlush m d = some (m, d) ∧ idxFlush m d order = (m, d) := by
  unfold outstanding at ho
  simp only [Bool.or_eq_true, Bool.not_eq_true', not_or, Bool.not_eq_false] at ho
  refine ⟨?_, List.isEmpty_iff.mp ho.1, List.isEmpty_iff.mp ho.2, priFlush_empty ho.2,
    idxFlush_empty ho.1⟩
  unfold storeFlush outstanding
  rw [if_neg]
  simp only [Bool.or_eq_true, Bool.not_eq_true', not_or, Bool.not_eq_false]
  exact ho

/-! ### the run invariants, one step -/

def SOp.isDurable : SOp → Bool
  | .flush _ => true
  | .iter _ => true
  | .reopen .. => true
  | _ => false

theorem stepS_disk (s : SState) (op : SOp) (h : op.isDurable = false) (h2 : op.isC02 = true) :
    (stepS s op).1.d = s.d := by
  cases op with
  | put k v => simp only [stepS]; split <;> rfl
  | get k => simp only [stepS]; split <;> rfl
  | has k => simp only [stepS]; split <;> rfl
  | size k => simp only [stepS]; split <;> rfl
  | rm k => simp only [stepS]; split <;> rfl
  | flush o => cases h
  | iter o => cases h
  | reopen o u => cases h
  | igc a b => cases h2
  | pgc a b => cases h2

section
variable {c : Cfg} {U : List (Bytes × Bytes)} {s : SState} {spec : Spec} {n B : Nat}

/-- the state after Store.Flush: invariants, well-formed disk, and it is its own durable point -/
theorem flush_durable (hc : c.Legal) (hU : Univ c.kind U) (hI : Inv c U s spec n B) (hX : XInv c s)
    (hD : DiskWF s.d) (hn : n < 1073741824) (hB : B < two31) (order : List Nat) :
    ∃ m' d', storeFlush s.m s.d (fixOrder order s.m.inext.keys) = some (m', d') ∧
      Inv c U ⟨s.cfg, m', d'⟩ spec n B ∧ XInv c ⟨s.cfg, m', d'⟩ ∧ m'.inext = [] ∧
      DiskWF d' ∧ Durable c U d' spec := by
  obtain ⟨m1, d1, m2, d2, lg, p1, i1, hI2, hX2, hin, hpn, _, _, _, _, _, _, _, _, _, _, _, hD2⟩ :=
    flush_parts hU hI hX hD hn hB order
  by_cases ho : outstanding s.m = true
  · obtain ⟨fl, fr, _, f2⟩ := storeFlush_out p1 i1 ho
    have hI3 := hI2.frame_ff fl fr d2.snap
    have hX3 := hX2.frame_ff fl fr d2.snap
    have hD3 : DiskWF ({ d2 with free := fr } : Disk) := ⟨hD2.snap, hD2.sp, hD2.si⟩
    exact ⟨_, _, f2, hI3, hX3, hin, hD3, clean_durable hc hI3 hX3 hD3 hin hpn⟩
  · obtain ⟨f1, f2, f3, _, _⟩ := storeFlush_idle (d := s.d) (order := fixOrder order s.m.inext.keys) ho
    have hI' : Inv c U ⟨s.cfg, s.m, s.d⟩ spec n B := hI
    have hX' : XInv c ⟨s.cfg, s.m, s.d⟩ := hX
    exact ⟨_, _, f1, hI', hX', f2, hD, clean_durable hc hI' hX' hD f2 f3⟩

end

/-! ### Close + reopen -/

theorem reopen_match {s : SState} {d0 d' : Disk} {m' : Mem}
    (h : (match openStore s.cfg d0 with
      | (d', .ok m') => (({ s with m := m', d := d' } : SState), SOut.gc)
      | (_, .error _) => (s, SOut.err .other)) = (⟨s.cfg, m', d'⟩, .gc)) :
    openStore s.cfg d0 = (d', .ok m') := by
  cases ho : openStore s.cfg d0 with
  | mk dd r =>
    cases r with
    | error e =>
      rw [ho] at h
      simp only [Prod.mk.injEq] at h
      obtain ⟨_, h2⟩ := h
      cases h2
    | ok mm =>
      rw [ho] at h
      simp only [Prod.mk.injEq, SState.mk.injEq, and_true, true_and] at h
      obtain ⟨rfl, rfl⟩ := h
      rfl

theorem reopen_unfold {s : SState} {m1 m2 m' : Mem} {d1 d2 d' : Disk} {order : List Nat} {us : Bool}
    (p1 : priFlush s.m s.d = some (m1, d1))
    (i1 : idxFlush m1 d1 (fixOrder order s.m.inext.keys) = (m2, d2))
    (r1 : stepS s (.reopen order us) = (⟨s.cfg, m', d'⟩, .gc)) :
    ∃ d0, d0.pfiles = d2.pfiles ∧ d0.ifiles = d2.ifiles ∧ d0.ihdr = d2.ihdr ∧
      openStore s.cfg d0 = (d', .ok m') := by
  obtain ⟨fr, hcl, _⟩ := storeClose_eq p1 i1
  unfold stepS at r1
  simp only [hcl] at r1
  cases us with
  | true =>
    simp only [if_true] at r1
    refine ⟨_, ?_, ?_, ?_, reopen_match r1⟩ <;> rfl
  | false =>
    simp only [Bool.false_eq_true, if_false] at r1
    refine ⟨_, ?_, ?_, ?_, reopen_match r1⟩ <;> rfl

section
variable {c : Cfg} {U : List (Bytes × Bytes)} {s : SState} {spec : Spec} {n B : Nat}

theorem reopen_durable (hc : c.Legal) (hU : Univ c.kind U) (hI : Inv c U s spec n B) (hX : XInv c s)
    (hD : DiskWF s.d) (hn : n < 1073741824) (hB : B < two31) (order : List Nat) (us : Bool) :
    ∃ m' d', stepS s (.reopen order us) = (⟨s.cfg, m', d'⟩, .gc) ∧
      Inv c U ⟨s.cfg, m', d'⟩ spec n B ∧ XInv c ⟨s.cfg, m', d'⟩ ∧
      DiskWF d' ∧ Durable c U d' spec := by
  obtain ⟨m1, d1, m2, d2, m', d', p1, i1, r1, hI', hX', _, _, _⟩ :=
    step_reopen hc hU hI hX hn hB order us
  obtain ⟨m1', d1', m2', d2', lg, p1', i1', _, hX2, _, _, _, _, _, _, _, _, _, _, _, _, _, hD2⟩ :=
    flush_parts hU hI hX hD hn hB order
  rw [p1] at p1'
  simp only [Option.some.injEq, Prod.mk.injEq] at p1'
  obtain ⟨rfl, rfl⟩ := p1'
  rw [i1] at i1'
  simp only [Prod.mk.injEq] at i1'
  obtain ⟨rfl, rfl⟩ := i1'
  obtain ⟨d0, e1, e2, e3, ho⟩ := reopen_unfold p1 i1 r1
  have hih : d0.ihdr ≠ none := by
    rw [e3]
    have : d2.ihdr = some ⟨c.bits, c.ifs, 0, hdrPfs c⟩ := hX2.ihdr
    rw [this]; simp
  obtain ⟨hD', hin, hpn⟩ := openStore_keeps ho hih (by rw [e1]; exact hD2.sp) (by rw [e2]; exact hD2.si)
  exact ⟨m', d', r1, hI', hX', hD', clean_durable hc hI' hX' hD' hin hpn⟩

end

/-! ### the specification map of the last durable point, and the run -/

/-- the specification map after the longest prefix of the calls that ends in a Flush, an iteration
    (which flushes) or a Close + reopen; `cur` is the map now, `dur` the map at the last such call -/
def lastDurable (kind : PKind) (imm : Bool) : Spec → Spec → List SOp → Spec
  | _, dur, [] => dur
  | cur, dur, op :: ops =>
    lastDurable kind imm (specStep kind imm cur op).1
      (if op.isDurable then (specStep kind imm cur op).1 else dur) ops

section
variable {c : Cfg} {U : List (Bytes × Bytes)} {s : SState} {spec specD : Spec} {n B : Nat}

theorem step_extra (hc : c.Legal) (hU : Univ c.kind U) (hI : Inv c U s spec n B) (hX : XInv c s)
    (hD : DiskWF s.d) (hDur : Durable c U s.d specD) (op : SOp) (hop : op.isC02 = true)
    (hn : n + 1 < 1073741824) (hB : B + op.bytes < two31) :
    DiskWF (stepS s op).1.d ∧
      Durable c U (stepS s op).1.d
        (if op.isDurable then (specStep c.kind c.imm spec op).1 else specD) := by
  cases op with
  | put k v => rw [stepS_disk s _ rfl hop]; exact ⟨hD, hDur⟩
  | get k => rw [stepS_disk s _ rfl hop]; exact ⟨hD, hDur⟩
  | has k => rw [stepS_disk s _ rfl hop]; exact ⟨hD, hDur⟩
  | size k => rw [stepS_disk s _ rfl hop]; exact ⟨hD, hDur⟩
  | rm k => rw [stepS_disk s _ rfl hop]; exact ⟨hD, hDur⟩
  | flush order =>
    obtain ⟨m', d', f1, _, _, _, f5, f6⟩ := flush_durable hc hU hI hX hD (by omega) hB order
    simp only [stepS, f1, specStep, SOp.isDurable, if_true]
    exact ⟨f5, f6⟩
  | iter order =>
    obtain ⟨m', d', f1, _, _, _, f5, f6⟩ := flush_durable hc hU hI hX hD (by omega) hB order
    simp only [stepS, f1, specStep, SOp.isDurable, if_true]
    split <;> exact ⟨f5, f6⟩
  | reopen order us =>
    obtain ⟨m', d', r1, _, _, r4, r5⟩ := reopen_durable hc hU hI hX hD (by omega) hB order us
    rw [r1]
    simp only [specStep, SOp.isDurable, if_true]
    exact ⟨r4, r5⟩
  | igc a b => cases hop
  | pgc a b => cases hop

end

/-- the map of the last durable point has distinct digests and its weight is below the byte count -/
def DurW (specD : Spec) (B : Nat) : Prop := (specD.map (·.1)).Nodup ∧ specW specD ≤ B

theorem run_ok3 {c : Cfg} {U : List (Bytes × Bytes)} (hc : c.Legal) (hU : Univ c.kind U) :
    ∀ (ops : List SOp) (s : SState) (spec specD : Spec) (n B : Nat),
    Inv c U s spec n B → XInv c s → DiskWF s.d → Durable c U s.d specD → DurW specD B →
    (∀ op ∈ ops, op.isC02 = true) →
    (∀ op ∈ ops, ∀ k, op.keyOf = some k → ∀ dig, keyClass c.kind k = .ok dig → (k, dig) ∈ U) →
    n + ops.length < 1073741824 → B + (ops.map SOp.bytes).sum < two31 →
    Inv c U (runS s ops).1 (specRun c.kind c.imm spec ops).1 (n + ops.length)
        (B + (ops.map SOp.bytes).sum) ∧ XInv c (runS s ops).1 ∧ DiskWF (runS s ops).1.d ∧
      Durable c U (runS s ops).1.d (lastDurable c.kind c.imm spec specD ops) ∧
      DurW (lastDurable c.kind c.imm spec specD ops) (B + (ops.map SOp.bytes).sum)
  | [], _, _, _, _, _, hI, hX, hD, hDur, hW, _, _, _, _ => ⟨hI, hX, hD, hDur, hW⟩
  | op :: ops, s, spec, specD, n, B, hI, hX, hD, hDur, hW, ha, hk, hn, hB => by
    simp only [List.length_cons, List.map_cons, List.sum_cons] at hn hB ⊢
    obtain ⟨_, h2, h3⟩ := step_ok2 hc hU hI hX op (ha op (by simp)) (hk op (by simp)) (by omega)
      (by omega)
    obtain ⟨h4, h5⟩ := step_extra hc hU hI hX hD hDur op (ha op (by simp)) (by omega) (by omega)
    have h6 : DurW (if op.isDurable then (specStep c.kind c.imm spec op).1 else specD)
        (B + op.bytes) := by
      split
      · exact ⟨h2.nodup, h2.w⟩
      · exact ⟨hW.1, by have := hW.2; omega⟩
    obtain ⟨i1, i2, i3, i4, i5⟩ := run_ok3 hc hU ops (stepS s op).1 (specStep c.kind c.imm spec op).1 _
      (n + 1) (B + op.bytes) h2 h3 h4 h5 h6 (fun o ho => ha o (by simp [ho]))
      (fun o ho => hk o (by simp [ho])) (by omega) (by omega)
    rw [runS_cons_fst, specRun_cons_fst]
    have e1 : n + (ops.length + 1) = n + 1 + ops.length := by omega
    have e2 : B + (op.bytes + (ops.map SOp.bytes).sum) = B + op.bytes + (ops.map SOp.bytes).sum := by
      omega
    rw [e1, e2]
    exact ⟨i1, i2, i3, i4, i5⟩

/-! ### the freshly opened store -/

theorem sorted_single {α : Type} (v : α) : NMap.Sorted [(0, v)] := by
  unfold NMap.Sorted; simp

theorem extra_init (c : Cfg) (hc : c.Legal) (U : List (Bytes × Bytes)) (s : SState)
    (hi : initS c = some s) : DiskWF s.d ∧ Durable c U s.d [] := by
  have hI := inv_init c hc U s hi
  have hX := xinv_init c hc s hi
  have hD : DiskWF s.d ∧ s.m.inext = [] ∧ s.m.pnext = [] := by
    rcases (by cases c.kind <;> simp : c.kind = .mh ∨ c.kind = .cid) with hk | hk
    · rw [initS_mh c hc hk] at hi
      cases hi
      exact ⟨⟨rfl, sorted_single _, sorted_single _⟩, rfl, rfl⟩
    · rw [initS_cid c hc hk] at hi
      cases hi
      exact ⟨⟨rfl, NMap.sorted_nil, sorted_single _⟩, rfl, rfl⟩
  obtain ⟨h1, h2, h3⟩ := hD
  have hI' : Inv c U ⟨s.cfg, s.m, s.d⟩ [] 0 0 := hI
  have hX' : XInv c ⟨s.cfg, s.m, s.d⟩ := hX
  exact ⟨h1, clean_durable hc hI' hX' h1 h2 h3⟩

/-- every reachable state (Put / Get / Has / GetSize / Remove / Flush / iteration / Close + reopen at
    arbitrary positions) satisfies the invariants of C01 and C02, has a well-formed disk, and recovering
    its disk gives a state that observes the map of the last durable point -/
theorem reachable_c03 (c : Cfg) (hc : c.Legal) (U : List (Bytes × Bytes)) (hU : Univ c.kind U)
    (ops : List SOp) (ha : ∀ op ∈ ops, op.isC02 = true)
    (hk : ∀ op ∈ ops, ∀ k, op.keyOf = some k → ∀ dig, keyClass c.kind k = .ok dig → (k, dig) ∈ U)
    (hs : SizesOK ops) (s : SState) (hi : initS c = some s) :
    Inv c U (runS s ops).1 (specRun c.kind c.imm [] ops).1 (0 + ops.length)
        (0 + (ops.map SOp.bytes).sum) ∧ XInv c (runS s ops).1 ∧ DiskWF (runS s ops).1.d ∧
      Durable c U (runS s ops).1.d (lastDurable c.kind c.imm [] [] ops) ∧
      DurW (lastDurable c.kind c.imm [] [] ops) (0 + (ops.map SOp.bytes).sum) := by
  obtain ⟨h1, h2⟩ := extra_init c hc U s hi
  apply run_ok3 hc hU ops s [] [] 0 0 (inv_init c hc _ s hi) (xinv_init c hc s hi) h1 h2
    ⟨by simp, by simp [specW]⟩ ha hk
  · have := hs.1; omega
  · have := hs.2.1; omega

end Sth
