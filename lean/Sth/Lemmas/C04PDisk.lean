/-
C04 — changes to the primary files that leave the memory state alone (marking a freed record deleted,
reaping a file, unlinking the first file): index entries keep resolving, freelist entries keep pointing
at harmless places.
Core Lean only.
-/
import Sth.Lemmas.C04Pri

namespace Sth

section
variable {m : Mem} {d d' : Disk} {pf pf' : Nat} {psp psp' : Nat → List GSpan}

theorem isEnt_congr (h : d'.ifiles = d.ifiles) (blk : Block) : IsEnt m d' blk ↔ IsEnt m d blk := by
  unfold IsEnt idxRecords
  rw [h]

theorem block_eq {blk : Block} {off size : Nat} (h1 : blk.off = off) (h2 : blk.size = size) :
    blk = ⟨off, size⟩ := by
  cases blk; simp_all

/-- an entry that is not in the next pool reads from its span -/
theorem priGet_onDisk (hk : m.kind = .mh) (hp : 1 ≤ m.pmax) (h32 : m.precFileNum < two32)
    (hl : PriLog m d pf psp) (hle : m.pfileNum ≤ m.precFileNum) {blk : Block} {body : Bytes}
    (hb : Below m blk) (ho : OnDisk m pf psp blk body)
    (h1 : poolFind m.pnext blk = none) :
    priGet m d blk =
      match poolFind m.pcur blk with
      | some r => .got r.key r.val
      | none => match readNode .mh body with
        | some (k, v) => .got k v
        | none => .err := by
  obtain ⟨f, lp, e1, e2, e3, e4, e5⟩ := ho
  rw [priGet_eq, h1]
  simp only
  cases poolFind m.pcur blk with
  | some r => rfl
  | none =>
    simp only
    unfold priDisk
    rw [if_pos hb.thrOK, hk]
    have hbe : blk = ⟨m.pmax * f + lp, body.length⟩ := block_eq e1 e5
    rw [hbe]
    exact diskRead_span hp (hl.starts f e2 e3 _ e4) (by omega) (hl.files f e2 e3) e4
      (hl.ok f e2 e3 ⟨false, body⟩ (by
        obtain ⟨a, b, e, _⟩ := liveAt_split (psp f) 0 lp body e4
        rw [e]; simp))

theorem poolFind_of_mem {p : List PRec} {r : PRec} (h : r ∈ p) : poolFind p r.blk ≠ none := by
  unfold poolFind
  intro hc
  rw [List.find?_eq_none] at hc
  exact hc r h (by simp)

/-- a change of the primary files under which every record backing an entry persists -/
theorem zinv_disk_step (hk : m.kind = .mh) (hp : 1 ≤ m.pmax) (h32 : m.precFileNum < two32)
    (hle : m.pfileNum ≤ m.precFileNum)
    (hl : PriLog m d pf psp) (he : EntOK m d pf psp) (hfl : FlInv m d pf psp)
    (hbelow : ∀ blk, IsEnt m d blk → Below m blk)
    (hl' : PriLog m d' pf' psp') (hidx : d'.ifiles = d.ifiles)
    (hfree : d'.free = d.free) (hgc : d'.freeGc = d.freeGc)
    (hkeep : ∀ blk body, IsEnt m d blk → OnDisk m pf psp blk body → OnDisk m pf' psp' blk body)
    (hloc : ∀ fb, FreeOK m d pf psp fb → FreeLoc m pf' psp' fb) :
    EntOK m d' pf' psp' ∧ FlInv m d' pf' psp' ∧
      (∀ blk, IsEnt m d blk → ∀ k v, priGet m d blk = .got k v → priGet m d' blk = .got k v) := by
  -- reads of entries
  have hread : ∀ blk, IsEnt m d blk → ∀ k v, priGet m d blk = .got k v →
      priGet m d' blk = .got k v := by
    intro blk hent k v hg
    obtain ⟨key, val, g1, g2⟩ := he blk hent
    rw [hg] at g1
    cases g1
    cases h1 : poolFind m.pnext blk with
    | some r =>
      rw [priGet_eq, h1] at hg ⊢
      exact hg
    | none =>
      rcases g2 with ⟨r, hr, e1, _, _⟩ | ho
      · exact absurd h1 (by rw [← e1]; exact poolFind_of_mem hr)
      · have hb := hbelow blk hent
        rw [priGet_onDisk hk hp h32 hl hle hb ho h1] at hg
        rw [priGet_onDisk hk hp h32 hl' hle hb (hkeep blk _ hent ho) h1]
        exact hg
  refine ⟨?_, ?_, hread⟩
  · intro blk hent
    have hent0 := (isEnt_congr hidx blk).mp hent
    obtain ⟨key, val, g1, g2⟩ := he blk hent0
    refine ⟨key, val, hread blk hent0 key val g1, ?_⟩
    rcases g2 with g2 | g2
    · exact Or.inl g2
    · exact Or.inr (hkeep blk _ hent0 g2)
  · obtain ⟨L1, L2, f1, f2, f3⟩ := hfl
    refine ⟨L1, L2, by rw [hfree]; exact f1, by rw [hgc]; exact f2, ?_⟩
    intro fb hfb
    obtain ⟨q1, q2, q3, q4, q5⟩ := f3 fb hfb
    exact ⟨q1, fun blk hb => q2 blk ((isEnt_congr hidx blk).mp hb), hloc fb ⟨q1, q2, q3, q4, q5⟩, q4, q5⟩

end

/-! ### list surgery -/

theorem liveAt_kill_other {a b : List GSpan} {body : Bytes} {x : Nat × Bytes}
    (hx : x ∈ liveAt 0 (a ++ (⟨false, body⟩ : GSpan) :: b)) (hne : x.1 ≠ (gbytes a).length) :
    x ∈ liveAt 0 (a ++ (⟨true, body⟩ : GSpan) :: b) := by
  rw [liveAt_append] at hx ⊢
  simp only [List.mem_append] at hx ⊢
  rcases hx with hx | hx
  · exact Or.inl hx
  · right
    simp only [liveAt, Bool.false_eq_true, if_false, if_true, List.mem_cons, GSpan.bytes_length] at hx ⊢
    rcases hx with rfl | hx
    · exact absurd (by simp) hne
    · exact hx

theorem liveAt_kill_sub {a b : List GSpan} {body : Bytes} {x : Nat × Bytes}
    (hx : x ∈ liveAt 0 (a ++ (⟨true, body⟩ : GSpan) :: b)) :
    x ∈ liveAt 0 (a ++ (⟨false, body⟩ : GSpan) :: b) := by
  rw [liveAt_append] at hx ⊢
  simp only [List.mem_append] at hx ⊢
  rcases hx with hx | hx
  · exact Or.inl hx
  · right
    simp only [liveAt, Bool.false_eq_true, if_false, if_true, List.mem_cons, GSpan.bytes_length] at hx ⊢
    exact Or.inr hx

theorem gbytes_kill_length (a b : List GSpan) (body : Bytes) :
    (gbytes (a ++ (⟨true, body⟩ : GSpan) :: b)).length =
      (gbytes (a ++ (⟨false, body⟩ : GSpan) :: b)).length := by
  simp [gbytes_append, gbytes_cons, GSpan.bytes_length]

theorem DeadMark.kill {a b : List GSpan} {body : Bytes} {lp : Nat}
    (h : DeadMark (a ++ (⟨false, body⟩ : GSpan) :: b) lp) :
    DeadMark (a ++ (⟨true, body⟩ : GSpan) :: b) lp := by
  rcases h.split with h1 | ⟨lp', e, h2⟩
  · exact h1.append_left _
  · have e12 : ∀ (s : GSpan), s :: b = [s] ++ b := fun _ => rfl
    rw [e12] at h2
    rcases h2.split with h3 | ⟨lp'', e', h4⟩
    · obtain ⟨off, s, j, raw, h0, hd, _⟩ := h3
      obtain ⟨rfl, _⟩ := h0.single
      cases hd
    · rw [e, e', e12]
      have := (h4.append_right [(⟨true, body⟩ : GSpan)]).append_right a
      have hl : (gbytes [(⟨true, body⟩ : GSpan)]).length = (gbytes [(⟨false, body⟩ : GSpan)]).length := by
        simp [gbytes_cons, GSpan.bytes_length]
      rw [hl] at this
      exact this

theorem DeadMark.killed {a b : List GSpan} {body : Bytes} (hl : body.length < two31) :
    DeadMark (a ++ (⟨true, body⟩ : GSpan) :: b) (gbytes a).length := by
  have e12 : (⟨true, body⟩ : GSpan) :: b = [(⟨true, body⟩ : GSpan)] ++ b := rfl
  rw [e12]
  have := ((DeadMark.start (s := (⟨true, body⟩ : GSpan)) rfl hl).append_left b).append_right a
  simpa using this

end Sth

namespace Sth

/-- status of a position inside an existing file -/
def FSt (m : Mem) (psp : Nat → List GSpan) (f lp : Nat) : Prop :=
  (f < m.pfileNum ∧ (gbytes (psp f)).length ≤ lp) ∨ (∃ body, (lp, body) ∈ liveAt 0 (psp f)) ∨
    DeadMark (psp f) lp

theorem freeLoc_mono {m : Mem} {pf pf' : Nat} {psp psp' : Nat → List GSpan} {fb : Block}
    (h : FreeLoc m pf psp fb) (hpf : pf ≤ pf')
    (hst : ∀ f lp, pf ≤ f → f ≤ m.pfileNum → FSt m psp f lp → f < pf' ∨ FSt m psp' f lp) :
    FreeLoc m pf' psp' fb := by
  rcases h with h | ⟨f, lp, e1, e2, h⟩
  · exact Or.inl h
  · right
    refine ⟨f, lp, e1, e2, ?_⟩
    rcases h with h | ⟨h1, h2, h3⟩
    · exact Or.inl (by omega)
    · rcases hst f lp h1 h2 h3 with h4 | h4
      · exact Or.inl h4
      · by_cases hf : f < pf'
        · exact Or.inl hf
        · exact Or.inr ⟨by omega, h2, h4⟩

section
variable {m : Mem} {d : Disk} {pf : Nat} {psp : Nat → List GSpan}

/-- marking a record span that no entry points at deleted -/
theorem kill_step (hl : PriLog m d pf psp) {f lp : Nat} {body : Bytes} (h1 : pf ≤ f)
    (h2 : f ≤ m.pfileNum) (hx : (lp, body) ∈ liveAt 0 (psp f))
    (hne : ∀ blk, IsEnt m d blk → blk.off ≠ m.pmax * f + lp) :
    ∃ psp', setDeleted (gbytes (psp f)) lp body.length = gbytes (psp' f) ∧
      PriLog m { d with pfiles := d.pfiles.set f (gbytes (psp' f)) } pf psp' ∧
      (∀ blk body', IsEnt m d blk → OnDisk m pf psp blk body' → OnDisk m pf psp' blk body') ∧
      (∀ fb, FreeLoc m pf psp fb → FreeLoc m pf psp' fb) := by
  obtain ⟨a, b, hs, e⟩ := liveAt_split (psp f) 0 lp body hx
  simp only [Nat.zero_add] at e
  have hlen : body.length < two31 := hl.ok f h1 h2 ⟨false, body⟩ (by rw [hs]; simp)
  refine ⟨fun f' => if f' = f then a ++ (⟨true, body⟩ : GSpan) :: b else psp f', ?_, ?_, ?_, ?_⟩
  · simp only [if_true]
    rw [hs, e, gbytes_append, gbytes_cons, setDeleted_kill, gbytes_append, gbytes_cons]
  · simp only [if_true]
    constructor
    · exact hl.le
    · intro f' hf'
      show (d.pfiles.set f _).get? f' = none
      rw [NMap.get?_set_ne _ _ (by omega)]
      exact hl.gone f' hf'
    · intro f' g1 g2
      show (d.pfiles.set f _).get? f' = _
      by_cases hff : f' = f
      · rw [hff, NMap.get?_set_eq]; simp
      · rw [NMap.get?_set_ne _ _ hff, if_neg hff]; exact hl.files f' g1 g2
    · intro f' g1 g2 s hs'
      by_cases hff : f' = f
      · simp only [hff, if_true, List.mem_append, List.mem_cons] at hs'
        rcases hs' with hs' | rfl | hs'
        · exact hl.ok f h1 h2 s (by rw [hs]; simp [hs'])
        · exact hlen
        · exact hl.ok f h1 h2 s (by rw [hs]; simp [hs'])
      · simp only [hff, if_false] at hs'
        exact hl.ok f' g1 g2 s hs'
    · intro f' g1 g2 x hx'
      by_cases hff : f' = f
      · simp only [hff, if_true] at hx'
        exact hl.starts f h1 h2 x (by rw [hs]; exact liveAt_kill_sub hx')
      · simp only [hff, if_false] at hx'
        exact hl.starts f' g1 g2 x hx'
  · rintro blk body' hent ⟨f', lp', e1, e2, e3, e4, e5⟩
    refine ⟨f', lp', e1, e2, e3, ?_, e5⟩
    by_cases hff : f' = f
    · subst hff
      simp only [if_true]
      rw [hs] at e4
      apply liveAt_kill_other e4
      intro hc
      simp only at hc
      exact hne blk hent (by rw [e1, hc, e])
    · simp only [hff, if_false]; exact e4
  · intro fb hfb
    apply freeLoc_mono hfb (Nat.le_refl _)
    intro f' lp' g1 g2 hst
    right
    by_cases hff : f' = f
    · subst hff
      unfold FSt at hst ⊢
      simp only [if_true]
      rw [hs] at hst
      rcases hst with ⟨k1, k2⟩ | ⟨body', k⟩ | k
      · exact Or.inl ⟨k1, by rw [gbytes_kill_length]; exact k2⟩
      · by_cases hlp : lp' = (gbytes a).length
        · right; right
          rw [hlp]
          exact DeadMark.killed hlen
        · right; left
          exact ⟨body', liveAt_kill_other k (by simpa using hlp)⟩
      · exact Or.inr (Or.inr k.kill)
    · unfold FSt at hst ⊢
      simp only [hff, if_false]
      exact hst

/-- replacing a closed file by a reaped version of itself -/
theorem reap_step (hl : PriLog m d pf psp) {n : Nat} (h1 : pf ≤ n) (h2 : n < m.pfileNum)
    {ss' : List GSpan} (hR : PReaped (psp n) ss') :
    PriLog m { d with pfiles := d.pfiles.set n (gbytes ss') } pf
        (fun f => if f = n then ss' else psp f) ∧
      (∀ blk body', OnDisk m pf psp blk body' →
        OnDisk m pf (fun f => if f = n then ss' else psp f) blk body') ∧
      (∀ fb, FreeLoc m pf psp fb → FreeLoc m pf (fun f => if f = n then ss' else psp f) fb) := by
  refine ⟨?_, ?_, ?_⟩
  · constructor
    · exact hl.le
    · intro f' hf'
      show (d.pfiles.set n _).get? f' = none
      rw [NMap.get?_set_ne _ _ (by omega)]
      exact hl.gone f' hf'
    · intro f' g1 g2
      show (d.pfiles.set n _).get? f' = _
      by_cases hff : f' = n
      · rw [hff, NMap.get?_set_eq]; simp
      · rw [NMap.get?_set_ne _ _ hff, if_neg hff]; exact hl.files f' g1 g2
    · intro f' g1 g2 s hs'
      by_cases hff : f' = n
      · simp only [hff, if_true] at hs'; exact hR.ok s hs'
      · simp only [hff, if_false] at hs'; exact hl.ok f' g1 g2 s hs'
    · intro f' g1 g2 x hx'
      by_cases hff : f' = n
      · simp only [hff, if_true] at hx'
        rw [hR.live] at hx'
        exact hl.starts n h1 (by omega) x hx'
      · simp only [hff, if_false] at hx'
        exact hl.starts f' g1 g2 x hx'
  · rintro blk body' ⟨f', lp', e1, e2, e3, e4, e5⟩
    refine ⟨f', lp', e1, e2, e3, ?_, e5⟩
    by_cases hff : f' = n
    · subst hff; simp only [if_true]; rw [hR.live]; exact e4
    · simp only [hff, if_false]; exact e4
  · intro fb hfb
    apply freeLoc_mono hfb (Nat.le_refl _)
    intro f' lp' g1 g2 hst
    right
    by_cases hff : f' = n
    · subst hff
      unfold FSt at hst ⊢
      simp only [if_true]
      rcases hst with ⟨k1, k2⟩ | ⟨body', k⟩ | k
      · exact Or.inl ⟨k1, Nat.le_trans hR.len k2⟩
      · exact Or.inr (Or.inl ⟨body', by rw [hR.live]; exact k⟩)
      · rcases hR.marks lp' k with k' | k'
        · exact Or.inr (Or.inr k')
        · exact Or.inl ⟨h2, k'⟩
    · unfold FSt at hst ⊢
      simp only [hff, if_false]
      exact hst

/-- unlinking the first file when it holds no record -/
theorem drop_step (hl : PriLog m d pf psp) (hlt : pf < m.pfileNum) (hempty : liveAt 0 (psp pf) = [])
    (hdr : Option PriHeader) :
    PriLog m { d with phdr := hdr, pfiles := d.pfiles.del pf } (pf + 1) psp ∧
      (∀ blk body', OnDisk m pf psp blk body' → OnDisk m (pf + 1) psp blk body') ∧
      (∀ fb, FreeLoc m pf psp fb → FreeLoc m (pf + 1) psp fb) := by
  refine ⟨?_, ?_, ?_⟩
  · constructor
    · show pf + 1 ≤ m.pfileNum; omega
    · intro f' hf'
      show (d.pfiles.del pf).get? f' = none
      by_cases hff : f' = pf
      · rw [hff]; exact NMap.get?_del_eq _ _
      · rw [NMap.get?_del_ne _ hff]; exact hl.gone f' (by omega)
    · intro f' g1 g2
      show (d.pfiles.del pf).get? f' = _
      rw [NMap.get?_del_ne _ (by omega)]
      exact hl.files f' (by omega) g2
    · intro f' g1 g2; exact hl.ok f' (by omega) g2
    · intro f' g1 g2; exact hl.starts f' (by omega) g2
  · rintro blk body' ⟨f', lp', e1, e2, e3, e4, e5⟩
    have : f' ≠ pf := by
      rintro rfl
      rw [hempty] at e4
      cases e4
    exact ⟨f', lp', e1, by omega, e3, e4, e5⟩
  · intro fb hfb
    apply freeLoc_mono hfb (by omega)
    intro f' lp' g1 g2 hst
    by_cases hff : f' = pf
    · left; omega
    · right; exact hst

end

end Sth
