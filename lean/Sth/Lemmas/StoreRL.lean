/-
Record-list invariant over an abstract owner function (generalisation of `LInv` from
Sth/Lemmas/RecordList.lean and of the lemmas of Sth/Lemmas/IndexOps.lean): the full stripped key an
entry points at is given by `own : Block → Option Key` instead of an in-memory primary list.
Core Lean only.
-/
import Sth.Lemmas.RecordList
import Sth.Lemmas.IndexOps

namespace Sth

structure OInv (own : Block → Option Key) (rl : RecordList) : Prop where
  sorted : (rl.map (·.pfx)).Pairwise klt
  prefixFree : (rl.map (·.pfx)).Pairwise apart
  ownPrefix : ∀ e ∈ rl, ∃ k, own e.blk = some k ∧ pfx e.pfx k ∧ e.pfx ≠ []
  distinctBlocks : (rl.map (·.blk)).Nodup

theorem OInv.sep {own : Block → Option Key} {rl : RecordList} (h : OInv own rl) :
    (rl.map (·.pfx)).Pairwise Sth.sep :=
  List.pairwise_and_iff.mpr ⟨h.sorted, h.prefixFree⟩

theorem OInv.mk' {own : Block → Option Key} {rl : RecordList}
    (hsep : (rl.map (·.pfx)).Pairwise Sth.sep)
    (hown : ∀ e ∈ rl, ∃ k, own e.blk = some k ∧ pfx e.pfx k ∧ e.pfx ≠ [])
    (hnd : (rl.map (·.blk)).Nodup) : OInv own rl :=
  have := List.pairwise_and_iff.mp hsep
  ⟨this.1, this.2, hown, hnd⟩

theorem OInv.nil (own : Block → Option Key) : OInv own [] :=
  ⟨by simp, by simp, by simp, by simp⟩

/-- the invariant only looks at `own` on the blocks of the list -/
theorem OInv.congr {own own' : Block → Option Key} {rl : RecordList}
    (hc : ∀ e ∈ rl, ∀ k, own e.blk = some k → own' e.blk = some k) (h : OInv own rl) : OInv own' rl :=
  ⟨h.sorted, h.prefixFree, fun e he => by
    obtain ⟨k, h1, h2⟩ := h.ownPrefix e he
    exact ⟨k, hc e he k h1, h2⟩, h.distinctBlocks⟩

theorem OInv.left_of {own : Block → Option Key} {pre post : RecordList} {e : Entry}
    (h : OInv own (pre ++ e :: post)) : ∀ x ∈ pre, Sth.sep x.pfx e.pfx := by
  intro x hx
  have hs := h.sep
  rw [List.map_append, List.pairwise_append] at hs
  exact hs.2.2 x.pfx (List.mem_map_of_mem hx) e.pfx (by simp)

theorem OInv.right_of {own : Block → Option Key} {pre post : RecordList} {e : Entry}
    (h : OInv own (pre ++ e :: post)) : ∀ y ∈ post, Sth.sep e.pfx y.pfx := by
  intro y hy
  have hs := h.sep
  rw [List.map_append, List.pairwise_append, List.map_cons, List.pairwise_cons] at hs
  exact hs.2.1.1 y.pfx (List.mem_map_of_mem hy)

theorem OInv.own_pfx {own : Block → Option Key} {rl : RecordList} {e : Entry} {k : Key}
    (h : OInv own rl) (he : e ∈ rl) (hk : own e.blk = some k) : pfx e.pfx k ∧ e.pfx ≠ [] := by
  obtain ⟨k', h1, h2⟩ := h.ownPrefix e he
  rw [hk] at h1
  cases h1
  exact h2

theorem OInv.sublist {own : Block → Option Key} {rl rl' : RecordList} (hs : rl'.Sublist rl)
    (h : OInv own rl) : OInv own rl' :=
  ⟨h.sorted.sublist (hs.map _), h.prefixFree.sublist (hs.map _),
    fun e he => h.ownPrefix e (hs.subset he), h.distinctBlocks.sublist (hs.map _)⟩

/-- lookup: an entry is found by the full key it owns -/
theorem OInv.getRec_owner {own : Block → Option Key} {pre post : RecordList} {e : Entry} {k : Key}
    (h : OInv own (pre ++ e :: post)) (hk : own e.blk = some k) :
    getRec (pre ++ e :: post) k = some (pre.length, e) := by
  have hek : pfx e.pfx k := (h.own_pfx (by simp) hk).1
  apply getRec_split k pre post e _ hek
  · intro y hy hyk
    have := (h.right_of y hy).2
    rcases pfx_comparable hek hyk with c | c
    · exact this.1 c
    · exact this.2 c
  · intro x hx
    have hx' := h.left_of x hx
    constructor
    · intro hxk
      rcases pfx_comparable hxk hek with c | c
      · exact hx'.2.1 c
      · exact hx'.2.2 c
    · exact klt_asymm (ext_left hx'.1 hx'.2 hek).1

/-- two entries owning the same key are the same entry -/
theorem OInv.owner_unique {own : Block → Option Key} {rl : RecordList} {e e' : Entry} {k : Key}
    (h : OInv own rl) (he : e ∈ rl) (he' : e' ∈ rl) (hk : own e.blk = some k)
    (hk' : own e'.blk = some k) : e = e' := by
  obtain ⟨pre, post, rfl⟩ := List.append_of_mem he
  have hek : pfx e.pfx k := (h.own_pfx (by simp) hk).1
  have hek' : pfx e'.pfx k := (h.own_pfx he' hk').1
  simp only [List.mem_append, List.mem_cons] at he'
  rcases he' with hm | rfl | hm
  · have := (h.left_of e' hm).2
    rcases pfx_comparable hek' hek with c | c
    · exact absurd c this.1
    · exact absurd c this.2
  · rfl
  · have := (h.right_of e' hm).2
    rcases pfx_comparable hek hek' with c | c
    · exact absurd c this.1
    · exact absurd c this.2

theorem OInv.replace {own : Block → Option Key} {pre post : RecordList} {p : Entry}
    (zs : List Entry) (h : OInv own (pre ++ p :: post))
    (hz : ∀ z ∈ zs, pfx p.pfx z.pfx ∧ ∃ k, own z.blk = some k ∧ pfx z.pfx k ∧ z.pfx ≠ [])
    (hzs : (zs.map (·.pfx)).Pairwise Sth.sep)
    (hnd : ((pre ++ zs ++ post).map (·.blk)).Nodup) :
    OInv own (pre ++ zs ++ post) := by
  apply OInv.mk'
  · have hs := h.sep
    simp only [List.map_append, List.map_cons] at hs ⊢
    apply pairwise_replace hs hzs
    · intro x _ hxp z hzm
      obtain ⟨z', hz', rfl⟩ := List.mem_map.mp hzm
      exact ext_left hxp.1 hxp.2 (hz z' hz').1
    · intro y _ hpy z hzm
      obtain ⟨z', hz', rfl⟩ := List.mem_map.mp hzm
      exact ext_right hpy.1 hpy.2 (hz z' hz').1
  · intro e he
    simp only [List.mem_append] at he
    rcases he with (he | he) | he
    · exact h.ownPrefix e (by simp [he])
    · exact (hz e he).2
    · exact h.ownPrefix e (by simp [he])
  · exact hnd

theorem OInv.insert {own : Block → Option Key} {les gts : RecordList} (x : Entry)
    (h : OInv own (les ++ gts))
    (hown : ∃ k, own x.blk = some k ∧ pfx x.pfx k ∧ x.pfx ≠ [])
    (hl : ∀ p, les.getLast? = some p → klt p.pfx x.pfx ∧ apart p.pfx x.pfx)
    (hr : ∀ n, gts.head? = some n → klt x.pfx n.pfx ∧ apart x.pfx n.pfx)
    (hnd : x.blk ∉ (les ++ gts).map (·.blk)) :
    OInv own (les ++ x :: gts) ∧
      ((les ++ x :: gts).map (·.blk)).Perm (x.blk :: (les ++ gts).map (·.blk)) := by
  have hs := h.sorted
  have hp := h.prefixFree
  rw [List.map_append] at hs hp
  have key := insert_ok (les.map (·.pfx)) (gts.map (·.pfx)) x.pfx hs hp
    (by
      intro p hp'
      rw [List.getLast?_map] at hp'
      cases hl' : les.getLast? with
      | none => simp [hl'] at hp'
      | some q =>
        simp [hl'] at hp'
        subst hp'
        exact hl q hl')
    (by
      intro n hn'
      rw [List.head?_map] at hn'
      cases hr' : gts.head? with
      | none => simp [hr'] at hn'
      | some q =>
        simp [hr'] at hn'
        subst hn'
        exact hr q hr')
  have hperm : ((les ++ x :: gts).map (·.blk)).Perm (x.blk :: (les ++ gts).map (·.blk)) := by
    simp only [List.map_append, List.map_cons]
    exact List.perm_middle
  refine ⟨⟨?_, ?_, ?_, ?_⟩, hperm⟩
  · simpa only [List.map_append, List.map_cons] using key.1
  · simpa only [List.map_append, List.map_cons] using key.2
  · intro e he
    simp only [List.mem_append, List.mem_cons] at he
    rcases he with he | rfl | he
    · exact h.ownPrefix e (by simp [he])
    · exact hown
    · exact h.ownPrefix e (by simp [he])
  · rw [hperm.nodup_iff, List.nodup_cons]
    exact ⟨hnd, h.distinctBlocks⟩

/-! ### Put of a key that already owns an entry: no-op -/

theorem indexPut_present' {own : Block → Option Key} {pre post : RecordList} {e : Entry} {k : Key}
    (full : Block → FullKey) (loc : Block)
    (h : OInv own (pre ++ e :: post)) (hk : own e.blk = some k)
    (hfull : full e.blk = .ok k) :
    indexPut full (some (pre ++ e :: post)) k loc = .noop := by
  have hek : pfx e.pfx k := (h.own_pfx (by simp) hk).1
  have hpos : findPos (pre ++ e :: post) k = pre.length + 1 := by
    rw [findPos_append k pre _
      (fun x hx => klt_asymm (ext_left (h.left_of x hx).1 (h.left_of x hx).2 hek).1)]
    have hne : ¬ klt k e.pfx := pfx_not_gt hek
    simp only [findPos, hne, if_false]
    cases post with
    | nil => simp [findPos]
    | cons y post' =>
      have hy := h.right_of y (by simp)
      have := (ext_right hy.1 hy.2 hek).1
      simp [findPos, this]
  have hprev : prevOf (pre ++ e :: post) (findPos (pre ++ e :: post) k) = some e := by
    rw [hpos]
    unfold prevOf
    simp
  exact indexPut_prev_noop hprev hek hfull

/-! ### Put of a new key, "trim and insert" branch -/

theorem trimIns_ok' {own : Block → Option Key} {rl : RecordList} {k : Key} {loc : Block}
    (h : OInv own rl) (hk : k ≠ [])
    (hinc : ∀ e ∈ rl, ∀ ko, own e.blk = some ko → apart k ko)
    (hown : own loc = some k) (hfresh : loc ∉ rl.map (·.blk))
    (hprev : ∀ p, prevOf rl (findPos rl k) = some p → ¬ pfx p.pfx k) :
    OInv own (trimIns rl k loc) ∧
      ((trimIns rl k loc).map (·.blk)).Perm (loc :: rl.map (·.blk)) := by
  have hpos := findPos_le rl k
  have hrl : rl.take (findPos rl k) ++ rl.drop (findPos rl k) = rl := List.take_append_drop _ _
  have h' : OInv own (rl.take (findPos rl k) ++ rl.drop (findPos rl k)) := by rw [hrl]; exact h
  have hklen : 0 < k.length := List.length_pos_iff.mpr hk
  generalize ht : min (max (nbrL rl (findPos rl k) k) (nbrR rl (findPos rl k) k)) (k.length - 1) = t
  have e1 : trimIns rl k loc =
      rl.take (findPos rl k) ++ (⟨k.take (t + 1), loc⟩ : Entry) :: rl.drop (findPos rl k) := by
    unfold trimIns putKeys
    rw [ht]
    simp
  rw [e1]
  have res := OInv.insert (⟨k.take (t + 1), loc⟩ : Entry) h'
    ⟨k, hown, pfx_take k _, take_ne_nil hk t⟩
    (by
      intro p hp
      rw [getLast?_take_eq_prevOf rl _ hpos] at hp
      have hpm : p ∈ rl.take (findPos rl k) := prevOf_mem_take hpos hp
      have h1 : ¬ klt k p.pfx := findPos_before rl k p hpm
      have h2 : ¬ pfx p.pfx k := hprev p hp
      have h3 := lt_of_not_gt_not_pfx h1 h2
      have h4 : fncb k p.pfx < k.length := fncb_lt_left h3.2
      have h5 : nbrL rl (findPos rl k) k = fncb k p.pfx := by
        unfold nbrL; rw [hp]
      have h6 : fncb k p.pfx ≤ t := by
        rw [← ht, ← h5]; omega
      exact take_gt_left t h3.1 h2 h6)
    (by
      intro n hn
      rw [List.head?_drop] at hn
      have hnm : n ∈ rl := List.mem_of_getElem? hn
      have h1 : klt k n.pfx := findPos_at rl k n hn
      obtain ⟨nk, hnk, hnp, _⟩ := h.ownPrefix n hnm
      have h2 : ¬ pfx k n.pfx := fun hc => (hinc n hnm nk hnk).1 (pfx_trans hc hnp)
      have h4 : fncb k n.pfx < k.length := fncb_lt_left h2
      have h5 : nbrR rl (findPos rl k) k = fncb k n.pfx := by
        unfold nbrR; rw [hn]
      have h6 : fncb k n.pfx ≤ t := by
        rw [← ht, ← h5]; omega
      exact take_lt_right t h1 h2 h6)
    (by rw [hrl]; exact hfresh)
  rw [hrl] at res
  exact res

/-! ### Put of a new key, "previous is a prefix" branch -/

theorem prefixBranch_ok' {own : Block → Option Key} {pre post : RecordList} {p : Entry}
    {k pk : Key} {loc : Block}
    (h : OInv own (pre ++ p :: post)) (hk : k ≠ [])
    (hpk : own p.blk = some pk) (hpfx : pfx p.pfx k) (hap : apart k pk)
    (hown : own loc = some k)
    (hfresh : loc ∉ (pre ++ p :: post).map (·.blk))
    (zs : List Entry)
    (hzs : zs = if klt (pk.take (fncb k pk + 1)) (k.take (fncb k pk + 1)) then
          [⟨pk.take (fncb k pk + 1), p.blk⟩, ⟨k.take (fncb k pk + 1), loc⟩]
         else [⟨k.take (fncb k pk + 1), loc⟩, ⟨pk.take (fncb k pk + 1), p.blk⟩]) :
    OInv own (pre ++ zs ++ post) ∧
      ((pre ++ zs ++ post).map (·.blk)).Perm (loc :: (pre ++ p :: post).map (·.blk)) := by
  obtain ⟨hppk, hpne⟩ := h.own_pfx (by simp) hpk
  have hpkne : pk ≠ [] := by
    intro hc; subst hc
    cases hq : p.pfx with
    | nil => exact hpne hq
    | cons a as => rw [hq] at hppk; simp [pfx] at hppk
  have hcommon := pfx_take_fncb hpfx hppk
  have hapart := take_fncb_apart hap.1 hap.2
  generalize hK : k.take (fncb k pk + 1) = K at *
  generalize hP : pk.take (fncb k pk + 1) = P at *
  have hKk : pfx K k := by rw [← hK]; exact pfx_take _ _
  have hPk : pfx P pk := by rw [← hP]; exact pfx_take _ _
  have hKne : K ≠ [] := by rw [← hK]; exact take_ne_nil hk _
  have hPne : P ≠ [] := by rw [← hP]; exact take_ne_nil hpkne _
  have hperm : ((pre ++ zs ++ post).map (·.blk)).Perm (loc :: (pre ++ p :: post).map (·.blk)) := by
    rw [hzs]
    split
    · have e : (pre ++ [(⟨P, p.blk⟩ : Entry), ⟨K, loc⟩] ++ post).map (·.blk) =
          (pre.map (·.blk) ++ [p.blk]) ++ loc :: post.map (·.blk) := by simp
      rw [e]
      refine List.perm_middle.trans ?_
      simp
    · have e : (pre ++ [(⟨K, loc⟩ : Entry), ⟨P, p.blk⟩] ++ post).map (·.blk) =
          pre.map (·.blk) ++ loc :: (p.blk :: post.map (·.blk)) := by simp
      rw [e]
      refine List.perm_middle.trans ?_
      simp
  refine ⟨?_, hperm⟩
  apply OInv.replace zs h
  · intro z hz
    have hz' : z = ⟨P, p.blk⟩ ∨ z = ⟨K, loc⟩ := by
      rw [hzs] at hz
      split at hz <;> simp at hz <;> rcases hz with rfl | rfl <;> simp
    rcases hz' with rfl | rfl
    · exact ⟨hcommon.2, pk, hpk, hPk, hPne⟩
    · exact ⟨hcommon.1, k, hown, hKk, hKne⟩
  · rw [hzs]
    split
    · rename_i hlt
      simp only [List.map_cons, List.map_nil, List.pairwise_cons, List.mem_singleton,
        forall_eq, List.not_mem_nil, false_imp_iff, implies_true, List.Pairwise.nil, and_true]
      exact ⟨hlt, apart_symm hapart⟩
    · rename_i hnlt
      simp only [List.map_cons, List.map_nil, List.pairwise_cons, List.mem_singleton,
        forall_eq, List.not_mem_nil, false_imp_iff, implies_true, List.Pairwise.nil, and_true]
      exact ⟨(lt_of_not_gt_not_pfx hnlt hapart.1).1, hapart⟩
  · rw [hperm.nodup_iff, List.nodup_cons]
    exact ⟨hfresh, h.distinctBlocks⟩

/-! ### Put of a key that owns no entry -/

theorem indexPut_absent' {own : Block → Option Key} {rl : RecordList} {k : Key} {loc : Block}
    (full : Block → FullKey)
    (h : OInv own rl) (hk : k ≠ [])
    (hinc : ∀ e ∈ rl, ∀ ko, own e.blk = some ko → apart k ko)
    (hown : own loc = some k) (hfresh : loc ∉ rl.map (·.blk))
    (hfull : ∀ e ∈ rl, ∀ ko, own e.blk = some ko → full e.blk = .ok ko) :
    ∃ rl', indexPut full (some rl) k loc = .set rl' ∧ OInv own rl' ∧
      (rl'.map (·.blk)).Perm (loc :: rl.map (·.blk)) := by
  have hpos := findPos_le rl k
  cases hprev : prevOf rl (findPos rl k) with
  | none =>
    exact ⟨_, indexPut_prev_none hprev,
      trimIns_ok' h hk hinc hown hfresh (by intro p hp; rw [hprev] at hp; cases hp)⟩
  | some p =>
    by_cases hp : pfx p.pfx k
    · have hmem : p ∈ rl := List.mem_of_mem_take (prevOf_mem_take hpos hprev)
      have hpos0 : findPos rl k ≠ 0 := by
        intro h0; simp [prevOf, h0] at hprev
      have hidx : rl[findPos rl k - 1]? = some p := by
        simpa [prevOf, hpos0] using hprev
      have hsplit := split_at hidx
      have hsucc : findPos rl k - 1 + 1 = findPos rl k := by omega
      rw [hsucc] at hsplit
      obtain ⟨pk, hpk, _, _⟩ := h.ownPrefix p hmem
      have hap := hinc p hmem pk hpk
      have hf := hfull p hmem pk hpk
      have h1 := fncb_lt_left hap.1
      have h2 := fncb_lt_right hap.2
      refine ⟨_, indexPut_prev_split hprev hp hf h1 h2, ?_⟩
      unfold putKeys
      have h' : OInv own (rl.take (findPos rl k - 1) ++ p :: rl.drop (findPos rl k)) := by
        rw [← hsplit]; exact h
      have res := prefixBranch_ok' h' hk hpk hp hap hown (by rw [← hsplit]; exact hfresh) _ rfl
      rw [← hsplit] at res
      exact res
    · exact ⟨_, indexPut_prev_not_pfx hprev hp,
        trimIns_ok' h hk hinc hown hfresh
          (by intro q hq; rw [hprev] at hq; cases hq; exact hp)⟩

/-- Put into a bucket that was never written -/
theorem indexPut_none_ok' {own : Block → Option Key} {k : Key} {loc : Block} (full : Block → FullKey)
    (hk : k ≠ []) (hown : own loc = some k) :
    indexPut full none k loc = .set [⟨k.take 1, loc⟩] ∧ OInv own [⟨k.take 1, loc⟩] := by
  refine ⟨rfl, ⟨by simp, by simp, ?_, by simp⟩⟩
  intro e he
  simp only [List.mem_singleton] at he
  subst he
  exact ⟨k, hown, pfx_take k 1, take_ne_nil hk 0⟩

/-! ### Update / Remove of a key that owns an entry -/

theorem indexUpdate_ok' {own : Block → Option Key} {pre post : RecordList} {e : Entry} {k : Key}
    {loc : Block} (h : OInv own (pre ++ e :: post)) (hk : own e.blk = some k)
    (hown : own loc = some k)
    (hfresh : loc ∉ (pre ++ e :: post).map (·.blk)) :
    indexUpdate (some (pre ++ e :: post)) k loc = some (pre ++ ⟨e.pfx, loc⟩ :: post) ∧
      OInv own (pre ++ ⟨e.pfx, loc⟩ :: post) := by
  constructor
  · unfold indexUpdate
    simp only [h.getRec_owner hk, putKeys_split]
    simp
  · have hek := h.own_pfx (by simp) hk
    have e1 : pre ++ (⟨e.pfx, loc⟩ : Entry) :: post = pre ++ [⟨e.pfx, loc⟩] ++ post := by simp
    rw [e1]
    apply OInv.replace [⟨e.pfx, loc⟩] h
    · intro z hz
      simp only [List.mem_singleton] at hz
      subst hz
      exact ⟨pfx_refl _, k, hown, hek.1, hek.2⟩
    · simp
    · have hperm : ((pre ++ [(⟨e.pfx, loc⟩ : Entry)] ++ post).map (·.blk)).Perm
          (loc :: (pre ++ post).map (·.blk)) := by
        simp only [List.map_append, List.map_cons, List.append_assoc, List.singleton_append]
        exact List.perm_middle
      rw [hperm.nodup_iff, List.nodup_cons]
      have hsub : (pre ++ post).Sublist (pre ++ e :: post) :=
        (List.sublist_cons_self e post).append_left pre
      refine ⟨fun hm => hfresh ((hsub.map _).subset hm), h.distinctBlocks.sublist (hsub.map _)⟩

theorem indexRemove_ok' {own : Block → Option Key} {pre post : RecordList} {e : Entry} {k : Key}
    (h : OInv own (pre ++ e :: post)) (hk : own e.blk = some k) :
    indexRemove (some (pre ++ e :: post)) k = some (pre ++ post) ∧ OInv own (pre ++ post) := by
  constructor
  · unfold indexRemove
    simp only [h.getRec_owner hk, putKeys_split]
    simp
  · exact h.sublist ((List.sublist_cons_self e post).append_left pre)

end Sth
