import Sth.Lemmas.C04M3

/-! C04, corollaries: any number of GC cycles of either kind is invisible to the next read. -/

namespace Sth

/-- the GC cycles -/
def SOp.isGC : SOp → Bool
  | .igc .. => true
  | .pgc .. => true
  | _ => false

theorem GcCountersOK.append : ∀ (l1 l2 : List SOp) (s : SState), GcCountersOK s (l1 ++ l2) →
    GcCountersOK s l1 ∧ GcCountersOK (runS s l1).1 l2
  | [], _, _, h => ⟨trivial, h⟩
  | op :: l1, l2, s, ⟨h1, h2⟩ => by
    obtain ⟨a, b⟩ := GcCountersOK.append l1 l2 _ h2
    exact ⟨⟨h1, a⟩, by rw [runS_cons_fst]; exact b⟩

theorem specRun_gcs (kind : PKind) (imm : Bool) : ∀ (gcs : List SOp) (spec : Spec),
    (∀ g ∈ gcs, g.isGC = true) → (specRun kind imm spec gcs).1 = spec
  | [], _, _ => rfl
  | g :: gcs, spec, h => by
    rw [specRun_cons_fst]
    have hg := h g (by simp)
    have : (specStep kind imm spec g).1 = spec := by
      cases g <;> first | rfl | cases hg
    rw [this]
    exact specRun_gcs kind imm gcs spec (fun x hx => h x (by simp [hx]))

theorem gcs_bytes : ∀ (gcs : List SOp), (∀ g ∈ gcs, g.isGC = true) → (gcs.map SOp.bytes).sum = 0
  | [], _ => rfl
  | g :: gcs, h => by
    simp only [List.map_cons, List.sum_cons]
    rw [gcs_bytes gcs (fun x hx => h x (by simp [hx]))]
    have hg := h g (by simp)
    cases g <;> first | rfl | cases hg

theorem gc_keyOf {g : SOp} (h : g.isGC = true) : g.keyOf = none := by
  cases g <;> first | rfl | cases h

/-- On a multihash store, in the state after any history, ANY sequence of GC cycles — index and primary,
    each complete or cut short at any poll — leaves the answer of every read unchanged.  (In
    particular a second cycle after a first, or a cycle resumed after an interrupted one, changes no
    content.) -/
theorem gc_cycles_invisible (c : Cfg) (hc : c.Legal) (hmh : c.kind = .mh) (ops gcs : List SOp)
    (op : SOp) (hg : ∀ g ∈ gcs, g.isGC = true)
    (hop : (∃ key, op = .get key) ∨ (∃ key, op = .has key) ∨ (∃ key, op = .size key))
    (hk : KeysOK c.kind (ops ++ [op])) (hs : SizesOK (ops ++ [op])) (s0 : SState)
    (hi : initS c = some s0) (hb : GcCountersOK s0 (ops ++ gcs)) :
    (stepS (runS (runS s0 ops).1 gcs).1 op).2 = (stepS (runS s0 ops).1 op).2 := by
  have hU := univ_of_keysOK hk (keysExact_all c.kind (ops ++ [op]))
  obtain ⟨hb1, hb2⟩ := GcCountersOK.append ops gcs s0 hb
  have hsum : (ops.map SOp.bytes).sum < two31 := by
    have := hs.2.1
    simp only [List.map_append, List.sum_append] at this
    omega
  obtain ⟨_, n1, hG1⟩ := run_g hc hU ops s0 [] 0 0 (ginv_init hc hmh hi)
    (fun o ho k hkey dig hcls => mem_digestsOf (List.mem_append_left _ ho) hkey hcls) hb1
    (by omega)
  obtain ⟨_, n2, hG2⟩ := run_g hc hU gcs (runS s0 ops).1 _ n1 _ hG1
    (fun o ho k hkey => by rw [gc_keyOf (hg o ho)] at hkey; cases hkey) hb2
    (by rw [gcs_bytes gcs hg]; omega)
  rw [specRun_gcs c.kind c.imm gcs _ hg] at hG2
  have hkey : ∀ k, op.keyOf = some k → ∀ dig, keyClass c.kind k = .ok dig →
      (k, dig) ∈ digestsOf c.kind (ops ++ [op]) :=
    fun k hk' dig hcls => mem_digestsOf (List.mem_append_right _ (by simp)) hk' hcls
  obtain ⟨r1, _⟩ := step_read_g hU hG1 op hop hkey
  obtain ⟨r2, _⟩ := step_read_g hU hG2 op hop hkey
  rw [r1, r2]

/-- the special case of one primary GC cycle -/
theorem pgc_stutters_reachable (c : Cfg) (hc : c.Legal) (hmh : c.kind = .mh) (ops : List SOp)
    (op : SOp) (lowUse : Nat) (budget : Budget)
    (hop : (∃ key, op = .get key) ∨ (∃ key, op = .has key) ∨ (∃ key, op = .size key))
    (hk : KeysOK c.kind (ops ++ [op])) (hs : SizesOK (ops ++ [op])) (s0 : SState)
    (hi : initS c = some s0) (hb : GcCountersOK s0 (ops ++ [.pgc lowUse budget])) :
    (stepS (stepS (runS s0 ops).1 (.pgc lowUse budget)).1 op).2 = (stepS (runS s0 ops).1 op).2 := by
  have := gc_cycles_invisible c hc hmh ops [.pgc lowUse budget] op
    (fun g hg => by simp only [List.mem_singleton] at hg; subst hg; rfl) hop hk hs s0 hi hb
  rw [runS_cons_fst] at this
  exact this

theorem GcCountersOK.join : ∀ (l1 l2 : List SOp) (s : SState), GcCountersOK s l1 →
    GcCountersOK (runS s l1).1 l2 → GcCountersOK s (l1 ++ l2)
  | [], _, _, _, h => h
  | op :: l1, l2, s, ⟨h1, h2⟩, h => by
    rw [runS_cons_fst] at h
    exact ⟨h1, GcCountersOK.join l1 l2 _ h2 h⟩

/-- running a GC cycle twice leaves the same contents as running it once -/
theorem gc_idempotent_on_contents (c : Cfg) (hc : c.Legal) (hmh : c.kind = .mh) (ops : List SOp)
    (g op : SOp) (hg : g.isGC = true)
    (hop : (∃ key, op = .get key) ∨ (∃ key, op = .has key) ∨ (∃ key, op = .size key))
    (hk : KeysOK c.kind (ops ++ [op])) (hs : SizesOK (ops ++ [op])) (s0 : SState)
    (hi : initS c = some s0) (hb : GcCountersOK s0 (ops ++ [g, g])) :
    (stepS (runS (runS s0 ops).1 [g, g]).1 op).2 = (stepS (runS (runS s0 ops).1 [g]).1 op).2 := by
  obtain ⟨hb1, hb2, _⟩ := GcCountersOK.append ops [g, g] s0 hb
  have hb' : GcCountersOK s0 (ops ++ [g]) := GcCountersOK.join ops [g] s0 hb1 ⟨hb2, trivial⟩
  rw [gc_cycles_invisible c hc hmh ops [g, g] op
      (fun x hx => by
        simp only [List.mem_cons, List.not_mem_nil, or_false, or_self] at hx
        subst hx; exact hg) hop hk hs s0 hi hb,
    gc_cycles_invisible c hc hmh ops [g] op
      (fun x hx => by simp only [List.mem_singleton] at hx; subst hx; exact hg) hop hk hs s0 hi hb']

end Sth
