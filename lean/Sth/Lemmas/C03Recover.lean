/-
C03 — OpenStore (with freelist repair) on a disk whose index files are a log with torn tails, and what
the recovered state observes: every bucket reads the record list it had at the last flush or the one the
interrupted flush was writing.
Core Lean only.
-/
import Sth.Lemmas.C03Scan
import Sth.Lemmas.C03Stream
import Sth.Lemmas.C03Flush

namespace Sth

/-! ### OpenStore on a torn log -/

theorem recover_form (c : Cfg) (hc : c.Legal) (d : Disk) (Pm M : Nat) (lg : Nat → List LRec)
    (junk : Nat → Bytes)
    (hih : d.ihdr = some ⟨c.bits, c.ifs, 0, hdrPfs c⟩) (hsn : d.snap = none)
    (hph : c.kind = .mh → d.phdr = some ⟨c.pfs, 0⟩)
    (hall : c.kind = .mh → ∀ f, f ≤ Pm → d.pfiles.get? f ≠ none)
    (hno : c.kind = .mh → d.pfiles.get? (Pm + 1) = none)
    (hfiles : ∀ f, f ≤ M → d.ifiles.get? f = some (logBytes (lg f) ++ junk f))
    (hnoI : d.ifiles.get? (M + 1) = none)
    (hrec : ∀ f, f ≤ M → ∀ r ∈ lg f, RecLogOK c.bits r)
    (hj : ∀ f, f ≤ M → IsTorn c.bits (junk f)) :
    ∃ cf pfn plen files' fr,
      openStoreR c d = ({ d with free := fr, cidfile := cf, snap := none, ifiles := files' },
        .ok (openMem c (scanTo c.ifs lg M) M (fileOf files' M).length pfn plen)) ∧
      (c.kind = .mh → cf = d.cidfile ∧ pfn = Pm ∧ plen = (fileOf d.pfiles Pm).length) ∧
      (c.kind = .cid → cf = some (d.cidfile.getD []) ∧ pfn = 0 ∧
        plen = (d.cidfile.getD []).length) ∧
      (∀ f, f ≤ M → files'.get? f = some (logBytes (lg f))) ∧
      (∀ f, M < f → files'.get? f = d.ifiles.get? f) := by
  obtain ⟨cf, pfn, plen, files', bk, o1, o2, o3, o4, o5, o6⟩ := openStore_ok c hc (openFreelist d) Pm M
    hph hall hno
    (Q := fun files' bk => bk = scanTo c.ifs lg M ∧
      (∀ f, f ≤ M → files'.get? f = some (logBytes (lg f))) ∧
      (∀ f, M < f → files'.get? f = d.ifiles.get? f))
    (by
      intro dP e1 e2 e3
      obtain ⟨files', q1, q2, q3⟩ := openIndex_torn c hc dP M lg junk (by rw [e1]; exact hih)
        (by rw [e2]; exact hsn) (by rw [e3]; exact hfiles) (by rw [e3]; exact hnoI) hrec hj
      refine ⟨files', _, q1, rfl, q2, ?_⟩
      intro f hf
      rw [q3 f hf, e3]; rfl)
  subst o4
  exact ⟨cf, pfn, plen, files', _, o1, o2, o3, o5, o6⟩

/-! ### what a freshly opened state observes -/

theorem openMem_idxRecords (c : Cfg) (bk : NMap Nat) (N il pfn plen : Nat) (d : Disk) (b : Nat) :
    idxRecords (openMem c bk N il pfn plen) d b =
      readDiskBucket d.ifiles c.ifs ((bk.get? b).getD 0) := rfl

theorem openMem_thr (c : Cfg) (bk : NMap Nat) (N il pfn plen : Nat) :
    thr (openMem c bk N il pfn plen) =
      match c.kind with
      | .mh => hdrPfs c * pfn + plen
      | .cid => plen := rfl

theorem openMem_priGet (c : Cfg) (bk : NMap Nat) (N il pfn plen : Nat) (d : Disk) {blk : Block}
    {k v : Bytes} (ht : thrOK (openMem c bk N il pfn plen) blk)
    (h : diskRead c.kind (hdrPfs c) d blk = .got k v) :
    priGet (openMem c bk N il pfn plen) d blk = .got k v :=
  priGet_of_disk rfl rfl ht h

theorem openMem_priGet_inv (c : Cfg) (bk : NMap Nat) (N il pfn plen : Nat) (d : Disk) {blk : Block}
    {k v : Bytes} (h : priGet (openMem c bk N il pfn plen) d blk = .got k v) :
    diskRead c.kind (hdrPfs c) d blk = .got k v := by
  rw [priGet_eq] at h
  have e0 : poolFind (openMem c bk N il pfn plen).pnext blk = none := rfl
  have e1 : poolFind (openMem c bk N il pfn plen).pcur blk = none := rfl
  simp only [e0, e1] at h
  unfold priDisk at h
  split at h
  · exact h
  · cases h

/-- allocated below an older allocation point: below the threshold of a later one -/
theorem below_thr_mono {m0 m : Mem} {blk : Block} (h : Below m0 blk) (hk : m.kind = m0.kind)
    (hp : m.pmax = m0.pmax)
    (hmh : m0.kind = .mh → m0.precFileNum < m.precFileNum ∨
      (m0.precFileNum = m.precFileNum ∧ m0.precPos ≤ m.precPos))
    (hcid : m0.kind = .cid → m0.precPos ≤ m.precPos) : thrOK m blk := by
  unfold Below at h
  unfold thrOK thr
  rw [hk, hp]
  cases hk0 : m0.kind with
  | mh =>
    simp only [hk0] at h ⊢
    obtain ⟨f, lp, h1, h2, h3⟩ := h
    have hstep : m0.pmax * f + lp < m0.pmax * (f + 1) := by rw [Nat.mul_add]; omega
    rcases hmh hk0 with hlt | ⟨heq, hle⟩
    · have : f + 1 ≤ m.precFileNum := by omega
      have : m0.pmax * (f + 1) ≤ m0.pmax * m.precFileNum := Nat.mul_le_mul_left _ this
      omega
    · rcases h3 with h3 | ⟨h3, h4⟩
      · have : f + 1 ≤ m.precFileNum := by omega
        have : m0.pmax * (f + 1) ≤ m0.pmax * m.precFileNum := Nat.mul_le_mul_left _ this
        omega
      · subst h3
        rw [← heq]
        omega
  | cid =>
    simp only [hk0] at h ⊢
    have := hcid hk0
    omega

theorem below_mono {m0 m : Mem} {blk : Block} (h : Below m0 blk) (hk : m.kind = m0.kind)
    (hp : m.pmax = m0.pmax)
    (hmh : m0.kind = .mh → m0.precFileNum < m.precFileNum ∨
      (m0.precFileNum = m.precFileNum ∧ m0.precPos ≤ m.precPos))
    (hcid : m0.kind = .cid → m0.precPos ≤ m.precPos) : Below m blk := by
  unfold Below at h ⊢
  rw [hk, hp]
  cases hk0 : m0.kind with
  | mh =>
    simp only [hk0] at h ⊢
    obtain ⟨f, lp, h1, h2, h3⟩ := h
    refine ⟨f, lp, h1, h2, ?_⟩
    rcases hmh hk0 with hlt | ⟨heq, hle⟩
    · left; omega
    · rcases h3 with h3 | ⟨h3, h4⟩
      · left; omega
      · right; exact ⟨by omega, by omega⟩
  | cid =>
    simp only [hk0] at h ⊢
    have := hcid hk0
    omega

/-- what the recovered state satisfies besides the observational invariant -/
structure RecInv (c : Cfg) (m : Mem) (d : Disk) (n B : Nat) : Prop where
  kind : m.kind = c.kind
  imm : m.imm = c.imm
  bits : m.bits = c.bits
  p : PInv m d
  i : IInv m d
  x : XInv c ⟨c, m, d⟩
  cnt : Cnt m n B
  inext : m.inext = []

theorem cutImg_sub {fs fs' fi : NMap Bytes} (hext : ∀ f, fs.get? f ≠ none → fs'.get? f ≠ none)
    (hc : CutImg fs fs' fi) : ∀ f, fi.get? f ≠ none → fs'.get? f ≠ none := by
  obtain ⟨nc, h1, h2, h3, h4⟩ := hc
  intro f hf
  rcases Nat.lt_trichotomy f nc with hlt | heq | hgt
  · rw [← h1 f hlt]; exact hf
  · subst heq
    rcases h2 with h2 | ⟨g, t, e1, _⟩
    · rw [h2] at hf; exact hext f hf
    · rw [e1]; simp
  · by_cases hf1 : f = nc + 1
    · subst hf1
      rcases h3 with h3 | ⟨_, _, e3, _⟩
      · rw [h3] at hf; exact hext _ hf
      · exact e3
    · rw [h4 f (by omega)] at hf; exact hext f hf

/-! ### two states that read a bucket alike answer Get alike -/

/-- bucket `b` reads the same record list in both states and every entry resolves to the same record -/
def BucketSame (kind : PKind) (m1 : Mem) (d1 : Disk) (m2 : Mem) (d2 : Disk) (b : Nat) : Prop :=
  ∃ orl, idxRecords m1 d1 b = .ok orl ∧ idxRecords m2 d2 b = .ok orl ∧
    ∀ e ∈ orl.getD [], ∃ k v dig, priGet m1 d1 e.blk = .got k v ∧ priGet m2 d2 e.blk = .got k v ∧
      indexKeyOf kind k = some dig ∧ (Below m2 e.blk → Below m1 e.blk)

theorem rlGet_mem {rl : RecordList} {k : Key} {blk : Block} (h : rlGet rl k = some blk) :
    ∃ e ∈ rl, e.blk = blk := by
  unfold rlGet at h
  cases hr : getRec rl k with
  | none => simp [hr] at h
  | some r =>
    obtain ⟨j, e⟩ := r
    rw [hr] at h
    simp only [Option.map_some, Option.some.injEq] at h
    exact ⟨e, getRec_mem hr, h⟩

theorem storeGet_congr {m1 m2 : Mem} {d1 d2 : Disk} (hk : m1.kind = m2.kind) (hb : m1.bits = m2.bits)
    (key : Bytes)
    (h : ∀ ik b, indexKeyOf m2.kind key = some ik → bucketOfKey m2.bits ik = some b →
      BucketSame m2.kind m1 d1 m2 d2 b) :
    (storeGet m1 d1 key).2 = (storeGet m2 d2 key).2 := by
  unfold storeGet
  rw [hk]
  cases hik : indexKeyOf m2.kind key with
  | none => rfl
  | some ik =>
    simp only
    unfold idxGet
    rw [hb]
    cases hbk : bucketOfKey m2.bits ik with
    | none => rfl
    | some b =>
      simp only
      obtain ⟨orl, r1, r2, r3⟩ := h ik b hik hbk
      rw [r1, r2]
      cases orl with
      | none => rfl
      | some rl =>
        simp only
        cases hg : rlGet rl ((stripKey m2.bits ik).getD []) with
        | none => rfl
        | some blk =>
          simp only
          obtain ⟨e, he, rfl⟩ := rlGet_mem hg
          obtain ⟨k, v, dig, p1, p2, p3, _⟩ := r3 e (by simpa using he)
          unfold getPrimaryKeyData
          simp only [p1, p2, hk, p3]
          by_cases hdi : dig = ik
          · simp only [hdi, if_true]
          · simp only [hdi, if_false]

/-! ### primary reads of the recovered state -/

/-- a record the old recovered state reads is read by a state recovered from a disk whose primary
    files extend the old ones -/
theorem pri_old {c : Cfg} {dO dR : Disk} {bkO bkR : NMap Nat} {NO NR ilO ilR pfnO plenO pfnR plenR : Nat}
    {blk : Block} {k v : Bytes}
    (hb : Below (openMem c bkO NO ilO pfnO plenO) blk)
    (hg : priGet (openMem c bkO NO ilO pfnO plenO) dO blk = .got k v)
    (hmh : c.kind = .mh → FilesExt dO.pfiles dR.pfiles ∧
      (pfnO < pfnR ∨ (pfnO = pfnR ∧ plenO ≤ plenR)))
    (hcid : c.kind = .cid → ∃ file g, dO.cidfile = some file ∧ dR.cidfile = some (file ++ g) ∧
      plenO ≤ plenR) :
    priGet (openMem c bkR NR ilR pfnR plenR) dR blk = .got k v := by
  have hd := openMem_priGet_inv c bkO NO ilO pfnO plenO dO hg
  apply openMem_priGet
  · apply below_thr_mono (m := openMem c bkR NR ilR pfnR plenR) hb rfl rfl
    · intro hk
      exact (hmh hk).2
    · intro hk
      obtain ⟨_, _, _, _, h⟩ := hcid hk
      exact h
  · rcases (by cases c.kind <;> simp : c.kind = .mh ∨ c.kind = .cid) with hk | hk
    · rw [hk] at hd ⊢
      exact diskRead_mh_mono (hmh hk).1 hd
    · rw [hk] at hd ⊢
      obtain ⟨file, g, h1, h2, _⟩ := hcid hk
      exact diskRead_cid_mono h1 h2 hd

/-- a record the flushed state reads is read by a state recovered from a disk with the same primary
    files -/
theorem pri_new {c : Cfg} {m2 : Mem} {d2 dR : Disk} (hP : PInv m2 d2) (hpn : m2.pnext = [])
    (hk2 : m2.kind = c.kind) (hpm : m2.pmax = hdrPfs c) {bkR : NMap Nat} {NR ilR pfnR plenR : Nat}
    {blk : Block} {k v : Bytes}
    (hmh : c.kind = .mh → (∀ f, dR.pfiles.get? f = d2.pfiles.get? f) ∧ pfnR = m2.pfileNum ∧
      plenR = m2.plength)
    (hcid : c.kind = .cid → dR.cidfile = some (d2.cidfile.getD []) ∧
      plenR = (d2.cidfile.getD []).length)
    (hg : priGet m2 d2 blk = .got k v) :
    priGet (openMem c bkR NR ilR pfnR plenR) dR blk = .got k v := by
  obtain ⟨ht, hd⟩ := priGet_disk_of_got hP hpn hg
  rw [hk2, hpm] at hd
  apply openMem_priGet
  · unfold thrOK at ht ⊢
    rw [openMem_thr]
    unfold thr at ht
    rw [hk2, hpm] at ht
    rcases (by cases c.kind <;> simp : c.kind = .mh ∨ c.kind = .cid) with hk | hk
    · simp only [hk] at ht ⊢
      obtain ⟨_, e1, e2⟩ := hmh hk
      have ha := (hP.mh (by rw [hk2]; exact hk)).1
      rw [hpn] at ha
      obtain ⟨a1, a2⟩ := ha
      rw [e1, e2, a1, a2]
      exact ht
    · simp only [hk] at ht ⊢
      obtain ⟨_, e2⟩ := hcid hk
      have ha := hP.cid (by rw [hk2]; exact hk)
      rw [hpn] at ha
      have ha' : (d2.cidfile.getD []).length = m2.precPos := ha
      rw [e2, ha']
      exact ht
  · rcases (by cases c.kind <;> simp : c.kind = .mh ∨ c.kind = .cid) with hk | hk
    · rw [hk] at hd ⊢
      have hext : FilesExt d2.pfiles dR.pfiles := by
        intro f file hf
        exact ⟨[], by rw [(hmh hk).1 f, hf, List.append_nil]⟩
      exact diskRead_mh_mono hext hd
    · rw [hk] at hd ⊢
      cases hcf : d2.cidfile with
      | none => unfold diskRead at hd; simp [hcf] at hd
      | some file =>
        have h2 : dR.cidfile = some (file ++ []) := by
          rw [(hcid hk).1, hcf]; simp
        exact diskRead_cid_mono hcf h2 hd

theorem contig_unique {fs : NMap Bytes} {A B : Nat} (hA : ∀ f, f ≤ A → fs.get? f ≠ none)
    (hA' : fs.get? (A + 1) = none) (hB : ∀ f, f ≤ B → fs.get? f ≠ none)
    (hB' : fs.get? (B + 1) = none) : A = B := by
  rcases Nat.lt_trichotomy A B with h | h | h
  · exact absurd hA' (hB _ (by omega))
  · exact h
  · exact absurd hB' (hA _ (by omega))

/-! ### the core: every bucket of the state recovered from a crash image is old or new -/

section
variable {c : Cfg} {U : List (Bytes × Bytes)} {s : SState} {spec specD : Spec} {n B : Nat}

theorem crash_core (hc : c.Legal) (hU : Univ c.kind U) (hI : Inv c U s spec n B) (hX : XInv c s)
    (hD : DiskWF s.d) (hn : n < 1073741824) (hB : B < two31) {dOld : Disk} {mOld : Mem}
    (hold : openStoreR c s.d = (dOld, .ok mOld)) (hAold : SInv U mOld dOld specD)
    (order : List Nat) (fr : Option Bytes) (hF : OptExt s.d.free fr) (k : Nat) (early : Bool) :
    ∃ m1 d1 m2 d2, priFlush s.m s.d = some (m1, d1) ∧
      idxFlush m1 d1 (fixOrder order s.m.inext.keys) = (m2, d2) ∧
      ∃ dr mr, ∃ newB : List Nat,
        openStoreR c (crashImage s.d (appendStream s.d { d2 with free := fr }) k early) =
          (dr, .ok mr) ∧ RecInv c mr dr n B ∧
        ∀ b, (b ∉ newB → BucketSame c.kind mr dr mOld dOld b) ∧
          (b ∈ newB → BucketSame c.kind mr dr m2 d2 b) := by
  obtain ⟨m1, d1, m2, d2, lg, p1, i1, hI2, hX2, hin, hpn, _, hR, hP, hd2, sP, sC, ⟨PI', sI⟩, smh, scid,
    hl, himg, hD2⟩ := flush_parts hU hI hX hD hn hB order
  refine ⟨m1, d1, m2, d2, p1, i1, ?_⟩
  have hd2p : d2.pfiles = d1.pfiles := by
    have := congrArg Disk.pfiles hd2; exact this
  have hd2c : d2.cidfile = d1.cidfile := by
    have := congrArg Disk.cidfile hd2; exact this
  have hd' : ({ d2 with free := fr } : Disk) =
      { s.d with pfiles := d1.pfiles, cidfile := d1.cidfile, ifiles := d2.ifiles, free := fr } := by
    conv => lhs; rw [hd2]
  obtain ⟨fiP, cf, fiI, fr', hEq, cP, cC, cI, _, hphase, _⟩ :=
    crashImage_form s.d d1.pfiles d1.cidfile d2.ifiles fr sP sC (Or.inr ⟨_, _, sI⟩) hF k early
  rw [hd', hEq]
  have hbits : s.m.bits = c.bits := hX.bits
  have hkind : s.m.kind = c.kind := hI.kind
  have hk2 : m2.kind = c.kind := hI2.kind
  have hIp2 : PInv m2 d2 := hI2.p
  have hIi2 : IInv m2 d2 := hI2.i
  have hcnt2 : Cnt m2 n B := hI2.cnt
  -- the recovery of the old disk, explicitly
  obtain ⟨cfO, pfnO, plenO, filesO, frO, eqO, oO2, oO3, oO5, oO6⟩ :=
    recover_form c hc s.d s.m.pfileNum s.m.ifileNum lg (fun _ => []) hX.ihdr hD.snap hX.phdr hX.pall
      (fun hk => (hI.p.mh (by rw [hkind]; exact hk)).2.2 _ (by omega))
      (fun f hf => by rw [hl.files f hf, List.append_nil]) (hI.i.noFiles _ (by omega))
      (fun f hf r hr => by rw [← hbits]; exact hl.recs f hf r hr) (fun _ _ => isTorn_nil _)
  rw [eqO] at hold
  simp only [Prod.mk.injEq, Except.ok.injEq] at hold
  obtain ⟨rfl, rfl⟩ := hold
  have hcongr : ∀ f, filesO.get? f = s.d.ifiles.get? f := by
    intro f
    rcases Nat.lt_or_ge s.m.ifileNum f with h | h
    · exact oO6 f h
    · rw [oO5 f h, hl.files f h]
  -- the index files of the image
  have hidx : ∃ (M : Nat) (lgI : Nat → List LRec) (junk : Nat → Bytes) (blks : List (Nat × Nat)),
      (∀ f, f ≤ M → fiI.get? f = some (logBytes (lgI f) ++ junk f)) ∧
      (∀ f, M < f → fiI.get? f = none) ∧
      (∀ f, f ≤ M → ∀ r ∈ lgI f, RecLogOK c.bits r) ∧ (∀ f, IsTorn c.bits (junk f)) ∧
      scanTo c.ifs lgI M = setAll (scanTo c.ifs lg s.m.ifileNum) blks ∧
      (∀ files' : NMap Bytes, (∀ f, f ≤ M → files'.get? f = some (logBytes (lgI f))) →
        FilesExt s.d.ifiles files' ∧
        ∀ x ∈ blks, ∃ rl, s.m.inext.get? x.1 = some rl ∧
          readDiskBucket files' c.ifs x.2 = .ok (some rl)) ∧
      (blks = [] ∨ ((∀ n, fiP.get? n = d1.pfiles.get? n) ∧ cf = d1.cidfile)) := by
    rcases hphase with hlit | hpc
    · refine ⟨s.m.ifileNum, lg, fun _ => [], [], ?_, ?_, ?_, fun _ => isTorn_nil _, rfl, ?_, Or.inl rfl⟩
      · intro f hf; rw [hlit, hl.files f hf, List.append_nil]
      · intro f hf; rw [hlit]; exact hI.i.noFiles _ hf
      · intro f hf r hr; rw [← hbits]; exact hl.recs f hf r hr
      · intro files' hf'
        refine ⟨?_, by simp⟩
        intro f file hfile
        have hff : f ≤ s.m.ifileNum := by
          rcases Nat.lt_or_ge s.m.ifileNum f with h | h
          · rw [hI.i.noFiles f h] at hfile; cases hfile
          · exact h
        rw [hl.files f hff] at hfile
        cases hfile
        exact ⟨[], by rw [hf' f hff, List.append_nil]⟩
    · obtain ⟨M, lgI, junk, blks, g1, g2, g3, g4, g5, g6⟩ := himg fiI cI
      exact ⟨M, lgI, junk, blks, g1, g2, g3, g4, g5, g6, Or.inr hpc⟩
  obtain ⟨M, lgI, junk, blks, g1, g2, g3, g4, g5, g6, hblk⟩ := hidx
  -- the primary files of the image
  have hPm : ∃ Pm, c.kind = .mh → s.m.pfileNum ≤ Pm ∧ Pm ≤ m2.pfileNum ∧
      (∀ f, f ≤ Pm → ∃ j, fiP.get? f = some (fileOf s.d.pfiles f ++ j)) ∧
      (∀ f, Pm < f → fiP.get? f = none) := by
    rcases (by cases c.kind <;> simp : c.kind = .mh ∨ c.kind = .cid) with hk | hk
    · obtain ⟨P', segP, _⟩ := smh hk
      obtain ⟨Mp, h1, h1', h2, h3⟩ := cutImg_ext segP cP
      refine ⟨Mp, fun _ => ⟨h1, ?_, h2, h3⟩⟩
      have hP'le : P' ≤ m2.pfileNum := by
        rcases Nat.lt_or_ge m2.pfileNum P' with h | h
        · have := (hIp2.mh (by rw [hk2]; exact hk)).2.2 P' h
          rw [hd2p] at this
          exact absurd this (segP.all' P' (Nat.le_refl _))
        · exact h
      omega
    · exact ⟨0, fun hk' => by rw [hk] at hk'; cases hk'⟩
  obtain ⟨Pm, hPm⟩ := hPm
  obtain ⟨cfR, pfnR, plenR, filesR, frR, eqR, r2, r3, r5, r6⟩ :=
    recover_form c hc { s.d with pfiles := fiP, cidfile := cf, ifiles := fiI, free := fr' } Pm M lgI junk
      hX.ihdr hD.snap hX.phdr
      (fun hk f hf => by
        obtain ⟨j, hj⟩ := (hPm hk).2.2.1 f hf
        show fiP.get? f ≠ none
        rw [hj]; simp)
      (fun hk => (hPm hk).2.2.2 _ (by omega)) g1 (g2 _ (by omega)) g3 (fun f _ => g4 f)
  refine ⟨_, _, blks.map (·.1), eqR, ?_, ?_⟩
  · -- the invariants of the recovered state
    have hMle : M ≤ m2.ifileNum := by
      have hsub := cutImg_sub (fs := s.d.ifiles) (fs' := d2.ifiles) (fi := fiI) (by
        intro f hf
        have hff : f ≤ s.m.ifileNum := by
          rcases Nat.lt_or_ge s.m.ifileNum f with h | h
          · exact absurd (hI.i.noFiles f h) hf
          · exact h
        exact sI.all' f (by have := sI.le; omega)) cI M (by rw [g1 M (Nat.le_refl _)]; simp)
      rcases Nat.lt_or_ge m2.ifileNum M with h | h
      · exact absurd (hIi2.noFiles M h) hsub
      · exact h
    have hcfle : (cf.getD []).length ≤ (d1.cidfile.getD []).length := by
      rcases cC with hcc | ⟨g, t, e1, hcc⟩
      · rw [hcc]
        rcases sC with h | ⟨g, h⟩
        · rw [h]; exact Nat.le_refl _
        · rw [h]; simp
      · rw [hcc, e1]
        simp only [Option.getD_some, List.length_append, List.length_take]
        omega
    refine ⟨rfl, rfl, rfl, ?_, ?_, ?_, ?_, rfl⟩
    · -- PInv
      refine ⟨?_, fun r hr => (by cases hr), fun r hr => (by cases hr), fun r hr => (by cases hr), ?_, ?_⟩
      · intro hk
        have hk' : c.kind = .mh := hk
        show 1 ≤ hdrPfs c
        unfold hdrPfs; simp only [hk']
        exact hc.2.2.2.2.1
      · intro hk
        have hk' : c.kind = .mh := hk
        obtain ⟨_, q2, q3⟩ := r2 hk'
        refine ⟨⟨rfl, rfl⟩, ?_, ?_⟩
        · show (fileOf fiP pfnR).length = plenR
          rw [q3, q2]
        · intro f hf
          show fiP.get? f = none
          have hf' : pfnR < f := hf
          rw [q2] at hf'
          exact (hPm hk').2.2.2 f hf'
      · intro hk
        have hk' : c.kind = .cid := hk
        obtain ⟨q1, _, q3⟩ := r3 hk'
        show (cfR.getD []).length = plenR
        rw [q1, q3]; rfl
    · -- IInv
      refine ⟨hc.2.2.1, fun b rl hb => (by cases hb), rfl, ?_, scanTo_sorted _ _ _⟩
      intro f hf
      show filesR.get? f = none
      rw [r6 f hf]
      exact g2 f hf
    · -- XInv
      refine ⟨rfl, rfl, rfl, rfl, hX.ihdr, hX.phdr, ?_, fun b rl hb => (by cases hb), ⟨lgI, r5, g3,
        fun _ => rfl⟩⟩
      intro hk f hf
      obtain ⟨_, q2, _⟩ := r2 hk
      have hf' : f ≤ pfnR := hf
      rw [q2] at hf'
      obtain ⟨j, hj⟩ := (hPm hk).2.2.1 f hf'
      show fiP.get? f ≠ none
      rw [hj]; simp
    · -- Cnt
      refine ⟨?_, ?_, ?_⟩
      · intro hk
        have hk' : c.kind = .mh := hk
        obtain ⟨_, q2, _⟩ := r2 hk'
        have hkm : m2.kind = .mh := by rw [hk2]; exact hk'
        have ha := (hIp2.mh hkm).1
        rw [hpn] at ha
        have hc2 := hcnt2.mh hkm
        refine ⟨?_, ?_⟩
        · show pfnR ≤ n
          rw [q2]
          have := (hPm hk').2.1
          have := ha.1
          omega
        · show hdrPfs c ≤ 1073741824
          have : m2.pmax = hdrPfs c := hX2.pmax
          rw [← this]; exact hc2.2
      · intro hk
        have hk' : c.kind = .cid := hk
        obtain ⟨_, _, q3⟩ := r3 hk'
        have hkm : m2.kind = .cid := by rw [hk2]; exact hk'
        have ha := hIp2.cid hkm
        rw [hpn] at ha
        have ha' : (d2.cidfile.getD []).length = m2.precPos := ha
        have hc2 := hcnt2.cid hkm
        show plenR ≤ B
        rw [q3]
        show (cf.getD []).length ≤ B
        rw [hd2c] at ha'
        omega
      · show M + 0 ≤ n
        have := hcnt2.idx
        omega
  · -- the buckets
    intro b
    obtain ⟨hfe, hbl⟩ := g6 filesR r5
    constructor
    · -- the bucket was not reached by the flush: it reads what the old disk reads
      intro hnb
      have heq : (setAll (scanTo c.ifs lg s.m.ifileNum) blks).get? b =
          (scanTo c.ifs lg s.m.ifileNum).get? b := by
        rcases setAll_get? blks (scanTo c.ifs lg s.m.ifileNum) b with ⟨_, heq⟩ | ⟨pos, hmem, _⟩
        · exact heq
        · exact absurd (List.mem_map.mpr ⟨(b, pos), hmem, rfl⟩) hnb
      have hlexMh : c.kind = .mh → pfnO < pfnR ∨ (pfnO = pfnR ∧ plenO ≤ plenR) := by
        intro hk
        obtain ⟨h1, _, h2, h3⟩ := hPm hk
        obtain ⟨_, e2, e3⟩ := oO2 hk
        obtain ⟨_, q2, q3⟩ := r2 hk
        rw [e2, q2, e3, q3]
        rcases Nat.lt_or_ge s.m.pfileNum Pm with h | h
        · left; exact h
        · right
          have hPe : s.m.pfileNum = Pm := by omega
          refine ⟨hPe, ?_⟩
          obtain ⟨j, hj⟩ := h2 Pm (Nat.le_refl _)
          have : fileOf fiP Pm = fileOf s.d.pfiles Pm ++ j := fileOf_some hj
          show (fileOf s.d.pfiles s.m.pfileNum).length ≤ (fileOf fiP Pm).length
          rw [this, hPe, List.length_append]
          omega
      have hcidO : c.kind = .cid → ∃ file g, cfO = some file ∧ cfR = some (file ++ g) ∧
          plenO ≤ plenR := by
        intro hk
        obtain ⟨e1, _, e3⟩ := oO3 hk
        obtain ⟨q1, _, q3⟩ := r3 hk
        rcases cC with hcc | ⟨g, t, _, hcc⟩
        · refine ⟨s.d.cidfile.getD [], [], e1, ?_, ?_⟩
          · rw [q1, List.append_nil]
            show some (cf.getD []) = _
            rw [hcc]
          · rw [e3, q3]
            show (s.d.cidfile.getD []).length ≤ (cf.getD []).length
            rw [hcc]
            exact Nat.le_refl _
        · refine ⟨s.d.cidfile.getD [], g.take t, e1, ?_, ?_⟩
          · rw [q1]
            show some (cf.getD []) = _
            rw [hcc]; rfl
          · rw [e3, q3]
            show (s.d.cidfile.getD []).length ≤ (cf.getD []).length
            rw [hcc]
            simp
      obtain ⟨orl, a1, _, a3⟩ := hAold.recs b
      have a1' : readDiskBucket s.d.ifiles c.ifs
          (((scanTo c.ifs lg s.m.ifileNum).get? b).getD 0) = .ok orl := by
        rw [← readDiskBucket_congr hcongr]; exact a1
      refine ⟨orl, ?_, a1, ?_⟩
      · rw [openMem_idxRecords]
        show readDiskBucket filesR c.ifs (((scanTo c.ifs lgI M).get? b).getD 0) = _
        rw [g5, heq]
        exact readDiskBucket_mono hfe a1'
      · intro e he
        have hBk := a3 e he
        obtain ⟨key, val, dig, b1, b2, _, _, _⟩ := hBk.ex
        refine ⟨key, val, dig, ?_, b1, (hU.dig b2).1, ?_⟩
        · apply pri_old hBk.below b1
          · intro hk
            obtain ⟨h1, _, h2, h3⟩ := hPm hk
            refine ⟨?_, hlexMh hk⟩
            intro f file hf
            have hf' : s.d.pfiles.get? f = some file := hf
            have hfP : f ≤ s.m.pfileNum := by
              rcases Nat.lt_or_ge s.m.pfileNum f with h | h
              · rw [(hI.p.mh (by rw [hkind]; exact hk)).2.2 f h] at hf'; cases hf'
              · exact h
            obtain ⟨j, hj⟩ := h2 f (by omega)
            exact ⟨j, by show fiP.get? f = _; rw [hj, fileOf_some hf']⟩
          · intro hk
            exact hcidO hk
        · intro hbel
          apply below_mono (m := openMem c (scanTo c.ifs lgI M) M (fileOf filesR M).length pfnR plenR)
            hbel rfl rfl
          · intro hk
            exact hlexMh hk
          · intro hk
            obtain ⟨_, _, _, _, h⟩ := hcidO hk
            exact h
    · -- the bucket's new record is whole in the image: it reads what the flushed state reads
      intro hb
      obtain ⟨x, hx, hxb⟩ := List.mem_map.mp hb
      rcases setAll_get? blks (scanTo c.ifs lg s.m.ifileNum) b with ⟨hnone, _⟩ | ⟨pos, hmem, heq⟩
      · exact absurd (by rw [← hxb]; exact hx) (hnone x.2)
      have hpc : (∀ n, fiP.get? n = d1.pfiles.get? n) ∧ cf = d1.cidfile := by
        rcases hblk with h | h
        · rw [h] at hmem; cases hmem
        · exact h
      have hnewMh : c.kind = .mh → (∀ f, fiP.get? f = d2.pfiles.get? f) ∧ pfnR = m2.pfileNum ∧
          plenR = m2.plength := by
        intro hk
        obtain ⟨_, q2, q3⟩ := r2 hk
        have hkm : m2.kind = .mh := by rw [hk2]; exact hk
        have hfiP : ∀ f, fiP.get? f = d2.pfiles.get? f := fun f => by rw [hpc.1, hd2p]
        have hPm2 : Pm = m2.pfileNum := by
          apply contig_unique (fs := fiP)
          · intro f hf
            obtain ⟨j, hj⟩ := (hPm hk).2.2.1 f hf
            rw [hj]; simp
          · exact (hPm hk).2.2.2 _ (by omega)
          · intro f hf
            rw [hfiP]; exact hX2.pall hk f hf
          · rw [hfiP]; exact (hIp2.mh hkm).2.2 _ (Nat.lt_succ_self _)
        refine ⟨hfiP, by rw [q2, hPm2], ?_⟩
        rw [q3, hPm2]
        have : fileOf fiP m2.pfileNum = fileOf d2.pfiles m2.pfileNum := by
          unfold fileOf; rw [hfiP]
        show (fileOf fiP m2.pfileNum).length = m2.plength
        rw [this]
        exact (hIp2.mh hkm).2.1
      have hnewCid : c.kind = .cid → cfR = some (d2.cidfile.getD []) ∧
          plenR = (d2.cidfile.getD []).length := by
        intro hk
        obtain ⟨q1, _, q3⟩ := r3 hk
        refine ⟨?_, ?_⟩
        · rw [q1]
          show some (cf.getD []) = _
          rw [hpc.2, hd2c]
        · rw [q3]
          show (cf.getD []).length = _
          rw [hpc.2, hd2c]
      obtain ⟨rl, n1, n2⟩ := hbl (b, pos) hmem
      simp only at n1 n2
      have hidx2 : idxRecords m2 d2 b = .ok (some rl) := by
        rw [hR b]; unfold idxRecords; rw [n1]
      refine ⟨some rl, ?_, hidx2, ?_⟩
      · rw [openMem_idxRecords]
        show readDiskBucket filesR c.ifs (((scanTo c.ifs lgI M).get? b).getD 0) = _
        rw [g5, heq]
        exact n2
      · intro e he
        obtain ⟨orl', c1, _, c3⟩ := hI2.a.recs b
        have c1' : idxRecords m2 d2 b = .ok orl' := c1
        rw [hidx2] at c1'
        cases c1'
        have hBk := c3 e he
        obtain ⟨key, val, dig, b1, b2, _, _, _⟩ := hBk.ex
        have b1' : priGet m2 d2 e.blk = .got key val := b1
        refine ⟨key, val, dig, ?_, b1', (hU.dig b2).1, ?_⟩
        · exact pri_new hIp2 hpn hk2 hX2.pmax hnewMh hnewCid b1'
        · intro hbel
          have hpm2 : m2.pmax = hdrPfs c := hX2.pmax
          apply below_mono (m := openMem c (scanTo c.ifs lgI M) M (fileOf filesR M).length pfnR plenR)
            hbel hk2.symm hpm2.symm
          · intro hkm
            have hk : c.kind = .mh := by rw [← hk2]; exact hkm
            obtain ⟨_, e1, e2⟩ := hnewMh hk
            have ha := (hIp2.mh hkm).1
            rw [hpn] at ha
            right
            exact ⟨by show m2.precFileNum = pfnR; rw [e1]; exact ha.1.symm,
              by show m2.precPos ≤ plenR; rw [e2, ha.2]; exact Nat.le_refl _⟩
          · intro hkm
            have hk : c.kind = .cid := by rw [← hk2]; exact hkm
            obtain ⟨_, e2⟩ := hnewCid hk
            have ha := hIp2.cid hkm
            rw [hpn] at ha
            have ha' : (d2.cidfile.getD []).length = m2.precPos := ha
            show m2.precPos ≤ plenR
            rw [e2, ha']
            exact Nat.le_refl _

end

end Sth
