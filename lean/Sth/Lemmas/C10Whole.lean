/-
C10 (byte level) — "every record stays whole": the numbered primary files against the legacy records,
file sizes as `chunkFileSizes`, index entries as `remapOffset`; and a decidable check of `LegacyWF`.
Core Lean only.
-/
import Sth.Lemmas.C10Main

namespace Sth

/-! ### chunk sizes only depend on record lengths -/

theorem chunkAux_sizes_congr (limit : Nat) : ∀ (a b cur cur' : List Bytes) (w : Nat),
    a.map List.length = b.map List.length → bsize cur = bsize cur' → (cur.isEmpty = cur'.isEmpty) →
    (chunkAux limit a cur w).map bsize = (chunkAux limit b cur' w).map bsize
  | [], [], cur, cur', w, _, hc, he => by
    simp only [chunkAux, he]
    split
    · rfl
    · simp only [List.map_cons, List.map_nil, bsize_reverse, hc]
  | [], _ :: _, _, _, _, h, _, _ => by simp at h
  | _ :: _, [], _, _, _, h, _, _ => by simp at h
  | x :: a, y :: b, cur, cur', w, h, hc, he => by
    simp only [List.map_cons, List.cons.injEq] at h
    simp only [chunkAux, h.1]
    split
    · simp only [List.map_cons]
      rw [chunkAux_sizes_congr limit a b [] [] 0 h.2 rfl rfl]
      congr 1
      rw [bsize_reverse, bsize_reverse]
      simp only [bsize, List.map_cons, List.sum_cons, h.1] at hc ⊢
      omega
    · exact chunkAux_sizes_congr limit a b (x :: cur) (y :: cur') _ h.2
        (by simp only [bsize, List.map_cons, List.sum_cons, h.1] at hc ⊢; omega) rfl

theorem chunkSizes_congr (limit : Nat) (a b : List Bytes) (h : a.map List.length = b.map List.length) :
    chunkSizes limit a = chunkSizes limit b := by
  unfold chunkSizes chunk
  exact chunkAux_sizes_congr limit a b [] [] 0 h rfl rfl

theorem chunkFileSizes_congr (limit : Nat) (a b : List Bytes) (h : a.map List.length = b.map List.length) :
    chunkFileSizes limit a = chunkFileSizes limit b := by
  unfold chunkFileSizes
  rw [chunkSizes_congr limit a b h]

/-- the sizes of the files the chunkers leave are `chunkFileSizes` (when there is a record at all) -/
theorem chunkFiles_sizes_eq (limit : Nat) (recs : List Bytes) (hne : recs ≠ []) :
    (chunkFiles limit recs []).map List.length = chunkFileSizes limit recs := by
  have e : ((chunk limit recs).map List.flatten).map List.length = chunkSizes limit recs := by
    unfold chunkSizes
    rw [List.map_map]
    apply List.map_congr_left
    intro c _
    simp [List.length_flatten]
  have hne' : (chunk limit recs).map List.flatten ≠ [] := by
    intro h0
    have h1 : chunk limit recs = [] := by simpa using h0
    have := chunk_flatten limit recs
    rw [h1] at this
    exact hne this.symm
  have hgl := List.getLast?_eq_some_getLast hne'
  have hcf : chunkFiles limit recs [] =
      if (((chunk limit recs).map List.flatten).getLast hne').length ≥ limit
      then (chunk limit recs).map List.flatten ++ [[]] else (chunk limit recs).map List.flatten := by
    unfold chunkFiles
    simp only [hgl]
    split
    · rfl
    · rw [List.append_nil, List.dropLast_concat_getLast hne']
  have hcs : chunkFileSizes limit recs =
      if (((chunk limit recs).map List.flatten).getLast hne').length ≥ limit
      then ((chunk limit recs).map List.flatten).map List.length ++ [0]
      else ((chunk limit recs).map List.flatten).map List.length := by
    unfold chunkFileSizes
    simp only
    rw [← e, List.getLast?_map, hgl]
    rfl
  rw [hcf, hcs]
  split <;> simp

namespace LegacyC

variable {c : Cfg} {U : List (Bytes × Bytes)} {C : LegacyC}

/-- the records of the old primary as framed bytes -/
def recBytesL (C : LegacyC) : List Bytes := C.recs.map fun kv => le32 (recSize kv) ++ kv.1 ++ kv.2

theorem recBytesL_lengths (C : LegacyC) : C.recBytesL.map List.length = C.recs.map fun kv => 4 + recSize kv := by
  unfold recBytesL
  rw [List.map_map]
  apply List.map_congr_left
  intro kv _
  simp [le32_length, recSize]

theorem out_length (C : LegacyC) : C.out.length = C.recs.length := by
  have := congrArg List.length C.out_lengths
  simpa using this

/-- sizes of the numbered primary files -/
theorem pfilesL_sizes (C : LegacyC) (pmax : Nat) (hne : C.recs ≠ []) :
    (C.pfilesL pmax).map List.length = chunkFileSizes pmax C.recBytesL := by
  have hout : C.out ≠ [] := by
    intro h0
    have := C.out_length
    rw [h0] at this
    exact hne (List.length_eq_zero_iff.mp this.symm)
  unfold pfilesL
  rw [chunkFiles_sizes_eq pmax C.out hout]
  apply chunkFileSizes_congr
  rw [C.out_lengths, C.recBytesL_lengths]

/-- a record that is not freed is copied byte for byte -/
theorem out_get (C : LegacyC) (i : Nat) (kv : Bytes × Bytes) (h : C.recs[i]? = some kv)
    (hf : C.isFreed i = false) : C.out[i]? = some (le32 (recSize kv) ++ kv.1 ++ kv.2) := by
  have := outRecs_get scratch0 C.marked i (false, kv) (C.marked_get i kv h hf) rfl
  unfold out
  rw [this]
  simp [msize, recSize, List.append_assoc]

/-- the offset rewrite on a current entry is `remapOffset` over the chunk sizes of the legacy records -/
theorem remapC_eq (hc : c.Legal) (hU : Univ .mh U) (hwf : LegacyWFU c U C) (hn : C.recs.length < 1073741824)
    (b : Nat) (rl : RecordList) (h : C.table.get? b = some rl) (e : Entry) (he : e ∈ rl) :
    C.remapC c e.blk.off = remapOffset 0 c.pfs (chunkSizes c.pfs C.recBytesL) e.blk.off ∧
      (remapOffset 0 c.pfs (chunkSizes c.pfs C.recBytesL) e.blk.off).isSome = true := by
  obtain ⟨i, key, val, dig, n, F, g, _, h2, _, _, _, _, _, _, h9, _⟩ := entry_full hc hU hwf hn b rl h e he
  have hoff := C.blockOf_off_lt hwf.recSize hn i
  have e1 : C.remapC c e.blk.off = remapOffset 0 c.pfs (chunkSizes c.pfs C.recBytesL) e.blk.off := by
    unfold remapC remapOff psizes pfilesL
    rw [h2, if_neg (by unfold two64 at *; omega), remapOffset_chunkFiles]
    congr 1
    apply chunkSizes_congr
    rw [C.out_lengths, C.recBytesL_lengths]
  refine ⟨e1, ?_⟩
  rw [← e1, h9]
  rfl

/-! ### a decidable check of `LegacyWF` -/

theorem lookupRec_sound : ∀ (recs : List (Bytes × Bytes)) (pos idx off i : Nat) (k v : Bytes),
    lookupRec recs pos idx off = some (i, k, v) →
    ∃ j, i = idx + j ∧ recs[j]? = some (k, v) ∧ off = pos + ((recs.take j).map fun kv => 4 + recSize kv).sum
  | [], _, _, _, _, _, _, h => by simp [lookupRec] at h
  | kv :: rest, pos, idx, off, i, k, v, h => by
    simp only [lookupRec] at h
    split at h
    · rename_i hp
      simp only [Option.some.injEq, Prod.mk.injEq] at h
      obtain ⟨rfl, rfl, rfl⟩ := h
      exact ⟨0, rfl, rfl, by simp [hp]⟩
    · obtain ⟨j, h1, h2, h3⟩ := lookupRec_sound rest _ _ off i k v h
      refine ⟨j + 1, by omega, by simpa using h2, ?_⟩
      rw [h3]
      simp only [List.take_succ_cons, List.map_cons, List.sum_cons]
      omega

/-- the executable form of `LegacyWF` -/
def wfCheck (c : Cfg) (C : LegacyC) : Bool :=
  decide (C.bits = c.bits) &&
  C.recs.all (fun kv => decide (recSize kv < two31)) &&
  C.gens.all (fun r => decide (r.1 < 2 ^ c.bits) && decide ((encodeRL r.2).length + 4 < two31) &&
    r.2.all (fun e => decide (e.pfx.length < 256) && decide (e.blk.off < two64) && decide (e.blk.size < two32))) &&
  (match C.freed with | some l => l.all (fun i => decide (i < C.recs.length)) | none => true) &&
  C.table.all (fun br =>
    pairwiseOK (fun a b => decide (klt a b)) (br.2.map (·.pfx)) &&
    pairwiseOK (fun a b => decide (apart a b)) (br.2.map (·.pfx)) &&
    decide ((br.2.map (·.blk)).Nodup) &&
    br.2.all (fun e =>
      match lookupRec C.recs 0 0 e.blk.off with
      | none => false
      | some (i, k, v) =>
        decide (e.blk.size = k.length + v.length) && !C.isFreed i &&
        match keyClass .mh k with
        | .error _ => false
        | .ok dig => decide (bucketOfKey c.bits dig = some br.1) && !e.pfx.isEmpty &&
            decide (pfx e.pfx (dig.drop (c.bits / 8)))))

theorem wf_of_check (h : wfCheck c C = true) : LegacyWF c C := by
  unfold wfCheck at h
  simp only [Bool.and_eq_true, decide_eq_true_eq, List.all_eq_true] at h
  obtain ⟨⟨⟨⟨h1, h2⟩, h3⟩, h4⟩, h5⟩ := h
  have htab : ∀ b rl, C.table.get? b = some rl → (b, rl) ∈ C.table := fun b rl hg => NMap.mem_of_get? hg
  refine ⟨h1, h2, ?_, ?_, ?_, ?_, ?_, ?_⟩
  · intro r hr
    obtain ⟨⟨a1, a2⟩, a3⟩ := h3 r hr
    refine ⟨⟨a1, a2⟩, ⟨fun e he => ?_, by unfold two31 at a2; unfold two32; omega⟩⟩
    have := a3 e he
    exact ⟨this.1.1, this.1.2, this.2⟩
  · intro l hl i hi
    rw [hl] at h4
    simp only [List.all_eq_true, decide_eq_true_eq] at h4
    exact h4 i hi
  · intro b rl hg
    have := (h5 _ (htab b rl hg)).1.1.1
    exact (pairwise_of_pairwiseOK this).imp (fun h => by simpa using h)
  · intro b rl hg
    have := (h5 _ (htab b rl hg)).1.1.2
    exact (pairwise_of_pairwiseOK this).imp (fun h => by simpa using h)
  · intro b rl hg
    exact (h5 _ (htab b rl hg)).1.2
  · intro b rl hg e he
    have := (h5 _ (htab b rl hg)).2 e he
    simp only at this
    cases hl : lookupRec C.recs 0 0 e.blk.off with
    | none => rw [hl] at this; cases this
    | some x =>
      obtain ⟨i, k, v⟩ := x
      rw [hl] at this
      simp only [Bool.and_eq_true, decide_eq_true_eq, Bool.not_eq_true'] at this
      obtain ⟨⟨a1, a2⟩, a3⟩ := this
      cases hkc : keyClass .mh k with
      | error _ => rw [hkc] at a3; cases a3
      | ok dig =>
        rw [hkc] at a3
        simp only [Bool.and_eq_true, decide_eq_true_eq, Bool.not_eq_true', List.isEmpty_eq_false_iff] at a3
        obtain ⟨j, g1, g2, g3⟩ := lookupRec_sound C.recs 0 0 e.blk.off i k v hl
        simp only [Nat.zero_add] at g1 g3
        refine ⟨j, k, v, dig, g2, ?_, g1 ▸ a2, hkc, a3.1.1, a3.1.2, a3.2⟩
        cases hb : e.blk
        rw [hb] at a1 g3
        simp only at a1 g3
        unfold blockOf offsetOf
        rw [g2]
        simp only [Option.getD_some, recSize, a1, g3]

end LegacyC

end Sth
