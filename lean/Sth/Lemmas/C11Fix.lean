import Sth.Lemmas.C11Size

/-!
C11, fixed point (primary side): after a complete primary GC cycle that left the pools empty, another
cycle — any threshold, any budget — is the identity on the whole state.  Core Lean only.
-/

namespace Sth.C11

/-- a cycle that completes runs the loop over the files -/
theorem primaryGC_ok_shape {m : Mem} {d : Disk} {lowUse : Nat} {budget : Budget}
    {res : PgcRes × Mem × Disk × Budget} (hres : primaryGC m d lowUse budget = some res)
    (hok : res.1.out = .ok) :
    ∃ (m2 : Mem) (d2 : Disk) (b2 : Budget) (h : PriHeader) (vis : List Nat),
      res = primaryGC.go lowUse (m2.pfileNum - h.first + 1) h.first h { m2 with visited := vis } d2 b2 0 ∧
      d2.phdr = some h := by
  unfold primaryGC at hres
  cases hf1 : freelistPass m d budget with
  | mk r1 rest =>
  obtain ⟨m1, d1, b1, aff1⟩ := rest
  rw [hf1] at hres
  simp only at hres
  cases r1 with
  | flushErr => cases hres
  | deadline => simp only [Option.some.injEq] at hres; subst hres; cases hok
  | err => simp only [Option.some.injEq] at hres; subst hres; cases hok
  | ok =>
  cases hf2 : freelistPass m1 d1 b1 with
  | mk r2 rest =>
  obtain ⟨m2, d2, b2, aff2⟩ := rest
  rw [hf2] at hres
  simp only at hres
  cases r2 with
  | flushErr => cases hres
  | deadline => simp only [Option.some.injEq] at hres; subst hres; cases hok
  | err => simp only [Option.some.injEq] at hres; subst hres; cases hok
  | ok =>
  cases hph : d2.phdr with
  | none =>
    rw [hph] at hres
    simp only [Option.some.injEq] at hres
    subst hres
    cases hok
  | some h =>
    rw [hph] at hres
    simp only [Option.some.injEq] at hres
    exact ⟨m2, d2, b2, h, _, hres.symm, hph⟩

theorem reapRecords_phdr (m : Mem) (d : Disk) (n lowUse : Nat) :
    (reapRecords m d n lowUse).2.2.1.phdr = d.phdr := by
  rcases reapRecords_disk m d n lowUse with h | ⟨file, h⟩ <;> rw [h]

/-- when the loop over the files completes, every file from the header's first file to the current file
    is in the visited set -/
theorem pgcGo_post (lowUse : Nat) : ∀ (fuel n : Nat) (h : PriHeader) (m : Mem) (d : Disk) (b : Budget)
    (recl : Nat), d.phdr = some h → n ≤ m.pfileNum → m.pfileNum - n < fuel →
    (∀ g, h.first ≤ g → g < n → g ∈ m.visited) →
    (primaryGC.go lowUse fuel n h m d b recl).1.out = .ok →
    ∃ h', (primaryGC.go lowUse fuel n h m d b recl).2.2.1.phdr = some h' ∧
      (∀ g, h'.first ≤ g → g < (primaryGC.go lowUse fuel n h m d b recl).2.1.pfileNum →
        g ∈ (primaryGC.go lowUse fuel n h m d b recl).2.1.visited) := by
  intro fuel
  induction fuel with
  | zero => intro n h m d b recl _ _ hf; omega
  | succ fuel ih =>
    intro n h m d b recl hh hn hf hcov
    unfold primaryGC.go
    by_cases he : n = m.pfileNum
    · rw [if_pos he]
      intro _
      exact ⟨h, hh, fun g g1 g2 => hcov g g1 (by rw [he]; exact g2)⟩
    rw [if_neg he]
    by_cases hv : m.visited.contains n = true
    · rw [if_pos hv]
      apply ih (n + 1) h m d b recl hh (by omega) (by omega)
      intro g g1 g2
      by_cases hgn : g = n
      · rw [hgn]; exact List.contains_iff_mem.mp hv
      · exact hcov g g1 (by omega)
    rw [if_neg hv]
    obtain ⟨e1, e2, _⟩ := reapRecords_mem m d n lowUse
    have e3 := reapRecords_phdr m d n lowUse
    cases hr : reapRecords m d n lowUse with
    | mk r rest =>
    obtain ⟨m1, d1, got⟩ := rest
    rw [hr] at e1 e2 e3
    simp only at e1 e2 e3 ⊢
    -- the continuation
    have hcont : ∀ (h2 : PriHeader) (d2 : Disk), d2.phdr = some h2 → h.first ≤ h2.first →
        (h2.first = h.first ∨ h2.first = n + 1) →
        (primaryGC.go lowUse fuel (n + 1) h2 { m1 with visited := m1.visited ++ [n] } d2 (poll b).2
          (recl + got)).1.out = .ok →
        ∃ h', (primaryGC.go lowUse fuel (n + 1) h2 { m1 with visited := m1.visited ++ [n] } d2 (poll b).2
            (recl + got)).2.2.1.phdr = some h' ∧
          (∀ g, h'.first ≤ g →
            g < (primaryGC.go lowUse fuel (n + 1) h2 { m1 with visited := m1.visited ++ [n] } d2
              (poll b).2 (recl + got)).2.1.pfileNum →
            g ∈ (primaryGC.go lowUse fuel (n + 1) h2 { m1 with visited := m1.visited ++ [n] } d2
              (poll b).2 (recl + got)).2.1.visited) := by
      intro h2 d2 hd2 _ hcase
      apply ih (n + 1) h2 _ d2 _ _ hd2 (by show n + 1 ≤ m1.pfileNum; omega)
        (by show m1.pfileNum - (n + 1) < fuel; omega)
      intro g g1 g2
      show g ∈ m1.visited ++ [n]
      rw [e1]
      by_cases hgn : g = n
      · rw [hgn]; simp
      · apply List.mem_append_left
        rcases hcase with hc | hc
        · exact hcov g (by omega) (by omega)
        · omega
    cases r with
    | err => intro hc; cases hc
    | dead =>
      simp only
      by_cases hfirst : n = h.first
      · have hc : True ∧ n = h.first := ⟨trivial, hfirst⟩
        rw [if_pos hc]
        split
        · intro hc'; cases hc'
        · exact hcont { h with first := h.first + 1 }
            { d1 with phdr := some { h with first := h.first + 1 }, pfiles := d1.pfiles.del n } rfl
            (Nat.le_succ _) (Or.inr (by show h.first + 1 = n + 1; omega))
      · have hc : ¬ (True ∧ n = h.first) := fun h => hfirst h.2
        rw [if_neg hc]
        split
        · intro hc'; cases hc'
        · exact hcont h d1 (by rw [e3]; exact hh) (Nat.le_refl _) (Or.inl rfl)
    | kept =>
      simp only
      have hc : ¬ (PReapOut.kept = PReapOut.dead ∧ n = h.first) := by rintro ⟨h, _⟩; cases h
      rw [if_neg hc]
      split
      · intro hc'; cases hc'
      · exact hcont h d1 (by rw [e3]; exact hh) (Nat.le_refl _) (Or.inl rfl)

/-- the loop only advances the header's first file and never changes the current file number -/
theorem pgcGo_mono (lowUse : Nat) : ∀ (fuel n : Nat) (h : PriHeader) (m : Mem) (d : Disk) (b : Budget)
    (recl : Nat), d.phdr = some h →
    ∃ h', (primaryGC.go lowUse fuel n h m d b recl).2.2.1.phdr = some h' ∧ h.first ≤ h'.first ∧
      (primaryGC.go lowUse fuel n h m d b recl).2.1.pfileNum = m.pfileNum := by
  intro fuel
  induction fuel with
  | zero => intro n h m d b recl hh; exact ⟨h, hh, Nat.le_refl _, rfl⟩
  | succ fuel ih =>
    intro n h m d b recl hh
    unfold primaryGC.go
    split
    · exact ⟨h, hh, Nat.le_refl _, rfl⟩
    split
    · exact ih (n + 1) h m d b recl hh
    obtain ⟨_, e2, _⟩ := reapRecords_mem m d n lowUse
    have e3 := reapRecords_phdr m d n lowUse
    cases hr : reapRecords m d n lowUse with
    | mk r rest =>
    obtain ⟨m1, d1, got⟩ := rest
    rw [hr] at e2 e3
    simp only at e2 e3 ⊢
    have hd1 : d1.phdr = some h := by rw [e3]; exact hh
    have hc1 : ∀ (bb : Budget), ∃ h', (primaryGC.go lowUse fuel (n + 1) h
        { m1 with visited := m1.visited ++ [n] } d1 bb (recl + got)).2.2.1.phdr = some h' ∧
        h.first ≤ h'.first ∧ (primaryGC.go lowUse fuel (n + 1) h
        { m1 with visited := m1.visited ++ [n] } d1 bb (recl + got)).2.1.pfileNum = m.pfileNum := by
      intro bb
      obtain ⟨h', q1, q2, q3⟩ := ih (n + 1) h { m1 with visited := m1.visited ++ [n] } d1 bb
        (recl + got) hd1
      exact ⟨h', q1, q2, by rw [q3]; exact e2⟩
    have hc2 : ∀ (bb : Budget), ∃ h', (primaryGC.go lowUse fuel (n + 1) { h with first := h.first + 1 }
        { m1 with visited := m1.visited ++ [n] }
        { d1 with phdr := some { h with first := h.first + 1 }, pfiles := d1.pfiles.del n } bb
        (recl + got)).2.2.1.phdr = some h' ∧
        h.first ≤ h'.first ∧ (primaryGC.go lowUse fuel (n + 1) { h with first := h.first + 1 }
        { m1 with visited := m1.visited ++ [n] }
        { d1 with phdr := some { h with first := h.first + 1 }, pfiles := d1.pfiles.del n } bb
        (recl + got)).2.1.pfileNum = m.pfileNum := by
      intro bb
      obtain ⟨h', q1, q2, q3⟩ := ih (n + 1) { h with first := h.first + 1 }
        { m1 with visited := m1.visited ++ [n] }
        { d1 with phdr := some { h with first := h.first + 1 }, pfiles := d1.pfiles.del n } bb
        (recl + got) rfl
      exact ⟨h', q1, by have : h.first + 1 ≤ h'.first := q2; omega, by rw [q3]; exact e2⟩
    cases r with
    | err => exact ⟨h, hd1, Nat.le_refl _, e2⟩
    | dead =>
      simp only
      repeat' split
      all_goals first
        | exact ⟨h, hd1, Nat.le_refl _, e2⟩
        | exact ⟨_, rfl, Nat.le_succ _, e2⟩
        | exact hc1 _
        | exact hc2 _
    | kept =>
      simp only
      repeat' split
      all_goals first
        | exact ⟨h, hd1, Nat.le_refl _, e2⟩
        | exact ⟨_, rfl, Nat.le_succ _, e2⟩
        | exact hc1 _
        | exact hc2 _

/-- the loop does nothing when every file in its range is in the visited set -/
theorem pgcGo_skip_all (lowUse : Nat) (h : PriHeader) (m : Mem) (d : Disk) (b : Budget) (recl : Nat) :
    ∀ (fuel n : Nat), (∀ g, n ≤ g → g < m.pfileNum → g ∈ m.visited) → n ≤ m.pfileNum →
      primaryGC.go lowUse fuel n h m d b recl = (⟨.ok, recl⟩, m, d, b) := by
  intro fuel
  induction fuel with
  | zero => intro n _ _; rfl
  | succ fuel ih =>
    intro n hcov hn
    unfold primaryGC.go
    by_cases he : n = m.pfileNum
    · rw [if_pos he]
    · rw [if_neg he, if_pos (List.contains_iff_mem.mpr (hcov n (Nat.le_refl _) (by omega)))]
      exact ih (n + 1) (fun g g1 g2 => hcov g (by omega) g2) (by omega)

/-- a hand-over pass with nothing recorded, on a flushed primary, does nothing -/
theorem freelistPass_idle {m : Mem} {d : Disk} (hpn : m.pnext = []) (hfl : m.flpool = [])
    (hfree : d.free = some []) (hgc : d.freeGc = none) (b : Budget) :
    freelistPass m d b = (.ok, m, d, b, []) := by
  have htg : toGC m d = (m, { d with freeGc := some [], free := some [] }) := by
    unfold toGC
    rw [hgc]
    simp only
    unfold flFlush
    rw [hfl]
    simp [hfree]
  unfold freelistPass
  rw [htg]
  simp only
  rw [priFlush_nil hpn]
  simp only [Option.getD_some, List.length_nil, List.isEmpty_nil, if_true]
  have hparse : parseFreeList (0 + 1) [] [] = ([], true) := rfl
  rw [hparse]
  simp only [List.isEmpty_nil, if_true, Bool.false_eq_true, if_false, Bool.not_true]
  cases d
  simp only at hfree hgc
  subst hfree hgc
  rfl

/-- P5 (primary): after a cycle that completed (`out = .ok`) and left both pools empty — it relocated
    nothing — a further cycle, with any threshold and any budget, changes nothing at all -/
theorem primaryGC_fixed {m : Mem} {d : Disk} (hk : m.kind = .mh) (lowUse : Nat) (budget : Budget)
    {res : PgcRes × Mem × Disk × Budget} (hres : primaryGC m d lowUse budget = some res)
    (hok : res.1.out = .ok) (hpn : res.2.1.pnext = []) (hfl : res.2.1.flpool = [])
    (hhdr : ∀ h, res.2.2.1.phdr = some h → h.first ≤ res.2.1.pfileNum)
    (lowUse' : Nat) (b' : Budget) :
    primaryGC res.2.1 res.2.2.1 lowUse' b' = some (⟨.ok, 0⟩, res.2.1, res.2.2.1, b') := by
  obtain ⟨hfree, hgc⟩ := primaryGC_consumes hk lowUse budget hres hok
  obtain ⟨m2, d2, b2, h, vis, hshape, hph⟩ := primaryGC_ok_shape hres hok
  -- every file from the first to the current one has been visited
  obtain ⟨h0, hm1, hm2, hm3⟩ : ∃ h0, res.2.2.1.phdr = some h0 ∧ h.first ≤ h0.first ∧
      res.2.1.pfileNum = m2.pfileNum := by
    rw [hshape]
    exact pgcGo_mono lowUse _ _ h _ d2 b2 0 hph
  have hle : h.first ≤ m2.pfileNum := by
    have := hhdr h0 hm1
    omega
  have hpost : ∃ h', res.2.2.1.phdr = some h' ∧
      (∀ g, h'.first ≤ g → g < res.2.1.pfileNum → g ∈ res.2.1.visited) := by
    rw [hshape] at hok ⊢
    exact pgcGo_post lowUse _ _ h _ d2 b2 0 hph hle (by show m2.pfileNum - h.first < _; omega)
      (fun g g1 g2 => by omega) hok
  obtain ⟨h', hph', hcov⟩ := hpost
  have hidle := fun b => freelistPass_idle (m := res.2.1) (d := res.2.2.1) hpn hfl hfree hgc b
  unfold primaryGC
  rw [hidle b']
  simp only
  rw [hidle b']
  simp only [List.append_nil, hph']
  have hfilter : res.2.1.visited.filter (fun f => !([] : List Nat).contains f) = res.2.1.visited := by
    apply List.filter_eq_self.mpr
    intro a _
    rfl
  rw [hfilter]
  have hm : ({ res.2.1 with visited := res.2.1.visited } : Mem) = res.2.1 := rfl
  rw [hm]
  rw [pgcGo_skip_all lowUse' h' res.2.1 res.2.2.1 b' 0 _ h'.first hcov (hhdr h' hph')]

/-- P5 (primary) on reachable states -/
theorem pgc_fixed_point (c : Cfg) (hc : c.Legal) (hmh : c.kind = .mh) (ops : List SOp)
    (hk : KeysOK c.kind ops) (hs : SizesOK ops) (s0 : SState) (hi : initS c = some s0)
    (lowUse : Nat) (budget : Budget) (hb : GcCountersOK s0 (ops ++ [.pgc lowUse budget]))
    {res : PgcRes × Mem × Disk × Budget}
    (hres : primaryGC (runS s0 ops).1.m (runS s0 ops).1.d lowUse budget = some res)
    (hok : res.1.out = .ok)
    (hpn : (stepS (runS s0 ops).1 (.pgc lowUse budget)).1.m.pnext = [])
    (hfl : (stepS (runS s0 ops).1 (.pgc lowUse budget)).1.m.flpool = [])
    (lowUse' : Nat) (b' : Budget) :
    stepS (stepS (runS s0 ops).1 (.pgc lowUse budget)).1 (.pgc lowUse' b') =
      ((stepS (runS s0 ops).1 (.pgc lowUse budget)).1, .gc) := by
  obtain ⟨hb1, hb2, _⟩ := GcCountersOK.append ops [.pgc lowUse budget] s0 hb
  have hG := reach_ginv c hc hmh ops hk hs s0 hi hb1
  have hU := univ_of_keysOK hk (keysExact_all c.kind ops)
  obtain ⟨k', hG1, _⟩ := step_pgc_g hU hG (by omega) lowUse budget
  have hkind : (runS s0 ops).1.m.kind = .mh := hG.kind
  have hs1 : (stepS (runS s0 ops).1 (.pgc lowUse budget)).1 =
      { (runS s0 ops).1 with m := res.2.1, d := res.2.2.1 } := by
    simp only [stepS, hkind, hres]
  rw [hs1] at hG1 hpn hfl ⊢
  have hkind1 : res.2.1.kind = .mh := hG1.kind
  obtain ⟨pf, psp, hS1⟩ := hG1.state
  have hhdr : ∀ h, res.2.2.1.phdr = some h → h.first ≤ res.2.1.pfileNum := by
    intro h hh
    have h1 : res.2.2.1.phdr = some ⟨res.2.1.pmax, pf⟩ := hS1.hdr
    rw [h1] at hh
    cases hh
    exact hS1.log.le
  have := primaryGC_fixed hkind lowUse budget hres hok hpn hfl hhdr lowUse' b'
  simp only [stepS, hkind1, this]

end Sth.C11
