/-
C02 — the index log: files as concatenations of records, the abstract scan of a log, and what
`scanFile` / `scanIndex` / `findLast` compute on it.
Core Lean only.
-/
import Sth.Lemmas.StoreIFlush

namespace Sth

/-! ### counting keys of an association list -/

theorem NMap.get?_filter_ne {α : Type} : ∀ (m : NMap α) (k j : Nat), j ≠ k →
    NMap.get? (m.filter (·.1 ≠ k)) j = NMap.get? m j
  | [], _, _, _ => rfl
  | (k', v) :: rest, k, j, h => by
    simp only [List.filter_cons]
    by_cases hk : k' = k
    · have : k' ≠ j := by rw [hk]; exact Ne.symm h
      simp only [hk, ne_eq, not_true_eq_false, decide_false, Bool.false_eq_true, if_false]
      rw [NMap.get?_cons, if_neg (by rw [hk] at this; exact this)]
      exact NMap.get?_filter_ne rest k j h
    · simp only [ne_eq, hk, not_false_eq_true, decide_true, if_true]
      rw [NMap.get?_cons, NMap.get?_cons, NMap.get?_filter_ne rest k j h]

theorem NMap.length_filter_lt {α : Type} : ∀ (m : NMap α) (k : Nat), NMap.get? m k ≠ none →
    (m.filter (·.1 ≠ k)).length < m.length
  | [], _, h => by simp at h
  | (k', v) :: rest, k, h => by
    simp only [List.filter_cons]
    by_cases hk : k' = k
    · simp only [hk, ne_eq, not_true_eq_false, decide_false, Bool.false_eq_true, if_false,
        List.length_cons]
      have := List.length_filter_le (fun x : Nat × α => decide (x.1 ≠ k)) rest
      simp only [ne_eq, decide_not] at this ⊢
      omega
    · simp only [ne_eq, hk, not_false_eq_true, decide_true, if_true, List.length_cons]
      rw [NMap.get?_cons, if_neg hk] at h
      have := NMap.length_filter_lt rest k h
      simp only [ne_eq, decide_not] at this ⊢
      omega

/-- an association list with keys 0..N-1 has at least N entries -/
theorem NMap.length_ge {α : Type} : ∀ (N : Nat) (m : NMap α), (∀ f, f < N → NMap.get? m f ≠ none) →
    N ≤ m.length
  | 0, _, _ => Nat.zero_le _
  | N + 1, m, h => by
    have h1 := NMap.length_filter_lt m N (h N (by omega))
    have h2 := NMap.length_ge N (m.filter (·.1 ≠ N)) (by
      intro f hf
      rw [NMap.get?_filter_ne m N f (by omega)]
      exact h f (by omega))
    omega

/-! ### findLast -/

theorem findLast_go_eq (files : NMap Bytes) (fuel n last : Nat) :
    findLast.go files (fuel + 1) n last =
      if files.has n then findLast.go files fuel (n + 1) n else last := rfl

theorem findLast_go {files : NMap Bytes} {N : Nat} (hall : ∀ f, f ≤ N → files.get? f ≠ none)
    (hno : files.get? (N + 1) = none) :
    ∀ (k n fuel last : Nat), n + k = N → k + 2 ≤ fuel → findLast.go files fuel n last = N
  | 0, n, fuel, last, hn, hf => by
    obtain ⟨f, rfl⟩ : ∃ f, fuel = f + 2 := ⟨fuel - 2, by omega⟩
    have hn' : n = N := by omega
    subst hn'
    have h1 : files.has n = true := by
      unfold NMap.has
      cases hg : files.get? n with
      | none => exact absurd hg (hall n (Nat.le_refl _))
      | some _ => rfl
    rw [findLast_go_eq, h1, if_pos rfl, findLast_go_eq, has_eq_false hno]
    simp
  | k + 1, n, fuel, last, hn, hf => by
    obtain ⟨f, rfl⟩ : ∃ f, fuel = f + 1 := ⟨fuel - 1, by omega⟩
    have h1 : files.has n = true := by
      unfold NMap.has
      cases hg : files.get? n with
      | none => exact absurd hg (hall n (by omega))
      | some _ => rfl
    rw [findLast_go_eq, h1, if_pos rfl]
    exact findLast_go hall hno k (n + 1) f n (by omega) (by omega)

theorem findLast_eq {files : NMap Bytes} {N : Nat} (hall : ∀ f, f ≤ N → files.get? f ≠ none)
    (hno : files.get? (N + 1) = none) : findLast files 0 = N := by
  unfold findLast
  have := NMap.length_ge (N + 1) files (fun f hf => hall f (by omega))
  exact findLast_go hall hno N 0 _ 0 (by omega) (by omega)

/-! ### logs -/

abbrev LRec := Nat × RecordList

def logBytes (recs : List LRec) : Bytes := recs.flatMap (fun r => idxRecBytes r.1 r.2)

/-- a record the scan accepts: tag in range, size field below the deleted bit -/
def RecLogOK (bits : Nat) (r : LRec) : Prop :=
  r.1 < 2 ^ bits ∧ (encodeRL r.2).length + 4 < two31

theorem logBytes_cons (r : LRec) (rs : List LRec) :
    logBytes (r :: rs) = idxRecBytes r.1 r.2 ++ logBytes rs := by
  simp [logBytes]

theorem logBytes_append (a b : List LRec) : logBytes (a ++ b) = logBytes a ++ logBytes b := by
  simp [logBytes]

theorem logBytes_length_ge : ∀ recs : List LRec, recs.length ≤ (logBytes recs).length
  | [] => by simp [logBytes]
  | r :: rs => by
    have := logBytes_length_ge rs
    rw [logBytes_cons, List.length_append, idxRecBytes_length]
    simp only [List.length_cons]
    omega

theorem logBytes_eq_nil {recs : List LRec} (h : logBytes recs = []) : recs = [] := by
  cases recs with
  | nil => rfl
  | cons r rs =>
    rw [logBytes_cons] at h
    have := congrArg List.length h
    rw [List.length_append, idxRecBytes_length] at this
    simp at this

/-- the bucket table a scan of one file's records builds -/
def scanRecs (max fnum : Nat) : Nat → List LRec → NMap Nat → NMap Nat
  | _, [], bk => bk
  | pos, r :: rs, bk =>
    scanRecs max fnum (pos + (idxRecBytes r.1 r.2).length) rs (bk.set r.1 (fnum * max + pos + 4))

theorem scanRecs_append (max fnum : Nat) : ∀ (a b : List LRec) (pos : Nat) (bk : NMap Nat),
    scanRecs max fnum pos (a ++ b) bk =
      scanRecs max fnum (pos + (logBytes a).length) b (scanRecs max fnum pos a bk)
  | [], b, pos, bk => by simp [scanRecs, logBytes]
  | r :: a, b, pos, bk => by
    simp only [List.cons_append, scanRecs]
    rw [scanRecs_append max fnum a b]
    rw [logBytes_cons, List.length_append, Nat.add_assoc]

/-- the table after scanning files `0..N` of a log in order -/
def scanTo (max : Nat) (lg : Nat → List LRec) : Nat → NMap Nat
  | 0 => scanRecs max 0 0 (lg 0) []
  | N + 1 => scanRecs max (N + 1) 0 (lg (N + 1)) (scanTo max lg N)

theorem scanTo_congr (max : Nat) {lg lg' : Nat → List LRec} : ∀ (N : Nat),
    (∀ f, f ≤ N → lg' f = lg f) → scanTo max lg' N = scanTo max lg N
  | 0, h => by simp only [scanTo, h 0 (Nat.le_refl _)]
  | N + 1, h => by
    simp only [scanTo, h (N + 1) (Nat.le_refl _)]
    rw [scanTo_congr max N (fun f hf => h f (by omega))]

/-- scanning files `n, n+1, …, n+k-1` on top of `bk` -/
def scanRange (max : Nat) (lg : Nat → List LRec) : Nat → Nat → NMap Nat → NMap Nat
  | _, 0, bk => bk
  | n, k + 1, bk => scanRange max lg (n + 1) k (scanRecs max n 0 (lg n) bk)

theorem scanRange_snoc (max : Nat) (lg : Nat → List LRec) : ∀ (k n : Nat) (bk : NMap Nat),
    scanRange max lg n (k + 1) bk = scanRecs max (n + k) 0 (lg (n + k)) (scanRange max lg n k bk)
  | 0, n, bk => by simp [scanRange]
  | k + 1, n, bk => by
    have := scanRange_snoc max lg k (n + 1) (scanRecs max n 0 (lg n) bk)
    simp only [scanRange] at this ⊢
    rw [this]
    have e : n + 1 + k = n + (k + 1) := by omega
    rw [e]

theorem scanRange_eq_scanTo (max : Nat) (lg : Nat → List LRec) : ∀ N : Nat,
    scanRange max lg 0 (N + 1) [] = scanTo max lg N
  | 0 => by simp [scanRange, scanTo]
  | N + 1 => by
    rw [scanRange_snoc, scanRange_eq_scanTo max lg N]
    simp [scanTo]

/-! ### `scanFile` on a well-formed log file -/

theorem scanFile_log {bits max fnum : Nat} (h31 : bits ≤ 31) :
    ∀ (recs : List LRec) (pre : Bytes) (bk : NMap Nat) (fuel : Nat),
      (∀ r ∈ recs, RecLogOK bits r) → recs.length < fuel →
      scanFile (2 ^ bits) max fnum fuel (pre ++ logBytes recs) pre.length bk =
        some (pre ++ logBytes recs, scanRecs max fnum pre.length recs bk)
  | [], pre, bk, fuel, _, hf => by
    obtain ⟨f, rfl⟩ : ∃ f, fuel = f + 1 := ⟨fuel - 1, by simp at hf; omega⟩
    have h1 : readAt (pre ++ logBytes []) pre.length 4 = none := by
      unfold readAt; simp [logBytes]
    have h2 : availAt (pre ++ logBytes []) pre.length 4 = 0 := by
      unfold availAt; simp [logBytes]
    simp only [scanFile, h1, h2, scanRecs]
    simp
  | r :: rs, pre, bk, fuel, hr, hf => by
    obtain ⟨f, rfl⟩ : ∃ f, fuel = f + 1 := ⟨fuel - 1, by simp at hf; omega⟩
    obtain ⟨b, rl⟩ := r
    have hok0 := hr (b, rl) (by simp)
    have hok : b < 2 ^ bits ∧ (encodeRL rl).length + 4 < two31 := hok0
    have hA : (le32 ((encodeRL rl).length + 4)).length = 4 := leEnc_length 4 _
    have hB : (le32 b).length = 4 := leEnc_length 4 _
    have hb32 : b < 256 ^ 4 := by
      have : 2 ^ bits ≤ 2 ^ 31 := Nat.pow_le_pow_right (by omega) h31
      have := hok.1
      omega
    have hs32 : (encodeRL rl).length + 4 < 256 ^ 4 := by
      have := hok.2; unfold two31 at this; omega
    have efile : pre ++ logBytes ((b, rl) :: rs) =
        pre ++ le32 ((encodeRL rl).length + 4) ++ (le32 b ++ encodeRL rl ++ logBytes rs) := by
      rw [logBytes_cons]; unfold idxRecBytes; simp [List.append_assoc]
    have efile2 : pre ++ logBytes ((b, rl) :: rs) =
        (pre ++ le32 ((encodeRL rl).length + 4)) ++ (le32 b ++ encodeRL rl) ++ logBytes rs := by
      rw [logBytes_cons]; unfold idxRecBytes; simp [List.append_assoc]
    have h1 : readAt (pre ++ logBytes ((b, rl) :: rs)) pre.length 4 =
        some (le32 ((encodeRL rl).length + 4)) := by
      have := readAt_at_end pre (le32 ((encodeRL rl).length + 4))
        (le32 b ++ encodeRL rl ++ logBytes rs)
      rw [hA] at this
      rw [efile, this]
    have h2 : readAt (pre ++ logBytes ((b, rl) :: rs)) (pre.length + 4) ((encodeRL rl).length + 4) =
        some (le32 b ++ encodeRL rl) := by
      have := readAt_at_end (pre ++ le32 ((encodeRL rl).length + 4)) (le32 b ++ encodeRL rl)
        (logBytes rs)
      rw [efile2, ← this]
      congr 1
      simp [hA]
    have h3 : leDec (le32 ((encodeRL rl).length + 4)) = (encodeRL rl).length + 4 :=
      leDec_leEnc 4 _ hs32
    have h4 : leDec ((le32 b ++ encodeRL rl).take 4) = b := by
      rw [List.take_left' hB]; exact leDec_leEnc 4 _ hb32
    have h5 : ¬ ((encodeRL rl).length + 4 ≥ two31) := by have := hok.2; omega
    have h6 : ¬ (b ≥ 2 ^ bits) := by have := hok.1; omega
    have ih := scanFile_log (bits := bits) (max := max) (fnum := fnum) h31 rs
      (pre ++ idxRecBytes b rl) (bk.set b (fnum * max + pre.length + 4)) f
      (fun x hx => hr x (by simp [hx])) (by simp at hf; omega)
    have e1 : pre ++ idxRecBytes b rl ++ logBytes rs = pre ++ logBytes ((b, rl) :: rs) := by
      rw [logBytes_cons]; simp [List.append_assoc]
    have e2 : (pre ++ idxRecBytes b rl).length = pre.length + 4 + ((encodeRL rl).length + 4) := by
      rw [List.length_append, idxRecBytes_length]; omega
    rw [e1, e2] at ih
    rw [scanFile]
    simp only [h1, h3, h5, if_false, h2, h4, h6]
    rw [Nat.add_assoc (fnum * max)] at ih
    rw [ih]
    simp only [scanRecs]
    rw [idxRecBytes_length]
    have e3 : pre.length + 4 + ((encodeRL rl).length + 4) = pre.length + (8 + (encodeRL rl).length) := by
      omega
    rw [e3, Nat.add_assoc (fnum * max)]

/-! ### `scanIndex` on a well-formed log -/

theorem scanIndex_go_eq (nb max fuel n last : Nat) (files : NMap Bytes) (bk : NMap Nat) :
    scanIndex.go nb max (fuel + 1) n last files bk =
      match files.get? n with
      | none => some (files, bk, last)
      | some file =>
        if file.isEmpty then scanIndex.go nb max fuel (n + 1) n files bk else
        match scanFile nb max n (file.length + 1) file 0 bk with
        | none => none
        | some (file', bk') => scanIndex.go nb max fuel (n + 1) n (files.set n file') bk' := rfl

theorem scanIndex_go_log {bits max N : Nat} (h31 : bits ≤ 31) {files0 : NMap Bytes}
    {lg : Nat → List LRec}
    (hfiles : ∀ f, f ≤ N → files0.get? f = some (logBytes (lg f)))
    (hno : files0.get? (N + 1) = none)
    (hrec : ∀ f, f ≤ N → ∀ r ∈ lg f, RecLogOK bits r) :
    ∀ (k n fuel last : Nat) (files : NMap Bytes) (bk : NMap Nat), n + k = N + 1 → k + 1 ≤ fuel →
      (∀ f, files.get? f = files0.get? f) →
      ∃ files', scanIndex.go (2 ^ bits) max fuel n last files bk =
          some (files', scanRange max lg n k bk, if k = 0 then last else N) ∧
        ∀ f, files'.get? f = files0.get? f
  | 0, n, fuel, last, files, bk, hn, hf, heq => by
    obtain ⟨f, rfl⟩ : ∃ f, fuel = f + 1 := ⟨fuel - 1, by omega⟩
    have : n = N + 1 := by omega
    subst this
    refine ⟨files, ?_, heq⟩
    rw [scanIndex_go_eq, heq, hno]
    simp [scanRange]
  | k + 1, n, fuel, last, files, bk, hn, hf, heq => by
    obtain ⟨f, rfl⟩ : ∃ f, fuel = f + 1 := ⟨fuel - 1, by omega⟩
    have hget : files.get? n = some (logBytes (lg n)) := by rw [heq, hfiles n (by omega)]
    rw [scanIndex_go_eq, hget]
    simp only
    have hlast : (if k + 1 = 0 then last else N) = (if k = 0 then n else N) := by
      by_cases hk : k = 0
      · simp only [hk]; simp; omega
      · simp [hk]
    by_cases hem : (logBytes (lg n)).isEmpty = true
    · rw [if_pos hem]
      have hnil : lg n = [] := logBytes_eq_nil (List.isEmpty_iff.mp hem)
      obtain ⟨files', g1, g2⟩ := scanIndex_go_log h31 hfiles hno hrec k (n + 1) f n files bk
        (by omega) (by omega) heq
      refine ⟨files', ?_, g2⟩
      rw [g1, hlast]
      simp only [scanRange, hnil, scanRecs]
    · rw [if_neg hem]
      have hs := scanFile_log (bits := bits) (max := max) (fnum := n) h31 (lg n) [] bk
        ((logBytes (lg n)).length + 1) (hrec n (by omega)) (by
          have := logBytes_length_ge (lg n); omega)
      simp only [List.nil_append, List.length_nil] at hs
      rw [hs]
      simp only
      obtain ⟨files', g1, g2⟩ := scanIndex_go_log h31 hfiles hno hrec k (n + 1) f n
        (files.set n (logBytes (lg n))) (scanRecs max n 0 (lg n) bk) (by omega) (by omega) (by
          intro f'
          rw [NMap.get?_set]
          split
          · rename_i hf'; rw [hf', hfiles n (by omega)]
          · exact heq f')
      refine ⟨files', ?_, g2⟩
      rw [g1, hlast]
      simp only [scanRange]

theorem scanIndex_log {bits max N : Nat} (h31 : bits ≤ 31) {files : NMap Bytes}
    {lg : Nat → List LRec}
    (hfiles : ∀ f, f ≤ N → files.get? f = some (logBytes (lg f)))
    (hno : files.get? (N + 1) = none)
    (hrec : ∀ f, f ≤ N → ∀ r ∈ lg f, RecLogOK bits r) :
    ∃ files', scanIndex (2 ^ bits) max files 0 = some (files', scanTo max lg N, N) ∧
      ∀ f, files'.get? f = files.get? f := by
  have hlen := NMap.length_ge (N + 1) files (fun f hf => by rw [hfiles f (by omega)]; simp)
  obtain ⟨files', g1, g2⟩ := scanIndex_go_log (max := max) h31 hfiles hno hrec (N + 1) 0
    (files.length + 1) 0 files [] (by omega) (by omega) (fun _ => rfl)
  refine ⟨files', ?_, g2⟩
  unfold scanIndex
  rw [g1, scanRange_eq_scanTo]
  simp

end Sth
