/-
C10 widened (U1) — multi-chunk case, main lemmas: the state index.Open returns after flushing the
removal pool (any order) satisfies Inv / XInv / CInv for `C.spec`; reopening its directory likewise.
Also two generic facts about quiesced states: dropping the written-out pool (`icur := []`) and
`openStoreR` of the directory of a quiesced state.
Core Lean only.
-/
import Sth.Lemmas.C10BInv

namespace Sth

namespace C10B

open LegacyC

/-! ### generic: a quiesced state without its written-out pool -/

section
variable {c : Cfg} {U : List (Bytes × Bytes)} {cfg : Cfg} {m : Mem} {d : Disk} {spec : Spec} {n B : Nat}

theorem idxRecords_drop_icur (hI : IInv m d) (b : Nat) :
    idxRecords { m with icur := [] } d b = idxRecords m d b := by
  unfold idxRecords
  simp only [NMap.get?]
  cases hn : m.inext.get? b with
  | some rl => rfl
  | none =>
    simp only
    cases hc : m.icur.get? b with
    | some rl => exact hI.curDisk b rl hc
    | none => rfl

theorem inv_drop_icur (hI : Inv c U ⟨cfg, m, d⟩ spec n B) :
    Inv c U ⟨cfg, { m with icur := [] }, d⟩ spec n B := by
  refine ⟨hI.kind, hI.imm, hI.bits8, hI.bits31, ?_, ?_, ?_, ⟨hI.cnt.mh, hI.cnt.cid, hI.cnt.idx⟩, hI.nodup, hI.w⟩
  · exact AInv.mono hI.a (fun _ _ _ _ hg => hg) (fun _ hb => hb) (fun b => idxRecords_drop_icur hI.i b)
  · exact hI.p.frame rfl rfl rfl rfl rfl rfl rfl rfl
  · exact ⟨hI.i.imax, (fun b rl hb => by cases hb), hI.i.len, hI.i.noFiles, hI.i.sorted⟩

theorem xinv_drop_icur (hX : XInv c ⟨cfg, m, d⟩) : XInv c ⟨cfg, { m with icur := [] }, d⟩ :=
  ⟨hX.cfg, hX.bits, hX.imax, hX.pmax, hX.ihdr, hX.phdr, hX.pall, hX.inextLt, hX.log.frame rfl rfl rfl rfl rfl⟩

end

/-! ### generic: `openStoreR` on the directory of a quiesced state (multihash primary, empty freelist) -/

section
variable {c : Cfg} {U : List (Bytes × Bytes)} {cfg : Cfg} {m : Mem} {d : Disk} {spec : Spec} {n B : Nat}

theorem openFreelist_empty (h : d.free = some []) : openFreelist d = d := by
  cases d
  simp only at h
  subst h
  rfl

theorem reopen_quiesced (hc : c.Legal) (hk : c.kind = .mh) (hI : Inv c U ⟨cfg, m, d⟩ spec n B)
    (hX : XInv c ⟨cfg, m, d⟩) (hsn : d.snap = none) (hfr : d.free = some []) (hcid : d.cidfile = none)
    (hin : m.inext = []) (hpn : m.pnext = []) :
    ∃ files' mr, openStoreR c d = ({ d with ifiles := files' }, .ok mr) ∧
      (∀ f, files'.get? f = d.ifiles.get? f) ∧
      Inv c U ⟨c, mr, { d with ifiles := files' }⟩ spec n B ∧ XInv c ⟨c, mr, { d with ifiles := files' }⟩ ∧
      mr.inext = [] ∧ mr.pnext = [] ∧ NMap.Sorted mr.buckets ∧
      (∀ b, (mr.buckets.get? b).getD 0 = (m.buckets.get? b).getD 0) := by
  have hIp : PInv m d := hI.p
  have hIi : IInv m d := hI.i
  have hkind : m.kind = c.kind := hI.kind
  have hkm : m.kind = .mh := by rw [hkind]; exact hk
  have hbits : m.bits = c.bits := hX.bits
  have himax : m.imax = c.ifs := hX.imax
  obtain ⟨lg, hl⟩ := hX.log
  have hlf : ∀ f, f ≤ m.ifileNum → d.ifiles.get? f = some (logBytes (lg f)) := hl.files
  obtain ⟨cf, pfn, plen, files', fr, eqO, o2, _, o5, o6⟩ :=
    recover_form c hc d m.pfileNum m.ifileNum lg (fun _ => []) hX.ihdr hsn hX.phdr hX.pall
      (fun hk' => (hIp.mh hkm).2.2 _ (Nat.lt_succ_self _))
      (fun f hf => by rw [hlf f hf, List.append_nil]) (hIi.noFiles _ (Nat.lt_succ_self _))
      (fun f hf r hr => by rw [← hbits]; exact hl.recs f hf r hr) (fun _ _ => isTorn_nil _)
  obtain ⟨rfl, rfl, rfl⟩ := o2 hk
  have hcongr : ∀ f, files'.get? f = d.ifiles.get? f := by
    intro f
    rcases Nat.lt_or_ge m.ifileNum f with h | h
    · exact o6 f h
    · rw [o5 f h, hlf f h]
  -- the freelist is untouched
  have hfr' : fr = d.free := by
    have h1 : openStoreR c d = openStore c d := by unfold openStoreR; rw [openFreelist_empty hfr]
    have h2 : (openStoreR c d).1.free = fr := by rw [eqO]
    obtain ⟨cf2, pfn2, plen2, files2, bk2, q1, _⟩ := openStore_ok c hc d m.pfileNum m.ifileNum
      hX.phdr hX.pall (fun hk' => (hIp.mh hkm).2.2 _ (Nat.lt_succ_self _))
      (Q := fun _ _ => True)
      (by
        intro dP e1 e2 e3
        obtain ⟨files3, g1, _⟩ := openIndex_scan c hc dP m.ifileNum lg (by rw [e1]; exact hX.ihdr)
          (by rw [e2]; exact hsn) (fun f hf => by rw [e3]; exact hlf f hf)
          (by rw [e3]; exact hIi.noFiles _ (Nat.lt_succ_self _))
          (fun f hf r hr => by rw [← hbits]; exact hl.recs f hf r hr)
        exact ⟨files3, _, g1, trivial⟩)
    rw [h1, q1] at h2
    simp only at h2
    rw [← h2, hfr]; rfl
  subst hfr'
  have hdisk : ({ d with free := d.free, cidfile := d.cidfile, snap := none, ifiles := files' } : Disk) =
      { d with ifiles := files' } := by
    cases d
    simp only at hsn
    subst hsn
    rfl
  rw [hdisk] at eqO
  have halloc : m.pfileNum = m.precFileNum ∧ m.plength = m.precPos := by
    have := (hIp.mh hkm).1
    rw [hpn] at this
    exact this
  have hr : Reopened m d
      (openMem c (scanTo c.ifs lg m.ifileNum) m.ifileNum (fileOf files' m.ifileNum).length m.pfileNum
        (fileOf d.pfiles m.pfileNum).length)
      { d with ifiles := files' } := by
    refine ⟨hkind.symm, hI.imm.symm, hbits.symm, himax.symm, hX.pmax.symm, rfl, rfl, rfl, rfl, rfl,
      rfl, scanTo_sorted _ _ _, ?_, hcongr, rfl, ?_, rfl, ?_, ?_, ?_, rfl, rfl⟩
    · intro b
      have := hl.table b
      rw [himax] at this
      exact this.symm
    · intro file hf; rw [hcid] at hf; cases hf
    · intro _; exact halloc.1
    · show (fileOf d.pfiles m.pfileNum).length = m.precPos
      rw [(hIp.mh hkm).2.1]; exact halloc.2
    · intro _; exact ⟨rfl, (hIp.mh hkm).2.1⟩
  obtain ⟨hI', hX'⟩ := reopen_inv hI hX hin hpn hr
  exact ⟨files', _, eqO, hcongr, hI', hX', rfl, rfl, scanTo_sorted _ _ _, hr.table⟩

/-- the consistency of the disk transfers to the reopened table and files -/
theorem diskOK_reopened {kind : PKind} {d : Disk} {bk bk' : NMap Nat} {files' : NMap Bytes}
    (h : DiskOK kind d bk) (hs : NMap.Sorted bk)
    (hf : ∀ f, files'.get? f = d.ifiles.get? f)
    (ht : ∀ b, (bk'.get? b).getD 0 = (bk.get? b).getD 0) (hs' : NMap.Sorted bk') :
    DiskOK kind { d with ifiles := files' } bk' := by
  refine ⟨h.ihdr, h.phdr, ?_⟩
  intro ih hih b pos hmem hpos
  have hget' := NMap.get?_of_mem_sorted hs' hmem
  have hget : bk.get? b = some pos := by
    have := ht b
    rw [hget', Option.getD_some] at this
    cases hb : bk.get? b with
    | none => rw [hb] at this; exact absurd this hpos
    | some p => rw [hb] at this; simp only [Option.getD_some] at this; rw [this]
  obtain ⟨rl, hok⟩ := h.buckets ih hih b pos (NMap.mem_of_get? hget) hpos
  refine ⟨rl, hok.loc.congr hf, hok.sorted, hok.prefixFree, hok.distinct, ?_, hok.notFree⟩
  intro e he
  obtain ⟨key, val, dig, a1, a2⟩ := hok.entries e he
  exact ⟨key, val, dig, a1.congr rfl rfl, a2⟩

end

/-! ### the state after the pool flush -/

theorem ifold_cidfile (pool : NMap RecordList) : ∀ (order : List Nat) (m0 : Mem) (d : Disk) (bl : List (Nat × Nat)),
    (order.foldl (iflushStep pool) (m0, d, bl)).2.1.cidfile = d.cidfile
  | [], _, _, _ => rfl
  | b :: order, m0, d, bl => by
    rw [List.foldl_cons]
    have hstep : (iflushStep pool (m0, d, bl) b).2.1.cidfile = d.cidfile := by
      unfold iflushStep
      simp only
      split <;> rfl
    rw [← hstep]
    exact ifold_cidfile pool order _ _ _

theorem idxFlush_cidfile (m : Mem) (d : Disk) (order : List Nat) : (idxFlush m d order).2.cidfile = d.cidfile := by
  by_cases hne : m.inext.isEmpty = true
  · rw [idxFlush_empty hne]
  · have hne' : m.inext.isEmpty = false := by simpa using hne
    rw [idxFlush_eq hne']
    exact ifold_cidfile _ _ _ _ _

variable {c : Cfg} {U : List (Bytes × Bytes)} {C : LegacyC} {ifs : NMap Bytes}

/-- the state index.Open returns with (pool flushed in `order`, `curPool = nil`) -/
def stateF (c : Cfg) (C : LegacyC) (ifs : NMap Bytes) (order : List Nat) : SState :=
  ⟨c, { (flushedU c C ifs order).1 with icur := [] }, (flushedU c C ifs order).2⟩

theorem cinv_F (x : CtxB c U C ifs) (order : List Nat)
    (hn : C.recs.length + 2 * C.gens.length + 1 < 1073741824) (hB : specW C.spec < two31) :
    CInv c U (stateF c C ifs order) C.spec (C.recs.length + 2 * C.gens.length + 1) (specW C.spec) ∧
      (stateF c C ifs order).d.free = some [] ∧ (stateF c C ifs order).d.cidfile = none ∧
      (stateF c C ifs order).m.inext = [] ∧ (stateF c C ifs order).m.pnext = [] := by
  have hU : Univ c.kind U := by rw [x.hk]; exact x.hU
  have hI0 := inv_P x
  have hX0 := xinv_P x
  obtain ⟨m1, d1, m2, d2, p1, i1, hI2, hX2, hin, hpn, hfl, hrd, _⟩ := flushBoth_inv hU hI0 hX0 hn hB order
  have hp0 : priFlush (memP c C ifs) (C.diskU c ifs) = some (memP c C ifs, C.diskU c ifs) := priFlush_empty rfl
  have p1' : priFlush (memP c C ifs) (C.diskU c ifs) = some (m1, d1) := p1
  rw [hp0] at p1'
  simp only [Option.some.injEq, Prod.mk.injEq] at p1'
  obtain ⟨rfl, rfl⟩ := p1'
  have hfe : flushedU c C ifs order = (m2, d2) := i1
  obtain ⟨hT2, hpl, hk2, hpm2, hfr2, hgc2, hsn2, _, hfl2, _, _⟩ :=
    flushBoth_c07_core hU hI0 hX0.inextLt hn hB order p1 i1 (tag_P x)
  have hst : stateF c C ifs order = ⟨c, { m2 with icur := [] }, d2⟩ := by unfold stateF; rw [hfe]
  rw [hst]
  have hI3 := inv_drop_icur hI2
  have hX3 := xinv_drop_icur hX2
  have hfree : d2.free = some [] := by rw [hfr2]; rfl
  have hflp : m2.flpool = [] := by rw [hfl2]; rfl
  have hfe2 : flEntries d2 = [] := by
    unfold flEntries; rw [hfree]; rfl
  have hrec : recorded (⟨c, { m2 with icur := [] }, d2⟩ : SState) = [] := by
    unfold recorded
    show flEntries d2 ++ m2.flpool = []
    rw [hfe2, hflp]
    rfl
  have hF : FInv (⟨c, { m2 with icur := [] }, d2⟩ : SState) := by
    refine ⟨?_, ?_, ?_, ?_, ?_⟩
    · show d2.free.getD [] = (flEntries d2).flatMap blockBytes
      rw [hfe2, hfree]; rfl
    · rw [hrec]; intro b hb; cases hb
    · rw [hrec]; intro b hb; cases hb
    · rw [hrec]; intro _ _ _ _ _ h; cases h
    · rw [hrec]; exact List.nodup_nil
  have hP : PlInv (⟨c, { m2 with icur := [] }, d2⟩ : SState) := by
    refine ⟨?_, (by rw [hrec]; intro b hb; cases hb)⟩
    intro bkt rl' hrd' e' he'
    have h1 : idxRecords { m2 with icur := [] } d2 bkt = .ok (some rl') := hrd'
    rw [idxRecords_drop_icur hI2.i, hrd bkt] at h1
    have := placed_P x bkt rl' h1 e' he'
    obtain ⟨k, v, hr⟩ := hpl _ this
    right
    refine ⟨k, v, ?_⟩
    show RecAt m2.kind m2.pmax 0 d2 e'.blk k v
    rw [hk2, hpm2]
    exact hr
  have hT3 : TagInv ({ m2 with icur := [] } : Mem) d2 := hT2
  refine ⟨CInv.of_quiesced hU hI3 hX3 hF hP hT3 (by show d2.freeGc = none; rw [hgc2]; rfl)
    (by show d2.snap = none; rw [hsn2]; rfl) hin hpn, hfree, ?_, hin, hpn⟩
  -- the CID file is never created
  show d2.cidfile = none
  have h := idxFlush_cidfile (memP c C ifs) (C.diskU c ifs) (fixOrder order (stateP c C ifs).m.inext.keys)
  rw [i1] at h
  exact h

end C10B

end Sth

namespace Sth

namespace C10B

open LegacyC

variable {c : Cfg} {U : List (Bytes × Bytes)} {C : LegacyC} {ifs : NMap Bytes}

/-! ### the self-contained well-formedness gives the one relative to the run's key universe -/

theorem wfBadU_of_wfBad (hwf : LegacyWFBad c C) (ops : List SOp) :
    LegacyWFBadU c (digestsOf .mh (C.keyOps ++ ops)) C := by
  refine ⟨hwf.bits, hwf.recSize, hwf.gensOK, hwf.freedOK, hwf.sorted, hwf.prefixFree, hwf.distinct, ?_⟩
  intro b rl h e he
  rcases hwf.entries b rl h e he with hb | ⟨i, key, val, dig, h1, h2, h3, h4, h5, h6, h7⟩
  · exact Or.inl hb
  · right
    refine ⟨i, key, val, dig, h1, h2, h3, ?_, h5, h6, h7⟩
    have h8 : C.specEntry e = some (dig, key, val) := by
      unfold specEntry
      have : e.blk.off = C.offsetOf i := by rw [h2]; rfl
      rw [this, C.lookupRec_offsetOf i key val h1]
      simp only [h3, Bool.false_eq_true, if_false, (keyClass_ok h4).1]
    have hmem : (dig, key, val) ∈ C.spec := (mem_spec _).mpr ⟨b, rl, e, h, he, h8⟩
    have hop : SOp.get key ∈ C.keyOps ++ ops := by
      apply List.mem_append_left
      unfold keyOps
      exact List.mem_map.mpr ⟨(dig, key, val), hmem, rfl⟩
    exact mem_digestsOf hop rfl h4

theorem stateF_empty (order : List Nat) (hp : (poolC c C).isEmpty = true) :
    stateF c C ifs order = ⟨c, C.memU c ifs, C.diskU c ifs⟩ := by
  unfold stateF flushedU
  have he : ({ C.memU c ifs with inext := poolC c C } : Mem).inext.isEmpty = true := hp
  rw [idxFlush_empty he]
  have : poolC c C = [] := List.isEmpty_iff.mp hp
  simp only [this]
  rfl

/-- the upgrading open returns the flushed state, whatever the pool and its flush order -/
theorem upgradeOpen_stateF (hc : c.Legal) (hk : c.kind = .mh) (hwf : LegacyWFBadU c U C)
    (hn1 : C.recs.length < 1073741824) (hn2 : C.gens.length < 1073741824)
    (hnr : needRemap c.pfs (C.psizes c) = true) (order : List Nat) :
    ∃ ifs, upgradeOpen c C.dir order = some ((stateF c C ifs order).d, (stateF c C ifs order).m) ∧
      (∀ f, f ≤ C.lastI c → ifs.get? f = some (logBytes (C.lgU c f))) ∧
      (∀ f, C.lastI c < f → ifs.get? f = none) := by
  obtain ⟨ifs, h1, h2, h3⟩ := upgradeOpen_b hc hk hwf hn1 hn2 hnr order
  refine ⟨ifs, ?_, h2, h3⟩
  rw [h1]
  by_cases hp : (poolC c C).isEmpty = true
  · rw [if_pos hp, stateF_empty order hp]
  · rw [if_neg hp]
    rfl

end C10B

end Sth
