/-
C04 — positions inside span files: the span at an offset, and positions that hold a word with the
deleted bit at the start of or inside a deleted span (what a stale freelist entry points at after its
record has been merged into a larger deleted span).
Core Lean only.
-/
import Sth.Lemmas.C04Reap

namespace Sth

/-- span `s` starts at byte offset `off` -/
def SpanAt (ss : List GSpan) (off : Nat) (s : GSpan) : Prop :=
  ∃ a b, ss = a ++ s :: b ∧ off = (gbytes a).length

theorem SpanAt.append_left {a : List GSpan} {off : Nat} {s : GSpan} (h : SpanAt a off s)
    (b : List GSpan) : SpanAt (a ++ b) off s := by
  obtain ⟨x, y, rfl, rfl⟩ := h
  exact ⟨x, y ++ b, by simp, rfl⟩

theorem SpanAt.append_right {b : List GSpan} {off : Nat} {s : GSpan} (h : SpanAt b off s)
    (a : List GSpan) : SpanAt (a ++ b) ((gbytes a).length + off) s := by
  obtain ⟨x, y, rfl, rfl⟩ := h
  exact ⟨a ++ x, y, by simp, by rw [gbytes_append, List.length_append]⟩

theorem SpanAt.split {a b : List GSpan} {off : Nat} {s : GSpan} (h : SpanAt (a ++ b) off s) :
    SpanAt a off s ∨ ∃ off', off = (gbytes a).length + off' ∧ SpanAt b off' s := by
  obtain ⟨x, y, e, rfl⟩ := h
  rcases List.append_eq_append_iff.mp e with ⟨c, rfl, e2⟩ | ⟨c, rfl, e2⟩
  · -- x = a ++ c
    right
    exact ⟨(gbytes c).length, by rw [gbytes_append, List.length_append], c, y, e2, rfl⟩
  · -- a = x ++ c, c ++ b = s :: y
    cases c with
    | nil =>
      simp only [List.nil_append] at e2
      right
      refine ⟨0, by simp, [], y, by simpa using e2.symm, by simp [gbytes]⟩
    | cons t c' =>
      simp only [List.cons_append, List.cons.injEq] at e2
      obtain ⟨rfl, _⟩ := e2
      left
      exact ⟨x, c', rfl, rfl⟩

theorem liveAt_iff_spanAt {ss : List GSpan} {off : Nat} {body : Bytes} :
    (off, body) ∈ liveAt 0 ss ↔ SpanAt ss off ⟨false, body⟩ := by
  constructor
  · intro h
    obtain ⟨a, b, e1, e2⟩ := liveAt_split ss 0 off body h
    exact ⟨a, b, e1, by omega⟩
  · rintro ⟨a, b, rfl, rfl⟩
    have := liveAt_mem_of_split a b 0 body
    simpa using this

/-- reading a word inside a span reads it in the file -/
theorem readU32_mid (pre x post : Bytes) (j : Nat) {raw : Nat} (h : readU32 x j = some raw) :
    readU32 (pre ++ (x ++ post)) (pre.length + j) = some raw := by
  unfold readU32 at h ⊢
  cases hr : readAt x j 4 with
  | none => simp [hr] at h
  | some w =>
    rw [hr] at h
    obtain ⟨hle, rfl⟩ := readAt_eq_some hr
    have hj : j + 4 ≤ x.length := by omega
    have : readAt (pre ++ (x ++ post)) (pre.length + j) 4 = some ((x.drop j).take 4) := by
      rw [readAt_of_le (by simp; omega)]
      congr 1
      rw [List.drop_append, List.drop_of_length_le (by omega)]
      simp only [List.nil_append]
      have e : pre.length + j - pre.length = j := by omega
      rw [e, List.drop_append_of_le_length (by omega), List.take_append_of_le_length (by simp; omega)]
    rw [this]
    exact h

/-- `lp` holds a word with the deleted bit, at the start of (`j = 0`) or inside a deleted span -/
def DeadMark (ss : List GSpan) (lp : Nat) : Prop :=
  ∃ off s j raw, SpanAt ss off s ∧ s.dead = true ∧ lp = off + j ∧ (j = 0 ∨ 4 ≤ j) ∧
    readU32 s.bytes j = some raw ∧ raw ≥ two31

theorem DeadMark.read {ss : List GSpan} {lp : Nat} (h : DeadMark ss lp) :
    ∃ raw, readU32 (gbytes ss) lp = some raw ∧ raw ≥ two31 := by
  obtain ⟨off, s, j, raw, ⟨a, b, rfl, rfl⟩, _, rfl, _, h1, h2⟩ := h
  refine ⟨raw, ?_, h2⟩
  rw [gbytes_append, gbytes_cons]
  exact readU32_mid _ _ _ _ h1

theorem DeadMark.lt {ss : List GSpan} {lp : Nat} (h : DeadMark ss lp) : lp + 4 ≤ (gbytes ss).length := by
  obtain ⟨raw, h1, _⟩ := h.read
  unfold readU32 at h1
  cases hr : readAt (gbytes ss) lp 4 with
  | none => simp [hr] at h1
  | some w =>
    have := (readAt_eq_some hr).1
    omega

theorem DeadMark.append_left {a : List GSpan} {lp : Nat} (h : DeadMark a lp) (b : List GSpan) :
    DeadMark (a ++ b) lp := by
  obtain ⟨off, s, j, raw, h0, h1, h2, h3, h4, h5⟩ := h
  exact ⟨off, s, j, raw, h0.append_left b, h1, h2, h3, h4, h5⟩

theorem DeadMark.append_right {b : List GSpan} {lp : Nat} (h : DeadMark b lp) (a : List GSpan) :
    DeadMark (a ++ b) ((gbytes a).length + lp) := by
  obtain ⟨off, s, j, raw, h0, h1, h2, h3, h4, h5⟩ := h
  exact ⟨_, s, j, raw, h0.append_right a, h1, by rw [h2]; omega, h3, h4, h5⟩

theorem DeadMark.split {a b : List GSpan} {lp : Nat} (h : DeadMark (a ++ b) lp) :
    DeadMark a lp ∨ ∃ lp', lp = (gbytes a).length + lp' ∧ DeadMark b lp' := by
  obtain ⟨off, s, j, raw, h0, h1, h2, h3, h4, h5⟩ := h
  rcases h0.split with h0 | ⟨off', e, h0⟩
  · exact Or.inl ⟨off, s, j, raw, h0, h1, h2, h3, h4, h5⟩
  · exact Or.inr ⟨off' + j, by rw [h2, e]; omega, off', s, j, raw, h0, h1, rfl, h3, h4, h5⟩

theorem DeadMark.start {s : GSpan} (hd : s.dead = true) (hl : s.body.length < two31) :
    DeadMark [s] 0 := by
  refine ⟨0, s, 0, s.raw, ⟨[], [], rfl, rfl⟩, hd, rfl, Or.inl rfl, ?_, ?_⟩
  · have := readU32_span [] s [] hl
    simpa using this
  · unfold GSpan.raw; simp [hd]

theorem SpanAt.single {s t : GSpan} {off : Nat} (h : SpanAt [s] off t) : t = s ∧ off = 0 := by
  obtain ⟨a, b, e, rfl⟩ := h
  cases a with
  | nil => simp at e; exact ⟨e.1.symm, rfl⟩
  | cons x a' => simp at e

/-- merging a deleted span with the deleted span after it keeps every mark -/
theorem DeadMark.merge {b1 : Bytes} {s2 : GSpan} (_hd2 : s2.dead = true) {lp : Nat}
    (hl : (b1 ++ s2.bytes).length < two31)
    (h : DeadMark [(⟨true, b1⟩ : GSpan), s2] lp) : DeadMark [(⟨true, b1 ++ s2.bytes⟩ : GSpan)] lp := by
  have hA : ∀ r, (le32 r).length = 4 := fun r => leEnc_length 4 _
  have e12 : [(⟨true, b1⟩ : GSpan), s2] = [(⟨true, b1⟩ : GSpan)] ++ [s2] := rfl
  rw [e12] at h
  rcases h.split with h1 | ⟨lp', e, h2⟩
  · -- a mark of the first span
    obtain ⟨off, s, j, raw, h0, _, rfl, hj, hr, hraw⟩ := h1
    obtain ⟨rfl, rfl⟩ := h0.single
    rcases hj with rfl | hj
    · have := DeadMark.start (s := (⟨true, b1 ++ s2.bytes⟩ : GSpan)) rfl hl
      simpa using this
    · refine ⟨0, _, j, raw, ⟨[], [], rfl, rfl⟩, rfl, rfl, Or.inr hj, ?_, hraw⟩
      -- the word lies in `b1`, after the 4 header bytes
      obtain ⟨k, rfl⟩ : ∃ k, j = 4 + k := ⟨j - 4, by omega⟩
      have h1 : readU32 b1 k = some raw := by
        unfold readU32 at hr ⊢
        unfold GSpan.bytes at hr
        simp only at hr
        unfold readAt at hr ⊢
        rw [List.drop_append, List.drop_of_length_le (by rw [hA]; omega)] at hr
        simp only [List.nil_append, hA] at hr
        have : 4 + k - 4 = k := by omega
        rw [this] at hr
        exact hr
      have := readU32_mid (le32 (GSpan.raw (⟨true, b1 ++ s2.bytes⟩ : GSpan))) b1 s2.bytes k h1
      rw [hA] at this
      unfold GSpan.bytes
      exact this
  · -- a mark of the second span
    obtain ⟨off, s, j, raw, h0, _, rfl, hj, hr, hraw⟩ := h2
    obtain ⟨hs, rfl⟩ := h0.single
    rw [hs] at hr
    have hlen1 : (gbytes [(⟨true, b1⟩ : GSpan)]).length = 4 + b1.length := by
      rw [gbytes_cons, gbytes_nil, List.append_nil, GSpan.bytes_length]
    refine ⟨0, _, 4 + b1.length + j, raw, ⟨[], [], rfl, rfl⟩, rfl, by rw [e, hlen1]; simp, Or.inr (by omega),
      ?_, hraw⟩
    have := readU32_mid (le32 (GSpan.raw (⟨true, b1 ++ s2.bytes⟩ : GSpan)) ++ b1) s2.bytes [] j hr
    rw [List.length_append, hA, List.append_nil] at this
    unfold GSpan.bytes at this ⊢
    simp only [List.append_assoc] at this ⊢
    exact this

end Sth
