import Sth.Lemmas.C11B1

/-!
C11 Q3c (2): the size invariant through the primary flush (a pure fold over the pooled records).
Core Lean only.
-/

namespace Sth.C11B

open Sth.C11 Sth.C13H Sth.C13X Sth.C11D

/-- the part of the size invariant the flush fold maintains, on the files: spans parse, record spans
    are small, files are short -/
structure FoldF (R P : Nat) (fs : NMap Bytes) : Prop where
  pb : ∀ g, ∃ ss, SpansLt ss ∧ fileOf fs g = gbytes ss
  sz : ∀ g x, x ∈ liveAt 0 (spansOf (fileOf fs g)) → x.2.length ≤ R
  fl : ∀ g, (fileOf fs g).length < P + 4 + R

/-- … and the current file has the recorded length -/
structure FoldInv (R P : Nat) (m : Mem) (d : Disk) : Prop where
  f : FoldF R P d.pfiles
  plen : (fileOf d.pfiles m.pfileNum).length = m.plength

theorem fileOf_set_eq (fs : NMap Bytes) (n : Nat) (v : Bytes) : fileOf (fs.set n v) n = v := by
  unfold fileOf; rw [NMap.get?_set_eq]; rfl

theorem fileOf_set_ne (fs : NMap Bytes) {n g : Nat} (v : Bytes) (h : g ≠ n) :
    fileOf (fs.set n v) g = fileOf fs g := by
  unfold fileOf; rw [NMap.get?_set_ne _ _ h]

theorem FoldF.set {R P : Nat} {fs : NMap Bytes} (h : FoldF R P fs) (n : Nat) {ss : List GSpan}
    (hok : SpansLt ss) (hsz : ∀ x ∈ liveAt 0 ss, x.2.length ≤ R)
    (hlen : (gbytes ss).length < P + 4 + R) : FoldF R P (fs.set n (gbytes ss)) := by
  refine ⟨?_, ?_, ?_⟩
  · intro g
    by_cases hg : g = n
    · subst hg; exact ⟨ss, hok, fileOf_set_eq _ _ _⟩
    · rw [fileOf_set_ne _ _ hg]; exact h.pb g
  · intro g x hx
    by_cases hg : g = n
    · subst hg
      rw [fileOf_set_eq, spansOf_gbytes hok] at hx
      exact hsz x hx
    · rw [fileOf_set_ne _ _ hg] at hx; exact h.sz g x hx
  · intro g
    by_cases hg : g = n
    · subst hg; rw [fileOf_set_eq]; exact hlen
    · rw [fileOf_set_ne _ _ hg]; exact h.fl g

/-- appending one record to a file that parses -/
theorem append_rec {R : Nat} {file : Bytes} {ss : List GSpan} (hok : SpansLt ss)
    (hf : file = gbytes ss) (r : PRec) (hr : psz r ≤ R) (h31 : psz r < two31)
    (hsz : ∀ x ∈ liveAt 0 ss, x.2.length ≤ R) :
    SpansLt (ss ++ [prSpan r]) ∧ file ++ Sth.recBytes r = gbytes (ss ++ [prSpan r]) ∧
    ∀ x ∈ liveAt 0 (ss ++ [prSpan r]), x.2.length ≤ R := by
  have hb : (prSpan r).body.length = psz r := by
    unfold prSpan psz; simp only [List.length_append]
  refine ⟨?_, ?_, ?_⟩
  · intro s hs
    rw [List.mem_append, List.mem_singleton] at hs
    rcases hs with hs | rfl
    · exact hok s hs
    · rw [hb]; exact h31
  · rw [gbytes_append, gbytes_cons, gbytes_nil, List.append_nil, prSpan_bytes, hf]
  · intro x hx
    have : prSpan r = ⟨false, r.key ++ r.val⟩ := rfl
    rw [this, liveAt_snoc_live, List.mem_append, List.mem_singleton] at hx
    rcases hx with hx | rfl
    · exact hsz x hx
    · show (r.key ++ r.val).length ≤ R
      rw [List.length_append]; exact hr

/-- one pooled record written -/
theorem pstep_fold {R : Nat} {m m' : Mem} {d d' : Disk} {r : PRec}
    (h : pstepMh (m, d) r = some (m', d')) (hp : 1 ≤ m.pmax) (hr : psz r ≤ R) (h31 : psz r < two31)
    (hI : FoldInv R m.pmax m d) :
    m'.pmax = m.pmax ∧ m'.visited = m.visited ∧ m.pfileNum ≤ m'.pfileNum ∧
    (∀ g, g < m.pfileNum → d'.pfiles.get? g = d.pfiles.get? g) ∧ FoldInv R m.pmax m' d' := by
  have hdl : (Sth.recBytes r).length = 4 + psz r := Sth.recBytes_length r
  have hdata : le32 (r.key.length + r.val.length) ++ r.key ++ r.val = Sth.recBytes r := rfl
  unfold pstepMh at h
  simp only at h
  rw [hdata] at h
  by_cases hroll : m.plength ≥ m.pmax
  · simp only [hroll, true_and, if_true] at h
    split at h
    · cases h
    · simp only [Option.some.injEq, Prod.mk.injEq] at h
      obtain ⟨rfl, rfl⟩ := h
      have hnew : fileOf (d.pfiles.set (m.pfileNum + 1) []) (m.pfileNum + 1) = [] :=
        fileOf_set_eq _ _ _
      obtain ⟨a1, a2, a3⟩ := append_rec (R := R) (file := []) (ss := []) (fun _ h => by cases h) rfl r
        hr h31 (fun _ h => by cases h)
      simp only [List.nil_append] at a1 a2 a3
      have hF1 : FoldF R m.pmax (d.pfiles.set (m.pfileNum + 1) (gbytes [])) :=
        hI.f.set (m.pfileNum + 1) (ss := []) (fun _ h => by cases h) (fun _ h => by cases h)
          (by rw [gbytes_nil]; show 0 < m.pmax + 4 + R; omega)
      have hF2 := hF1.set (m.pfileNum + 1) a1 a3 (by rw [← a2, hdl]; omega)
      rw [gbytes_nil, ← a2] at hF2
      dsimp only
      rw [hnew, List.nil_append]
      refine ⟨rfl, rfl, Nat.le_succ _, ?_, ⟨hF2, ?_⟩⟩
      · intro g hg
        rw [NMap.get?_set_ne _ _ (by omega), NMap.get?_set_ne _ _ (by omega)]
      · rw [fileOf_set_eq, Nat.zero_add]
  · simp only [hroll, false_and, if_false] at h
    simp only [Option.some.injEq, Prod.mk.injEq] at h
    obtain ⟨rfl, rfl⟩ := h
    obtain ⟨ss, b1, b2⟩ := hI.f.pb m.pfileNum
    obtain ⟨a1, a2, a3⟩ := append_rec (R := R) b1 b2 r hr h31 (by
      intro x hx
      apply hI.f.sz m.pfileNum x
      rw [b2, spansOf_gbytes b1]; exact hx)
    have hF2 := hI.f.set m.pfileNum a1 a3 (by
      rw [← a2, List.length_append, hdl, hI.plen]; omega)
    rw [← a2] at hF2
    dsimp only
    refine ⟨rfl, rfl, Nat.le_refl _, ?_, ⟨hF2, ?_⟩⟩
    · intro g hg
      rw [NMap.get?_set_ne _ _ (by omega)]
    · rw [fileOf_set_eq, List.length_append, hI.plen]

/-- the fold over the pooled records -/
theorem pfold_fold {R : Nat} : ∀ (recs : List PRec) (m : Mem) (d : Disk) (m' : Mem) (d' : Disk),
    recs.foldlM pstepMh (m, d) = some (m', d') → 1 ≤ m.pmax → (∀ r ∈ recs, psz r ≤ R) →
    (∀ r ∈ recs, psz r < two31) → FoldInv R m.pmax m d →
    m'.pmax = m.pmax ∧ m'.visited = m.visited ∧ m.pfileNum ≤ m'.pfileNum ∧
    (∀ g, g < m.pfileNum → d'.pfiles.get? g = d.pfiles.get? g) ∧ FoldInv R m.pmax m' d'
  | [], m, d, m', d', h, _, _, _, hI => by
    simp only [List.foldlM_nil] at h
    cases h
    exact ⟨rfl, rfl, Nat.le_refl _, fun _ _ => rfl, hI⟩
  | r :: recs, m, d, m', d', h, hp, hr, h31, hI => by
    rw [List.foldlM_cons] at h
    cases h1 : pstepMh (m, d) r with
    | none => rw [h1] at h; cases h
    | some md =>
      obtain ⟨m1, d1⟩ := md
      rw [h1] at h
      obtain ⟨a1, a2, a3, a4, a5⟩ := pstep_fold h1 hp (hr r (by simp)) (h31 r (by simp)) hI
      have h' : recs.foldlM pstepMh (m1, d1) = some (m', d') := h
      obtain ⟨b1, b2, b3, b4, b5⟩ := pfold_fold recs m1 d1 m' d' h' (by rw [a1]; exact hp)
        (fun x hx => hr x (by simp [hx])) (fun x hx => h31 x (by simp [hx])) (by rw [a1]; exact a5)
      rw [a1] at b5
      exact ⟨by rw [b1, a1], by rw [b2, a2], by omega,
        fun g hg => by rw [b4 g (by omega), a4 g hg], b5⟩

end Sth.C11B

namespace Sth.C11B

open Sth.C11 Sth.C13H Sth.C13X Sth.C11D

section
variable {c : Cfg} {U : List (Bytes × Bytes)} {cfg : Cfg} {m : Mem} {d : Disk} {spec : Spec}
  {n B pf R : Nat} {psp : Nat → List GSpan}

/-- the files of a described state parse -/
theorem foldF_of (hS : GState c U cfg m d spec n B pf psp) (hI : BInv R m d) :
    FoldF R m.pmax d.pfiles := by
  refine ⟨?_, fun g x hx => hI.sz g x hx, hI.fl⟩
  intro g
  by_cases h1 : pf ≤ g
  · by_cases h2 : g ≤ m.pfileNum
    · exact ⟨psp g, hS.log.ok g h1 h2, fileOf_some (hS.log.files g h1 h2)⟩
    · exact ⟨[], (fun _ h => by cases h), fileOf_none (hS.g.pno g (by show m.pfileNum < g; omega))⟩
  · exact ⟨[], (fun _ h => by cases h), fileOf_none (hS.log.gone g (by omega))⟩

/-- files that are byte for byte the same have the same record spans -/
theorem lv_congr {d d' : Disk} {g : Nat} (h : d'.pfiles.get? g = d.pfiles.get? g) : lv d' g = lv d g := by
  unfold lv fileOf; rw [h]

/-- the size invariant through the primary flush -/
theorem priFlush_b (hU : Univ c.kind U) (hS : HState c U cfg m d spec n B pf psp)
    (hn : n < 1073741824) (hI : BInv R m d) {m1 : Mem} {d1 : Disk}
    (p1 : priFlush m d = some (m1, d1)) : BInv R m1 d1 := by
  obtain ⟨m1', d1', psp1, p1', hS1, q1, _, _, q4, q5, _, _, _, q10, q11, _⟩ := priFlush_h hU hS hn
  rw [p1] at p1'
  simp only [Option.some.injEq, Prod.mk.injEq] at p1'
  obtain ⟨rfl, rfl⟩ := p1'
  have hG := hS.gs.g
  have hvs : ∀ f ∈ m1.visited, f < m1.pfileNum ∧ (lv d1 f = [] → fileOf d1.pfiles f = []) := by
    intro f hf
    rw [q4] at hf
    obtain ⟨a, b⟩ := hI.vs f hf
    refine ⟨by omega, ?_⟩
    rw [lv_congr (q11 f a)]
    unfold fileOf at b ⊢
    rw [q11 f a]
    exact b
  by_cases hne : m.pnext.isEmpty = true
  · have e := priFlush_empty (d := d) hne
    rw [e] at p1
    simp only [Option.some.injEq, Prod.mk.injEq] at p1
    obtain ⟨rfl, rfl⟩ := p1
    exact hI
  · have hne' : m.pnext.isEmpty = false := by simpa using hne
    have hk : m.kind = .mh := hG.kind
    rw [priFlush_mh_eq hk hne'] at p1
    have hF0 : FoldInv R m.pmax { m with pcur := m.pnext, pnext := [] } d :=
      ⟨foldF_of hS.gs hI, hG.plen⟩
    obtain ⟨b1, _, _, _, b5⟩ := pfold_fold (R := R) m.pnext { m with pcur := m.pnext, pnext := [] } d
      m1 d1 p1 hG.pmax1 hI.pz (fun r hr => (hG.recs r hr).2) hF0
    have b5' : FoldInv R m.pmax m1 d1 := b5
    refine ⟨(by rw [q1]; intro r hr; cases hr), fun g x hx => b5'.f.sz g x hx, ?_, hvs⟩
    intro g
    rw [q5]
    exact b5'.f.fl g

end

end Sth.C11B
