/-
C10 widened (U1) — a decidable check of `LegacyWFBad`, and "multi-chunk" in terms of the legacy primary.
Core Lean only.
-/
import Sth.Lemmas.C10BMain

namespace Sth

namespace C10B

open LegacyC

variable {c : Cfg} {C : LegacyC}

/-- the executable form of `LegacyWFBad` -/
def wfCheckBad (c : Cfg) (C : LegacyC) : Bool :=
  decide (C.bits = c.bits) &&
  C.recs.all (fun kv => decide (recSize kv < two31)) &&
  C.gens.all (fun r => decide (r.1 < 2 ^ c.bits) && decide ((encodeRL r.2).length + 4 < two31) &&
    r.2.all (fun e => decide (e.pfx.length < 256) && decide (e.blk.off < two64) && decide (e.blk.size < two32))) &&
  (match C.freed with | some l => l.all (fun i => decide (i < C.recs.length)) | none => true) &&
  C.table.all (fun br =>
    pairwiseOK (fun a b => decide (klt a b)) (br.2.map (·.pfx)) &&
    pairwiseOK (fun a b => decide (apart a b)) (br.2.map (·.pfx)) &&
    decide ((br.2.map (·.blk)).Nodup) &&
    br.2.all (fun e =>
      (decide (C.badOff e.blk.off) && !e.pfx.isEmpty) ||
      match lookupRec C.recs 0 0 e.blk.off with
      | none => false
      | some (i, k, v) =>
        decide (e.blk.size = k.length + v.length) && !C.isFreed i &&
        match keyClass .mh k with
        | .error _ => false
        | .ok dig => decide (bucketOfKey c.bits dig = some br.1) && !e.pfx.isEmpty &&
            decide (pfx e.pfx (dig.drop (c.bits / 8)))))

theorem wfBad_of_check (h : wfCheckBad c C = true) : LegacyWFBad c C := by
  unfold wfCheckBad at h
  simp only [Bool.and_eq_true, decide_eq_true_eq, List.all_eq_true] at h
  obtain ⟨⟨⟨⟨h1, h2⟩, h3⟩, h4⟩, h5⟩ := h
  have htab : ∀ b rl, C.table.get? b = some rl → (b, rl) ∈ C.table := fun b rl hg => NMap.mem_of_get? hg
  refine ⟨h1, h2, ?_, ?_, ?_, ?_, ?_, ?_⟩
  · intro r hr
    obtain ⟨⟨a1, a2⟩, a3⟩ := h3 r hr
    refine ⟨⟨a1, a2⟩, ⟨fun e he => ?_, by unfold two31 at a2; unfold two32; omega⟩⟩
    have := a3 e he
    exact ⟨this.1.1, this.1.2, this.2⟩
  · intro l hl i hi
    rw [hl] at h4
    simp only [List.all_eq_true, decide_eq_true_eq] at h4
    exact h4 i hi
  · intro b rl hg
    have := (h5 _ (htab b rl hg)).1.1.1
    exact (pairwise_of_pairwiseOK this).imp (fun h => by simpa using h)
  · intro b rl hg
    have := (h5 _ (htab b rl hg)).1.1.2
    exact (pairwise_of_pairwiseOK this).imp (fun h => by simpa using h)
  · intro b rl hg
    exact (h5 _ (htab b rl hg)).1.2
  · intro b rl hg e he
    have := (h5 _ (htab b rl hg)).2 e he
    simp only [Bool.or_eq_true, Bool.and_eq_true, decide_eq_true_eq, Bool.not_eq_true',
      List.isEmpty_eq_false_iff] at this
    rcases this with ⟨hb, hne⟩ | this
    · exact Or.inl ⟨hb, hne⟩
    · right
      cases hl : lookupRec C.recs 0 0 e.blk.off with
      | none => rw [hl] at this; cases this
      | some x =>
        obtain ⟨i, k, v⟩ := x
        rw [hl] at this
        simp only [Bool.and_eq_true, decide_eq_true_eq, Bool.not_eq_true'] at this
        obtain ⟨⟨a1, a2⟩, a3⟩ := this
        cases hkc : keyClass .mh k with
        | error _ => rw [hkc] at a3; cases a3
        | ok dig =>
          rw [hkc] at a3
          simp only [Bool.and_eq_true, decide_eq_true_eq, Bool.not_eq_true', List.isEmpty_eq_false_iff] at a3
          obtain ⟨j, g1, g2, g3⟩ := lookupRec_sound C.recs 0 0 e.blk.off i k v hl
          simp only [Nat.zero_add] at g1 g3
          refine ⟨j, k, v, dig, g2, ?_, g1 ▸ a2, hkc, a3.1.1, a3.1.2, a3.2⟩
          cases hb : e.blk
          rw [hb] at a1 g3
          simp only at a1 g3
          unfold blockOf offsetOf
          rw [g2]
          simp only [Option.getD_some, recSize, a1, g3]

/-- a legacy primary that does not fit one file below the limit gets a remapper -/
theorem needRemap_of_le (c : Cfg) (C : LegacyC) (h : c.pfs ≤ (legacyPrimary C.recs).length) :
    needRemap c.pfs (C.psizes c) = true := by
  have hs := psizes_sum c C
  cases hp : C.psizes c with
  | nil =>
    exfalso
    have := C.pfilesL_ne c.pfs
    unfold psizes at hp
    exact this (List.map_eq_nil_iff.mp hp)
  | cons s rest =>
    cases rest with
    | nil =>
      rw [hp] at hs
      simp only [List.sum_cons, List.sum_nil, Nat.add_zero] at hs
      simp only [needRemap, decide_eq_true_eq]
      omega
    | cons s2 rest2 => rfl

end C10B

end Sth
