/-
C07 with index GC — what an index GC cycle leaves in place, byte for byte: every live record the bucket
table points at still sits at the same offset of the same file with the same body (`GK`).  The C04
development (Sth/Lemmas/C04IGC.lean, `GI`) shows that the READS through the table are unchanged; the
consistency check also looks at the bytes (the record list must parse exactly), hence this refinement,
threaded through `truncateFreeFiles` and the reap loop of `Index.gc` next to `GI`.
Core Lean only.
-/
import Sth.Lemmas.C04IGC

namespace Sth

/-- a live span with body `body` sits at offset `off` of index file `f` -/
def RawAt (files : NMap Bytes) (f off : Nat) (body : Bytes) : Prop :=
  ∃ pre rest, files.get? f = some (pre ++ ((⟨false, body⟩ : GSpan).bytes ++ rest)) ∧ pre.length = off

theorem rawAt_of_live {files : NMap Bytes} {f off : Nat} {ss : List GSpan} {body : Bytes}
    (hfile : files.get? f = some (gbytes ss)) (hx : (off, body) ∈ liveAt 0 ss) :
    RawAt files f off body := by
  obtain ⟨a, b, rfl, e⟩ := liveAt_split ss 0 off body hx
  refine ⟨gbytes a, gbytes b, ?_, by omega⟩
  rw [hfile, gbytes_append, gbytes_cons]

/-- two live spans starting at the same offset of the same bytes are the same span -/
theorem span_unique {pre pre' rest rest' body body' : Bytes} (hl : pre.length = pre'.length)
    (hb : body.length < two31) (hb' : body'.length < two31)
    (h : pre ++ ((⟨false, body⟩ : GSpan).bytes ++ rest) =
      pre' ++ ((⟨false, body'⟩ : GSpan).bytes ++ rest')) : body = body' := by
  have h1 := (List.append_inj h hl).2
  unfold GSpan.bytes GSpan.raw at h1
  simp only [Bool.false_eq_true, if_false, Nat.add_zero, List.append_assoc] at h1
  have h2 := List.append_inj h1 (by simp [le32, leEnc_length])
  have e1 : leDec (le32 body.length) = body.length := by
    unfold le32; exact leDec_leEnc 4 _ (by unfold two31 at hb; omega)
  have e2 : leDec (le32 body'.length) = body'.length := by
    unfold le32; exact leDec_leEnc 4 _ (by unfold two31 at hb'; omega)
  have hlen : body.length = body'.length := by rw [← e1, ← e2, h2.1]
  exact (List.append_inj h2.2 hlen).1

section
variable {m : Mem} {d : Disk} {first : Nat} {sp : Nat → List GSpan}

/-- a raw live span at the position the table holds for its tag is a live span of the log -/
theorem IdxLog.live_of_rawAt (h : IdxLog m d first sp) {f off : Nat} {body : Bytes}
    (hr : RawAt d.ifiles f off body) (ho : off < m.imax) (hb : body.length < two31)
    (ht : tbl m (leDec (body.take 4)) = f * m.imax + off + 4) :
    first ≤ f ∧ f ≤ m.ifileNum ∧ (off, body) ∈ liveAt 0 (sp f) := by
  obtain ⟨f1, off1, body1, g1, g2, g3, _, g5⟩ := h.t1 (leDec (body.take 4)) (by rw [ht]; omega)
  have ho1 := (h.t2 f1 g1 g2 _ g3).1
  simp only at ho1
  have hb1 := (h.tag_lt g1 g2 g3).2
  simp only at hb1
  have heq : m.imax * f + off = m.imax * f1 + off1 := by
    rw [ht] at g5
    rw [Nat.mul_comm m.imax f, Nat.mul_comm m.imax f1]
    omega
  obtain ⟨rfl, rfl⟩ := divmod_unique heq ho ho1
  refine ⟨g1, g2, ?_⟩
  obtain ⟨a, b, e, eo⟩ := liveAt_split (sp f) 0 off body1 g3
  obtain ⟨pre, rest, hfile, hpre⟩ := hr
  rw [h.files f g1 g2, e, gbytes_append, gbytes_cons] at hfile
  simp only [Option.some.injEq] at hfile
  have := span_unique (by rw [hpre]; omega) hb1 hb hfile
  rw [← this]
  exact g3

end

/-- the live records the table points at in `d0` are still in place in `d` -/
def GK (m : Mem) (d0 d : Disk) : Prop :=
  ∀ f off body, off < m.imax → body.length < two31 →
    tbl m (leDec (body.take 4)) = f * m.imax + off + 4 →
    RawAt d0.ifiles f off body → RawAt d.ifiles f off body

theorem GK.refl (m : Mem) (d : Disk) : GK m d d := fun _ _ _ _ _ _ h => h

section
variable {m : Mem} {d0 d : Disk} {first : Nat} {sp : Nat → List GSpan}

theorem GK.setFile (hK : GK m d0 d) (hp1 : 1 ≤ m.imax) (hN : m.ifileNum < two32)
    (hl : IdxLog m d first sp) {n : Nat} {ss' : List GSpan} (hR : Reaped m n m.bits (sp n) ss') :
    GK m d0 { d with ifiles := d.ifiles.set n (gbytes ss') } := by
  intro f off body ho hb ht h0
  have hr := hK f off body ho hb ht h0
  obtain ⟨k1, k2, k3⟩ := hl.live_of_rawAt hr ho hb ht
  by_cases hfn : f = n
  · subst hfn
    have hbusy : busyB m f (off, body) :=
      busy_of_tbl hp1 (by omega) ho (hl.tag_lt k1 k2 k3).1 ht
    exact rawAt_of_live (NMap.get?_set_eq _ _ _) (hR.busy _ k3 hbusy)
  · obtain ⟨pre, rest, e, l⟩ := hr
    exact ⟨pre, rest, by show (d.ifiles.set n (gbytes ss')).get? f = _; rw [NMap.get?_set_ne _ _ hfn]; exact e, l⟩

theorem GK.dropFile (hK : GK m d0 d) (hl : IdxLog m d first sp)
    (hnb : ∀ f off body, first ≤ f → f ≤ m.ifileNum → (off, body) ∈ liveAt 0 (sp f) →
      tbl m (leDec (body.take 4)) = f * m.imax + off + 4 → f ≠ first) (hdr : Option IdxHeader) :
    GK m d0 { d with ihdr := hdr, ifiles := d.ifiles.del first } := by
  intro f off body ho hb ht h0
  have hr := hK f off body ho hb ht h0
  obtain ⟨k1, k2, k3⟩ := hl.live_of_rawAt hr ho hb ht
  have hne := hnb f off body k1 k2 k3 ht
  obtain ⟨pre, rest, e, l⟩ := hr
  exact ⟨pre, rest, by show (d.ifiles.del first).get? f = _; rw [NMap.get?_del_ne _ hne]; exact e, l⟩

end

section
variable {m : Mem} {d0 : Disk} {hb hm hp : Nat}

/-- truncateFreeFiles keeps the pointed-at records in place -/
theorem tff_go_k (hp1 : 1 ≤ m.imax) (hN : m.ifileNum < two32) {busySet : List Nat}
    (hbs : ∀ b, tbl m b ≠ 0 → busySet.contains (localizeIdx m.imax (tbl m b)).2 = true) :
    ∀ (fuel n : Nat) (h : IdxHeader) (d : Disk) (budget : Budget),
      GI m d0 d hb hm hp → GK m d0 d → d.ihdr = some h →
      GK m d0 (truncateFreeFiles.go m.ifileNum busySet fuel n h d budget).2.1
  | 0, _, _, _, _, _, hK, _ => by rw [truncateFreeFiles.go]; exact hK
  | fuel + 1, n, h, d, budget, hG, hK, hd => by
    rw [truncateFreeFiles.go]
    by_cases hnl : n = m.ifileNum
    · rw [if_pos hnl]; exact hK
    · rw [if_neg hnl]
      by_cases hbz : busySet.contains n = true
      · rw [if_pos hbz]; exact tff_go_k hp1 hN hbs fuel _ _ _ _ hG hK hd
      · rw [if_neg hbz]
        have hbz' : busySet.contains n = false := by simpa using hbz
        cases hpl : poll budget with
        | mk expired bud =>
        simp only
        by_cases hexp : expired = true
        · rw [if_pos hexp]; exact hK
        · rw [if_neg hexp]
          cases hg : d.ifiles.get? n with
          | none => simp only; exact tff_go_k hp1 hN hbs fuel _ _ _ _ hG hK hd
          | some file =>
            simp only
            obtain ⟨sp, e1, hl, r1, r2, r3⟩ := hG.range hd rfl hg hnl
            have hnb := notBusy_of_set (d := d) hp1 hN hbs hl hbz'
            by_cases hfn : h.first = n
            · rw [if_pos hfn]
              have hnb' : ∀ f off body, h.first ≤ f → f ≤ m.ifileNum → (off, body) ∈ liveAt 0 (sp f) →
                  tbl m (leDec (body.take 4)) = f * m.imax + off + 4 → f ≠ h.first := by
                intro f off body g1 g2 g3 g4; rw [hfn]; exact hnb f off body g1 g2 g3 g4
              have hG' := hG.dropFile hp1 hN hl (by omega) hnb'
              have hK' := hK.dropFile hl hnb' (some ⟨hb, hm, h.first + 1, hp⟩)
              have e2 : ({ h with first := h.first + 1 } : IdxHeader) = ⟨hb, hm, h.first + 1, hp⟩ := by
                rw [e1]
              rw [e2, ← hfn]
              exact tff_go_k hp1 hN hbs fuel _ _ _ _ hG' hK' rfl
            · rw [if_neg hfn]
              by_cases hem : file.isEmpty = true
              · rw [if_pos hem]; exact tff_go_k hp1 hN hbs fuel _ _ _ _ hG hK hd
              · rw [if_neg hem]
                have hd' : d.ihdr = some ⟨hb, hm, h.first, hp⟩ := by rw [hd, e1]
                have hR := reaped_nil_of_notBusy hp1 hN hl r1 (by omega) hnb
                obtain ⟨hG', _⟩ := hG.setFile hp1 hN hd' hl r1 r2 hR
                have hK' := hK.setFile hp1 hN hl hR
                exact tff_go_k hp1 hN hbs fuel _ _ _ _ hG' hK' hd

theorem truncateFreeFiles_k {d : Disk} (hp1 : 1 ≤ m.imax) (hN : m.ifileNum < two32) (budget : Budget)
    (hG : GI m d0 d hb hm hp) (hK : GK m d0 d) : GK m d0 (truncateFreeFiles m d budget).2.1 := by
  unfold truncateFreeFiles
  cases hd : d.ihdr with
  | none => exact hK
  | some h =>
    simp only
    split
    · exact hK
    · exact tff_go_k hp1 hN (busySet_ok m) _ _ _ _ _ hG hK hd

/-- the reap loop of Index.gc keeps the pointed-at records in place -/
theorem igc_go_k (hp1 : 1 ≤ m.imax) (hN : m.ifileNum < two32) (start : Nat) :
    ∀ (fuel n : Nat) (seenFirst : Bool) (h : IdxHeader) (d : Disk) (budget : Budget),
      GI m d0 d hb hm hp → GK m d0 d → d.ihdr = some h →
      GK m d0 (indexGC.go m.ifileNum start fuel n seenFirst h m d budget).2.2.1
  | 0, _, _, _, _, _, _, hK, _ => by rw [indexGC.go]; exact hK
  | fuel + 1, n, seenFirst, h, d, budget, hG, hK, hd => by
    rw [indexGC.go]
    by_cases hnl : n = m.ifileNum
    · rw [if_pos hnl]; exact hK
    · rw [if_neg hnl]
      cases hg : d.ifiles.get? n with
      | none => exact hK
      | some file =>
        simp only
        obtain ⟨sp, e1, hl, r1, r2, r3⟩ := hG.range hd rfl hg hnl
        have hd' : d.ihdr = some ⟨hb, hm, h.first, hp⟩ := by rw [hd, e1]
        obtain ⟨ss', q1, q2, q3⟩ := reapIndexRecords_ok (fnum := n)
          (hl.ok n r1 (by omega)) budget
        rw [← r3] at q1 q3
        obtain ⟨hG1, hl1⟩ := hG.setFile hp1 hN hd' hl r1 r2 q2
        have hK1 := hK.setFile hp1 hN hl q2
        rw [← q1] at hG1 hl1 hK1
        cases hres : reapIndexRecords m n file budget with
        | mk r rest =>
        obtain ⟨file', bud⟩ := rest
        rw [hres] at hG1 hl1 hK1 q3
        simp only at hG1 hl1 hK1 q3 ⊢
        have hd1 : ({ d with ifiles := d.ifiles.set n file' } : Disk).ihdr = some h := hd
        have hcont : ∀ (h2 : IdxHeader) (d2 : Disk) (sf : Bool), GI m d0 d2 hb hm hp → GK m d0 d2 →
            d2.ihdr = some h2 →
            GK m d0 (if n + 1 = m.ifileNum then
                if sf = true then (GcOut.ok, m, d2, bud)
                else if h2.first = start then (GcOut.ok, m, d2, bud)
                else indexGC.go m.ifileNum start fuel h2.first sf h2 m d2 bud
              else if n + 1 = start then (GcOut.ok, m, d2, bud)
              else indexGC.go m.ifileNum start fuel (n + 1) sf h2 m d2 bud).2.2.1 := by
          intro h2 d2 sf hG2 hK2 hd2
          repeat' split
          all_goals first
            | exact hK2
            | exact igc_go_k hp1 hN start fuel _ _ _ _ _ hG2 hK2 hd2
        cases r with
        | deadline => exact hK1
        | err => exact hK1
        | kept =>
          simp only [reduceCtorEq, false_and, if_false]
          exact hcont h _ seenFirst hG1 hK1 hd1
        | stale =>
          simp only [true_and]
          by_cases hfn : h.first = n
          · subst hfn
            simp only [if_true]
            have hss : ss' = [] := q3 rfl
            have hlt : h.first < m.ifileNum := by omega
            have hnb' : ∀ f off body, h.first ≤ f → f ≤ m.ifileNum →
                (off, body) ∈ liveAt 0 ((fun f => if f = h.first then ss' else sp f) f) →
                tbl m (leDec (body.take 4)) = f * m.imax + off + 4 → f ≠ h.first := by
              intro f off body g1 g2 g3 g4 hc
              rw [hc] at g3
              simp only [if_true, hss, liveAt] at g3
              cases g3
            have hG2 := hG1.dropFile hp1 hN hl1 hlt hnb'
            have hK2 := hK1.dropFile hl1 hnb' (some ⟨hb, hm, h.first + 1, hp⟩)
            have e2 : ({ h with first := h.first + 1 } : IdxHeader) = ⟨hb, hm, h.first + 1, hp⟩ := by
              rw [e1]
            rw [e2]
            exact hcont ⟨hb, hm, h.first + 1, hp⟩ _ true hG2 hK2 rfl
          · simp only [hfn, if_false]
            exact hcont h _ seenFirst hG1 hK1 hd1

end

/-- Index.gc keeps every live record the table points at in place, byte for byte -/
theorem indexGC_keep {m : Mem} {d : Disk} {hb hm hp : Nat} (hp1 : 1 ≤ m.imax) (hN : m.ifileNum < two32)
    (hG : GI m d d hb hm hp) (scanFree : Bool) (budget : Budget) :
    GK m d (indexGC m d scanFree budget).2.2.1 := by
  unfold indexGC
  have h1 : GI m d (if scanFree = true then truncateFreeFiles m d budget
      else (GcOut.ok, d, budget)).2.1 hb hm hp := by
    split
    · exact truncateFreeFiles_ok hp1 hN budget hG
    · exact hG
  have k1 : GK m d (if scanFree = true then truncateFreeFiles m d budget
      else (GcOut.ok, d, budget)).2.1 := by
    split
    · exact truncateFreeFiles_k hp1 hN budget hG (GK.refl m d)
    · exact GK.refl m d
  cases hr : (if scanFree = true then truncateFreeFiles m d budget else (GcOut.ok, d, budget)) with
  | mk r0 rest =>
  obtain ⟨d1, bud⟩ := rest
  rw [hr] at h1 k1
  simp only at h1 k1 ⊢
  split
  · exact k1
  · cases hd : d1.ihdr with
    | none => exact k1
    | some h =>
      simp only
      split
      · exact k1
      · have h2 := h1.of_gcResume none
        have k2 : GK { m with gcResume := none } d d1 := k1
        exact igc_go_k (m := { m with gcResume := none }) (d0 := d) hp1 hN
          (m.gcResume.getD h.first) (2 * (m.ifileNum - h.first) + 4) (m.gcResume.getD h.first) false h
          d1 bud h2 k2 hd

end Sth
