/-
C10 (byte level) — the upgrading OpenStore evaluated on the directory of well-formed legacy contents:
the directory and memory state it returns (`upgradeOpen_legacy`).
Core Lean only.
-/
import Sth.Lemmas.C10Files

namespace Sth

theorem openIndex_scan0 (c : Cfg) (hc : c.Legal) (d : Disk) (N : Nat) (lg : Nat → List LRec)
    (hih : d.ihdr = some ⟨c.bits, c.ifs, 0, 0⟩) (hsn : d.snap = none)
    (hfiles : ∀ f, f ≤ N → d.ifiles.get? f = some (logBytes (lg f)))
    (hno : d.ifiles.get? (N + 1) = none)
    (hrec : ∀ f, f ≤ N → ∀ r ∈ lg f, RecLogOK c.bits r) :
    ∃ files', openIndex { c with kind := .mh } 0 d =
        .ok ({ d with snap := none, ifiles := files' }, c.bits, c.ifs, scanTo c.ifs lg N, N) ∧
      ∀ f, files'.get? f = d.ifiles.get? f := by
  obtain ⟨p1, p2, p3, p4⟩ := openIndex_pre c hc
  obtain ⟨files', s1, s2⟩ := scanIndex_log (max := c.ifs) hc.2.1 hfiles hno hrec
  refine ⟨files', ?_, s2⟩
  have hh : files'.has N = true := has_eq_true (by rw [s2, hfiles N (Nat.le_refl _)]; simp)
  unfold openIndex
  simp only [p1, p2, if_false, hih, p3, p4, ne_eq, not_true_eq_false, hsn, Bool.false_eq_true, s1,
    and_false, hh, if_true, not_false_eq_true]

namespace LegacyC

section
variable (c : Cfg) (C : LegacyC)

/-- sizes of the numbered primary files -/
def psizes : List Nat := (C.pfilesL c.pfs).map List.length

/-- the offset rewrite of the upgrade -/
def remapC : Nat → Option Nat := remapOff 0 c.pfs (C.psizes c)

def lastP : Nat := (C.pfilesL c.pfs).length - 1
def lastI : Nat := (C.ifilesL c.ifs).length - 1

/-- the bucket table the scan of the chunked index builds -/
def tableT : NMap Nat := scanTo c.ifs (C.lg c.ifs) (C.lastI c)

/-- the logs of the numbered index files after the remap -/
def lgU (f : Nat) : List LRec := lgR (C.remapC c) c.ifs (C.tableT c) (C.lg c.ifs) f

/-- the memory state after the upgrading open, for index files `ifs` -/
def memU (ifs : NMap Bytes) : Mem :=
  { kind := .mh, imm := c.imm, bits := c.bits, imax := c.ifs, buckets := C.tableT c,
    ifileNum := C.lastI c, ilength := (fileOf ifs (C.lastI c)).length,
    pmax := c.pfs, pfileNum := C.lastP c,
    plength := (fileOf (setFiles [] 0 (C.pfilesL c.pfs)) (C.lastP c)).length,
    precFileNum := C.lastP c,
    precPos := (fileOf (setFiles [] 0 (C.pfilesL c.pfs)) (C.lastP c)).length }

/-- the directory after the upgrading open, for index files `ifs` -/
def diskU (ifs : NMap Bytes) : Disk :=
  { ihdr := some ⟨c.bits, c.ifs, 0, c.pfs⟩, ifiles := ifs, snap := none,
    phdr := some ⟨c.pfs, 0⟩, pfiles := setFiles [] 0 (C.pfilesL c.pfs), free := some [], freeGc := none }

end

variable {c : Cfg} {U : List (Bytes × Bytes)} {C : LegacyC}

theorem lastI_lt (hn : C.gens.length < 1073741824) : C.lastI c < 1073741824 := by
  have := C.ifilesL_length_le c.ifs
  unfold lastI; omega

theorem ifiles0_get (f : Nat) (hf : f ≤ C.lastI c) :
    (setFiles [] 0 (C.ifilesL c.ifs)).get? f = some (logBytes (C.lg c.ifs f)) := by
  have hne := C.ifilesL_ne c.ifs
  have hpos : 0 < (C.ifilesL c.ifs).length := List.length_pos_iff.mpr hne
  unfold lastI at hf
  rw [setFiles_get?, if_pos (by omega), Nat.sub_zero]
  exact C.ifilesL_get c.ifs f (by omega)

theorem ifiles0_none (f : Nat) (hf : C.lastI c < f) : (setFiles [] 0 (C.ifilesL c.ifs)).get? f = none := by
  have hne := C.ifilesL_ne c.ifs
  have hpos : 0 < (C.ifilesL c.ifs).length := List.length_pos_iff.mpr hne
  unfold lastI at hf
  rw [setFiles_get?, if_neg (by omega)]
  rfl

theorem pfiles_get (f : Nat) (hf : f ≤ C.lastP c) : (setFiles [] 0 (C.pfilesL c.pfs)).get? f ≠ none := by
  have hne := C.pfilesL_ne c.pfs
  have hpos : 0 < (C.pfilesL c.pfs).length := List.length_pos_iff.mpr hne
  unfold lastP at hf
  rw [setFiles_get?, if_pos (by omega), Nat.sub_zero, List.getElem?_eq_getElem (by omega)]
  simp

theorem pfiles_none (f : Nat) (hf : C.lastP c < f) : (setFiles [] 0 (C.pfilesL c.pfs)).get? f = none := by
  have hne := C.pfilesL_ne c.pfs
  have hpos : 0 < (C.pfilesL c.pfs).length := List.length_pos_iff.mpr hne
  unfold lastP at hf
  rw [setFiles_get?, if_neg (by omega)]
  rfl

theorem lastP_le : C.lastP c ≤ C.recs.length := by
  have := chunkFiles_length_le c.pfs C.out
  have e : C.out.length = C.recs.length := by
    have := congrArg List.length C.out_lengths
    simpa using this
  unfold lastP pfilesL
  omega

theorem psizes_eq : primarySizes (setFiles [] 0 (C.pfilesL c.pfs)) (C.lastP c + 1 - 0) 0 = C.psizes c := by
  have hne := C.pfilesL_ne c.pfs
  have hpos : 0 < (C.pfilesL c.pfs).length := List.length_pos_iff.mpr hne
  have : C.lastP c + 1 - 0 = (C.pfilesL c.pfs).length := by unfold lastP; omega
  rw [this]
  exact primarySizes_all _

theorem lg_recOK (hwf : LegacyWFU c U C) (f : Nat) : ∀ r ∈ C.lg c.ifs f, RecLogOK c.bits r ∧ FlushOK r.2 :=
  fun r hr => hwf.gensOK r (C.lg_mem c.ifs f r hr)

theorem tabRel (hn : (C.groups c.ifs).length ≤ C.lastI c + 1) :
    TabRel (C.lg c.ifs) c.ifs (C.lastI c) (C.tableT c) C.table := by
  rw [C.table_eq_tabTo c.ifs (C.lastI c) hn]
  exact tabRel_to _ _ _

theorem groups_le_lastI : (C.groups c.ifs).length ≤ C.lastI c + 1 := by
  have := C.groups_length_le c.ifs
  have hne := C.ifilesL_ne c.ifs
  have hpos : 0 < (C.ifilesL c.ifs).length := List.length_pos_iff.mpr hne
  unfold lastI; omega

/-- what the table knows about a bucket: its position is where the record of its current list sits -/
theorem table_at (hc : c.Legal) (hn : C.gens.length < 1073741824) (b pos : Nat)
    (h : (C.tableT c).get? b = some pos) :
    ∃ rl f pre post, C.table.get? b = some rl ∧ f ≤ C.lastI c ∧ C.lg c.ifs f = pre ++ (b, rl) :: post ∧
      pos = f * c.ifs + (logBytes pre).length + 4 ∧ (logBytes pre).length < c.ifs ∧
      localizeIdx c.ifs pos = ((logBytes pre).length + 4, f) := by
  obtain ⟨rl, h1, f, pre, post, h2, h3, h4⟩ := ((tabRel groups_le_lastI) b).2 pos h
  have hlt := C.lg_start_lt c.ifs hc.2.2.1 f pre post (b, rl) h3
  refine ⟨rl, f, pre, post, h1, h2, h3, h4, hlt, ?_⟩
  rw [h4]
  exact localizeIdx_eq hc.2.2.1 hlt (by have := lastI_lt (c := c) hn; unfold two32; omega)

/-- every entry of a current list remaps -/
theorem remap_entry (hc : c.Legal) (hwf : LegacyWFU c U C) (hn : C.recs.length < 1073741824)
    (b : Nat) (rl : RecordList) (h : C.table.get? b = some rl) (e : Entry) (he : e ∈ rl) :
    ∃ i key val dig n F g, C.recs[i]? = some (key, val) ∧ e.blk = C.blockOf i ∧ (key, dig) ∈ U ∧
      bucketOfKey c.bits dig = some b ∧ e.pfx ≠ [] ∧ pfx e.pfx (dig.drop (c.bits / 8)) ∧
      (C.pfilesL c.pfs)[n]? = some (F ++ recBytes ⟨C.blockOf i, key, val⟩ ++ g) ∧ F.length < c.pfs ∧
      C.remapC c e.blk.off = some (c.pfs * n + F.length) := by
  obtain ⟨i, key, val, dig, h1, h2, h3, h4, h5, h6, h7⟩ := hwf.entries b rl h e he
  obtain ⟨n, F, g, g1, g2, g3⟩ := C.record_at c.pfs hc.2.2.2.2.1 i (key, val) h1 h3
  refine ⟨i, key, val, dig, n, F, g, h1, h2, h4, h5, h6, h7, g1, g2, ?_⟩
  unfold remapC remapOff psizes
  have hoff := C.blockOf_off_lt hwf.recSize hn i
  rw [h2, if_neg (by unfold two64 at *; omega)]
  exact g3

theorem log_split_unique : ∀ {pre pre' post post' : List LRec} {r r' : LRec},
    pre ++ r :: post = pre' ++ r' :: post' → (logBytes pre).length = (logBytes pre').length →
    pre = pre' ∧ r = r' ∧ post = post'
  | [], [], _, _, _, _, h, _ => by
    simp only [List.nil_append, List.cons.injEq] at h
    exact ⟨rfl, h.1, h.2⟩
  | [], x :: p, _, _, _, _, _, hl => by
    rw [logBytes_cons, List.length_append, idxRecBytes_length] at hl
    simp [logBytes] at hl
    omega
  | x :: p, [], _, _, _, _, _, hl => by
    rw [logBytes_cons, List.length_append, idxRecBytes_length] at hl
    simp [logBytes] at hl
  | x :: p, x' :: p', post, post', r, r', h, hl => by
    simp only [List.cons_append, List.cons.injEq] at h
    obtain ⟨hx, ht⟩ := h
    subst hx
    rw [logBytes_cons, logBytes_cons, List.length_append, List.length_append] at hl
    obtain ⟨h1, h2, h3⟩ := log_split_unique ht (by omega)
    exact ⟨by rw [h1], h2, h3⟩

theorem fileOK (hc : c.Legal) (hwf : LegacyWFU c U C) (hn1 : C.recs.length < 1073741824)
    (hn2 : C.gens.length < 1073741824) (f : Nat) (hf : f ≤ C.lastI c) :
    FileOK (C.remapC c) c.ifs f (C.lg c.ifs f) (C.tableT c) := by
  have hsorted : NMap.Sorted (C.tableT c) := scanTo_sorted _ _ _
  refine ⟨NMap.keys_nodup hsorted, fun pre r post h => C.lg_start_lt c.ifs hc.2.2.1 f pre post r h,
    by have := lastI_lt (c := c) hn2; unfold two32; omega, hc.2.2.1, ?_⟩
  intro b pos hmem _ hfile
  have hget := NMap.get?_of_mem_sorted hsorted hmem
  obtain ⟨rl, f0, pre, post, h1, h2, h3, h4, h5, h6⟩ := table_at hc hn2 b pos hget
  rw [h6] at hfile
  simp only at hfile
  subst hfile
  refine ⟨pre, rl, post, h3, h4, (lg_recOK hwf f0 (b, rl) (by rw [h3]; simp)).2, ?_⟩
  rw [List.all_eq_true]
  intro e he
  obtain ⟨i, key, val, dig, n, F, g, _, _, _, _, _, _, _, _, g9⟩ := remap_entry hc hwf hn1 b rl h1 e he
  rw [g9]; rfl

/-- a record the table points at holds its bucket's current list -/
theorem selected_current (hc : c.Legal) (hn2 : C.gens.length < 1073741824) (f : Nat) (hf : f ≤ C.lastI c)
    (pre post : List LRec) (r : LRec) (h : C.lg c.ifs f = pre ++ r :: post)
    (hsel : (C.tableT c).get? r.1 = some (f * c.ifs + (logBytes pre).length + 4)) :
    C.table.get? r.1 = some r.2 := by
  obtain ⟨rl, f0, pre0, post0, h1, h2, h3, h4, h5, h6⟩ := table_at hc hn2 r.1 _ hsel
  have hlt := C.lg_start_lt c.ifs hc.2.2.1 f pre post r h
  have h7 := localizeIdx_eq hc.2.2.1 hlt (by have := lastI_lt (c := c) hn2; unfold two32; omega : f < two32)
  rw [h7] at h6
  simp only [Prod.mk.injEq] at h6
  obtain ⟨h8, h9⟩ := h6
  subst h9
  rw [h] at h3
  obtain ⟨_, g2, _⟩ := log_split_unique h3 (by omega)
  rw [h1, g2]

/-- files that hold no current list are not changed -/
theorem lgU_not_in (hc : c.Legal) (hn2 : C.gens.length < 1073741824) (f : Nat) (hf : f ≤ C.lastI c)
    (hnot : f ∉ bucketFiles c.ifs (C.tableT c)) : C.lgU c f = C.lg c.ifs f := by
  unfold lgU lgR
  apply rmP_id
  intro pre r post h hsel
  exfalso
  apply hnot
  unfold pT at hsel
  simp only [decide_eq_true_eq, Nat.zero_add] at hsel
  have hlt := C.lg_start_lt c.ifs hc.2.2.1 f pre post r h
  have h7 := localizeIdx_eq hc.2.2.1 hlt (by have := lastI_lt (c := c) hn2; unfold two32; omega : f < two32)
  rw [mem_bucketFiles]
  refine ⟨(r.1, f * c.ifs + (logBytes pre).length + 4), NMap.mem_of_get? hsel, by simp, ?_⟩
  simp only [h7]

/-- without a remapper (single primary file below the limit) offsets are already right -/
theorem lgU_noremap (hc : c.Legal) (hwf : LegacyWFU c U C) (hn1 : C.recs.length < 1073741824)
    (hn2 : C.gens.length < 1073741824) (hnr : needRemap c.pfs (C.psizes c) = false)
    (f : Nat) (hf : f ≤ C.lastI c) : C.lgU c f = C.lg c.ifs f := by
  unfold lgU lgR
  apply rmP_id
  intro pre r post h hsel
  unfold pT at hsel
  simp only [decide_eq_true_eq, Nat.zero_add] at hsel
  have hcur := selected_current hc hn2 f hf pre post r h hsel
  unfold remapRL
  conv => rhs; rw [← List.map_id r.2]
  apply List.map_congr_left
  intro e he
  obtain ⟨i, key, val, dig, n, F, g, _, hblk, _, _, _, _, _, _, g9⟩ := remap_entry hc hwf hn1 r.1 r.2 hcur e he
  have hb := C.blockOf_off_lt hwf.recSize hn1 i
  rw [← hblk] at hb
  have hsmall : ¬ e.blk.off ≥ two64 / 2 := by unfold two64 at *; omega
  have : C.remapC c e.blk.off = some e.blk.off := by
    have hsome := g9
    unfold remapC remapOff at hsome ⊢
    rw [if_neg hsmall] at hsome ⊢
    cases hs : C.psizes c with
    | nil => rw [hs] at hsome; simp [remapOffset] at hsome
    | cons s rest =>
      rw [hs] at hnr hsome
      cases rest with
      | nil =>
        simp only [remapOffset] at hsome ⊢
        split at hsome
        · rename_i hlt; rw [if_pos hlt]; simp
        · cases hsome
      | cons s2 rest2 => simp [needRemap] at hnr
  rw [this]
  rfl

end LegacyC

end Sth
