import Sth.Lemmas.C11B3

/-!
C11 Q3c (4): the size invariant through reapRecords (the relocated copies are copies of record spans).
Core Lean only.
-/

namespace Sth.C11B

open Sth.C11 Sth.C13H Sth.C13X Sth.C11D

theorem lv_of_spans {d : Disk} {g : Nat} {ss : List GSpan} (hok : SpansLt ss)
    (h : fileOf d.pfiles g = gbytes ss) : lv d g = liveAt 0 ss := by
  unfold lv; rw [h, spansOf_gbytes hok]

/-- relocation pools a copy of the record span it is given -/
theorem relocate_pz {m m' : Mem} {d : Disk} {fnum at_ bs : Nat} {ss : List GSpan} {body : Bytes}
    (hx : (at_, body) ∈ liveAt 0 ss) (hok : SpansLt ss)
    (h : relocate m d fnum (gbytes ss) at_ bs = some m') :
    ∃ r, m'.pnext = m.pnext ++ [r] ∧ psz r = body.length := by
  have hblen : body.length < two31 := by
    obtain ⟨a, b, e, _⟩ := liveAt_split ss 0 at_ body hx
    apply hok ⟨false, body⟩
    rw [e]; simp
  obtain ⟨r1, r2⟩ := span_reads hx hblen
  obtain ⟨size, r, q1, q2, q3, _⟩ := relocate_pool h
  rw [r1] at q1
  cases q1
  rw [r2] at q2
  cases q2
  refine ⟨r, q3, ?_⟩
  unfold psz
  rw [← List.length_append]

section
variable {c : Cfg} {U : List (Bytes × Bytes)} {cfg : Cfg} {m : Mem} {d : Disk} {spec : Spec}
  {k B pf R : Nat} {psp : Nat → List GSpan}

/-- reapRecords on a closed file: what it pools is small, the record spans of the file stay -/
theorem reapRecords_b (hS : HState c U cfg m d spec k B pf psp) {nn : Nat} (h1 : pf ≤ nn)
    (h2 : nn < m.pfileNum) (lowUse : Nat) (hI : BInv R m d) :
    (∀ r ∈ (reapRecords m d nn lowUse).2.1.pnext, psz r ≤ R) ∧
      lv (reapRecords m d nn lowUse).2.2.1 nn = lv d nn := by
  have hfile : d.pfiles.get? nn = some (gbytes (psp nn)) := hS.gs.log.files nn h1 (by omega)
  have hlvd : lv d nn = liveAt 0 (psp nn) := lv_eq hS.gs h1 (by omega)
  unfold reapRecords
  rw [hfile]
  simp only
  by_cases hemp : (gbytes (psp nn)).isEmpty = true
  · rw [if_pos hemp]
    exact ⟨hI.pz, rfl⟩
  rw [if_neg hemp]
  obtain ⟨ss', hf', hR, hL, hdead⟩ := reapFile_ok (psp nn) (hS.gs.log.ok nn h1 (by omega))
  generalize reapPriLoop ((gbytes (psp nn)).length + 2) { file := gbytes (psp nn) } = st at hf' hL hdead ⊢
  have hfw : (if st.freeAt > st.busyAt then
        (truncateTo st.file st.freeAt.toNat, st.freeAtSize, decide (st.freeAt = 0))
      else (st.file, 0, false)) =
      (gbytes ss', (if st.freeAt > st.busyAt then st.freeAtSize else 0),
        (if st.freeAt > st.busyAt then decide (st.freeAt = 0) else false)) := by
    by_cases hc : st.freeAt > st.busyAt
    · rw [if_pos hc] at hf'; simp only [if_pos hc, hf']
    · rw [if_neg hc] at hf'; simp only [if_neg hc, hf']
  rw [hfw]
  simp only
  have hlvn : lv { d with pfiles := d.pfiles.set nn (gbytes ss') } nn = lv d nn := by
    rw [hlvd, ← hR.live]
    exact lv_of_spans hR.ok (fileOf_set_eq _ _ _)
  have hszn : ∀ x ∈ liveAt 0 ss', x.2.length ≤ R := by
    rw [hR.live, ← hlvd]; exact hI.sz nn
  by_cases hdd : (if st.freeAt > st.busyAt then decide (st.freeAt = 0) else false) = true
  · rw [if_pos hdd]
    exact ⟨hI.pz, hlvn⟩
  rw [if_neg hdd]
  by_cases hb1 : st.busyAt = -1
  · rw [if_pos hb1]
    exact ⟨hI.pz, hlvn⟩
  rw [if_neg hb1]
  by_cases hlow : ¬ 100 * st.totalFree ≥ lowUse * (st.totalFree + st.totalBusy)
  · rw [if_neg hlow]
    exact ⟨hI.pz, hlvn⟩
  rw [if_pos (Classical.not_not.mp hlow)]
  rcases hL with ⟨hb, _⟩ | ⟨pre, off, body, hl, hba, hbs, hprev⟩
  · exact absurd hb hb1
  have hx : (off, body) ∈ liveAt 0 ss' := by rw [hl]; simp
  have hoff : st.busyAt.toNat = off := by rw [hba]; rfl
  rw [hoff, hbs]
  cases hr1 : relocate m { d with pfiles := d.pfiles.set nn (gbytes ss') } nn (gbytes ss') off body.length with
  | none => exact ⟨hI.pz, hlvn⟩
  | some m1 =>
    simp only
    obtain ⟨r, e1, e2⟩ := relocate_pz hx hR.ok hr1
    have hpz1 : ∀ r ∈ m1.pnext, psz r ≤ R := by
      intro r' hr'
      rw [e1, List.mem_append, List.mem_singleton] at hr'
      rcases hr' with hr' | rfl
      · exact hI.pz r' hr'
      · rw [e2]; exact hszn _ hx
    rcases hprev with ⟨hp, _⟩ | ⟨pre', off', body', hl', hpa, hps⟩
    · have : ¬ st.prevBusyAt ≥ 0 := by rw [hp]; decide
      rw [if_neg this]
      exact ⟨hpz1, hlvn⟩
    · have : st.prevBusyAt ≥ 0 := by rw [hpa]; exact Int.natCast_nonneg _
      rw [if_pos this]
      have hoff' : st.prevBusyAt.toNat = off' := by rw [hpa]; rfl
      rw [hoff', hps]
      have hx' : (off', body') ∈ liveAt 0 ss' := by rw [hl, hl']; simp
      cases hr2 : relocate m1 { d with pfiles := d.pfiles.set nn (gbytes ss') } nn (gbytes ss') off'
          body'.length with
      | none => exact ⟨hpz1, hlvn⟩
      | some m2 =>
        simp only
        obtain ⟨r2, e1', e2'⟩ := relocate_pz hx' hR.ok hr2
        refine ⟨?_, hlvn⟩
        intro r' hr'
        rw [e1', List.mem_append, List.mem_singleton] at hr'
        rcases hr' with hr' | rfl
        · exact hpz1 r' hr'
        · rw [e2']; exact hszn _ hx'

end

end Sth.C11B
