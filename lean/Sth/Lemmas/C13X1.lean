import Sth.Lemmas.C13H10

/-!
C13 along GC histories, exactly once: nothing is recorded twice, and nothing a cycle has consumed is
ever recorded again.  This file: the relation of a state inside or after a step to the state before it,
the invariant with the ghost list `consumed`, and how one step keeps it.  Core Lean only.
-/

namespace Sth.C13X

open Sth.C11 Sth.C13H

section
variable {c : Cfg} {U : List (Bytes × Bytes)} {cfg : Cfg} {m : Mem} {d : Disk} {spec : Spec}
  {n B pf : Nat} {psp : Nat → List GSpan}

/-- the parsed freelist files are the lists of the invariant -/
theorem rec_lists (hS : GState c U cfg m d spec n B pf psp) :
    ∃ L1 L2, flEntries d = L1 ∧ flGcEntries d = L2 ∧
      d.free = some (L1.flatMap blockBytes) ∧
      ((d.freeGc = none ∧ L2 = []) ∨ d.freeGc = some (L2.flatMap blockBytes)) ∧
      ∀ fb ∈ m.flpool ++ L1 ++ L2, FreeOK m d pf psp fb := by
  obtain ⟨L1, L2, f1, f2, f3⟩ := hS.fl
  have hr1 : ∀ x ∈ L1, x.off < two64 ∧ x.size < two32 := by
    intro x hx
    obtain ⟨_, _, _, q4, q5⟩ := f3 x (by simp [hx])
    exact ⟨q4, q5⟩
  have hr2 : ∀ x ∈ L2, x.off < two64 ∧ x.size < two32 := by
    intro x hx
    obtain ⟨_, _, _, q4, q5⟩ := f3 x (by simp [hx])
    exact ⟨q4, q5⟩
  refine ⟨L1, L2, flEntries_of_flat (by rw [f1]; rfl) hr1, ?_, f1, f2, f3⟩
  rcases f2 with ⟨g1, g2⟩ | g1
  · subst g2
    exact flGcEntries_none g1
  · exact flGcEntries_of_flat (by rw [g1]; rfl) hr2

/-- every recorded block satisfies the freelist invariant's `FreeOK` -/
theorem rec_freeOK (hS : GState c U cfg m d spec n B pf psp) :
    ∀ b ∈ recordedG ⟨cfg, m, d⟩, FreeOK m d pf psp b := by
  intro b hb
  obtain ⟨L1, L2, e1, e2, _, _, f3⟩ := rec_lists hS
  rw [mem_recordedG] at hb
  show FreeOK m d pf psp b
  apply f3
  simp only [List.mem_append]
  have hb' : b ∈ flEntries d ∨ b ∈ flGcEntries d ∨ b ∈ m.flpool := hb
  rw [e1, e2] at hb'
  rcases hb' with h | h | h
  · exact Or.inl (Or.inr h)
  · exact Or.inr h
  · exact Or.inl (Or.inl h)

end

/-- how a state inside (or after) a step relates to the state before the step: the allocator only
    moves forward; every index entry is one from before or names a block allocated since; every
    recorded block was recorded before, or was an index entry's block before, or was allocated since;
    and nothing is recorded twice -/
structure Rel (cfg : Cfg) (m0 : Mem) (d0 : Disk) (m : Mem) (d : Disk) : Prop where
  below : ∀ blk, Below m0 blk → Below m blk
  ents : ∀ blk, IsEnt m d blk → IsEnt m0 d0 blk ∨ ¬ Below m0 blk
  recs : ∀ b ∈ recordedG ⟨cfg, m, d⟩, b ∈ recordedG ⟨cfg, m0, d0⟩ ∨ IsEnt m0 d0 b ∨ ¬ Below m0 b
  nodup : (recordedG ⟨cfg, m, d⟩).Nodup

theorem Rel.refl {cfg : Cfg} {m : Mem} {d : Disk} (h : (recordedG ⟨cfg, m, d⟩).Nodup) :
    Rel cfg m d m d :=
  ⟨fun _ h => h, fun _ h => Or.inl h, fun _ h => Or.inl h, h⟩

theorem Rel.trans {cfg : Cfg} {m0 m1 m2 : Mem} {d0 d1 d2 : Disk} (h1 : Rel cfg m0 d0 m1 d1)
    (h2 : Rel cfg m1 d1 m2 d2) : Rel cfg m0 d0 m2 d2 := by
  refine ⟨fun blk h => h2.below blk (h1.below blk h), ?_, ?_, h2.nodup⟩
  · intro blk hb
    rcases h2.ents blk hb with h | h
    · exact h1.ents blk h
    · exact Or.inr (fun hc => h (h1.below blk hc))
  · intro b hb
    rcases h2.recs b hb with h | h | h
    · exact h1.recs b h
    · exact Or.inr (h1.ents b h)
    · exact Or.inr (Or.inr (fun hc => h (h1.below b hc)))

/-- the exactly-once invariant: `cons` is the ghost list of the blocks primary GC cycles have consumed
    (applied and dropped from the hand-over file) -/
structure XInv (s : SState) (cons : List Block) : Prop where
  nodup : (recordedG s).Nodup
  cnodup : cons.Nodup
  disj : ∀ b ∈ cons, b ∉ recordedG s
  cbelow : ∀ b ∈ cons, Below s.m b
  cnot : ∀ b ∈ cons, ∀ blk, IsEnt s.m s.d blk → blk.off ≠ b.off

/-- what a step consumes: the blocks that were recorded before it and are not recorded after it -/
def consumedBy (s s' : SState) : List Block :=
  (recordedG s).filter (fun b => decide (b ∉ recordedG s'))

/-- one step keeps the invariant -/
theorem XInv.step {c : Cfg} {U : List (Bytes × Bytes)} {s s' : SState} {spec : Spec} {n B : Nat}
    {cons : List Block} (hG : GInv c U s spec n B) (hX : XInv s cons) (_hcfg : s'.cfg = s.cfg)
    (hR : Rel s.cfg s.m s.d s'.m s'.d) : XInv s' (cons ++ consumedBy s s') := by
  obtain ⟨pf, psp, hS⟩ := hG.state
  have hfree := rec_freeOK hS
  have hs' : recordedG s' = recordedG ⟨s.cfg, s'.m, s'.d⟩ := by
    unfold recordedG; rfl
  have hmemc : ∀ b, b ∈ consumedBy s s' ↔ b ∈ recordedG s ∧ b ∉ recordedG s' := by
    intro b
    unfold consumedBy
    rw [List.mem_filter]
    simp
  -- a block that was recorded or consumed before the step is below the old allocator and not current
  have hold : ∀ b, b ∈ cons ∨ b ∈ recordedG s → Below s.m b ∧
      ∀ blk, IsEnt s.m s.d blk → blk.off ≠ b.off := by
    intro b hb
    rcases hb with hb | hb
    · exact ⟨hX.cbelow b hb, hX.cnot b hb⟩
    · obtain ⟨q1, q2, _⟩ := hfree b hb
      exact ⟨q1, q2⟩
  have hnew : ∀ b, b ∈ cons ∨ b ∈ recordedG s → Below s'.m b ∧
      ∀ blk, IsEnt s'.m s'.d blk → blk.off ≠ b.off := by
    intro b hb
    obtain ⟨h1, h2⟩ := hold b hb
    refine ⟨hR.below b h1, ?_⟩
    intro blk hblk hoff
    rcases hR.ents blk hblk with h | h
    · exact h2 blk h hoff
    · exact h (below_of_off (m := s.m) hoff h1)
  refine ⟨by rw [hs']; exact hR.nodup, ?_, ?_, ?_, ?_⟩
  · rw [List.nodup_append]
    refine ⟨hX.cnodup, (hX.nodup.sublist List.filter_sublist), ?_⟩
    intro a ha b hb hab
    subst hab
    exact hX.disj a ha ((hmemc a).mp hb).1
  · intro b hb
    rw [List.mem_append] at hb
    rcases hb with hb | hb
    · intro hc
      rw [hs'] at hc
      obtain ⟨h1, h2⟩ := hold b (Or.inl hb)
      rcases hR.recs b hc with h | h | h
      · exact hX.disj b hb h
      · exact h2 b h rfl
      · exact h h1
    · exact ((hmemc b).mp hb).2
  · intro b hb
    rw [List.mem_append] at hb
    rcases hb with hb | hb
    · exact (hnew b (Or.inl hb)).1
    · exact (hnew b (Or.inr ((hmemc b).mp hb).1)).1
  · intro b hb
    rw [List.mem_append] at hb
    rcases hb with hb | hb
    · exact (hnew b (Or.inl hb)).2
    · exact (hnew b (Or.inr ((hmemc b).mp hb).1)).2

end Sth.C13X
